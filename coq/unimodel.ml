
(** val negb : bool -> bool **)

let negb = function
| true -> false
| false -> true

(** val fst : ('a1 * 'a2) -> 'a1 **)

let fst = function
| (x, _) -> x

(** val snd : ('a1 * 'a2) -> 'a2 **)

let snd = function
| (_, y) -> y

(** val app : 'a1 list -> 'a1 list -> 'a1 list **)

let rec app l m =
  match l with
  | [] -> m
  | a :: l1 -> a :: (app l1 m)

type comparison =
| Eq
| Lt
| Gt

(** val compOpp : comparison -> comparison **)

let compOpp = function
| Eq -> Eq
| Lt -> Gt
| Gt -> Lt

(** val rev : 'a1 list -> 'a1 list **)

let rec rev = function
| [] -> []
| x :: l' -> app (rev l') (x :: [])

(** val map : ('a1 -> 'a2) -> 'a1 list -> 'a2 list **)

let rec map f = function
| [] -> []
| a :: t0 -> (f a) :: (map f t0)

(** val flat_map : ('a1 -> 'a2 list) -> 'a1 list -> 'a2 list **)

let rec flat_map f = function
| [] -> []
| x :: t0 -> app (f x) (flat_map f t0)

(** val fold_right : ('a2 -> 'a1 -> 'a1) -> 'a1 -> 'a2 list -> 'a1 **)

let rec fold_right f a0 = function
| [] -> a0
| b :: t0 -> f b (fold_right f a0 t0)

(** val existsb : ('a1 -> bool) -> 'a1 list -> bool **)

let rec existsb f = function
| [] -> false
| a :: l0 -> (||) (f a) (existsb f l0)

type positive =
| XI of positive
| XO of positive
| XH

type z =
| Z0
| Zpos of positive
| Zneg of positive

module Pos =
 struct
  (** val succ : positive -> positive **)

  let rec succ = function
  | XI p -> XO (succ p)
  | XO p -> XI p
  | XH -> XO XH

  (** val add : positive -> positive -> positive **)

  let rec add x y =
    match x with
    | XI p ->
      (match y with
       | XI q -> XO (add_carry p q)
       | XO q -> XI (add p q)
       | XH -> XO (succ p))
    | XO p ->
      (match y with
       | XI q -> XI (add p q)
       | XO q -> XO (add p q)
       | XH -> XI p)
    | XH -> (match y with
             | XI q -> XO (succ q)
             | XO q -> XI q
             | XH -> XO XH)

  (** val add_carry : positive -> positive -> positive **)

  and add_carry x y =
    match x with
    | XI p ->
      (match y with
       | XI q -> XI (add_carry p q)
       | XO q -> XO (add_carry p q)
       | XH -> XI (succ p))
    | XO p ->
      (match y with
       | XI q -> XO (add_carry p q)
       | XO q -> XI (add p q)
       | XH -> XO (succ p))
    | XH ->
      (match y with
       | XI q -> XI (succ q)
       | XO q -> XO (succ q)
       | XH -> XI XH)

  (** val pred_double : positive -> positive **)

  let rec pred_double = function
  | XI p -> XI (XO p)
  | XO p -> XI (pred_double p)
  | XH -> XH

  (** val mul : positive -> positive -> positive **)

  let rec mul x y =
    match x with
    | XI p -> add y (XO (mul p y))
    | XO p -> XO (mul p y)
    | XH -> y

  (** val compare_cont : comparison -> positive -> positive -> comparison **)

  let rec compare_cont r x y =
    match x with
    | XI p ->
      (match y with
       | XI q -> compare_cont r p q
       | XO q -> compare_cont Gt p q
       | XH -> Gt)
    | XO p ->
      (match y with
       | XI q -> compare_cont Lt p q
       | XO q -> compare_cont r p q
       | XH -> Gt)
    | XH -> (match y with
             | XH -> r
             | _ -> Lt)

  (** val compare : positive -> positive -> comparison **)

  let compare =
    compare_cont Eq

  (** val eqb : positive -> positive -> bool **)

  let rec eqb p q =
    match p with
    | XI p0 -> (match q with
                | XI q0 -> eqb p0 q0
                | _ -> false)
    | XO p0 -> (match q with
                | XO q0 -> eqb p0 q0
                | _ -> false)
    | XH -> (match q with
             | XH -> true
             | _ -> false)
 end

module Z =
 struct
  (** val double : z -> z **)

  let double = function
  | Z0 -> Z0
  | Zpos p -> Zpos (XO p)
  | Zneg p -> Zneg (XO p)

  (** val succ_double : z -> z **)

  let succ_double = function
  | Z0 -> Zpos XH
  | Zpos p -> Zpos (XI p)
  | Zneg p -> Zneg (Pos.pred_double p)

  (** val pred_double : z -> z **)

  let pred_double = function
  | Z0 -> Zneg XH
  | Zpos p -> Zpos (Pos.pred_double p)
  | Zneg p -> Zneg (XI p)

  (** val pos_sub : positive -> positive -> z **)

  let rec pos_sub x y =
    match x with
    | XI p ->
      (match y with
       | XI q -> double (pos_sub p q)
       | XO q -> succ_double (pos_sub p q)
       | XH -> Zpos (XO p))
    | XO p ->
      (match y with
       | XI q -> pred_double (pos_sub p q)
       | XO q -> double (pos_sub p q)
       | XH -> Zpos (Pos.pred_double p))
    | XH ->
      (match y with
       | XI q -> Zneg (XO q)
       | XO q -> Zneg (Pos.pred_double q)
       | XH -> Z0)

  (** val add : z -> z -> z **)

  let add x y =
    match x with
    | Z0 -> y
    | Zpos x' ->
      (match y with
       | Z0 -> x
       | Zpos y' -> Zpos (Pos.add x' y')
       | Zneg y' -> pos_sub x' y')
    | Zneg x' ->
      (match y with
       | Z0 -> x
       | Zpos y' -> pos_sub y' x'
       | Zneg y' -> Zneg (Pos.add x' y'))

  (** val opp : z -> z **)

  let opp = function
  | Z0 -> Z0
  | Zpos x0 -> Zneg x0
  | Zneg x0 -> Zpos x0

  (** val sub : z -> z -> z **)

  let sub m n =
    add m (opp n)

  (** val mul : z -> z -> z **)

  let mul x y =
    match x with
    | Z0 -> Z0
    | Zpos x' ->
      (match y with
       | Z0 -> Z0
       | Zpos y' -> Zpos (Pos.mul x' y')
       | Zneg y' -> Zneg (Pos.mul x' y'))
    | Zneg x' ->
      (match y with
       | Z0 -> Z0
       | Zpos y' -> Zneg (Pos.mul x' y')
       | Zneg y' -> Zpos (Pos.mul x' y'))

  (** val compare : z -> z -> comparison **)

  let compare x y =
    match x with
    | Z0 -> (match y with
             | Z0 -> Eq
             | Zpos _ -> Lt
             | Zneg _ -> Gt)
    | Zpos x' -> (match y with
                  | Zpos y' -> Pos.compare x' y'
                  | _ -> Gt)
    | Zneg x' ->
      (match y with
       | Zneg y' -> compOpp (Pos.compare x' y')
       | _ -> Lt)

  (** val leb : z -> z -> bool **)

  let leb x y =
    match compare x y with
    | Gt -> false
    | _ -> true

  (** val ltb : z -> z -> bool **)

  let ltb x y =
    match compare x y with
    | Lt -> true
    | _ -> false

  (** val eqb : z -> z -> bool **)

  let eqb x y =
    match x with
    | Z0 -> (match y with
             | Z0 -> true
             | _ -> false)
    | Zpos p -> (match y with
                 | Zpos q -> Pos.eqb p q
                 | _ -> false)
    | Zneg p -> (match y with
                 | Zneg q -> Pos.eqb p q
                 | _ -> false)

  (** val max : z -> z -> z **)

  let max n m =
    match compare n m with
    | Lt -> m
    | _ -> n

  (** val to_pos : z -> positive **)

  let to_pos = function
  | Zpos p -> p
  | _ -> XH

  (** val pos_div_eucl : positive -> z -> z * z **)

  let rec pos_div_eucl a b =
    match a with
    | XI a' ->
      let (q, r) = pos_div_eucl a' b in
      let r' = add (mul (Zpos (XO XH)) r) (Zpos XH) in
      if ltb r' b
      then ((mul (Zpos (XO XH)) q), r')
      else ((add (mul (Zpos (XO XH)) q) (Zpos XH)), (sub r' b))
    | XO a' ->
      let (q, r) = pos_div_eucl a' b in
      let r' = mul (Zpos (XO XH)) r in
      if ltb r' b
      then ((mul (Zpos (XO XH)) q), r')
      else ((add (mul (Zpos (XO XH)) q) (Zpos XH)), (sub r' b))
    | XH -> if leb (Zpos (XO XH)) b then (Z0, (Zpos XH)) else ((Zpos XH), Z0)

  (** val div_eucl : z -> z -> z * z **)

  let div_eucl a b =
    match a with
    | Z0 -> (Z0, Z0)
    | Zpos a' ->
      (match b with
       | Z0 -> (Z0, a)
       | Zpos _ -> pos_div_eucl a' b
       | Zneg b' ->
         let (q, r) = pos_div_eucl a' (Zpos b') in
         (match r with
          | Z0 -> ((opp q), Z0)
          | _ -> ((opp (add q (Zpos XH))), (add b r))))
    | Zneg a' ->
      (match b with
       | Z0 -> (Z0, a)
       | Zpos _ ->
         let (q, r) = pos_div_eucl a' b in
         (match r with
          | Z0 -> ((opp q), Z0)
          | _ -> ((opp (add q (Zpos XH))), (sub b r)))
       | Zneg b' -> let (q, r) = pos_div_eucl a' (Zpos b') in (q, (opp r)))

  (** val div : z -> z -> z **)

  let div a b =
    let (q, _) = div_eucl a b in q

  (** val modulo : z -> z -> z **)

  let modulo a b =
    let (_, r) = div_eucl a b in r
 end

module PositiveMap =
 struct
  type key = positive

  type 'a tree =
  | Leaf
  | Node of 'a tree * 'a option * 'a tree

  type 'a t = 'a tree

  (** val empty : 'a1 t **)

  let empty =
    Leaf

  (** val find : key -> 'a1 t -> 'a1 option **)

  let rec find i = function
  | Leaf -> None
  | Node (l, o, r) ->
    (match i with
     | XI ii -> find ii r
     | XO ii -> find ii l
     | XH -> o)

  (** val add : key -> 'a1 -> 'a1 t -> 'a1 t **)

  let rec add i v = function
  | Leaf ->
    (match i with
     | XI ii -> Node (Leaf, None, (add ii v Leaf))
     | XO ii -> Node ((add ii v Leaf), None, Leaf)
     | XH -> Node (Leaf, (Some v), Leaf))
  | Node (l, o, r) ->
    (match i with
     | XI ii -> Node (l, o, (add ii v r))
     | XO ii -> Node ((add ii v l), o, r)
     | XH -> Node (l, (Some v), r))
 end

(** val key0 : z -> positive **)

let key0 z0 =
  Z.to_pos (Z.add z0 (Zpos XH))

(** val mk_map : (z * 'a1) list -> 'a1 PositiveMap.t **)

let mk_map l =
  fold_right (fun kv m -> PositiveMap.add (key0 (fst kv)) (snd kv) m)
    PositiveMap.empty l

(** val pair_key : z -> z -> z **)

let pair_key a b =
  Z.add
    (Z.mul a (Zpos (XO (XO (XO (XO (XO (XO (XO (XO (XO (XO (XO (XO (XO (XO
      (XO (XO (XO (XO (XO (XO (XO XH))))))))))))))))))))))) b

type tables = { t_decomp : z list PositiveMap.t; t_ccc : z PositiveMap.t;
                t_comp : z PositiveMap.t; t_excl : unit PositiveMap.t }

(** val build :
    (z * z list) list -> (z * z) list -> ((z * z) * z) list -> z list ->
    tables **)

let build d c p x =
  { t_decomp = (mk_map d); t_ccc = (mk_map c); t_comp =
    (mk_map
      (map (fun e -> ((pair_key (fst (fst e)) (snd (fst e))), (snd e))) p));
    t_excl = (mk_map (map (fun z0 -> (z0, ())) x)) }

(** val sBase : z **)

let sBase =
  Zpos (XO (XO (XO (XO (XO (XO (XO (XO (XO (XO (XI (XI (XO (XI (XO
    XH)))))))))))))))

(** val lBase : z **)

let lBase =
  Zpos (XO (XO (XO (XO (XO (XO (XO (XO (XI (XO (XO (XO XH))))))))))))

(** val vBase : z **)

let vBase =
  Zpos (XI (XO (XO (XO (XO (XI (XI (XO (XI (XO (XO (XO XH))))))))))))

(** val tBase : z **)

let tBase =
  Zpos (XI (XI (XI (XO (XO (XI (XO (XI (XI (XO (XO (XO XH))))))))))))

(** val lCount : z **)

let lCount =
  Zpos (XI (XI (XO (XO XH))))

(** val vCount : z **)

let vCount =
  Zpos (XI (XO (XI (XO XH))))

(** val tCount : z **)

let tCount =
  Zpos (XO (XO (XI (XI XH))))

(** val nCount : z **)

let nCount =
  Z.mul vCount tCount

(** val sCount : z **)

let sCount =
  Z.mul lCount nCount

(** val is_S : z -> bool **)

let is_S c =
  (&&) (Z.leb sBase c) (Z.ltb c (Z.add sBase sCount))

(** val is_L : z -> bool **)

let is_L c =
  (&&) (Z.leb lBase c) (Z.ltb c (Z.add lBase lCount))

(** val is_V : z -> bool **)

let is_V c =
  (&&) (Z.leb vBase c) (Z.ltb c (Z.add vBase vCount))

(** val is_T : z -> bool **)

let is_T c =
  (&&) (Z.leb (Z.add tBase (Zpos XH)) c) (Z.ltb c (Z.add tBase tCount))

(** val is_LV : z -> bool **)

let is_LV c =
  (&&) (is_S c) (Z.eqb (Z.modulo (Z.sub c sBase) tCount) Z0)

(** val hangul_decomp : z -> z list **)

let hangul_decomp c =
  let s = Z.sub c sBase in
  let l = Z.add lBase (Z.div s nCount) in
  let v = Z.add vBase (Z.div (Z.modulo s nCount) tCount) in
  let t0 = Z.add tBase (Z.modulo s tCount) in
  if Z.eqb t0 tBase then l :: (v :: []) else l :: (v :: (t0 :: []))

(** val ccc : tables -> z -> z **)

let ccc t0 c =
  if Z.ltb c Z0
  then Z0
  else (match PositiveMap.find (key0 c) t0.t_ccc with
        | Some v -> Z.max Z0 v
        | None -> Z0)

(** val decomp : tables -> z -> z list **)

let decomp t0 c =
  if is_S c
  then hangul_decomp c
  else if Z.ltb c Z0
       then c :: []
       else (match PositiveMap.find (key0 c) t0.t_decomp with
             | Some v -> v
             | None -> c :: [])

(** val excluded : tables -> z -> bool **)

let excluded t0 c =
  match PositiveMap.find (key0 c) t0.t_excl with
  | Some _ -> true
  | None -> false

(** val composite : tables -> z -> z -> z **)

let composite t0 a b =
  if (&&) (is_L a) (is_V b)
  then Z.add sBase
         (Z.mul (Z.add (Z.mul (Z.sub a lBase) vCount) (Z.sub b vBase)) tCount)
  else if (&&) (is_LV a) (is_T b)
       then Z.add a (Z.sub b tBase)
       else if (||) (Z.ltb a Z0) (Z.ltb b Z0)
            then Z0
            else (match PositiveMap.find (key0 (pair_key a b)) t0.t_comp with
                  | Some v -> v
                  | None -> Z0)

(** val compose2 : tables -> z -> z -> z option **)

let compose2 t0 a b =
  let c = composite t0 a b in
  if (||) (Z.eqb c Z0) (excluded t0 c) then None else Some c

(** val ins : tables -> z -> z list -> z list **)

let rec ins t0 c l = match l with
| [] -> c :: []
| d :: t1 ->
  if (&&) (Z.ltb Z0 (ccc t0 d)) (Z.ltb (ccc t0 d) (ccc t0 c))
  then d :: (ins t0 c t1)
  else c :: l

(** val reorder : tables -> z list -> z list **)

let reorder t0 s =
  fold_right (ins t0) [] s

(** val nfd : tables -> z list -> z list **)

let nfd t0 s =
  reorder t0 (flat_map (decomp t0) s)

type cst = { c_valid : bool; c_S : z; c_pre : z; c_seq : z list;
             c_out : z list }

(** val cinit : cst **)

let cinit =
  { c_valid = false; c_S = Z0; c_pre = Z0; c_seq = []; c_out = [] }

(** val flush : cst -> z -> cst **)

let flush st cp =
  { c_valid = st.c_valid; c_S = cp; c_pre = st.c_pre; c_seq = []; c_out =
    (app st.c_out (app (st.c_S :: []) st.c_seq)) }

(** val cstep : tables -> cst -> z -> bool -> cst **)

let cstep t0 st cp last =
  let cur = ccc t0 cp in
  if negb st.c_valid
  then if Z.eqb cur Z0
       then let st' = { c_valid = true; c_S = cp; c_pre = st.c_pre; c_seq =
              st.c_seq; c_out = st.c_out }
            in
            if last then flush st' cp else st'
       else { c_valid = false; c_S = st.c_S; c_pre = st.c_pre; c_seq =
              st.c_seq; c_out = (app st.c_out (cp :: [])) }
  else let blocked =
         (||) ((&&) (negb (Z.eqb cur Z0)) (Z.eqb st.c_pre cur))
           (Z.ltb cur st.c_pre)
       in
       (match if blocked then None else compose2 t0 st.c_S cp with
        | Some comp ->
          let st' = { c_valid = true; c_S = comp; c_pre = st.c_pre; c_seq =
            st.c_seq; c_out = st.c_out }
          in
          if last then flush st' cp else st'
        | None ->
          let seq' =
            if (||) (negb (Z.eqb cur Z0)) last
            then app st.c_seq (cp :: [])
            else st.c_seq
          in
          let st' = { c_valid = true; c_S = st.c_S; c_pre = cur; c_seq =
            seq'; c_out = st.c_out }
          in
          if (&&) (negb (Z.eqb cur Z0)) (negb last) then st' else flush st' cp)

(** val crun : tables -> cst -> z list -> cst **)

let rec crun t0 st = function
| [] -> st
| c :: t1 ->
  (match t1 with
   | [] -> cstep t0 st c true
   | _ :: _ -> crun t0 (cstep t0 st c false) t1)

(** val compose : tables -> z list -> z list **)

let compose t0 s =
  (crun t0 cinit s).c_out

(** val nfc : tables -> z list -> z list **)

let nfc t0 s =
  compose t0 (nfd t0 s)

(** val ref_go :
    tables -> z list -> z option -> z list -> z list -> z list **)

let rec ref_go t0 out s pend = function
| [] -> app out (app (match s with
                      | Some x -> x :: []
                      | None -> []) (rev pend))
| c :: t1 ->
  (match s with
   | Some x ->
     let blocked =
       existsb (fun b ->
         (||) (Z.eqb (ccc t0 b) Z0) (Z.leb (ccc t0 c) (ccc t0 b))) pend
     in
     (match if blocked then None else compose2 t0 x c with
      | Some y -> ref_go t0 out (Some y) pend t1
      | None ->
        if Z.eqb (ccc t0 c) Z0
        then ref_go t0 (app out (app (x :: []) (rev pend))) (Some c) [] t1
        else ref_go t0 out s (c :: pend) t1)
   | None ->
     if Z.eqb (ccc t0 c) Z0
     then ref_go t0 out (Some c) [] t1
     else ref_go t0 (app out (c :: [])) None [] t1)

(** val ref_compose : tables -> z list -> z list **)

let ref_compose t0 s =
  ref_go t0 [] None [] s

(** val impl_decomp : (z * z list) list **)

let impl_decomp =
  ((Zpos (XO (XO (XO (XO (XO (XO (XI XH)))))))), ((Zpos (XI (XO (XO (XO (XO
    (XO XH))))))) :: ((Zpos (XO (XO (XO (XO (XO (XO (XO (XO (XI
    XH)))))))))) :: []))) :: (((Zpos (XI (XO (XO (XO (XO (XO (XI XH)))))))),
    ((Zpos (XI (XO (XO (XO (XO (XO XH))))))) :: ((Zpos (XI (XO (XO (XO (XO
    (XO (XO (XO (XI XH)))))))))) :: []))) :: (((Zpos (XO (XI (XO (XO (XO (XO
    (XI XH)))))))), ((Zpos (XI (XO (XO (XO (XO (XO XH))))))) :: ((Zpos (XO
    (XI (XO (XO (XO (XO (XO (XO (XI XH)))))))))) :: []))) :: (((Zpos (XI (XI
    (XO (XO (XO (XO (XI XH)))))))), ((Zpos (XI (XO (XO (XO (XO (XO
    XH))))))) :: ((Zpos (XI (XI (XO (XO (XO (XO (XO (XO (XI
    XH)))))))))) :: []))) :: (((Zpos (XO (XO (XI (XO (XO (XO (XI XH)))))))),
    ((Zpos (XI (XO (XO (XO (XO (XO XH))))))) :: ((Zpos (XO (XO (XO (XI (XO
    (XO (XO (XO (XI XH)))))))))) :: []))) :: (((Zpos (XI (XO (XI (XO (XO (XO
    (XI XH)))))))), ((Zpos (XI (XO (XO (XO (XO (XO XH))))))) :: ((Zpos (XO
    (XI (XO (XI (XO (XO (XO (XO (XI XH)))))))))) :: []))) :: (((Zpos (XI (XI
    (XI (XO (XO (XO (XI XH)))))))), ((Zpos (XI (XI (XO (XO (XO (XO
    XH))))))) :: ((Zpos (XI (XI (XI (XO (XO (XI (XO (XO (XI
    XH)))))))))) :: []))) :: (((Zpos (XO (XO (XO (XI (XO (XO (XI XH)))))))),
    ((Zpos (XI (XO (XI (XO (XO (XO XH))))))) :: ((Zpos (XO (XO (XO (XO (XO
    (XO (XO (XO (XI XH)))))))))) :: []))) :: (((Zpos (XI (XO (XO (XI (XO (XO
    (XI XH)))))))), ((Zpos (XI (XO (XI (XO (XO (XO XH))))))) :: ((Zpos (XI
    (XO (XO (XO (XO (XO (XO (XO (XI XH)))))))))) :: []))) :: (((Zpos (XO (XI
    (XO (XI (XO (XO (XI XH)))))))), ((Zpos (XI (XO (XI (XO (XO (XO
    XH))))))) :: ((Zpos (XO (XI (XO (XO (XO (XO (XO (XO (XI
    XH)))))))))) :: []))) :: (((Zpos (XI (XI (XO (XI (XO (XO (XI XH)))))))),
    ((Zpos (XI (XO (XI (XO (XO (XO XH))))))) :: ((Zpos (XO (XO (XO (XI (XO
    (XO (XO (XO (XI XH)))))))))) :: []))) :: (((Zpos (XO (XO (XI (XI (XO (XO
    (XI XH)))))))), ((Zpos (XI (XO (XO (XI (XO (XO XH))))))) :: ((Zpos (XO
    (XO (XO (XO (XO (XO (XO (XO (XI XH)))))))))) :: []))) :: (((Zpos (XI (XO
    (XI (XI (XO (XO (XI XH)))))))), ((Zpos (XI (XO (XO (XI (XO (XO
    XH))))))) :: ((Zpos (XI (XO (XO (XO (XO (XO (XO (XO (XI
    XH)))))))))) :: []))) :: (((Zpos (XO (XI (XI (XI (XO (XO (XI XH)))))))),
    ((Zpos (XI (XO (XO (XI (XO (XO XH))))))) :: ((Zpos (XO (XI (XO (XO (XO
    (XO (XO (XO (XI XH)))))))))) :: []))) :: (((Zpos (XI (XI (XI (XI (XO (XO
    (XI XH)))))))), ((Zpos (XI (XO (XO (XI (XO (XO XH))))))) :: ((Zpos (XO
    (XO (XO (XI (XO (XO (XO (XO (XI XH)))))))))) :: []))) :: (((Zpos (XI (XO
    (XO (XO (XI (XO (XI XH)))))))), ((Zpos (XO (XI (XI (XI (XO (XO
    XH))))))) :: ((Zpos (XI (XI (XO (XO (XO (XO (XO (XO (XI
    XH)))))))))) :: []))) :: (((Zpos (XO (XI (XO (XO (XI (XO (XI XH)))))))),
    ((Zpos (XI (XI (XI (XI (XO (XO XH))))))) :: ((Zpos (XO (XO (XO (XO (XO
    (XO (XO (XO (XI XH)))))))))) :: []))) :: (((Zpos (XI (XI (XO (XO (XI (XO
    (XI XH)))))))), ((Zpos (XI (XI (XI (XI (XO (XO XH))))))) :: ((Zpos (XI
    (XO (XO (XO (XO (XO (XO (XO (XI XH)))))))))) :: []))) :: (((Zpos (XO (XO
    (XI (XO (XI (XO (XI XH)))))))), ((Zpos (XI (XI (XI (XI (XO (XO
    XH))))))) :: ((Zpos (XO (XI (XO (XO (XO (XO (XO (XO (XI
    XH)))))))))) :: []))) :: (((Zpos (XI (XO (XI (XO (XI (XO (XI XH)))))))),
    ((Zpos (XI (XI (XI (XI (XO (XO XH))))))) :: ((Zpos (XI (XI (XO (XO (XO
    (XO (XO (XO (XI XH)))))))))) :: []))) :: (((Zpos (XO (XI (XI (XO (XI (XO
    (XI XH)))))))), ((Zpos (XI (XI (XI (XI (XO (XO XH))))))) :: ((Zpos (XO
    (XO (XO (XI (XO (XO (XO (XO (XI XH)))))))))) :: []))) :: (((Zpos (XI (XO
    (XO (XI (XI (XO (XI XH)))))))), ((Zpos (XI (XO (XI (XO (XI (XO
    XH))))))) :: ((Zpos (XO (XO (XO (XO (XO (XO (XO (XO (XI
    XH)))))))))) :: []))) :: (((Zpos (XO (XI (XO (XI (XI (XO (XI XH)))))))),
    ((Zpos (XI (XO (XI (XO (XI (XO XH))))))) :: ((Zpos (XI (XO (XO (XO (XO
    (XO (XO (XO (XI XH)))))))))) :: []))) :: (((Zpos (XI (XI (XO (XI (XI (XO
    (XI XH)))))))), ((Zpos (XI (XO (XI (XO (XI (XO XH))))))) :: ((Zpos (XO
    (XI (XO (XO (XO (XO (XO (XO (XI XH)))))))))) :: []))) :: (((Zpos (XO (XO
    (XI (XI (XI (XO (XI XH)))))))), ((Zpos (XI (XO (XI (XO (XI (XO
    XH))))))) :: ((Zpos (XO (XO (XO (XI (XO (XO (XO (XO (XI
    XH)))))))))) :: []))) :: (((Zpos (XI (XO (XI (XI (XI (XO (XI XH)))))))),
    ((Zpos (XI (XO (XO (XI (XI (XO XH))))))) :: ((Zpos (XI (XO (XO (XO (XO
    (XO (XO (XO (XI XH)))))))))) :: []))) :: (((Zpos (XO (XO (XO (XO (XO (XI
    (XI XH)))))))), ((Zpos (XI (XO (XO (XO (XO (XI XH))))))) :: ((Zpos (XO
    (XO (XO (XO (XO (XO (XO (XO (XI XH)))))))))) :: []))) :: (((Zpos (XI (XO
    (XO (XO (XO (XI (XI XH)))))))), ((Zpos (XI (XO (XO (XO (XO (XI
    XH))))))) :: ((Zpos (XI (XO (XO (XO (XO (XO (XO (XO (XI
    XH)))))))))) :: []))) :: (((Zpos (XO (XI (XO (XO (XO (XI (XI XH)))))))),
    ((Zpos (XI (XO (XO (XO (XO (XI XH))))))) :: ((Zpos (XO (XI (XO (XO (XO
    (XO (XO (XO (XI XH)))))))))) :: []))) :: (((Zpos (XI (XI (XO (XO (XO (XI
    (XI XH)))))))), ((Zpos (XI (XO (XO (XO (XO (XI XH))))))) :: ((Zpos (XI
    (XI (XO (XO (XO (XO (XO (XO (XI XH)))))))))) :: []))) :: (((Zpos (XO (XO
    (XI (XO (XO (XI (XI XH)))))))), ((Zpos (XI (XO (XO (XO (XO (XI
    XH))))))) :: ((Zpos (XO (XO (XO (XI (XO (XO (XO (XO (XI
    XH)))))))))) :: []))) :: (((Zpos (XI (XO (XI (XO (XO (XI (XI XH)))))))),
    ((Zpos (XI (XO (XO (XO (XO (XI XH))))))) :: ((Zpos (XO (XI (XO (XI (XO
    (XO (XO (XO (XI XH)))))))))) :: []))) :: (((Zpos (XI (XI (XI (XO (XO (XI
    (XI XH)))))))), ((Zpos (XI (XI (XO (XO (XO (XI XH))))))) :: ((Zpos (XI
    (XI (XI (XO (XO (XI (XO (XO (XI XH)))))))))) :: []))) :: (((Zpos (XO (XO
    (XO (XI (XO (XI (XI XH)))))))), ((Zpos (XI (XO (XI (XO (XO (XI
    XH))))))) :: ((Zpos (XO (XO (XO (XO (XO (XO (XO (XO (XI
    XH)))))))))) :: []))) :: (((Zpos (XI (XO (XO (XI (XO (XI (XI XH)))))))),
    ((Zpos (XI (XO (XI (XO (XO (XI XH))))))) :: ((Zpos (XI (XO (XO (XO (XO
    (XO (XO (XO (XI XH)))))))))) :: []))) :: (((Zpos (XO (XI (XO (XI (XO (XI
    (XI XH)))))))), ((Zpos (XI (XO (XI (XO (XO (XI XH))))))) :: ((Zpos (XO
    (XI (XO (XO (XO (XO (XO (XO (XI XH)))))))))) :: []))) :: (((Zpos (XI (XI
    (XO (XI (XO (XI (XI XH)))))))), ((Zpos (XI (XO (XI (XO (XO (XI
    XH))))))) :: ((Zpos (XO (XO (XO (XI (XO (XO (XO (XO (XI
    XH)))))))))) :: []))) :: (((Zpos (XO (XO (XI (XI (XO (XI (XI XH)))))))),
    ((Zpos (XI (XO (XO (XI (XO (XI XH))))))) :: ((Zpos (XO (XO (XO (XO (XO
    (XO (XO (XO (XI XH)))))))))) :: []))) :: (((Zpos (XI (XO (XI (XI (XO (XI
    (XI XH)))))))), ((Zpos (XI (XO (XO (XI (XO (XI XH))))))) :: ((Zpos (XI
    (XO (XO (XO (XO (XO (XO (XO (XI XH)))))))))) :: []))) :: (((Zpos (XO (XI
    (XI (XI (XO (XI (XI XH)))))))), ((Zpos (XI (XO (XO (XI (XO (XI
    XH))))))) :: ((Zpos (XO (XI (XO (XO (XO (XO (XO (XO (XI
    XH)))))))))) :: []))) :: (((Zpos (XI (XI (XI (XI (XO (XI (XI XH)))))))),
    ((Zpos (XI (XO (XO (XI (XO (XI XH))))))) :: ((Zpos (XO (XO (XO (XI (XO
    (XO (XO (XO (XI XH)))))))))) :: []))) :: (((Zpos (XI (XO (XO (XO (XI (XI
    (XI XH)))))))), ((Zpos (XO (XI (XI (XI (XO (XI XH))))))) :: ((Zpos (XI
    (XI (XO (XO (XO (XO (XO (XO (XI XH)))))))))) :: []))) :: (((Zpos (XO (XI
    (XO (XO (XI (XI (XI XH)))))))), ((Zpos (XI (XI (XI (XI (XO (XI
    XH))))))) :: ((Zpos (XO (XO (XO (XO (XO (XO (XO (XO (XI
    XH)))))))))) :: []))) :: (((Zpos (XI (XI (XO (XO (XI (XI (XI XH)))))))),
    ((Zpos (XI (XI (XI (XI (XO (XI XH))))))) :: ((Zpos (XI (XO (XO (XO (XO
    (XO (XO (XO (XI XH)))))))))) :: []))) :: (((Zpos (XO (XO (XI (XO (XI (XI
    (XI XH)))))))), ((Zpos (XI (XI (XI (XI (XO (XI XH))))))) :: ((Zpos (XO
    (XI (XO (XO (XO (XO (XO (XO (XI XH)))))))))) :: []))) :: (((Zpos (XI (XO
    (XI (XO (XI (XI (XI XH)))))))), ((Zpos (XI (XI (XI (XI (XO (XI
    XH))))))) :: ((Zpos (XI (XI (XO (XO (XO (XO (XO (XO (XI
    XH)))))))))) :: []))) :: (((Zpos (XO (XI (XI (XO (XI (XI (XI XH)))))))),
    ((Zpos (XI (XI (XI (XI (XO (XI XH))))))) :: ((Zpos (XO (XO (XO (XI (XO
    (XO (XO (XO (XI XH)))))))))) :: []))) :: (((Zpos (XI (XO (XO (XI (XI (XI
    (XI XH)))))))), ((Zpos (XI (XO (XI (XO (XI (XI XH))))))) :: ((Zpos (XO
    (XO (XO (XO (XO (XO (XO (XO (XI XH)))))))))) :: []))) :: (((Zpos (XO (XI
    (XO (XI (XI (XI (XI XH)))))))), ((Zpos (XI (XO (XI (XO (XI (XI
    XH))))))) :: ((Zpos (XI (XO (XO (XO (XO (XO (XO (XO (XI
    XH)))))))))) :: []))) :: (((Zpos (XI (XI (XO (XI (XI (XI (XI XH)))))))),
    ((Zpos (XI (XO (XI (XO (XI (XI XH))))))) :: ((Zpos (XO (XI (XO (XO (XO
    (XO (XO (XO (XI XH)))))))))) :: []))) :: (((Zpos (XO (XO (XI (XI (XI (XI
    (XI XH)))))))), ((Zpos (XI (XO (XI (XO (XI (XI XH))))))) :: ((Zpos (XO
    (XO (XO (XI (XO (XO (XO (XO (XI XH)))))))))) :: []))) :: (((Zpos (XI (XO
    (XI (XI (XI (XI (XI XH)))))))), ((Zpos (XI (XO (XO (XI (XI (XI
    XH))))))) :: ((Zpos (XI (XO (XO (XO (XO (XO (XO (XO (XI
    XH)))))))))) :: []))) :: (((Zpos (XI (XI (XI (XI (XI (XI (XI XH)))))))),
    ((Zpos (XI (XO (XO (XI (XI (XI XH))))))) :: ((Zpos (XO (XO (XO (XI (XO
    (XO (XO (XO (XI XH)))))))))) :: []))) :: (((Zpos (XO (XO (XO (XO (XO (XO
    (XO (XO XH))))))))), ((Zpos (XI (XO (XO (XO (XO (XO XH))))))) :: ((Zpos
    (XO (XO (XI (XO (XO (XO (XO (XO (XI XH)))))))))) :: []))) :: (((Zpos (XI
    (XO (XO (XO (XO (XO (XO (XO XH))))))))), ((Zpos (XI (XO (XO (XO (XO (XI
    XH))))))) :: ((Zpos (XO (XO (XI (XO (XO (XO (XO (XO (XI
    XH)))))))))) :: []))) :: (((Zpos (XO (XI (XO (XO (XO (XO (XO (XO
    XH))))))))), ((Zpos (XI (XO (XO (XO (XO (XO XH))))))) :: ((Zpos (XO (XI
    (XI (XO (XO (XO (XO (XO (XI XH)))))))))) :: []))) :: (((Zpos (XI (XI (XO
    (XO (XO (XO (XO (XO XH))))))))), ((Zpos (XI (XO (XO (XO (XO (XI
    XH))))))) :: ((Zpos (XO (XI (XI (XO (XO (XO (XO (XO (XI
    XH)))))))))) :: []))) :: (((Zpos (XO (XO (XI (XO (XO (XO (XO (XO
    XH))))))))), ((Zpos (XI (XO (XO (XO (XO (XO XH))))))) :: ((Zpos (XO (XO
    (XO (XI (XO (XI (XO (XO (XI XH)))))))))) :: []))) :: (((Zpos (XI (XO (XI
    (XO (XO (XO (XO (XO XH))))))))), ((Zpos (XI (XO (XO (XO (XO (XI
    XH))))))) :: ((Zpos (XO (XO (XO (XI (XO (XI (XO (XO (XI
    XH)))))))))) :: []))) :: (((Zpos (XO (XI (XI (XO (XO (XO (XO (XO
    XH))))))))), ((Zpos (XI (XI (XO (XO (XO (XO XH))))))) :: ((Zpos (XI (XO
    (XO (XO (XO (XO (XO (XO (XI XH)))))))))) :: []))) :: (((Zpos (XI (XI (XI
    (XO (XO (XO (XO (XO XH))))))))), ((Zpos (XI (XI (XO (XO (XO (XI
    XH))))))) :: ((Zpos (XI (XO (XO (XO (XO (XO (XO (XO (XI
    XH)))))))))) :: []))) :: (((Zpos (XO (XO (XO (XI (XO (XO (XO (XO
    XH))))))))), ((Zpos (XI (XI (XO (XO (XO (XO XH))))))) :: ((Zpos (XO (XI
    (XO (XO (XO (XO (XO (XO (XI XH)))))))))) :: []))) :: (((Zpos (XI (XO (XO
    (XI (XO (XO (XO (XO XH))))))))), ((Zpos (XI (XI (XO (XO (XO (XI
    XH))))))) :: ((Zpos (XO (XI (XO (XO (XO (XO (XO (XO (XI
    XH)))))))))) :: []))) :: (((Zpos (XO (XI (XO (XI (XO (XO (XO (XO
    XH))))))))), ((Zpos (XI (XI (XO (XO (XO (XO XH))))))) :: ((Zpos (XI (XI
    (XI (XO (XO (XO (XO (XO (XI XH)))))))))) :: []))) :: (((Zpos (XI (XI (XO
    (XI (XO (XO (XO (XO XH))))))))), ((Zpos (XI (XI (XO (XO (XO (XI
    XH))))))) :: ((Zpos (XI (XI (XI (XO (XO (XO (XO (XO (XI
    XH)))))))))) :: []))) :: (((Zpos (XO (XO (XI (XI (XO (XO (XO (XO
    XH))))))))), ((Zpos (XI (XI (XO (XO (XO (XO XH))))))) :: ((Zpos (XO (XO
    (XI (XI (XO (XO (XO (XO (XI XH)))))))))) :: []))) :: (((Zpos (XI (XO (XI
    (XI (XO (XO (XO (XO XH))))))))), ((Zpos (XI (XI (XO (XO (XO (XI
    XH))))))) :: ((Zpos (XO (XO (XI (XI (XO (XO (XO (XO (XI
    XH)))))))))) :: []))) :: (((Zpos (XO (XI (XI (XI (XO (XO (XO (XO
    XH))))))))), ((Zpos (XO (XO (XI (XO (XO (XO XH))))))) :: ((Zpos (XO (XO
    (XI (XI (XO (XO (XO (XO (XI XH)))))))))) :: []))) :: (((Zpos (XI (XI (XI
    (XI (XO (XO (XO (XO XH))))))))), ((Zpos (XO (XO (XI (XO (XO (XI
    XH))))))) :: ((Zpos (XO (XO (XI (XI (XO (XO (XO (XO (XI
    XH)))))))))) :: []))) :: (((Zpos (XO (XI (XO (XO (XI (XO (XO (XO
    XH))))))))), ((Zpos (XI (XO (XI (XO (XO (XO XH))))))) :: ((Zpos (XO (XO
    (XI (XO (XO (XO (XO (XO (XI XH)))))))))) :: []))) :: (((Zpos (XI (XI (XO
    (XO (XI (XO (XO (XO XH))))))))), ((Zpos (XI (XO (XI (XO (XO (XI
    XH))))))) :: ((Zpos (XO (XO (XI (XO (XO (XO (XO (XO (XI
    XH)))))))))) :: []))) :: (((Zpos (XO (XO (XI (XO (XI (XO (XO (XO
    XH))))))))), ((Zpos (XI (XO (XI (XO (XO (XO XH))))))) :: ((Zpos (XO (XI
    (XI (XO (XO (XO (XO (XO (XI XH)))))))))) :: []))) :: (((Zpos (XI (XO (XI
    (XO (XI (XO (XO (XO XH))))))))), ((Zpos (XI (XO (XI (XO (XO (XI
    XH))))))) :: ((Zpos (XO (XI (XI (XO (XO (XO (XO (XO (XI
    XH)))))))))) :: []))) :: (((Zpos (XO (XI (XI (XO (XI (XO (XO (XO
    XH))))))))), ((Zpos (XI (XO (XI (XO (XO (XO XH))))))) :: ((Zpos (XI (XI
    (XI (XO (XO (XO (XO (XO (XI XH)))))))))) :: []))) :: (((Zpos (XI (XI (XI
    (XO (XI (XO (XO (XO XH))))))))), ((Zpos (XI (XO (XI (XO (XO (XI
    XH))))))) :: ((Zpos (XI (XI (XI (XO (XO (XO (XO (XO (XI
    XH)))))))))) :: []))) :: (((Zpos (XO (XO (XO (XI (XI (XO (XO (XO
    XH))))))))), ((Zpos (XI (XO (XI (XO (XO (XO XH))))))) :: ((Zpos (XO (XO
    (XO (XI (XO (XI (XO (XO (XI XH)))))))))) :: []))) :: (((Zpos (XI (XO (XO
    (XI (XI (XO (XO (XO XH))))))))), ((Zpos (XI (XO (XI (XO (XO (XI
    XH))))))) :: ((Zpos (XO (XO (XO (XI (XO (XI (XO (XO (XI
    XH)))))))))) :: []))) :: (((Zpos (XO (XI (XO (XI (XI (XO (XO (XO
    XH))))))))), ((Zpos (XI (XO (XI (XO (XO (XO XH))))))) :: ((Zpos (XO (XO
    (XI (XI (XO (XO (XO (XO (XI XH)))))))))) :: []))) :: (((Zpos (XI (XI (XO
    (XI (XI (XO (XO (XO XH))))))))), ((Zpos (XI (XO (XI (XO (XO (XI
    XH))))))) :: ((Zpos (XO (XO (XI (XI (XO (XO (XO (XO (XI
    XH)))))))))) :: []))) :: (((Zpos (XO (XO (XI (XI (XI (XO (XO (XO
    XH))))))))), ((Zpos (XI (XI (XI (XO (XO (XO XH))))))) :: ((Zpos (XO (XI
    (XO (XO (XO (XO (XO (XO (XI XH)))))))))) :: []))) :: (((Zpos (XI (XO (XI
    (XI (XI (XO (XO (XO XH))))))))), ((Zpos (XI (XI (XI (XO (XO (XI
    XH))))))) :: ((Zpos (XO (XI (XO (XO (XO (XO (XO (XO (XI
    XH)))))))))) :: []))) :: (((Zpos (XO (XI (XI (XI (XI (XO (XO (XO
    XH))))))))), ((Zpos (XI (XI (XI (XO (XO (XO XH))))))) :: ((Zpos (XO (XI
    (XI (XO (XO (XO (XO (XO (XI XH)))))))))) :: []))) :: (((Zpos (XI (XI (XI
    (XI (XI (XO (XO (XO XH))))))))), ((Zpos (XI (XI (XI (XO (XO (XI
    XH))))))) :: ((Zpos (XO (XI (XI (XO (XO (XO (XO (XO (XI
    XH)))))))))) :: []))) :: (((Zpos (XO (XO (XO (XO (XO (XI (XO (XO
    XH))))))))), ((Zpos (XI (XI (XI (XO (XO (XO XH))))))) :: ((Zpos (XI (XI
    (XI (XO (XO (XO (XO (XO (XI XH)))))))))) :: []))) :: (((Zpos (XI (XO (XO
    (XO (XO (XI (XO (XO XH))))))))), ((Zpos (XI (XI (XI (XO (XO (XI
    XH))))))) :: ((Zpos (XI (XI (XI (XO (XO (XO (XO (XO (XI
    XH)))))))))) :: []))) :: (((Zpos (XO (XI (XO (XO (XO (XI (XO (XO
    XH))))))))), ((Zpos (XI (XI (XI (XO (XO (XO XH))))))) :: ((Zpos (XI (XI
    (XI (XO (XO (XI (XO (XO (XI XH)))))))))) :: []))) :: (((Zpos (XI (XI (XO
    (XO (XO (XI (XO (XO XH))))))))), ((Zpos (XI (XI (XI (XO (XO (XI
    XH))))))) :: ((Zpos (XI (XI (XI (XO (XO (XI (XO (XO (XI
    XH)))))))))) :: []))) :: (((Zpos (XO (XO (XI (XO (XO (XI (XO (XO
    XH))))))))), ((Zpos (XO (XO (XO (XI (XO (XO XH))))))) :: ((Zpos (XO (XI
    (XO (XO (XO (XO (XO (XO (XI XH)))))))))) :: []))) :: (((Zpos (XI (XO (XI
    (XO (XO (XI (XO (XO XH))))))))), ((Zpos (XO (XO (XO (XI (XO (XI
    XH))))))) :: ((Zpos (XO (XI (XO (XO (XO (XO (XO (XO (XI
    XH)))))))))) :: []))) :: (((Zpos (XO (XO (XO (XI (XO (XI (XO (XO
    XH))))))))), ((Zpos (XI (XO (XO (XI (XO (XO XH))))))) :: ((Zpos (XI (XI
    (XO (XO (XO (XO (XO (XO (XI XH)))))))))) :: []))) :: (((Zpos (XI (XO (XO
    (XI (XO (XI (XO (XO XH))))))))), ((Zpos (XI (XO (XO (XI (XO (XI
    XH))))))) :: ((Zpos (XI (XI (XO (XO (XO (XO (XO (XO (XI
    XH)))))))))) :: []))) :: (((Zpos (XO (XI (XO (XI (XO (XI (XO (XO
    XH))))))))), ((Zpos (XI (XO (XO (XI (XO (XO XH))))))) :: ((Zpos (XO (XO
    (XI (XO (XO (XO (XO (XO (XI XH)))))))))) :: []))) :: (((Zpos (XI (XI (XO
    (XI (XO (XI (XO (XO XH))))))))), ((Zpos (XI (XO (XO (XI (XO (XI
    XH))))))) :: ((Zpos (XO (XO (XI (XO (XO (XO (XO (XO (XI
    XH)))))))))) :: []))) :: (((Zpos (XO (XO (XI (XI (XO (XI (XO (XO
    XH))))))))), ((Zpos (XI (XO (XO (XI (XO (XO XH))))))) :: ((Zpos (XO (XI
    (XI (XO (XO (XO (XO (XO (XI XH)))))))))) :: []))) :: (((Zpos (XI (XO (XI
    (XI (XO (XI (XO (XO XH))))))))), ((Zpos (XI (XO (XO (XI (XO (XI
    XH))))))) :: ((Zpos (XO (XI (XI (XO (XO (XO (XO (XO (XI
    XH)))))))))) :: []))) :: (((Zpos (XO (XI (XI (XI (XO (XI (XO (XO
    XH))))))))), ((Zpos (XI (XO (XO (XI (XO (XO XH))))))) :: ((Zpos (XO (XO
    (XO (XI (XO (XI (XO (XO (XI XH)))))))))) :: []))) :: (((Zpos (XI (XI (XI
    (XI (XO (XI (XO (XO XH))))))))), ((Zpos (XI (XO (XO (XI (XO (XI
    XH))))))) :: ((Zpos (XO (XO (XO (XI (XO (XI (XO (XO (XI
    XH)))))))))) :: []))) :: (((Zpos (XO (XO (XO (XO (XI (XI (XO (XO
    XH))))))))), ((Zpos (XI (XO (XO (XI (XO (XO XH))))))) :: ((Zpos (XI (XI
    (XI (XO (XO (XO (XO (XO (XI XH)))))))))) :: []))) :: (((Zpos (XO (XO (XI
    (XO (XI (XI (XO (XO XH))))))))), ((Zpos (XO (XI (XO (XI (XO (XO
    XH))))))) :: ((Zpos (XO (XI (XO (XO (XO (XO (XO (XO (XI
    XH)))))))))) :: []))) :: (((Zpos (XI (XO (XI (XO (XI (XI (XO (XO
    XH))))))))), ((Zpos (XO (XI (XO (XI (XO (XI XH))))))) :: ((Zpos (XO (XI
    (XO (XO (XO (XO (XO (XO (XI XH)))))))))) :: []))) :: (((Zpos (XO (XI (XI
    (XO (XI (XI (XO (XO XH))))))))), ((Zpos (XI (XI (XO (XI (XO (XO
    XH))))))) :: ((Zpos (XI (XI (XI (XO (XO (XI (XO (XO (XI
    XH)))))))))) :: []))) :: (((Zpos (XI (XI (XI (XO (XI (XI (XO (XO
    XH))))))))), ((Zpos (XI (XI (XO (XI (XO (XI XH))))))) :: ((Zpos (XI (XI
    (XI (XO (XO (XI (XO (XO (XI XH)))))))))) :: []))) :: (((Zpos (XI (XO (XO
    (XI (XI (XI (XO (XO XH))))))))), ((Zpos (XO (XO (XI (XI (XO (XO
    XH))))))) :: ((Zpos (XI (XO (XO (XO (XO (XO (XO (XO (XI
    XH)))))))))) :: []))) :: (((Zpos (XO (XI (XO (XI (XI (XI (XO (XO
    XH))))))))), ((Zpos (XO (XO (XI (XI (XO (XI XH))))))) :: ((Zpos (XI (XO
    (XO (XO (XO (XO (XO (XO (XI XH)))))))))) :: []))) :: (((Zpos (XI (XI (XO
    (XI (XI (XI (XO (XO XH))))))))), ((Zpos (XO (XO (XI (XI (XO (XO
    XH))))))) :: ((Zpos (XI (XI (XI (XO (XO (XI (XO (XO (XI
    XH)))))))))) :: []))) :: (((Zpos (XO (XO (XI (XI (XI (XI (XO (XO
    XH))))))))), ((Zpos (XO (XO (XI (XI (XO (XI XH))))))) :: ((Zpos (XI (XI
    (XI (XO (XO (XI (XO (XO (XI XH)))))))))) :: []))) :: (((Zpos (XI (XO (XI
    (XI (XI (XI (XO (XO XH))))))))), ((Zpos (XO (XO (XI (XI (XO (XO
    XH))))))) :: ((Zpos (XO (XO (XI (XI (XO (XO (XO (XO (XI
    XH)))))))))) :: []))) :: (((Zpos (XO (XI (XI (XI (XI (XI (XO (XO
    XH))))))))), ((Zpos (XO (XO (XI (XI (XO (XI XH))))))) :: ((Zpos (XO (XO
    (XI (XI (XO (XO (XO (XO (XI XH)))))))))) :: []))) :: (((Zpos (XI (XI (XO
    (XO (XO (XO (XI (XO XH))))))))), ((Zpos (XO (XI (XI (XI (XO (XO
    XH))))))) :: ((Zpos (XI (XO (XO (XO (XO (XO (XO (XO (XI
    XH)))))))))) :: []))) :: (((Zpos (XO (XO (XI (XO (XO (XO (XI (XO
    XH))))))))), ((Zpos (XO (XI (XI (XI (XO (XI XH))))))) :: ((Zpos (XI (XO
    (XO (XO (XO (XO (XO (XO (XI XH)))))))))) :: []))) :: (((Zpos (XI (XO (XI
    (XO (XO (XO (XI (XO XH))))))))), ((Zpos (XO (XI (XI (XI (XO (XO
    XH))))))) :: ((Zpos (XI (XI (XI (XO (XO (XI (XO (XO (XI
    XH)))))))))) :: []))) :: (((Zpos (XO (XI (XI (XO (XO (XO (XI (XO
    XH))))))))), ((Zpos (XO (XI (XI (XI (XO (XI XH))))))) :: ((Zpos (XI (XI
    (XI (XO (XO (XI (XO (XO (XI XH)))))))))) :: []))) :: (((Zpos (XI (XI (XI
    (XO (XO (XO (XI (XO XH))))))))), ((Zpos (XO (XI (XI (XI (XO (XO
    XH))))))) :: ((Zpos (XO (XO (XI (XI (XO (XO (XO (XO (XI
    XH)))))))))) :: []))) :: (((Zpos (XO (XO (XO (XI (XO (XO (XI (XO
    XH))))))))), ((Zpos (XO (XI (XI (XI (XO (XI XH))))))) :: ((Zpos (XO (XO
    (XI (XI (XO (XO (XO (XO (XI XH)))))))))) :: []))) :: (((Zpos (XO (XO (XI
    (XI (XO (XO (XI (XO XH))))))))), ((Zpos (XI (XI (XI (XI (XO (XO
    XH))))))) :: ((Zpos (XO (XO (XI (XO (XO (XO (XO (XO (XI
    XH)))))))))) :: []))) :: (((Zpos (XI (XO (XI (XI (XO (XO (XI (XO
    XH))))))))), ((Zpos (XI (XI (XI (XI (XO (XI XH))))))) :: ((Zpos (XO (XO
    (XI (XO (XO (XO (XO (XO (XI XH)))))))))) :: []))) :: (((Zpos (XO (XI (XI
    (XI (XO (XO (XI (XO XH))))))))), ((Zpos (XI (XI (XI (XI (XO (XO
    XH))))))) :: ((Zpos (XO (XI (XI (XO (XO (XO (XO (XO (XI
    XH)))))))))) :: []))) :: (((Zpos (XI (XI (XI (XI (XO (XO (XI (XO
    XH))))))))), ((Zpos (XI (XI (XI (XI (XO (XI XH))))))) :: ((Zpos (XO (XI
    (XI (XO (XO (XO (XO (XO (XI XH)))))))))) :: []))) :: (((Zpos (XO (XO (XO
    (XO (XI (XO (XI (XO XH))))))))), ((Zpos (XI (XI (XI (XI (XO (XO
    XH))))))) :: ((Zpos (XI (XI (XO (XI (XO (XO (XO (XO (XI
    XH)))))))))) :: []))) :: (((Zpos (XI (XO (XO (XO (XI (XO (XI (XO
    XH))))))))), ((Zpos (XI (XI (XI (XI (XO (XI XH))))))) :: ((Zpos (XI (XI
    (XO (XI (XO (XO (XO (XO (XI XH)))))))))) :: []))) :: (((Zpos (XO (XO (XI
    (XO (XI (XO (XI (XO XH))))))))), ((Zpos (XO (XI (XO (XO (XI (XO
    XH))))))) :: ((Zpos (XI (XO (XO (XO (XO (XO (XO (XO (XI
    XH)))))))))) :: []))) :: (((Zpos (XI (XO (XI (XO (XI (XO (XI (XO
    XH))))))))), ((Zpos (XO (XI (XO (XO (XI (XI XH))))))) :: ((Zpos (XI (XO
    (XO (XO (XO (XO (XO (XO (XI XH)))))))))) :: []))) :: (((Zpos (XO (XI (XI
    (XO (XI (XO (XI (XO XH))))))))), ((Zpos (XO (XI (XO (XO (XI (XO
    XH))))))) :: ((Zpos (XI (XI (XI (XO (XO (XI (XO (XO (XI
    XH)))))))))) :: []))) :: (((Zpos (XI (XI (XI (XO (XI (XO (XI (XO
    XH))))))))), ((Zpos (XO (XI (XO (XO (XI (XI XH))))))) :: ((Zpos (XI (XI
    (XI (XO (XO (XI (XO (XO (XI XH)))))))))) :: []))) :: (((Zpos (XO (XO (XO
    (XI (XI (XO (XI (XO XH))))))))), ((Zpos (XO (XI (XO (XO (XI (XO
    XH))))))) :: ((Zpos (XO (XO (XI (XI (XO (XO (XO (XO (XI
    XH)))))))))) :: []))) :: (((Zpos (XI (XO (XO (XI (XI (XO (XI (XO
    XH))))))))), ((Zpos (XO (XI (XO (XO (XI (XI XH))))))) :: ((Zpos (XO (XO
    (XI (XI (XO (XO (XO (XO (XI XH)))))))))) :: []))) :: (((Zpos (XO (XI (XO
    (XI (XI (XO (XI (XO XH))))))))), ((Zpos (XI (XI (XO (XO (XI (XO
    XH))))))) :: ((Zpos (XI (XO (XO (XO (XO (XO (XO (XO (XI
    XH)))))))))) :: []))) :: (((Zpos (XI (XI (XO (XI (XI (XO (XI (XO
    XH))))))))), ((Zpos (XI (XI (XO (XO (XI (XI XH))))))) :: ((Zpos (XI (XO
    (XO (XO (XO (XO (XO (XO (XI XH)))))))))) :: []))) :: (((Zpos (XO (XO (XI
    (XI (XI (XO (XI (XO XH))))))))), ((Zpos (XI (XI (XO (XO (XI (XO
    XH))))))) :: ((Zpos (XO (XI (XO (XO (XO (XO (XO (XO (XI
    XH)))))))))) :: []))) :: (((Zpos (XI (XO (XI (XI (XI (XO (XI (XO
    XH))))))))), ((Zpos (XI (XI (XO (XO (XI (XI XH))))))) :: ((Zpos (XO (XI
    (XO (XO (XO (XO (XO (XO (XI XH)))))))))) :: []))) :: (((Zpos (XO (XI (XI
    (XI (XI (XO (XI (XO XH))))))))), ((Zpos (XI (XI (XO (XO (XI (XO
    XH))))))) :: ((Zpos (XI (XI (XI (XO (XO (XI (XO (XO (XI
    XH)))))))))) :: []))) :: (((Zpos (XI (XI (XI (XI (XI (XO (XI (XO
    XH))))))))), ((Zpos (XI (XI (XO (XO (XI (XI XH))))))) :: ((Zpos (XI (XI
    (XI (XO (XO (XI (XO (XO (XI XH)))))))))) :: []))) :: (((Zpos (XO (XO (XO
    (XO (XO (XI (XI (XO XH))))))))), ((Zpos (XI (XI (XO (XO (XI (XO
    XH))))))) :: ((Zpos (XO (XO (XI (XI (XO (XO (XO (XO (XI
    XH)))))))))) :: []))) :: (((Zpos (XI (XO (XO (XO (XO (XI (XI (XO
    XH))))))))), ((Zpos (XI (XI (XO (XO (XI (XI XH))))))) :: ((Zpos (XO (XO
    (XI (XI (XO (XO (XO (XO (XI XH)))))))))) :: []))) :: (((Zpos (XO (XI (XO
    (XO (XO (XI (XI (XO XH))))))))), ((Zpos (XO (XO (XI (XO (XI (XO
    XH))))))) :: ((Zpos (XI (XI (XI (XO (XO (XI (XO (XO (XI
    XH)))))))))) :: []))) :: (((Zpos (XI (XI (XO (XO (XO (XI (XI (XO
    XH))))))))), ((Zpos (XO (XO (XI (XO (XI (XI XH))))))) :: ((Zpos (XI (XI
    (XI (XO (XO (XI (XO (XO (XI XH)))))))))) :: []))) :: (((Zpos (XO (XO (XI
    (XO (XO (XI (XI (XO XH))))))))), ((Zpos (XO (XO (XI (XO (XI (XO
    XH))))))) :: ((Zpos (XO (XO (XI (XI (XO (XO (XO (XO (XI
    XH)))))))))) :: []))) :: (((Zpos (XI (XO (XI (XO (XO (XI (XI (XO
    XH))))))))), ((Zpos (XO (XO (XI (XO (XI (XI XH))))))) :: ((Zpos (XO (XO
    (XI (XI (XO (XO (XO (XO (XI XH)))))))))) :: []))) :: (((Zpos (XO (XO (XO
    (XI (XO (XI (XI (XO XH))))))))), ((Zpos (XI (XO (XI (XO (XI (XO
    XH))))))) :: ((Zpos (XI (XI (XO (XO (XO (XO (XO (XO (XI
    XH)))))))))) :: []))) :: (((Zpos (XI (XO (XO (XI (XO (XI (XI (XO
    XH))))))))), ((Zpos (XI (XO (XI (XO (XI (XI XH))))))) :: ((Zpos (XI (XI
    (XO (XO (XO (XO (XO (XO (XI XH)))))))))) :: []))) :: (((Zpos (XO (XI (XO
    (XI (XO (XI (XI (XO XH))))))))), ((Zpos (XI (XO (XI (XO (XI (XO
    XH))))))) :: ((Zpos (XO (XO (XI (XO (XO (XO (XO (XO (XI
    XH)))))))))) :: []))) :: (((Zpos (XI (XI (XO (XI (XO (XI (XI (XO
    XH))))))))), ((Zpos (XI (XO (XI (XO (XI (XI XH))))))) :: ((Zpos (XO (XO
    (XI (XO (XO (XO (XO (XO (XI XH)))))))))) :: []))) :: (((Zpos (XO (XO (XI
    (XI (XO (XI (XI (XO XH))))))))), ((Zpos (XI (XO (XI (XO (XI (XO
    XH))))))) :: ((Zpos (XO (XI (XI (XO (XO (XO (XO (XO (XI
    XH)))))))))) :: []))) :: (((Zpos (XI (XO (XI (XI (XO (XI (XI (XO
    XH))))))))), ((Zpos (XI (XO (XI (XO (XI (XI XH))))))) :: ((Zpos (XO (XI
    (XI (XO (XO (XO (XO (XO (XI XH)))))))))) :: []))) :: (((Zpos (XO (XI (XI
    (XI (XO (XI (XI (XO XH))))))))), ((Zpos (XI (XO (XI (XO (XI (XO
    XH))))))) :: ((Zpos (XO (XI (XO (XI (XO (XO (XO (XO (XI
    XH)))))))))) :: []))) :: (((Zpos (XI (XI (XI (XI (XO (XI (XI (XO
    XH))))))))), ((Zpos (XI (XO (XI (XO (XI (XI XH))))))) :: ((Zpos (XO (XI
    (XO (XI (XO (XO (XO (XO (XI XH)))))))))) :: []))) :: (((Zpos (XO (XO (XO
    (XO (XI (XI (XI (XO XH))))))))), ((Zpos (XI (XO (XI (XO (XI (XO
    XH))))))) :: ((Zpos (XI (XI (XO (XI (XO (XO (XO (XO (XI
    XH)))))))))) :: []))) :: (((Zpos (XI (XO (XO (XO (XI (XI (XI (XO
    XH))))))))), ((Zpos (XI (XO (XI (XO (XI (XI XH))))))) :: ((Zpos (XI (XI
    (XO (XI (XO (XO (XO (XO (XI XH)))))))))) :: []))) :: (((Zpos (XO (XI (XO
    (XO (XI (XI (XI (XO XH))))))))), ((Zpos (XI (XO (XI (XO (XI (XO
    XH))))))) :: ((Zpos (XO (XO (XO (XI (XO (XI (XO (XO (XI
    XH)))))))))) :: []))) :: (((Zpos (XI (XI (XO (XO (XI (XI (XI (XO
    XH))))))))), ((Zpos (XI (XO (XI (XO (XI (XI XH))))))) :: ((Zpos (XO (XO
    (XO (XI (XO (XI (XO (XO (XI XH)))))))))) :: []))) :: (((Zpos (XO (XO (XI
    (XO (XI (XI (XI (XO XH))))))))), ((Zpos (XI (XI (XI (XO (XI (XO
    XH))))))) :: ((Zpos (XO (XI (XO (XO (XO (XO (XO (XO (XI
    XH)))))))))) :: []))) :: (((Zpos (XI (XO (XI (XO (XI (XI (XI (XO
    XH))))))))), ((Zpos (XI (XI (XI (XO (XI (XI XH))))))) :: ((Zpos (XO (XI
    (XO (XO (XO (XO (XO (XO (XI XH)))))))))) :: []))) :: (((Zpos (XO (XI (XI
    (XO (XI (XI (XI (XO XH))))))))), ((Zpos (XI (XO (XO (XI (XI (XO
    XH))))))) :: ((Zpos (XO (XI (XO (XO (XO (XO (XO (XO (XI
    XH)))))))))) :: []))) :: (((Zpos (XI (XI (XI (XO (XI (XI (XI (XO
    XH))))))))), ((Zpos (XI (XO (XO (XI (XI (XI XH))))))) :: ((Zpos (XO (XI
    (XO (XO (XO (XO (XO (XO (XI XH)))))))))) :: []))) :: (((Zpos (XO (XO (XO
    (XI (XI (XI (XI (XO XH))))))))), ((Zpos (XI (XO (XO (XI (XI (XO
    XH))))))) :: ((Zpos (XO (XO (XO (XI (XO (XO (XO (XO (XI
    XH)))))))))) :: []))) :: (((Zpos (XI (XO (XO (XI (XI (XI (XI (XO
    XH))))))))), ((Zpos (XO (XI (XO (XI (XI (XO XH))))))) :: ((Zpos (XI (XO
    (XO (XO (XO (XO (XO (XO (XI XH)))))))))) :: []))) :: (((Zpos (XO (XI (XO
    (XI (XI (XI (XI (XO XH))))))))), ((Zpos (XO (XI (XO (XI (XI (XI
    XH))))))) :: ((Zpos (XI (XO (XO (XO (XO (XO (XO (XO (XI
    XH)))))))))) :: []))) :: (((Zpos (XI (XI (XO (XI (XI (XI (XI (XO
    XH))))))))), ((Zpos (XO (XI (XO (XI (XI (XO XH))))))) :: ((Zpos (XI (XI
    (XI (XO (XO (XO (XO (XO (XI XH)))))))))) :: []))) :: (((Zpos (XO (XO (XI
    (XI (XI (XI (XI (XO XH))))))))), ((Zpos (XO (XI (XO (XI (XI (XI
    XH))))))) :: ((Zpos (XI (XI (XI (XO (XO (XO (XO (XO (XI
    XH)))))))))) :: []))) :: (((Zpos (XI (XO (XI (XI (XI (XI (XI (XO
    XH))))))))), ((Zpos (XO (XI (XO (XI (XI (XO XH))))))) :: ((Zpos (XO (XO
    (XI (XI (XO (XO (XO (XO (XI XH)))))))))) :: []))) :: (((Zpos (XO (XI (XI
    (XI (XI (XI (XI (XO XH))))))))), ((Zpos (XO (XI (XO (XI (XI (XI
    XH))))))) :: ((Zpos (XO (XO (XI (XI (XO (XO (XO (XO (XI
    XH)))))))))) :: []))) :: (((Zpos (XO (XO (XO (XO (XO (XI (XO (XI
    XH))))))))), ((Zpos (XI (XI (XI (XI (XO (XO XH))))))) :: ((Zpos (XI (XI
    (XO (XI (XI (XO (XO (XO (XI XH)))))))))) :: []))) :: (((Zpos (XI (XO (XO
    (XO (XO (XI (XO (XI XH))))))))), ((Zpos (XI (XI (XI (XI (XO (XI
    XH))))))) :: ((Zpos (XI (XI (XO (XI (XI (XO (XO (XO (XI
    XH)))))))))) :: []))) :: (((Zpos (XI (XI (XI (XI (XO (XI (XO (XI
    XH))))))))), ((Zpos (XI (XO (XI (XO (XI (XO XH))))))) :: ((Zpos (XI (XI
    (XO (XI (XI (XO (XO (XO (XI XH)))))))))) :: []))) :: (((Zpos (XO (XO (XO
    (XO (XI (XI (XO (XI XH))))))))), ((Zpos (XI (XO (XI (XO (XI (XI
    XH))))))) :: ((Zpos (XI (XI (XO (XI (XI (XO (XO (XO (XI
    XH)))))))))) :: []))) :: (((Zpos (XI (XO (XI (XI (XO (XO (XI (XI
    XH))))))))), ((Zpos (XI (XO (XO (XO (XO (XO XH))))))) :: ((Zpos (XO (XO
    (XI (XI (XO (XO (XO (XO (XI XH)))))))))) :: []))) :: (((Zpos (XO (XI (XI
    (XI (XO (XO (XI (XI XH))))))))), ((Zpos (XI (XO (XO (XO (XO (XI
    XH))))))) :: ((Zpos (XO (XO (XI (XI (XO (XO (XO (XO (XI
    XH)))))))))) :: []))) :: (((Zpos (XI (XI (XI (XI (XO (XO (XI (XI
    XH))))))))), ((Zpos (XI (XO (XO (XI (XO (XO XH))))))) :: ((Zpos (XO (XO
    (XI (XI (XO (XO (XO (XO (XI XH)))))))))) :: []))) :: (((Zpos (XO (XO (XO
    (XO (XI (XO (XI (XI XH))))))))), ((Zpos (XI (XO (XO (XI (XO (XI
    XH))))))) :: ((Zpos (XO (XO (XI (XI (XO (XO (XO (XO (XI
    XH)))))))))) :: []))) :: (((Zpos (XI (XO (XO (XO (XI (XO (XI (XI
    XH))))))))), ((Zpos (XI (XI (XI (XI (XO (XO XH))))))) :: ((Zpos (XO (XO
    (XI (XI (XO (XO (XO (XO (XI XH)))))))))) :: []))) :: (((Zpos (XO (XI (XO
    (XO (XI (XO (XI (XI XH))))))))), ((Zpos (XI (XI (XI (XI (XO (XI
    XH))))))) :: ((Zpos (XO (XO (XI (XI (XO (XO (XO (XO (XI
    XH)))))))))) :: []))) :: (((Zpos (XI (XI (XO (XO (XI (XO (XI (XI
    XH))))))))), ((Zpos (XI (XO (XI (XO (XI (XO XH))))))) :: ((Zpos (XO (XO
    (XI (XI (XO (XO (XO (XO (XI XH)))))))))) :: []))) :: (((Zpos (XO (XO (XI
    (XO (XI (XO (XI (XI XH))))))))), ((Zpos (XI (XO (XI (XO (XI (XI
    XH))))))) :: ((Zpos (XO (XO (XI (XI (XO (XO (XO (XO (XI
    XH)))))))))) :: []))) :: (((Zpos (XI (XO (XI (XO (XI (XO (XI (XI
    XH))))))))), ((Zpos (XI (XO (XI (XO (XI (XO XH))))))) :: ((Zpos (XO (XO
    (XO (XI (XO (XO (XO (XO (XI XH)))))))))) :: ((Zpos (XO (XO (XI (XO (XO
    (XO (XO (XO (XI XH)))))))))) :: [])))) :: (((Zpos (XO (XI (XI (XO (XI (XO
    (XI (XI XH))))))))), ((Zpos (XI (XO (XI (XO (XI (XI XH))))))) :: ((Zpos
    (XO (XO (XO (XI (XO (XO (XO (XO (XI XH)))))))))) :: ((Zpos (XO (XO (XI
    (XO (XO (XO (XO (XO (XI XH)))))))))) :: [])))) :: (((Zpos (XI (XI (XI (XO
    (XI (XO (XI (XI XH))))))))), ((Zpos (XI (XO (XI (XO (XI (XO
    XH))))))) :: ((Zpos (XO (XO (XO (XI (XO (XO (XO (XO (XI
    XH)))))))))) :: ((Zpos (XI (XO (XO (XO (XO (XO (XO (XO (XI
    XH)))))))))) :: [])))) :: (((Zpos (XO (XO (XO (XI (XI (XO (XI (XI
    XH))))))))), ((Zpos (XI (XO (XI (XO (XI (XI XH))))))) :: ((Zpos (XO (XO
    (XO (XI (XO (XO (XO (XO (XI XH)))))))))) :: ((Zpos (XI (XO (XO (XO (XO
    (XO (XO (XO (XI XH)))))))))) :: [])))) :: (((Zpos (XI (XO (XO (XI (XI (XO
    (XI (XI XH))))))))), ((Zpos (XI (XO (XI (XO (XI (XO XH))))))) :: ((Zpos
    (XO (XO (XO (XI (XO (XO (XO (XO (XI XH)))))))))) :: ((Zpos (XO (XO (XI
    (XI (XO (XO (XO (XO (XI XH)))))))))) :: [])))) :: (((Zpos (XO (XI (XO (XI
    (XI (XO (XI (XI XH))))))))), ((Zpos (XI (XO (XI (XO (XI (XI
    XH))))))) :: ((Zpos (XO (XO (XO (XI (XO (XO (XO (XO (XI
    XH)))))))))) :: ((Zpos (XO (XO (XI (XI (XO (XO (XO (XO (XI
    XH)))))))))) :: [])))) :: (((Zpos (XI (XI (XO (XI (XI (XO (XI (XI
    XH))))))))), ((Zpos (XI (XO (XI (XO (XI (XO XH))))))) :: ((Zpos (XO (XO
    (XO (XI (XO (XO (XO (XO (XI XH)))))))))) :: ((Zpos (XO (XO (XO (XO (XO
    (XO (XO (XO (XI XH)))))))))) :: [])))) :: (((Zpos (XO (XO (XI (XI (XI (XO
    (XI (XI XH))))))))), ((Zpos (XI (XO (XI (XO (XI (XI XH))))))) :: ((Zpos
    (XO (XO (XO (XI (XO (XO (XO (XO (XI XH)))))))))) :: ((Zpos (XO (XO (XO
    (XO (XO (XO (XO (XO (XI XH)))))))))) :: [])))) :: (((Zpos (XO (XI (XI (XI
    (XI (XO (XI (XI XH))))))))), ((Zpos (XI (XO (XO (XO (XO (XO
    XH))))))) :: ((Zpos (XO (XO (XO (XI (XO (XO (XO (XO (XI
    XH)))))))))) :: ((Zpos (XO (XO (XI (XO (XO (XO (XO (XO (XI
    XH)))))))))) :: [])))) :: (((Zpos (XI (XI (XI (XI (XI (XO (XI (XI
    XH))))))))), ((Zpos (XI (XO (XO (XO (XO (XI XH))))))) :: ((Zpos (XO (XO
    (XO (XI (XO (XO (XO (XO (XI XH)))))))))) :: ((Zpos (XO (XO (XI (XO (XO
    (XO (XO (XO (XI XH)))))))))) :: [])))) :: (((Zpos (XO (XO (XO (XO (XO (XI
    (XI (XI XH))))))))), ((Zpos (XI (XO (XO (XO (XO (XO XH))))))) :: ((Zpos
    (XI (XI (XI (XO (XO (XO (XO (XO (XI XH)))))))))) :: ((Zpos (XO (XO (XI
    (XO (XO (XO (XO (XO (XI XH)))))))))) :: [])))) :: (((Zpos (XI (XO (XO (XO
    (XO (XI (XI (XI XH))))))))), ((Zpos (XI (XO (XO (XO (XO (XI
    XH))))))) :: ((Zpos (XI (XI (XI (XO (XO (XO (XO (XO (XI
    XH)))))))))) :: ((Zpos (XO (XO (XI (XO (XO (XO (XO (XO (XI
    XH)))))))))) :: [])))) :: (((Zpos (XO (XI (XO (XO (XO (XI (XI (XI
    XH))))))))), ((Zpos (XO (XI (XI (XO (XO (XO (XI XH)))))))) :: ((Zpos (XO
    (XO (XI (XO (XO (XO (XO (XO (XI XH)))))))))) :: []))) :: (((Zpos (XI (XI
    (XO (XO (XO (XI (XI (XI XH))))))))), ((Zpos (XO (XI (XI (XO (XO (XI (XI
    XH)))))))) :: ((Zpos (XO (XO (XI (XO (XO (XO (XO (XO (XI
    XH)))))))))) :: []))) :: (((Zpos (XO (XI (XI (XO (XO (XI (XI (XI
    XH))))))))), ((Zpos (XI (XI (XI (XO (XO (XO XH))))))) :: ((Zpos (XO (XO
    (XI (XI (XO (XO (XO (XO (XI XH)))))))))) :: []))) :: (((Zpos (XI (XI (XI
    (XO (XO (XI (XI (XI XH))))))))), ((Zpos (XI (XI (XI (XO (XO (XI
    XH))))))) :: ((Zpos (XO (XO (XI (XI (XO (XO (XO (XO (XI
    XH)))))))))) :: []))) :: (((Zpos (XO (XO (XO (XI (XO (XI (XI (XI
    XH))))))))), ((Zpos (XI (XI (XO (XI (XO (XO XH))))))) :: ((Zpos (XO (XO
    (XI (XI (XO (XO (XO (XO (XI XH)))))))))) :: []))) :: (((Zpos (XI (XO (XO
    (XI (XO (XI (XI (XI XH))))))))), ((Zpos (XI (XI (XO (XI (XO (XI
    XH))))))) :: ((Zpos (XO (XO (XI (XI (XO (XO (XO (XO (XI
    XH)))))))))) :: []))) :: (((Zpos (XO (XI (XO (XI (XO (XI (XI (XI
    XH))))))))), ((Zpos (XI (XI (XI (XI (XO (XO XH))))))) :: ((Zpos (XO (XO
    (XO (XI (XO (XI (XO (XO (XI XH)))))))))) :: []))) :: (((Zpos (XI (XI (XO
    (XI (XO (XI (XI (XI XH))))))))), ((Zpos (XI (XI (XI (XI (XO (XI
    XH))))))) :: ((Zpos (XO (XO (XO (XI (XO (XI (XO (XO (XI
    XH)))))))))) :: []))) :: (((Zpos (XO (XO (XI (XI (XO (XI (XI (XI
    XH))))))))), ((Zpos (XI (XI (XI (XI (XO (XO XH))))))) :: ((Zpos (XO (XO
    (XO (XI (XO (XI (XO (XO (XI XH)))))))))) :: ((Zpos (XO (XO (XI (XO (XO
    (XO (XO (XO (XI XH)))))))))) :: [])))) :: (((Zpos (XI (XO (XI (XI (XO (XI
    (XI (XI XH))))))))), ((Zpos (XI (XI (XI (XI (XO (XI XH))))))) :: ((Zpos
    (XO (XO (XO (XI (XO (XI (XO (XO (XI XH)))))))))) :: ((Zpos (XO (XO (XI
    (XO (XO (XO (XO (XO (XI XH)))))))))) :: [])))) :: (((Zpos (XO (XI (XI (XI
    (XO (XI (XI (XI XH))))))))), ((Zpos (XI (XI (XI (XO (XI (XI (XO (XI
    XH))))))))) :: ((Zpos (XO (XO (XI (XI (XO (XO (XO (XO (XI
    XH)))))))))) :: []))) :: (((Zpos (XI (XI (XI (XI (XO (XI (XI (XI
    XH))))))))), ((Zpos (XO (XI (XO (XO (XI (XO (XO (XI (XO
    XH)))))))))) :: ((Zpos (XO (XO (XI (XI (XO (XO (XO (XO (XI
    XH)))))))))) :: []))) :: (((Zpos (XO (XO (XO (XO (XI (XI (XI (XI
    XH))))))))), ((Zpos (XO (XI (XO (XI (XO (XI XH))))))) :: ((Zpos (XO (XO
    (XI (XI (XO (XO (XO (XO (XI XH)))))))))) :: []))) :: (((Zpos (XO (XO (XI
    (XO (XI (XI (XI (XI XH))))))))), ((Zpos (XI (XI (XI (XO (XO (XO
    XH))))))) :: ((Zpos (XI (XO (XO (XO (XO (XO (XO (XO (XI
    XH)))))))))) :: []))) :: (((Zpos (XI (XO (XI (XO (XI (XI (XI (XI
    XH))))))))), ((Zpos (XI (XI (XI (XO (XO (XI XH))))))) :: ((Zpos (XI (XO
    (XO (XO (XO (XO (XO (XO (XI XH)))))))))) :: []))) :: (((Zpos (XO (XO (XO
    (XI (XI (XI (XI (XI XH))))))))), ((Zpos (XO (XI (XI (XI (XO (XO
    XH))))))) :: ((Zpos (XO (XO (XO (XO (XO (XO (XO (XO (XI
    XH)))))))))) :: []))) :: (((Zpos (XI (XO (XO (XI (XI (XI (XI (XI
    XH))))))))), ((Zpos (XO (XI (XI (XI (XO (XI XH))))))) :: ((Zpos (XO (XO
    (XO (XO (XO (XO (XO (XO (XI XH)))))))))) :: []))) :: (((Zpos (XO (XI (XO
    (XI (XI (XI (XI (XI XH))))))))), ((Zpos (XI (XO (XO (XO (XO (XO
    XH))))))) :: ((Zpos (XO (XI (XO (XI (XO (XO (XO (XO (XI
    XH)))))))))) :: ((Zpos (XI (XO (XO (XO (XO (XO (XO (XO (XI
    XH)))))))))) :: [])))) :: (((Zpos (XI (XI (XO (XI (XI (XI (XI (XI
    XH))))))))), ((Zpos (XI (XO (XO (XO (XO (XI XH))))))) :: ((Zpos (XO (XI
    (XO (XI (XO (XO (XO (XO (XI XH)))))))))) :: ((Zpos (XI (XO (XO (XO (XO
    (XO (XO (XO (XI XH)))))))))) :: [])))) :: (((Zpos (XO (XO (XI (XI (XI (XI
    (XI (XI XH))))))))), ((Zpos (XO (XI (XI (XO (XO (XO (XI
    XH)))))))) :: ((Zpos (XI (XO (XO (XO (XO (XO (XO (XO (XI
    XH)))))))))) :: []))) :: (((Zpos (XI (XO (XI (XI (XI (XI (XI (XI
    XH))))))))), ((Zpos (XO (XI (XI (XO (XO (XI (XI XH)))))))) :: ((Zpos (XI
    (XO (XO (XO (XO (XO (XO (XO (XI XH)))))))))) :: []))) :: (((Zpos (XO (XI
    (XI (XI (XI (XI (XI (XI XH))))))))), ((Zpos (XO (XO (XO (XI (XI (XO (XI
    XH)))))))) :: ((Zpos (XI (XO (XO (XO (XO (XO (XO (XO (XI
    XH)))))))))) :: []))) :: (((Zpos (XI (XI (XI (XI (XI (XI (XI (XI
    XH))))))))), ((Zpos (XO (XO (XO (XI (XI (XI (XI XH)))))))) :: ((Zpos (XI
    (XO (XO (XO (XO (XO (XO (XO (XI XH)))))))))) :: []))) :: (((Zpos (XO (XO
    (XO (XO (XO (XO (XO (XO (XO XH)))))))))), ((Zpos (XI (XO (XO (XO (XO (XO
    XH))))))) :: ((Zpos (XI (XI (XI (XI (XO (XO (XO (XO (XI
    XH)))))))))) :: []))) :: (((Zpos (XI (XO (XO (XO (XO (XO (XO (XO (XO
    XH)))))))))), ((Zpos (XI (XO (XO (XO (XO (XI XH))))))) :: ((Zpos (XI (XI
    (XI (XI (XO (XO (XO (XO (XI XH)))))))))) :: []))) :: (((Zpos (XO (XI (XO
    (XO (XO (XO (XO (XO (XO XH)))))))))), ((Zpos (XI (XO (XO (XO (XO (XO
    XH))))))) :: ((Zpos (XI (XO (XO (XO (XI (XO (XO (XO (XI
    XH)))))))))) :: []))) :: (((Zpos (XI (XI (XO (XO (XO (XO (XO (XO (XO
    XH)))))))))), ((Zpos (XI (XO (XO (XO (XO (XI XH))))))) :: ((Zpos (XI (XO
    (XO (XO (XI (XO (XO (XO (XI XH)))))))))) :: []))) :: (((Zpos (XO (XO (XI
    (XO (XO (XO (XO (XO (XO XH)))))))))), ((Zpos (XI (XO (XI (XO (XO (XO
    XH))))))) :: ((Zpos (XI (XI (XI (XI (XO (XO (XO (XO (XI
    XH)))))))))) :: []))) :: (((Zpos (XI (XO (XI (XO (XO (XO (XO (XO (XO
    XH)))))))))), ((Zpos (XI (XO (XI (XO (XO (XI XH))))))) :: ((Zpos (XI (XI
    (XI (XI (XO (XO (XO (XO (XI XH)))))))))) :: []))) :: (((Zpos (XO (XI (XI
    (XO (XO (XO (XO (XO (XO XH)))))))))), ((Zpos (XI (XO (XI (XO (XO (XO
    XH))))))) :: ((Zpos (XI (XO (XO (XO (XI (XO (XO (XO (XI
    XH)))))))))) :: []))) :: (((Zpos (XI (XI (XI (XO (XO (XO (XO (XO (XO
    XH)))))))))), ((Zpos (XI (XO (XI (XO (XO (XI XH))))))) :: ((Zpos (XI (XO
    (XO (XO (XI (XO (XO (XO (XI XH)))))))))) :: []))) :: (((Zpos (XO (XO (XO
    (XI (XO (XO (XO (XO (XO XH)))))))))), ((Zpos (XI (XO (XO (XI (XO (XO
    XH))))))) :: ((Zpos (XI (XI (XI (XI (XO (XO (XO (XO (XI
    XH)))))))))) :: []))) :: (((Zpos (XI (XO (XO (XI (XO (XO (XO (XO (XO
    XH)))))))))), ((Zpos (XI (XO (XO (XI (XO (XI XH))))))) :: ((Zpos (XI (XI
    (XI (XI (XO (XO (XO (XO (XI XH)))))))))) :: []))) :: (((Zpos (XO (XI (XO
    (XI (XO (XO (XO (XO (XO XH)))))))))), ((Zpos (XI (XO (XO (XI (XO (XO
    XH))))))) :: ((Zpos (XI (XO (XO (XO (XI (XO (XO (XO (XI
    XH)))))))))) :: []))) :: (((Zpos (XI (XI (XO (XI (XO (XO (XO (XO (XO
    XH)))))))))), ((Zpos (XI (XO (XO (XI (XO (XI XH))))))) :: ((Zpos (XI (XO
    (XO (XO (XI (XO (XO (XO (XI XH)))))))))) :: []))) :: (((Zpos (XO (XO (XI
    (XI (XO (XO (XO (XO (XO XH)))))))))), ((Zpos (XI (XI (XI (XI (XO (XO
    XH))))))) :: ((Zpos (XI (XI (XI (XI (XO (XO (XO (XO (XI
    XH)))))))))) :: []))) :: (((Zpos (XI (XO (XI (XI (XO (XO (XO (XO (XO
    XH)))))))))), ((Zpos (XI (XI (XI (XI (XO (XI XH))))))) :: ((Zpos (XI (XI
    (XI (XI (XO (XO (XO (XO (XI XH)))))))))) :: []))) :: (((Zpos (XO (XI (XI
    (XI (XO (XO (XO (XO (XO XH)))))))))), ((Zpos (XI (XI (XI (XI (XO (XO
    XH))))))) :: ((Zpos (XI (XO (XO (XO (XI (XO (XO (XO (XI
    XH)))))))))) :: []))) :: (((Zpos (XI (XI (XI (XI (XO (XO (XO (XO (XO
    XH)))))))))), ((Zpos (XI (XI (XI (XI (XO (XI XH))))))) :: ((Zpos (XI (XO
    (XO (XO (XI (XO (XO (XO (XI XH)))))))))) :: []))) :: (((Zpos (XO (XO (XO
    (XO (XI (XO (XO (XO (XO XH)))))))))), ((Zpos (XO (XI (XO (XO (XI (XO
    XH))))))) :: ((Zpos (XI (XI (XI (XI (XO (XO (XO (XO (XI
    XH)))))))))) :: []))) :: (((Zpos (XI (XO (XO (XO (XI (XO (XO (XO (XO
    XH)))))))))), ((Zpos (XO (XI (XO (XO (XI (XI XH))))))) :: ((Zpos (XI (XI
    (XI (XI (XO (XO (XO (XO (XI XH)))))))))) :: []))) :: (((Zpos (XO (XI (XO
    (XO (XI (XO (XO (XO (XO XH)))))))))), ((Zpos (XO (XI (XO (XO (XI (XO
    XH))))))) :: ((Zpos (XI (XO (XO (XO (XI (XO (XO (XO (XI
    XH)))))))))) :: []))) :: (((Zpos (XI (XI (XO (XO (XI (XO (XO (XO (XO
    XH)))))))))), ((Zpos (XO (XI (XO (XO (XI (XI XH))))))) :: ((Zpos (XI (XO
    (XO (XO (XI (XO (XO (XO (XI XH)))))))))) :: []))) :: (((Zpos (XO (XO (XI
    (XO (XI (XO (XO (XO (XO XH)))))))))), ((Zpos (XI (XO (XI (XO (XI (XO
    XH))))))) :: ((Zpos (XI (XI (XI (XI (XO (XO (XO (XO (XI
    XH)))))))))) :: []))) :: (((Zpos (XI (XO (XI (XO (XI (XO (XO (XO (XO
    XH)))))))))), ((Zpos (XI (XO (XI (XO (XI (XI XH))))))) :: ((Zpos (XI (XI
    (XI (XI (XO (XO (XO (XO (XI XH)))))))))) :: []))) :: (((Zpos (XO (XI (XI
    (XO (XI (XO (XO (XO (XO XH)))))))))), ((Zpos (XI (XO (XI (XO (XI (XO
    XH))))))) :: ((Zpos (XI (XO (XO (XO (XI (XO (XO (XO (XI
    XH)))))))))) :: []))) :: (((Zpos (XI (XI (XI (XO (XI (XO (XO (XO (XO
    XH)))))))))), ((Zpos (XI (XO (XI (XO (XI (XI XH))))))) :: ((Zpos (XI (XO
    (XO (XO (XI (XO (XO (XO (XI XH)))))))))) :: []))) :: (((Zpos (XO (XO (XO
    (XI (XI (XO (XO (XO (XO XH)))))))))), ((Zpos (XI (XI (XO (XO (XI (XO
    XH))))))) :: ((Zpos (XO (XI (XI (XO (XO (XI (XO (XO (XI
    XH)))))))))) :: []))) :: (((Zpos (XI (XO (XO (XI (XI (XO (XO (XO (XO
    XH)))))))))), ((Zpos (XI (XI (XO (XO (XI (XI XH))))))) :: ((Zpos (XO (XI
    (XI (XO (XO (XI (XO (XO (XI XH)))))))))) :: []))) :: (((Zpos (XO (XI (XO
    (XI (XI (XO (XO (XO (XO XH)))))))))), ((Zpos (XO (XO (XI (XO (XI (XO
    XH))))))) :: ((Zpos (XO (XI (XI (XO (XO (XI (XO (XO (XI
    XH)))))))))) :: []))) :: (((Zpos (XI (XI (XO (XI (XI (XO (XO (XO (XO
    XH)))))))))), ((Zpos (XO (XO (XI (XO (XI (XI XH))))))) :: ((Zpos (XO (XI
    (XI (XO (XO (XI (XO (XO (XI XH)))))))))) :: []))) :: (((Zpos (XO (XI (XI
    (XI (XI (XO (XO (XO (XO XH)))))))))), ((Zpos (XO (XO (XO (XI (XO (XO
    XH))))))) :: ((Zpos (XO (XO (XI (XI (XO (XO (XO (XO (XI
    XH)))))))))) :: []))) :: (((Zpos (XI (XI (XI (XI (XI (XO (XO (XO (XO
    XH)))))))))), ((Zpos (XO (XO (XO (XI (XO (XI XH))))))) :: ((Zpos (XO (XO
    (XI (XI (XO (XO (XO (XO (XI XH)))))))))) :: []))) :: (((Zpos (XO (XI (XI
    (XO (XO (XI (XO (XO (XO XH)))))))))), ((Zpos (XI (XO (XO (XO (XO (XO
    XH))))))) :: ((Zpos (XI (XI (XI (XO (XO (XO (XO (XO (XI
    XH)))))))))) :: []))) :: (((Zpos (XI (XI (XI (XO (XO (XI (XO (XO (XO
    XH)))))))))), ((Zpos (XI (XO (XO (XO (XO (XI XH))))))) :: ((Zpos (XI (XI
    (XI (XO (XO (XO (XO (XO (XI XH)))))))))) :: []))) :: (((Zpos (XO (XO (XO
    (XI (XO (XI (XO (XO (XO XH)))))))))), ((Zpos (XI (XO (XI (XO (XO (XO
    XH))))))) :: ((Zpos (XI (XI (XI (XO (XO (XI (XO (XO (XI
    XH)))))))))) :: []))) :: (((Zpos (XI (XO (XO (XI (XO (XI (XO (XO (XO
    XH)))))))))), ((Zpos (XI (XO (XI (XO (XO (XI XH))))))) :: ((Zpos (XI (XI
    (XI (XO (XO (XI (XO (XO (XI XH)))))))))) :: []))) :: (((Zpos (XO (XI (XO
    (XI (XO (XI (XO (XO (XO XH)))))))))), ((Zpos (XI (XI (XI (XI (XO (XO
    XH))))))) :: ((Zpos (XO (XO (XO (XI (XO (XO (XO (XO (XI
    XH)))))))))) :: ((Zpos (XO (XO (XI (XO (XO (XO (XO (XO (XI
    XH)))))))))) :: [])))) :: (((Zpos (XI (XI (XO (XI (XO (XI (XO (XO (XO
    XH)))))))))), ((Zpos (XI (XI (XI (XI (XO (XI XH))))))) :: ((Zpos (XO (XO
    (XO (XI (XO (XO (XO (XO (XI XH)))))))))) :: ((Zpos (XO (XO (XI (XO (XO
    (XO (XO (XO (XI XH)))))))))) :: [])))) :: (((Zpos (XO (XO (XI (XI (XO (XI
    (XO (XO (XO XH)))))))))), ((Zpos (XI (XI (XI (XI (XO (XO
    XH))))))) :: ((Zpos (XI (XI (XO (XO (XO (XO (XO (XO (XI
    XH)))))))))) :: ((Zpos (XO (XO (XI (XO (XO (XO (XO (XO (XI
    XH)))))))))) :: [])))) :: (((Zpos (XI (XO (XI (XI (XO (XI (XO (XO (XO
    XH)))))))))), ((Zpos (XI (XI (XI (XI (XO (XI XH))))))) :: ((Zpos (XI (XI
    (XO (XO (XO (XO (XO (XO (XI XH)))))))))) :: ((Zpos (XO (XO (XI (XO (XO
    (XO (XO (XO (XI XH)))))))))) :: [])))) :: (((Zpos (XO (XI (XI (XI (XO (XI
    (XO (XO (XO XH)))))))))), ((Zpos (XI (XI (XI (XI (XO (XO
    XH))))))) :: ((Zpos (XI (XI (XI (XO (XO (XO (XO (XO (XI
    XH)))))))))) :: []))) :: (((Zpos (XI (XI (XI (XI (XO (XI (XO (XO (XO
    XH)))))))))), ((Zpos (XI (XI (XI (XI (XO (XI XH))))))) :: ((Zpos (XI (XI
    (XI (XO (XO (XO (XO (XO (XI XH)))))))))) :: []))) :: (((Zpos (XO (XO (XO
    (XO (XI (XI (XO (XO (XO XH)))))))))), ((Zpos (XI (XI (XI (XI (XO (XO
    XH))))))) :: ((Zpos (XI (XI (XI (XO (XO (XO (XO (XO (XI
    XH)))))))))) :: ((Zpos (XO (XO (XI (XO (XO (XO (XO (XO (XI
    XH)))))))))) :: [])))) :: (((Zpos (XI (XO (XO (XO (XI (XI (XO (XO (XO
    XH)))))))))), ((Zpos (XI (XI (XI (XI (XO (XI XH))))))) :: ((Zpos (XI (XI
    (XI (XO (XO (XO (XO (XO (XI XH)))))))))) :: ((Zpos (XO (XO (XI (XO (XO
    (XO (XO (XO (XI XH)))))))))) :: [])))) :: (((Zpos (XO (XI (XO (XO (XI (XI
    (XO (XO (XO XH)))))))))), ((Zpos (XI (XO (XO (XI (XI (XO
    XH))))))) :: ((Zpos (XO (XO (XI (XO (XO (XO (XO (XO (XI
    XH)))))))))) :: []))) :: (((Zpos (XI (XI (XO (XO (XI (XI (XO (XO (XO
    XH)))))))))), ((Zpos (XI (XO (XO (XI (XI (XI XH))))))) :: ((Zpos (XO (XO
    (XI (XO (XO (XO (XO (XO (XI XH)))))))))) :: []))) :: (((Zpos (XO (XO (XO
    (XO (XO (XO (XI (XO (XI XH)))))))))), ((Zpos (XO (XO (XO (XO (XO (XO (XO
    (XO (XI XH)))))))))) :: [])) :: (((Zpos (XI (XO (XO (XO (XO (XO (XI (XO
    (XI XH)))))))))), ((Zpos (XI (XO (XO (XO (XO (XO (XO (XO (XI
    XH)))))))))) :: [])) :: (((Zpos (XI (XI (XO (XO (XO (XO (XI (XO (XI
    XH)))))))))), ((Zpos (XI (XI (XO (XO (XI (XO (XO (XO (XI
    XH)))))))))) :: [])) :: (((Zpos (XO (XO (XI (XO (XO (XO (XI (XO (XI
    XH)))))))))), ((Zpos (XO (XO (XO (XI (XO (XO (XO (XO (XI
    XH)))))))))) :: ((Zpos (XI (XO (XO (XO (XO (XO (XO (XO (XI
    XH)))))))))) :: []))) :: (((Zpos (XO (XO (XI (XO (XI (XI (XI (XO (XI
    XH)))))))))), ((Zpos (XI (XO (XO (XI (XI (XI (XO (XI (XO
    XH)))))))))) :: [])) :: (((Zpos (XI (XO (XI (XO (XO (XO (XO (XI (XI
    XH)))))))))), ((Zpos (XO (XO (XO (XI (XO (XI (XO XH)))))))) :: ((Zpos (XI
    (XO (XO (XO (XO (XO (XO (XO (XI XH)))))))))) :: []))) :: (((Zpos (XO (XI
    (XI (XO (XO (XO (XO (XI (XI XH)))))))))), ((Zpos (XI (XO (XO (XO (XI (XO
    (XO (XI (XI XH)))))))))) :: ((Zpos (XI (XO (XO (XO (XO (XO (XO (XO (XI
    XH)))))))))) :: []))) :: (((Zpos (XI (XI (XI (XO (XO (XO (XO (XI (XI
    XH)))))))))), ((Zpos (XI (XI (XI (XO (XI (XI (XO
    XH)))))))) :: [])) :: (((Zpos (XO (XO (XO (XI (XO (XO (XO (XI (XI
    XH)))))))))), ((Zpos (XI (XO (XI (XO (XI (XO (XO (XI (XI
    XH)))))))))) :: ((Zpos (XI (XO (XO (XO (XO (XO (XO (XO (XI
    XH)))))))))) :: []))) :: (((Zpos (XI (XO (XO (XI (XO (XO (XO (XI (XI
    XH)))))))))), ((Zpos (XI (XI (XI (XO (XI (XO (XO (XI (XI
    XH)))))))))) :: ((Zpos (XI (XO (XO (XO (XO (XO (XO (XO (XI
    XH)))))))))) :: []))) :: (((Zpos (XO (XI (XO (XI (XO (XO (XO (XI (XI
    XH)))))))))), ((Zpos (XI (XO (XO (XI (XI (XO (XO (XI (XI
    XH)))))))))) :: ((Zpos (XI (XO (XO (XO (XO (XO (XO (XO (XI
    XH)))))))))) :: []))) :: (((Zpos (XO (XO (XI (XI (XO (XO (XO (XI (XI
    XH)))))))))), ((Zpos (XI (XI (XI (XI (XI (XO (XO (XI (XI
    XH)))))))))) :: ((Zpos (XI (XO (XO (XO (XO (XO (XO (XO (XI
    XH)))))))))) :: []))) :: (((Zpos (XO (XI (XI (XI (XO (XO (XO (XI (XI
    XH)))))))))), ((Zpos (XI (XO (XI (XO (XO (XI (XO (XI (XI
    XH)))))))))) :: ((Zpos (XI (XO (XO (XO (XO (XO (XO (XO (XI
    XH)))))))))) :: []))) :: (((Zpos (XI (XI (XI (XI (XO (XO (XO (XI (XI
    XH)))))))))), ((Zpos (XI (XO (XO (XI (XO (XI (XO (XI (XI
    XH)))))))))) :: ((Zpos (XI (XO (XO (XO (XO (XO (XO (XO (XI
    XH)))))))))) :: []))) :: (((Zpos (XO (XO (XO (XO (XI (XO (XO (XI (XI
    XH)))))))))), ((Zpos (XI (XO (XO (XI (XI (XI (XO (XI (XI
    XH)))))))))) :: ((Zpos (XO (XO (XO (XI (XO (XO (XO (XO (XI
    XH)))))))))) :: ((Zpos (XI (XO (XO (XO (XO (XO (XO (XO (XI
    XH)))))))))) :: [])))) :: (((Zpos (XO (XI (XO (XI (XO (XI (XO (XI (XI
    XH)))))))))), ((Zpos (XI (XO (XO (XI (XI (XO (XO (XI (XI
    XH)))))))))) :: ((Zpos (XO (XO (XO (XI (XO (XO (XO (XO (XI
    XH)))))))))) :: []))) :: (((Zpos (XI (XI (XO (XI (XO (XI (XO (XI (XI
    XH)))))))))), ((Zpos (XI (XO (XI (XO (XO (XI (XO (XI (XI
    XH)))))))))) :: ((Zpos (XO (XO (XO (XI (XO (XO (XO (XO (XI
    XH)))))))))) :: []))) :: (((Zpos (XO (XO (XI (XI (XO (XI (XO (XI (XI
    XH)))))))))), ((Zpos (XI (XO (XO (XO (XI (XI (XO (XI (XI
    XH)))))))))) :: ((Zpos (XI (XO (XO (XO (XO (XO (XO (XO (XI
    XH)))))))))) :: []))) :: (((Zpos (XI (XO (XI (XI (XO (XI (XO (XI (XI
    XH)))))))))), ((Zpos (XI (XO (XI (XO (XI (XI (XO (XI (XI
    XH)))))))))) :: ((Zpos (XI (XO (XO (XO (XO (XO (XO (XO (XI
    XH)))))))))) :: []))) :: (((Zpos (XO (XI (XI (XI (XO (XI (XO (XI (XI
    XH)))))))))), ((Zpos (XI (XI (XI (XO (XI (XI (XO (XI (XI
    XH)))))))))) :: ((Zpos (XI (XO (XO (XO (XO (XO (XO (XO (XI
    XH)))))))))) :: []))) :: (((Zpos (XI (XI (XI (XI (XO (XI (XO (XI (XI
    XH)))))))))), ((Zpos (XI (XO (XO (XI (XI (XI (XO (XI (XI
    XH)))))))))) :: ((Zpos (XI (XO (XO (XO (XO (XO (XO (XO (XI
    XH)))))))))) :: []))) :: (((Zpos (XO (XO (XO (XO (XI (XI (XO (XI (XI
    XH)))))))))), ((Zpos (XI (XO (XI (XO (XO (XO (XI (XI (XI
    XH)))))))))) :: ((Zpos (XO (XO (XO (XI (XO (XO (XO (XO (XI
    XH)))))))))) :: ((Zpos (XI (XO (XO (XO (XO (XO (XO (XO (XI
    XH)))))))))) :: [])))) :: (((Zpos (XO (XI (XO (XI (XO (XO (XI (XI (XI
    XH)))))))))), ((Zpos (XI (XO (XO (XI (XI (XI (XO (XI (XI
    XH)))))))))) :: ((Zpos (XO (XO (XO (XI (XO (XO (XO (XO (XI
    XH)))))))))) :: []))) :: (((Zpos (XI (XI (XO (XI (XO (XO (XI (XI (XI
    XH)))))))))), ((Zpos (XI (XO (XI (XO (XO (XO (XI (XI (XI
    XH)))))))))) :: ((Zpos (XO (XO (XO (XI (XO (XO (XO (XO (XI
    XH)))))))))) :: []))) :: (((Zpos (XO (XO (XI (XI (XO (XO (XI (XI (XI
    XH)))))))))), ((Zpos (XI (XI (XI (XI (XI (XI (XO (XI (XI
    XH)))))))))) :: ((Zpos (XI (XO (XO (XO (XO (XO (XO (XO (XI
    XH)))))))))) :: []))) :: (((Zpos (XI (XO (XI (XI (XO (XO (XI (XI (XI
    XH)))))))))), ((Zpos (XI (XO (XI (XO (XO (XO (XI (XI (XI
    XH)))))))))) :: ((Zpos (XI (XO (XO (XO (XO (XO (XO (XO (XI
    XH)))))))))) :: []))) :: (((Zpos (XO (XI (XI (XI (XO (XO (XI (XI (XI
    XH)))))))))), ((Zpos (XI (XO (XO (XI (XO (XO (XI (XI (XI
    XH)))))))))) :: ((Zpos (XI (XO (XO (XO (XO (XO (XO (XO (XI
    XH)))))))))) :: []))) :: (((Zpos (XI (XI (XO (XO (XI (XO (XI (XI (XI
    XH)))))))))), ((Zpos (XO (XI (XO (XO (XI (XO (XI (XI (XI
    XH)))))))))) :: ((Zpos (XI (XO (XO (XO (XO (XO (XO (XO (XI
    XH)))))))))) :: []))) :: (((Zpos (XO (XO (XI (XO (XI (XO (XI (XI (XI
    XH)))))))))), ((Zpos (XO (XI (XO (XO (XI (XO (XI (XI (XI
    XH)))))))))) :: ((Zpos (XO (XO (XO (XI (XO (XO (XO (XO (XI
    XH)))))))))) :: []))) :: (((Zpos (XO (XO (XO (XO (XO (XO (XO (XO (XO (XO
    XH))))))))))), ((Zpos (XI (XO (XI (XO (XI (XO (XO (XO (XO (XO
    XH))))))))))) :: ((Zpos (XO (XO (XO (XO (XO (XO (XO (XO (XI
    XH)))))))))) :: []))) :: (((Zpos (XI (XO (XO (XO (XO (XO (XO (XO (XO (XO
    XH))))))))))), ((Zpos (XI (XO (XI (XO (XI (XO (XO (XO (XO (XO
    XH))))))))))) :: ((Zpos (XO (XO (XO (XI (XO (XO (XO (XO (XI
    XH)))))))))) :: []))) :: (((Zpos (XI (XI (XO (XO (XO (XO (XO (XO (XO (XO
    XH))))))))))), ((Zpos (XI (XI (XO (XO (XI (XO (XO (XO (XO (XO
    XH))))))))))) :: ((Zpos (XI (XO (XO (XO (XO (XO (XO (XO (XI
    XH)))))))))) :: []))) :: (((Zpos (XI (XI (XI (XO (XO (XO (XO (XO (XO (XO
    XH))))))))))), ((Zpos (XO (XI (XI (XO (XO (XO (XO (XO (XO (XO
    XH))))))))))) :: ((Zpos (XO (XO (XO (XI (XO (XO (XO (XO (XI
    XH)))))))))) :: []))) :: (((Zpos (XO (XO (XI (XI (XO (XO (XO (XO (XO (XO
    XH))))))))))), ((Zpos (XO (XI (XO (XI (XI (XO (XO (XO (XO (XO
    XH))))))))))) :: ((Zpos (XI (XO (XO (XO (XO (XO (XO (XO (XI
    XH)))))))))) :: []))) :: (((Zpos (XI (XO (XI (XI (XO (XO (XO (XO (XO (XO
    XH))))))))))), ((Zpos (XO (XO (XO (XI (XI (XO (XO (XO (XO (XO
    XH))))))))))) :: ((Zpos (XO (XO (XO (XO (XO (XO (XO (XO (XI
    XH)))))))))) :: []))) :: (((Zpos (XO (XI (XI (XI (XO (XO (XO (XO (XO (XO
    XH))))))))))), ((Zpos (XI (XI (XO (XO (XO (XI (XO (XO (XO (XO
    XH))))))))))) :: ((Zpos (XO (XI (XI (XO (XO (XO (XO (XO (XI
    XH)))))))))) :: []))) :: (((Zpos (XI (XO (XO (XI (XI (XO (XO (XO (XO (XO
    XH))))))))))), ((Zpos (XO (XO (XO (XI (XI (XO (XO (XO (XO (XO
    XH))))))))))) :: ((Zpos (XO (XI (XI (XO (XO (XO (XO (XO (XI
    XH)))))))))) :: []))) :: (((Zpos (XI (XO (XO (XI (XI (XI (XO (XO (XO (XO
    XH))))))))))), ((Zpos (XO (XO (XO (XI (XI (XI (XO (XO (XO (XO
    XH))))))))))) :: ((Zpos (XO (XI (XI (XO (XO (XO (XO (XO (XI
    XH)))))))))) :: []))) :: (((Zpos (XO (XO (XO (XO (XI (XO (XI (XO (XO (XO
    XH))))))))))), ((Zpos (XI (XO (XI (XO (XI (XI (XO (XO (XO (XO
    XH))))))))))) :: ((Zpos (XO (XO (XO (XO (XO (XO (XO (XO (XI
    XH)))))))))) :: []))) :: (((Zpos (XI (XO (XO (XO (XI (XO (XI (XO (XO (XO
    XH))))))))))), ((Zpos (XI (XO (XI (XO (XI (XI (XO (XO (XO (XO
    XH))))))))))) :: ((Zpos (XO (XO (XO (XI (XO (XO (XO (XO (XI
    XH)))))))))) :: []))) :: (((Zpos (XI (XI (XO (XO (XI (XO (XI (XO (XO (XO
    XH))))))))))), ((Zpos (XI (XI (XO (XO (XI (XI (XO (XO (XO (XO
    XH))))))))))) :: ((Zpos (XI (XO (XO (XO (XO (XO (XO (XO (XI
    XH)))))))))) :: []))) :: (((Zpos (XI (XI (XI (XO (XI (XO (XI (XO (XO (XO
    XH))))))))))), ((Zpos (XO (XI (XI (XO (XI (XO (XI (XO (XO (XO
    XH))))))))))) :: ((Zpos (XO (XO (XO (XI (XO (XO (XO (XO (XI
    XH)))))))))) :: []))) :: (((Zpos (XO (XO (XI (XI (XI (XO (XI (XO (XO (XO
    XH))))))))))), ((Zpos (XO (XI (XO (XI (XI (XI (XO (XO (XO (XO
    XH))))))))))) :: ((Zpos (XI (XO (XO (XO (XO (XO (XO (XO (XI
    XH)))))))))) :: []))) :: (((Zpos (XI (XO (XI (XI (XI (XO (XI (XO (XO (XO
    XH))))))))))), ((Zpos (XO (XO (XO (XI (XI (XI (XO (XO (XO (XO
    XH))))))))))) :: ((Zpos (XO (XO (XO (XO (XO (XO (XO (XO (XI
    XH)))))))))) :: []))) :: (((Zpos (XO (XI (XI (XI (XI (XO (XI (XO (XO (XO
    XH))))))))))), ((Zpos (XI (XI (XO (XO (XO (XO (XI (XO (XO (XO
    XH))))))))))) :: ((Zpos (XO (XI (XI (XO (XO (XO (XO (XO (XI
    XH)))))))))) :: []))) :: (((Zpos (XO (XI (XI (XO (XI (XI (XI (XO (XO (XO
    XH))))))))))), ((Zpos (XO (XO (XI (XO (XI (XI (XI (XO (XO (XO
    XH))))))))))) :: ((Zpos (XI (XI (XI (XI (XO (XO (XO (XO (XI
    XH)))))))))) :: []))) :: (((Zpos (XI (XI (XI (XO (XI (XI (XI (XO (XO (XO
    XH))))))))))), ((Zpos (XI (XO (XI (XO (XI (XI (XI (XO (XO (XO
    XH))))))))))) :: ((Zpos (XI (XI (XI (XI (XO (XO (XO (XO (XI
    XH)))))))))) :: []))) :: (((Zpos (XI (XO (XO (XO (XO (XO (XI (XI (XO (XO
    XH))))))))))), ((Zpos (XO (XI (XI (XO (XI (XO (XO (XO (XO (XO
    XH))))))))))) :: ((Zpos (XO (XI (XI (XO (XO (XO (XO (XO (XI
    XH)))))))))) :: []))) :: (((Zpos (XO (XI (XO (XO (XO (XO (XI (XI (XO (XO
    XH))))))))))), ((Zpos (XO (XI (XI (XO (XI (XI (XO (XO (XO (XO
    XH))))))))))) :: ((Zpos (XO (XI (XI (XO (XO (XO (XO (XO (XI
    XH)))))))))) :: []))) :: (((Zpos (XO (XO (XO (XO (XI (XO (XI (XI (XO (XO
    XH))))))))))), ((Zpos (XO (XO (XO (XO (XI (XO (XO (XO (XO (XO
    XH))))))))))) :: ((Zpos (XO (XI (XI (XO (XO (XO (XO (XO (XI
    XH)))))))))) :: []))) :: (((Zpos (XI (XO (XO (XO (XI (XO (XI (XI (XO (XO
    XH))))))))))), ((Zpos (XO (XO (XO (XO (XI (XI (XO (XO (XO (XO
    XH))))))))))) :: ((Zpos (XO (XI (XI (XO (XO (XO (XO (XO (XI
    XH)))))))))) :: []))) :: (((Zpos (XO (XI (XO (XO (XI (XO (XI (XI (XO (XO
    XH))))))))))), ((Zpos (XO (XO (XO (XO (XI (XO (XO (XO (XO (XO
    XH))))))))))) :: ((Zpos (XO (XO (XO (XI (XO (XO (XO (XO (XI
    XH)))))))))) :: []))) :: (((Zpos (XI (XI (XO (XO (XI (XO (XI (XI (XO (XO
    XH))))))))))), ((Zpos (XO (XO (XO (XO (XI (XI (XO (XO (XO (XO
    XH))))))))))) :: ((Zpos (XO (XO (XO (XI (XO (XO (XO (XO (XI
    XH)))))))))) :: []))) :: (((Zpos (XO (XI (XI (XO (XI (XO (XI (XI (XO (XO
    XH))))))))))), ((Zpos (XI (XO (XI (XO (XI (XO (XO (XO (XO (XO
    XH))))))))))) :: ((Zpos (XO (XI (XI (XO (XO (XO (XO (XO (XI
    XH)))))))))) :: []))) :: (((Zpos (XI (XI (XI (XO (XI (XO (XI (XI (XO (XO
    XH))))))))))), ((Zpos (XI (XO (XI (XO (XI (XI (XO (XO (XO (XO
    XH))))))))))) :: ((Zpos (XO (XI (XI (XO (XO (XO (XO (XO (XI
    XH)))))))))) :: []))) :: (((Zpos (XO (XI (XO (XI (XI (XO (XI (XI (XO (XO
    XH))))))))))), ((Zpos (XO (XO (XO (XI (XI (XO (XI (XI (XO (XO
    XH))))))))))) :: ((Zpos (XO (XO (XO (XI (XO (XO (XO (XO (XI
    XH)))))))))) :: []))) :: (((Zpos (XI (XI (XO (XI (XI (XO (XI (XI (XO (XO
    XH))))))))))), ((Zpos (XI (XO (XO (XI (XI (XO (XI (XI (XO (XO
    XH))))))))))) :: ((Zpos (XO (XO (XO (XI (XO (XO (XO (XO (XI
    XH)))))))))) :: []))) :: (((Zpos (XO (XO (XI (XI (XI (XO (XI (XI (XO (XO
    XH))))))))))), ((Zpos (XO (XI (XI (XO (XI (XO (XO (XO (XO (XO
    XH))))))))))) :: ((Zpos (XO (XO (XO (XI (XO (XO (XO (XO (XI
    XH)))))))))) :: []))) :: (((Zpos (XI (XO (XI (XI (XI (XO (XI (XI (XO (XO
    XH))))))))))), ((Zpos (XO (XI (XI (XO (XI (XI (XO (XO (XO (XO
    XH))))))))))) :: ((Zpos (XO (XO (XO (XI (XO (XO (XO (XO (XI
    XH)))))))))) :: []))) :: (((Zpos (XO (XI (XI (XI (XI (XO (XI (XI (XO (XO
    XH))))))))))), ((Zpos (XI (XI (XI (XO (XI (XO (XO (XO (XO (XO
    XH))))))))))) :: ((Zpos (XO (XO (XO (XI (XO (XO (XO (XO (XI
    XH)))))))))) :: []))) :: (((Zpos (XI (XI (XI (XI (XI (XO (XI (XI (XO (XO
    XH))))))))))), ((Zpos (XI (XI (XI (XO (XI (XI (XO (XO (XO (XO
    XH))))))))))) :: ((Zpos (XO (XO (XO (XI (XO (XO (XO (XO (XI
    XH)))))))))) :: []))) :: (((Zpos (XO (XI (XO (XO (XO (XI (XI (XI (XO (XO
    XH))))))))))), ((Zpos (XO (XO (XO (XI (XI (XO (XO (XO (XO (XO
    XH))))))))))) :: ((Zpos (XO (XO (XI (XO (XO (XO (XO (XO (XI
    XH)))))))))) :: []))) :: (((Zpos (XI (XI (XO (XO (XO (XI (XI (XI (XO (XO
    XH))))))))))), ((Zpos (XO (XO (XO (XI (XI (XI (XO (XO (XO (XO
    XH))))))))))) :: ((Zpos (XO (XO (XI (XO (XO (XO (XO (XO (XI
    XH)))))))))) :: []))) :: (((Zpos (XO (XO (XI (XO (XO (XI (XI (XI (XO (XO
    XH))))))))))), ((Zpos (XO (XO (XO (XI (XI (XO (XO (XO (XO (XO
    XH))))))))))) :: ((Zpos (XO (XO (XO (XI (XO (XO (XO (XO (XI
    XH)))))))))) :: []))) :: (((Zpos (XI (XO (XI (XO (XO (XI (XI (XI (XO (XO
    XH))))))))))), ((Zpos (XO (XO (XO (XI (XI (XI (XO (XO (XO (XO
    XH))))))))))) :: ((Zpos (XO (XO (XO (XI (XO (XO (XO (XO (XI
    XH)))))))))) :: []))) :: (((Zpos (XO (XI (XI (XO (XO (XI (XI (XI (XO (XO
    XH))))))))))), ((Zpos (XO (XI (XI (XI (XI (XO (XO (XO (XO (XO
    XH))))))))))) :: ((Zpos (XO (XO (XO (XI (XO (XO (XO (XO (XI
    XH)))))))))) :: []))) :: (((Zpos (XI (XI (XI (XO (XO (XI (XI (XI (XO (XO
    XH))))))))))), ((Zpos (XO (XI (XI (XI (XI (XI (XO (XO (XO (XO
    XH))))))))))) :: ((Zpos (XO (XO (XO (XI (XO (XO (XO (XO (XI
    XH)))))))))) :: []))) :: (((Zpos (XO (XI (XO (XI (XO (XI (XI (XI (XO (XO
    XH))))))))))), ((Zpos (XO (XO (XO (XI (XO (XI (XI (XI (XO (XO
    XH))))))))))) :: ((Zpos (XO (XO (XO (XI (XO (XO (XO (XO (XI
    XH)))))))))) :: []))) :: (((Zpos (XI (XI (XO (XI (XO (XI (XI (XI (XO (XO
    XH))))))))))), ((Zpos (XI (XO (XO (XI (XO (XI (XI (XI (XO (XO
    XH))))))))))) :: ((Zpos (XO (XO (XO (XI (XO (XO (XO (XO (XI
    XH)))))))))) :: []))) :: (((Zpos (XO (XO (XI (XI (XO (XI (XI (XI (XO (XO
    XH))))))))))), ((Zpos (XI (XO (XI (XI (XO (XI (XO (XO (XO (XO
    XH))))))))))) :: ((Zpos (XO (XO (XO (XI (XO (XO (XO (XO (XI
    XH)))))))))) :: []))) :: (((Zpos (XI (XO (XI (XI (XO (XI (XI (XI (XO (XO
    XH))))))))))), ((Zpos (XI (XO (XI (XI (XO (XO (XI (XO (XO (XO
    XH))))))))))) :: ((Zpos (XO (XO (XO (XI (XO (XO (XO (XO (XI
    XH)))))))))) :: []))) :: (((Zpos (XO (XI (XI (XI (XO (XI (XI (XI (XO (XO
    XH))))))))))), ((Zpos (XI (XI (XO (XO (XO (XI (XO (XO (XO (XO
    XH))))))))))) :: ((Zpos (XO (XO (XI (XO (XO (XO (XO (XO (XI
    XH)))))))))) :: []))) :: (((Zpos (XI (XI (XI (XI (XO (XI (XI (XI (XO (XO
    XH))))))))))), ((Zpos (XI (XI (XO (XO (XO (XO (XI (XO (XO (XO
    XH))))))))))) :: ((Zpos (XO (XO (XI (XO (XO (XO (XO (XO (XI
    XH)))))))))) :: []))) :: (((Zpos (XO (XO (XO (XO (XI (XI (XI (XI (XO (XO
    XH))))))))))), ((Zpos (XI (XI (XO (XO (XO (XI (XO (XO (XO (XO
    XH))))))))))) :: ((Zpos (XO (XO (XO (XI (XO (XO (XO (XO (XI
    XH)))))))))) :: []))) :: (((Zpos (XI (XO (XO (XO (XI (XI (XI (XI (XO (XO
    XH))))))))))), ((Zpos (XI (XI (XO (XO (XO (XO (XI (XO (XO (XO
    XH))))))))))) :: ((Zpos (XO (XO (XO (XI (XO (XO (XO (XO (XI
    XH)))))))))) :: []))) :: (((Zpos (XO (XI (XO (XO (XI (XI (XI (XI (XO (XO
    XH))))))))))), ((Zpos (XI (XI (XO (XO (XO (XI (XO (XO (XO (XO
    XH))))))))))) :: ((Zpos (XI (XI (XO (XI (XO (XO (XO (XO (XI
    XH)))))))))) :: []))) :: (((Zpos (XI (XI (XO (XO (XI (XI (XI (XI (XO (XO
    XH))))))))))), ((Zpos (XI (XI (XO (XO (XO (XO (XI (XO (XO (XO
    XH))))))))))) :: ((Zpos (XI (XI (XO (XI (XO (XO (XO (XO (XI
    XH)))))))))) :: []))) :: (((Zpos (XO (XO (XI (XO (XI (XI (XI (XI (XO (XO
    XH))))))))))), ((Zpos (XI (XI (XI (XO (XO (XI (XO (XO (XO (XO
    XH))))))))))) :: ((Zpos (XO (XO (XO (XI (XO (XO (XO (XO (XI
    XH)))))))))) :: []))) :: (((Zpos (XI (XO (XI (XO (XI (XI (XI (XI (XO (XO
    XH))))))))))), ((Zpos (XI (XI (XI (XO (XO (XO (XI (XO (XO (XO
    XH))))))))))) :: ((Zpos (XO (XO (XO (XI (XO (XO (XO (XO (XI
    XH)))))))))) :: []))) :: (((Zpos (XO (XO (XO (XI (XI (XI (XI (XI (XO (XO
    XH))))))))))), ((Zpos (XI (XI (XO (XI (XO (XI (XO (XO (XO (XO
    XH))))))))))) :: ((Zpos (XO (XO (XO (XI (XO (XO (XO (XO (XI
    XH)))))))))) :: []))) :: (((Zpos (XI (XO (XO (XI (XI (XI (XI (XI (XO (XO
    XH))))))))))), ((Zpos (XI (XI (XO (XI (XO (XO (XI (XO (XO (XO
    XH))))))))))) :: ((Zpos (XO (XO (XO (XI (XO (XO (XO (XO (XI
    XH)))))))))) :: []))) :: (((Zpos (XO (XI (XO (XO (XO (XI (XO (XO (XO (XI
    XH))))))))))), ((Zpos (XI (XI (XI (XO (XO (XI (XO (XO (XO (XI
    XH))))))))))) :: ((Zpos (XI (XI (XO (XO (XI (XO (XI (XO (XO (XI
    XH))))))))))) :: []))) :: (((Zpos (XI (XI (XO (XO (XO (XI (XO (XO (XO (XI
    XH))))))))))), ((Zpos (XI (XI (XI (XO (XO (XI (XO (XO (XO (XI
    XH))))))))))) :: ((Zpos (XO (XO (XI (XO (XI (XO (XI (XO (XO (XI
    XH))))))))))) :: []))) :: (((Zpos (XO (XO (XI (XO (XO (XI (XO (XO (XO (XI
    XH))))))))))), ((Zpos (XO (XO (XO (XI (XO (XO (XI (XO (XO (XI
    XH))))))))))) :: ((Zpos (XO (XO (XI (XO (XI (XO (XI (XO (XO (XI
    XH))))))))))) :: []))) :: (((Zpos (XI (XO (XI (XO (XO (XI (XO (XO (XO (XI
    XH))))))))))), ((Zpos (XI (XI (XI (XO (XO (XI (XO (XO (XO (XI
    XH))))))))))) :: ((Zpos (XI (XO (XI (XO (XI (XO (XI (XO (XO (XI
    XH))))))))))) :: []))) :: (((Zpos (XO (XI (XI (XO (XO (XI (XO (XO (XO (XI
    XH))))))))))), ((Zpos (XO (XI (XO (XI (XO (XO (XI (XO (XO (XI
    XH))))))))))) :: ((Zpos (XO (XO (XI (XO (XI (XO (XI (XO (XO (XI
    XH))))))))))) :: []))) :: (((Zpos (XO (XO (XO (XO (XO (XO (XI (XI (XO (XI
    XH))))))))))), ((Zpos (XI (XO (XI (XO (XI (XO (XI (XI (XO (XI
    XH))))))))))) :: ((Zpos (XO (XO (XI (XO (XI (XO (XI (XO (XO (XI
    XH))))))))))) :: []))) :: (((Zpos (XO (XI (XO (XO (XO (XO (XI (XI (XO (XI
    XH))))))))))), ((Zpos (XI (XO (XO (XO (XO (XO (XI (XI (XO (XI
    XH))))))))))) :: ((Zpos (XO (XO (XI (XO (XI (XO (XI (XO (XO (XI
    XH))))))))))) :: []))) :: (((Zpos (XI (XI (XO (XO (XI (XO (XI (XI (XO (XI
    XH))))))))))), ((Zpos (XO (XI (XO (XO (XI (XO (XI (XI (XO (XI
    XH))))))))))) :: ((Zpos (XO (XO (XI (XO (XI (XO (XI (XO (XO (XI
    XH))))))))))) :: []))) :: (((Zpos (XI (XO (XO (XI (XO (XI (XO (XO (XI (XO
    (XO XH)))))))))))), ((Zpos (XO (XO (XO (XI (XO (XI (XO (XO (XI (XO (XO
    XH)))))))))))) :: ((Zpos (XO (XO (XI (XI (XI (XI (XO (XO (XI (XO (XO
    XH)))))))))))) :: []))) :: (((Zpos (XI (XO (XO (XO (XI (XI (XO (XO (XI
    (XO (XO XH)))))))))))), ((Zpos (XO (XO (XO (XO (XI (XI (XO (XO (XI (XO
    (XO XH)))))))))))) :: ((Zpos (XO (XO (XI (XI (XI (XI (XO (XO (XI (XO (XO
    XH)))))))))))) :: []))) :: (((Zpos (XO (XO (XI (XO (XI (XI (XO (XO (XI
    (XO (XO XH)))))))))))), ((Zpos (XI (XI (XO (XO (XI (XI (XO (XO (XI (XO
    (XO XH)))))))))))) :: ((Zpos (XO (XO (XI (XI (XI (XI (XO (XO (XI (XO (XO
    XH)))))))))))) :: []))) :: (((Zpos (XO (XO (XO (XI (XI (XO (XI (XO (XI
    (XO (XO XH)))))))))))), ((Zpos (XI (XO (XI (XO (XI (XO (XO (XO (XI (XO
    (XO XH)))))))))))) :: ((Zpos (XO (XO (XI (XI (XI (XI (XO (XO (XI (XO (XO
    XH)))))))))))) :: []))) :: (((Zpos (XI (XO (XO (XI (XI (XO (XI (XO (XI
    (XO (XO XH)))))))))))), ((Zpos (XO (XI (XI (XO (XI (XO (XO (XO (XI (XO
    (XO XH)))))))))))) :: ((Zpos (XO (XO (XI (XI (XI (XI (XO (XO (XI (XO (XO
    XH)))))))))))) :: []))) :: (((Zpos (XO (XI (XO (XI (XI (XO (XI (XO (XI
    (XO (XO XH)))))))))))), ((Zpos (XI (XI (XI (XO (XI (XO (XO (XO (XI (XO
    (XO XH)))))))))))) :: ((Zpos (XO (XO (XI (XI (XI (XI (XO (XO (XI (XO (XO
    XH)))))))))))) :: []))) :: (((Zpos (XI (XI (XO (XI (XI (XO (XI (XO (XI
    (XO (XO XH)))))))))))), ((Zpos (XO (XO (XI (XI (XI (XO (XO (XO (XI (XO
    (XO XH)))))))))))) :: ((Zpos (XO (XO (XI (XI (XI (XI (XO (XO (XI (XO (XO
    XH)))))))))))) :: []))) :: (((Zpos (XO (XO (XI (XI (XI (XO (XI (XO (XI
    (XO (XO XH)))))))))))), ((Zpos (XI (XO (XO (XO (XO (XI (XO (XO (XI (XO
    (XO XH)))))))))))) :: ((Zpos (XO (XO (XI (XI (XI (XI (XO (XO (XI (XO (XO
    XH)))))))))))) :: []))) :: (((Zpos (XI (XO (XI (XI (XI (XO (XI (XO (XI
    (XO (XO XH)))))))))))), ((Zpos (XO (XI (XO (XO (XO (XI (XO (XO (XI (XO
    (XO XH)))))))))))) :: ((Zpos (XO (XO (XI (XI (XI (XI (XO (XO (XI (XO (XO
    XH)))))))))))) :: []))) :: (((Zpos (XO (XI (XI (XI (XI (XO (XI (XO (XI
    (XO (XO XH)))))))))))), ((Zpos (XI (XI (XO (XI (XO (XI (XO (XO (XI (XO
    (XO XH)))))))))))) :: ((Zpos (XO (XO (XI (XI (XI (XI (XO (XO (XI (XO (XO
    XH)))))))))))) :: []))) :: (((Zpos (XI (XI (XI (XI (XI (XO (XI (XO (XI
    (XO (XO XH)))))))))))), ((Zpos (XI (XI (XI (XI (XO (XI (XO (XO (XI (XO
    (XO XH)))))))))))) :: ((Zpos (XO (XO (XI (XI (XI (XI (XO (XO (XI (XO (XO
    XH)))))))))))) :: []))) :: (((Zpos (XI (XI (XO (XI (XO (XO (XI (XI (XI
    (XO (XO XH)))))))))))), ((Zpos (XI (XI (XI (XO (XO (XO (XI (XI (XI (XO
    (XO XH)))))))))))) :: ((Zpos (XO (XI (XI (XI (XI (XI (XO (XI (XI (XO (XO
    XH)))))))))))) :: []))) :: (((Zpos (XO (XO (XI (XI (XO (XO (XI (XI (XI
    (XO (XO XH)))))))))))), ((Zpos (XI (XI (XI (XO (XO (XO (XI (XI (XI (XO
    (XO XH)))))))))))) :: ((Zpos (XI (XI (XI (XO (XI (XO (XI (XI (XI (XO (XO
    XH)))))))))))) :: []))) :: (((Zpos (XO (XO (XI (XI (XI (XO (XI (XI (XI
    (XO (XO XH)))))))))))), ((Zpos (XI (XO (XO (XO (XO (XI (XO (XI (XI (XO
    (XO XH)))))))))))) :: ((Zpos (XO (XO (XI (XI (XI (XI (XO (XI (XI (XO (XO
    XH)))))))))))) :: []))) :: (((Zpos (XI (XO (XI (XI (XI (XO (XI (XI (XI
    (XO (XO XH)))))))))))), ((Zpos (XO (XI (XO (XO (XO (XI (XO (XI (XI (XO
    (XO XH)))))))))))) :: ((Zpos (XO (XO (XI (XI (XI (XI (XO (XI (XI (XO (XO
    XH)))))))))))) :: []))) :: (((Zpos (XI (XI (XI (XI (XI (XO (XI (XI (XI
    (XO (XO XH)))))))))))), ((Zpos (XI (XI (XI (XI (XO (XI (XO (XI (XI (XO
    (XO XH)))))))))))) :: ((Zpos (XO (XO (XI (XI (XI (XI (XO (XI (XI (XO (XO
    XH)))))))))))) :: []))) :: (((Zpos (XI (XI (XO (XO (XI (XI (XO (XO (XO
    (XI (XO XH)))))))))))), ((Zpos (XO (XI (XO (XO (XI (XI (XO (XO (XO (XI
    (XO XH)))))))))))) :: ((Zpos (XO (XO (XI (XI (XI (XI (XO (XO (XO (XI (XO
    XH)))))))))))) :: []))) :: (((Zpos (XO (XI (XI (XO (XI (XI (XO (XO (XO
    (XI (XO XH)))))))))))), ((Zpos (XO (XO (XO (XI (XI (XI (XO (XO (XO (XI
    (XO XH)))))))))))) :: ((Zpos (XO (XO (XI (XI (XI (XI (XO (XO (XO (XI (XO
    XH)))))))))))) :: []))) :: (((Zpos (XI (XO (XO (XI (XI (XO (XI (XO (XO
    (XI (XO XH)))))))))))), ((Zpos (XO (XI (XI (XO (XI (XO (XO (XO (XO (XI
    (XO XH)))))))))))) :: ((Zpos (XO (XO (XI (XI (XI (XI (XO (XO (XO (XI (XO
    XH)))))))))))) :: []))) :: (((Zpos (XO (XI (XO (XI (XI (XO (XI (XO (XO
    (XI (XO XH)))))))))))), ((Zpos (XI (XI (XI (XO (XI (XO (XO (XO (XO (XI
    (XO XH)))))))))))) :: ((Zpos (XO (XO (XI (XI (XI (XI (XO (XO (XO (XI (XO
    XH)))))))))))) :: []))) :: (((Zpos (XI (XI (XO (XI (XI (XO (XI (XO (XO
    (XI (XO XH)))))))))))), ((Zpos (XO (XO (XI (XI (XI (XO (XO (XO (XO (XI
    (XO XH)))))))))))) :: ((Zpos (XO (XO (XI (XI (XI (XI (XO (XO (XO (XI (XO
    XH)))))))))))) :: []))) :: (((Zpos (XO (XI (XI (XI (XI (XO (XI (XO (XO
    (XI (XO XH)))))))))))), ((Zpos (XI (XI (XO (XI (XO (XI (XO (XO (XO (XI
    (XO XH)))))))))))) :: ((Zpos (XO (XO (XI (XI (XI (XI (XO (XO (XO (XI (XO
    XH)))))))))))) :: []))) :: (((Zpos (XO (XO (XO (XI (XO (XO (XI (XO (XI
    (XI (XO XH)))))))))))), ((Zpos (XI (XI (XI (XO (XO (XO (XI (XO (XI (XI
    (XO XH)))))))))))) :: ((Zpos (XO (XI (XI (XO (XI (XO (XI (XO (XI (XI (XO
    XH)))))))))))) :: []))) :: (((Zpos (XI (XI (XO (XI (XO (XO (XI (XO (XI
    (XI (XO XH)))))))))))), ((Zpos (XI (XI (XI (XO (XO (XO (XI (XO (XI (XI
    (XO XH)))))))))))) :: ((Zpos (XO (XI (XI (XI (XI (XI (XO (XO (XI (XI (XO
    XH)))))))))))) :: []))) :: (((Zpos (XO (XO (XI (XI (XO (XO (XI (XO (XI
    (XI (XO XH)))))))))))), ((Zpos (XI (XI (XI (XO (XO (XO (XI (XO (XI (XI
    (XO XH)))))))))))) :: ((Zpos (XI (XI (XI (XO (XI (XO (XI (XO (XI (XI (XO
    XH)))))))))))) :: []))) :: (((Zpos (XO (XO (XI (XI (XI (XO (XI (XO (XI
    (XI (XO XH)))))))))))), ((Zpos (XI (XO (XO (XO (XO (XI (XO (XO (XI (XI
    (XO XH)))))))))))) :: ((Zpos (XO (XO (XI (XI (XI (XI (XO (XO (XI (XI (XO
    XH)))))))))))) :: []))) :: (((Zpos (XI (XO (XI (XI (XI (XO (XI (XO (XI
    (XI (XO XH)))))))))))), ((Zpos (XO (XI (XO (XO (XO (XI (XO (XO (XI (XI
    (XO XH)))))))))))) :: ((Zpos (XO (XO (XI (XI (XI (XI (XO (XO (XI (XI (XO
    XH)))))))))))) :: []))) :: (((Zpos (XO (XO (XI (XO (XI (XO (XO (XI (XI
    (XI (XO XH)))))))))))), ((Zpos (XO (XI (XO (XO (XI (XO (XO (XI (XI (XI
    (XO XH)))))))))))) :: ((Zpos (XI (XI (XI (XO (XI (XO (XI (XI (XI (XI (XO
    XH)))))))))))) :: []))) :: (((Zpos (XO (XI (XO (XI (XO (XO (XI (XI (XI
    (XI (XO XH)))))))))))), ((Zpos (XO (XI (XI (XO (XO (XO (XI (XI (XI (XI
    (XO XH)))))))))))) :: ((Zpos (XO (XI (XI (XI (XI (XI (XO (XI (XI (XI (XO
    XH)))))))))))) :: []))) :: (((Zpos (XI (XI (XO (XI (XO (XO (XI (XI (XI
    (XI (XO XH)))))))))))), ((Zpos (XI (XI (XI (XO (XO (XO (XI (XI (XI (XI
    (XO XH)))))))))))) :: ((Zpos (XO (XI (XI (XI (XI (XI (XO (XI (XI (XI (XO
    XH)))))))))))) :: []))) :: (((Zpos (XO (XO (XI (XI (XO (XO (XI (XI (XI
    (XI (XO XH)))))))))))), ((Zpos (XO (XI (XI (XO (XO (XO (XI (XI (XI (XI
    (XO XH)))))))))))) :: ((Zpos (XI (XI (XI (XO (XI (XO (XI (XI (XI (XI (XO
    XH)))))))))))) :: []))) :: (((Zpos (XO (XO (XO (XI (XO (XO (XI (XO (XO
    (XO (XI XH)))))))))))), ((Zpos (XO (XI (XI (XO (XO (XO (XI (XO (XO (XO
    (XI XH)))))))))))) :: ((Zpos (XO (XI (XI (XO (XI (XO (XI (XO (XO (XO (XI
    XH)))))))))))) :: []))) :: (((Zpos (XO (XO (XO (XO (XO (XO (XI (XI (XO
    (XO (XI XH)))))))))))), ((Zpos (XI (XI (XI (XI (XI (XI (XO (XI (XO (XO
    (XI XH)))))))))))) :: ((Zpos (XI (XO (XI (XO (XI (XO (XI (XI (XO (XO (XI
    XH)))))))))))) :: []))) :: (((Zpos (XI (XI (XI (XO (XO (XO (XI (XI (XO
    (XO (XI XH)))))))))))), ((Zpos (XO (XI (XI (XO (XO (XO (XI (XI (XO (XO
    (XI XH)))))))))))) :: ((Zpos (XI (XO (XI (XO (XI (XO (XI (XI (XO (XO (XI
    XH)))))))))))) :: []))) :: (((Zpos (XO (XO (XO (XI (XO (XO (XI (XI (XO
    (XO (XI XH)))))))))))), ((Zpos (XO (XI (XI (XO (XO (XO (XI (XI (XO (XO
    (XI XH)))))))))))) :: ((Zpos (XO (XI (XI (XO (XI (XO (XI (XI (XO (XO (XI
    XH)))))))))))) :: []))) :: (((Zpos (XO (XI (XO (XI (XO (XO (XI (XI (XO
    (XO (XI XH)))))))))))), ((Zpos (XO (XI (XI (XO (XO (XO (XI (XI (XO (XO
    (XI XH)))))))))))) :: ((Zpos (XO (XI (XO (XO (XO (XO (XI (XI (XO (XO (XI
    XH)))))))))))) :: []))) :: (((Zpos (XI (XI (XO (XI (XO (XO (XI (XI (XO
    (XO (XI XH)))))))))))), ((Zpos (XO (XI (XI (XO (XO (XO (XI (XI (XO (XO
    (XI XH)))))))))))) :: ((Zpos (XO (XI (XO (XO (XO (XO (XI (XI (XO (XO (XI
    XH)))))))))))) :: ((Zpos (XI (XO (XI (XO (XI (XO (XI (XI (XO (XO (XI
    XH)))))))))))) :: [])))) :: (((Zpos (XO (XI (XO (XI (XO (XO (XI (XO (XI
    (XO (XI XH)))))))))))), ((Zpos (XO (XI (XI (XO (XO (XO (XI (XO (XI (XO
    (XI XH)))))))))))) :: ((Zpos (XO (XI (XI (XI (XI (XI (XO (XO (XI (XO (XI
    XH)))))))))))) :: []))) :: (((Zpos (XI (XI (XO (XI (XO (XO (XI (XO (XI
    (XO (XI XH)))))))))))), ((Zpos (XI (XI (XI (XO (XO (XO (XI (XO (XI (XO
    (XI XH)))))))))))) :: ((Zpos (XO (XI (XI (XI (XI (XI (XO (XO (XI (XO (XI
    XH)))))))))))) :: []))) :: (((Zpos (XO (XO (XI (XI (XO (XO (XI (XO (XI
    (XO (XI XH)))))))))))), ((Zpos (XO (XI (XI (XO (XO (XO (XI (XO (XI (XO
    (XI XH)))))))))))) :: ((Zpos (XI (XI (XI (XO (XI (XO (XI (XO (XI (XO (XI
    XH)))))))))))) :: []))) :: (((Zpos (XO (XI (XO (XI (XI (XO (XI (XI (XI
    (XO (XI XH)))))))))))), ((Zpos (XI (XO (XO (XI (XI (XO (XI (XI (XI (XO
    (XI XH)))))))))))) :: ((Zpos (XO (XI (XO (XI (XO (XO (XI (XI (XI (XO (XI
    XH)))))))))))) :: []))) :: (((Zpos (XO (XO (XI (XI (XI (XO (XI (XI (XI
    (XO (XI XH)))))))))))), ((Zpos (XI (XO (XO (XI (XI (XO (XI (XI (XI (XO
    (XI XH)))))))))))) :: ((Zpos (XI (XI (XI (XI (XO (XO (XI (XI (XI (XO (XI
    XH)))))))))))) :: []))) :: (((Zpos (XI (XO (XI (XI (XI (XO (XI (XI (XI
    (XO (XI XH)))))))))))), ((Zpos (XI (XO (XO (XI (XI (XO (XI (XI (XI (XO
    (XI XH)))))))))))) :: ((Zpos (XI (XI (XI (XI (XO (XO (XI (XI (XI (XO (XI
    XH)))))))))))) :: ((Zpos (XO (XI (XO (XI (XO (XO (XI (XI (XI (XO (XI
    XH)))))))))))) :: [])))) :: (((Zpos (XO (XI (XI (XI (XI (XO (XI (XI (XI
    (XO (XI XH)))))))))))), ((Zpos (XI (XO (XO (XI (XI (XO (XI (XI (XI (XO
    (XI XH)))))))))))) :: ((Zpos (XI (XI (XI (XI (XI (XO (XI (XI (XI (XO (XI
    XH)))))))))))) :: []))) :: (((Zpos (XI (XI (XO (XO (XO (XO (XI (XO (XI
    (XI (XI XH)))))))))))), ((Zpos (XO (XI (XO (XO (XO (XO (XI (XO (XI (XI
    (XI XH)))))))))))) :: ((Zpos (XI (XI (XI (XO (XI (XI (XO (XI (XI (XI (XI
    XH)))))))))))) :: []))) :: (((Zpos (XI (XO (XI (XI (XO (XO (XI (XO (XI
    (XI (XI XH)))))))))))), ((Zpos (XO (XO (XI (XI (XO (XO (XI (XO (XI (XI
    (XI XH)))))))))))) :: ((Zpos (XI (XI (XI (XO (XI (XI (XO (XI (XI (XI (XI
    XH)))))))))))) :: []))) :: (((Zpos (XO (XI (XO (XO (XI (XO (XI (XO (XI
    (XI (XI XH)))))))))))), ((Zpos (XI (XO (XO (XO (XI (XO (XI (XO (XI (XI
    (XI XH)))))))))))) :: ((Zpos (XI (XI (XI (XO (XI (XI (XO (XI (XI (XI (XI
    XH)))))))))))) :: []))) :: (((Zpos (XI (XI (XI (XO (XI (XO (XI (XO (XI
    (XI (XI XH)))))))))))), ((Zpos (XO (XI (XI (XO (XI (XO (XI (XO (XI (XI
    (XI XH)))))))))))) :: ((Zpos (XI (XI (XI (XO (XI (XI (XO (XI (XI (XI (XI
    XH)))))))))))) :: []))) :: (((Zpos (XO (XO (XI (XI (XI (XO (XI (XO (XI
    (XI (XI XH)))))))))))), ((Zpos (XI (XI (XO (XI (XI (XO (XI (XO (XI (XI
    (XI XH)))))))))))) :: ((Zpos (XI (XI (XI (XO (XI (XI (XO (XI (XI (XI (XI
    XH)))))))))))) :: []))) :: (((Zpos (XI (XO (XO (XI (XO (XI (XI (XO (XI
    (XI (XI XH)))))))))))), ((Zpos (XO (XO (XO (XO (XO (XO (XI (XO (XI (XI
    (XI XH)))))))))))) :: ((Zpos (XI (XO (XI (XO (XI (XI (XO (XI (XI (XI (XI
    XH)))))))))))) :: []))) :: (((Zpos (XI (XI (XO (XO (XI (XI (XI (XO (XI
    (XI (XI XH)))))))))))), ((Zpos (XI (XO (XO (XO (XI (XI (XI (XO (XI (XI
    (XI XH)))))))))))) :: ((Zpos (XO (XI (XO (XO (XI (XI (XI (XO (XI (XI (XI
    XH)))))))))))) :: []))) :: (((Zpos (XI (XO (XI (XO (XI (XI (XI (XO (XI
    (XI (XI XH)))))))))))), ((Zpos (XI (XO (XO (XO (XI (XI (XI (XO (XI (XI
    (XI XH)))))))))))) :: ((Zpos (XO (XO (XI (XO (XI (XI (XI (XO (XI (XI (XI
    XH)))))))))))) :: []))) :: (((Zpos (XO (XI (XI (XO (XI (XI (XI (XO (XI
    (XI (XI XH)))))))))))), ((Zpos (XO (XI (XO (XO (XI (XI (XO (XI (XI (XI
    (XI XH)))))))))))) :: ((Zpos (XO (XO (XO (XO (XO (XO (XO (XI (XI (XI (XI
    XH)))))))))))) :: []))) :: (((Zpos (XO (XO (XO (XI (XI (XI (XI (XO (XI
    (XI (XI XH)))))))))))), ((Zpos (XI (XI (XO (XO (XI (XI (XO (XI (XI (XI
    (XI XH)))))))))))) :: ((Zpos (XO (XO (XO (XO (XO (XO (XO (XI (XI (XI (XI
    XH)))))))))))) :: []))) :: (((Zpos (XI (XO (XO (XO (XO (XO (XO (XI (XI
    (XI (XI XH)))))))))))), ((Zpos (XI (XO (XO (XO (XI (XI (XI (XO (XI (XI
    (XI XH)))))))))))) :: ((Zpos (XO (XO (XO (XO (XO (XO (XO (XI (XI (XI (XI
    XH)))))))))))) :: []))) :: (((Zpos (XI (XI (XO (XO (XI (XO (XO (XI (XI
    (XI (XI XH)))))))))))), ((Zpos (XO (XI (XO (XO (XI (XO (XO (XI (XI (XI
    (XI XH)))))))))))) :: ((Zpos (XI (XI (XI (XO (XI (XI (XO (XI (XI (XI (XI
    XH)))))))))))) :: []))) :: (((Zpos (XI (XO (XI (XI (XI (XO (XO (XI (XI
    (XI (XI XH)))))))))))), ((Zpos (XO (XO (XI (XI (XI (XO (XO (XI (XI (XI
    (XI XH)))))))))))) :: ((Zpos (XI (XI (XI (XO (XI (XI (XO (XI (XI (XI (XI
    XH)))))))))))) :: []))) :: (((Zpos (XO (XI (XO (XO (XO (XI (XO (XI (XI
    (XI (XI XH)))))))))))), ((Zpos (XI (XO (XO (XO (XO (XI (XO (XI (XI (XI
    (XI XH)))))))))))) :: ((Zpos (XI (XI (XI (XO (XI (XI (XO (XI (XI (XI (XI
    XH)))))))))))) :: []))) :: (((Zpos (XI (XI (XI (XO (XO (XI (XO (XI (XI
    (XI (XI XH)))))))))))), ((Zpos (XO (XI (XI (XO (XO (XI (XO (XI (XI (XI
    (XI XH)))))))))))) :: ((Zpos (XI (XI (XI (XO (XI (XI (XO (XI (XI (XI (XI
    XH)))))))))))) :: []))) :: (((Zpos (XO (XO (XI (XI (XO (XI (XO (XI (XI
    (XI (XI XH)))))))))))), ((Zpos (XI (XI (XO (XI (XO (XI (XO (XI (XI (XI
    (XI XH)))))))))))) :: ((Zpos (XI (XI (XI (XO (XI (XI (XO (XI (XI (XI (XI
    XH)))))))))))) :: []))) :: (((Zpos (XI (XO (XO (XI (XI (XI (XO (XI (XI
    (XI (XI XH)))))))))))), ((Zpos (XO (XO (XO (XO (XI (XO (XO (XI (XI (XI
    (XI XH)))))))))))) :: ((Zpos (XI (XO (XI (XO (XI (XI (XO (XI (XI (XI (XI
    XH)))))))))))) :: []))) :: (((Zpos (XO (XI (XI (XO (XO (XI (XO (XO (XO
    (XO (XO (XO XH))))))))))))), ((Zpos (XI (XO (XI (XO (XO (XI (XO (XO (XO
    (XO (XO (XO XH))))))))))))) :: ((Zpos (XO (XI (XI (XI (XO (XI (XO (XO (XO
    (XO (XO (XO XH))))))))))))) :: []))) :: (((Zpos (XO (XI (XI (XO (XO (XO
    (XO (XO (XI (XI (XO (XI XH))))))))))))), ((Zpos (XI (XO (XI (XO (XO (XO
    (XO (XO (XI (XI (XO (XI XH))))))))))))) :: ((Zpos (XI (XO (XI (XO (XI (XI
    (XO (XO (XI (XI (XO (XI XH))))))))))))) :: []))) :: (((Zpos (XO (XO (XO
    (XI (XO (XO (XO (XO (XI (XI (XO (XI XH))))))))))))), ((Zpos (XI (XI (XI
    (XO (XO (XO (XO (XO (XI (XI (XO (XI XH))))))))))))) :: ((Zpos (XI (XO (XI
    (XO (XI (XI (XO (XO (XI (XI (XO (XI XH))))))))))))) :: []))) :: (((Zpos
    (XO (XI (XO (XI (XO (XO (XO (XO (XI (XI (XO (XI XH))))))))))))), ((Zpos
    (XI (XO (XO (XI (XO (XO (XO (XO (XI (XI (XO (XI XH))))))))))))) :: ((Zpos
    (XI (XO (XI (XO (XI (XI (XO (XO (XI (XI (XO (XI
    XH))))))))))))) :: []))) :: (((Zpos (XO (XO (XI (XI (XO (XO (XO (XO (XI
    (XI (XO (XI XH))))))))))))), ((Zpos (XI (XI (XO (XI (XO (XO (XO (XO (XI
    (XI (XO (XI XH))))))))))))) :: ((Zpos (XI (XO (XI (XO (XI (XI (XO (XO (XI
    (XI (XO (XI XH))))))))))))) :: []))) :: (((Zpos (XO (XI (XI (XI (XO (XO
    (XO (XO (XI (XI (XO (XI XH))))))))))))), ((Zpos (XI (XO (XI (XI (XO (XO
    (XO (XO (XI (XI (XO (XI XH))))))))))))) :: ((Zpos (XI (XO (XI (XO (XI (XI
    (XO (XO (XI (XI (XO (XI XH))))))))))))) :: []))) :: (((Zpos (XO (XI (XO
    (XO (XI (XO (XO (XO (XI (XI (XO (XI XH))))))))))))), ((Zpos (XI (XO (XO
    (XO (XI (XO (XO (XO (XI (XI (XO (XI XH))))))))))))) :: ((Zpos (XI (XO (XI
    (XO (XI (XI (XO (XO (XI (XI (XO (XI XH))))))))))))) :: []))) :: (((Zpos
    (XI (XI (XO (XI (XI (XI (XO (XO (XI (XI (XO (XI XH))))))))))))), ((Zpos
    (XO (XI (XO (XI (XI (XI (XO (XO (XI (XI (XO (XI XH))))))))))))) :: ((Zpos
    (XI (XO (XI (XO (XI (XI (XO (XO (XI (XI (XO (XI
    XH))))))))))))) :: []))) :: (((Zpos (XI (XO (XI (XI (XI (XI (XO (XO (XI
    (XI (XO (XI XH))))))))))))), ((Zpos (XO (XO (XI (XI (XI (XI (XO (XO (XI
    (XI (XO (XI XH))))))))))))) :: ((Zpos (XI (XO (XI (XO (XI (XI (XO (XO (XI
    (XI (XO (XI XH))))))))))))) :: []))) :: (((Zpos (XO (XO (XO (XO (XO (XO
    (XI (XO (XI (XI (XO (XI XH))))))))))))), ((Zpos (XO (XI (XI (XI (XI (XI
    (XO (XO (XI (XI (XO (XI XH))))))))))))) :: ((Zpos (XI (XO (XI (XO (XI (XI
    (XO (XO (XI (XI (XO (XI XH))))))))))))) :: []))) :: (((Zpos (XI (XO (XO
    (XO (XO (XO (XI (XO (XI (XI (XO (XI XH))))))))))))), ((Zpos (XI (XI (XI
    (XI (XI (XI (XO (XO (XI (XI (XO (XI XH))))))))))))) :: ((Zpos (XI (XO (XI
    (XO (XI (XI (XO (XO (XI (XI (XO (XI XH))))))))))))) :: []))) :: (((Zpos
    (XI (XI (XO (XO (XO (XO (XI (XO (XI (XI (XO (XI XH))))))))))))), ((Zpos
    (XO (XI (XO (XO (XO (XO (XI (XO (XI (XI (XO (XI XH))))))))))))) :: ((Zpos
    (XI (XO (XI (XO (XI (XI (XO (XO (XI (XI (XO (XI
    XH))))))))))))) :: []))) :: (((Zpos (XO (XO (XO (XO (XO (XO (XO (XO (XO
    (XI (XI (XI XH))))))))))))), ((Zpos (XI (XO (XO (XO (XO (XO
    XH))))))) :: ((Zpos (XI (XO (XI (XO (XO (XI (XO (XO (XI
    XH)))))))))) :: []))) :: (((Zpos (XI (XO (XO (XO (XO (XO (XO (XO (XO (XI
    (XI (XI XH))))))))))))), ((Zpos (XI (XO (XO (XO (XO (XI
    XH))))))) :: ((Zpos (XI (XO (XI (XO (XO (XI (XO (XO (XI
    XH)))))))))) :: []))) :: (((Zpos (XO (XI (XO (XO (XO (XO (XO (XO (XO (XI
    (XI (XI XH))))))))))))), ((Zpos (XO (XI (XO (XO (XO (XO
    XH))))))) :: ((Zpos (XI (XI (XI (XO (XO (XO (XO (XO (XI
    XH)))))))))) :: []))) :: (((Zpos (XI (XI (XO (XO (XO (XO (XO (XO (XO (XI
    (XI (XI XH))))))))))))), ((Zpos (XO (XI (XO (XO (XO (XI
    XH))))))) :: ((Zpos (XI (XI (XI (XO (XO (XO (XO (XO (XI
    XH)))))))))) :: []))) :: (((Zpos (XO (XO (XI (XO (XO (XO (XO (XO (XO (XI
    (XI (XI XH))))))))))))), ((Zpos (XO (XI (XO (XO (XO (XO
    XH))))))) :: ((Zpos (XI (XI (XO (XO (XO (XI (XO (XO (XI
    XH)))))))))) :: []))) :: (((Zpos (XI (XO (XI (XO (XO (XO (XO (XO (XO (XI
    (XI (XI XH))))))))))))), ((Zpos (XO (XI (XO (XO (XO (XI
    XH))))))) :: ((Zpos (XI (XI (XO (XO (XO (XI (XO (XO (XI
    XH)))))))))) :: []))) :: (((Zpos (XO (XI (XI (XO (XO (XO (XO (XO (XO (XI
    (XI (XI XH))))))))))))), ((Zpos (XO (XI (XO (XO (XO (XO
    XH))))))) :: ((Zpos (XI (XO (XO (XO (XI (XI (XO (XO (XI
    XH)))))))))) :: []))) :: (((Zpos (XI (XI (XI (XO (XO (XO (XO (XO (XO (XI
    (XI (XI XH))))))))))))), ((Zpos (XO (XI (XO (XO (XO (XI
    XH))))))) :: ((Zpos (XI (XO (XO (XO (XI (XI (XO (XO (XI
    XH)))))))))) :: []))) :: (((Zpos (XO (XO (XO (XI (XO (XO (XO (XO (XO (XI
    (XI (XI XH))))))))))))), ((Zpos (XI (XI (XO (XO (XO (XO
    XH))))))) :: ((Zpos (XI (XI (XI (XO (XO (XI (XO (XO (XI
    XH)))))))))) :: ((Zpos (XI (XO (XO (XO (XO (XO (XO (XO (XI
    XH)))))))))) :: [])))) :: (((Zpos (XI (XO (XO (XI (XO (XO (XO (XO (XO (XI
    (XI (XI XH))))))))))))), ((Zpos (XI (XI (XO (XO (XO (XI
    XH))))))) :: ((Zpos (XI (XI (XI (XO (XO (XI (XO (XO (XI
    XH)))))))))) :: ((Zpos (XI (XO (XO (XO (XO (XO (XO (XO (XI
    XH)))))))))) :: [])))) :: (((Zpos (XO (XI (XO (XI (XO (XO (XO (XO (XO (XI
    (XI (XI XH))))))))))))), ((Zpos (XO (XO (XI (XO (XO (XO
    XH))))))) :: ((Zpos (XI (XI (XI (XO (XO (XO (XO (XO (XI
    XH)))))))))) :: []))) :: (((Zpos (XI (XI (XO (XI (XO (XO (XO (XO (XO (XI
    (XI (XI XH))))))))))))), ((Zpos (XO (XO (XI (XO (XO (XI
    XH))))))) :: ((Zpos (XI (XI (XI (XO (XO (XO (XO (XO (XI
    XH)))))))))) :: []))) :: (((Zpos (XO (XO (XI (XI (XO (XO (XO (XO (XO (XI
    (XI (XI XH))))))))))))), ((Zpos (XO (XO (XI (XO (XO (XO
    XH))))))) :: ((Zpos (XI (XI (XO (XO (XO (XI (XO (XO (XI
    XH)))))))))) :: []))) :: (((Zpos (XI (XO (XI (XI (XO (XO (XO (XO (XO (XI
    (XI (XI XH))))))))))))), ((Zpos (XO (XO (XI (XO (XO (XI
    XH))))))) :: ((Zpos (XI (XI (XO (XO (XO (XI (XO (XO (XI
    XH)))))))))) :: []))) :: (((Zpos (XO (XI (XI (XI (XO (XO (XO (XO (XO (XI
    (XI (XI XH))))))))))))), ((Zpos (XO (XO (XI (XO (XO (XO
    XH))))))) :: ((Zpos (XI (XO (XO (XO (XI (XI (XO (XO (XI
    XH)))))))))) :: []))) :: (((Zpos (XI (XI (XI (XI (XO (XO (XO (XO (XO (XI
    (XI (XI XH))))))))))))), ((Zpos (XO (XO (XI (XO (XO (XI
    XH))))))) :: ((Zpos (XI (XO (XO (XO (XI (XI (XO (XO (XI
    XH)))))))))) :: []))) :: (((Zpos (XO (XO (XO (XO (XI (XO (XO (XO (XO (XI
    (XI (XI XH))))))))))))), ((Zpos (XO (XO (XI (XO (XO (XO
    XH))))))) :: ((Zpos (XI (XI (XI (XO (XO (XI (XO (XO (XI
    XH)))))))))) :: []))) :: (((Zpos (XI (XO (XO (XO (XI (XO (XO (XO (XO (XI
    (XI (XI XH))))))))))))), ((Zpos (XO (XO (XI (XO (XO (XI
    XH))))))) :: ((Zpos (XI (XI (XI (XO (XO (XI (XO (XO (XI
    XH)))))))))) :: []))) :: (((Zpos (XO (XI (XO (XO (XI (XO (XO (XO (XO (XI
    (XI (XI XH))))))))))))), ((Zpos (XO (XO (XI (XO (XO (XO
    XH))))))) :: ((Zpos (XI (XO (XI (XI (XO (XI (XO (XO (XI
    XH)))))))))) :: []))) :: (((Zpos (XI (XI (XO (XO (XI (XO (XO (XO (XO (XI
    (XI (XI XH))))))))))))), ((Zpos (XO (XO (XI (XO (XO (XI
    XH))))))) :: ((Zpos (XI (XO (XI (XI (XO (XI (XO (XO (XI
    XH)))))))))) :: []))) :: (((Zpos (XO (XO (XI (XO (XI (XO (XO (XO (XO (XI
    (XI (XI XH))))))))))))), ((Zpos (XI (XO (XI (XO (XO (XO
    XH))))))) :: ((Zpos (XO (XO (XI (XO (XO (XO (XO (XO (XI
    XH)))))))))) :: ((Zpos (XO (XO (XO (XO (XO (XO (XO (XO (XI
    XH)))))))))) :: [])))) :: (((Zpos (XI (XO (XI (XO (XI (XO (XO (XO (XO (XI
    (XI (XI XH))))))))))))), ((Zpos (XI (XO (XI (XO (XO (XI
    XH))))))) :: ((Zpos (XO (XO (XI (XO (XO (XO (XO (XO (XI
    XH)))))))))) :: ((Zpos (XO (XO (XO (XO (XO (XO (XO (XO (XI
    XH)))))))))) :: [])))) :: (((Zpos (XO (XI (XI (XO (XI (XO (XO (XO (XO (XI
    (XI (XI XH))))))))))))), ((Zpos (XI (XO (XI (XO (XO (XO
    XH))))))) :: ((Zpos (XO (XO (XI (XO (XO (XO (XO (XO (XI
    XH)))))))))) :: ((Zpos (XI (XO (XO (XO (XO (XO (XO (XO (XI
    XH)))))))))) :: [])))) :: (((Zpos (XI (XI (XI (XO (XI (XO (XO (XO (XO (XI
    (XI (XI XH))))))))))))), ((Zpos (XI (XO (XI (XO (XO (XI
    XH))))))) :: ((Zpos (XO (XO (XI (XO (XO (XO (XO (XO (XI
    XH)))))))))) :: ((Zpos (XI (XO (XO (XO (XO (XO (XO (XO (XI
    XH)))))))))) :: [])))) :: (((Zpos (XO (XO (XO (XI (XI (XO (XO (XO (XO (XI
    (XI (XI XH))))))))))))), ((Zpos (XI (XO (XI (XO (XO (XO
    XH))))))) :: ((Zpos (XI (XO (XI (XI (XO (XI (XO (XO (XI
    XH)))))))))) :: []))) :: (((Zpos (XI (XO (XO (XI (XI (XO (XO (XO (XO (XI
    (XI (XI XH))))))))))))), ((Zpos (XI (XO (XI (XO (XO (XI
    XH))))))) :: ((Zpos (XI (XO (XI (XI (XO (XI (XO (XO (XI
    XH)))))))))) :: []))) :: (((Zpos (XO (XI (XO (XI (XI (XO (XO (XO (XO (XI
    (XI (XI XH))))))))))))), ((Zpos (XI (XO (XI (XO (XO (XO
    XH))))))) :: ((Zpos (XO (XO (XO (XO (XI (XI (XO (XO (XI
    XH)))))))))) :: []))) :: (((Zpos (XI (XI (XO (XI (XI (XO (XO (XO (XO (XI
    (XI (XI XH))))))))))))), ((Zpos (XI (XO (XI (XO (XO (XI
    XH))))))) :: ((Zpos (XO (XO (XO (XO (XI (XI (XO (XO (XI
    XH)))))))))) :: []))) :: (((Zpos (XO (XO (XI (XI (XI (XO (XO (XO (XO (XI
    (XI (XI XH))))))))))))), ((Zpos (XI (XO (XI (XO (XO (XO
    XH))))))) :: ((Zpos (XI (XI (XI (XO (XO (XI (XO (XO (XI
    XH)))))))))) :: ((Zpos (XO (XI (XI (XO (XO (XO (XO (XO (XI
    XH)))))))))) :: [])))) :: (((Zpos (XI (XO (XI (XI (XI (XO (XO (XO (XO (XI
    (XI (XI XH))))))))))))), ((Zpos (XI (XO (XI (XO (XO (XI
    XH))))))) :: ((Zpos (XI (XI (XI (XO (XO (XI (XO (XO (XI
    XH)))))))))) :: ((Zpos (XO (XI (XI (XO (XO (XO (XO (XO (XI
    XH)))))))))) :: [])))) :: (((Zpos (XO (XI (XI (XI (XI (XO (XO (XO (XO (XI
    (XI (XI XH))))))))))))), ((Zpos (XO (XI (XI (XO (XO (XO
    XH))))))) :: ((Zpos (XI (XI (XI (XO (XO (XO (XO (XO (XI
    XH)))))))))) :: []))) :: (((Zpos (XI (XI (XI (XI (XI (XO (XO (XO (XO (XI
    (XI (XI XH))))))))))))), ((Zpos (XO (XI (XI (XO (XO (XI
    XH))))))) :: ((Zpos (XI (XI (XI (XO (XO (XO (XO (XO (XI
    XH)))))))))) :: []))) :: (((Zpos (XO (XO (XO (XO (XO (XI (XO (XO (XO (XI
    (XI (XI XH))))))))))))), ((Zpos (XI (XI (XI (XO (XO (XO
    XH))))))) :: ((Zpos (XO (XO (XI (XO (XO (XO (XO (XO (XI
    XH)))))))))) :: []))) :: (((Zpos (XI (XO (XO (XO (XO (XI (XO (XO (XO (XI
    (XI (XI XH))))))))))))), ((Zpos (XI (XI (XI (XO (XO (XI
    XH))))))) :: ((Zpos (XO (XO (XI (XO (XO (XO (XO (XO (XI
    XH)))))))))) :: []))) :: (((Zpos (XO (XI (XO (XO (XO (XI (XO (XO (XO (XI
    (XI (XI XH))))))))))))), ((Zpos (XO (XO (XO (XI (XO (XO
    XH))))))) :: ((Zpos (XI (XI (XI (XO (XO (XO (XO (XO (XI
    XH)))))))))) :: []))) :: (((Zpos (XI (XI (XO (XO (XO (XI (XO (XO (XO (XI
    (XI (XI XH))))))))))))), ((Zpos (XO (XO (XO (XI (XO (XI
    XH))))))) :: ((Zpos (XI (XI (XI (XO (XO (XO (XO (XO (XI
    XH)))))))))) :: []))) :: (((Zpos (XO (XO (XI (XO (XO (XI (XO (XO (XO (XI
    (XI (XI XH))))))))))))), ((Zpos (XO (XO (XO (XI (XO (XO
    XH))))))) :: ((Zpos (XI (XI (XO (XO (XO (XI (XO (XO (XI
    XH)))))))))) :: []))) :: (((Zpos (XI (XO (XI (XO (XO (XI (XO (XO (XO (XI
    (XI (XI XH))))))))))))), ((Zpos (XO (XO (XO (XI (XO (XI
    XH))))))) :: ((Zpos (XI (XI (XO (XO (XO (XI (XO (XO (XI
    XH)))))))))) :: []))) :: (((Zpos (XO (XI (XI (XO (XO (XI (XO (XO (XO (XI
    (XI (XI XH))))))))))))), ((Zpos (XO (XO (XO (XI (XO (XO
    XH))))))) :: ((Zpos (XO (XO (XO (XI (XO (XO (XO (XO (XI
    XH)))))))))) :: []))) :: (((Zpos (XI (XI (XI (XO (XO (XI (XO (XO (XO (XI
    (XI (XI XH))))))))))))), ((Zpos (XO (XO (XO (XI (XO (XI
    XH))))))) :: ((Zpos (XO (XO (XO (XI (XO (XO (XO (XO (XI
    XH)))))))))) :: []))) :: (((Zpos (XO (XO (XO (XI (XO (XI (XO (XO (XO (XI
    (XI (XI XH))))))))))))), ((Zpos (XO (XO (XO (XI (XO (XO
    XH))))))) :: ((Zpos (XI (XI (XI (XO (XO (XI (XO (XO (XI
    XH)))))))))) :: []))) :: (((Zpos (XI (XO (XO (XI (XO (XI (XO (XO (XO (XI
    (XI (XI XH))))))))))))), ((Zpos (XO (XO (XO (XI (XO (XI
    XH))))))) :: ((Zpos (XI (XI (XI (XO (XO (XI (XO (XO (XI
    XH)))))))))) :: []))) :: (((Zpos (XO (XI (XO (XI (XO (XI (XO (XO (XO (XI
    (XI (XI XH))))))))))))), ((Zpos (XO (XO (XO (XI (XO (XO
    XH))))))) :: ((Zpos (XO (XI (XI (XI (XO (XI (XO (XO (XI
    XH)))))))))) :: []))) :: (((Zpos (XI (XI (XO (XI (XO (XI (XO (XO (XO (XI
    (XI (XI XH))))))))))))), ((Zpos (XO (XO (XO (XI (XO (XI
    XH))))))) :: ((Zpos (XO (XI (XI (XI (XO (XI (XO (XO (XI
    XH)))))))))) :: []))) :: (((Zpos (XO (XO (XI (XI (XO (XI (XO (XO (XO (XI
    (XI (XI XH))))))))))))), ((Zpos (XI (XO (XO (XI (XO (XO
    XH))))))) :: ((Zpos (XO (XO (XO (XO (XI (XI (XO (XO (XI
    XH)))))))))) :: []))) :: (((Zpos (XI (XO (XI (XI (XO (XI (XO (XO (XO (XI
    (XI (XI XH))))))))))))), ((Zpos (XI (XO (XO (XI (XO (XI
    XH))))))) :: ((Zpos (XO (XO (XO (XO (XI (XI (XO (XO (XI
    XH)))))))))) :: []))) :: (((Zpos (XO (XI (XI (XI (XO (XI (XO (XO (XO (XI
    (XI (XI XH))))))))))))), ((Zpos (XI (XO (XO (XI (XO (XO
    XH))))))) :: ((Zpos (XO (XO (XO (XI (XO (XO (XO (XO (XI
    XH)))))))))) :: ((Zpos (XI (XO (XO (XO (XO (XO (XO (XO (XI
    XH)))))))))) :: [])))) :: (((Zpos (XI (XI (XI (XI (XO (XI (XO (XO (XO (XI
    (XI (XI XH))))))))))))), ((Zpos (XI (XO (XO (XI (XO (XI
    XH))))))) :: ((Zpos (XO (XO (XO (XI (XO (XO (XO (XO (XI
    XH)))))))))) :: ((Zpos (XI (XO (XO (XO (XO (XO (XO (XO (XI
    XH)))))))))) :: [])))) :: (((Zpos (XO (XO (XO (XO (XI (XI (XO (XO (XO (XI
    (XI (XI XH))))))))))))), ((Zpos (XI (XI (XO (XI (XO (XO
    XH))))))) :: ((Zpos (XI (XO (XO (XO (XO (XO (XO (XO (XI
    XH)))))))))) :: []))) :: (((Zpos (XI (XO (XO (XO (XI (XI (XO (XO (XO (XI
    (XI (XI XH))))))))))))), ((Zpos (XI (XI (XO (XI (XO (XI
    XH))))))) :: ((Zpos (XI (XO (XO (XO (XO (XO (XO (XO (XI
    XH)))))))))) :: []))) :: (((Zpos (XO (XI (XO (XO (XI (XI (XO (XO (XO (XI
    (XI (XI XH))))))))))))), ((Zpos (XI (XI (XO (XI (XO (XO
    XH))))))) :: ((Zpos (XI (XI (XO (XO (XO (XI (XO (XO (XI
    XH)))))))))) :: []))) :: (((Zpos (XI (XI (XO (XO (XI (XI (XO (XO (XO (XI
    (XI (XI XH))))))))))))), ((Zpos (XI (XI (XO (XI (XO (XI
    XH))))))) :: ((Zpos (XI (XI (XO (XO (XO (XI (XO (XO (XI
    XH)))))))))) :: []))) :: (((Zpos (XO (XO (XI (XO (XI (XI (XO (XO (XO (XI
    (XI (XI XH))))))))))))), ((Zpos (XI (XI (XO (XI (XO (XO
    XH))))))) :: ((Zpos (XI (XO (XO (XO (XI (XI (XO (XO (XI
    XH)))))))))) :: []))) :: (((Zpos (XI (XO (XI (XO (XI (XI (XO (XO (XO (XI
    (XI (XI XH))))))))))))), ((Zpos (XI (XI (XO (XI (XO (XI
    XH))))))) :: ((Zpos (XI (XO (XO (XO (XI (XI (XO (XO (XI
    XH)))))))))) :: []))) :: (((Zpos (XO (XI (XI (XO (XI (XI (XO (XO (XO (XI
    (XI (XI XH))))))))))))), ((Zpos (XO (XO (XI (XI (XO (XO
    XH))))))) :: ((Zpos (XI (XI (XO (XO (XO (XI (XO (XO (XI
    XH)))))))))) :: []))) :: (((Zpos (XI (XI (XI (XO (XI (XI (XO (XO (XO (XI
    (XI (XI XH))))))))))))), ((Zpos (XO (XO (XI (XI (XO (XI
    XH))))))) :: ((Zpos (XI (XI (XO (XO (XO (XI (XO (XO (XI
    XH)))))))))) :: []))) :: (((Zpos (XO (XO (XO (XI (XI (XI (XO (XO (XO (XI
    (XI (XI XH))))))))))))), ((Zpos (XO (XO (XI (XI (XO (XO
    XH))))))) :: ((Zpos (XI (XI (XO (XO (XO (XI (XO (XO (XI
    XH)))))))))) :: ((Zpos (XO (XO (XI (XO (XO (XO (XO (XO (XI
    XH)))))))))) :: [])))) :: (((Zpos (XI (XO (XO (XI (XI (XI (XO (XO (XO (XI
    (XI (XI XH))))))))))))), ((Zpos (XO (XO (XI (XI (XO (XI
    XH))))))) :: ((Zpos (XI (XI (XO (XO (XO (XI (XO (XO (XI
    XH)))))))))) :: ((Zpos (XO (XO (XI (XO (XO (XO (XO (XO (XI
    XH)))))))))) :: [])))) :: (((Zpos (XO (XI (XO (XI (XI (XI (XO (XO (XO (XI
    (XI (XI XH))))))))))))), ((Zpos (XO (XO (XI (XI (XO (XO
    XH))))))) :: ((Zpos (XI (XO (XO (XO (XI (XI (XO (XO (XI
    XH)))))))))) :: []))) :: (((Zpos (XI (XI (XO (XI (XI (XI (XO (XO (XO (XI
    (XI (XI XH))))))))))))), ((Zpos (XO (XO (XI (XI (XO (XI
    XH))))))) :: ((Zpos (XI (XO (XO (XO (XI (XI (XO (XO (XI
    XH)))))))))) :: []))) :: (((Zpos (XO (XO (XI (XI (XI (XI (XO (XO (XO (XI
    (XI (XI XH))))))))))))), ((Zpos (XO (XO (XI (XI (XO (XO
    XH))))))) :: ((Zpos (XI (XO (XI (XI (XO (XI (XO (XO (XI
    XH)))))))))) :: []))) :: (((Zpos (XI (XO (XI (XI (XI (XI (XO (XO (XO (XI
    (XI (XI XH))))))))))))), ((Zpos (XO (XO (XI (XI (XO (XI
    XH))))))) :: ((Zpos (XI (XO (XI (XI (XO (XI (XO (XO (XI
    XH)))))))))) :: []))) :: (((Zpos (XO (XI (XI (XI (XI (XI (XO (XO (XO (XI
    (XI (XI XH))))))))))))), ((Zpos (XI (XO (XI (XI (XO (XO
    XH))))))) :: ((Zpos (XI (XO (XO (XO (XO (XO (XO (XO (XI
    XH)))))))))) :: []))) :: (((Zpos (XI (XI (XI (XI (XI (XI (XO (XO (XO (XI
    (XI (XI XH))))))))))))), ((Zpos (XI (XO (XI (XI (XO (XI
    XH))))))) :: ((Zpos (XI (XO (XO (XO (XO (XO (XO (XO (XI
    XH)))))))))) :: []))) :: (((Zpos (XO (XO (XO (XO (XO (XO (XI (XO (XO (XI
    (XI (XI XH))))))))))))), ((Zpos (XI (XO (XI (XI (XO (XO
    XH))))))) :: ((Zpos (XI (XI (XI (XO (XO (XO (XO (XO (XI
    XH)))))))))) :: []))) :: (((Zpos (XI (XO (XO (XO (XO (XO (XI (XO (XO (XI
    (XI (XI XH))))))))))))), ((Zpos (XI (XO (XI (XI (XO (XI
    XH))))))) :: ((Zpos (XI (XI (XI (XO (XO (XO (XO (XO (XI
    XH)))))))))) :: []))) :: (((Zpos (XO (XI (XO (XO (XO (XO (XI (XO (XO (XI
    (XI (XI XH))))))))))))), ((Zpos (XI (XO (XI (XI (XO (XO
    XH))))))) :: ((Zpos (XI (XI (XO (XO (XO (XI (XO (XO (XI
    XH)))))))))) :: []))) :: (((Zpos (XI (XI (XO (XO (XO (XO (XI (XO (XO (XI
    (XI (XI XH))))))))))))), ((Zpos (XI (XO (XI (XI (XO (XI
    XH))))))) :: ((Zpos (XI (XI (XO (XO (XO (XI (XO (XO (XI
    XH)))))))))) :: []))) :: (((Zpos (XO (XO (XI (XO (XO (XO (XI (XO (XO (XI
    (XI (XI XH))))))))))))), ((Zpos (XO (XI (XI (XI (XO (XO
    XH))))))) :: ((Zpos (XI (XI (XI (XO (XO (XO (XO (XO (XI
    XH)))))))))) :: []))) :: (((Zpos (XI (XO (XI (XO (XO (XO (XI (XO (XO (XI
    (XI (XI XH))))))))))))), ((Zpos (XO (XI (XI (XI (XO (XI
    XH))))))) :: ((Zpos (XI (XI (XI (XO (XO (XO (XO (XO (XI
    XH)))))))))) :: []))) :: (((Zpos (XO (XI (XI (XO (XO (XO (XI (XO (XO (XI
    (XI (XI XH))))))))))))), ((Zpos (XO (XI (XI (XI (XO (XO
    XH))))))) :: ((Zpos (XI (XI (XO (XO (XO (XI (XO (XO (XI
    XH)))))))))) :: []))) :: (((Zpos (XI (XI (XI (XO (XO (XO (XI (XO (XO (XI
    (XI (XI XH))))))))))))), ((Zpos (XO (XI (XI (XI (XO (XI
    XH))))))) :: ((Zpos (XI (XI (XO (XO (XO (XI (XO (XO (XI
    XH)))))))))) :: []))) :: (((Zpos (XO (XO (XO (XI (XO (XO (XI (XO (XO (XI
    (XI (XI XH))))))))))))), ((Zpos (XO (XI (XI (XI (XO (XO
    XH))))))) :: ((Zpos (XI (XO (XO (XO (XI (XI (XO (XO (XI
    XH)))))))))) :: []))) :: (((Zpos (XI (XO (XO (XI (XO (XO (XI (XO (XO (XI
    (XI (XI XH))))))))))))), ((Zpos (XO (XI (XI (XI (XO (XI
    XH))))))) :: ((Zpos (XI (XO (XO (XO (XI (XI (XO (XO (XI
    XH)))))))))) :: []))) :: (((Zpos (XO (XI (XO (XI (XO (XO (XI (XO (XO (XI
    (XI (XI XH))))))))))))), ((Zpos (XO (XI (XI (XI (XO (XO
    XH))))))) :: ((Zpos (XI (XO (XI (XI (XO (XI (XO (XO (XI
    XH)))))))))) :: []))) :: (((Zpos (XI (XI (XO (XI (XO (XO (XI (XO (XO (XI
    (XI (XI XH))))))))))))), ((Zpos (XO (XI (XI (XI (XO (XI
    XH))))))) :: ((Zpos (XI (XO (XI (XI (XO (XI (XO (XO (XI
    XH)))))))))) :: []))) :: (((Zpos (XO (XO (XI (XI (XO (XO (XI (XO (XO (XI
    (XI (XI XH))))))))))))), ((Zpos (XI (XI (XI (XI (XO (XO
    XH))))))) :: ((Zpos (XI (XI (XO (XO (XO (XO (XO (XO (XI
    XH)))))))))) :: ((Zpos (XI (XO (XO (XO (XO (XO (XO (XO (XI
    XH)))))))))) :: [])))) :: (((Zpos (XI (XO (XI (XI (XO (XO (XI (XO (XO (XI
    (XI (XI XH))))))))))))), ((Zpos (XI (XI (XI (XI (XO (XI
    XH))))))) :: ((Zpos (XI (XI (XO (XO (XO (XO (XO (XO (XI
    XH)))))))))) :: ((Zpos (XI (XO (XO (XO (XO (XO (XO (XO (XI
    XH)))))))))) :: [])))) :: (((Zpos (XO (XI (XI (XI (XO (XO (XI (XO (XO (XI
    (XI (XI XH))))))))))))), ((Zpos (XI (XI (XI (XI (XO (XO
    XH))))))) :: ((Zpos (XI (XI (XO (XO (XO (XO (XO (XO (XI
    XH)))))))))) :: ((Zpos (XO (XO (XO (XI (XO (XO (XO (XO (XI
    XH)))))))))) :: [])))) :: (((Zpos (XI (XI (XI (XI (XO (XO (XI (XO (XO (XI
    (XI (XI XH))))))))))))), ((Zpos (XI (XI (XI (XI (XO (XI
    XH))))))) :: ((Zpos (XI (XI (XO (XO (XO (XO (XO (XO (XI
    XH)))))))))) :: ((Zpos (XO (XO (XO (XI (XO (XO (XO (XO (XI
    XH)))))))))) :: [])))) :: (((Zpos (XO (XO (XO (XO (XI (XO (XI (XO (XO (XI
    (XI (XI XH))))))))))))), ((Zpos (XI (XI (XI (XI (XO (XO
    XH))))))) :: ((Zpos (XO (XO (XI (XO (XO (XO (XO (XO (XI
    XH)))))))))) :: ((Zpos (XO (XO (XO (XO (XO (XO (XO (XO (XI
    XH)))))))))) :: [])))) :: (((Zpos (XI (XO (XO (XO (XI (XO (XI (XO (XO (XI
    (XI (XI XH))))))))))))), ((Zpos (XI (XI (XI (XI (XO (XI
    XH))))))) :: ((Zpos (XO (XO (XI (XO (XO (XO (XO (XO (XI
    XH)))))))))) :: ((Zpos (XO (XO (XO (XO (XO (XO (XO (XO (XI
    XH)))))))))) :: [])))) :: (((Zpos (XO (XI (XO (XO (XI (XO (XI (XO (XO (XI
    (XI (XI XH))))))))))))), ((Zpos (XI (XI (XI (XI (XO (XO
    XH))))))) :: ((Zpos (XO (XO (XI (XO (XO (XO (XO (XO (XI
    XH)))))))))) :: ((Zpos (XI (XO (XO (XO (XO (XO (XO (XO (XI
    XH)))))))))) :: [])))) :: (((Zpos (XI (XI (XO (XO (XI (XO (XI (XO (XO (XI
    (XI (XI XH))))))))))))), ((Zpos (XI (XI (XI (XI (XO (XI
    XH))))))) :: ((Zpos (XO (XO (XI (XO (XO (XO (XO (XO (XI
    XH)))))))))) :: ((Zpos (XI (XO (XO (XO (XO (XO (XO (XO (XI
    XH)))))))))) :: [])))) :: (((Zpos (XO (XO (XI (XO (XI (XO (XI (XO (XO (XI
    (XI (XI XH))))))))))))), ((Zpos (XO (XO (XO (XO (XI (XO
    XH))))))) :: ((Zpos (XI (XO (XO (XO (XO (XO (XO (XO (XI
    XH)))))))))) :: []))) :: (((Zpos (XI (XO (XI (XO (XI (XO (XI (XO (XO (XI
    (XI (XI XH))))))))))))), ((Zpos (XO (XO (XO (XO (XI (XI
    XH))))))) :: ((Zpos (XI (XO (XO (XO (XO (XO (XO (XO (XI
    XH)))))))))) :: []))) :: (((Zpos (XO (XI (XI (XO (XI (XO (XI (XO (XO (XI
    (XI (XI XH))))))))))))), ((Zpos (XO (XO (XO (XO (XI (XO
    XH))))))) :: ((Zpos (XI (XI (XI (XO (XO (XO (XO (XO (XI
    XH)))))))))) :: []))) :: (((Zpos (XI (XI (XI (XO (XI (XO (XI (XO (XO (XI
    (XI (XI XH))))))))))))), ((Zpos (XO (XO (XO (XO (XI (XI
    XH))))))) :: ((Zpos (XI (XI (XI (XO (XO (XO (XO (XO (XI
    XH)))))))))) :: []))) :: (((Zpos (XO (XO (XO (XI (XI (XO (XI (XO (XO (XI
    (XI (XI XH))))))))))))), ((Zpos (XO (XI (XO (XO (XI (XO
    XH))))))) :: ((Zpos (XI (XI (XI (XO (XO (XO (XO (XO (XI
    XH)))))))))) :: []))) :: (((Zpos (XI (XO (XO (XI (XI (XO (XI (XO (XO (XI
    (XI (XI XH))))))))))))), ((Zpos (XO (XI (XO (XO (XI (XI
    XH))))))) :: ((Zpos (XI (XI (XI (XO (XO (XO (XO (XO (XI
    XH)))))))))) :: []))) :: (((Zpos (XO (XI (XO (XI (XI (XO (XI (XO (XO (XI
    (XI (XI XH))))))))))))), ((Zpos (XO (XI (XO (XO (XI (XO
    XH))))))) :: ((Zpos (XI (XI (XO (XO (XO (XI (XO (XO (XI
    XH)))))))))) :: []))) :: (((Zpos (XI (XI (XO (XI (XI (XO (XI (XO (XO (XI
    (XI (XI XH))))))))))))), ((Zpos (XO (XI (XO (XO (XI (XI
    XH))))))) :: ((Zpos (XI (XI (XO (XO (XO (XI (XO (XO (XI
    XH)))))))))) :: []))) :: (((Zpos (XO (XO (XI (XI (XI (XO (XI (XO (XO (XI
    (XI (XI XH))))))))))))), ((Zpos (XO (XI (XO (XO (XI (XO
    XH))))))) :: ((Zpos (XI (XI (XO (XO (XO (XI (XO (XO (XI
    XH)))))))))) :: ((Zpos (XO (XO (XI (XO (XO (XO (XO (XO (XI
    XH)))))))))) :: [])))) :: (((Zpos (XI (XO (XI (XI (XI (XO (XI (XO (XO (XI
    (XI (XI XH))))))))))))), ((Zpos (XO (XI (XO (XO (XI (XI
    XH))))))) :: ((Zpos (XI (XI (XO (XO (XO (XI (XO (XO (XI
    XH)))))))))) :: ((Zpos (XO (XO (XI (XO (XO (XO (XO (XO (XI
    XH)))))))))) :: [])))) :: (((Zpos (XO (XI (XI (XI (XI (XO (XI (XO (XO (XI
    (XI (XI XH))))))))))))), ((Zpos (XO (XI (XO (XO (XI (XO
    XH))))))) :: ((Zpos (XI (XO (XO (XO (XI (XI (XO (XO (XI
    XH)))))))))) :: []))) :: (((Zpos (XI (XI (XI (XI (XI (XO (XI (XO (XO (XI
    (XI (XI XH))))))))))))), ((Zpos (XO (XI (XO (XO (XI (XI
    XH))))))) :: ((Zpos (XI (XO (XO (XO (XI (XI (XO (XO (XI
    XH)))))))))) :: []))) :: (((Zpos (XO (XO (XO (XO (XO (XI (XI (XO (XO (XI
    (XI (XI XH))))))))))))), ((Zpos (XI (XI (XO (XO (XI (XO
    XH))))))) :: ((Zpos (XI (XI (XI (XO (XO (XO (XO (XO (XI
    XH)))))))))) :: []))) :: (((Zpos (XI (XO (XO (XO (XO (XI (XI (XO (XO (XI
    (XI (XI XH))))))))))))), ((Zpos (XI (XI (XO (XO (XI (XI
    XH))))))) :: ((Zpos (XI (XI (XI (XO (XO (XO (XO (XO (XI
    XH)))))))))) :: []))) :: (((Zpos (XO (XI (XO (XO (XO (XI (XI (XO (XO (XI
    (XI (XI XH))))))))))))), ((Zpos (XI (XI (XO (XO (XI (XO
    XH))))))) :: ((Zpos (XI (XI (XO (XO (XO (XI (XO (XO (XI
    XH)))))))))) :: []))) :: (((Zpos (XI (XI (XO (XO (XO (XI (XI (XO (XO (XI
    (XI (XI XH))))))))))))), ((Zpos (XI (XI (XO (XO (XI (XI
    XH))))))) :: ((Zpos (XI (XI (XO (XO (XO (XI (XO (XO (XI
    XH)))))))))) :: []))) :: (((Zpos (XO (XO (XI (XO (XO (XI (XI (XO (XO (XI
    (XI (XI XH))))))))))))), ((Zpos (XI (XI (XO (XO (XI (XO
    XH))))))) :: ((Zpos (XI (XO (XO (XO (XO (XO (XO (XO (XI
    XH)))))))))) :: ((Zpos (XI (XI (XI (XO (XO (XO (XO (XO (XI
    XH)))))))))) :: [])))) :: (((Zpos (XI (XO (XI (XO (XO (XI (XI (XO (XO (XI
    (XI (XI XH))))))))))))), ((Zpos (XI (XI (XO (XO (XI (XI
    XH))))))) :: ((Zpos (XI (XO (XO (XO (XO (XO (XO (XO (XI
    XH)))))))))) :: ((Zpos (XI (XI (XI (XO (XO (XO (XO (XO (XI
    XH)))))))))) :: [])))) :: (((Zpos (XO (XI (XI (XO (XO (XI (XI (XO (XO (XI
    (XI (XI XH))))))))))))), ((Zpos (XI (XI (XO (XO (XI (XO
    XH))))))) :: ((Zpos (XO (XO (XI (XI (XO (XO (XO (XO (XI
    XH)))))))))) :: ((Zpos (XI (XI (XI (XO (XO (XO (XO (XO (XI
    XH)))))))))) :: [])))) :: (((Zpos (XI (XI (XI (XO (XO (XI (XI (XO (XO (XI
    (XI (XI XH))))))))))))), ((Zpos (XI (XI (XO (XO (XI (XI
    XH))))))) :: ((Zpos (XO (XO (XI (XI (XO (XO (XO (XO (XI
    XH)))))))))) :: ((Zpos (XI (XI (XI (XO (XO (XO (XO (XO (XI
    XH)))))))))) :: [])))) :: (((Zpos (XO (XO (XO (XI (XO (XI (XI (XO (XO (XI
    (XI (XI XH))))))))))))), ((Zpos (XI (XI (XO (XO (XI (XO
    XH))))))) :: ((Zpos (XI (XI (XO (XO (XO (XI (XO (XO (XI
    XH)))))))))) :: ((Zpos (XI (XI (XI (XO (XO (XO (XO (XO (XI
    XH)))))))))) :: [])))) :: (((Zpos (XI (XO (XO (XI (XO (XI (XI (XO (XO (XI
    (XI (XI XH))))))))))))), ((Zpos (XI (XI (XO (XO (XI (XI
    XH))))))) :: ((Zpos (XI (XI (XO (XO (XO (XI (XO (XO (XI
    XH)))))))))) :: ((Zpos (XI (XI (XI (XO (XO (XO (XO (XO (XI
    XH)))))))))) :: [])))) :: (((Zpos (XO (XI (XO (XI (XO (XI (XI (XO (XO (XI
    (XI (XI XH))))))))))))), ((Zpos (XO (XO (XI (XO (XI (XO
    XH))))))) :: ((Zpos (XI (XI (XI (XO (XO (XO (XO (XO (XI
    XH)))))))))) :: []))) :: (((Zpos (XI (XI (XO (XI (XO (XI (XI (XO (XO (XI
    (XI (XI XH))))))))))))), ((Zpos (XO (XO (XI (XO (XI (XI
    XH))))))) :: ((Zpos (XI (XI (XI (XO (XO (XO (XO (XO (XI
    XH)))))))))) :: []))) :: (((Zpos (XO (XO (XI (XI (XO (XI (XI (XO (XO (XI
    (XI (XI XH))))))))))))), ((Zpos (XO (XO (XI (XO (XI (XO
    XH))))))) :: ((Zpos (XI (XI (XO (XO (XO (XI (XO (XO (XI
    XH)))))))))) :: []))) :: (((Zpos (XI (XO (XI (XI (XO (XI (XI (XO (XO (XI
    (XI (XI XH))))))))))))), ((Zpos (XO (XO (XI (XO (XI (XI
    XH))))))) :: ((Zpos (XI (XI (XO (XO (XO (XI (XO (XO (XI
    XH)))))))))) :: []))) :: (((Zpos (XO (XI (XI (XI (XO (XI (XI (XO (XO (XI
    (XI (XI XH))))))))))))), ((Zpos (XO (XO (XI (XO (XI (XO
    XH))))))) :: ((Zpos (XI (XO (XO (XO (XI (XI (XO (XO (XI
    XH)))))))))) :: []))) :: (((Zpos (XI (XI (XI (XI (XO (XI (XI (XO (XO (XI
    (XI (XI XH))))))))))))), ((Zpos (XO (XO (XI (XO (XI (XI
    XH))))))) :: ((Zpos (XI (XO (XO (XO (XI (XI (XO (XO (XI
    XH)))))))))) :: []))) :: (((Zpos (XO (XO (XO (XO (XI (XI (XI (XO (XO (XI
    (XI (XI XH))))))))))))), ((Zpos (XO (XO (XI (XO (XI (XO
    XH))))))) :: ((Zpos (XI (XO (XI (XI (XO (XI (XO (XO (XI
    XH)))))))))) :: []))) :: (((Zpos (XI (XO (XO (XO (XI (XI (XI (XO (XO (XI
    (XI (XI XH))))))))))))), ((Zpos (XO (XO (XI (XO (XI (XI
    XH))))))) :: ((Zpos (XI (XO (XI (XI (XO (XI (XO (XO (XI
    XH)))))))))) :: []))) :: (((Zpos (XO (XI (XO (XO (XI (XI (XI (XO (XO (XI
    (XI (XI XH))))))))))))), ((Zpos (XI (XO (XI (XO (XI (XO
    XH))))))) :: ((Zpos (XO (XO (XI (XO (XO (XI (XO (XO (XI
    XH)))))))))) :: []))) :: (((Zpos (XI (XI (XO (XO (XI (XI (XI (XO (XO (XI
    (XI (XI XH))))))))))))), ((Zpos (XI (XO (XI (XO (XI (XI
    XH))))))) :: ((Zpos (XO (XO (XI (XO (XO (XI (XO (XO (XI
    XH)))))))))) :: []))) :: (((Zpos (XO (XO (XI (XO (XI (XI (XI (XO (XO (XI
    (XI (XI XH))))))))))))), ((Zpos (XI (XO (XI (XO (XI (XO
    XH))))))) :: ((Zpos (XO (XO (XO (XO (XI (XI (XO (XO (XI
    XH)))))))))) :: []))) :: (((Zpos (XI (XO (XI (XO (XI (XI (XI (XO (XO (XI
    (XI (XI XH))))))))))))), ((Zpos (XI (XO (XI (XO (XI (XI
    XH))))))) :: ((Zpos (XO (XO (XO (XO (XI (XI (XO (XO (XI
    XH)))))))))) :: []))) :: (((Zpos (XO (XI (XI (XO (XI (XI (XI (XO (XO (XI
    (XI (XI XH))))))))))))), ((Zpos (XI (XO (XI (XO (XI (XO
    XH))))))) :: ((Zpos (XI (XO (XI (XI (XO (XI (XO (XO (XI
    XH)))))))))) :: []))) :: (((Zpos (XI (XI (XI (XO (XI (XI (XI (XO (XO (XI
    (XI (XI XH))))))))))))), ((Zpos (XI (XO (XI (XO (XI (XI
    XH))))))) :: ((Zpos (XI (XO (XI (XI (XO (XI (XO (XO (XI
    XH)))))))))) :: []))) :: (((Zpos (XO (XO (XO (XI (XI (XI (XI (XO (XO (XI
    (XI (XI XH))))))))))))), ((Zpos (XI (XO (XI (XO (XI (XO
    XH))))))) :: ((Zpos (XI (XI (XO (XO (XO (XO (XO (XO (XI
    XH)))))))))) :: ((Zpos (XI (XO (XO (XO (XO (XO (XO (XO (XI
    XH)))))))))) :: [])))) :: (((Zpos (XI (XO (XO (XI (XI (XI (XI (XO (XO (XI
    (XI (XI XH))))))))))))), ((Zpos (XI (XO (XI (XO (XI (XI
    XH))))))) :: ((Zpos (XI (XI (XO (XO (XO (XO (XO (XO (XI
    XH)))))))))) :: ((Zpos (XI (XO (XO (XO (XO (XO (XO (XO (XI
    XH)))))))))) :: [])))) :: (((Zpos (XO (XI (XO (XI (XI (XI (XI (XO (XO (XI
    (XI (XI XH))))))))))))), ((Zpos (XI (XO (XI (XO (XI (XO
    XH))))))) :: ((Zpos (XO (XO (XI (XO (XO (XO (XO (XO (XI
    XH)))))))))) :: ((Zpos (XO (XO (XO (XI (XO (XO (XO (XO (XI
    XH)))))))))) :: [])))) :: (((Zpos (XI (XI (XO (XI (XI (XI (XI (XO (XO (XI
    (XI (XI XH))))))))))))), ((Zpos (XI (XO (XI (XO (XI (XI
    XH))))))) :: ((Zpos (XO (XO (XI (XO (XO (XO (XO (XO (XI
    XH)))))))))) :: ((Zpos (XO (XO (XO (XI (XO (XO (XO (XO (XI
    XH)))))))))) :: [])))) :: (((Zpos (XO (XO (XI (XI (XI (XI (XI (XO (XO (XI
    (XI (XI XH))))))))))))), ((Zpos (XO (XI (XI (XO (XI (XO
    XH))))))) :: ((Zpos (XI (XI (XO (XO (XO (XO (XO (XO (XI
    XH)))))))))) :: []))) :: (((Zpos (XI (XO (XI (XI (XI (XI (XI (XO (XO (XI
    (XI (XI XH))))))))))))), ((Zpos (XO (XI (XI (XO (XI (XI
    XH))))))) :: ((Zpos (XI (XI (XO (XO (XO (XO (XO (XO (XI
    XH)))))))))) :: []))) :: (((Zpos (XO (XI (XI (XI (XI (XI (XI (XO (XO (XI
    (XI (XI XH))))))))))))), ((Zpos (XO (XI (XI (XO (XI (XO
    XH))))))) :: ((Zpos (XI (XI (XO (XO (XO (XI (XO (XO (XI
    XH)))))))))) :: []))) :: (((Zpos (XI (XI (XI (XI (XI (XI (XI (XO (XO (XI
    (XI (XI XH))))))))))))), ((Zpos (XO (XI (XI (XO (XI (XI
    XH))))))) :: ((Zpos (XI (XI (XO (XO (XO (XI (XO (XO (XI
    XH)))))))))) :: []))) :: (((Zpos (XO (XO (XO (XO (XO (XO (XO (XI (XO (XI
    (XI (XI XH))))))))))))), ((Zpos (XI (XI (XI (XO (XI (XO
    XH))))))) :: ((Zpos (XO (XO (XO (XO (XO (XO (XO (XO (XI
    XH)))))))))) :: []))) :: (((Zpos (XI (XO (XO (XO (XO (XO (XO (XI (XO (XI
    (XI (XI XH))))))))))))), ((Zpos (XI (XI (XI (XO (XI (XI
    XH))))))) :: ((Zpos (XO (XO (XO (XO (XO (XO (XO (XO (XI
    XH)))))))))) :: []))) :: (((Zpos (XO (XI (XO (XO (XO (XO (XO (XI (XO (XI
    (XI (XI XH))))))))))))), ((Zpos (XI (XI (XI (XO (XI (XO
    XH))))))) :: ((Zpos (XI (XO (XO (XO (XO (XO (XO (XO (XI
    XH)))))))))) :: []))) :: (((Zpos (XI (XI (XO (XO (XO (XO (XO (XI (XO (XI
    (XI (XI XH))))))))))))), ((Zpos (XI (XI (XI (XO (XI (XI
    XH))))))) :: ((Zpos (XI (XO (XO (XO (XO (XO (XO (XO (XI
    XH)))))))))) :: []))) :: (((Zpos (XO (XO (XI (XO (XO (XO (XO (XI (XO (XI
    (XI (XI XH))))))))))))), ((Zpos (XI (XI (XI (XO (XI (XO
    XH))))))) :: ((Zpos (XO (XO (XO (XI (XO (XO (XO (XO (XI
    XH)))))))))) :: []))) :: (((Zpos (XI (XO (XI (XO (XO (XO (XO (XI (XO (XI
    (XI (XI XH))))))))))))), ((Zpos (XI (XI (XI (XO (XI (XI
    XH))))))) :: ((Zpos (XO (XO (XO (XI (XO (XO (XO (XO (XI
    XH)))))))))) :: []))) :: (((Zpos (XO (XI (XI (XO (XO (XO (XO (XI (XO (XI
    (XI (XI XH))))))))))))), ((Zpos (XI (XI (XI (XO (XI (XO
    XH))))))) :: ((Zpos (XI (XI (XI (XO (XO (XO (XO (XO (XI
    XH)))))))))) :: []))) :: (((Zpos (XI (XI (XI (XO (XO (XO (XO (XI (XO (XI
    (XI (XI XH))))))))))))), ((Zpos (XI (XI (XI (XO (XI (XI
    XH))))))) :: ((Zpos (XI (XI (XI (XO (XO (XO (XO (XO (XI
    XH)))))))))) :: []))) :: (((Zpos (XO (XO (XO (XI (XO (XO (XO (XI (XO (XI
    (XI (XI XH))))))))))))), ((Zpos (XI (XI (XI (XO (XI (XO
    XH))))))) :: ((Zpos (XI (XI (XO (XO (XO (XI (XO (XO (XI
    XH)))))))))) :: []))) :: (((Zpos (XI (XO (XO (XI (XO (XO (XO (XI (XO (XI
    (XI (XI XH))))))))))))), ((Zpos (XI (XI (XI (XO (XI (XI
    XH))))))) :: ((Zpos (XI (XI (XO (XO (XO (XI (XO (XO (XI
    XH)))))))))) :: []))) :: (((Zpos (XO (XI (XO (XI (XO (XO (XO (XI (XO (XI
    (XI (XI XH))))))))))))), ((Zpos (XO (XO (XO (XI (XI (XO
    XH))))))) :: ((Zpos (XI (XI (XI (XO (XO (XO (XO (XO (XI
    XH)))))))))) :: []))) :: (((Zpos (XI (XI (XO (XI (XO (XO (XO (XI (XO (XI
    (XI (XI XH))))))))))))), ((Zpos (XO (XO (XO (XI (XI (XI
    XH))))))) :: ((Zpos (XI (XI (XI (XO (XO (XO (XO (XO (XI
    XH)))))))))) :: []))) :: (((Zpos (XO (XO (XI (XI (XO (XO (XO (XI (XO (XI
    (XI (XI XH))))))))))))), ((Zpos (XO (XO (XO (XI (XI (XO
    XH))))))) :: ((Zpos (XO (XO (XO (XI (XO (XO (XO (XO (XI
    XH)))))))))) :: []))) :: (((Zpos (XI (XO (XI (XI (XO (XO (XO (XI (XO (XI
    (XI (XI XH))))))))))))), ((Zpos (XO (XO (XO (XI (XI (XI
    XH))))))) :: ((Zpos (XO (XO (XO (XI (XO (XO (XO (XO (XI
    XH)))))))))) :: []))) :: (((Zpos (XO (XI (XI (XI (XO (XO (XO (XI (XO (XI
    (XI (XI XH))))))))))))), ((Zpos (XI (XO (XO (XI (XI (XO
    XH))))))) :: ((Zpos (XI (XI (XI (XO (XO (XO (XO (XO (XI
    XH)))))))))) :: []))) :: (((Zpos (XI (XI (XI (XI (XO (XO (XO (XI (XO (XI
    (XI (XI XH))))))))))))), ((Zpos (XI (XO (XO (XI (XI (XI
    XH))))))) :: ((Zpos (XI (XI (XI (XO (XO (XO (XO (XO (XI
    XH)))))))))) :: []))) :: (((Zpos (XO (XO (XO (XO (XI (XO (XO (XI (XO (XI
    (XI (XI XH))))))))))))), ((Zpos (XO (XI (XO (XI (XI (XO
    XH))))))) :: ((Zpos (XO (XI (XO (XO (XO (XO (XO (XO (XI
    XH)))))))))) :: []))) :: (((Zpos (XI (XO (XO (XO (XI (XO (XO (XI (XO (XI
    (XI (XI XH))))))))))))), ((Zpos (XO (XI (XO (XI (XI (XI
    XH))))))) :: ((Zpos (XO (XI (XO (XO (XO (XO (XO (XO (XI
    XH)))))))))) :: []))) :: (((Zpos (XO (XI (XO (XO (XI (XO (XO (XI (XO (XI
    (XI (XI XH))))))))))))), ((Zpos (XO (XI (XO (XI (XI (XO
    XH))))))) :: ((Zpos (XI (XI (XO (XO (XO (XI (XO (XO (XI
    XH)))))))))) :: []))) :: (((Zpos (XI (XI (XO (XO (XI (XO (XO (XI (XO (XI
    (XI (XI XH))))))))))))), ((Zpos (XO (XI (XO (XI (XI (XI
    XH))))))) :: ((Zpos (XI (XI (XO (XO (XO (XI (XO (XO (XI
    XH)))))))))) :: []))) :: (((Zpos (XO (XO (XI (XO (XI (XO (XO (XI (XO (XI
    (XI (XI XH))))))))))))), ((Zpos (XO (XI (XO (XI (XI (XO
    XH))))))) :: ((Zpos (XI (XO (XO (XO (XI (XI (XO (XO (XI
    XH)))))))))) :: []))) :: (((Zpos (XI (XO (XI (XO (XI (XO (XO (XI (XO (XI
    (XI (XI XH))))))))))))), ((Zpos (XO (XI (XO (XI (XI (XI
    XH))))))) :: ((Zpos (XI (XO (XO (XO (XI (XI (XO (XO (XI
    XH)))))))))) :: []))) :: (((Zpos (XO (XI (XI (XO (XI (XO (XO (XI (XO (XI
    (XI (XI XH))))))))))))), ((Zpos (XO (XO (XO (XI (XO (XI
    XH))))))) :: ((Zpos (XI (XO (XO (XO (XI (XI (XO (XO (XI
    XH)))))))))) :: []))) :: (((Zpos (XI (XI (XI (XO (XI (XO (XO (XI (XO (XI
    (XI (XI XH))))))))))))), ((Zpos (XO (XO (XI (XO (XI (XI
    XH))))))) :: ((Zpos (XO (XO (XO (XI (XO (XO (XO (XO (XI
    XH)))))))))) :: []))) :: (((Zpos (XO (XO (XO (XI (XI (XO (XO (XI (XO (XI
    (XI (XI XH))))))))))))), ((Zpos (XI (XI (XI (XO (XI (XI
    XH))))))) :: ((Zpos (XO (XI (XO (XI (XO (XO (XO (XO (XI
    XH)))))))))) :: []))) :: (((Zpos (XI (XO (XO (XI (XI (XO (XO (XI (XO (XI
    (XI (XI XH))))))))))))), ((Zpos (XI (XO (XO (XI (XI (XI
    XH))))))) :: ((Zpos (XO (XI (XO (XI (XO (XO (XO (XO (XI
    XH)))))))))) :: []))) :: (((Zpos (XI (XI (XO (XI (XI (XO (XO (XI (XO (XI
    (XI (XI XH))))))))))))), ((Zpos (XI (XI (XI (XI (XI (XI (XI (XO
    XH))))))))) :: ((Zpos (XI (XI (XI (XO (XO (XO (XO (XO (XI
    XH)))))))))) :: []))) :: (((Zpos (XO (XO (XO (XO (XO (XI (XO (XI (XO (XI
    (XI (XI XH))))))))))))), ((Zpos (XI (XO (XO (XO (XO (XO
    XH))))))) :: ((Zpos (XI (XI (XO (XO (XO (XI (XO (XO (XI
    XH)))))))))) :: []))) :: (((Zpos (XI (XO (XO (XO (XO (XI (XO (XI (XO (XI
    (XI (XI XH))))))))))))), ((Zpos (XI (XO (XO (XO (XO (XI
    XH))))))) :: ((Zpos (XI (XI (XO (XO (XO (XI (XO (XO (XI
    XH)))))))))) :: []))) :: (((Zpos (XO (XI (XO (XO (XO (XI (XO (XI (XO (XI
    (XI (XI XH))))))))))))), ((Zpos (XI (XO (XO (XO (XO (XO
    XH))))))) :: ((Zpos (XI (XO (XO (XI (XO (XO (XO (XO (XI
    XH)))))))))) :: []))) :: (((Zpos (XI (XI (XO (XO (XO (XI (XO (XI (XO (XI
    (XI (XI XH))))))))))))), ((Zpos (XI (XO (XO (XO (XO (XI
    XH))))))) :: ((Zpos (XI (XO (XO (XI (XO (XO (XO (XO (XI
    XH)))))))))) :: []))) :: (((Zpos (XO (XO (XI (XO (XO (XI (XO (XI (XO (XI
    (XI (XI XH))))))))))))), ((Zpos (XI (XO (XO (XO (XO (XO
    XH))))))) :: ((Zpos (XO (XI (XO (XO (XO (XO (XO (XO (XI
    XH)))))))))) :: ((Zpos (XI (XO (XO (XO (XO (XO (XO (XO (XI
    XH)))))))))) :: [])))) :: (((Zpos (XI (XO (XI (XO (XO (XI (XO (XI (XO (XI
    (XI (XI XH))))))))))))), ((Zpos (XI (XO (XO (XO (XO (XI
    XH))))))) :: ((Zpos (XO (XI (XO (XO (XO (XO (XO (XO (XI
    XH)))))))))) :: ((Zpos (XI (XO (XO (XO (XO (XO (XO (XO (XI
    XH)))))))))) :: [])))) :: (((Zpos (XO (XI (XI (XO (XO (XI (XO (XI (XO (XI
    (XI (XI XH))))))))))))), ((Zpos (XI (XO (XO (XO (XO (XO
    XH))))))) :: ((Zpos (XO (XI (XO (XO (XO (XO (XO (XO (XI
    XH)))))))))) :: ((Zpos (XO (XO (XO (XO (XO (XO (XO (XO (XI
    XH)))))))))) :: [])))) :: (((Zpos (XI (XI (XI (XO (XO (XI (XO (XI (XO (XI
    (XI (XI XH))))))))))))), ((Zpos (XI (XO (XO (XO (XO (XI
    XH))))))) :: ((Zpos (XO (XI (XO (XO (XO (XO (XO (XO (XI
    XH)))))))))) :: ((Zpos (XO (XO (XO (XO (XO (XO (XO (XO (XI
    XH)))))))))) :: [])))) :: (((Zpos (XO (XO (XO (XI (XO (XI (XO (XI (XO (XI
    (XI (XI XH))))))))))))), ((Zpos (XI (XO (XO (XO (XO (XO
    XH))))))) :: ((Zpos (XO (XI (XO (XO (XO (XO (XO (XO (XI
    XH)))))))))) :: ((Zpos (XI (XO (XO (XI (XO (XO (XO (XO (XI
    XH)))))))))) :: [])))) :: (((Zpos (XI (XO (XO (XI (XO (XI (XO (XI (XO (XI
    (XI (XI XH))))))))))))), ((Zpos (XI (XO (XO (XO (XO (XI
    XH))))))) :: ((Zpos (XO (XI (XO (XO (XO (XO (XO (XO (XI
    XH)))))))))) :: ((Zpos (XI (XO (XO (XI (XO (XO (XO (XO (XI
    XH)))))))))) :: [])))) :: (((Zpos (XO (XI (XO (XI (XO (XI (XO (XI (XO (XI
    (XI (XI XH))))))))))))), ((Zpos (XI (XO (XO (XO (XO (XO
    XH))))))) :: ((Zpos (XO (XI (XO (XO (XO (XO (XO (XO (XI
    XH)))))))))) :: ((Zpos (XI (XI (XO (XO (XO (XO (XO (XO (XI
    XH)))))))))) :: [])))) :: (((Zpos (XI (XI (XO (XI (XO (XI (XO (XI (XO (XI
    (XI (XI XH))))))))))))), ((Zpos (XI (XO (XO (XO (XO (XI
    XH))))))) :: ((Zpos (XO (XI (XO (XO (XO (XO (XO (XO (XI
    XH)))))))))) :: ((Zpos (XI (XI (XO (XO (XO (XO (XO (XO (XI
    XH)))))))))) :: [])))) :: (((Zpos (XO (XO (XI (XI (XO (XI (XO (XI (XO (XI
    (XI (XI XH))))))))))))), ((Zpos (XI (XO (XO (XO (XO (XO
    XH))))))) :: ((Zpos (XI (XI (XO (XO (XO (XI (XO (XO (XI
    XH)))))))))) :: ((Zpos (XO (XI (XO (XO (XO (XO (XO (XO (XI
    XH)))))))))) :: [])))) :: (((Zpos (XI (XO (XI (XI (XO (XI (XO (XI (XO (XI
    (XI (XI XH))))))))))))), ((Zpos (XI (XO (XO (XO (XO (XI
    XH))))))) :: ((Zpos (XI (XI (XO (XO (XO (XI (XO (XO (XI
    XH)))))))))) :: ((Zpos (XO (XI (XO (XO (XO (XO (XO (XO (XI
    XH)))))))))) :: [])))) :: (((Zpos (XO (XI (XI (XI (XO (XI (XO (XI (XO (XI
    (XI (XI XH))))))))))))), ((Zpos (XI (XO (XO (XO (XO (XO
    XH))))))) :: ((Zpos (XO (XI (XI (XO (XO (XO (XO (XO (XI
    XH)))))))))) :: ((Zpos (XI (XO (XO (XO (XO (XO (XO (XO (XI
    XH)))))))))) :: [])))) :: (((Zpos (XI (XI (XI (XI (XO (XI (XO (XI (XO (XI
    (XI (XI XH))))))))))))), ((Zpos (XI (XO (XO (XO (XO (XI
    XH))))))) :: ((Zpos (XO (XI (XI (XO (XO (XO (XO (XO (XI
    XH)))))))))) :: ((Zpos (XI (XO (XO (XO (XO (XO (XO (XO (XI
    XH)))))))))) :: [])))) :: (((Zpos (XO (XO (XO (XO (XI (XI (XO (XI (XO (XI
    (XI (XI XH))))))))))))), ((Zpos (XI (XO (XO (XO (XO (XO
    XH))))))) :: ((Zpos (XO (XI (XI (XO (XO (XO (XO (XO (XI
    XH)))))))))) :: ((Zpos (XO (XO (XO (XO (XO (XO (XO (XO (XI
    XH)))))))))) :: [])))) :: (((Zpos (XI (XO (XO (XO (XI (XI (XO (XI (XO (XI
    (XI (XI XH))))))))))))), ((Zpos (XI (XO (XO (XO (XO (XI
    XH))))))) :: ((Zpos (XO (XI (XI (XO (XO (XO (XO (XO (XI
    XH)))))))))) :: ((Zpos (XO (XO (XO (XO (XO (XO (XO (XO (XI
    XH)))))))))) :: [])))) :: (((Zpos (XO (XI (XO (XO (XI (XI (XO (XI (XO (XI
    (XI (XI XH))))))))))))), ((Zpos (XI (XO (XO (XO (XO (XO
    XH))))))) :: ((Zpos (XO (XI (XI (XO (XO (XO (XO (XO (XI
    XH)))))))))) :: ((Zpos (XI (XO (XO (XI (XO (XO (XO (XO (XI
    XH)))))))))) :: [])))) :: (((Zpos (XI (XI (XO (XO (XI (XI (XO (XI (XO (XI
    (XI (XI XH))))))))))))), ((Zpos (XI (XO (XO (XO (XO (XI
    XH))))))) :: ((Zpos (XO (XI (XI (XO (XO (XO (XO (XO (XI
    XH)))))))))) :: ((Zpos (XI (XO (XO (XI (XO (XO (XO (XO (XI
    XH)))))))))) :: [])))) :: (((Zpos (XO (XO (XI (XO (XI (XI (XO (XI (XO (XI
    (XI (XI XH))))))))))))), ((Zpos (XI (XO (XO (XO (XO (XO
    XH))))))) :: ((Zpos (XO (XI (XI (XO (XO (XO (XO (XO (XI
    XH)))))))))) :: ((Zpos (XI (XI (XO (XO (XO (XO (XO (XO (XI
    XH)))))))))) :: [])))) :: (((Zpos (XI (XO (XI (XO (XI (XI (XO (XI (XO (XI
    (XI (XI XH))))))))))))), ((Zpos (XI (XO (XO (XO (XO (XI
    XH))))))) :: ((Zpos (XO (XI (XI (XO (XO (XO (XO (XO (XI
    XH)))))))))) :: ((Zpos (XI (XI (XO (XO (XO (XO (XO (XO (XI
    XH)))))))))) :: [])))) :: (((Zpos (XO (XI (XI (XO (XI (XI (XO (XI (XO (XI
    (XI (XI XH))))))))))))), ((Zpos (XI (XO (XO (XO (XO (XO
    XH))))))) :: ((Zpos (XI (XI (XO (XO (XO (XI (XO (XO (XI
    XH)))))))))) :: ((Zpos (XO (XI (XI (XO (XO (XO (XO (XO (XI
    XH)))))))))) :: [])))) :: (((Zpos (XI (XI (XI (XO (XI (XI (XO (XI (XO (XI
    (XI (XI XH))))))))))))), ((Zpos (XI (XO (XO (XO (XO (XI
    XH))))))) :: ((Zpos (XI (XI (XO (XO (XO (XI (XO (XO (XI
    XH)))))))))) :: ((Zpos (XO (XI (XI (XO (XO (XO (XO (XO (XI
    XH)))))))))) :: [])))) :: (((Zpos (XO (XO (XO (XI (XI (XI (XO (XI (XO (XI
    (XI (XI XH))))))))))))), ((Zpos (XI (XO (XI (XO (XO (XO
    XH))))))) :: ((Zpos (XI (XI (XO (XO (XO (XI (XO (XO (XI
    XH)))))))))) :: []))) :: (((Zpos (XI (XO (XO (XI (XI (XI (XO (XI (XO (XI
    (XI (XI XH))))))))))))), ((Zpos (XI (XO (XI (XO (XO (XI
    XH))))))) :: ((Zpos (XI (XI (XO (XO (XO (XI (XO (XO (XI
    XH)))))))))) :: []))) :: (((Zpos (XO (XI (XO (XI (XI (XI (XO (XI (XO (XI
    (XI (XI XH))))))))))))), ((Zpos (XI (XO (XI (XO (XO (XO
    XH))))))) :: ((Zpos (XI (XO (XO (XI (XO (XO (XO (XO (XI
    XH)))))))))) :: []))) :: (((Zpos (XI (XI (XO (XI (XI (XI (XO (XI (XO (XI
    (XI (XI XH))))))))))))), ((Zpos (XI (XO (XI (XO (XO (XI
    XH))))))) :: ((Zpos (XI (XO (XO (XI (XO (XO (XO (XO (XI
    XH)))))))))) :: []))) :: (((Zpos (XO (XO (XI (XI (XI (XI (XO (XI (XO (XI
    (XI (XI XH))))))))))))), ((Zpos (XI (XO (XI (XO (XO (XO
    XH))))))) :: ((Zpos (XI (XI (XO (XO (XO (XO (XO (XO (XI
    XH)))))))))) :: []))) :: (((Zpos (XI (XO (XI (XI (XI (XI (XO (XI (XO (XI
    (XI (XI XH))))))))))))), ((Zpos (XI (XO (XI (XO (XO (XI
    XH))))))) :: ((Zpos (XI (XI (XO (XO (XO (XO (XO (XO (XI
    XH)))))))))) :: []))) :: (((Zpos (XO (XI (XI (XI (XI (XI (XO (XI (XO (XI
    (XI (XI XH))))))))))))), ((Zpos (XI (XO (XI (XO (XO (XO
    XH))))))) :: ((Zpos (XO (XI (XO (XO (XO (XO (XO (XO (XI
    XH)))))))))) :: ((Zpos (XI (XO (XO (XO (XO (XO (XO (XO (XI
    XH)))))))))) :: [])))) :: (((Zpos (XI (XI (XI (XI (XI (XI (XO (XI (XO (XI
    (XI (XI XH))))))))))))), ((Zpos (XI (XO (XI (XO (XO (XI
    XH))))))) :: ((Zpos (XO (XI (XO (XO (XO (XO (XO (XO (XI
    XH)))))))))) :: ((Zpos (XI (XO (XO (XO (XO (XO (XO (XO (XI
    XH)))))))))) :: [])))) :: (((Zpos (XO (XO (XO (XO (XO (XO (XI (XI (XO (XI
    (XI (XI XH))))))))))))), ((Zpos (XI (XO (XI (XO (XO (XO
    XH))))))) :: ((Zpos (XO (XI (XO (XO (XO (XO (XO (XO (XI
    XH)))))))))) :: ((Zpos (XO (XO (XO (XO (XO (XO (XO (XO (XI
    XH)))))))))) :: [])))) :: (((Zpos (XI (XO (XO (XO (XO (XO (XI (XI (XO (XI
    (XI (XI XH))))))))))))), ((Zpos (XI (XO (XI (XO (XO (XI
    XH))))))) :: ((Zpos (XO (XI (XO (XO (XO (XO (XO (XO (XI
    XH)))))))))) :: ((Zpos (XO (XO (XO (XO (XO (XO (XO (XO (XI
    XH)))))))))) :: [])))) :: (((Zpos (XO (XI (XO (XO (XO (XO (XI (XI (XO (XI
    (XI (XI XH))))))))))))), ((Zpos (XI (XO (XI (XO (XO (XO
    XH))))))) :: ((Zpos (XO (XI (XO (XO (XO (XO (XO (XO (XI
    XH)))))))))) :: ((Zpos (XI (XO (XO (XI (XO (XO (XO (XO (XI
    XH)))))))))) :: [])))) :: (((Zpos (XI (XI (XO (XO (XO (XO (XI (XI (XO (XI
    (XI (XI XH))))))))))))), ((Zpos (XI (XO (XI (XO (XO (XI
    XH))))))) :: ((Zpos (XO (XI (XO (XO (XO (XO (XO (XO (XI
    XH)))))))))) :: ((Zpos (XI (XO (XO (XI (XO (XO (XO (XO (XI
    XH)))))))))) :: [])))) :: (((Zpos (XO (XO (XI (XO (XO (XO (XI (XI (XO (XI
    (XI (XI XH))))))))))))), ((Zpos (XI (XO (XI (XO (XO (XO
    XH))))))) :: ((Zpos (XO (XI (XO (XO (XO (XO (XO (XO (XI
    XH)))))))))) :: ((Zpos (XI (XI (XO (XO (XO (XO (XO (XO (XI
    XH)))))))))) :: [])))) :: (((Zpos (XI (XO (XI (XO (XO (XO (XI (XI (XO (XI
    (XI (XI XH))))))))))))), ((Zpos (XI (XO (XI (XO (XO (XI
    XH))))))) :: ((Zpos (XO (XI (XO (XO (XO (XO (XO (XO (XI
    XH)))))))))) :: ((Zpos (XI (XI (XO (XO (XO (XO (XO (XO (XI
    XH)))))))))) :: [])))) :: (((Zpos (XO (XI (XI (XO (XO (XO (XI (XI (XO (XI
    (XI (XI XH))))))))))))), ((Zpos (XI (XO (XI (XO (XO (XO
    XH))))))) :: ((Zpos (XI (XI (XO (XO (XO (XI (XO (XO (XI
    XH)))))))))) :: ((Zpos (XO (XI (XO (XO (XO (XO (XO (XO (XI
    XH)))))))))) :: [])))) :: (((Zpos (XI (XI (XI (XO (XO (XO (XI (XI (XO (XI
    (XI (XI XH))))))))))))), ((Zpos (XI (XO (XI (XO (XO (XI
    XH))))))) :: ((Zpos (XI (XI (XO (XO (XO (XI (XO (XO (XI
    XH)))))))))) :: ((Zpos (XO (XI (XO (XO (XO (XO (XO (XO (XI
    XH)))))))))) :: [])))) :: (((Zpos (XO (XO (XO (XI (XO (XO (XI (XI (XO (XI
    (XI (XI XH))))))))))))), ((Zpos (XI (XO (XO (XI (XO (XO
    XH))))))) :: ((Zpos (XI (XO (XO (XI (XO (XO (XO (XO (XI
    XH)))))))))) :: []))) :: (((Zpos (XI (XO (XO (XI (XO (XO (XI (XI (XO (XI
    (XI (XI XH))))))))))))), ((Zpos (XI (XO (XO (XI (XO (XI
    XH))))))) :: ((Zpos (XI (XO (XO (XI (XO (XO (XO (XO (XI
    XH)))))))))) :: []))) :: (((Zpos (XO (XI (XO (XI (XO (XO (XI (XI (XO (XI
    (XI (XI XH))))))))))))), ((Zpos (XI (XO (XO (XI (XO (XO
    XH))))))) :: ((Zpos (XI (XI (XO (XO (XO (XI (XO (XO (XI
    XH)))))))))) :: []))) :: (((Zpos (XI (XI (XO (XI (XO (XO (XI (XI (XO (XI
    (XI (XI XH))))))))))))), ((Zpos (XI (XO (XO (XI (XO (XI
    XH))))))) :: ((Zpos (XI (XI (XO (XO (XO (XI (XO (XO (XI
    XH)))))))))) :: []))) :: (((Zpos (XO (XO (XI (XI (XO (XO (XI (XI (XO (XI
    (XI (XI XH))))))))))))), ((Zpos (XI (XI (XI (XI (XO (XO
    XH))))))) :: ((Zpos (XI (XI (XO (XO (XO (XI (XO (XO (XI
    XH)))))))))) :: []))) :: (((Zpos (XI (XO (XI (XI (XO (XO (XI (XI (XO (XI
    (XI (XI XH))))))))))))), ((Zpos (XI (XI (XI (XI (XO (XI
    XH))))))) :: ((Zpos (XI (XI (XO (XO (XO (XI (XO (XO (XI
    XH)))))))))) :: []))) :: (((Zpos (XO (XI (XI (XI (XO (XO (XI (XI (XO (XI
    (XI (XI XH))))))))))))), ((Zpos (XI (XI (XI (XI (XO (XO
    XH))))))) :: ((Zpos (XI (XO (XO (XI (XO (XO (XO (XO (XI
    XH)))))))))) :: []))) :: (((Zpos (XI (XI (XI (XI (XO (XO (XI (XI (XO (XI
    (XI (XI XH))))))))))))), ((Zpos (XI (XI (XI (XI (XO (XI
    XH))))))) :: ((Zpos (XI (XO (XO (XI (XO (XO (XO (XO (XI
    XH)))))))))) :: []))) :: (((Zpos (XO (XO (XO (XO (XI (XO (XI (XI (XO (XI
    (XI (XI XH))))))))))))), ((Zpos (XI (XI (XI (XI (XO (XO
    XH))))))) :: ((Zpos (XO (XI (XO (XO (XO (XO (XO (XO (XI
    XH)))))))))) :: ((Zpos (XI (XO (XO (XO (XO (XO (XO (XO (XI
    XH)))))))))) :: [])))) :: (((Zpos (XI (XO (XO (XO (XI (XO (XI (XI (XO (XI
    (XI (XI XH))))))))))))), ((Zpos (XI (XI (XI (XI (XO (XI
    XH))))))) :: ((Zpos (XO (XI (XO (XO (XO (XO (XO (XO (XI
    XH)))))))))) :: ((Zpos (XI (XO (XO (XO (XO (XO (XO (XO (XI
    XH)))))))))) :: [])))) :: (((Zpos (XO (XI (XO (XO (XI (XO (XI (XI (XO (XI
    (XI (XI XH))))))))))))), ((Zpos (XI (XI (XI (XI (XO (XO
    XH))))))) :: ((Zpos (XO (XI (XO (XO (XO (XO (XO (XO (XI
    XH)))))))))) :: ((Zpos (XO (XO (XO (XO (XO (XO (XO (XO (XI
    XH)))))))))) :: [])))) :: (((Zpos (XI (XI (XO (XO (XI (XO (XI (XI (XO (XI
    (XI (XI XH))))))))))))), ((Zpos (XI (XI (XI (XI (XO (XI
    XH))))))) :: ((Zpos (XO (XI (XO (XO (XO (XO (XO (XO (XI
    XH)))))))))) :: ((Zpos (XO (XO (XO (XO (XO (XO (XO (XO (XI
    XH)))))))))) :: [])))) :: (((Zpos (XO (XO (XI (XO (XI (XO (XI (XI (XO (XI
    (XI (XI XH))))))))))))), ((Zpos (XI (XI (XI (XI (XO (XO
    XH))))))) :: ((Zpos (XO (XI (XO (XO (XO (XO (XO (XO (XI
    XH)))))))))) :: ((Zpos (XI (XO (XO (XI (XO (XO (XO (XO (XI
    XH)))))))))) :: [])))) :: (((Zpos (XI (XO (XI (XO (XI (XO (XI (XI (XO (XI
    (XI (XI XH))))))))))))), ((Zpos (XI (XI (XI (XI (XO (XI
    XH))))))) :: ((Zpos (XO (XI (XO (XO (XO (XO (XO (XO (XI
    XH)))))))))) :: ((Zpos (XI (XO (XO (XI (XO (XO (XO (XO (XI
    XH)))))))))) :: [])))) :: (((Zpos (XO (XI (XI (XO (XI (XO (XI (XI (XO (XI
    (XI (XI XH))))))))))))), ((Zpos (XI (XI (XI (XI (XO (XO
    XH))))))) :: ((Zpos (XO (XI (XO (XO (XO (XO (XO (XO (XI
    XH)))))))))) :: ((Zpos (XI (XI (XO (XO (XO (XO (XO (XO (XI
    XH)))))))))) :: [])))) :: (((Zpos (XI (XI (XI (XO (XI (XO (XI (XI (XO (XI
    (XI (XI XH))))))))))))), ((Zpos (XI (XI (XI (XI (XO (XI
    XH))))))) :: ((Zpos (XO (XI (XO (XO (XO (XO (XO (XO (XI
    XH)))))))))) :: ((Zpos (XI (XI (XO (XO (XO (XO (XO (XO (XI
    XH)))))))))) :: [])))) :: (((Zpos (XO (XO (XO (XI (XI (XO (XI (XI (XO (XI
    (XI (XI XH))))))))))))), ((Zpos (XI (XI (XI (XI (XO (XO
    XH))))))) :: ((Zpos (XI (XI (XO (XO (XO (XI (XO (XO (XI
    XH)))))))))) :: ((Zpos (XO (XI (XO (XO (XO (XO (XO (XO (XI
    XH)))))))))) :: [])))) :: (((Zpos (XI (XO (XO (XI (XI (XO (XI (XI (XO (XI
    (XI (XI XH))))))))))))), ((Zpos (XI (XI (XI (XI (XO (XI
    XH))))))) :: ((Zpos (XI (XI (XO (XO (XO (XI (XO (XO (XI
    XH)))))))))) :: ((Zpos (XO (XI (XO (XO (XO (XO (XO (XO (XI
    XH)))))))))) :: [])))) :: (((Zpos (XO (XI (XO (XI (XI (XO (XI (XI (XO (XI
    (XI (XI XH))))))))))))), ((Zpos (XI (XI (XI (XI (XO (XO
    XH))))))) :: ((Zpos (XI (XI (XO (XI (XI (XO (XO (XO (XI
    XH)))))))))) :: ((Zpos (XI (XO (XO (XO (XO (XO (XO (XO (XI
    XH)))))))))) :: [])))) :: (((Zpos (XI (XI (XO (XI (XI (XO (XI (XI (XO (XI
    (XI (XI XH))))))))))))), ((Zpos (XI (XI (XI (XI (XO (XI
    XH))))))) :: ((Zpos (XI (XI (XO (XI (XI (XO (XO (XO (XI
    XH)))))))))) :: ((Zpos (XI (XO (XO (XO (XO (XO (XO (XO (XI
    XH)))))))))) :: [])))) :: (((Zpos (XO (XO (XI (XI (XI (XO (XI (XI (XO (XI
    (XI (XI XH))))))))))))), ((Zpos (XI (XI (XI (XI (XO (XO
    XH))))))) :: ((Zpos (XI (XI (XO (XI (XI (XO (XO (XO (XI
    XH)))))))))) :: ((Zpos (XO (XO (XO (XO (XO (XO (XO (XO (XI
    XH)))))))))) :: [])))) :: (((Zpos (XI (XO (XI (XI (XI (XO (XI (XI (XO (XI
    (XI (XI XH))))))))))))), ((Zpos (XI (XI (XI (XI (XO (XI
    XH))))))) :: ((Zpos (XI (XI (XO (XI (XI (XO (XO (XO (XI
    XH)))))))))) :: ((Zpos (XO (XO (XO (XO (XO (XO (XO (XO (XI
    XH)))))))))) :: [])))) :: (((Zpos (XO (XI (XI (XI (XI (XO (XI (XI (XO (XI
    (XI (XI XH))))))))))))), ((Zpos (XI (XI (XI (XI (XO (XO
    XH))))))) :: ((Zpos (XI (XI (XO (XI (XI (XO (XO (XO (XI
    XH)))))))))) :: ((Zpos (XI (XO (XO (XI (XO (XO (XO (XO (XI
    XH)))))))))) :: [])))) :: (((Zpos (XI (XI (XI (XI (XI (XO (XI (XI (XO (XI
    (XI (XI XH))))))))))))), ((Zpos (XI (XI (XI (XI (XO (XI
    XH))))))) :: ((Zpos (XI (XI (XO (XI (XI (XO (XO (XO (XI
    XH)))))))))) :: ((Zpos (XI (XO (XO (XI (XO (XO (XO (XO (XI
    XH)))))))))) :: [])))) :: (((Zpos (XO (XO (XO (XO (XO (XI (XI (XI (XO (XI
    (XI (XI XH))))))))))))), ((Zpos (XI (XI (XI (XI (XO (XO
    XH))))))) :: ((Zpos (XI (XI (XO (XI (XI (XO (XO (XO (XI
    XH)))))))))) :: ((Zpos (XI (XI (XO (XO (XO (XO (XO (XO (XI
    XH)))))))))) :: [])))) :: (((Zpos (XI (XO (XO (XO (XO (XI (XI (XI (XO (XI
    (XI (XI XH))))))))))))), ((Zpos (XI (XI (XI (XI (XO (XI
    XH))))))) :: ((Zpos (XI (XI (XO (XI (XI (XO (XO (XO (XI
    XH)))))))))) :: ((Zpos (XI (XI (XO (XO (XO (XO (XO (XO (XI
    XH)))))))))) :: [])))) :: (((Zpos (XO (XI (XO (XO (XO (XI (XI (XI (XO (XI
    (XI (XI XH))))))))))))), ((Zpos (XI (XI (XI (XI (XO (XO
    XH))))))) :: ((Zpos (XI (XI (XO (XI (XI (XO (XO (XO (XI
    XH)))))))))) :: ((Zpos (XI (XI (XO (XO (XO (XI (XO (XO (XI
    XH)))))))))) :: [])))) :: (((Zpos (XI (XI (XO (XO (XO (XI (XI (XI (XO (XI
    (XI (XI XH))))))))))))), ((Zpos (XI (XI (XI (XI (XO (XI
    XH))))))) :: ((Zpos (XI (XI (XO (XI (XI (XO (XO (XO (XI
    XH)))))))))) :: ((Zpos (XI (XI (XO (XO (XO (XI (XO (XO (XI
    XH)))))))))) :: [])))) :: (((Zpos (XO (XO (XI (XO (XO (XI (XI (XI (XO (XI
    (XI (XI XH))))))))))))), ((Zpos (XI (XO (XI (XO (XI (XO
    XH))))))) :: ((Zpos (XI (XI (XO (XO (XO (XI (XO (XO (XI
    XH)))))))))) :: []))) :: (((Zpos (XI (XO (XI (XO (XO (XI (XI (XI (XO (XI
    (XI (XI XH))))))))))))), ((Zpos (XI (XO (XI (XO (XI (XI
    XH))))))) :: ((Zpos (XI (XI (XO (XO (XO (XI (XO (XO (XI
    XH)))))))))) :: []))) :: (((Zpos (XO (XI (XI (XO (XO (XI (XI (XI (XO (XI
    (XI (XI XH))))))))))))), ((Zpos (XI (XO (XI (XO (XI (XO
    XH))))))) :: ((Zpos (XI (XO (XO (XI (XO (XO (XO (XO (XI
    XH)))))))))) :: []))) :: (((Zpos (XI (XI (XI (XO (XO (XI (XI (XI (XO (XI
    (XI (XI XH))))))))))))), ((Zpos (XI (XO (XI (XO (XI (XI
    XH))))))) :: ((Zpos (XI (XO (XO (XI (XO (XO (XO (XO (XI
    XH)))))))))) :: []))) :: (((Zpos (XO (XO (XO (XI (XO (XI (XI (XI (XO (XI
    (XI (XI XH))))))))))))), ((Zpos (XI (XO (XI (XO (XI (XO
    XH))))))) :: ((Zpos (XI (XI (XO (XI (XI (XO (XO (XO (XI
    XH)))))))))) :: ((Zpos (XI (XO (XO (XO (XO (XO (XO (XO (XI
    XH)))))))))) :: [])))) :: (((Zpos (XI (XO (XO (XI (XO (XI (XI (XI (XO (XI
    (XI (XI XH))))))))))))), ((Zpos (XI (XO (XI (XO (XI (XI
    XH))))))) :: ((Zpos (XI (XI (XO (XI (XI (XO (XO (XO (XI
    XH)))))))))) :: ((Zpos (XI (XO (XO (XO (XO (XO (XO (XO (XI
    XH)))))))))) :: [])))) :: (((Zpos (XO (XI (XO (XI (XO (XI (XI (XI (XO (XI
    (XI (XI XH))))))))))))), ((Zpos (XI (XO (XI (XO (XI (XO
    XH))))))) :: ((Zpos (XI (XI (XO (XI (XI (XO (XO (XO (XI
    XH)))))))))) :: ((Zpos (XO (XO (XO (XO (XO (XO (XO (XO (XI
    XH)))))))))) :: [])))) :: (((Zpos (XI (XI (XO (XI (XO (XI (XI (XI (XO (XI
    (XI (XI XH))))))))))))), ((Zpos (XI (XO (XI (XO (XI (XI
    XH))))))) :: ((Zpos (XI (XI (XO (XI (XI (XO (XO (XO (XI
    XH)))))))))) :: ((Zpos (XO (XO (XO (XO (XO (XO (XO (XO (XI
    XH)))))))))) :: [])))) :: (((Zpos (XO (XO (XI (XI (XO (XI (XI (XI (XO (XI
    (XI (XI XH))))))))))))), ((Zpos (XI (XO (XI (XO (XI (XO
    XH))))))) :: ((Zpos (XI (XI (XO (XI (XI (XO (XO (XO (XI
    XH)))))))))) :: ((Zpos (XI (XO (XO (XI (XO (XO (XO (XO (XI
    XH)))))))))) :: [])))) :: (((Zpos (XI (XO (XI (XI (XO (XI (XI (XI (XO (XI
    (XI (XI XH))))))))))))), ((Zpos (XI (XO (XI (XO (XI (XI
    XH))))))) :: ((Zpos (XI (XI (XO (XI (XI (XO (XO (XO (XI
    XH)))))))))) :: ((Zpos (XI (XO (XO (XI (XO (XO (XO (XO (XI
    XH)))))))))) :: [])))) :: (((Zpos (XO (XI (XI (XI (XO (XI (XI (XI (XO (XI
    (XI (XI XH))))))))))))), ((Zpos (XI (XO (XI (XO (XI (XO
    XH))))))) :: ((Zpos (XI (XI (XO (XI (XI (XO (XO (XO (XI
    XH)))))))))) :: ((Zpos (XI (XI (XO (XO (XO (XO (XO (XO (XI
    XH)))))))))) :: [])))) :: (((Zpos (XI (XI (XI (XI (XO (XI (XI (XI (XO (XI
    (XI (XI XH))))))))))))), ((Zpos (XI (XO (XI (XO (XI (XI
    XH))))))) :: ((Zpos (XI (XI (XO (XI (XI (XO (XO (XO (XI
    XH)))))))))) :: ((Zpos (XI (XI (XO (XO (XO (XO (XO (XO (XI
    XH)))))))))) :: [])))) :: (((Zpos (XO (XO (XO (XO (XI (XI (XI (XI (XO (XI
    (XI (XI XH))))))))))))), ((Zpos (XI (XO (XI (XO (XI (XO
    XH))))))) :: ((Zpos (XI (XI (XO (XI (XI (XO (XO (XO (XI
    XH)))))))))) :: ((Zpos (XI (XI (XO (XO (XO (XI (XO (XO (XI
    XH)))))))))) :: [])))) :: (((Zpos (XI (XO (XO (XO (XI (XI (XI (XI (XO (XI
    (XI (XI XH))))))))))))), ((Zpos (XI (XO (XI (XO (XI (XI
    XH))))))) :: ((Zpos (XI (XI (XO (XI (XI (XO (XO (XO (XI
    XH)))))))))) :: ((Zpos (XI (XI (XO (XO (XO (XI (XO (XO (XI
    XH)))))))))) :: [])))) :: (((Zpos (XO (XI (XO (XO (XI (XI (XI (XI (XO (XI
    (XI (XI XH))))))))))))), ((Zpos (XI (XO (XO (XI (XI (XO
    XH))))))) :: ((Zpos (XO (XO (XO (XO (XO (XO (XO (XO (XI
    XH)))))))))) :: []))) :: (((Zpos (XI (XI (XO (XO (XI (XI (XI (XI (XO (XI
    (XI (XI XH))))))))))))), ((Zpos (XI (XO (XO (XI (XI (XI
    XH))))))) :: ((Zpos (XO (XO (XO (XO (XO (XO (XO (XO (XI
    XH)))))))))) :: []))) :: (((Zpos (XO (XO (XI (XO (XI (XI (XI (XI (XO (XI
    (XI (XI XH))))))))))))), ((Zpos (XI (XO (XO (XI (XI (XO
    XH))))))) :: ((Zpos (XI (XI (XO (XO (XO (XI (XO (XO (XI
    XH)))))))))) :: []))) :: (((Zpos (XI (XO (XI (XO (XI (XI (XI (XI (XO (XI
    (XI (XI XH))))))))))))), ((Zpos (XI (XO (XO (XI (XI (XI
    XH))))))) :: ((Zpos (XI (XI (XO (XO (XO (XI (XO (XO (XI
    XH)))))))))) :: []))) :: (((Zpos (XO (XI (XI (XO (XI (XI (XI (XI (XO (XI
    (XI (XI XH))))))))))))), ((Zpos (XI (XO (XO (XI (XI (XO
    XH))))))) :: ((Zpos (XI (XO (XO (XI (XO (XO (XO (XO (XI
    XH)))))))))) :: []))) :: (((Zpos (XI (XI (XI (XO (XI (XI (XI (XI (XO (XI
    (XI (XI XH))))))))))))), ((Zpos (XI (XO (XO (XI (XI (XI
    XH))))))) :: ((Zpos (XI (XO (XO (XI (XO (XO (XO (XO (XI
    XH)))))))))) :: []))) :: (((Zpos (XO (XO (XO (XI (XI (XI (XI (XI (XO (XI
    (XI (XI XH))))))))))))), ((Zpos (XI (XO (XO (XI (XI (XO
    XH))))))) :: ((Zpos (XI (XI (XO (XO (XO (XO (XO (XO (XI
    XH)))))))))) :: []))) :: (((Zpos (XI (XO (XO (XI (XI (XI (XI (XI (XO (XI
    (XI (XI XH))))))))))))), ((Zpos (XI (XO (XO (XI (XI (XI
    XH))))))) :: ((Zpos (XI (XI (XO (XO (XO (XO (XO (XO (XI
    XH)))))))))) :: []))) :: (((Zpos (XO (XO (XO (XO (XO (XO (XO (XO (XI (XI
    (XI (XI XH))))))))))))), ((Zpos (XI (XO (XO (XO (XI (XI (XO (XI (XI
    XH)))))))))) :: ((Zpos (XI (XI (XO (XO (XI (XO (XO (XO (XI
    XH)))))))))) :: []))) :: (((Zpos (XI (XO (XO (XO (XO (XO (XO (XO (XI (XI
    (XI (XI XH))))))))))))), ((Zpos (XI (XO (XO (XO (XI (XI (XO (XI (XI
    XH)))))))))) :: ((Zpos (XO (XO (XI (XO (XI (XO (XO (XO (XI
    XH)))))))))) :: []))) :: (((Zpos (XO (XI (XO (XO (XO (XO (XO (XO (XI (XI
    (XI (XI XH))))))))))))), ((Zpos (XI (XO (XO (XO (XI (XI (XO (XI (XI
    XH)))))))))) :: ((Zpos (XI (XI (XO (XO (XI (XO (XO (XO (XI
    XH)))))))))) :: ((Zpos (XO (XO (XO (XO (XO (XO (XO (XO (XI
    XH)))))))))) :: [])))) :: (((Zpos (XI (XI (XO (XO (XO (XO (XO (XO (XI (XI
    (XI (XI XH))))))))))))), ((Zpos (XI (XO (XO (XO (XI (XI (XO (XI (XI
    XH)))))))))) :: ((Zpos (XO (XO (XI (XO (XI (XO (XO (XO (XI
    XH)))))))))) :: ((Zpos (XO (XO (XO (XO (XO (XO (XO (XO (XI
    XH)))))))))) :: [])))) :: (((Zpos (XO (XO (XI (XO (XO (XO (XO (XO (XI (XI
    (XI (XI XH))))))))))))), ((Zpos (XI (XO (XO (XO (XI (XI (XO (XI (XI
    XH)))))))))) :: ((Zpos (XI (XI (XO (XO (XI (XO (XO (XO (XI
    XH)))))))))) :: ((Zpos (XI (XO (XO (XO (XO (XO (XO (XO (XI
    XH)))))))))) :: [])))) :: (((Zpos (XI (XO (XI (XO (XO (XO (XO (XO (XI (XI
    (XI (XI XH))))))))))))), ((Zpos (XI (XO (XO (XO (XI (XI (XO (XI (XI
    XH)))))))))) :: ((Zpos (XO (XO (XI (XO (XI (XO (XO (XO (XI
    XH)))))))))) :: ((Zpos (XI (XO (XO (XO (XO (XO (XO (XO (XI
    XH)))))))))) :: [])))) :: (((Zpos (XO (XI (XI (XO (XO (XO (XO (XO (XI (XI
    (XI (XI XH))))))))))))), ((Zpos (XI (XO (XO (XO (XI (XI (XO (XI (XI
    XH)))))))))) :: ((Zpos (XI (XI (XO (XO (XI (XO (XO (XO (XI
    XH)))))))))) :: ((Zpos (XO (XI (XO (XO (XO (XO (XI (XO (XI
    XH)))))))))) :: [])))) :: (((Zpos (XI (XI (XI (XO (XO (XO (XO (XO (XI (XI
    (XI (XI XH))))))))))))), ((Zpos (XI (XO (XO (XO (XI (XI (XO (XI (XI
    XH)))))))))) :: ((Zpos (XO (XO (XI (XO (XI (XO (XO (XO (XI
    XH)))))))))) :: ((Zpos (XO (XI (XO (XO (XO (XO (XI (XO (XI
    XH)))))))))) :: [])))) :: (((Zpos (XO (XO (XO (XI (XO (XO (XO (XO (XI (XI
    (XI (XI XH))))))))))))), ((Zpos (XI (XO (XO (XO (XI (XO (XO (XI (XI
    XH)))))))))) :: ((Zpos (XI (XI (XO (XO (XI (XO (XO (XO (XI
    XH)))))))))) :: []))) :: (((Zpos (XI (XO (XO (XI (XO (XO (XO (XO (XI (XI
    (XI (XI XH))))))))))))), ((Zpos (XI (XO (XO (XO (XI (XO (XO (XI (XI
    XH)))))))))) :: ((Zpos (XO (XO (XI (XO (XI (XO (XO (XO (XI
    XH)))))))))) :: []))) :: (((Zpos (XO (XI (XO (XI (XO (XO (XO (XO (XI (XI
    (XI (XI XH))))))))))))), ((Zpos (XI (XO (XO (XO (XI (XO (XO (XI (XI
    XH)))))))))) :: ((Zpos (XI (XI (XO (XO (XI (XO (XO (XO (XI
    XH)))))))))) :: ((Zpos (XO (XO (XO (XO (XO (XO (XO (XO (XI
    XH)))))))))) :: [])))) :: (((Zpos (XI (XI (XO (XI (XO (XO (XO (XO (XI (XI
    (XI (XI XH))))))))))))), ((Zpos (XI (XO (XO (XO (XI (XO (XO (XI (XI
    XH)))))))))) :: ((Zpos (XO (XO (XI (XO (XI (XO (XO (XO (XI
    XH)))))))))) :: ((Zpos (XO (XO (XO (XO (XO (XO (XO (XO (XI
    XH)))))))))) :: [])))) :: (((Zpos (XO (XO (XI (XI (XO (XO (XO (XO (XI (XI
    (XI (XI XH))))))))))))), ((Zpos (XI (XO (XO (XO (XI (XO (XO (XI (XI
    XH)))))))))) :: ((Zpos (XI (XI (XO (XO (XI (XO (XO (XO (XI
    XH)))))))))) :: ((Zpos (XI (XO (XO (XO (XO (XO (XO (XO (XI
    XH)))))))))) :: [])))) :: (((Zpos (XI (XO (XI (XI (XO (XO (XO (XO (XI (XI
    (XI (XI XH))))))))))))), ((Zpos (XI (XO (XO (XO (XI (XO (XO (XI (XI
    XH)))))))))) :: ((Zpos (XO (XO (XI (XO (XI (XO (XO (XO (XI
    XH)))))))))) :: ((Zpos (XI (XO (XO (XO (XO (XO (XO (XO (XI
    XH)))))))))) :: [])))) :: (((Zpos (XO (XI (XI (XI (XO (XO (XO (XO (XI (XI
    (XI (XI XH))))))))))))), ((Zpos (XI (XO (XO (XO (XI (XO (XO (XI (XI
    XH)))))))))) :: ((Zpos (XI (XI (XO (XO (XI (XO (XO (XO (XI
    XH)))))))))) :: ((Zpos (XO (XI (XO (XO (XO (XO (XI (XO (XI
    XH)))))))))) :: [])))) :: (((Zpos (XI (XI (XI (XI (XO (XO (XO (XO (XI (XI
    (XI (XI XH))))))))))))), ((Zpos (XI (XO (XO (XO (XI (XO (XO (XI (XI
    XH)))))))))) :: ((Zpos (XO (XO (XI (XO (XI (XO (XO (XO (XI
    XH)))))))))) :: ((Zpos (XO (XI (XO (XO (XO (XO (XI (XO (XI
    XH)))))))))) :: [])))) :: (((Zpos (XO (XO (XO (XO (XI (XO (XO (XO (XI (XI
    (XI (XI XH))))))))))))), ((Zpos (XI (XO (XI (XO (XI (XI (XO (XI (XI
    XH)))))))))) :: ((Zpos (XI (XI (XO (XO (XI (XO (XO (XO (XI
    XH)))))))))) :: []))) :: (((Zpos (XI (XO (XO (XO (XI (XO (XO (XO (XI (XI
    (XI (XI XH))))))))))))), ((Zpos (XI (XO (XI (XO (XI (XI (XO (XI (XI
    XH)))))))))) :: ((Zpos (XO (XO (XI (XO (XI (XO (XO (XO (XI
    XH)))))))))) :: []))) :: (((Zpos (XO (XI (XO (XO (XI (XO (XO (XO (XI (XI
    (XI (XI XH))))))))))))), ((Zpos (XI (XO (XI (XO (XI (XI (XO (XI (XI
    XH)))))))))) :: ((Zpos (XI (XI (XO (XO (XI (XO (XO (XO (XI
    XH)))))))))) :: ((Zpos (XO (XO (XO (XO (XO (XO (XO (XO (XI
    XH)))))))))) :: [])))) :: (((Zpos (XI (XI (XO (XO (XI (XO (XO (XO (XI (XI
    (XI (XI XH))))))))))))), ((Zpos (XI (XO (XI (XO (XI (XI (XO (XI (XI
    XH)))))))))) :: ((Zpos (XO (XO (XI (XO (XI (XO (XO (XO (XI
    XH)))))))))) :: ((Zpos (XO (XO (XO (XO (XO (XO (XO (XO (XI
    XH)))))))))) :: [])))) :: (((Zpos (XO (XO (XI (XO (XI (XO (XO (XO (XI (XI
    (XI (XI XH))))))))))))), ((Zpos (XI (XO (XI (XO (XI (XI (XO (XI (XI
    XH)))))))))) :: ((Zpos (XI (XI (XO (XO (XI (XO (XO (XO (XI
    XH)))))))))) :: ((Zpos (XI (XO (XO (XO (XO (XO (XO (XO (XI
    XH)))))))))) :: [])))) :: (((Zpos (XI (XO (XI (XO (XI (XO (XO (XO (XI (XI
    (XI (XI XH))))))))))))), ((Zpos (XI (XO (XI (XO (XI (XI (XO (XI (XI
    XH)))))))))) :: ((Zpos (XO (XO (XI (XO (XI (XO (XO (XO (XI
    XH)))))))))) :: ((Zpos (XI (XO (XO (XO (XO (XO (XO (XO (XI
    XH)))))))))) :: [])))) :: (((Zpos (XO (XO (XO (XI (XI (XO (XO (XO (XI (XI
    (XI (XI XH))))))))))))), ((Zpos (XI (XO (XI (XO (XI (XO (XO (XI (XI
    XH)))))))))) :: ((Zpos (XI (XI (XO (XO (XI (XO (XO (XO (XI
    XH)))))))))) :: []))) :: (((Zpos (XI (XO (XO (XI (XI (XO (XO (XO (XI (XI
    (XI (XI XH))))))))))))), ((Zpos (XI (XO (XI (XO (XI (XO (XO (XI (XI
    XH)))))))))) :: ((Zpos (XO (XO (XI (XO (XI (XO (XO (XO (XI
    XH)))))))))) :: []))) :: (((Zpos (XO (XI (XO (XI (XI (XO (XO (XO (XI (XI
    (XI (XI XH))))))))))))), ((Zpos (XI (XO (XI (XO (XI (XO (XO (XI (XI
    XH)))))))))) :: ((Zpos (XI (XI (XO (XO (XI (XO (XO (XO (XI
    XH)))))))))) :: ((Zpos (XO (XO (XO (XO (XO (XO (XO (XO (XI
    XH)))))))))) :: [])))) :: (((Zpos (XI (XI (XO (XI (XI (XO (XO (XO (XI (XI
    (XI (XI XH))))))))))))), ((Zpos (XI (XO (XI (XO (XI (XO (XO (XI (XI
    XH)))))))))) :: ((Zpos (XO (XO (XI (XO (XI (XO (XO (XO (XI
    XH)))))))))) :: ((Zpos (XO (XO (XO (XO (XO (XO (XO (XO (XI
    XH)))))))))) :: [])))) :: (((Zpos (XO (XO (XI (XI (XI (XO (XO (XO (XI (XI
    (XI (XI XH))))))))))))), ((Zpos (XI (XO (XI (XO (XI (XO (XO (XI (XI
    XH)))))))))) :: ((Zpos (XI (XI (XO (XO (XI (XO (XO (XO (XI
    XH)))))))))) :: ((Zpos (XI (XO (XO (XO (XO (XO (XO (XO (XI
    XH)))))))))) :: [])))) :: (((Zpos (XI (XO (XI (XI (XI (XO (XO (XO (XI (XI
    (XI (XI XH))))))))))))), ((Zpos (XI (XO (XI (XO (XI (XO (XO (XI (XI
    XH)))))))))) :: ((Zpos (XO (XO (XI (XO (XI (XO (XO (XO (XI
    XH)))))))))) :: ((Zpos (XI (XO (XO (XO (XO (XO (XO (XO (XI
    XH)))))))))) :: [])))) :: (((Zpos (XO (XO (XO (XO (XO (XI (XO (XO (XI (XI
    (XI (XI XH))))))))))))), ((Zpos (XI (XI (XI (XO (XI (XI (XO (XI (XI
    XH)))))))))) :: ((Zpos (XI (XI (XO (XO (XI (XO (XO (XO (XI
    XH)))))))))) :: []))) :: (((Zpos (XI (XO (XO (XO (XO (XI (XO (XO (XI (XI
    (XI (XI XH))))))))))))), ((Zpos (XI (XI (XI (XO (XI (XI (XO (XI (XI
    XH)))))))))) :: ((Zpos (XO (XO (XI (XO (XI (XO (XO (XO (XI
    XH)))))))))) :: []))) :: (((Zpos (XO (XI (XO (XO (XO (XI (XO (XO (XI (XI
    (XI (XI XH))))))))))))), ((Zpos (XI (XI (XI (XO (XI (XI (XO (XI (XI
    XH)))))))))) :: ((Zpos (XI (XI (XO (XO (XI (XO (XO (XO (XI
    XH)))))))))) :: ((Zpos (XO (XO (XO (XO (XO (XO (XO (XO (XI
    XH)))))))))) :: [])))) :: (((Zpos (XI (XI (XO (XO (XO (XI (XO (XO (XI (XI
    (XI (XI XH))))))))))))), ((Zpos (XI (XI (XI (XO (XI (XI (XO (XI (XI
    XH)))))))))) :: ((Zpos (XO (XO (XI (XO (XI (XO (XO (XO (XI
    XH)))))))))) :: ((Zpos (XO (XO (XO (XO (XO (XO (XO (XO (XI
    XH)))))))))) :: [])))) :: (((Zpos (XO (XO (XI (XO (XO (XI (XO (XO (XI (XI
    (XI (XI XH))))))))))))), ((Zpos (XI (XI (XI (XO (XI (XI (XO (XI (XI
    XH)))))))))) :: ((Zpos (XI (XI (XO (XO (XI (XO (XO (XO (XI
    XH)))))))))) :: ((Zpos (XI (XO (XO (XO (XO (XO (XO (XO (XI
    XH)))))))))) :: [])))) :: (((Zpos (XI (XO (XI (XO (XO (XI (XO (XO (XI (XI
    (XI (XI XH))))))))))))), ((Zpos (XI (XI (XI (XO (XI (XI (XO (XI (XI
    XH)))))))))) :: ((Zpos (XO (XO (XI (XO (XI (XO (XO (XO (XI
    XH)))))))))) :: ((Zpos (XI (XO (XO (XO (XO (XO (XO (XO (XI
    XH)))))))))) :: [])))) :: (((Zpos (XO (XI (XI (XO (XO (XI (XO (XO (XI (XI
    (XI (XI XH))))))))))))), ((Zpos (XI (XI (XI (XO (XI (XI (XO (XI (XI
    XH)))))))))) :: ((Zpos (XI (XI (XO (XO (XI (XO (XO (XO (XI
    XH)))))))))) :: ((Zpos (XO (XI (XO (XO (XO (XO (XI (XO (XI
    XH)))))))))) :: [])))) :: (((Zpos (XI (XI (XI (XO (XO (XI (XO (XO (XI (XI
    (XI (XI XH))))))))))))), ((Zpos (XI (XI (XI (XO (XI (XI (XO (XI (XI
    XH)))))))))) :: ((Zpos (XO (XO (XI (XO (XI (XO (XO (XO (XI
    XH)))))))))) :: ((Zpos (XO (XI (XO (XO (XO (XO (XI (XO (XI
    XH)))))))))) :: [])))) :: (((Zpos (XO (XO (XO (XI (XO (XI (XO (XO (XI (XI
    (XI (XI XH))))))))))))), ((Zpos (XI (XI (XI (XO (XI (XO (XO (XI (XI
    XH)))))))))) :: ((Zpos (XI (XI (XO (XO (XI (XO (XO (XO (XI
    XH)))))))))) :: []))) :: (((Zpos (XI (XO (XO (XI (XO (XI (XO (XO (XI (XI
    (XI (XI XH))))))))))))), ((Zpos (XI (XI (XI (XO (XI (XO (XO (XI (XI
    XH)))))))))) :: ((Zpos (XO (XO (XI (XO (XI (XO (XO (XO (XI
    XH)))))))))) :: []))) :: (((Zpos (XO (XI (XO (XI (XO (XI (XO (XO (XI (XI
    (XI (XI XH))))))))))))), ((Zpos (XI (XI (XI (XO (XI (XO (XO (XI (XI
    XH)))))))))) :: ((Zpos (XI (XI (XO (XO (XI (XO (XO (XO (XI
    XH)))))))))) :: ((Zpos (XO (XO (XO (XO (XO (XO (XO (XO (XI
    XH)))))))))) :: [])))) :: (((Zpos (XI (XI (XO (XI (XO (XI (XO (XO (XI (XI
    (XI (XI XH))))))))))))), ((Zpos (XI (XI (XI (XO (XI (XO (XO (XI (XI
    XH)))))))))) :: ((Zpos (XO (XO (XI (XO (XI (XO (XO (XO (XI
    XH)))))))))) :: ((Zpos (XO (XO (XO (XO (XO (XO (XO (XO (XI
    XH)))))))))) :: [])))) :: (((Zpos (XO (XO (XI (XI (XO (XI (XO (XO (XI (XI
    (XI (XI XH))))))))))))), ((Zpos (XI (XI (XI (XO (XI (XO (XO (XI (XI
    XH)))))))))) :: ((Zpos (XI (XI (XO (XO (XI (XO (XO (XO (XI
    XH)))))))))) :: ((Zpos (XI (XO (XO (XO (XO (XO (XO (XO (XI
    XH)))))))))) :: [])))) :: (((Zpos (XI (XO (XI (XI (XO (XI (XO (XO (XI (XI
    (XI (XI XH))))))))))))), ((Zpos (XI (XI (XI (XO (XI (XO (XO (XI (XI
    XH)))))))))) :: ((Zpos (XO (XO (XI (XO (XI (XO (XO (XO (XI
    XH)))))))))) :: ((Zpos (XI (XO (XO (XO (XO (XO (XO (XO (XI
    XH)))))))))) :: [])))) :: (((Zpos (XO (XI (XI (XI (XO (XI (XO (XO (XI (XI
    (XI (XI XH))))))))))))), ((Zpos (XI (XI (XI (XO (XI (XO (XO (XI (XI
    XH)))))))))) :: ((Zpos (XI (XI (XO (XO (XI (XO (XO (XO (XI
    XH)))))))))) :: ((Zpos (XO (XI (XO (XO (XO (XO (XI (XO (XI
    XH)))))))))) :: [])))) :: (((Zpos (XI (XI (XI (XI (XO (XI (XO (XO (XI (XI
    (XI (XI XH))))))))))))), ((Zpos (XI (XI (XI (XO (XI (XO (XO (XI (XI
    XH)))))))))) :: ((Zpos (XO (XO (XI (XO (XI (XO (XO (XO (XI
    XH)))))))))) :: ((Zpos (XO (XI (XO (XO (XO (XO (XI (XO (XI
    XH)))))))))) :: [])))) :: (((Zpos (XO (XO (XO (XO (XI (XI (XO (XO (XI (XI
    (XI (XI XH))))))))))))), ((Zpos (XI (XO (XO (XI (XI (XI (XO (XI (XI
    XH)))))))))) :: ((Zpos (XI (XI (XO (XO (XI (XO (XO (XO (XI
    XH)))))))))) :: []))) :: (((Zpos (XI (XO (XO (XO (XI (XI (XO (XO (XI (XI
    (XI (XI XH))))))))))))), ((Zpos (XI (XO (XO (XI (XI (XI (XO (XI (XI
    XH)))))))))) :: ((Zpos (XO (XO (XI (XO (XI (XO (XO (XO (XI
    XH)))))))))) :: []))) :: (((Zpos (XO (XI (XO (XO (XI (XI (XO (XO (XI (XI
    (XI (XI XH))))))))))))), ((Zpos (XI (XO (XO (XI (XI (XI (XO (XI (XI
    XH)))))))))) :: ((Zpos (XI (XI (XO (XO (XI (XO (XO (XO (XI
    XH)))))))))) :: ((Zpos (XO (XO (XO (XO (XO (XO (XO (XO (XI
    XH)))))))))) :: [])))) :: (((Zpos (XI (XI (XO (XO (XI (XI (XO (XO (XI (XI
    (XI (XI XH))))))))))))), ((Zpos (XI (XO (XO (XI (XI (XI (XO (XI (XI
    XH)))))))))) :: ((Zpos (XO (XO (XI (XO (XI (XO (XO (XO (XI
    XH)))))))))) :: ((Zpos (XO (XO (XO (XO (XO (XO (XO (XO (XI
    XH)))))))))) :: [])))) :: (((Zpos (XO (XO (XI (XO (XI (XI (XO (XO (XI (XI
    (XI (XI XH))))))))))))), ((Zpos (XI (XO (XO (XI (XI (XI (XO (XI (XI
    XH)))))))))) :: ((Zpos (XI (XI (XO (XO (XI (XO (XO (XO (XI
    XH)))))))))) :: ((Zpos (XI (XO (XO (XO (XO (XO (XO (XO (XI
    XH)))))))))) :: [])))) :: (((Zpos (XI (XO (XI (XO (XI (XI (XO (XO (XI (XI
    (XI (XI XH))))))))))))), ((Zpos (XI (XO (XO (XI (XI (XI (XO (XI (XI
    XH)))))))))) :: ((Zpos (XO (XO (XI (XO (XI (XO (XO (XO (XI
    XH)))))))))) :: ((Zpos (XI (XO (XO (XO (XO (XO (XO (XO (XI
    XH)))))))))) :: [])))) :: (((Zpos (XO (XI (XI (XO (XI (XI (XO (XO (XI (XI
    (XI (XI XH))))))))))))), ((Zpos (XI (XO (XO (XI (XI (XI (XO (XI (XI
    XH)))))))))) :: ((Zpos (XI (XI (XO (XO (XI (XO (XO (XO (XI
    XH)))))))))) :: ((Zpos (XO (XI (XO (XO (XO (XO (XI (XO (XI
    XH)))))))))) :: [])))) :: (((Zpos (XI (XI (XI (XO (XI (XI (XO (XO (XI (XI
    (XI (XI XH))))))))))))), ((Zpos (XI (XO (XO (XI (XI (XI (XO (XI (XI
    XH)))))))))) :: ((Zpos (XO (XO (XI (XO (XI (XO (XO (XO (XI
    XH)))))))))) :: ((Zpos (XO (XI (XO (XO (XO (XO (XI (XO (XI
    XH)))))))))) :: [])))) :: (((Zpos (XO (XO (XO (XI (XI (XI (XO (XO (XI (XI
    (XI (XI XH))))))))))))), ((Zpos (XI (XO (XO (XI (XI (XO (XO (XI (XI
    XH)))))))))) :: ((Zpos (XI (XI (XO (XO (XI (XO (XO (XO (XI
    XH)))))))))) :: []))) :: (((Zpos (XI (XO (XO (XI (XI (XI (XO (XO (XI (XI
    (XI (XI XH))))))))))))), ((Zpos (XI (XO (XO (XI (XI (XO (XO (XI (XI
    XH)))))))))) :: ((Zpos (XO (XO (XI (XO (XI (XO (XO (XO (XI
    XH)))))))))) :: []))) :: (((Zpos (XO (XI (XO (XI (XI (XI (XO (XO (XI (XI
    (XI (XI XH))))))))))))), ((Zpos (XI (XO (XO (XI (XI (XO (XO (XI (XI
    XH)))))))))) :: ((Zpos (XI (XI (XO (XO (XI (XO (XO (XO (XI
    XH)))))))))) :: ((Zpos (XO (XO (XO (XO (XO (XO (XO (XO (XI
    XH)))))))))) :: [])))) :: (((Zpos (XI (XI (XO (XI (XI (XI (XO (XO (XI (XI
    (XI (XI XH))))))))))))), ((Zpos (XI (XO (XO (XI (XI (XO (XO (XI (XI
    XH)))))))))) :: ((Zpos (XO (XO (XI (XO (XI (XO (XO (XO (XI
    XH)))))))))) :: ((Zpos (XO (XO (XO (XO (XO (XO (XO (XO (XI
    XH)))))))))) :: [])))) :: (((Zpos (XO (XO (XI (XI (XI (XI (XO (XO (XI (XI
    (XI (XI XH))))))))))))), ((Zpos (XI (XO (XO (XI (XI (XO (XO (XI (XI
    XH)))))))))) :: ((Zpos (XI (XI (XO (XO (XI (XO (XO (XO (XI
    XH)))))))))) :: ((Zpos (XI (XO (XO (XO (XO (XO (XO (XO (XI
    XH)))))))))) :: [])))) :: (((Zpos (XI (XO (XI (XI (XI (XI (XO (XO (XI (XI
    (XI (XI XH))))))))))))), ((Zpos (XI (XO (XO (XI (XI (XO (XO (XI (XI
    XH)))))))))) :: ((Zpos (XO (XO (XI (XO (XI (XO (XO (XO (XI
    XH)))))))))) :: ((Zpos (XI (XO (XO (XO (XO (XO (XO (XO (XI
    XH)))))))))) :: [])))) :: (((Zpos (XO (XI (XI (XI (XI (XI (XO (XO (XI (XI
    (XI (XI XH))))))))))))), ((Zpos (XI (XO (XO (XI (XI (XO (XO (XI (XI
    XH)))))))))) :: ((Zpos (XI (XI (XO (XO (XI (XO (XO (XO (XI
    XH)))))))))) :: ((Zpos (XO (XI (XO (XO (XO (XO (XI (XO (XI
    XH)))))))))) :: [])))) :: (((Zpos (XI (XI (XI (XI (XI (XI (XO (XO (XI (XI
    (XI (XI XH))))))))))))), ((Zpos (XI (XO (XO (XI (XI (XO (XO (XI (XI
    XH)))))))))) :: ((Zpos (XO (XO (XI (XO (XI (XO (XO (XO (XI
    XH)))))))))) :: ((Zpos (XO (XI (XO (XO (XO (XO (XI (XO (XI
    XH)))))))))) :: [])))) :: (((Zpos (XO (XO (XO (XO (XO (XO (XI (XO (XI (XI
    (XI (XI XH))))))))))))), ((Zpos (XI (XI (XI (XI (XI (XI (XO (XI (XI
    XH)))))))))) :: ((Zpos (XI (XI (XO (XO (XI (XO (XO (XO (XI
    XH)))))))))) :: []))) :: (((Zpos (XI (XO (XO (XO (XO (XO (XI (XO (XI (XI
    (XI (XI XH))))))))))))), ((Zpos (XI (XI (XI (XI (XI (XI (XO (XI (XI
    XH)))))))))) :: ((Zpos (XO (XO (XI (XO (XI (XO (XO (XO (XI
    XH)))))))))) :: []))) :: (((Zpos (XO (XI (XO (XO (XO (XO (XI (XO (XI (XI
    (XI (XI XH))))))))))))), ((Zpos (XI (XI (XI (XI (XI (XI (XO (XI (XI
    XH)))))))))) :: ((Zpos (XI (XI (XO (XO (XI (XO (XO (XO (XI
    XH)))))))))) :: ((Zpos (XO (XO (XO (XO (XO (XO (XO (XO (XI
    XH)))))))))) :: [])))) :: (((Zpos (XI (XI (XO (XO (XO (XO (XI (XO (XI (XI
    (XI (XI XH))))))))))))), ((Zpos (XI (XI (XI (XI (XI (XI (XO (XI (XI
    XH)))))))))) :: ((Zpos (XO (XO (XI (XO (XI (XO (XO (XO (XI
    XH)))))))))) :: ((Zpos (XO (XO (XO (XO (XO (XO (XO (XO (XI
    XH)))))))))) :: [])))) :: (((Zpos (XO (XO (XI (XO (XO (XO (XI (XO (XI (XI
    (XI (XI XH))))))))))))), ((Zpos (XI (XI (XI (XI (XI (XI (XO (XI (XI
    XH)))))))))) :: ((Zpos (XI (XI (XO (XO (XI (XO (XO (XO (XI
    XH)))))))))) :: ((Zpos (XI (XO (XO (XO (XO (XO (XO (XO (XI
    XH)))))))))) :: [])))) :: (((Zpos (XI (XO (XI (XO (XO (XO (XI (XO (XI (XI
    (XI (XI XH))))))))))))), ((Zpos (XI (XI (XI (XI (XI (XI (XO (XI (XI
    XH)))))))))) :: ((Zpos (XO (XO (XI (XO (XI (XO (XO (XO (XI
    XH)))))))))) :: ((Zpos (XI (XO (XO (XO (XO (XO (XO (XO (XI
    XH)))))))))) :: [])))) :: (((Zpos (XO (XO (XO (XI (XO (XO (XI (XO (XI (XI
    (XI (XI XH))))))))))))), ((Zpos (XI (XI (XI (XI (XI (XO (XO (XI (XI
    XH)))))))))) :: ((Zpos (XI (XI (XO (XO (XI (XO (XO (XO (XI
    XH)))))))))) :: []))) :: (((Zpos (XI (XO (XO (XI (XO (XO (XI (XO (XI (XI
    (XI (XI XH))))))))))))), ((Zpos (XI (XI (XI (XI (XI (XO (XO (XI (XI
    XH)))))))))) :: ((Zpos (XO (XO (XI (XO (XI (XO (XO (XO (XI
    XH)))))))))) :: []))) :: (((Zpos (XO (XI (XO (XI (XO (XO (XI (XO (XI (XI
    (XI (XI XH))))))))))))), ((Zpos (XI (XI (XI (XI (XI (XO (XO (XI (XI
    XH)))))))))) :: ((Zpos (XI (XI (XO (XO (XI (XO (XO (XO (XI
    XH)))))))))) :: ((Zpos (XO (XO (XO (XO (XO (XO (XO (XO (XI
    XH)))))))))) :: [])))) :: (((Zpos (XI (XI (XO (XI (XO (XO (XI (XO (XI (XI
    (XI (XI XH))))))))))))), ((Zpos (XI (XI (XI (XI (XI (XO (XO (XI (XI
    XH)))))))))) :: ((Zpos (XO (XO (XI (XO (XI (XO (XO (XO (XI
    XH)))))))))) :: ((Zpos (XO (XO (XO (XO (XO (XO (XO (XO (XI
    XH)))))))))) :: [])))) :: (((Zpos (XO (XO (XI (XI (XO (XO (XI (XO (XI (XI
    (XI (XI XH))))))))))))), ((Zpos (XI (XI (XI (XI (XI (XO (XO (XI (XI
    XH)))))))))) :: ((Zpos (XI (XI (XO (XO (XI (XO (XO (XO (XI
    XH)))))))))) :: ((Zpos (XI (XO (XO (XO (XO (XO (XO (XO (XI
    XH)))))))))) :: [])))) :: (((Zpos (XI (XO (XI (XI (XO (XO (XI (XO (XI (XI
    (XI (XI XH))))))))))))), ((Zpos (XI (XI (XI (XI (XI (XO (XO (XI (XI
    XH)))))))))) :: ((Zpos (XO (XO (XI (XO (XI (XO (XO (XO (XI
    XH)))))))))) :: ((Zpos (XI (XO (XO (XO (XO (XO (XO (XO (XI
    XH)))))))))) :: [])))) :: (((Zpos (XO (XO (XO (XO (XI (XO (XI (XO (XI (XI
    (XI (XI XH))))))))))))), ((Zpos (XI (XO (XI (XO (XO (XO (XI (XI (XI
    XH)))))))))) :: ((Zpos (XI (XI (XO (XO (XI (XO (XO (XO (XI
    XH)))))))))) :: []))) :: (((Zpos (XI (XO (XO (XO (XI (XO (XI (XO (XI (XI
    (XI (XI XH))))))))))))), ((Zpos (XI (XO (XI (XO (XO (XO (XI (XI (XI
    XH)))))))))) :: ((Zpos (XO (XO (XI (XO (XI (XO (XO (XO (XI
    XH)))))))))) :: []))) :: (((Zpos (XO (XI (XO (XO (XI (XO (XI (XO (XI (XI
    (XI (XI XH))))))))))))), ((Zpos (XI (XO (XI (XO (XO (XO (XI (XI (XI
    XH)))))))))) :: ((Zpos (XI (XI (XO (XO (XI (XO (XO (XO (XI
    XH)))))))))) :: ((Zpos (XO (XO (XO (XO (XO (XO (XO (XO (XI
    XH)))))))))) :: [])))) :: (((Zpos (XI (XI (XO (XO (XI (XO (XI (XO (XI (XI
    (XI (XI XH))))))))))))), ((Zpos (XI (XO (XI (XO (XO (XO (XI (XI (XI
    XH)))))))))) :: ((Zpos (XO (XO (XI (XO (XI (XO (XO (XO (XI
    XH)))))))))) :: ((Zpos (XO (XO (XO (XO (XO (XO (XO (XO (XI
    XH)))))))))) :: [])))) :: (((Zpos (XO (XO (XI (XO (XI (XO (XI (XO (XI (XI
    (XI (XI XH))))))))))))), ((Zpos (XI (XO (XI (XO (XO (XO (XI (XI (XI
    XH)))))))))) :: ((Zpos (XI (XI (XO (XO (XI (XO (XO (XO (XI
    XH)))))))))) :: ((Zpos (XI (XO (XO (XO (XO (XO (XO (XO (XI
    XH)))))))))) :: [])))) :: (((Zpos (XI (XO (XI (XO (XI (XO (XI (XO (XI (XI
    (XI (XI XH))))))))))))), ((Zpos (XI (XO (XI (XO (XO (XO (XI (XI (XI
    XH)))))))))) :: ((Zpos (XO (XO (XI (XO (XI (XO (XO (XO (XI
    XH)))))))))) :: ((Zpos (XI (XO (XO (XO (XO (XO (XO (XO (XI
    XH)))))))))) :: [])))) :: (((Zpos (XO (XI (XI (XO (XI (XO (XI (XO (XI (XI
    (XI (XI XH))))))))))))), ((Zpos (XI (XO (XI (XO (XO (XO (XI (XI (XI
    XH)))))))))) :: ((Zpos (XI (XI (XO (XO (XI (XO (XO (XO (XI
    XH)))))))))) :: ((Zpos (XO (XI (XO (XO (XO (XO (XI (XO (XI
    XH)))))))))) :: [])))) :: (((Zpos (XI (XI (XI (XO (XI (XO (XI (XO (XI (XI
    (XI (XI XH))))))))))))), ((Zpos (XI (XO (XI (XO (XO (XO (XI (XI (XI
    XH)))))))))) :: ((Zpos (XO (XO (XI (XO (XI (XO (XO (XO (XI
    XH)))))))))) :: ((Zpos (XO (XI (XO (XO (XO (XO (XI (XO (XI
    XH)))))))))) :: [])))) :: (((Zpos (XI (XO (XO (XI (XI (XO (XI (XO (XI (XI
    (XI (XI XH))))))))))))), ((Zpos (XI (XO (XI (XO (XO (XI (XO (XI (XI
    XH)))))))))) :: ((Zpos (XO (XO (XI (XO (XI (XO (XO (XO (XI
    XH)))))))))) :: []))) :: (((Zpos (XI (XI (XO (XI (XI (XO (XI (XO (XI (XI
    (XI (XI XH))))))))))))), ((Zpos (XI (XO (XI (XO (XO (XI (XO (XI (XI
    XH)))))))))) :: ((Zpos (XO (XO (XI (XO (XI (XO (XO (XO (XI
    XH)))))))))) :: ((Zpos (XO (XO (XO (XO (XO (XO (XO (XO (XI
    XH)))))))))) :: [])))) :: (((Zpos (XI (XO (XI (XI (XI (XO (XI (XO (XI (XI
    (XI (XI XH))))))))))))), ((Zpos (XI (XO (XI (XO (XO (XI (XO (XI (XI
    XH)))))))))) :: ((Zpos (XO (XO (XI (XO (XI (XO (XO (XO (XI
    XH)))))))))) :: ((Zpos (XI (XO (XO (XO (XO (XO (XO (XO (XI
    XH)))))))))) :: [])))) :: (((Zpos (XI (XI (XI (XI (XI (XO (XI (XO (XI (XI
    (XI (XI XH))))))))))))), ((Zpos (XI (XO (XI (XO (XO (XI (XO (XI (XI
    XH)))))))))) :: ((Zpos (XO (XO (XI (XO (XI (XO (XO (XO (XI
    XH)))))))))) :: ((Zpos (XO (XI (XO (XO (XO (XO (XI (XO (XI
    XH)))))))))) :: [])))) :: (((Zpos (XO (XO (XO (XO (XO (XI (XI (XO (XI (XI
    (XI (XI XH))))))))))))), ((Zpos (XI (XO (XO (XI (XO (XO (XI (XI (XI
    XH)))))))))) :: ((Zpos (XI (XI (XO (XO (XI (XO (XO (XO (XI
    XH)))))))))) :: []))) :: (((Zpos (XI (XO (XO (XO (XO (XI (XI (XO (XI (XI
    (XI (XI XH))))))))))))), ((Zpos (XI (XO (XO (XI (XO (XO (XI (XI (XI
    XH)))))))))) :: ((Zpos (XO (XO (XI (XO (XI (XO (XO (XO (XI
    XH)))))))))) :: []))) :: (((Zpos (XO (XI (XO (XO (XO (XI (XI (XO (XI (XI
    (XI (XI XH))))))))))))), ((Zpos (XI (XO (XO (XI (XO (XO (XI (XI (XI
    XH)))))))))) :: ((Zpos (XI (XI (XO (XO (XI (XO (XO (XO (XI
    XH)))))))))) :: ((Zpos (XO (XO (XO (XO (XO (XO (XO (XO (XI
    XH)))))))))) :: [])))) :: (((Zpos (XI (XI (XO (XO (XO (XI (XI (XO (XI (XI
    (XI (XI XH))))))))))))), ((Zpos (XI (XO (XO (XI (XO (XO (XI (XI (XI
    XH)))))))))) :: ((Zpos (XO (XO (XI (XO (XI (XO (XO (XO (XI
    XH)))))))))) :: ((Zpos (XO (XO (XO (XO (XO (XO (XO (XO (XI
    XH)))))))))) :: [])))) :: (((Zpos (XO (XO (XI (XO (XO (XI (XI (XO (XI (XI
    (XI (XI XH))))))))))))), ((Zpos (XI (XO (XO (XI (XO (XO (XI (XI (XI
    XH)))))))))) :: ((Zpos (XI (XI (XO (XO (XI (XO (XO (XO (XI
    XH)))))))))) :: ((Zpos (XI (XO (XO (XO (XO (XO (XO (XO (XI
    XH)))))))))) :: [])))) :: (((Zpos (XI (XO (XI (XO (XO (XI (XI (XO (XI (XI
    (XI (XI XH))))))))))))), ((Zpos (XI (XO (XO (XI (XO (XO (XI (XI (XI
    XH)))))))))) :: ((Zpos (XO (XO (XI (XO (XI (XO (XO (XO (XI
    XH)))))))))) :: ((Zpos (XI (XO (XO (XO (XO (XO (XO (XO (XI
    XH)))))))))) :: [])))) :: (((Zpos (XO (XI (XI (XO (XO (XI (XI (XO (XI (XI
    (XI (XI XH))))))))))))), ((Zpos (XI (XO (XO (XI (XO (XO (XI (XI (XI
    XH)))))))))) :: ((Zpos (XI (XI (XO (XO (XI (XO (XO (XO (XI
    XH)))))))))) :: ((Zpos (XO (XI (XO (XO (XO (XO (XI (XO (XI
    XH)))))))))) :: [])))) :: (((Zpos (XI (XI (XI (XO (XO (XI (XI (XO (XI (XI
    (XI (XI XH))))))))))))), ((Zpos (XI (XO (XO (XI (XO (XO (XI (XI (XI
    XH)))))))))) :: ((Zpos (XO (XO (XI (XO (XI (XO (XO (XO (XI
    XH)))))))))) :: ((Zpos (XO (XI (XO (XO (XO (XO (XI (XO (XI
    XH)))))))))) :: [])))) :: (((Zpos (XO (XO (XO (XI (XO (XI (XI (XO (XI (XI
    (XI (XI XH))))))))))))), ((Zpos (XI (XO (XO (XI (XO (XI (XO (XI (XI
    XH)))))))))) :: ((Zpos (XI (XI (XO (XO (XI (XO (XO (XO (XI
    XH)))))))))) :: []))) :: (((Zpos (XI (XO (XO (XI (XO (XI (XI (XO (XI (XI
    (XI (XI XH))))))))))))), ((Zpos (XI (XO (XO (XI (XO (XI (XO (XI (XI
    XH)))))))))) :: ((Zpos (XO (XO (XI (XO (XI (XO (XO (XO (XI
    XH)))))))))) :: []))) :: (((Zpos (XO (XI (XO (XI (XO (XI (XI (XO (XI (XI
    (XI (XI XH))))))))))))), ((Zpos (XI (XO (XO (XI (XO (XI (XO (XI (XI
    XH)))))))))) :: ((Zpos (XI (XI (XO (XO (XI (XO (XO (XO (XI
    XH)))))))))) :: ((Zpos (XO (XO (XO (XO (XO (XO (XO (XO (XI
    XH)))))))))) :: [])))) :: (((Zpos (XI (XI (XO (XI (XO (XI (XI (XO (XI (XI
    (XI (XI XH))))))))))))), ((Zpos (XI (XO (XO (XI (XO (XI (XO (XI (XI
    XH)))))))))) :: ((Zpos (XO (XO (XI (XO (XI (XO (XO (XO (XI
    XH)))))))))) :: ((Zpos (XO (XO (XO (XO (XO (XO (XO (XO (XI
    XH)))))))))) :: [])))) :: (((Zpos (XO (XO (XI (XI (XO (XI (XI (XO (XI (XI
    (XI (XI XH))))))))))))), ((Zpos (XI (XO (XO (XI (XO (XI (XO (XI (XI
    XH)))))))))) :: ((Zpos (XI (XI (XO (XO (XI (XO (XO (XO (XI
    XH)))))))))) :: ((Zpos (XI (XO (XO (XO (XO (XO (XO (XO (XI
    XH)))))))))) :: [])))) :: (((Zpos (XI (XO (XI (XI (XO (XI (XI (XO (XI (XI
    (XI (XI XH))))))))))))), ((Zpos (XI (XO (XO (XI (XO (XI (XO (XI (XI
    XH)))))))))) :: ((Zpos (XO (XO (XI (XO (XI (XO (XO (XO (XI
    XH)))))))))) :: ((Zpos (XI (XO (XO (XO (XO (XO (XO (XO (XI
    XH)))))))))) :: [])))) :: (((Zpos (XO (XI (XI (XI (XO (XI (XI (XO (XI (XI
    (XI (XI XH))))))))))))), ((Zpos (XI (XO (XO (XI (XO (XI (XO (XI (XI
    XH)))))))))) :: ((Zpos (XI (XI (XO (XO (XI (XO (XO (XO (XI
    XH)))))))))) :: ((Zpos (XO (XI (XO (XO (XO (XO (XI (XO (XI
    XH)))))))))) :: [])))) :: (((Zpos (XI (XI (XI (XI (XO (XI (XI (XO (XI (XI
    (XI (XI XH))))))))))))), ((Zpos (XI (XO (XO (XI (XO (XI (XO (XI (XI
    XH)))))))))) :: ((Zpos (XO (XO (XI (XO (XI (XO (XO (XO (XI
    XH)))))))))) :: ((Zpos (XO (XI (XO (XO (XO (XO (XI (XO (XI
    XH)))))))))) :: [])))) :: (((Zpos (XO (XO (XO (XO (XI (XI (XI (XO (XI (XI
    (XI (XI XH))))))))))))), ((Zpos (XI (XO (XO (XO (XI (XI (XO (XI (XI
    XH)))))))))) :: ((Zpos (XO (XO (XO (XO (XO (XO (XO (XO (XI
    XH)))))))))) :: []))) :: (((Zpos (XI (XO (XO (XO (XI (XI (XI (XO (XI (XI
    (XI (XI XH))))))))))))), ((Zpos (XI (XO (XO (XO (XI (XI (XO (XI (XI
    XH)))))))))) :: ((Zpos (XI (XO (XO (XO (XO (XO (XO (XO (XI
    XH)))))))))) :: []))) :: (((Zpos (XO (XI (XO (XO (XI (XI (XI (XO (XI (XI
    (XI (XI XH))))))))))))), ((Zpos (XI (XO (XI (XO (XI (XI (XO (XI (XI
    XH)))))))))) :: ((Zpos (XO (XO (XO (XO (XO (XO (XO (XO (XI
    XH)))))))))) :: []))) :: (((Zpos (XI (XI (XO (XO (XI (XI (XI (XO (XI (XI
    (XI (XI XH))))))))))))), ((Zpos (XI (XO (XI (XO (XI (XI (XO (XI (XI
    XH)))))))))) :: ((Zpos (XI (XO (XO (XO (XO (XO (XO (XO (XI
    XH)))))))))) :: []))) :: (((Zpos (XO (XO (XI (XO (XI (XI (XI (XO (XI (XI
    (XI (XI XH))))))))))))), ((Zpos (XI (XI (XI (XO (XI (XI (XO (XI (XI
    XH)))))))))) :: ((Zpos (XO (XO (XO (XO (XO (XO (XO (XO (XI
    XH)))))))))) :: []))) :: (((Zpos (XI (XO (XI (XO (XI (XI (XI (XO (XI (XI
    (XI (XI XH))))))))))))), ((Zpos (XI (XI (XI (XO (XI (XI (XO (XI (XI
    XH)))))))))) :: ((Zpos (XI (XO (XO (XO (XO (XO (XO (XO (XI
    XH)))))))))) :: []))) :: (((Zpos (XO (XI (XI (XO (XI (XI (XI (XO (XI (XI
    (XI (XI XH))))))))))))), ((Zpos (XI (XO (XO (XI (XI (XI (XO (XI (XI
    XH)))))))))) :: ((Zpos (XO (XO (XO (XO (XO (XO (XO (XO (XI
    XH)))))))))) :: []))) :: (((Zpos (XI (XI (XI (XO (XI (XI (XI (XO (XI (XI
    (XI (XI XH))))))))))))), ((Zpos (XI (XO (XO (XI (XI (XI (XO (XI (XI
    XH)))))))))) :: ((Zpos (XI (XO (XO (XO (XO (XO (XO (XO (XI
    XH)))))))))) :: []))) :: (((Zpos (XO (XO (XO (XI (XI (XI (XI (XO (XI (XI
    (XI (XI XH))))))))))))), ((Zpos (XI (XI (XI (XI (XI (XI (XO (XI (XI
    XH)))))))))) :: ((Zpos (XO (XO (XO (XO (XO (XO (XO (XO (XI
    XH)))))))))) :: []))) :: (((Zpos (XI (XO (XO (XI (XI (XI (XI (XO (XI (XI
    (XI (XI XH))))))))))))), ((Zpos (XI (XI (XI (XI (XI (XI (XO (XI (XI
    XH)))))))))) :: ((Zpos (XI (XO (XO (XO (XO (XO (XO (XO (XI
    XH)))))))))) :: []))) :: (((Zpos (XO (XI (XO (XI (XI (XI (XI (XO (XI (XI
    (XI (XI XH))))))))))))), ((Zpos (XI (XO (XI (XO (XO (XO (XI (XI (XI
    XH)))))))))) :: ((Zpos (XO (XO (XO (XO (XO (XO (XO (XO (XI
    XH)))))))))) :: []))) :: (((Zpos (XI (XI (XO (XI (XI (XI (XI (XO (XI (XI
    (XI (XI XH))))))))))))), ((Zpos (XI (XO (XI (XO (XO (XO (XI (XI (XI
    XH)))))))))) :: ((Zpos (XI (XO (XO (XO (XO (XO (XO (XO (XI
    XH)))))))))) :: []))) :: (((Zpos (XO (XO (XI (XI (XI (XI (XI (XO (XI (XI
    (XI (XI XH))))))))))))), ((Zpos (XI (XO (XO (XI (XO (XO (XI (XI (XI
    XH)))))))))) :: ((Zpos (XO (XO (XO (XO (XO (XO (XO (XO (XI
    XH)))))))))) :: []))) :: (((Zpos (XI (XO (XI (XI (XI (XI (XI (XO (XI (XI
    (XI (XI XH))))))))))))), ((Zpos (XI (XO (XO (XI (XO (XO (XI (XI (XI
    XH)))))))))) :: ((Zpos (XI (XO (XO (XO (XO (XO (XO (XO (XI
    XH)))))))))) :: []))) :: (((Zpos (XO (XO (XO (XO (XO (XO (XO (XI (XI (XI
    (XI (XI XH))))))))))))), ((Zpos (XI (XO (XO (XO (XI (XI (XO (XI (XI
    XH)))))))))) :: ((Zpos (XI (XI (XO (XO (XI (XO (XO (XO (XI
    XH)))))))))) :: ((Zpos (XI (XO (XI (XO (XO (XO (XI (XO (XI
    XH)))))))))) :: [])))) :: (((Zpos (XI (XO (XO (XO (XO (XO (XO (XI (XI (XI
    (XI (XI XH))))))))))))), ((Zpos (XI (XO (XO (XO (XI (XI (XO (XI (XI
    XH)))))))))) :: ((Zpos (XO (XO (XI (XO (XI (XO (XO (XO (XI
    XH)))))))))) :: ((Zpos (XI (XO (XI (XO (XO (XO (XI (XO (XI
    XH)))))))))) :: [])))) :: (((Zpos (XO (XI (XO (XO (XO (XO (XO (XI (XI (XI
    (XI (XI XH))))))))))))), ((Zpos (XI (XO (XO (XO (XI (XI (XO (XI (XI
    XH)))))))))) :: ((Zpos (XI (XI (XO (XO (XI (XO (XO (XO (XI
    XH)))))))))) :: ((Zpos (XO (XO (XO (XO (XO (XO (XO (XO (XI
    XH)))))))))) :: ((Zpos (XI (XO (XI (XO (XO (XO (XI (XO (XI
    XH)))))))))) :: []))))) :: (((Zpos (XI (XI (XO (XO (XO (XO (XO (XI (XI
    (XI (XI (XI XH))))))))))))), ((Zpos (XI (XO (XO (XO (XI (XI (XO (XI (XI
    XH)))))))))) :: ((Zpos (XO (XO (XI (XO (XI (XO (XO (XO (XI
    XH)))))))))) :: ((Zpos (XO (XO (XO (XO (XO (XO (XO (XO (XI
    XH)))))))))) :: ((Zpos (XI (XO (XI (XO (XO (XO (XI (XO (XI
    XH)))))))))) :: []))))) :: (((Zpos (XO (XO (XI (XO (XO (XO (XO (XI (XI
    (XI (XI (XI XH))))))))))))), ((Zpos (XI (XO (XO (XO (XI (XI (XO (XI (XI
    XH)))))))))) :: ((Zpos (XI (XI (XO (XO (XI (XO (XO (XO (XI
    XH)))))))))) :: ((Zpos (XI (XO (XO (XO (XO (XO (XO (XO (XI
    XH)))))))))) :: ((Zpos (XI (XO (XI (XO (XO (XO (XI (XO (XI
    XH)))))))))) :: []))))) :: (((Zpos (XI (XO (XI (XO (XO (XO (XO (XI (XI
    (XI (XI (XI XH))))))))))))), ((Zpos (XI (XO (XO (XO (XI (XI (XO (XI (XI
    XH)))))))))) :: ((Zpos (XO (XO (XI (XO (XI (XO (XO (XO (XI
    XH)))))))))) :: ((Zpos (XI (XO (XO (XO (XO (XO (XO (XO (XI
    XH)))))))))) :: ((Zpos (XI (XO (XI (XO (XO (XO (XI (XO (XI
    XH)))))))))) :: []))))) :: (((Zpos (XO (XI (XI (XO (XO (XO (XO (XI (XI
    (XI (XI (XI XH))))))))))))), ((Zpos (XI (XO (XO (XO (XI (XI (XO (XI (XI
    XH)))))))))) :: ((Zpos (XI (XI (XO (XO (XI (XO (XO (XO (XI
    XH)))))))))) :: ((Zpos (XO (XI (XO (XO (XO (XO (XI (XO (XI
    XH)))))))))) :: ((Zpos (XI (XO (XI (XO (XO (XO (XI (XO (XI
    XH)))))))))) :: []))))) :: (((Zpos (XI (XI (XI (XO (XO (XO (XO (XI (XI
    (XI (XI (XI XH))))))))))))), ((Zpos (XI (XO (XO (XO (XI (XI (XO (XI (XI
    XH)))))))))) :: ((Zpos (XO (XO (XI (XO (XI (XO (XO (XO (XI
    XH)))))))))) :: ((Zpos (XO (XI (XO (XO (XO (XO (XI (XO (XI
    XH)))))))))) :: ((Zpos (XI (XO (XI (XO (XO (XO (XI (XO (XI
    XH)))))))))) :: []))))) :: (((Zpos (XO (XO (XO (XI (XO (XO (XO (XI (XI
    (XI (XI (XI XH))))))))))))), ((Zpos (XI (XO (XO (XO (XI (XO (XO (XI (XI
    XH)))))))))) :: ((Zpos (XI (XI (XO (XO (XI (XO (XO (XO (XI
    XH)))))))))) :: ((Zpos (XI (XO (XI (XO (XO (XO (XI (XO (XI
    XH)))))))))) :: [])))) :: (((Zpos (XI (XO (XO (XI (XO (XO (XO (XI (XI (XI
    (XI (XI XH))))))))))))), ((Zpos (XI (XO (XO (XO (XI (XO (XO (XI (XI
    XH)))))))))) :: ((Zpos (XO (XO (XI (XO (XI (XO (XO (XO (XI
    XH)))))))))) :: ((Zpos (XI (XO (XI (XO (XO (XO (XI (XO (XI
    XH)))))))))) :: [])))) :: (((Zpos (XO (XI (XO (XI (XO (XO (XO (XI (XI (XI
    (XI (XI XH))))))))))))), ((Zpos (XI (XO (XO (XO (XI (XO (XO (XI (XI
    XH)))))))))) :: ((Zpos (XI (XI (XO (XO (XI (XO (XO (XO (XI
    XH)))))))))) :: ((Zpos (XO (XO (XO (XO (XO (XO (XO (XO (XI
    XH)))))))))) :: ((Zpos (XI (XO (XI (XO (XO (XO (XI (XO (XI
    XH)))))))))) :: []))))) :: (((Zpos (XI (XI (XO (XI (XO (XO (XO (XI (XI
    (XI (XI (XI XH))))))))))))), ((Zpos (XI (XO (XO (XO (XI (XO (XO (XI (XI
    XH)))))))))) :: ((Zpos (XO (XO (XI (XO (XI (XO (XO (XO (XI
    XH)))))))))) :: ((Zpos (XO (XO (XO (XO (XO (XO (XO (XO (XI
    XH)))))))))) :: ((Zpos (XI (XO (XI (XO (XO (XO (XI (XO (XI
    XH)))))))))) :: []))))) :: (((Zpos (XO (XO (XI (XI (XO (XO (XO (XI (XI
    (XI (XI (XI XH))))))))))))), ((Zpos (XI (XO (XO (XO (XI (XO (XO (XI (XI
    XH)))))))))) :: ((Zpos (XI (XI (XO (XO (XI (XO (XO (XO (XI
    XH)))))))))) :: ((Zpos (XI (XO (XO (XO (XO (XO (XO (XO (XI
    XH)))))))))) :: ((Zpos (XI (XO (XI (XO (XO (XO (XI (XO (XI
    XH)))))))))) :: []))))) :: (((Zpos (XI (XO (XI (XI (XO (XO (XO (XI (XI
    (XI (XI (XI XH))))))))))))), ((Zpos (XI (XO (XO (XO (XI (XO (XO (XI (XI
    XH)))))))))) :: ((Zpos (XO (XO (XI (XO (XI (XO (XO (XO (XI
    XH)))))))))) :: ((Zpos (XI (XO (XO (XO (XO (XO (XO (XO (XI
    XH)))))))))) :: ((Zpos (XI (XO (XI (XO (XO (XO (XI (XO (XI
    XH)))))))))) :: []))))) :: (((Zpos (XO (XI (XI (XI (XO (XO (XO (XI (XI
    (XI (XI (XI XH))))))))))))), ((Zpos (XI (XO (XO (XO (XI (XO (XO (XI (XI
    XH)))))))))) :: ((Zpos (XI (XI (XO (XO (XI (XO (XO (XO (XI
    XH)))))))))) :: ((Zpos (XO (XI (XO (XO (XO (XO (XI (XO (XI
    XH)))))))))) :: ((Zpos (XI (XO (XI (XO (XO (XO (XI (XO (XI
    XH)))))))))) :: []))))) :: (((Zpos (XI (XI (XI (XI (XO (XO (XO (XI (XI
    (XI (XI (XI XH))))))))))))), ((Zpos (XI (XO (XO (XO (XI (XO (XO (XI (XI
    XH)))))))))) :: ((Zpos (XO (XO (XI (XO (XI (XO (XO (XO (XI
    XH)))))))))) :: ((Zpos (XO (XI (XO (XO (XO (XO (XI (XO (XI
    XH)))))))))) :: ((Zpos (XI (XO (XI (XO (XO (XO (XI (XO (XI
    XH)))))))))) :: []))))) :: (((Zpos (XO (XO (XO (XO (XI (XO (XO (XI (XI
    (XI (XI (XI XH))))))))))))), ((Zpos (XI (XI (XI (XO (XI (XI (XO (XI (XI
    XH)))))))))) :: ((Zpos (XI (XI (XO (XO (XI (XO (XO (XO (XI
    XH)))))))))) :: ((Zpos (XI (XO (XI (XO (XO (XO (XI (XO (XI
    XH)))))))))) :: [])))) :: (((Zpos (XI (XO (XO (XO (XI (XO (XO (XI (XI (XI
    (XI (XI XH))))))))))))), ((Zpos (XI (XI (XI (XO (XI (XI (XO (XI (XI
    XH)))))))))) :: ((Zpos (XO (XO (XI (XO (XI (XO (XO (XO (XI
    XH)))))))))) :: ((Zpos (XI (XO (XI (XO (XO (XO (XI (XO (XI
    XH)))))))))) :: [])))) :: (((Zpos (XO (XI (XO (XO (XI (XO (XO (XI (XI (XI
    (XI (XI XH))))))))))))), ((Zpos (XI (XI (XI (XO (XI (XI (XO (XI (XI
    XH)))))))))) :: ((Zpos (XI (XI (XO (XO (XI (XO (XO (XO (XI
    XH)))))))))) :: ((Zpos (XO (XO (XO (XO (XO (XO (XO (XO (XI
    XH)))))))))) :: ((Zpos (XI (XO (XI (XO (XO (XO (XI (XO (XI
    XH)))))))))) :: []))))) :: (((Zpos (XI (XI (XO (XO (XI (XO (XO (XI (XI
    (XI (XI (XI XH))))))))))))), ((Zpos (XI (XI (XI (XO (XI (XI (XO (XI (XI
    XH)))))))))) :: ((Zpos (XO (XO (XI (XO (XI (XO (XO (XO (XI
    XH)))))))))) :: ((Zpos (XO (XO (XO (XO (XO (XO (XO (XO (XI
    XH)))))))))) :: ((Zpos (XI (XO (XI (XO (XO (XO (XI (XO (XI
    XH)))))))))) :: []))))) :: (((Zpos (XO (XO (XI (XO (XI (XO (XO (XI (XI
    (XI (XI (XI XH))))))))))))), ((Zpos (XI (XI (XI (XO (XI (XI (XO (XI (XI
    XH)))))))))) :: ((Zpos (XI (XI (XO (XO (XI (XO (XO (XO (XI
    XH)))))))))) :: ((Zpos (XI (XO (XO (XO (XO (XO (XO (XO (XI
    XH)))))))))) :: ((Zpos (XI (XO (XI (XO (XO (XO (XI (XO (XI
    XH)))))))))) :: []))))) :: (((Zpos (XI (XO (XI (XO (XI (XO (XO (XI (XI
    (XI (XI (XI XH))))))))))))), ((Zpos (XI (XI (XI (XO (XI (XI (XO (XI (XI
    XH)))))))))) :: ((Zpos (XO (XO (XI (XO (XI (XO (XO (XO (XI
    XH)))))))))) :: ((Zpos (XI (XO (XO (XO (XO (XO (XO (XO (XI
    XH)))))))))) :: ((Zpos (XI (XO (XI (XO (XO (XO (XI (XO (XI
    XH)))))))))) :: []))))) :: (((Zpos (XO (XI (XI (XO (XI (XO (XO (XI (XI
    (XI (XI (XI XH))))))))))))), ((Zpos (XI (XI (XI (XO (XI (XI (XO (XI (XI
    XH)))))))))) :: ((Zpos (XI (XI (XO (XO (XI (XO (XO (XO (XI
    XH)))))))))) :: ((Zpos (XO (XI (XO (XO (XO (XO (XI (XO (XI
    XH)))))))))) :: ((Zpos (XI (XO (XI (XO (XO (XO (XI (XO (XI
    XH)))))))))) :: []))))) :: (((Zpos (XI (XI (XI (XO (XI (XO (XO (XI (XI
    (XI (XI (XI XH))))))))))))), ((Zpos (XI (XI (XI (XO (XI (XI (XO (XI (XI
    XH)))))))))) :: ((Zpos (XO (XO (XI (XO (XI (XO (XO (XO (XI
    XH)))))))))) :: ((Zpos (XO (XI (XO (XO (XO (XO (XI (XO (XI
    XH)))))))))) :: ((Zpos (XI (XO (XI (XO (XO (XO (XI (XO (XI
    XH)))))))))) :: []))))) :: (((Zpos (XO (XO (XO (XI (XI (XO (XO (XI (XI
    (XI (XI (XI XH))))))))))))), ((Zpos (XI (XI (XI (XO (XI (XO (XO (XI (XI
    XH)))))))))) :: ((Zpos (XI (XI (XO (XO (XI (XO (XO (XO (XI
    XH)))))))))) :: ((Zpos (XI (XO (XI (XO (XO (XO (XI (XO (XI
    XH)))))))))) :: [])))) :: (((Zpos (XI (XO (XO (XI (XI (XO (XO (XI (XI (XI
    (XI (XI XH))))))))))))), ((Zpos (XI (XI (XI (XO (XI (XO (XO (XI (XI
    XH)))))))))) :: ((Zpos (XO (XO (XI (XO (XI (XO (XO (XO (XI
    XH)))))))))) :: ((Zpos (XI (XO (XI (XO (XO (XO (XI (XO (XI
    XH)))))))))) :: [])))) :: (((Zpos (XO (XI (XO (XI (XI (XO (XO (XI (XI (XI
    (XI (XI XH))))))))))))), ((Zpos (XI (XI (XI (XO (XI (XO (XO (XI (XI
    XH)))))))))) :: ((Zpos (XI (XI (XO (XO (XI (XO (XO (XO (XI
    XH)))))))))) :: ((Zpos (XO (XO (XO (XO (XO (XO (XO (XO (XI
    XH)))))))))) :: ((Zpos (XI (XO (XI (XO (XO (XO (XI (XO (XI
    XH)))))))))) :: []))))) :: (((Zpos (XI (XI (XO (XI (XI (XO (XO (XI (XI
    (XI (XI (XI XH))))))))))))), ((Zpos (XI (XI (XI (XO (XI (XO (XO (XI (XI
    XH)))))))))) :: ((Zpos (XO (XO (XI (XO (XI (XO (XO (XO (XI
    XH)))))))))) :: ((Zpos (XO (XO (XO (XO (XO (XO (XO (XO (XI
    XH)))))))))) :: ((Zpos (XI (XO (XI (XO (XO (XO (XI (XO (XI
    XH)))))))))) :: []))))) :: (((Zpos (XO (XO (XI (XI (XI (XO (XO (XI (XI
    (XI (XI (XI XH))))))))))))), ((Zpos (XI (XI (XI (XO (XI (XO (XO (XI (XI
    XH)))))))))) :: ((Zpos (XI (XI (XO (XO (XI (XO (XO (XO (XI
    XH)))))))))) :: ((Zpos (XI (XO (XO (XO (XO (XO (XO (XO (XI
    XH)))))))))) :: ((Zpos (XI (XO (XI (XO (XO (XO (XI (XO (XI
    XH)))))))))) :: []))))) :: (((Zpos (XI (XO (XI (XI (XI (XO (XO (XI (XI
    (XI (XI (XI XH))))))))))))), ((Zpos (XI (XI (XI (XO (XI (XO (XO (XI (XI
    XH)))))))))) :: ((Zpos (XO (XO (XI (XO (XI (XO (XO (XO (XI
    XH)))))))))) :: ((Zpos (XI (XO (XO (XO (XO (XO (XO (XO (XI
    XH)))))))))) :: ((Zpos (XI (XO (XI (XO (XO (XO (XI (XO (XI
    XH)))))))))) :: []))))) :: (((Zpos (XO (XI (XI (XI (XI (XO (XO (XI (XI
    (XI (XI (XI XH))))))))))))), ((Zpos (XI (XI (XI (XO (XI (XO (XO (XI (XI
    XH)))))))))) :: ((Zpos (XI (XI (XO (XO (XI (XO (XO (XO (XI
    XH)))))))))) :: ((Zpos (XO (XI (XO (XO (XO (XO (XI (XO (XI
    XH)))))))))) :: ((Zpos (XI (XO (XI (XO (XO (XO (XI (XO (XI
    XH)))))))))) :: []))))) :: (((Zpos (XI (XI (XI (XI (XI (XO (XO (XI (XI
    (XI (XI (XI XH))))))))))))), ((Zpos (XI (XI (XI (XO (XI (XO (XO (XI (XI
    XH)))))))))) :: ((Zpos (XO (XO (XI (XO (XI (XO (XO (XO (XI
    XH)))))))))) :: ((Zpos (XO (XI (XO (XO (XO (XO (XI (XO (XI
    XH)))))))))) :: ((Zpos (XI (XO (XI (XO (XO (XO (XI (XO (XI
    XH)))))))))) :: []))))) :: (((Zpos (XO (XO (XO (XO (XO (XI (XO (XI (XI
    (XI (XI (XI XH))))))))))))), ((Zpos (XI (XO (XO (XI (XO (XO (XI (XI (XI
    XH)))))))))) :: ((Zpos (XI (XI (XO (XO (XI (XO (XO (XO (XI
    XH)))))))))) :: ((Zpos (XI (XO (XI (XO (XO (XO (XI (XO (XI
    XH)))))))))) :: [])))) :: (((Zpos (XI (XO (XO (XO (XO (XI (XO (XI (XI (XI
    (XI (XI XH))))))))))))), ((Zpos (XI (XO (XO (XI (XO (XO (XI (XI (XI
    XH)))))))))) :: ((Zpos (XO (XO (XI (XO (XI (XO (XO (XO (XI
    XH)))))))))) :: ((Zpos (XI (XO (XI (XO (XO (XO (XI (XO (XI
    XH)))))))))) :: [])))) :: (((Zpos (XO (XI (XO (XO (XO (XI (XO (XI (XI (XI
    (XI (XI XH))))))))))))), ((Zpos (XI (XO (XO (XI (XO (XO (XI (XI (XI
    XH)))))))))) :: ((Zpos (XI (XI (XO (XO (XI (XO (XO (XO (XI
    XH)))))))))) :: ((Zpos (XO (XO (XO (XO (XO (XO (XO (XO (XI
    XH)))))))))) :: ((Zpos (XI (XO (XI (XO (XO (XO (XI (XO (XI
    XH)))))))))) :: []))))) :: (((Zpos (XI (XI (XO (XO (XO (XI (XO (XI (XI
    (XI (XI (XI XH))))))))))))), ((Zpos (XI (XO (XO (XI (XO (XO (XI (XI (XI
    XH)))))))))) :: ((Zpos (XO (XO (XI (XO (XI (XO (XO (XO (XI
    XH)))))))))) :: ((Zpos (XO (XO (XO (XO (XO (XO (XO (XO (XI
    XH)))))))))) :: ((Zpos (XI (XO (XI (XO (XO (XO (XI (XO (XI
    XH)))))))))) :: []))))) :: (((Zpos (XO (XO (XI (XO (XO (XI (XO (XI (XI
    (XI (XI (XI XH))))))))))))), ((Zpos (XI (XO (XO (XI (XO (XO (XI (XI (XI
    XH)))))))))) :: ((Zpos (XI (XI (XO (XO (XI (XO (XO (XO (XI
    XH)))))))))) :: ((Zpos (XI (XO (XO (XO (XO (XO (XO (XO (XI
    XH)))))))))) :: ((Zpos (XI (XO (XI (XO (XO (XO (XI (XO (XI
    XH)))))))))) :: []))))) :: (((Zpos (XI (XO (XI (XO (XO (XI (XO (XI (XI
    (XI (XI (XI XH))))))))))))), ((Zpos (XI (XO (XO (XI (XO (XO (XI (XI (XI
    XH)))))))))) :: ((Zpos (XO (XO (XI (XO (XI (XO (XO (XO (XI
    XH)))))))))) :: ((Zpos (XI (XO (XO (XO (XO (XO (XO (XO (XI
    XH)))))))))) :: ((Zpos (XI (XO (XI (XO (XO (XO (XI (XO (XI
    XH)))))))))) :: []))))) :: (((Zpos (XO (XI (XI (XO (XO (XI (XO (XI (XI
    (XI (XI (XI XH))))))))))))), ((Zpos (XI (XO (XO (XI (XO (XO (XI (XI (XI
    XH)))))))))) :: ((Zpos (XI (XI (XO (XO (XI (XO (XO (XO (XI
    XH)))))))))) :: ((Zpos (XO (XI (XO (XO (XO (XO (XI (XO (XI
    XH)))))))))) :: ((Zpos (XI (XO (XI (XO (XO (XO (XI (XO (XI
    XH)))))))))) :: []))))) :: (((Zpos (XI (XI (XI (XO (XO (XI (XO (XI (XI
    (XI (XI (XI XH))))))))))))), ((Zpos (XI (XO (XO (XI (XO (XO (XI (XI (XI
    XH)))))))))) :: ((Zpos (XO (XO (XI (XO (XI (XO (XO (XO (XI
    XH)))))))))) :: ((Zpos (XO (XI (XO (XO (XO (XO (XI (XO (XI
    XH)))))))))) :: ((Zpos (XI (XO (XI (XO (XO (XO (XI (XO (XI
    XH)))))))))) :: []))))) :: (((Zpos (XO (XO (XO (XI (XO (XI (XO (XI (XI
    (XI (XI (XI XH))))))))))))), ((Zpos (XI (XO (XO (XI (XO (XI (XO (XI (XI
    XH)))))))))) :: ((Zpos (XI (XI (XO (XO (XI (XO (XO (XO (XI
    XH)))))))))) :: ((Zpos (XI (XO (XI (XO (XO (XO (XI (XO (XI
    XH)))))))))) :: [])))) :: (((Zpos (XI (XO (XO (XI (XO (XI (XO (XI (XI (XI
    (XI (XI XH))))))))))))), ((Zpos (XI (XO (XO (XI (XO (XI (XO (XI (XI
    XH)))))))))) :: ((Zpos (XO (XO (XI (XO (XI (XO (XO (XO (XI
    XH)))))))))) :: ((Zpos (XI (XO (XI (XO (XO (XO (XI (XO (XI
    XH)))))))))) :: [])))) :: (((Zpos (XO (XI (XO (XI (XO (XI (XO (XI (XI (XI
    (XI (XI XH))))))))))))), ((Zpos (XI (XO (XO (XI (XO (XI (XO (XI (XI
    XH)))))))))) :: ((Zpos (XI (XI (XO (XO (XI (XO (XO (XO (XI
    XH)))))))))) :: ((Zpos (XO (XO (XO (XO (XO (XO (XO (XO (XI
    XH)))))))))) :: ((Zpos (XI (XO (XI (XO (XO (XO (XI (XO (XI
    XH)))))))))) :: []))))) :: (((Zpos (XI (XI (XO (XI (XO (XI (XO (XI (XI
    (XI (XI (XI XH))))))))))))), ((Zpos (XI (XO (XO (XI (XO (XI (XO (XI (XI
    XH)))))))))) :: ((Zpos (XO (XO (XI (XO (XI (XO (XO (XO (XI
    XH)))))))))) :: ((Zpos (XO (XO (XO (XO (XO (XO (XO (XO (XI
    XH)))))))))) :: ((Zpos (XI (XO (XI (XO (XO (XO (XI (XO (XI
    XH)))))))))) :: []))))) :: (((Zpos (XO (XO (XI (XI (XO (XI (XO (XI (XI
    (XI (XI (XI XH))))))))))))), ((Zpos (XI (XO (XO (XI (XO (XI (XO (XI (XI
    XH)))))))))) :: ((Zpos (XI (XI (XO (XO (XI (XO (XO (XO (XI
    XH)))))))))) :: ((Zpos (XI (XO (XO (XO (XO (XO (XO (XO (XI
    XH)))))))))) :: ((Zpos (XI (XO (XI (XO (XO (XO (XI (XO (XI
    XH)))))))))) :: []))))) :: (((Zpos (XI (XO (XI (XI (XO (XI (XO (XI (XI
    (XI (XI (XI XH))))))))))))), ((Zpos (XI (XO (XO (XI (XO (XI (XO (XI (XI
    XH)))))))))) :: ((Zpos (XO (XO (XI (XO (XI (XO (XO (XO (XI
    XH)))))))))) :: ((Zpos (XI (XO (XO (XO (XO (XO (XO (XO (XI
    XH)))))))))) :: ((Zpos (XI (XO (XI (XO (XO (XO (XI (XO (XI
    XH)))))))))) :: []))))) :: (((Zpos (XO (XI (XI (XI (XO (XI (XO (XI (XI
    (XI (XI (XI XH))))))))))))), ((Zpos (XI (XO (XO (XI (XO (XI (XO (XI (XI
    XH)))))))))) :: ((Zpos (XI (XI (XO (XO (XI (XO (XO (XO (XI
    XH)))))))))) :: ((Zpos (XO (XI (XO (XO (XO (XO (XI (XO (XI
    XH)))))))))) :: ((Zpos (XI (XO (XI (XO (XO (XO (XI (XO (XI
    XH)))))))))) :: []))))) :: (((Zpos (XI (XI (XI (XI (XO (XI (XO (XI (XI
    (XI (XI (XI XH))))))))))))), ((Zpos (XI (XO (XO (XI (XO (XI (XO (XI (XI
    XH)))))))))) :: ((Zpos (XO (XO (XI (XO (XI (XO (XO (XO (XI
    XH)))))))))) :: ((Zpos (XO (XI (XO (XO (XO (XO (XI (XO (XI
    XH)))))))))) :: ((Zpos (XI (XO (XI (XO (XO (XO (XI (XO (XI
    XH)))))))))) :: []))))) :: (((Zpos (XO (XO (XO (XO (XI (XI (XO (XI (XI
    (XI (XI (XI XH))))))))))))), ((Zpos (XI (XO (XO (XO (XI (XI (XO (XI (XI
    XH)))))))))) :: ((Zpos (XO (XI (XI (XO (XO (XO (XO (XO (XI
    XH)))))))))) :: []))) :: (((Zpos (XI (XO (XO (XO (XI (XI (XO (XI (XI (XI
    (XI (XI XH))))))))))))), ((Zpos (XI (XO (XO (XO (XI (XI (XO (XI (XI
    XH)))))))))) :: ((Zpos (XO (XO (XI (XO (XO (XO (XO (XO (XI
    XH)))))))))) :: []))) :: (((Zpos (XO (XI (XO (XO (XI (XI (XO (XI (XI (XI
    (XI (XI XH))))))))))))), ((Zpos (XI (XO (XO (XO (XI (XI (XO (XI (XI
    XH)))))))))) :: ((Zpos (XO (XO (XO (XO (XO (XO (XO (XO (XI
    XH)))))))))) :: ((Zpos (XI (XO (XI (XO (XO (XO (XI (XO (XI
    XH)))))))))) :: [])))) :: (((Zpos (XI (XI (XO (XO (XI (XI (XO (XI (XI (XI
    (XI (XI XH))))))))))))), ((Zpos (XI (XO (XO (XO (XI (XI (XO (XI (XI
    XH)))))))))) :: ((Zpos (XI (XO (XI (XO (XO (XO (XI (XO (XI
    XH)))))))))) :: []))) :: (((Zpos (XO (XO (XI (XO (XI (XI (XO (XI (XI (XI
    (XI (XI XH))))))))))))), ((Zpos (XI (XO (XO (XO (XI (XI (XO (XI (XI
    XH)))))))))) :: ((Zpos (XI (XO (XO (XO (XO (XO (XO (XO (XI
    XH)))))))))) :: ((Zpos (XI (XO (XI (XO (XO (XO (XI (XO (XI
    XH)))))))))) :: [])))) :: (((Zpos (XO (XI (XI (XO (XI (XI (XO (XI (XI (XI
    (XI (XI XH))))))))))))), ((Zpos (XI (XO (XO (XO (XI (XI (XO (XI (XI
    XH)))))))))) :: ((Zpos (XO (XI (XO (XO (XO (XO (XI (XO (XI
    XH)))))))))) :: []))) :: (((Zpos (XI (XI (XI (XO (XI (XI (XO (XI (XI (XI
    (XI (XI XH))))))))))))), ((Zpos (XI (XO (XO (XO (XI (XI (XO (XI (XI
    XH)))))))))) :: ((Zpos (XO (XI (XO (XO (XO (XO (XI (XO (XI
    XH)))))))))) :: ((Zpos (XI (XO (XI (XO (XO (XO (XI (XO (XI
    XH)))))))))) :: [])))) :: (((Zpos (XO (XO (XO (XI (XI (XI (XO (XI (XI (XI
    (XI (XI XH))))))))))))), ((Zpos (XI (XO (XO (XO (XI (XO (XO (XI (XI
    XH)))))))))) :: ((Zpos (XO (XI (XI (XO (XO (XO (XO (XO (XI
    XH)))))))))) :: []))) :: (((Zpos (XI (XO (XO (XI (XI (XI (XO (XI (XI (XI
    (XI (XI XH))))))))))))), ((Zpos (XI (XO (XO (XO (XI (XO (XO (XI (XI
    XH)))))))))) :: ((Zpos (XO (XO (XI (XO (XO (XO (XO (XO (XI
    XH)))))))))) :: []))) :: (((Zpos (XO (XI (XO (XI (XI (XI (XO (XI (XI (XI
    (XI (XI XH))))))))))))), ((Zpos (XI (XO (XO (XO (XI (XO (XO (XI (XI
    XH)))))))))) :: ((Zpos (XO (XO (XO (XO (XO (XO (XO (XO (XI
    XH)))))))))) :: []))) :: (((Zpos (XI (XI (XO (XI (XI (XI (XO (XI (XI (XI
    (XI (XI XH))))))))))))), ((Zpos (XI (XO (XO (XO (XI (XO (XO (XI (XI
    XH)))))))))) :: ((Zpos (XI (XO (XO (XO (XO (XO (XO (XO (XI
    XH)))))))))) :: []))) :: (((Zpos (XO (XO (XI (XI (XI (XI (XO (XI (XI (XI
    (XI (XI XH))))))))))))), ((Zpos (XI (XO (XO (XO (XI (XO (XO (XI (XI
    XH)))))))))) :: ((Zpos (XI (XO (XI (XO (XO (XO (XI (XO (XI
    XH)))))))))) :: []))) :: (((Zpos (XO (XI (XI (XI (XI (XI (XO (XI (XI (XI
    (XI (XI XH))))))))))))), ((Zpos (XI (XO (XO (XI (XI (XI (XO (XI (XI
    XH)))))))))) :: [])) :: (((Zpos (XI (XO (XO (XO (XO (XO (XI (XI (XI (XI
    (XI (XI XH))))))))))))), ((Zpos (XO (XO (XO (XI (XO (XI (XO
    XH)))))))) :: ((Zpos (XO (XI (XO (XO (XO (XO (XI (XO (XI
    XH)))))))))) :: []))) :: (((Zpos (XO (XI (XO (XO (XO (XO (XI (XI (XI (XI
    (XI (XI XH))))))))))))), ((Zpos (XI (XI (XI (XO (XI (XI (XO (XI (XI
    XH)))))))))) :: ((Zpos (XO (XO (XO (XO (XO (XO (XO (XO (XI
    XH)))))))))) :: ((Zpos (XI (XO (XI (XO (XO (XO (XI (XO (XI
    XH)))))))))) :: [])))) :: (((Zpos (XI (XI (XO (XO (XO (XO (XI (XI (XI (XI
    (XI (XI XH))))))))))))), ((Zpos (XI (XI (XI (XO (XI (XI (XO (XI (XI
    XH)))))))))) :: ((Zpos (XI (XO (XI (XO (XO (XO (XI (XO (XI
    XH)))))))))) :: []))) :: (((Zpos (XO (XO (XI (XO (XO (XO (XI (XI (XI (XI
    (XI (XI XH))))))))))))), ((Zpos (XI (XI (XI (XO (XI (XI (XO (XI (XI
    XH)))))))))) :: ((Zpos (XI (XO (XO (XO (XO (XO (XO (XO (XI
    XH)))))))))) :: ((Zpos (XI (XO (XI (XO (XO (XO (XI (XO (XI
    XH)))))))))) :: [])))) :: (((Zpos (XO (XI (XI (XO (XO (XO (XI (XI (XI (XI
    (XI (XI XH))))))))))))), ((Zpos (XI (XI (XI (XO (XI (XI (XO (XI (XI
    XH)))))))))) :: ((Zpos (XO (XI (XO (XO (XO (XO (XI (XO (XI
    XH)))))))))) :: []))) :: (((Zpos (XI (XI (XI (XO (XO (XO (XI (XI (XI (XI
    (XI (XI XH))))))))))))), ((Zpos (XI (XI (XI (XO (XI (XI (XO (XI (XI
    XH)))))))))) :: ((Zpos (XO (XI (XO (XO (XO (XO (XI (XO (XI
    XH)))))))))) :: ((Zpos (XI (XO (XI (XO (XO (XO (XI (XO (XI
    XH)))))))))) :: [])))) :: (((Zpos (XO (XO (XO (XI (XO (XO (XI (XI (XI (XI
    (XI (XI XH))))))))))))), ((Zpos (XI (XO (XI (XO (XI (XO (XO (XI (XI
    XH)))))))))) :: ((Zpos (XO (XO (XO (XO (XO (XO (XO (XO (XI
    XH)))))))))) :: []))) :: (((Zpos (XI (XO (XO (XI (XO (XO (XI (XI (XI (XI
    (XI (XI XH))))))))))))), ((Zpos (XI (XO (XI (XO (XI (XO (XO (XI (XI
    XH)))))))))) :: ((Zpos (XI (XO (XO (XO (XO (XO (XO (XO (XI
    XH)))))))))) :: []))) :: (((Zpos (XO (XI (XO (XI (XO (XO (XI (XI (XI (XI
    (XI (XI XH))))))))))))), ((Zpos (XI (XI (XI (XO (XI (XO (XO (XI (XI
    XH)))))))))) :: ((Zpos (XO (XO (XO (XO (XO (XO (XO (XO (XI
    XH)))))))))) :: []))) :: (((Zpos (XI (XI (XO (XI (XO (XO (XI (XI (XI (XI
    (XI (XI XH))))))))))))), ((Zpos (XI (XI (XI (XO (XI (XO (XO (XI (XI
    XH)))))))))) :: ((Zpos (XI (XO (XO (XO (XO (XO (XO (XO (XI
    XH)))))))))) :: []))) :: (((Zpos (XO (XO (XI (XI (XO (XO (XI (XI (XI (XI
    (XI (XI XH))))))))))))), ((Zpos (XI (XI (XI (XO (XI (XO (XO (XI (XI
    XH)))))))))) :: ((Zpos (XI (XO (XI (XO (XO (XO (XI (XO (XI
    XH)))))))))) :: []))) :: (((Zpos (XI (XO (XI (XI (XO (XO (XI (XI (XI (XI
    (XI (XI XH))))))))))))), ((Zpos (XI (XI (XI (XI (XI (XI (XO (XI (XI (XI
    (XI (XI XH))))))))))))) :: ((Zpos (XO (XO (XO (XO (XO (XO (XO (XO (XI
    XH)))))))))) :: []))) :: (((Zpos (XO (XI (XI (XI (XO (XO (XI (XI (XI (XI
    (XI (XI XH))))))))))))), ((Zpos (XI (XI (XI (XI (XI (XI (XO (XI (XI (XI
    (XI (XI XH))))))))))))) :: ((Zpos (XI (XO (XO (XO (XO (XO (XO (XO (XI
    XH)))))))))) :: []))) :: (((Zpos (XI (XI (XI (XI (XO (XO (XI (XI (XI (XI
    (XI (XI XH))))))))))))), ((Zpos (XI (XI (XI (XI (XI (XI (XO (XI (XI (XI
    (XI (XI XH))))))))))))) :: ((Zpos (XO (XI (XO (XO (XO (XO (XI (XO (XI
    XH)))))))))) :: []))) :: (((Zpos (XO (XO (XO (XO (XI (XO (XI (XI (XI (XI
    (XI (XI XH))))))))))))), ((Zpos (XI (XO (XO (XI (XI (XI (XO (XI (XI
    XH)))))))))) :: ((Zpos (XO (XI (XI (XO (XO (XO (XO (XO (XI
    XH)))))))))) :: []))) :: (((Zpos (XI (XO (XO (XO (XI (XO (XI (XI (XI (XI
    (XI (XI XH))))))))))))), ((Zpos (XI (XO (XO (XI (XI (XI (XO (XI (XI
    XH)))))))))) :: ((Zpos (XO (XO (XI (XO (XO (XO (XO (XO (XI
    XH)))))))))) :: []))) :: (((Zpos (XO (XI (XO (XO (XI (XO (XI (XI (XI (XI
    (XI (XI XH))))))))))))), ((Zpos (XI (XO (XO (XI (XI (XI (XO (XI (XI
    XH)))))))))) :: ((Zpos (XO (XO (XO (XI (XO (XO (XO (XO (XI
    XH)))))))))) :: ((Zpos (XO (XO (XO (XO (XO (XO (XO (XO (XI
    XH)))))))))) :: [])))) :: (((Zpos (XI (XI (XO (XO (XI (XO (XI (XI (XI (XI
    (XI (XI XH))))))))))))), ((Zpos (XI (XO (XO (XI (XI (XI (XO (XI (XI
    XH)))))))))) :: ((Zpos (XO (XO (XO (XI (XO (XO (XO (XO (XI
    XH)))))))))) :: ((Zpos (XI (XO (XO (XO (XO (XO (XO (XO (XI
    XH)))))))))) :: [])))) :: (((Zpos (XO (XI (XI (XO (XI (XO (XI (XI (XI (XI
    (XI (XI XH))))))))))))), ((Zpos (XI (XO (XO (XI (XI (XI (XO (XI (XI
    XH)))))))))) :: ((Zpos (XO (XI (XO (XO (XO (XO (XI (XO (XI
    XH)))))))))) :: []))) :: (((Zpos (XI (XI (XI (XO (XI (XO (XI (XI (XI (XI
    (XI (XI XH))))))))))))), ((Zpos (XI (XO (XO (XI (XI (XI (XO (XI (XI
    XH)))))))))) :: ((Zpos (XO (XO (XO (XI (XO (XO (XO (XO (XI
    XH)))))))))) :: ((Zpos (XO (XI (XO (XO (XO (XO (XI (XO (XI
    XH)))))))))) :: [])))) :: (((Zpos (XO (XO (XO (XI (XI (XO (XI (XI (XI (XI
    (XI (XI XH))))))))))))), ((Zpos (XI (XO (XO (XI (XI (XO (XO (XI (XI
    XH)))))))))) :: ((Zpos (XO (XI (XI (XO (XO (XO (XO (XO (XI
    XH)))))))))) :: []))) :: (((Zpos (XI (XO (XO (XI (XI (XO (XI (XI (XI (XI
    (XI (XI XH))))))))))))), ((Zpos (XI (XO (XO (XI (XI (XO (XO (XI (XI
    XH)))))))))) :: ((Zpos (XO (XO (XI (XO (XO (XO (XO (XO (XI
    XH)))))))))) :: []))) :: (((Zpos (XO (XI (XO (XI (XI (XO (XI (XI (XI (XI
    (XI (XI XH))))))))))))), ((Zpos (XI (XO (XO (XI (XI (XO (XO (XI (XI
    XH)))))))))) :: ((Zpos (XO (XO (XO (XO (XO (XO (XO (XO (XI
    XH)))))))))) :: []))) :: (((Zpos (XI (XI (XO (XI (XI (XO (XI (XI (XI (XI
    (XI (XI XH))))))))))))), ((Zpos (XI (XO (XO (XI (XI (XO (XO (XI (XI
    XH)))))))))) :: ((Zpos (XI (XO (XO (XO (XO (XO (XO (XO (XI
    XH)))))))))) :: []))) :: (((Zpos (XI (XO (XI (XI (XI (XO (XI (XI (XI (XI
    (XI (XI XH))))))))))))), ((Zpos (XO (XI (XI (XI (XI (XI (XI (XI (XI (XI
    (XI (XI XH))))))))))))) :: ((Zpos (XO (XO (XO (XO (XO (XO (XO (XO (XI
    XH)))))))))) :: []))) :: (((Zpos (XO (XI (XI (XI (XI (XO (XI (XI (XI (XI
    (XI (XI XH))))))))))))), ((Zpos (XO (XI (XI (XI (XI (XI (XI (XI (XI (XI
    (XI (XI XH))))))))))))) :: ((Zpos (XI (XO (XO (XO (XO (XO (XO (XO (XI
    XH)))))))))) :: []))) :: (((Zpos (XI (XI (XI (XI (XI (XO (XI (XI (XI (XI
    (XI (XI XH))))))))))))), ((Zpos (XO (XI (XI (XI (XI (XI (XI (XI (XI (XI
    (XI (XI XH))))))))))))) :: ((Zpos (XO (XI (XO (XO (XO (XO (XI (XO (XI
    XH)))))))))) :: []))) :: (((Zpos (XO (XO (XO (XO (XO (XI (XI (XI (XI (XI
    (XI (XI XH))))))))))))), ((Zpos (XI (XO (XI (XO (XO (XO (XI (XI (XI
    XH)))))))))) :: ((Zpos (XO (XI (XI (XO (XO (XO (XO (XO (XI
    XH)))))))))) :: []))) :: (((Zpos (XI (XO (XO (XO (XO (XI (XI (XI (XI (XI
    (XI (XI XH))))))))))))), ((Zpos (XI (XO (XI (XO (XO (XO (XI (XI (XI
    XH)))))))))) :: ((Zpos (XO (XO (XI (XO (XO (XO (XO (XO (XI
    XH)))))))))) :: []))) :: (((Zpos (XO (XI (XO (XO (XO (XI (XI (XI (XI (XI
    (XI (XI XH))))))))))))), ((Zpos (XI (XO (XI (XO (XO (XO (XI (XI (XI
    XH)))))))))) :: ((Zpos (XO (XO (XO (XI (XO (XO (XO (XO (XI
    XH)))))))))) :: ((Zpos (XO (XO (XO (XO (XO (XO (XO (XO (XI
    XH)))))))))) :: [])))) :: (((Zpos (XI (XI (XO (XO (XO (XI (XI (XI (XI (XI
    (XI (XI XH))))))))))))), ((Zpos (XI (XO (XI (XO (XO (XO (XI (XI (XI
    XH)))))))))) :: ((Zpos (XO (XO (XO (XI (XO (XO (XO (XO (XI
    XH)))))))))) :: ((Zpos (XI (XO (XO (XO (XO (XO (XO (XO (XI
    XH)))))))))) :: [])))) :: (((Zpos (XO (XO (XI (XO (XO (XI (XI (XI (XI (XI
    (XI (XI XH))))))))))))), ((Zpos (XI (XO (XO (XO (XO (XO (XI (XI (XI
    XH)))))))))) :: ((Zpos (XI (XI (XO (XO (XI (XO (XO (XO (XI
    XH)))))))))) :: []))) :: (((Zpos (XI (XO (XI (XO (XO (XI (XI (XI (XI (XI
    (XI (XI XH))))))))))))), ((Zpos (XI (XO (XO (XO (XO (XO (XI (XI (XI
    XH)))))))))) :: ((Zpos (XO (XO (XI (XO (XI (XO (XO (XO (XI
    XH)))))))))) :: []))) :: (((Zpos (XO (XI (XI (XO (XO (XI (XI (XI (XI (XI
    (XI (XI XH))))))))))))), ((Zpos (XI (XO (XI (XO (XO (XO (XI (XI (XI
    XH)))))))))) :: ((Zpos (XO (XI (XO (XO (XO (XO (XI (XO (XI
    XH)))))))))) :: []))) :: (((Zpos (XI (XI (XI (XO (XO (XI (XI (XI (XI (XI
    (XI (XI XH))))))))))))), ((Zpos (XI (XO (XI (XO (XO (XO (XI (XI (XI
    XH)))))))))) :: ((Zpos (XO (XO (XO (XI (XO (XO (XO (XO (XI
    XH)))))))))) :: ((Zpos (XO (XI (XO (XO (XO (XO (XI (XO (XI
    XH)))))))))) :: [])))) :: (((Zpos (XO (XO (XO (XI (XO (XI (XI (XI (XI (XI
    (XI (XI XH))))))))))))), ((Zpos (XI (XO (XI (XO (XO (XI (XO (XI (XI
    XH)))))))))) :: ((Zpos (XO (XI (XI (XO (XO (XO (XO (XO (XI
    XH)))))))))) :: []))) :: (((Zpos (XI (XO (XO (XI (XO (XI (XI (XI (XI (XI
    (XI (XI XH))))))))))))), ((Zpos (XI (XO (XI (XO (XO (XI (XO (XI (XI
    XH)))))))))) :: ((Zpos (XO (XO (XI (XO (XO (XO (XO (XO (XI
    XH)))))))))) :: []))) :: (((Zpos (XO (XI (XO (XI (XO (XI (XI (XI (XI (XI
    (XI (XI XH))))))))))))), ((Zpos (XI (XO (XI (XO (XO (XI (XO (XI (XI
    XH)))))))))) :: ((Zpos (XO (XO (XO (XO (XO (XO (XO (XO (XI
    XH)))))))))) :: []))) :: (((Zpos (XI (XI (XO (XI (XO (XI (XI (XI (XI (XI
    (XI (XI XH))))))))))))), ((Zpos (XI (XO (XI (XO (XO (XI (XO (XI (XI
    XH)))))))))) :: ((Zpos (XI (XO (XO (XO (XO (XO (XO (XO (XI
    XH)))))))))) :: []))) :: (((Zpos (XO (XO (XI (XI (XO (XI (XI (XI (XI (XI
    (XI (XI XH))))))))))))), ((Zpos (XI (XO (XO (XO (XO (XI (XO (XI (XI
    XH)))))))))) :: ((Zpos (XO (XO (XI (XO (XI (XO (XO (XO (XI
    XH)))))))))) :: []))) :: (((Zpos (XI (XO (XI (XI (XO (XI (XI (XI (XI (XI
    (XI (XI XH))))))))))))), ((Zpos (XO (XO (XO (XI (XO (XI (XO
    XH)))))))) :: ((Zpos (XO (XO (XO (XO (XO (XO (XO (XO (XI
    XH)))))))))) :: []))) :: (((Zpos (XO (XI (XI (XI (XO (XI (XI (XI (XI (XI
    (XI (XI XH))))))))))))), ((Zpos (XO (XO (XO (XI (XO (XI (XO
    XH)))))))) :: ((Zpos (XI (XO (XO (XO (XO (XO (XO (XO (XI
    XH)))))))))) :: []))) :: (((Zpos (XI (XI (XI (XI (XO (XI (XI (XI (XI (XI
    (XI (XI XH))))))))))))), ((Zpos (XO (XO (XO (XO (XO (XI
    XH))))))) :: [])) :: (((Zpos (XO (XI (XO (XO (XI (XI (XI (XI (XI (XI (XI
    (XI XH))))))))))))), ((Zpos (XI (XO (XO (XI (XO (XO (XI (XI (XI
    XH)))))))))) :: ((Zpos (XO (XO (XO (XO (XO (XO (XO (XO (XI
    XH)))))))))) :: ((Zpos (XI (XO (XI (XO (XO (XO (XI (XO (XI
    XH)))))))))) :: [])))) :: (((Zpos (XI (XI (XO (XO (XI (XI (XI (XI (XI (XI
    (XI (XI XH))))))))))))), ((Zpos (XI (XO (XO (XI (XO (XO (XI (XI (XI
    XH)))))))))) :: ((Zpos (XI (XO (XI (XO (XO (XO (XI (XO (XI
    XH)))))))))) :: []))) :: (((Zpos (XO (XO (XI (XO (XI (XI (XI (XI (XI (XI
    (XI (XI XH))))))))))))), ((Zpos (XI (XO (XO (XI (XO (XO (XI (XI (XI
    XH)))))))))) :: ((Zpos (XI (XO (XO (XO (XO (XO (XO (XO (XI
    XH)))))))))) :: ((Zpos (XI (XO (XI (XO (XO (XO (XI (XO (XI
    XH)))))))))) :: [])))) :: (((Zpos (XO (XI (XI (XO (XI (XI (XI (XI (XI (XI
    (XI (XI XH))))))))))))), ((Zpos (XI (XO (XO (XI (XO (XO (XI (XI (XI
    XH)))))))))) :: ((Zpos (XO (XI (XO (XO (XO (XO (XI (XO (XI
    XH)))))))))) :: []))) :: (((Zpos (XI (XI (XI (XO (XI (XI (XI (XI (XI (XI
    (XI (XI XH))))))))))))), ((Zpos (XI (XO (XO (XI (XO (XO (XI (XI (XI
    XH)))))))))) :: ((Zpos (XO (XI (XO (XO (XO (XO (XI (XO (XI
    XH)))))))))) :: ((Zpos (XI (XO (XI (XO (XO (XO (XI (XO (XI
    XH)))))))))) :: [])))) :: (((Zpos (XO (XO (XO (XI (XI (XI (XI (XI (XI (XI
    (XI (XI XH))))))))))))), ((Zpos (XI (XI (XI (XI (XI (XO (XO (XI (XI
    XH)))))))))) :: ((Zpos (XO (XO (XO (XO (XO (XO (XO (XO (XI
    XH)))))))))) :: []))) :: (((Zpos (XI (XO (XO (XI (XI (XI (XI (XI (XI (XI
    (XI (XI XH))))))))))))), ((Zpos (XI (XI (XI (XI (XI (XO (XO (XI (XI
    XH)))))))))) :: ((Zpos (XI (XO (XO (XO (XO (XO (XO (XO (XI
    XH)))))))))) :: []))) :: (((Zpos (XO (XI (XO (XI (XI (XI (XI (XI (XI (XI
    (XI (XI XH))))))))))))), ((Zpos (XI (XO (XO (XI (XO (XI (XO (XI (XI
    XH)))))))))) :: ((Zpos (XO (XO (XO (XO (XO (XO (XO (XO (XI
    XH)))))))))) :: []))) :: (((Zpos (XI (XI (XO (XI (XI (XI (XI (XI (XI (XI
    (XI (XI XH))))))))))))), ((Zpos (XI (XO (XO (XI (XO (XI (XO (XI (XI
    XH)))))))))) :: ((Zpos (XI (XO (XO (XO (XO (XO (XO (XO (XI
    XH)))))))))) :: []))) :: (((Zpos (XO (XO (XI (XI (XI (XI (XI (XI (XI (XI
    (XI (XI XH))))))))))))), ((Zpos (XI (XO (XO (XI (XO (XI (XO (XI (XI
    XH)))))))))) :: ((Zpos (XI (XO (XI (XO (XO (XO (XI (XO (XI
    XH)))))))))) :: []))) :: (((Zpos (XI (XO (XI (XI (XI (XI (XI (XI (XI (XI
    (XI (XI XH))))))))))))), ((Zpos (XO (XO (XI (XO (XI (XI (XO
    XH)))))))) :: [])) :: (((Zpos (XO (XO (XO (XO (XO (XO (XO (XO (XO (XO (XO
    (XO (XO XH)))))))))))))), ((Zpos (XO (XI (XO (XO (XO (XO (XO (XO (XO (XO
    (XO (XO (XO XH)))))))))))))) :: [])) :: (((Zpos (XI (XO (XO (XO (XO (XO
    (XO (XO (XO (XO (XO (XO (XO XH)))))))))))))), ((Zpos (XI (XI (XO (XO (XO
    (XO (XO (XO (XO (XO (XO (XO (XO XH)))))))))))))) :: [])) :: (((Zpos (XO
    (XI (XI (XO (XO (XI (XO (XO (XI (XO (XO (XO (XO XH)))))))))))))), ((Zpos
    (XI (XO (XO (XI (XO (XI (XO (XI (XI XH)))))))))) :: [])) :: (((Zpos (XO
    (XI (XO (XI (XO (XI (XO (XO (XI (XO (XO (XO (XO XH)))))))))))))), ((Zpos
    (XI (XI (XO (XI (XO (XO XH))))))) :: [])) :: (((Zpos (XI (XI (XO (XI (XO
    (XI (XO (XO (XI (XO (XO (XO (XO XH)))))))))))))), ((Zpos (XI (XO (XO (XO
    (XO (XO XH))))))) :: ((Zpos (XO (XI (XO (XI (XO (XO (XO (XO (XI
    XH)))))))))) :: []))) :: (((Zpos (XO (XI (XO (XI (XI (XO (XO (XI (XI (XO
    (XO (XO (XO XH)))))))))))))), ((Zpos (XO (XO (XO (XO (XI (XO (XO (XI (XI
    (XO (XO (XO (XO XH)))))))))))))) :: ((Zpos (XO (XO (XO (XI (XI (XI (XO
    (XO (XI XH)))))))))) :: []))) :: (((Zpos (XI (XI (XO (XI (XI (XO (XO (XI
    (XI (XO (XO (XO (XO XH)))))))))))))), ((Zpos (XO (XI (XO (XO (XI (XO (XO
    (XI (XI (XO (XO (XO (XO XH)))))))))))))) :: ((Zpos (XO (XO (XO (XI (XI
    (XI (XO (XO (XI XH)))))))))) :: []))) :: (((Zpos (XO (XI (XI (XI (XO (XI
    (XO (XI (XI (XO (XO (XO (XO XH)))))))))))))), ((Zpos (XO (XO (XI (XO (XI
    (XO (XO (XI (XI (XO (XO (XO (XO XH)))))))))))))) :: ((Zpos (XO (XO (XO
    (XI (XI (XI (XO (XO (XI XH)))))))))) :: []))) :: (((Zpos (XI (XO (XI (XI
    (XO (XO (XI (XI (XI (XO (XO (XO (XO XH)))))))))))))), ((Zpos (XO (XO (XO
    (XO (XI (XO (XI (XI (XI (XO (XO (XO (XO XH)))))))))))))) :: ((Zpos (XO
    (XO (XO (XI (XI (XI (XO (XO (XI XH)))))))))) :: []))) :: (((Zpos (XO (XI
    (XI (XI (XO (XO (XI (XI (XI (XO (XO (XO (XO XH)))))))))))))), ((Zpos (XO
    (XO (XI (XO (XI (XO (XI (XI (XI (XO (XO (XO (XO
    XH)))))))))))))) :: ((Zpos (XO (XO (XO (XI (XI (XI (XO (XO (XI
    XH)))))))))) :: []))) :: (((Zpos (XI (XI (XI (XI (XO (XO (XI (XI (XI (XO
    (XO (XO (XO XH)))))))))))))), ((Zpos (XO (XI (XO (XO (XI (XO (XI (XI (XI
    (XO (XO (XO (XO XH)))))))))))))) :: ((Zpos (XO (XO (XO (XI (XI (XI (XO
    (XO (XI XH)))))))))) :: []))) :: (((Zpos (XO (XO (XI (XO (XO (XO (XO (XO
    (XO (XI (XO (XO (XO XH)))))))))))))), ((Zpos (XI (XI (XO (XO (XO (XO (XO
    (XO (XO (XI (XO (XO (XO XH)))))))))))))) :: ((Zpos (XO (XO (XO (XI (XI
    (XI (XO (XO (XI XH)))))))))) :: []))) :: (((Zpos (XI (XO (XO (XI (XO (XO
    (XO (XO (XO (XI (XO (XO (XO XH)))))))))))))), ((Zpos (XO (XO (XO (XI (XO
    (XO (XO (XO (XO (XI (XO (XO (XO XH)))))))))))))) :: ((Zpos (XO (XO (XO
    (XI (XI (XI (XO (XO (XI XH)))))))))) :: []))) :: (((Zpos (XO (XO (XI (XI
    (XO (XO (XO (XO (XO (XI (XO (XO (XO XH)))))))))))))), ((Zpos (XI (XI (XO
    (XI (XO (XO (XO (XO (XO (XI (XO (XO (XO XH)))))))))))))) :: ((Zpos (XO
    (XO (XO (XI (XI (XI (XO (XO (XI XH)))))))))) :: []))) :: (((Zpos (XO (XO
    (XI (XO (XO (XI (XO (XO (XO (XI (XO (XO (XO XH)))))))))))))), ((Zpos (XI
    (XI (XO (XO (XO (XI (XO (XO (XO (XI (XO (XO (XO
    XH)))))))))))))) :: ((Zpos (XO (XO (XO (XI (XI (XI (XO (XO (XI
    XH)))))))))) :: []))) :: (((Zpos (XO (XI (XI (XO (XO (XI (XO (XO (XO (XI
    (XO (XO (XO XH)))))))))))))), ((Zpos (XI (XO (XI (XO (XO (XI (XO (XO (XO
    (XI (XO (XO (XO XH)))))))))))))) :: ((Zpos (XO (XO (XO (XI (XI (XI (XO
    (XO (XI XH)))))))))) :: []))) :: (((Zpos (XI (XO (XO (XO (XO (XO (XI (XO
    (XO (XI (XO (XO (XO XH)))))))))))))), ((Zpos (XO (XO (XI (XI (XI (XI (XO
    (XO (XO (XI (XO (XO (XO XH)))))))))))))) :: ((Zpos (XO (XO (XO (XI (XI
    (XI (XO (XO (XI XH)))))))))) :: []))) :: (((Zpos (XO (XO (XI (XO (XO (XO
    (XI (XO (XO (XI (XO (XO (XO XH)))))))))))))), ((Zpos (XI (XI (XO (XO (XO
    (XO (XI (XO (XO (XI (XO (XO (XO XH)))))))))))))) :: ((Zpos (XO (XO (XO
    (XI (XI (XI (XO (XO (XI XH)))))))))) :: []))) :: (((Zpos (XI (XI (XI (XO
    (XO (XO (XI (XO (XO (XI (XO (XO (XO XH)))))))))))))), ((Zpos (XI (XO (XI
    (XO (XO (XO (XI (XO (XO (XI (XO (XO (XO XH)))))))))))))) :: ((Zpos (XO
    (XO (XO (XI (XI (XI (XO (XO (XI XH)))))))))) :: []))) :: (((Zpos (XI (XO
    (XO (XI (XO (XO (XI (XO (XO (XI (XO (XO (XO XH)))))))))))))), ((Zpos (XO
    (XO (XO (XI (XO (XO (XI (XO (XO (XI (XO (XO (XO
    XH)))))))))))))) :: ((Zpos (XO (XO (XO (XI (XI (XI (XO (XO (XI
    XH)))))))))) :: []))) :: (((Zpos (XO (XO (XO (XO (XO (XI (XI (XO (XO (XI
    (XO (XO (XO XH)))))))))))))), ((Zpos (XI (XO (XI (XI (XI
    XH)))))) :: ((Zpos (XO (XO (XO (XI (XI (XI (XO (XO (XI
    XH)))))))))) :: []))) :: (((Zpos (XO (XI (XO (XO (XO (XI (XI (XO (XO (XI
    (XO (XO (XO XH)))))))))))))), ((Zpos (XI (XO (XO (XO (XO (XI (XI (XO (XO
    (XI (XO (XO (XO XH)))))))))))))) :: ((Zpos (XO (XO (XO (XI (XI (XI (XO
    (XO (XI XH)))))))))) :: []))) :: (((Zpos (XI (XO (XI (XI (XO (XI (XI (XO
    (XO (XI (XO (XO (XO XH)))))))))))))), ((Zpos (XI (XO (XI (XI (XO (XO (XI
    (XO (XO (XI (XO (XO (XO XH)))))))))))))) :: ((Zpos (XO (XO (XO (XI (XI
    (XI (XO (XO (XI XH)))))))))) :: []))) :: (((Zpos (XO (XI (XI (XI (XO (XI
    (XI (XO (XO (XI (XO (XO (XO XH)))))))))))))), ((Zpos (XO (XO (XI (XI (XI
    XH)))))) :: ((Zpos (XO (XO (XO (XI (XI (XI (XO (XO (XI
    XH)))))))))) :: []))) :: (((Zpos (XI (XI (XI (XI (XO (XI (XI (XO (XO (XI
    (XO (XO (XO XH)))))))))))))), ((Zpos (XO (XI (XI (XI (XI
    XH)))))) :: ((Zpos (XO (XO (XO (XI (XI (XI (XO (XO (XI
    XH)))))))))) :: []))) :: (((Zpos (XO (XO (XO (XO (XI (XI (XI (XO (XO (XI
    (XO (XO (XO XH)))))))))))))), ((Zpos (XO (XO (XI (XO (XO (XI (XI (XO (XO
    (XI (XO (XO (XO XH)))))))))))))) :: ((Zpos (XO (XO (XO (XI (XI (XI (XO
    (XO (XI XH)))))))))) :: []))) :: (((Zpos (XI (XO (XO (XO (XI (XI (XI (XO
    (XO (XI (XO (XO (XO XH)))))))))))))), ((Zpos (XI (XO (XI (XO (XO (XI (XI
    (XO (XO (XI (XO (XO (XO XH)))))))))))))) :: ((Zpos (XO (XO (XO (XI (XI
    (XI (XO (XO (XI XH)))))))))) :: []))) :: (((Zpos (XO (XO (XI (XO (XI (XI
    (XI (XO (XO (XI (XO (XO (XO XH)))))))))))))), ((Zpos (XO (XI (XO (XO (XI
    (XI (XI (XO (XO (XI (XO (XO (XO XH)))))))))))))) :: ((Zpos (XO (XO (XO
    (XI (XI (XI (XO (XO (XI XH)))))))))) :: []))) :: (((Zpos (XI (XO (XI (XO
    (XI (XI (XI (XO (XO (XI (XO (XO (XO XH)))))))))))))), ((Zpos (XI (XI (XO
    (XO (XI (XI (XI (XO (XO (XI (XO (XO (XO XH)))))))))))))) :: ((Zpos (XO
    (XO (XO (XI (XI (XI (XO (XO (XI XH)))))))))) :: []))) :: (((Zpos (XO (XO
    (XO (XI (XI (XI (XI (XO (XO (XI (XO (XO (XO XH)))))))))))))), ((Zpos (XO
    (XI (XI (XO (XI (XI (XI (XO (XO (XI (XO (XO (XO
    XH)))))))))))))) :: ((Zpos (XO (XO (XO (XI (XI (XI (XO (XO (XI
    XH)))))))))) :: []))) :: (((Zpos (XI (XO (XO (XI (XI (XI (XI (XO (XO (XI
    (XO (XO (XO XH)))))))))))))), ((Zpos (XI (XI (XI (XO (XI (XI (XI (XO (XO
    (XI (XO (XO (XO XH)))))))))))))) :: ((Zpos (XO (XO (XO (XI (XI (XI (XO
    (XO (XI XH)))))))))) :: []))) :: (((Zpos (XO (XO (XO (XO (XO (XO (XO (XI
    (XO (XI (XO (XO (XO XH)))))))))))))), ((Zpos (XO (XI (XO (XI (XI (XI (XI
    (XO (XO (XI (XO (XO (XO XH)))))))))))))) :: ((Zpos (XO (XO (XO (XI (XI
    (XI (XO (XO (XI XH)))))))))) :: []))) :: (((Zpos (XI (XO (XO (XO (XO (XO
    (XO (XI (XO (XI (XO (XO (XO XH)))))))))))))), ((Zpos (XI (XI (XO (XI (XI
    (XI (XI (XO (XO (XI (XO (XO (XO XH)))))))))))))) :: ((Zpos (XO (XO (XO
    (XI (XI (XI (XO (XO (XI XH)))))))))) :: []))) :: (((Zpos (XO (XO (XI (XO
    (XO (XO (XO (XI (XO (XI (XO (XO (XO XH)))))))))))))), ((Zpos (XO (XI (XO
    (XO (XO (XO (XO (XI (XO (XI (XO (XO (XO XH)))))))))))))) :: ((Zpos (XO
    (XO (XO (XI (XI (XI (XO (XO (XI XH)))))))))) :: []))) :: (((Zpos (XI (XO
    (XI (XO (XO (XO (XO (XI (XO (XI (XO (XO (XO XH)))))))))))))), ((Zpos (XI
    (XI (XO (XO (XO (XO (XO (XI (XO (XI (XO (XO (XO
    XH)))))))))))))) :: ((Zpos (XO (XO (XO (XI (XI (XI (XO (XO (XI
    XH)))))))))) :: []))) :: (((Zpos (XO (XO (XO (XI (XO (XO (XO (XI (XO (XI
    (XO (XO (XO XH)))))))))))))), ((Zpos (XO (XI (XI (XO (XO (XO (XO (XI (XO
    (XI (XO (XO (XO XH)))))))))))))) :: ((Zpos (XO (XO (XO (XI (XI (XI (XO
    (XO (XI XH)))))))))) :: []))) :: (((Zpos (XI (XO (XO (XI (XO (XO (XO (XI
    (XO (XI (XO (XO (XO XH)))))))))))))), ((Zpos (XI (XI (XI (XO (XO (XO (XO
    (XI (XO (XI (XO (XO (XO XH)))))))))))))) :: ((Zpos (XO (XO (XO (XI (XI
    (XI (XO (XO (XI XH)))))))))) :: []))) :: (((Zpos (XO (XO (XI (XI (XO (XI
    (XO (XI (XO (XI (XO (XO (XO XH)))))))))))))), ((Zpos (XO (XI (XO (XO (XO
    (XI (XO (XI (XO (XI (XO (XO (XO XH)))))))))))))) :: ((Zpos (XO (XO (XO
    (XI (XI (XI (XO (XO (XI XH)))))))))) :: []))) :: (((Zpos (XI (XO (XI (XI
    (XO (XI (XO (XI (XO (XI (XO (XO (XO XH)))))))))))))), ((Zpos (XO (XO (XO
    (XI (XO (XI (XO (XI (XO (XI (XO (XO (XO XH)))))))))))))) :: ((Zpos (XO
    (XO (XO (XI (XI (XI (XO (XO (XI XH)))))))))) :: []))) :: (((Zpos (XO (XI
    (XI (XI (XO (XI (XO (XI (XO (XI (XO (XO (XO XH)))))))))))))), ((Zpos (XI
    (XO (XO (XI (XO (XI (XO (XI (XO (XI (XO (XO (XO
    XH)))))))))))))) :: ((Zpos (XO (XO (XO (XI (XI (XI (XO (XO (XI
    XH)))))))))) :: []))) :: (((Zpos (XI (XI (XI (XI (XO (XI (XO (XI (XO (XI
    (XO (XO (XO XH)))))))))))))), ((Zpos (XI (XI (XO (XI (XO (XI (XO (XI (XO
    (XI (XO (XO (XO XH)))))))))))))) :: ((Zpos (XO (XO (XO (XI (XI (XI (XO
    (XO (XI XH)))))))))) :: []))) :: (((Zpos (XO (XO (XO (XO (XO (XI (XI (XI
    (XO (XI (XO (XO (XO XH)))))))))))))), ((Zpos (XO (XO (XI (XI (XI (XI (XI
    (XO (XO (XI (XO (XO (XO XH)))))))))))))) :: ((Zpos (XO (XO (XO (XI (XI
    (XI (XO (XO (XI XH)))))))))) :: []))) :: (((Zpos (XI (XO (XO (XO (XO (XI
    (XI (XI (XO (XI (XO (XO (XO XH)))))))))))))), ((Zpos (XI (XO (XI (XI (XI
    (XI (XI (XO (XO (XI (XO (XO (XO XH)))))))))))))) :: ((Zpos (XO (XO (XO
    (XI (XI (XI (XO (XO (XI XH)))))))))) :: []))) :: (((Zpos (XO (XI (XO (XO
    (XO (XI (XI (XI (XO (XI (XO (XO (XO XH)))))))))))))), ((Zpos (XI (XO (XO
    (XO (XI (XO (XO (XI (XO (XI (XO (XO (XO XH)))))))))))))) :: ((Zpos (XO
    (XO (XO (XI (XI (XI (XO (XO (XI XH)))))))))) :: []))) :: (((Zpos (XI (XI
    (XO (XO (XO (XI (XI (XI (XO (XI (XO (XO (XO XH)))))))))))))), ((Zpos (XO
    (XI (XO (XO (XI (XO (XO (XI (XO (XI (XO (XO (XO
    XH)))))))))))))) :: ((Zpos (XO (XO (XO (XI (XI (XI (XO (XO (XI
    XH)))))))))) :: []))) :: (((Zpos (XO (XI (XO (XI (XO (XI (XI (XI (XO (XI
    (XO (XO (XO XH)))))))))))))), ((Zpos (XO (XI (XO (XO (XI (XI (XO (XI (XO
    (XI (XO (XO (XO XH)))))))))))))) :: ((Zpos (XO (XO (XO (XI (XI (XI (XO
    (XO (XI XH)))))))))) :: []))) :: (((Zpos (XI (XI (XO (XI (XO (XI (XI (XI
    (XO (XI (XO (XO (XO XH)))))))))))))), ((Zpos (XI (XI (XO (XO (XI (XI (XO
    (XI (XO (XI (XO (XO (XO XH)))))))))))))) :: ((Zpos (XO (XO (XO (XI (XI
    (XI (XO (XO (XI XH)))))))))) :: []))) :: (((Zpos (XO (XO (XI (XI (XO (XI
    (XI (XI (XO (XI (XO (XO (XO XH)))))))))))))), ((Zpos (XO (XO (XI (XO (XI
    (XI (XO (XI (XO (XI (XO (XO (XO XH)))))))))))))) :: ((Zpos (XO (XO (XO
    (XI (XI (XI (XO (XO (XI XH)))))))))) :: []))) :: (((Zpos (XI (XO (XI (XI
    (XO (XI (XI (XI (XO (XI (XO (XO (XO XH)))))))))))))), ((Zpos (XI (XO (XI
    (XO (XI (XI (XO (XI (XO (XI (XO (XO (XO XH)))))))))))))) :: ((Zpos (XO
    (XO (XO (XI (XI (XI (XO (XO (XI XH)))))))))) :: []))) :: (((Zpos (XI (XO
    (XO (XI (XO (XI (XO (XO (XI (XI (XO (XO (XO XH)))))))))))))), ((Zpos (XO
    (XO (XO (XI (XO (XO (XO (XO (XO (XO (XO (XO (XI
    XH)))))))))))))) :: [])) :: (((Zpos (XO (XI (XO (XI (XO (XI (XO (XO (XI
    (XI (XO (XO (XO XH)))))))))))))), ((Zpos (XI (XO (XO (XI (XO (XO (XO (XO
    (XO (XO (XO (XO (XI XH)))))))))))))) :: [])) :: (((Zpos (XO (XO (XI (XI
    (XI (XO (XI (XI (XO (XI (XO (XI (XO XH)))))))))))))), ((Zpos (XI (XO (XI
    (XI (XI (XO (XI (XI (XO (XI (XO (XI (XO XH)))))))))))))) :: ((Zpos (XO
    (XO (XO (XI (XI (XI (XO (XO (XI XH)))))))))) :: []))) :: (((Zpos (XO (XO
    (XI (XI (XO (XO (XI (XO (XO (XO (XO (XO (XI XH)))))))))))))), ((Zpos (XI
    (XI (XO (XI (XO (XO (XI (XO (XO (XO (XO (XO (XI
    XH)))))))))))))) :: ((Zpos (XI (XO (XO (XI (XI (XO (XO (XI (XO (XO (XO
    (XO (XI XH)))))))))))))) :: []))) :: (((Zpos (XO (XI (XI (XI (XO (XO (XI
    (XO (XO (XO (XO (XO (XI XH)))))))))))))), ((Zpos (XI (XO (XI (XI (XO (XO
    (XI (XO (XO (XO (XO (XO (XI XH)))))))))))))) :: ((Zpos (XI (XO (XO (XI
    (XI (XO (XO (XI (XO (XO (XO (XO (XI XH)))))))))))))) :: []))) :: (((Zpos
    (XO (XO (XO (XO (XI (XO (XI (XO (XO (XO (XO (XO (XI XH)))))))))))))),
    ((Zpos (XI (XI (XI (XI (XO (XO (XI (XO (XO (XO (XO (XO (XI
    XH)))))))))))))) :: ((Zpos (XI (XO (XO (XI (XI (XO (XO (XI (XO (XO (XO
    (XO (XI XH)))))))))))))) :: []))) :: (((Zpos (XO (XI (XO (XO (XI (XO (XI
    (XO (XO (XO (XO (XO (XI XH)))))))))))))), ((Zpos (XI (XO (XO (XO (XI (XO
    (XI (XO (XO (XO (XO (XO (XI XH)))))))))))))) :: ((Zpos (XI (XO (XO (XI
    (XI (XO (XO (XI (XO (XO (XO (XO (XI XH)))))))))))))) :: []))) :: (((Zpos
    (XO (XO (XI (XO (XI (XO (XI (XO (XO (XO (XO (XO (XI XH)))))))))))))),
    ((Zpos (XI (XI (XO (XO (XI (XO (XI (XO (XO (XO (XO (XO (XI
    XH)))))))))))))) :: ((Zpos (XI (XO (XO (XI (XI (XO (XO (XI (XO (XO (XO
    (XO (XI XH)))))))))))))) :: []))) :: (((Zpos (XO (XI (XI (XO (XI (XO (XI
    (XO (XO (XO (XO (XO (XI XH)))))))))))))), ((Zpos (XI (XO (XI (XO (XI (XO
    (XI (XO (XO (XO (XO (XO (XI XH)))))))))))))) :: ((Zpos (XI (XO (XO (XI
    (XI (XO (XO (XI (XO (XO (XO (XO (XI XH)))))))))))))) :: []))) :: (((Zpos
    (XO (XO (XO (XI (XI (XO (XI (XO (XO (XO (XO (XO (XI XH)))))))))))))),
    ((Zpos (XI (XI (XI (XO (XI (XO (XI (XO (XO (XO (XO (XO (XI
    XH)))))))))))))) :: ((Zpos (XI (XO (XO (XI (XI (XO (XO (XI (XO (XO (XO
    (XO (XI XH)))))))))))))) :: []))) :: (((Zpos (XO (XI (XO (XI (XI (XO (XI
    (XO (XO (XO (XO (XO (XI XH)))))))))))))), ((Zpos (XI (XO (XO (XI (XI (XO
    (XI (XO (XO (XO (XO (XO (XI XH)))))))))))))) :: ((Zpos (XI (XO (XO (XI
    (XI (XO (XO (XI (XO (XO (XO (XO (XI XH)))))))))))))) :: []))) :: (((Zpos
    (XO (XO (XI (XI (XI (XO (XI (XO (XO (XO (XO (XO (XI XH)))))))))))))),
    ((Zpos (XI (XI (XO (XI (XI (XO (XI (XO (XO (XO (XO (XO (XI
    XH)))))))))))))) :: ((Zpos (XI (XO (XO (XI (XI (XO (XO (XI (XO (XO (XO
    (XO (XI XH)))))))))))))) :: []))) :: (((Zpos (XO (XI (XI (XI (XI (XO (XI
    (XO (XO (XO (XO (XO (XI XH)))))))))))))), ((Zpos (XI (XO (XI (XI (XI (XO
    (XI (XO (XO (XO (XO (XO (XI XH)))))))))))))) :: ((Zpos (XI (XO (XO (XI
    (XI (XO (XO (XI (XO (XO (XO (XO (XI XH)))))))))))))) :: []))) :: (((Zpos
    (XO (XO (XO (XO (XO (XI (XI (XO (XO (XO (XO (XO (XI XH)))))))))))))),
    ((Zpos (XI (XI (XI (XI (XI (XO (XI (XO (XO (XO (XO (XO (XI
    XH)))))))))))))) :: ((Zpos (XI (XO (XO (XI (XI (XO (XO (XI (XO (XO (XO
    (XO (XI XH)))))))))))))) :: []))) :: (((Zpos (XO (XI (XO (XO (XO (XI (XI
    (XO (XO (XO (XO (XO (XI XH)))))))))))))), ((Zpos (XI (XO (XO (XO (XO (XI
    (XI (XO (XO (XO (XO (XO (XI XH)))))))))))))) :: ((Zpos (XI (XO (XO (XI
    (XI (XO (XO (XI (XO (XO (XO (XO (XI XH)))))))))))))) :: []))) :: (((Zpos
    (XI (XO (XI (XO (XO (XI (XI (XO (XO (XO (XO (XO (XI XH)))))))))))))),
    ((Zpos (XO (XO (XI (XO (XO (XI (XI (XO (XO (XO (XO (XO (XI
    XH)))))))))))))) :: ((Zpos (XI (XO (XO (XI (XI (XO (XO (XI (XO (XO (XO
    (XO (XI XH)))))))))))))) :: []))) :: (((Zpos (XI (XI (XI (XO (XO (XI (XI
    (XO (XO (XO (XO (XO (XI XH)))))))))))))), ((Zpos (XO (XI (XI (XO (XO (XI
    (XI (XO (XO (XO (XO (XO (XI XH)))))))))))))) :: ((Zpos (XI (XO (XO (XI
    (XI (XO (XO (XI (XO (XO (XO (XO (XI XH)))))))))))))) :: []))) :: (((Zpos
    (XI (XO (XO (XI (XO (XI (XI (XO (XO (XO (XO (XO (XI XH)))))))))))))),
    ((Zpos (XO (XO (XO (XI (XO (XI (XI (XO (XO (XO (XO (XO (XI
    XH)))))))))))))) :: ((Zpos (XI (XO (XO (XI (XI (XO (XO (XI (XO (XO (XO
    (XO (XI XH)))))))))))))) :: []))) :: (((Zpos (XO (XO (XO (XO (XI (XI (XI
    (XO (XO (XO (XO (XO (XI XH)))))))))))))), ((Zpos (XI (XI (XI (XI (XO (XI
    (XI (XO (XO (XO (XO (XO (XI XH)))))))))))))) :: ((Zpos (XI (XO (XO (XI
    (XI (XO (XO (XI (XO (XO (XO (XO (XI XH)))))))))))))) :: []))) :: (((Zpos
    (XI (XO (XO (XO (XI (XI (XI (XO (XO (XO (XO (XO (XI XH)))))))))))))),
    ((Zpos (XI (XI (XI (XI (XO (XI (XI (XO (XO (XO (XO (XO (XI
    XH)))))))))))))) :: ((Zpos (XO (XI (XO (XI (XI (XO (XO (XI (XO (XO (XO
    (XO (XI XH)))))))))))))) :: []))) :: (((Zpos (XI (XI (XO (XO (XI (XI (XI
    (XO (XO (XO (XO (XO (XI XH)))))))))))))), ((Zpos (XO (XI (XO (XO (XI (XI
    (XI (XO (XO (XO (XO (XO (XI XH)))))))))))))) :: ((Zpos (XI (XO (XO (XI
    (XI (XO (XO (XI (XO (XO (XO (XO (XI XH)))))))))))))) :: []))) :: (((Zpos
    (XO (XO (XI (XO (XI (XI (XI (XO (XO (XO (XO (XO (XI XH)))))))))))))),
    ((Zpos (XO (XI (XO (XO (XI (XI (XI (XO (XO (XO (XO (XO (XI
    XH)))))))))))))) :: ((Zpos (XO (XI (XO (XI (XI (XO (XO (XI (XO (XO (XO
    (XO (XI XH)))))))))))))) :: []))) :: (((Zpos (XO (XI (XI (XO (XI (XI (XI
    (XO (XO (XO (XO (XO (XI XH)))))))))))))), ((Zpos (XI (XO (XI (XO (XI (XI
    (XI (XO (XO (XO (XO (XO (XI XH)))))))))))))) :: ((Zpos (XI (XO (XO (XI
    (XI (XO (XO (XI (XO (XO (XO (XO (XI XH)))))))))))))) :: []))) :: (((Zpos
    (XI (XI (XI (XO (XI (XI (XI (XO (XO (XO (XO (XO (XI XH)))))))))))))),
    ((Zpos (XI (XO (XI (XO (XI (XI (XI (XO (XO (XO (XO (XO (XI
    XH)))))))))))))) :: ((Zpos (XO (XI (XO (XI (XI (XO (XO (XI (XO (XO (XO
    (XO (XI XH)))))))))))))) :: []))) :: (((Zpos (XI (XO (XO (XI (XI (XI (XI
    (XO (XO (XO (XO (XO (XI XH)))))))))))))), ((Zpos (XO (XO (XO (XI (XI (XI
    (XI (XO (XO (XO (XO (XO (XI XH)))))))))))))) :: ((Zpos (XI (XO (XO (XI
    (XI (XO (XO (XI (XO (XO (XO (XO (XI XH)))))))))))))) :: []))) :: (((Zpos
    (XO (XI (XO (XI (XI (XI (XI (XO (XO (XO (XO (XO (XI XH)))))))))))))),
    ((Zpos (XO (XO (XO (XI (XI (XI (XI (XO (XO (XO (XO (XO (XI
    XH)))))))))))))) :: ((Zpos (XO (XI (XO (XI (XI (XO (XO (XI (XO (XO (XO
    (XO (XI XH)))))))))))))) :: []))) :: (((Zpos (XO (XO (XI (XI (XI (XI (XI
    (XO (XO (XO (XO (XO (XI XH)))))))))))))), ((Zpos (XI (XI (XO (XI (XI (XI
    (XI (XO (XO (XO (XO (XO (XI XH)))))))))))))) :: ((Zpos (XI (XO (XO (XI
    (XI (XO (XO (XI (XO (XO (XO (XO (XI XH)))))))))))))) :: []))) :: (((Zpos
    (XI (XO (XI (XI (XI (XI (XI (XO (XO (XO (XO (XO (XI XH)))))))))))))),
    ((Zpos (XI (XI (XO (XI (XI (XI (XI (XO (XO (XO (XO (XO (XI
    XH)))))))))))))) :: ((Zpos (XO (XI (XO (XI (XI (XO (XO (XI (XO (XO (XO
    (XO (XI XH)))))))))))))) :: []))) :: (((Zpos (XO (XO (XI (XO (XI (XO (XO
    (XI (XO (XO (XO (XO (XI XH)))))))))))))), ((Zpos (XO (XI (XI (XO (XO (XO
    (XI (XO (XO (XO (XO (XO (XI XH)))))))))))))) :: ((Zpos (XI (XO (XO (XI
    (XI (XO (XO (XI (XO (XO (XO (XO (XI XH)))))))))))))) :: []))) :: (((Zpos
    (XO (XI (XI (XI (XI (XO (XO (XI (XO (XO (XO (XO (XI XH)))))))))))))),
    ((Zpos (XI (XO (XI (XI (XI (XO (XO (XI (XO (XO (XO (XO (XI
    XH)))))))))))))) :: ((Zpos (XI (XO (XO (XI (XI (XO (XO (XI (XO (XO (XO
    (XO (XI XH)))))))))))))) :: []))) :: (((Zpos (XO (XO (XI (XI (XO (XI (XO
    (XI (XO (XO (XO (XO (XI XH)))))))))))))), ((Zpos (XI (XI (XO (XI (XO (XI
    (XO (XI (XO (XO (XO (XO (XI XH)))))))))))))) :: ((Zpos (XI (XO (XO (XI
    (XI (XO (XO (XI (XO (XO (XO (XO (XI XH)))))))))))))) :: []))) :: (((Zpos
    (XO (XI (XI (XI (XO (XI (XO (XI (XO (XO (XO (XO (XI XH)))))))))))))),
    ((Zpos (XI (XO (XI (XI (XO (XI (XO (XI (XO (XO (XO (XO (XI
    XH)))))))))))))) :: ((Zpos (XI (XO (XO (XI (XI (XO (XO (XI (XO (XO (XO
    (XO (XI XH)))))))))))))) :: []))) :: (((Zpos (XO (XO (XO (XO (XI (XI (XO
    (XI (XO (XO (XO (XO (XI XH)))))))))))))), ((Zpos (XI (XI (XI (XI (XO (XI
    (XO (XI (XO (XO (XO (XO (XI XH)))))))))))))) :: ((Zpos (XI (XO (XO (XI
    (XI (XO (XO (XI (XO (XO (XO (XO (XI XH)))))))))))))) :: []))) :: (((Zpos
    (XO (XI (XO (XO (XI (XI (XO (XI (XO (XO (XO (XO (XI XH)))))))))))))),
    ((Zpos (XI (XO (XO (XO (XI (XI (XO (XI (XO (XO (XO (XO (XI
    XH)))))))))))))) :: ((Zpos (XI (XO (XO (XI (XI (XO (XO (XI (XO (XO (XO
    (XO (XI XH)))))))))))))) :: []))) :: (((Zpos (XO (XO (XI (XO (XI (XI (XO
    (XI (XO (XO (XO (XO (XI XH)))))))))))))), ((Zpos (XI (XI (XO (XO (XI (XI
    (XO (XI (XO (XO (XO (XO (XI XH)))))))))))))) :: ((Zpos (XI (XO (XO (XI
    (XI (XO (XO (XI (XO (XO (XO (XO (XI XH)))))))))))))) :: []))) :: (((Zpos
    (XO (XI (XI (XO (XI (XI (XO (XI (XO (XO (XO (XO (XI XH)))))))))))))),
    ((Zpos (XI (XO (XI (XO (XI (XI (XO (XI (XO (XO (XO (XO (XI
    XH)))))))))))))) :: ((Zpos (XI (XO (XO (XI (XI (XO (XO (XI (XO (XO (XO
    (XO (XI XH)))))))))))))) :: []))) :: (((Zpos (XO (XO (XO (XI (XI (XI (XO
    (XI (XO (XO (XO (XO (XI XH)))))))))))))), ((Zpos (XI (XI (XI (XO (XI (XI
    (XO (XI (XO (XO (XO (XO (XI XH)))))))))))))) :: ((Zpos (XI (XO (XO (XI
    (XI (XO (XO (XI (XO (XO (XO (XO (XI XH)))))))))))))) :: []))) :: (((Zpos
    (XO (XI (XO (XI (XI (XI (XO (XI (XO (XO (XO (XO (XI XH)))))))))))))),
    ((Zpos (XI (XO (XO (XI (XI (XI (XO (XI (XO (XO (XO (XO (XI
    XH)))))))))))))) :: ((Zpos (XI (XO (XO (XI (XI (XO (XO (XI (XO (XO (XO
    (XO (XI XH)))))))))))))) :: []))) :: (((Zpos (XO (XO (XI (XI (XI (XI (XO
    (XI (XO (XO (XO (XO (XI XH)))))))))))))), ((Zpos (XI (XI (XO (XI (XI (XI
    (XO (XI (XO (XO (XO (XO (XI XH)))))))))))))) :: ((Zpos (XI (XO (XO (XI
    (XI (XO (XO (XI (XO (XO (XO (XO (XI XH)))))))))))))) :: []))) :: (((Zpos
    (XO (XI (XI (XI (XI (XI (XO (XI (XO (XO (XO (XO (XI XH)))))))))))))),
    ((Zpos (XI (XO (XI (XI (XI (XI (XO (XI (XO (XO (XO (XO (XI
    XH)))))))))))))) :: ((Zpos (XI (XO (XO (XI (XI (XO (XO (XI (XO (XO (XO
    (XO (XI XH)))))))))))))) :: []))) :: (((Zpos (XO (XO (XO (XO (XO (XO (XI
    (XI (XO (XO (XO (XO (XI XH)))))))))))))), ((Zpos (XI (XI (XI (XI (XI (XI
    (XO (XI (XO (XO (XO (XO (XI XH)))))))))))))) :: ((Zpos (XI (XO (XO (XI
    (XI (XO (XO (XI (XO (XO (XO (XO (XI XH)))))))))))))) :: []))) :: (((Zpos
    (XO (XI (XO (XO (XO (XO (XI (XI (XO (XO (XO (XO (XI XH)))))))))))))),
    ((Zpos (XI (XO (XO (XO (XO (XO (XI (XI (XO (XO (XO (XO (XI
    XH)))))))))))))) :: ((Zpos (XI (XO (XO (XI (XI (XO (XO (XI (XO (XO (XO
    (XO (XI XH)))))))))))))) :: []))) :: (((Zpos (XI (XO (XI (XO (XO (XO (XI
    (XI (XO (XO (XO (XO (XI XH)))))))))))))), ((Zpos (XO (XO (XI (XO (XO (XO
    (XI (XI (XO (XO (XO (XO (XI XH)))))))))))))) :: ((Zpos (XI (XO (XO (XI
    (XI (XO (XO (XI (XO (XO (XO (XO (XI XH)))))))))))))) :: []))) :: (((Zpos
    (XI (XI (XI (XO (XO (XO (XI (XI (XO (XO (XO (XO (XI XH)))))))))))))),
    ((Zpos (XO (XI (XI (XO (XO (XO (XI (XI (XO (XO (XO (XO (XI
    XH)))))))))))))) :: ((Zpos (XI (XO (XO (XI (XI (XO (XO (XI (XO (XO (XO
    (XO (XI XH)))))))))))))) :: []))) :: (((Zpos (XI (XO (XO (XI (XO (XO (XI
    (XI (XO (XO (XO (XO (XI XH)))))))))))))), ((Zpos (XO (XO (XO (XI (XO (XO
    (XI (XI (XO (XO (XO (XO (XI XH)))))))))))))) :: ((Zpos (XI (XO (XO (XI
    (XI (XO (XO (XI (XO (XO (XO (XO (XI XH)))))))))))))) :: []))) :: (((Zpos
    (XO (XO (XO (XO (XI (XO (XI (XI (XO (XO (XO (XO (XI XH)))))))))))))),
    ((Zpos (XI (XI (XI (XI (XO (XO (XI (XI (XO (XO (XO (XO (XI
    XH)))))))))))))) :: ((Zpos (XI (XO (XO (XI (XI (XO (XO (XI (XO (XO (XO
    (XO (XI XH)))))))))))))) :: []))) :: (((Zpos (XI (XO (XO (XO (XI (XO (XI
    (XI (XO (XO (XO (XO (XI XH)))))))))))))), ((Zpos (XI (XI (XI (XI (XO (XO
    (XI (XI (XO (XO (XO (XO (XI XH)))))))))))))) :: ((Zpos (XO (XI (XO (XI
    (XI (XO (XO (XI (XO (XO (XO (XO (XI XH)))))))))))))) :: []))) :: (((Zpos
    (XI (XI (XO (XO (XI (XO (XI (XI (XO (XO (XO (XO (XI XH)))))))))))))),
    ((Zpos (XO (XI (XO (XO (XI (XO (XI (XI (XO (XO (XO (XO (XI
    XH)))))))))))))) :: ((Zpos (XI (XO (XO (XI (XI (XO (XO (XI (XO (XO (XO
    (XO (XI XH)))))))))))))) :: []))) :: (((Zpos (XO (XO (XI (XO (XI (XO (XI
    (XI (XO (XO (XO (XO (XI XH)))))))))))))), ((Zpos (XO (XI (XO (XO (XI (XO
    (XI (XI (XO (XO (XO (XO (XI XH)))))))))))))) :: ((Zpos (XO (XI (XO (XI
    (XI (XO (XO (XI (XO (XO (XO (XO (XI XH)))))))))))))) :: []))) :: (((Zpos
    (XO (XI (XI (XO (XI (XO (XI (XI (XO (XO (XO (XO (XI XH)))))))))))))),
    ((Zpos (XI (XO (XI (XO (XI (XO (XI (XI (XO (XO (XO (XO (XI
    XH)))))))))))))) :: ((Zpos (XI (XO (XO (XI (XI (XO (XO (XI (XO (XO (XO
    (XO (XI XH)))))))))))))) :: []))) :: (((Zpos (XI (XI (XI (XO (XI (XO (XI
    (XI (XO (XO (XO (XO (XI XH)))))))))))))), ((Zpos (XI (XO (XI (XO (XI (XO
    (XI (XI (XO (XO (XO (XO (XI XH)))))))))))))) :: ((Zpos (XO (XI (XO (XI
    (XI (XO (XO (XI (XO (XO (XO (XO (XI XH)))))))))))))) :: []))) :: (((Zpos
    (XI (XO (XO (XI (XI (XO (XI (XI (XO (XO (XO (XO (XI XH)))))))))))))),
    ((Zpos (XO (XO (XO (XI (XI (XO (XI (XI (XO (XO (XO (XO (XI
    XH)))))))))))))) :: ((Zpos (XI (XO (XO (XI (XI (XO (XO (XI (XO (XO (XO
    (XO (XI XH)))))))))))))) :: []))) :: (((Zpos (XO (XI (XO (XI (XI (XO (XI
    (XI (XO (XO (XO (XO (XI XH)))))))))))))), ((Zpos (XO (XO (XO (XI (XI (XO
    (XI (XI (XO (XO (XO (XO (XI XH)))))))))))))) :: ((Zpos (XO (XI (XO (XI
    (XI (XO (XO (XI (XO (XO (XO (XO (XI XH)))))))))))))) :: []))) :: (((Zpos
    (XO (XO (XI (XI (XI (XO (XI (XI (XO (XO (XO (XO (XI XH)))))))))))))),
    ((Zpos (XI (XI (XO (XI (XI (XO (XI (XI (XO (XO (XO (XO (XI
    XH)))))))))))))) :: ((Zpos (XI (XO (XO (XI (XI (XO (XO (XI (XO (XO (XO
    (XO (XI XH)))))))))))))) :: []))) :: (((Zpos (XI (XO (XI (XI (XI (XO (XI
    (XI (XO (XO (XO (XO (XI XH)))))))))))))), ((Zpos (XI (XI (XO (XI (XI (XO
    (XI (XI (XO (XO (XO (XO (XI XH)))))))))))))) :: ((Zpos (XO (XI (XO (XI
    (XI (XO (XO (XI (XO (XO (XO (XO (XI XH)))))))))))))) :: []))) :: (((Zpos
    (XO (XO (XI (XO (XI (XI (XI (XI (XO (XO (XO (XO (XI XH)))))))))))))),
    ((Zpos (XO (XI (XI (XO (XO (XI (XO (XI (XO (XO (XO (XO (XI
    XH)))))))))))))) :: ((Zpos (XI (XO (XO (XI (XI (XO (XO (XI (XO (XO (XO
    (XO (XI XH)))))))))))))) :: []))) :: (((Zpos (XI (XI (XI (XO (XI (XI (XI
    (XI (XO (XO (XO (XO (XI XH)))))))))))))), ((Zpos (XI (XI (XI (XI (XO (XI
    (XI (XI (XO (XO (XO (XO (XI XH)))))))))))))) :: ((Zpos (XI (XO (XO (XI
    (XI (XO (XO (XI (XO (XO (XO (XO (XI XH)))))))))))))) :: []))) :: (((Zpos
    (XO (XO (XO (XI (XI (XI (XI (XI (XO (XO (XO (XO (XI XH)))))))))))))),
    ((Zpos (XO (XO (XO (XO (XI (XI (XI (XI (XO (XO (XO (XO (XI
    XH)))))))))))))) :: ((Zpos (XI (XO (XO (XI (XI (XO (XO (XI (XO (XO (XO
    (XO (XI XH)))))))))))))) :: []))) :: (((Zpos (XI (XO (XO (XI (XI (XI (XI
    (XI (XO (XO (XO (XO (XI XH)))))))))))))), ((Zpos (XI (XO (XO (XO (XI (XI
    (XI (XI (XO (XO (XO (XO (XI XH)))))))))))))) :: ((Zpos (XI (XO (XO (XI
    (XI (XO (XO (XI (XO (XO (XO (XO (XI XH)))))))))))))) :: []))) :: (((Zpos
    (XO (XI (XO (XI (XI (XI (XI (XI (XO (XO (XO (XO (XI XH)))))))))))))),
    ((Zpos (XO (XI (XO (XO (XI (XI (XI (XI (XO (XO (XO (XO (XI
    XH)))))))))))))) :: ((Zpos (XI (XO (XO (XI (XI (XO (XO (XI (XO (XO (XO
    (XO (XI XH)))))))))))))) :: []))) :: (((Zpos (XO (XI (XI (XI (XI (XI (XI
    (XI (XO (XO (XO (XO (XI XH)))))))))))))), ((Zpos (XI (XO (XI (XI (XI (XI
    (XI (XI (XO (XO (XO (XO (XI XH)))))))))))))) :: ((Zpos (XI (XO (XO (XI
    (XI (XO (XO (XI (XO (XO (XO (XO (XI XH)))))))))))))) :: []))) :: (((Zpos
    (XO (XO (XO (XO (XO (XO (XO (XO (XI (XO (XO (XI (XI (XI (XI
    XH)))))))))))))))), ((Zpos (XO (XO (XO (XI (XO (XO (XI (XO (XO (XO (XI
    (XI (XO (XO (XO XH)))))))))))))))) :: [])) :: (((Zpos (XI (XO (XO (XO (XO
    (XO (XO (XO (XI (XO (XO (XI (XI (XI (XI XH)))))))))))))))), ((Zpos (XO
    (XO (XI (XO (XI (XI (XI (XI (XO (XI (XI (XO (XO (XI
    XH))))))))))))))) :: [])) :: (((Zpos (XO (XI (XO (XO (XO (XO (XO (XO (XI
    (XO (XO (XI (XI (XI (XI XH)))))))))))))))), ((Zpos (XO (XI (XO (XI (XO
    (XO (XI (XI (XO (XI (XI (XI (XO (XO (XO
    XH)))))))))))))))) :: [])) :: (((Zpos (XI (XI (XO (XO (XO (XO (XO (XO (XI
    (XO (XO (XI (XI (XI (XI XH)))))))))))))))), ((Zpos (XO (XO (XO (XI (XO
    (XO (XI (XI (XO (XO (XI (XI (XO (XO (XO
    XH)))))))))))))))) :: [])) :: (((Zpos (XO (XO (XI (XO (XO (XO (XO (XO (XI
    (XO (XO (XI (XI (XI (XI XH)))))))))))))))), ((Zpos (XI (XO (XO (XO (XI
    (XO (XI (XI (XO (XI (XI (XI (XO (XI XH))))))))))))))) :: [])) :: (((Zpos
    (XI (XO (XI (XO (XO (XO (XO (XO (XI (XO (XO (XI (XI (XI (XI
    XH)))))))))))))))), ((Zpos (XO (XI (XO (XO (XI (XI (XO (XO (XO (XI (XI
    (XI (XO (XO XH))))))))))))))) :: [])) :: (((Zpos (XO (XI (XI (XO (XO (XO
    (XO (XO (XI (XO (XO (XI (XI (XI (XI XH)))))))))))))))), ((Zpos (XI (XO
    (XI (XO (XO (XI (XI (XI (XI (XI (XO (XO (XI (XO
    XH))))))))))))))) :: [])) :: (((Zpos (XI (XI (XI (XO (XO (XO (XO (XO (XI
    (XO (XO (XI (XI (XI (XI XH)))))))))))))))), ((Zpos (XO (XO (XI (XI (XI
    (XO (XO (XI (XI (XI (XI (XI (XI (XO (XO
    XH)))))))))))))))) :: [])) :: (((Zpos (XO (XO (XO (XI (XO (XO (XO (XO (XI
    (XO (XO (XI (XI (XI (XI XH)))))))))))))))), ((Zpos (XO (XO (XI (XI (XI
    (XO (XO (XI (XI (XI (XI (XI (XI (XO (XO
    XH)))))))))))))))) :: [])) :: (((Zpos (XI (XO (XO (XI (XO (XO (XO (XO (XI
    (XO (XO (XI (XI (XI (XI XH)))))))))))))))), ((Zpos (XI (XO (XO (XO (XI
    (XO (XI (XO (XI (XO (XO (XI (XI (XO XH))))))))))))))) :: [])) :: (((Zpos
    (XO (XI (XO (XI (XO (XO (XO (XO (XI (XO (XO (XI (XI (XI (XI
    XH)))))))))))))))), ((Zpos (XI (XO (XO (XO (XI (XO (XI (XI (XI (XO (XO
    (XO (XI (XO (XO XH)))))))))))))))) :: [])) :: (((Zpos (XI (XI (XO (XI (XO
    (XO (XO (XO (XI (XO (XO (XI (XI (XI (XI XH)))))))))))))))), ((Zpos (XI
    (XI (XI (XO (XO (XO (XO (XI (XI (XO (XI (XO (XI (XO
    XH))))))))))))))) :: [])) :: (((Zpos (XO (XO (XI (XI (XO (XO (XO (XO (XI
    (XO (XO (XI (XI (XI (XI XH)))))))))))))))), ((Zpos (XO (XO (XO (XI (XO
    (XO (XI (XO (XI (XO (XO (XI (XI (XO XH))))))))))))))) :: [])) :: (((Zpos
    (XI (XO (XI (XI (XO (XO (XO (XO (XI (XO (XO (XI (XI (XI (XI
    XH)))))))))))))))), ((Zpos (XO (XI (XI (XO (XI (XI (XI (XI (XI (XO (XO
    (XO (XO (XI XH))))))))))))))) :: [])) :: (((Zpos (XO (XI (XI (XI (XO (XO
    (XO (XO (XI (XO (XO (XI (XI (XI (XI XH)))))))))))))))), ((Zpos (XI (XO
    (XO (XI (XO (XI (XI (XO (XO (XI (XI (XO (XI (XI
    XH))))))))))))))) :: [])) :: (((Zpos (XI (XI (XI (XI (XO (XO (XO (XO (XI
    (XO (XO (XI (XI (XI (XI XH)))))))))))))))), ((Zpos (XI (XO (XI (XO (XO
    (XO (XO (XI (XI (XI (XI (XI (XI (XI XH))))))))))))))) :: [])) :: (((Zpos
    (XO (XO (XO (XO (XI (XO (XO (XO (XI (XO (XO (XI (XI (XI (XI
    XH)))))))))))))))), ((Zpos (XI (XI (XI (XI (XI (XI (XO (XO (XO (XI (XI
    (XO (XO (XO (XO XH)))))))))))))))) :: [])) :: (((Zpos (XI (XO (XO (XO (XI
    (XO (XO (XO (XI (XO (XO (XI (XI (XI (XI XH)))))))))))))))), ((Zpos (XO
    (XI (XO (XI (XI (XI (XO (XI (XI (XI (XI (XO (XO (XO (XO
    XH)))))))))))))))) :: [])) :: (((Zpos (XO (XI (XO (XO (XI (XO (XO (XO (XI
    (XO (XO (XI (XI (XI (XI XH)))))))))))))))), ((Zpos (XO (XO (XO (XI (XI
    (XI (XI (XI (XO (XO (XO (XI (XO (XO (XO
    XH)))))))))))))))) :: [])) :: (((Zpos (XI (XI (XO (XO (XI (XO (XO (XO (XI
    (XO (XO (XI (XI (XI (XI XH)))))))))))))))), ((Zpos (XI (XI (XI (XI (XO
    (XO (XO (XI (XO (XO (XO (XO (XI (XO (XO
    XH)))))))))))))))) :: [])) :: (((Zpos (XO (XO (XI (XO (XI (XO (XO (XO (XI
    (XO (XO (XI (XI (XI (XI XH)))))))))))))))), ((Zpos (XO (XI (XO (XO (XO
    (XO (XO (XO (XO (XI (XO (XI (XO (XI XH))))))))))))))) :: [])) :: (((Zpos
    (XI (XO (XI (XO (XI (XO (XO (XO (XI (XO (XO (XI (XI (XI (XI
    XH)))))))))))))))), ((Zpos (XI (XI (XO (XI (XI (XO (XO (XO (XI (XO (XI
    (XI (XO (XI XH))))))))))))))) :: [])) :: (((Zpos (XO (XI (XI (XO (XI (XO
    (XO (XO (XI (XO (XO (XI (XI (XI (XI XH)))))))))))))))), ((Zpos (XI (XO
    (XO (XI (XI (XO (XI (XI (XO (XO (XO (XO (XI (XI
    XH))))))))))))))) :: [])) :: (((Zpos (XI (XI (XI (XO (XI (XO (XO (XO (XI
    (XO (XO (XI (XI (XI (XI XH)))))))))))))))), ((Zpos (XO (XI (XI (XI (XI
    (XO (XI (XI (XI (XI (XO (XO (XI (XI XH))))))))))))))) :: [])) :: (((Zpos
    (XO (XO (XO (XI (XI (XO (XO (XO (XI (XO (XO (XI (XI (XI (XI
    XH)))))))))))))))), ((Zpos (XI (XO (XI (XI (XI (XI (XO (XO (XO (XO (XI
    (XO (XO (XO (XO XH)))))))))))))))) :: [])) :: (((Zpos (XI (XO (XO (XI (XI
    (XO (XO (XO (XI (XO (XO (XI (XI (XI (XI XH)))))))))))))))), ((Zpos (XO
    (XI (XO (XI (XO (XI (XI (XO (XI (XO (XO (XO (XI (XO (XO
    XH)))))))))))))))) :: [])) :: (((Zpos (XO (XI (XO (XI (XI (XO (XO (XO (XI
    (XO (XO (XI (XI (XI (XI XH)))))))))))))))), ((Zpos (XI (XO (XO (XO (XI
    (XI (XI (XI (XI (XO (XO (XI (XI (XO (XO
    XH)))))))))))))))) :: [])) :: (((Zpos (XI (XI (XO (XI (XI (XO (XO (XO (XI
    (XO (XO (XI (XI (XI (XI XH)))))))))))))))), ((Zpos (XO (XI (XO (XO (XO
    (XO (XO (XI (XO (XI (XI (XI (XO (XO XH))))))))))))))) :: [])) :: (((Zpos
    (XO (XO (XI (XI (XI (XO (XO (XO (XI (XO (XO (XI (XI (XI (XI
    XH)))))))))))))))), ((Zpos (XI (XO (XI (XO (XI (XI (XI (XO (XI (XI (XO
    (XO (XI (XO XH))))))))))))))) :: [])) :: (((Zpos (XI (XO (XI (XI (XI (XO
    (XO (XO (XI (XO (XO (XI (XI (XI (XI XH)))))))))))))))), ((Zpos (XO (XO
    (XI (XO (XO (XO (XO (XO (XI (XI (XO (XI (XO (XI
    XH))))))))))))))) :: [])) :: (((Zpos (XO (XI (XI (XI (XI (XO (XO (XO (XI
    (XO (XO (XI (XI (XI (XI XH)))))))))))))))), ((Zpos (XI (XI (XO (XI (XI
    (XO (XO (XO (XO (XI (XO (XO (XI (XI XH))))))))))))))) :: [])) :: (((Zpos
    (XI (XI (XI (XI (XI (XO (XO (XO (XI (XO (XO (XI (XI (XI (XI
    XH)))))))))))))))), ((Zpos (XI (XO (XI (XI (XO (XI (XO (XO (XO (XI (XI
    (XO (XO (XO (XO XH)))))))))))))))) :: [])) :: (((Zpos (XO (XO (XO (XO (XO
    (XI (XO (XO (XI (XO (XO (XI (XI (XI (XI XH)))))))))))))))), ((Zpos (XO
    (XI (XI (XI (XI (XO (XO (XO (XO (XI (XI (XI (XI (XO (XO
    XH)))))))))))))))) :: [])) :: (((Zpos (XI (XO (XO (XO (XO (XI (XO (XO (XI
    (XO (XO (XI (XI (XI (XI XH)))))))))))))))), ((Zpos (XO (XO (XO (XO (XI
    (XO (XI (XO (XI (XO (XI (XI (XI (XO XH))))))))))))))) :: [])) :: (((Zpos
    (XO (XI (XO (XO (XO (XI (XO (XO (XI (XO (XO (XI (XI (XI (XI
    XH)))))))))))))))), ((Zpos (XI (XI (XO (XI (XO (XI (XI (XI (XI (XI (XI
    (XI (XO (XI XH))))))))))))))) :: [])) :: (((Zpos (XI (XI (XO (XO (XO (XI
    (XO (XO (XI (XO (XO (XI (XI (XI (XI XH)))))))))))))))), ((Zpos (XI (XO
    (XI (XI (XO (XO (XI (XI (XI (XO (XI (XO (XO (XO (XO
    XH)))))))))))))))) :: [])) :: (((Zpos (XO (XO (XI (XO (XO (XI (XO (XO (XI
    (XO (XO (XI (XI (XI (XI XH)))))))))))))))), ((Zpos (XO (XO (XI (XO (XO
    (XI (XI (XO (XI (XO (XO (XI (XO (XO (XO
    XH)))))))))))))))) :: [])) :: (((Zpos (XI (XO (XI (XO (XO (XI (XO (XO (XI
    (XO (XO (XI (XI (XI (XI XH)))))))))))))))), ((Zpos (XI (XO (XO (XI (XO
    (XO (XI (XI (XO (XI (XO (XO (XO (XI XH))))))))))))))) :: [])) :: (((Zpos
    (XO (XI (XI (XO (XO (XI (XO (XO (XI (XO (XO (XI (XI (XI (XI
    XH)))))))))))))))), ((Zpos (XO (XO (XO (XI (XI (XO (XI (XI (XI (XO (XO
    (XO (XO (XO (XO XH)))))))))))))))) :: [])) :: (((Zpos (XI (XI (XI (XO (XO
    (XI (XO (XO (XI (XO (XO (XI (XI (XI (XI XH)))))))))))))))), ((Zpos (XI
    (XI (XI (XI (XI (XO (XO (XO (XO (XO (XO (XI (XO (XO (XO
    XH)))))))))))))))) :: [])) :: (((Zpos (XO (XO (XO (XI (XO (XI (XO (XO (XI
    (XO (XO (XI (XI (XI (XI XH)))))))))))))))), ((Zpos (XO (XI (XO (XI (XO
    (XO (XI (XI (XO (XI (XI (XI (XI (XO XH))))))))))))))) :: [])) :: (((Zpos
    (XI (XO (XO (XI (XO (XI (XO (XO (XI (XO (XO (XI (XI (XI (XI
    XH)))))))))))))))), ((Zpos (XI (XI (XI (XO (XI (XO (XO (XO (XI (XI (XI
    (XO (XO (XI XH))))))))))))))) :: [])) :: (((Zpos (XO (XI (XO (XI (XO (XI
    (XO (XO (XI (XO (XO (XI (XI (XI (XI XH)))))))))))))))), ((Zpos (XO (XI
    (XO (XI (XO (XI (XI (XO (XI (XO (XI (XI (XO (XI
    XH))))))))))))))) :: [])) :: (((Zpos (XI (XI (XO (XI (XO (XI (XO (XO (XI
    (XO (XO (XI (XI (XI (XI XH)))))))))))))))), ((Zpos (XO (XO (XI (XI (XI
    (XI (XI (XI (XO (XI (XO (XO (XI (XI XH))))))))))))))) :: [])) :: (((Zpos
    (XO (XO (XI (XI (XO (XI (XO (XO (XI (XO (XO (XI (XI (XI (XI
    XH)))))))))))))))), ((Zpos (XO (XI (XI (XI (XO (XO (XI (XI (XO (XO (XO
    (XO (XI (XO (XO XH)))))))))))))))) :: [])) :: (((Zpos (XI (XO (XI (XI (XO
    (XI (XO (XO (XI (XO (XO (XI (XI (XI (XI XH)))))))))))))))), ((Zpos (XO
    (XI (XI (XO (XO (XO (XO (XI (XI (XI (XI (XI (XO (XO
    XH))))))))))))))) :: [])) :: (((Zpos (XO (XI (XI (XI (XO (XI (XO (XO (XI
    (XO (XO (XI (XI (XI (XI XH)))))))))))))))), ((Zpos (XI (XI (XI (XO (XI
    (XI (XO (XI (XI (XO (XO (XO (XI (XO XH))))))))))))))) :: [])) :: (((Zpos
    (XI (XI (XI (XI (XO (XI (XO (XO (XI (XO (XO (XI (XI (XI (XI
    XH)))))))))))))))), ((Zpos (XO (XI (XI (XI (XI (XO (XI (XI (XO (XI (XO
    (XO (XI (XO XH))))))))))))))) :: [])) :: (((Zpos (XO (XO (XO (XO (XI (XI
    (XO (XO (XI (XO (XO (XI (XI (XI (XI XH)))))))))))))))), ((Zpos (XO (XO
    (XI (XO (XO (XO (XI (XI (XO (XO (XI (XO (XO (XI
    XH))))))))))))))) :: [])) :: (((Zpos (XI (XO (XO (XO (XI (XI (XO (XO (XI
    (XO (XO (XI (XI (XI (XI XH)))))))))))))))), ((Zpos (XI (XI (XO (XO (XI
    (XO (XI (XI (XO (XI (XO (XI (XO (XI XH))))))))))))))) :: [])) :: (((Zpos
    (XO (XI (XO (XO (XI (XI (XO (XO (XI (XO (XO (XI (XI (XI (XI
    XH)))))))))))))))), ((Zpos (XO (XO (XO (XO (XI (XO (XO (XO (XO (XI (XO
    (XO (XI (XI XH))))))))))))))) :: [])) :: (((Zpos (XI (XI (XO (XO (XI (XI
    (XO (XO (XI (XO (XO (XI (XI (XI (XI XH)))))))))))))))), ((Zpos (XI (XI
    (XI (XO (XO (XI (XI (XI (XO (XI (XI (XO (XI (XI
    XH))))))))))))))) :: [])) :: (((Zpos (XO (XO (XI (XO (XI (XI (XO (XO (XI
    (XO (XO (XI (XI (XI (XI XH)))))))))))))))), ((Zpos (XI (XO (XO (XO (XO
    (XO (XO (XO (XO (XO (XO (XO (XO (XO (XO
    XH)))))))))))))))) :: [])) :: (((Zpos (XI (XO (XI (XO (XI (XI (XO (XO (XI
    (XO (XO (XI (XI (XI (XI XH)))))))))))))))), ((Zpos (XO (XI (XI (XO (XO
    (XO (XO (XO (XO (XI (XI (XO (XO (XO (XO
    XH)))))))))))))))) :: [])) :: (((Zpos (XO (XI (XI (XO (XI (XI (XO (XO (XI
    (XO (XO (XI (XI (XI (XI XH)))))))))))))))), ((Zpos (XO (XO (XI (XI (XI
    (XO (XI (XO (XO (XI (XI (XO (XO (XO (XO
    XH)))))))))))))))) :: [])) :: (((Zpos (XI (XI (XI (XO (XI (XI (XO (XO (XI
    (XO (XO (XI (XI (XI (XI XH)))))))))))))))), ((Zpos (XI (XI (XI (XI (XO
    (XI (XI (XI (XI (XO (XI (XI (XO (XO (XO
    XH)))))))))))))))) :: [])) :: (((Zpos (XO (XO (XO (XI (XI (XI (XO (XO (XI
    (XO (XO (XI (XI (XI (XI XH)))))))))))))))), ((Zpos (XO (XI (XO (XO (XI
    (XI (XO (XO (XI (XI (XI (XO (XI (XO (XO
    XH)))))))))))))))) :: [])) :: (((Zpos (XI (XO (XO (XI (XI (XI (XO (XO (XI
    (XO (XO (XI (XI (XI (XI XH)))))))))))))))), ((Zpos (XI (XI (XI (XI (XO
    (XI (XI (XO (XI (XI (XO (XI (XI (XO (XO
    XH)))))))))))))))) :: [])) :: (((Zpos (XO (XI (XO (XI (XI (XI (XO (XO (XI
    (XO (XO (XI (XI (XI (XI XH)))))))))))))))), ((Zpos (XO (XI (XO (XI (XI
    (XI (XI (XI (XI (XO (XI (XI (XI (XO (XO
    XH)))))))))))))))) :: [])) :: (((Zpos (XI (XI (XO (XI (XI (XI (XO (XO (XI
    (XO (XO (XI (XI (XI (XI XH)))))))))))))))), ((Zpos (XO (XO (XI (XI (XO
    (XO (XO (XI (XO (XO (XO (XI (XI (XI XH))))))))))))))) :: [])) :: (((Zpos
    (XO (XO (XI (XI (XI (XI (XO (XO (XI (XO (XO (XI (XI (XI (XI
    XH)))))))))))))))), ((Zpos (XI (XI (XI (XI (XI (XI (XI (XO (XI (XO (XO
    (XI (XI (XI XH))))))))))))))) :: [])) :: (((Zpos (XI (XO (XI (XI (XI (XI
    (XO (XO (XI (XO (XO (XI (XI (XI (XI XH)))))))))))))))), ((Zpos (XO (XO
    (XO (XO (XO (XI (XO (XI (XI (XO (XI (XI (XI (XI
    XH))))))))))))))) :: [])) :: (((Zpos (XO (XI (XI (XI (XI (XI (XO (XO (XI
    (XO (XO (XI (XI (XI (XI XH)))))))))))))))), ((Zpos (XI (XO (XO (XI (XO
    (XO (XI (XI (XI (XI (XO (XO (XO (XO (XO
    XH)))))))))))))))) :: [])) :: (((Zpos (XI (XI (XI (XI (XI (XI (XO (XO (XI
    (XO (XO (XI (XI (XI (XI XH)))))))))))))))), ((Zpos (XO (XO (XI (XO (XO
    (XO (XO (XO (XI (XI (XO (XO (XI (XO (XO
    XH)))))))))))))))) :: [])) :: (((Zpos (XO (XO (XO (XO (XO (XO (XI (XO (XI
    (XO (XO (XI (XI (XI (XI XH)))))))))))))))), ((Zpos (XI (XI (XI (XI (XI
    (XI (XI (XO (XO (XI (XI (XI (XI (XO (XO
    XH)))))))))))))))) :: [])) :: (((Zpos (XI (XO (XO (XO (XO (XO (XI (XO (XI
    (XO (XO (XI (XI (XI (XI XH)))))))))))))))), ((Zpos (XO (XI (XI (XO (XI
    (XO (XI (XI (XO (XI (XO (XI (XO (XO (XO
    XH)))))))))))))))) :: [])) :: (((Zpos (XO (XI (XO (XO (XO (XO (XI (XO (XI
    (XO (XO (XI (XI (XI (XI XH)))))))))))))))), ((Zpos (XI (XI (XI (XI (XI
    (XO (XI (XI (XO (XO (XO (XI (XI (XO XH))))))))))))))) :: [])) :: (((Zpos
    (XI (XI (XO (XO (XO (XO (XI (XO (XI (XO (XO (XI (XI (XI (XI
    XH)))))))))))))))), ((Zpos (XO (XO (XI (XO (XO (XO (XO (XO (XI (XI (XI
    (XI (XI (XO XH))))))))))))))) :: [])) :: (((Zpos (XO (XO (XI (XO (XO (XO
    (XI (XO (XI (XO (XO (XI (XI (XI (XI XH)))))))))))))))), ((Zpos (XO (XO
    (XO (XO (XO (XI (XI (XO (XO (XO (XI (XI (XI (XI
    XH))))))))))))))) :: [])) :: (((Zpos (XI (XO (XI (XO (XO (XO (XI (XO (XI
    (XO (XO (XI (XI (XI (XI XH)))))))))))))))), ((Zpos (XO (XI (XI (XI (XI
    (XI (XI (XO (XO (XO (XO (XO (XO (XO (XO
    XH)))))))))))))))) :: [])) :: (((Zpos (XO (XI (XI (XO (XO (XO (XI (XO (XI
    (XO (XO (XI (XI (XI (XI XH)))))))))))))))), ((Zpos (XO (XI (XO (XO (XO
    (XI (XI (XO (XO (XI (XO (XO (XI (XI XH))))))))))))))) :: [])) :: (((Zpos
    (XI (XI (XI (XO (XO (XO (XI (XO (XI (XO (XO (XI (XI (XI (XI
    XH)))))))))))))))), ((Zpos (XO (XI (XO (XI (XO (XO (XI (XI (XO (XO (XO
    (XI (XI (XI XH))))))))))))))) :: [])) :: (((Zpos (XO (XO (XO (XI (XO (XO
    (XI (XO (XI (XO (XO (XI (XI (XI (XI XH)))))))))))))))), ((Zpos (XO (XI
    (XO (XO (XO (XO (XI (XI (XO (XO (XI (XI (XO (XO (XO
    XH)))))))))))))))) :: [])) :: (((Zpos (XI (XO (XO (XI (XO (XO (XI (XO (XI
    (XO (XO (XI (XI (XI (XI XH)))))))))))))))), ((Zpos (XI (XI (XI (XO (XI
    (XI (XI (XI (XO (XI (XI (XO (XI (XO (XO
    XH)))))))))))))))) :: [])) :: (((Zpos (XO (XI (XO (XI (XO (XO (XI (XO (XI
    (XO (XO (XI (XI (XI (XI XH)))))))))))))))), ((Zpos (XO (XO (XO (XI (XI
    (XO (XI (XI (XO (XO (XO (XI (XI (XO XH))))))))))))))) :: [])) :: (((Zpos
    (XI (XI (XO (XI (XO (XO (XI (XO (XI (XO (XO (XI (XI (XI (XI
    XH)))))))))))))))), ((Zpos (XO (XI (XO (XO (XO (XI (XI (XO (XO (XO (XI
    (XI (XI (XO XH))))))))))))))) :: [])) :: (((Zpos (XO (XO (XI (XI (XO (XO
    (XI (XO (XI (XO (XO (XI (XI (XI (XI XH)))))))))))))))), ((Zpos (XI (XI
    (XO (XO (XI (XO (XO (XO (XO (XI (XO (XI (XO (XI
    XH))))))))))))))) :: [])) :: (((Zpos (XI (XO (XI (XI (XO (XO (XI (XO (XI
    (XO (XO (XI (XI (XI (XI XH)))))))))))))))), ((Zpos (XO (XI (XO (XI (XI
    (XO (XI (XI (XI (XO (XI (XI (XO (XI XH))))))))))))))) :: [])) :: (((Zpos
    (XO (XI (XI (XI (XO (XO (XI (XO (XI (XO (XO (XI (XI (XI (XI
    XH)))))))))))))))), ((Zpos (XI (XI (XI (XI (XO (XO (XO (XO (XI (XI (XI
    (XI (XO (XI XH))))))))))))))) :: [])) :: (((Zpos (XI (XI (XI (XI (XO (XO
    (XI (XO (XI (XO (XO (XI (XI (XI (XI XH)))))))))))))))), ((Zpos (XI (XI
    (XI (XI (XO (XI (XO (XO (XI (XO (XI (XI (XI (XI
    XH))))))))))))))) :: [])) :: (((Zpos (XO (XO (XO (XO (XI (XO (XI (XO (XI
    (XO (XO (XI (XI (XI (XI XH)))))))))))))))), ((Zpos (XI (XI (XI (XO (XI
    (XI (XO (XO (XO (XI (XI (XI (XI (XI XH))))))))))))))) :: [])) :: (((Zpos
    (XI (XO (XO (XO (XI (XO (XI (XO (XI (XO (XO (XI (XI (XI (XI
    XH)))))))))))))))), ((Zpos (XI (XI (XO (XI (XO (XO (XI (XO (XO (XI (XI
    (XO (XI (XO (XO XH)))))))))))))))) :: [])) :: (((Zpos (XO (XI (XO (XO (XI
    (XO (XI (XO (XI (XO (XO (XI (XI (XI (XI XH)))))))))))))))), ((Zpos (XO
    (XI (XO (XO (XI (XO (XI (XI (XO (XI (XO (XO (XI (XO
    XH))))))))))))))) :: [])) :: (((Zpos (XI (XI (XO (XO (XI (XO (XI (XO (XI
    (XO (XO (XI (XI (XI (XI XH)))))))))))))))), ((Zpos (XI (XI (XO (XI (XO
    (XO (XO (XI (XO (XO (XO (XO (XO (XO (XO
    XH)))))))))))))))) :: [])) :: (((Zpos (XO (XO (XI (XO (XI (XO (XI (XO (XI
    (XO (XO (XI (XI (XI (XI XH)))))))))))))))), ((Zpos (XO (XO (XI (XI (XI
    (XO (XI (XI (XI (XO (XO (XO (XI (XO XH))))))))))))))) :: [])) :: (((Zpos
    (XI (XO (XI (XO (XI (XO (XI (XO (XI (XO (XO (XI (XI (XI (XI
    XH)))))))))))))))), ((Zpos (XO (XO (XI (XI (XO (XO (XI (XI (XI (XO (XO
    (XO (XI (XO XH))))))))))))))) :: [])) :: (((Zpos (XO (XI (XI (XO (XI (XO
    (XI (XO (XI (XO (XO (XI (XI (XI (XI XH)))))))))))))))), ((Zpos (XO (XO
    (XI (XI (XI (XO (XO (XO (XO (XI (XO (XI (XI (XI
    XH))))))))))))))) :: [])) :: (((Zpos (XI (XI (XI (XO (XI (XO (XI (XO (XI
    (XO (XO (XI (XI (XI (XI XH)))))))))))))))), ((Zpos (XO (XI (XI (XI (XI
    (XI (XO (XI (XI (XO (XI (XI (XI (XI XH))))))))))))))) :: [])) :: (((Zpos
    (XO (XO (XO (XI (XI (XO (XI (XO (XI (XO (XO (XI (XI (XI (XI
    XH)))))))))))))))), ((Zpos (XI (XO (XO (XO (XI (XI (XI (XI (XI (XI (XO
    (XO (XO (XO (XO XH)))))))))))))))) :: [])) :: (((Zpos (XI (XO (XO (XI (XI
    (XO (XI (XO (XI (XO (XO (XI (XI (XI (XI XH)))))))))))))))), ((Zpos (XI
    (XO (XI (XO (XI (XI (XI (XO (XO (XI (XI (XO (XI (XO (XO
    XH)))))))))))))))) :: [])) :: (((Zpos (XO (XI (XO (XI (XI (XO (XI (XO (XI
    (XO (XO (XI (XI (XI (XI XH)))))))))))))))), ((Zpos (XO (XO (XO (XO (XO
    (XO (XO (XI (XI (XI (XO (XI (XO (XO (XO
    XH)))))))))))))))) :: [])) :: (((Zpos (XI (XI (XO (XI (XI (XO (XI (XO (XI
    (XO (XO (XI (XI (XI (XI XH)))))))))))))))), ((Zpos (XI (XI (XI (XI (XO
    (XO (XI (XI (XO (XI (XO (XO (XO (XI XH))))))))))))))) :: [])) :: (((Zpos
    (XO (XO (XI (XI (XI (XO (XI (XO (XI (XO (XO (XI (XI (XI (XI
    XH)))))))))))))))), ((Zpos (XO (XI (XO (XO (XO (XO (XO (XO (XO (XI (XO
    (XI (XO (XI XH))))))))))))))) :: [])) :: (((Zpos (XI (XO (XI (XI (XI (XO
    (XI (XO (XI (XO (XO (XI (XI (XI (XI XH)))))))))))))))), ((Zpos (XO (XI
    (XI (XI (XI (XI (XI (XI (XO (XI (XO (XI (XO (XO (XO
    XH)))))))))))))))) :: [])) :: (((Zpos (XO (XI (XI (XI (XI (XO (XI (XO (XI
    (XO (XO (XI (XI (XI (XI XH)))))))))))))))), ((Zpos (XI (XO (XO (XI (XI
    (XI (XO (XO (XO (XI (XI (XI (XO (XO XH))))))))))))))) :: [])) :: (((Zpos
    (XI (XI (XI (XI (XI (XO (XI (XO (XI (XO (XO (XI (XI (XI (XI
    XH)))))))))))))))), ((Zpos (XI (XI (XI (XO (XO (XI (XI (XI (XI (XI (XO
    (XI (XI (XO XH))))))))))))))) :: [])) :: (((Zpos (XO (XO (XO (XO (XO (XI
    (XI (XO (XI (XO (XO (XI (XI (XI (XI XH)))))))))))))))), ((Zpos (XO (XI
    (XO (XO (XI (XO (XO (XO (XO (XO (XO (XO (XO (XI
    XH))))))))))))))) :: [])) :: (((Zpos (XI (XO (XO (XO (XO (XI (XI (XO (XI
    (XO (XO (XI (XI (XI (XI XH)))))))))))))))), ((Zpos (XI (XI (XI (XO (XO
    (XO (XO (XI (XI (XI (XO (XO (XI (XI XH))))))))))))))) :: [])) :: (((Zpos
    (XO (XI (XO (XO (XO (XI (XI (XO (XI (XO (XO (XI (XI (XI (XI
    XH)))))))))))))))), ((Zpos (XO (XO (XO (XO (XI (XI (XI (XO (XI (XO (XI
    (XO (XI (XI XH))))))))))))))) :: [])) :: (((Zpos (XI (XI (XO (XO (XO (XI
    (XI (XO (XI (XO (XO (XI (XI (XI (XI XH)))))))))))))))), ((Zpos (XI (XI
    (XI (XO (XI (XO (XO (XO (XI (XI (XO (XO (XI (XO
    XH))))))))))))))) :: [])) :: (((Zpos (XO (XO (XI (XO (XO (XI (XI (XO (XI
    (XO (XO (XI (XI (XI (XI XH)))))))))))))))), ((Zpos (XI (XI (XO (XI (XI
    (XI (XI (XI (XO (XO (XO (XI (XI (XI XH))))))))))))))) :: [])) :: (((Zpos
    (XI (XO (XI (XO (XO (XI (XI (XO (XI (XO (XO (XI (XI (XI (XI
    XH)))))))))))))))), ((Zpos (XI (XI (XI (XI (XI (XI (XO (XI (XI (XI (XI
    (XI (XO (XO XH))))))))))))))) :: [])) :: (((Zpos (XO (XI (XI (XO (XO (XI
    (XI (XO (XI (XO (XO (XI (XI (XI (XI XH)))))))))))))))), ((Zpos (XI (XO
    (XO (XI (XO (XI (XO (XI (XI (XI (XI (XI (XI (XO
    XH))))))))))))))) :: [])) :: (((Zpos (XI (XI (XI (XO (XO (XI (XI (XO (XI
    (XO (XO (XI (XI (XI (XI XH)))))))))))))))), ((Zpos (XI (XO (XI (XI (XO
    (XO (XO (XO (XO (XI (XI (XI (XO (XO XH))))))))))))))) :: [])) :: (((Zpos
    (XO (XO (XO (XI (XO (XI (XI (XO (XI (XO (XO (XI (XI (XI (XI
    XH)))))))))))))))), ((Zpos (XO (XO (XI (XI (XO (XO (XI (XI (XO (XO (XI
    (XI (XO (XI XH))))))))))))))) :: [])) :: (((Zpos (XI (XO (XO (XI (XO (XI
    (XI (XO (XI (XO (XO (XI (XI (XI (XI XH)))))))))))))))), ((Zpos (XO (XO
    (XO (XI (XI (XI (XI (XO (XI (XO (XI (XO (XO (XI
    XH))))))))))))))) :: [])) :: (((Zpos (XO (XI (XO (XI (XO (XI (XI (XO (XI
    (XO (XO (XI (XI (XI (XI XH)))))))))))))))), ((Zpos (XO (XI (XO (XO (XO
    (XI (XO (XO (XI (XO (XI (XI (XI (XI XH))))))))))))))) :: [])) :: (((Zpos
    (XI (XI (XO (XI (XO (XI (XI (XO (XI (XO (XO (XI (XI (XI (XI
    XH)))))))))))))))), ((Zpos (XI (XI (XO (XO (XO (XO (XI (XI (XI (XI (XO
    (XO (XI (XO XH))))))))))))))) :: [])) :: (((Zpos (XO (XO (XI (XI (XO (XI
    (XI (XO (XI (XO (XO (XI (XI (XI (XI XH)))))))))))))))), ((Zpos (XO (XI
    (XI (XI (XI (XO (XI (XO (XO (XO (XO (XI (XI (XO
    XH))))))))))))))) :: [])) :: (((Zpos (XI (XO (XI (XI (XO (XI (XI (XO (XI
    (XO (XO (XI (XI (XI (XI XH)))))))))))))))), ((Zpos (XI (XO (XO (XO (XO
    (XO (XO (XO (XI (XI (XI (XO (XI (XI XH))))))))))))))) :: [])) :: (((Zpos
    (XO (XI (XI (XI (XO (XI (XI (XO (XI (XO (XO (XI (XI (XI (XI
    XH)))))))))))))))), ((Zpos (XI (XO (XO (XI (XO (XO (XI (XO (XO (XO (XI
    (XO (XO (XO (XO XH)))))))))))))))) :: [])) :: (((Zpos (XI (XI (XI (XI (XO
    (XI (XI (XO (XI (XO (XO (XI (XI (XI (XI XH)))))))))))))))), ((Zpos (XO
    (XI (XO (XI (XO (XI (XO (XI (XO (XI (XO (XI (XO (XO (XO
    XH)))))))))))))))) :: [])) :: (((Zpos (XO (XO (XO (XO (XI (XI (XI (XO (XI
    (XO (XO (XI (XI (XI (XI XH)))))))))))))))), ((Zpos (XO (XI (XO (XI (XI
    (XI (XO (XI (XI (XI (XO (XI (XO (XI XH))))))))))))))) :: [])) :: (((Zpos
    (XI (XO (XO (XO (XI (XI (XI (XO (XI (XO (XO (XI (XI (XI (XI
    XH)))))))))))))))), ((Zpos (XO (XO (XO (XO (XI (XI (XO (XI (XI (XI (XI
    (XI (XO (XO (XO XH)))))))))))))))) :: [])) :: (((Zpos (XO (XI (XO (XO (XI
    (XI (XI (XO (XI (XO (XO (XI (XI (XI (XI XH)))))))))))))))), ((Zpos (XO
    (XO (XO (XI (XO (XO (XO (XI (XO (XO (XI (XI (XO (XI
    XH))))))))))))))) :: [])) :: (((Zpos (XI (XI (XO (XO (XI (XI (XI (XO (XI
    (XO (XO (XI (XI (XI (XI XH)))))))))))))))), ((Zpos (XO (XI (XI (XI (XI
    (XI (XI (XI (XO (XI (XO (XO (XO (XI XH))))))))))))))) :: [])) :: (((Zpos
    (XO (XO (XI (XO (XI (XI (XI (XO (XI (XO (XO (XI (XI (XI (XI
    XH)))))))))))))))), ((Zpos (XI (XO (XI (XO (XO (XI (XI (XI (XO (XI (XO
    (XO (XO (XO (XO XH)))))))))))))))) :: [])) :: (((Zpos (XI (XO (XI (XO (XI
    (XI (XI (XO (XI (XO (XO (XI (XI (XI (XI XH)))))))))))))))), ((Zpos (XO
    (XO (XO (XO (XO (XI (XO (XI (XI (XI (XO (XO (XO (XI
    XH))))))))))))))) :: [])) :: (((Zpos (XO (XI (XI (XO (XI (XI (XI (XO (XI
    (XO (XO (XI (XI (XI (XI XH)))))))))))))))), ((Zpos (XI (XO (XI (XO (XO
    (XI (XI (XO (XI (XO (XI (XO (XI (XI XH))))))))))))))) :: [])) :: (((Zpos
    (XI (XI (XI (XO (XI (XI (XI (XO (XI (XO (XO (XI (XI (XI (XI
    XH)))))))))))))))), ((Zpos (XO (XI (XI (XI (XO (XI (XO (XI (XO (XI (XI
    (XI (XO (XO XH))))))))))))))) :: [])) :: (((Zpos (XO (XO (XO (XI (XI (XI
    (XI (XO (XI (XO (XO (XI (XI (XI (XI XH)))))))))))))))), ((Zpos (XI (XO
    (XO (XI (XO (XI (XI (XO (XI (XO (XO (XO (XI (XO
    XH))))))))))))))) :: [])) :: (((Zpos (XI (XO (XO (XI (XI (XI (XI (XO (XI
    (XO (XO (XI (XI (XI (XI XH)))))))))))))))), ((Zpos (XI (XO (XO (XI (XO
    (XO (XI (XI (XI (XO (XO (XO (XI (XO XH))))))))))))))) :: [])) :: (((Zpos
    (XO (XI (XO (XI (XI (XI (XI (XO (XI (XO (XO (XI (XI (XI (XI
    XH)))))))))))))))), ((Zpos (XI (XO (XO (XO (XO (XO (XO (XI (XO (XO (XO
    (XI (XO (XI XH))))))))))))))) :: [])) :: (((Zpos (XI (XI (XO (XI (XI (XI
    (XI (XO (XI (XO (XO (XI (XI (XI (XI XH)))))))))))))))), ((Zpos (XI (XI
    (XI (XO (XO (XI (XI (XI (XO (XO (XI (XI (XI (XI
    XH))))))))))))))) :: [])) :: (((Zpos (XO (XO (XI (XI (XI (XI (XI (XO (XI
    (XO (XO (XI (XI (XI (XI XH)))))))))))))))), ((Zpos (XI (XI (XI (XI (XO
    (XI (XI (XO (XO (XI (XO (XO (XO (XO (XO
    XH)))))))))))))))) :: [])) :: (((Zpos (XI (XO (XI (XI (XI (XI (XI (XO (XI
    (XO (XO (XI (XI (XI (XI XH)))))))))))))))), ((Zpos (XO (XI (XO (XO (XI
    (XO (XI (XI (XO (XI (XO (XI (XO (XO (XO
    XH)))))))))))))))) :: [])) :: (((Zpos (XO (XI (XI (XI (XI (XI (XI (XO (XI
    (XO (XO (XI (XI (XI (XI XH)))))))))))))))), ((Zpos (XI (XI (XI (XI (XO
    (XO (XI (XI (XI (XO (XO (XO (XI (XO (XO
    XH)))))))))))))))) :: [])) :: (((Zpos (XI (XI (XI (XI (XI (XI (XI (XO (XI
    (XO (XO (XI (XI (XI (XI XH)))))))))))))))), ((Zpos (XI (XO (XI (XO (XI
    (XI (XI (XI (XO (XI (XO (XO (XI (XO XH))))))))))))))) :: [])) :: (((Zpos
    (XO (XO (XO (XO (XO (XO (XO (XI (XI (XO (XO (XI (XI (XI (XI
    XH)))))))))))))))), ((Zpos (XO (XI (XO (XO (XO (XO (XI (XO (XO (XO (XI
    (XO (XI (XO XH))))))))))))))) :: [])) :: (((Zpos (XI (XO (XO (XO (XO (XO
    (XO (XI (XI (XO (XO (XI (XI (XI (XI XH)))))))))))))))), ((Zpos (XI (XI
    (XO (XO (XI (XI (XI (XO (XI (XO (XO (XI (XI (XO
    XH))))))))))))))) :: [])) :: (((Zpos (XO (XI (XO (XO (XO (XO (XO (XI (XI
    (XO (XO (XI (XI (XI (XI XH)))))))))))))))), ((Zpos (XO (XO (XI (XI (XO
    (XI (XI (XI (XO (XI (XI (XI (XI (XO XH))))))))))))))) :: [])) :: (((Zpos
    (XI (XI (XO (XO (XO (XO (XO (XI (XI (XO (XO (XI (XI (XI (XI
    XH)))))))))))))))), ((Zpos (XI (XO (XI (XO (XO (XO (XI (XI (XI (XO (XI
    (XO (XO (XI XH))))))))))))))) :: [])) :: (((Zpos (XO (XO (XI (XO (XO (XO
    (XO (XI (XI (XO (XO (XI (XI (XI (XI XH)))))))))))))))), ((Zpos (XO (XI
    (XI (XI (XI (XI (XI (XI (XI (XI (XI (XI (XO (XI
    XH))))))))))))))) :: [])) :: (((Zpos (XI (XO (XI (XO (XO (XO (XO (XI (XI
    (XO (XO (XI (XI (XI (XI XH)))))))))))))))), ((Zpos (XO (XI (XO (XI (XO
    (XI (XO (XO (XI (XO (XO (XI (XI (XI XH))))))))))))))) :: [])) :: (((Zpos
    (XO (XI (XI (XO (XO (XO (XO (XI (XI (XO (XO (XI (XI (XI (XI
    XH)))))))))))))))), ((Zpos (XI (XO (XI (XI (XO (XI (XO (XI (XI (XO (XI
    (XO (XI (XO (XO XH)))))))))))))))) :: [])) :: (((Zpos (XI (XI (XI (XO (XO
    (XO (XO (XI (XI (XO (XO (XI (XI (XI (XI XH)))))))))))))))), ((Zpos (XO
    (XI (XO (XI (XO (XI (XI (XO (XO (XI (XO (XI (XI (XO (XO
    XH)))))))))))))))) :: [])) :: (((Zpos (XO (XO (XO (XI (XO (XO (XO (XI (XI
    (XO (XO (XI (XI (XI (XI XH)))))))))))))))), ((Zpos (XI (XI (XI (XO (XI
    (XO (XO (XI (XO (XI (XI (XI (XI (XO (XO
    XH)))))))))))))))) :: [])) :: (((Zpos (XI (XO (XO (XI (XO (XO (XO (XI (XI
    (XO (XO (XI (XI (XI (XI XH)))))))))))))))), ((Zpos (XO (XI (XI (XI (XO
    (XO (XI (XI (XO (XI (XI (XI (XI (XO (XO
    XH)))))))))))))))) :: [])) :: (((Zpos (XO (XI (XO (XI (XO (XO (XO (XI (XI
    (XO (XO (XI (XI (XI (XI XH)))))))))))))))), ((Zpos (XI (XI (XO (XI (XI
    (XO (XO (XI (XO (XI (XO (XO (XI (XO XH))))))))))))))) :: [])) :: (((Zpos
    (XI (XI (XO (XI (XO (XO (XO (XI (XI (XO (XO (XI (XI (XI (XI
    XH)))))))))))))))), ((Zpos (XO (XI (XI (XO (XO (XO (XI (XI (XO (XI (XI
    (XO (XO (XI XH))))))))))))))) :: [])) :: (((Zpos (XO (XO (XI (XI (XO (XO
    (XO (XI (XI (XO (XO (XI (XI (XI (XI XH)))))))))))))))), ((Zpos (XI (XI
    (XI (XO (XI (XI (XI (XO (XI (XI (XO (XI (XO (XI
    XH))))))))))))))) :: [])) :: (((Zpos (XI (XO (XI (XI (XO (XO (XO (XI (XI
    (XO (XO (XI (XI (XI (XI XH)))))))))))))))), ((Zpos (XO (XI (XO (XO (XO
    (XI (XI (XO (XI (XI (XI (XI (XO (XO (XO
    XH)))))))))))))))) :: [])) :: (((Zpos (XO (XI (XI (XI (XO (XO (XO (XI (XI
    (XO (XO (XI (XI (XI (XI XH)))))))))))))))), ((Zpos (XO (XO (XI (XO (XI
    (XI (XI (XO (XO (XI (XI (XI (XI (XO XH))))))))))))))) :: [])) :: (((Zpos
    (XI (XI (XI (XI (XO (XO (XO (XI (XI (XO (XO (XI (XI (XI (XI
    XH)))))))))))))))), ((Zpos (XO (XO (XO (XO (XI (XO (XO (XI (XI (XO (XO
    (XO (XO (XI XH))))))))))))))) :: [])) :: (((Zpos (XO (XO (XO (XO (XI (XO
    (XO (XI (XI (XO (XO (XI (XI (XI (XI XH)))))))))))))))), ((Zpos (XO (XO
    (XO (XO (XO (XO (XO (XO (XO (XI (XO (XO (XO (XI
    XH))))))))))))))) :: [])) :: (((Zpos (XI (XO (XO (XO (XI (XO (XO (XI (XI
    (XO (XO (XI (XI (XI (XI XH)))))))))))))))), ((Zpos (XO (XI (XO (XI (XI
    (XO (XO (XI (XO (XO (XI (XO (XO (XI XH))))))))))))))) :: [])) :: (((Zpos
    (XO (XI (XO (XO (XI (XO (XO (XI (XI (XO (XO (XI (XI (XI (XI
    XH)))))))))))))))), ((Zpos (XI (XI (XO (XO (XO (XI (XO (XO (XI (XI (XI
    (XI (XO (XI XH))))))))))))))) :: [])) :: (((Zpos (XI (XI (XO (XO (XI (XO
    (XO (XI (XI (XO (XO (XI (XI (XI (XI XH)))))))))))))))), ((Zpos (XI (XO
    (XO (XI (XO (XO (XI (XO (XI (XO (XO (XO (XI (XI
    XH))))))))))))))) :: [])) :: (((Zpos (XO (XO (XI (XO (XI (XO (XO (XI (XI
    (XO (XO (XI (XI (XI (XI XH)))))))))))))))), ((Zpos (XI (XO (XO (XI (XO
    (XO (XO (XI (XO (XO (XI (XO (XI (XI XH))))))))))))))) :: [])) :: (((Zpos
    (XI (XO (XI (XO (XI (XO (XO (XI (XI (XO (XO (XI (XI (XI (XI
    XH)))))))))))))))), ((Zpos (XO (XI (XO (XI (XO (XO (XI (XI (XI (XO (XO
    (XI (XI (XI XH))))))))))))))) :: [])) :: (((Zpos (XO (XI (XI (XO (XI (XO
    (XO (XI (XI (XO (XO (XI (XI (XI (XI XH)))))))))))))))), ((Zpos (XO (XO
    (XI (XO (XI (XI (XI (XI (XI (XO (XI (XI (XI (XI
    XH))))))))))))))) :: [])) :: (((Zpos (XI (XI (XI (XO (XI (XO (XO (XI (XI
    (XO (XO (XI (XI (XI (XI XH)))))))))))))))), ((Zpos (XI (XI (XI (XI (XO
    (XI (XI (XO (XO (XO (XO (XO (XO (XO (XO
    XH)))))))))))))))) :: [])) :: (((Zpos (XO (XO (XO (XI (XI (XO (XO (XI (XI
    (XO (XO (XI (XI (XI (XI XH)))))))))))))))), ((Zpos (XO (XI (XI (XO (XO
    (XI (XO (XO (XI (XI (XI (XI (XO (XO (XO
    XH)))))))))))))))) :: [])) :: (((Zpos (XI (XO (XO (XI (XI (XO (XO (XI (XI
    (XO (XO (XI (XI (XI (XI XH)))))))))))))))), ((Zpos (XO (XI (XI (XI (XO
    (XI (XI (XI (XO (XO (XI (XO (XO (XO (XO
    XH)))))))))))))))) :: [])) :: (((Zpos (XO (XI (XO (XI (XI (XO (XO (XI (XI
    (XO (XO (XI (XI (XI (XI XH)))))))))))))))), ((Zpos (XI (XI (XO (XO (XO
    (XI (XO (XO (XO (XO (XO (XO (XI (XO (XO
    XH)))))))))))))))) :: [])) :: (((Zpos (XI (XI (XO (XI (XI (XO (XO (XI (XI
    (XO (XO (XI (XI (XI (XI XH)))))))))))))))), ((Zpos (XO (XI (XO (XI (XO
    (XO (XI (XO (XI (XI (XO (XO (XI (XO (XO
    XH)))))))))))))))) :: [])) :: (((Zpos (XO (XO (XI (XI (XI (XO (XO (XI (XI
    (XO (XO (XI (XI (XI (XI XH)))))))))))))))), ((Zpos (XI (XI (XI (XO (XI
    (XO (XO (XO (XO (XI (XO (XO (XI (XO XH))))))))))))))) :: [])) :: (((Zpos
    (XI (XO (XI (XI (XI (XO (XO (XI (XI (XO (XO (XI (XI (XI (XI
    XH)))))))))))))))), ((Zpos (XI (XI (XO (XO (XO (XI (XO (XI (XO (XI (XO
    (XO (XI (XO XH))))))))))))))) :: [])) :: (((Zpos (XO (XI (XI (XI (XI (XO
    (XO (XI (XI (XO (XO (XI (XI (XI (XI XH)))))))))))))))), ((Zpos (XI (XO
    (XI (XI (XI (XI (XO (XI (XO (XO (XI (XO (XI (XO
    XH))))))))))))))) :: [])) :: (((Zpos (XI (XI (XI (XI (XI (XO (XO (XI (XI
    (XO (XO (XI (XI (XI (XI XH)))))))))))))))), ((Zpos (XO (XO (XO (XI (XO
    (XO (XI (XI (XO (XO (XO (XO (XI (XI XH))))))))))))))) :: [])) :: (((Zpos
    (XO (XO (XO (XO (XO (XI (XO (XI (XI (XO (XO (XI (XI (XI (XI
    XH)))))))))))))))), ((Zpos (XO (XI (XO (XO (XO (XO (XI (XI (XO (XO (XO
    (XI (XO (XO (XO XH)))))))))))))))) :: [])) :: (((Zpos (XI (XO (XO (XO (XO
    (XI (XO (XI (XI (XO (XO (XI (XI (XI (XI XH)))))))))))))))), ((Zpos (XO
    (XI (XO (XI (XO (XI (XO (XI (XO (XI (XO (XI (XO (XO (XO
    XH)))))))))))))))) :: [])) :: (((Zpos (XO (XI (XO (XO (XO (XI (XO (XI (XI
    (XO (XO (XI (XI (XI (XI XH)))))))))))))))), ((Zpos (XI (XO (XO (XI (XO
    (XO (XI (XI (XO (XI (XI (XI (XI (XO XH))))))))))))))) :: [])) :: (((Zpos
    (XI (XI (XO (XO (XO (XI (XO (XI (XI (XO (XO (XI (XI (XI (XI
    XH)))))))))))))))), ((Zpos (XI (XO (XI (XO (XI (XI (XI (XI (XI (XI (XI
    (XI (XI (XO XH))))))))))))))) :: [])) :: (((Zpos (XO (XO (XI (XO (XO (XI
    (XO (XI (XI (XO (XO (XI (XI (XI (XI XH)))))))))))))))), ((Zpos (XI (XI
    (XO (XI (XI (XI (XI (XO (XI (XI (XO (XO (XO (XI
    XH))))))))))))))) :: [])) :: (((Zpos (XI (XO (XI (XO (XO (XI (XO (XI (XI
    (XO (XO (XI (XI (XI (XI XH)))))))))))))))), ((Zpos (XO (XI (XI (XI (XO
    (XI (XO (XI (XI (XI (XO (XI (XO (XI XH))))))))))))))) :: [])) :: (((Zpos
    (XO (XI (XI (XO (XO (XI (XO (XI (XI (XO (XO (XI (XI (XI (XI
    XH)))))))))))))))), ((Zpos (XO (XI (XI (XI (XI (XI (XO (XO (XO (XO (XI
    (XI (XI (XI XH))))))))))))))) :: [])) :: (((Zpos (XI (XI (XI (XO (XO (XI
    (XO (XI (XI (XO (XO (XI (XI (XI (XI XH)))))))))))))))), ((Zpos (XI (XO
    (XI (XO (XI (XI (XI (XO (XI (XI (XO (XO (XI (XI
    XH))))))))))))))) :: [])) :: (((Zpos (XO (XO (XO (XI (XO (XI (XO (XI (XI
    (XO (XO (XI (XI (XI (XI XH)))))))))))))))), ((Zpos (XO (XO (XI (XO (XO
    (XI (XI (XI (XO (XI (XI (XI (XO (XO XH))))))))))))))) :: [])) :: (((Zpos
    (XI (XO (XO (XI (XO (XI (XO (XI (XI (XO (XO (XI (XI (XI (XI
    XH)))))))))))))))), ((Zpos (XI (XO (XO (XI (XI (XI (XI (XI (XO (XI (XI
    (XO (XI (XO XH))))))))))))))) :: [])) :: (((Zpos (XO (XI (XO (XI (XO (XI
    (XO (XI (XI (XO (XO (XI (XI (XI (XI XH)))))))))))))))), ((Zpos (XI (XI
    (XI (XO (XO (XI (XI (XI (XI (XI (XO (XI (XI (XO
    XH))))))))))))))) :: [])) :: (((Zpos (XI (XI (XO (XI (XO (XI (XO (XI (XI
    (XO (XO (XI (XI (XI (XI XH)))))))))))))))), ((Zpos (XO (XI (XO (XI (XI
    (XI (XO (XI (XI (XO (XI (XI (XI (XO XH))))))))))))))) :: [])) :: (((Zpos
    (XO (XO (XI (XI (XO (XI (XO (XI (XI (XO (XO (XI (XI (XI (XI
    XH)))))))))))))))), ((Zpos (XO (XO (XI (XI (XI (XO (XO (XO (XO (XO (XO
    (XO (XO (XI XH))))))))))))))) :: [])) :: (((Zpos (XI (XO (XI (XI (XO (XI
    (XO (XI (XI (XO (XO (XI (XI (XI (XI XH)))))))))))))))), ((Zpos (XO (XI
    (XO (XO (XI (XI (XO (XI (XI (XI (XO (XO (XI (XI
    XH))))))))))))))) :: [])) :: (((Zpos (XO (XI (XI (XI (XO (XI (XO (XI (XI
    (XO (XO (XI (XI (XI (XI XH)))))))))))))))), ((Zpos (XI (XO (XO (XI (XO
    (XI (XI (XO (XO (XO (XI (XO (XI (XI XH))))))))))))))) :: [])) :: (((Zpos
    (XI (XI (XI (XI (XO (XI (XO (XI (XI (XO (XO (XI (XI (XI (XI
    XH)))))))))))))))), ((Zpos (XO (XI (XO (XI (XI (XO (XO (XI (XI (XI (XI
    (XI (XI (XI XH))))))))))))))) :: [])) :: (((Zpos (XO (XO (XO (XO (XI (XI
    (XO (XI (XI (XO (XO (XI (XI (XI (XI XH)))))))))))))))), ((Zpos (XO (XI
    (XI (XO (XO (XO (XI (XO (XO (XO (XO (XO (XO (XO (XO
    XH)))))))))))))))) :: [])) :: (((Zpos (XI (XO (XO (XO (XI (XI (XO (XI (XI
    (XO (XO (XI (XI (XI (XI XH)))))))))))))))), ((Zpos (XO (XO (XI (XO (XI
    (XI (XO (XO (XO (XI (XO (XO (XI (XO (XO
    XH)))))))))))))))) :: [])) :: (((Zpos (XO (XI (XO (XO (XI (XI (XO (XI (XI
    (XO (XO (XI (XI (XI (XI XH)))))))))))))))), ((Zpos (XO (XI (XI (XO (XI
    (XI (XI (XI (XO (XI (XI (XO (XI (XO (XO
    XH)))))))))))))))) :: [])) :: (((Zpos (XI (XI (XO (XO (XI (XI (XO (XI (XI
    (XO (XO (XI (XI (XI (XI XH)))))))))))))))), ((Zpos (XO (XO (XO (XI (XO
    (XO (XI (XO (XI (XI (XI (XO (XI (XO (XO
    XH)))))))))))))))) :: [])) :: (((Zpos (XO (XO (XI (XO (XI (XI (XO (XI (XI
    (XO (XO (XI (XI (XI (XI XH)))))))))))))))), ((Zpos (XO (XO (XO (XI (XI
    (XO (XO (XO (XO (XO (XO (XI (XI (XO (XO
    XH)))))))))))))))) :: [])) :: (((Zpos (XI (XO (XI (XO (XI (XI (XO (XI (XI
    (XO (XO (XI (XI (XI (XI XH)))))))))))))))), ((Zpos (XI (XI (XO (XI (XO
    (XO (XO (XI (XI (XI (XI (XI (XO (XO XH))))))))))))))) :: [])) :: (((Zpos
    (XO (XI (XI (XO (XI (XI (XO (XI (XI (XO (XO (XI (XI (XI (XI
    XH)))))))))))))))), ((Zpos (XO (XI (XI (XI (XO (XI (XO (XI (XI (XO (XO
    (XI (XI (XI XH))))))))))))))) :: [])) :: (((Zpos (XI (XI (XI (XO (XI (XI
    (XO (XI (XI (XO (XO (XI (XI (XI (XI XH)))))))))))))))), ((Zpos (XO (XO
    (XI (XO (XI (XI (XO (XI (XI (XO (XO (XO (XI (XO (XO
    XH)))))))))))))))) :: [])) :: (((Zpos (XO (XO (XO (XI (XI (XI (XO (XI (XI
    (XO (XO (XI (XI (XI (XI XH)))))))))))))))), ((Zpos (XO (XO (XO (XI (XI
    (XI (XO (XI (XO (XI (XI (XO (XI (XO (XO
    XH)))))))))))))))) :: [])) :: (((Zpos (XI (XO (XO (XI (XI (XI (XO (XI (XI
    (XO (XO (XI (XI (XI (XI XH)))))))))))))))), ((Zpos (XI (XO (XO (XO (XO
    (XI (XI (XI (XO (XO (XO (XO (XO (XI XH))))))))))))))) :: [])) :: (((Zpos
    (XO (XI (XO (XI (XI (XI (XO (XI (XI (XO (XO (XI (XI (XI (XI
    XH)))))))))))))))), ((Zpos (XO (XI (XI (XO (XO (XO (XO (XI (XO (XI (XI
    (XI (XO (XO XH))))))))))))))) :: [])) :: (((Zpos (XI (XI (XO (XI (XI (XI
    (XO (XI (XI (XO (XO (XI (XI (XI (XI XH)))))))))))))))), ((Zpos (XO (XI
    (XO (XI (XI (XO (XI (XI (XO (XO (XO (XO (XI (XO
    XH))))))))))))))) :: [])) :: (((Zpos (XO (XO (XI (XI (XI (XI (XO (XI (XI
    (XO (XO (XI (XI (XI (XI XH)))))))))))))))), ((Zpos (XO (XI (XI (XI (XO
    (XI (XI (XI (XI (XI (XO (XI (XI (XO XH))))))))))))))) :: [])) :: (((Zpos
    (XI (XO (XI (XI (XI (XI (XO (XI (XI (XO (XO (XI (XI (XI (XI
    XH)))))))))))))))), ((Zpos (XI (XI (XI (XI (XI (XI (XO (XO (XO (XO (XI
    (XI (XI (XO XH))))))))))))))) :: [])) :: (((Zpos (XO (XI (XI (XI (XI (XI
    (XO (XI (XI (XO (XO (XI (XI (XI (XI XH)))))))))))))))), ((Zpos (XI (XO
    (XO (XI (XI (XO (XO (XI (XI (XO (XI (XO (XO (XI
    XH))))))))))))))) :: [])) :: (((Zpos (XI (XI (XI (XI (XI (XI (XO (XI (XI
    (XO (XO (XI (XI (XI (XI XH)))))))))))))))), ((Zpos (XO (XI (XO (XO (XO
    (XO (XO (XO (XO (XI (XO (XI (XO (XI XH))))))))))))))) :: [])) :: (((Zpos
    (XO (XO (XO (XO (XO (XO (XI (XI (XI (XO (XO (XI (XI (XI (XI
    XH)))))))))))))))), ((Zpos (XO (XI (XI (XI (XO (XO (XI (XI (XI (XO (XO
    (XO (XI (XI XH))))))))))))))) :: [])) :: (((Zpos (XI (XO (XO (XO (XO (XO
    (XI (XI (XI (XO (XO (XI (XI (XI (XI XH)))))))))))))))), ((Zpos (XO (XI
    (XO (XO (XO (XO (XI (XO (XO (XI (XI (XO (XI (XI
    XH))))))))))))))) :: [])) :: (((Zpos (XO (XI (XO (XO (XO (XO (XI (XI (XI
    (XO (XO (XI (XI (XI (XI XH)))))))))))))))), ((Zpos (XO (XO (XI (XI (XI
    (XI (XI (XI (XO (XO (XI (XO (XO (XO (XO
    XH)))))))))))))))) :: [])) :: (((Zpos (XI (XI (XO (XO (XO (XO (XI (XI (XI
    (XO (XO (XI (XI (XI (XI XH)))))))))))))))), ((Zpos (XO (XO (XI (XI (XI
    (XI (XI (XO (XO (XO (XO (XO (XI (XO (XO
    XH)))))))))))))))) :: [])) :: (((Zpos (XO (XO (XI (XO (XO (XO (XI (XI (XI
    (XO (XO (XI (XI (XI (XI XH)))))))))))))))), ((Zpos (XI (XO (XI (XI (XO
    (XO (XO (XI (XI (XI (XI (XI (XI (XO (XO
    XH)))))))))))))))) :: [])) :: (((Zpos (XI (XO (XI (XO (XO (XO (XI (XI (XI
    (XO (XO (XI (XI (XI (XI XH)))))))))))))))), ((Zpos (XO (XO (XO (XI (XO
    (XO (XO (XI (XO (XI (XI (XO (XO (XI XH))))))))))))))) :: [])) :: (((Zpos
    (XO (XI (XI (XO (XO (XO (XI (XI (XI (XO (XO (XI (XI (XI (XI
    XH)))))))))))))))), ((Zpos (XO (XI (XI (XI (XO (XI (XO (XO (XO (XI (XI
    (XO (XI (XO (XO XH)))))))))))))))) :: [])) :: (((Zpos (XI (XI (XI (XO (XO
    (XO (XI (XI (XI (XO (XO (XI (XI (XI (XI XH)))))))))))))))), ((Zpos (XI
    (XO (XO (XI (XO (XO (XO (XI (XO (XI (XO (XO (XI (XO
    XH))))))))))))))) :: [])) :: (((Zpos (XO (XO (XO (XI (XO (XO (XI (XI (XI
    (XO (XO (XI (XI (XI (XI XH)))))))))))))))), ((Zpos (XI (XI (XO (XI (XI
    (XI (XI (XO (XI (XI (XI (XO (XO (XI XH))))))))))))))) :: [])) :: (((Zpos
    (XI (XO (XO (XI (XO (XO (XI (XI (XI (XO (XO (XI (XI (XI (XI
    XH)))))))))))))))), ((Zpos (XI (XI (XO (XO (XI (XI (XI (XI (XI (XI (XI
    (XO (XO (XI XH))))))))))))))) :: [])) :: (((Zpos (XO (XI (XO (XI (XO (XO
    (XI (XI (XI (XO (XO (XI (XI (XI (XI XH)))))))))))))))), ((Zpos (XI (XO
    (XO (XO (XO (XO (XI (XO (XI (XO (XI (XI (XO (XI
    XH))))))))))))))) :: [])) :: (((Zpos (XI (XI (XO (XI (XO (XO (XI (XI (XI
    (XO (XO (XI (XI (XI (XI XH)))))))))))))))), ((Zpos (XO (XO (XI (XI (XI
    (XO (XO (XI (XO (XI (XI (XI (XO (XI XH))))))))))))))) :: [])) :: (((Zpos
    (XO (XO (XI (XI (XO (XO (XI (XI (XI (XO (XO (XI (XI (XI (XI
    XH)))))))))))))))), ((Zpos (XI (XO (XO (XI (XO (XO (XO (XO (XO (XO (XI
    (XO (XI (XI XH))))))))))))))) :: [])) :: (((Zpos (XI (XO (XI (XI (XO (XO
    (XI (XI (XI (XO (XO (XI (XI (XI (XI XH)))))))))))))))), ((Zpos (XI (XO
    (XO (XI (XI (XO (XI (XO (XI (XO (XI (XO (XI (XI
    XH))))))))))))))) :: [])) :: (((Zpos (XO (XI (XI (XI (XO (XO (XI (XI (XI
    (XO (XO (XI (XI (XI (XI XH)))))))))))))))), ((Zpos (XI (XI (XO (XI (XO
    (XI (XI (XO (XO (XO (XO (XI (XI (XI XH))))))))))))))) :: [])) :: (((Zpos
    (XI (XI (XI (XI (XO (XO (XI (XI (XI (XO (XO (XI (XI (XI (XI
    XH)))))))))))))))), ((Zpos (XO (XO (XO (XO (XI (XO (XO (XO (XI (XO (XI
    (XI (XI (XI XH))))))))))))))) :: [])) :: (((Zpos (XO (XO (XO (XO (XI (XO
    (XI (XI (XI (XO (XO (XI (XI (XI (XI XH)))))))))))))))), ((Zpos (XO (XI
    (XI (XI (XI (XO (XI (XO (XO (XO (XO (XI (XI (XO (XO
    XH)))))))))))))))) :: [])) :: (((Zpos (XI (XO (XO (XO (XI (XO (XI (XI (XI
    (XO (XO (XI (XI (XI (XI XH)))))))))))))))), ((Zpos (XI (XO (XI (XI (XO
    (XI (XI (XO (XI (XO (XO (XO (XI (XO XH))))))))))))))) :: [])) :: (((Zpos
    (XO (XI (XO (XO (XI (XO (XI (XI (XI (XO (XO (XI (XI (XI (XI
    XH)))))))))))))))), ((Zpos (XO (XI (XI (XI (XO (XI (XO (XO (XO (XI (XO
    (XO (XO (XI XH))))))))))))))) :: [])) :: (((Zpos (XI (XI (XO (XO (XI (XO
    (XI (XI (XI (XO (XO (XI (XI (XI (XI XH)))))))))))))))), ((Zpos (XO (XO
    (XO (XI (XI (XI (XI (XO (XO (XI (XI (XO (XI (XO (XO
    XH)))))))))))))))) :: [])) :: (((Zpos (XO (XO (XI (XO (XI (XO (XI (XI (XI
    (XO (XO (XI (XI (XI (XI XH)))))))))))))))), ((Zpos (XI (XI (XO (XI (XO
    (XI (XO (XO (XO (XO (XO (XO (XI (XO XH))))))))))))))) :: [])) :: (((Zpos
    (XI (XO (XI (XO (XI (XO (XI (XI (XI (XO (XO (XI (XI (XI (XI
    XH)))))))))))))))), ((Zpos (XI (XO (XO (XI (XI (XO (XO (XO (XI (XO (XI
    (XI (XI (XO XH))))))))))))))) :: [])) :: (((Zpos (XO (XI (XI (XO (XI (XO
    (XI (XI (XI (XO (XO (XI (XI (XI (XI XH)))))))))))))))), ((Zpos (XO (XI
    (XO (XI (XO (XI (XI (XI (XI (XO (XI (XI (XO (XI
    XH))))))))))))))) :: [])) :: (((Zpos (XI (XI (XI (XO (XI (XO (XI (XI (XI
    (XO (XO (XI (XI (XI (XI XH)))))))))))))))), ((Zpos (XO (XI (XO (XI (XO
    (XI (XO (XO (XI (XI (XI (XI (XO (XO (XO
    XH)))))))))))))))) :: [])) :: (((Zpos (XO (XO (XO (XI (XI (XO (XI (XI (XI
    (XO (XO (XI (XI (XI (XI XH)))))))))))))))), ((Zpos (XI (XI (XO (XI (XO
    (XO (XO (XI (XI (XI (XI (XI (XI (XO XH))))))))))))))) :: [])) :: (((Zpos
    (XI (XO (XO (XI (XI (XO (XI (XI (XI (XO (XO (XI (XI (XI (XI
    XH)))))))))))))))), ((Zpos (XO (XO (XI (XO (XO (XO (XI (XO (XI (XO (XO
    (XO (XO (XI XH))))))))))))))) :: [])) :: (((Zpos (XO (XI (XO (XI (XI (XO
    (XI (XI (XI (XO (XO (XI (XI (XI (XI XH)))))))))))))))), ((Zpos (XI (XI
    (XI (XO (XI (XO (XO (XO (XO (XO (XO (XI (XO (XI
    XH))))))))))))))) :: [])) :: (((Zpos (XI (XI (XO (XI (XI (XO (XI (XI (XI
    (XO (XO (XI (XI (XI (XI XH)))))))))))))))), ((Zpos (XI (XI (XI (XO (XO
    (XO (XO (XI (XI (XI (XO (XO (XI (XI XH))))))))))))))) :: [])) :: (((Zpos
    (XO (XO (XI (XI (XI (XO (XI (XI (XI (XO (XO (XI (XI (XI (XI
    XH)))))))))))))))), ((Zpos (XO (XI (XI (XO (XO (XO (XO (XI (XO (XI (XI
    (XO (XI (XO (XO XH)))))))))))))))) :: [])) :: (((Zpos (XI (XO (XI (XI (XI
    (XO (XI (XI (XI (XO (XO (XI (XI (XI (XI XH)))))))))))))))), ((Zpos (XI
    (XO (XO (XI (XO (XI (XO (XO (XO (XI (XO (XO (XI (XO
    XH))))))))))))))) :: [])) :: (((Zpos (XO (XI (XI (XI (XI (XO (XI (XI (XI
    (XO (XO (XI (XI (XI (XI XH)))))))))))))))), ((Zpos (XI (XI (XI (XI (XO
    (XO (XO (XO (XO (XO (XI (XO (XI (XO XH))))))))))))))) :: [])) :: (((Zpos
    (XI (XI (XI (XI (XI (XO (XI (XI (XI (XO (XO (XI (XI (XI (XI
    XH)))))))))))))))), ((Zpos (XI (XO (XI (XO (XO (XI (XI (XO (XO (XO (XI
    (XI (XI (XO XH))))))))))))))) :: [])) :: (((Zpos (XO (XO (XO (XO (XO (XI
    (XI (XI (XI (XO (XO (XI (XI (XI (XI XH)))))))))))))))), ((Zpos (XI (XI
    (XO (XO (XI (XO (XO (XO (XO (XI (XI (XO (XO (XI
    XH))))))))))))))) :: [])) :: (((Zpos (XI (XO (XO (XO (XO (XI (XI (XI (XI
    (XO (XO (XI (XI (XI (XI XH)))))))))))))))), ((Zpos (XO (XI (XI (XI (XO
    (XO (XI (XO (XI (XI (XI (XO (XO (XI XH))))))))))))))) :: [])) :: (((Zpos
    (XO (XI (XO (XO (XO (XI (XI (XI (XI (XO (XO (XI (XI (XI (XI
    XH)))))))))))))))), ((Zpos (XO (XO (XO (XI (XO (XI (XO (XI (XO (XO (XO
    (XI (XO (XI XH))))))))))))))) :: [])) :: (((Zpos (XI (XI (XO (XO (XO (XI
    (XI (XI (XI (XO (XO (XI (XI (XI (XI XH)))))))))))))))), ((Zpos (XI (XO
    (XI (XO (XO (XI (XI (XI (XO (XO (XI (XI (XO (XI
    XH))))))))))))))) :: [])) :: (((Zpos (XO (XO (XI (XO (XO (XI (XI (XI (XI
    (XO (XO (XI (XI (XI (XI XH)))))))))))))))), ((Zpos (XO (XI (XI (XO (XO
    (XO (XO (XO (XO (XO (XI (XO (XI (XI XH))))))))))))))) :: [])) :: (((Zpos
    (XI (XO (XI (XO (XO (XI (XI (XI (XI (XO (XO (XI (XI (XI (XI
    XH)))))))))))))))), ((Zpos (XO (XI (XO (XO (XO (XI (XI (XI (XI (XO (XI
    (XO (XI (XI XH))))))))))))))) :: [])) :: (((Zpos (XO (XI (XI (XO (XO (XI
    (XI (XI (XI (XO (XO (XI (XI (XI (XI XH)))))))))))))))), ((Zpos (XI (XO
    (XO (XI (XI (XI (XI (XO (XI (XI (XI (XI (XI (XI
    XH))))))))))))))) :: [])) :: (((Zpos (XI (XI (XI (XO (XO (XI (XI (XI (XI
    (XO (XO (XI (XI (XI (XI XH)))))))))))))))), ((Zpos (XI (XI (XI (XI (XO
    (XO (XI (XI (XO (XO (XO (XI (XO (XO (XO
    XH)))))))))))))))) :: [])) :: (((Zpos (XO (XO (XO (XI (XO (XI (XI (XI (XI
    (XO (XO (XI (XI (XI (XI XH)))))))))))))))), ((Zpos (XI (XO (XO (XO (XO
    (XI (XI (XI (XO (XO (XO (XI (XO (XO (XO
    XH)))))))))))))))) :: [])) :: (((Zpos (XI (XO (XO (XI (XO (XI (XI (XI (XI
    (XO (XO (XI (XI (XI (XI XH)))))))))))))))), ((Zpos (XO (XO (XI (XI (XO
    (XO (XI (XI (XI (XO (XO (XO (XI (XO (XO
    XH)))))))))))))))) :: [])) :: (((Zpos (XO (XI (XO (XI (XO (XI (XI (XI (XI
    (XO (XO (XI (XI (XI (XI XH)))))))))))))))), ((Zpos (XO (XI (XO (XO (XO
    (XI (XI (XI (XO (XI (XI (XO (XI (XO (XO
    XH)))))))))))))))) :: [])) :: (((Zpos (XI (XI (XO (XI (XO (XI (XI (XI (XI
    (XO (XO (XI (XI (XI (XI XH)))))))))))))))), ((Zpos (XI (XI (XI (XI (XI
    (XI (XO (XO (XI (XI (XO (XO (XI (XO XH))))))))))))))) :: [])) :: (((Zpos
    (XO (XO (XI (XI (XO (XI (XI (XI (XI (XO (XO (XI (XI (XI (XI
    XH)))))))))))))))), ((Zpos (XO (XI (XO (XI (XI (XI (XO (XI (XO (XI (XI
    (XI (XO (XI XH))))))))))))))) :: [])) :: (((Zpos (XI (XO (XI (XI (XO (XI
    (XI (XI (XI (XO (XO (XI (XI (XI (XI XH)))))))))))))))), ((Zpos (XI (XO
    (XI (XI (XI (XO (XO (XO (XO (XO (XI (XO (XI (XO
    XH))))))))))))))) :: [])) :: (((Zpos (XO (XI (XI (XI (XO (XI (XI (XI (XI
    (XO (XO (XI (XI (XI (XI XH)))))))))))))))), ((Zpos (XO (XO (XO (XO (XI
    (XO (XI (XI (XI (XO (XO (XO (XI (XI XH))))))))))))))) :: [])) :: (((Zpos
    (XI (XI (XI (XI (XO (XI (XI (XI (XI (XO (XO (XI (XI (XI (XI
    XH)))))))))))))))), ((Zpos (XO (XO (XO (XI (XI (XO (XO (XI (XO (XO (XI
    (XO (XI (XI XH))))))))))))))) :: [])) :: (((Zpos (XO (XO (XO (XO (XI (XI
    (XI (XI (XI (XO (XO (XI (XI (XI (XI XH)))))))))))))))), ((Zpos (XO (XI
    (XO (XI (XI (XI (XI (XI (XI (XO (XI (XO (XO (XO (XO
    XH)))))))))))))))) :: [])) :: (((Zpos (XI (XO (XO (XO (XI (XI (XI (XI (XI
    (XO (XO (XI (XI (XI (XI XH)))))))))))))))), ((Zpos (XI (XI (XO (XO (XO
    (XI (XO (XI (XO (XI (XI (XO (XI (XO (XO
    XH)))))))))))))))) :: [])) :: (((Zpos (XO (XI (XO (XO (XI (XI (XI (XI (XI
    (XO (XO (XI (XI (XI (XI XH)))))))))))))))), ((Zpos (XI (XI (XI (XO (XI
    (XO (XI (XO (XO (XO (XI (XI (XI (XO (XO
    XH)))))))))))))))) :: [])) :: (((Zpos (XI (XI (XO (XO (XI (XI (XI (XI (XI
    (XO (XO (XI (XI (XI (XI XH)))))))))))))))), ((Zpos (XI (XI (XI (XI (XI
    (XO (XO (XI (XO (XI (XI (XI (XI (XO (XO
    XH)))))))))))))))) :: [])) :: (((Zpos (XO (XO (XI (XO (XI (XI (XI (XI (XI
    (XO (XO (XI (XI (XI (XI XH)))))))))))))))), ((Zpos (XI (XI (XI (XO (XI
    (XO (XO (XI (XI (XI (XI (XO (XO (XI XH))))))))))))))) :: [])) :: (((Zpos
    (XI (XO (XI (XO (XI (XI (XI (XI (XI (XO (XO (XI (XI (XI (XI
    XH)))))))))))))))), ((Zpos (XI (XI (XO (XI (XO (XO (XI (XI (XI (XO (XI
    (XI (XO (XI XH))))))))))))))) :: [])) :: (((Zpos (XO (XI (XI (XO (XI (XI
    (XI (XI (XI (XO (XO (XI (XI (XI (XI XH)))))))))))))))), ((Zpos (XO (XO
    (XO (XI (XO (XI (XI (XI (XI (XO (XO (XO (XO (XO (XO
    XH)))))))))))))))) :: [])) :: (((Zpos (XI (XI (XI (XO (XI (XI (XI (XI (XI
    (XO (XO (XI (XI (XI (XI XH)))))))))))))))), ((Zpos (XI (XI (XO (XI (XO
    (XO (XI (XI (XO (XI (XO (XI (XI (XI XH))))))))))))))) :: [])) :: (((Zpos
    (XO (XO (XO (XI (XI (XI (XI (XI (XI (XO (XO (XI (XI (XI (XI
    XH)))))))))))))))), ((Zpos (XO (XO (XO (XO (XO (XI (XO (XO (XI (XI (XO
    (XI (XI (XI XH))))))))))))))) :: [])) :: (((Zpos (XI (XO (XO (XI (XI (XI
    (XI (XI (XI (XO (XO (XI (XI (XI (XI XH)))))))))))))))), ((Zpos (XO (XI
    (XO (XO (XI (XO (XO (XI (XO (XO (XI (XI (XI (XI
    XH))))))))))))))) :: [])) :: (((Zpos (XO (XI (XO (XI (XI (XI (XI (XI (XI
    (XO (XO (XI (XI (XI (XI XH)))))))))))))))), ((Zpos (XO (XO (XO (XO (XO
    (XO (XI (XI (XO (XI (XO (XO (XI (XI XH))))))))))))))) :: [])) :: (((Zpos
    (XI (XI (XO (XI (XI (XI (XI (XI (XI (XO (XO (XI (XI (XI (XI
    XH)))))))))))))))), ((Zpos (XI (XO (XO (XI (XI (XO (XO (XI (XO (XO (XO
    (XO (XI (XI XH))))))))))))))) :: [])) :: (((Zpos (XO (XO (XI (XI (XI (XI
    (XI (XI (XI (XO (XO (XI (XI (XI (XI XH)))))))))))))))), ((Zpos (XO (XO
    (XO (XI (XI (XO (XI (XO (XI (XI (XO (XI (XO (XO (XO
    XH)))))))))))))))) :: [])) :: (((Zpos (XI (XO (XI (XI (XI (XI (XI (XI (XI
    (XO (XO (XI (XI (XI (XI XH)))))))))))))))), ((Zpos (XO (XO (XO (XO (XO
    (XO (XI (XI (XO (XI (XI (XI (XO (XO XH))))))))))))))) :: [])) :: (((Zpos
    (XO (XI (XI (XI (XI (XI (XI (XI (XI (XO (XO (XI (XI (XI (XI
    XH)))))))))))))))), ((Zpos (XO (XI (XI (XO (XI (XI (XO (XO (XI (XI (XO
    (XO (XO (XO (XO XH)))))))))))))))) :: [])) :: (((Zpos (XI (XI (XI (XI (XI
    (XI (XI (XI (XI (XO (XO (XI (XI (XI (XI XH)))))))))))))))), ((Zpos (XO
    (XI (XO (XI (XI (XI (XO (XO (XO (XI (XO (XO (XI (XO
    XH))))))))))))))) :: [])) :: (((Zpos (XO (XO (XO (XO (XO (XO (XO (XO (XO
    (XI (XO (XI (XI (XI (XI XH)))))))))))))))), ((Zpos (XI (XI (XI (XO (XO
    (XO (XO (XO (XO (XI (XO (XO (XI (XO XH))))))))))))))) :: [])) :: (((Zpos
    (XI (XO (XO (XO (XO (XO (XO (XO (XO (XI (XO (XI (XI (XI (XI
    XH)))))))))))))))), ((Zpos (XO (XI (XI (XO (XO (XI (XO (XI (XO (XI (XI
    (XI (XI (XO XH))))))))))))))) :: [])) :: (((Zpos (XO (XI (XO (XO (XO (XO
    (XO (XO (XO (XI (XO (XI (XI (XI (XI XH)))))))))))))))), ((Zpos (XI (XI
    (XO (XO (XI (XO (XI (XI (XO (XI (XO (XO (XO (XI
    XH))))))))))))))) :: [])) :: (((Zpos (XI (XI (XO (XO (XO (XO (XO (XO (XO
    (XI (XO (XI (XI (XI (XI XH)))))))))))))))), ((Zpos (XO (XI (XI (XO (XI
    (XO (XI (XI (XO (XO (XI (XI (XI (XI XH))))))))))))))) :: [])) :: (((Zpos
    (XO (XO (XI (XO (XO (XO (XO (XO (XO (XI (XO (XI (XI (XI (XI
    XH)))))))))))))))), ((Zpos (XI (XO (XI (XO (XO (XO (XO (XI (XI (XI (XO
    (XI (XI (XO XH))))))))))))))) :: [])) :: (((Zpos (XI (XO (XI (XO (XO (XO
    (XO (XO (XO (XI (XO (XI (XI (XI (XI XH)))))))))))))))), ((Zpos (XO (XI
    (XI (XI (XI (XO (XO (XO (XI (XO (XI (XI (XO (XI
    XH))))))))))))))) :: [])) :: (((Zpos (XO (XI (XI (XO (XO (XO (XO (XO (XO
    (XI (XO (XI (XI (XI (XI XH)))))))))))))))), ((Zpos (XO (XO (XI (XO (XI
    (XI (XO (XI (XO (XI (XI (XO (XO (XI XH))))))))))))))) :: [])) :: (((Zpos
    (XI (XI (XI (XO (XO (XO (XO (XO (XO (XI (XO (XI (XI (XI (XI
    XH)))))))))))))))), ((Zpos (XI (XI (XO (XI (XI (XI (XO (XO (XI (XI (XI
    (XI (XO (XO (XO XH)))))))))))))))) :: [])) :: (((Zpos (XO (XO (XO (XI (XO
    (XO (XO (XO (XO (XI (XO (XI (XI (XI (XI XH)))))))))))))))), ((Zpos (XO
    (XO (XI (XI (XO (XO (XI (XO (XO (XO (XO (XI (XO (XO (XO
    XH)))))))))))))))) :: [])) :: (((Zpos (XI (XO (XO (XI (XO (XO (XO (XO (XO
    (XI (XO (XI (XI (XI (XI XH)))))))))))))))), ((Zpos (XI (XO (XI (XI (XO
    (XO (XI (XO (XO (XI (XI (XO (XI (XO (XO
    XH)))))))))))))))) :: [])) :: (((Zpos (XO (XI (XO (XI (XO (XO (XO (XO (XO
    (XI (XO (XI (XI (XI (XI XH)))))))))))))))), ((Zpos (XI (XI (XO (XI (XO
    (XO (XO (XI (XI (XO (XO (XI (XO (XO (XO
    XH)))))))))))))))) :: [])) :: (((Zpos (XI (XI (XO (XI (XO (XO (XO (XO (XO
    (XI (XO (XI (XI (XI (XI XH)))))))))))))))), ((Zpos (XI (XI (XO (XO (XI
    (XO (XI (XI (XO (XI (XI (XI (XI (XO XH))))))))))))))) :: [])) :: (((Zpos
    (XO (XO (XI (XI (XO (XO (XO (XO (XO (XI (XO (XI (XI (XI (XI
    XH)))))))))))))))), ((Zpos (XO (XO (XO (XO (XO (XO (XI (XO (XI (XO (XO
    (XO (XI (XO XH))))))))))))))) :: [])) :: (((Zpos (XI (XO (XI (XI (XO (XO
    (XO (XO (XO (XI (XO (XI (XI (XI (XI XH)))))))))))))))), ((Zpos (XO (XO
    (XO (XO (XO (XO (XI (XI (XI (XO (XI (XO (XI (XO
    XH))))))))))))))) :: [])) :: (((Zpos (XO (XO (XO (XO (XI (XO (XO (XO (XO
    (XI (XO (XI (XI (XI (XI XH)))))))))))))))), ((Zpos (XO (XI (XO (XI (XI
    (XO (XI (XO (XO (XO (XO (XI (XI (XO XH))))))))))))))) :: [])) :: (((Zpos
    (XO (XI (XO (XO (XI (XO (XO (XO (XO (XI (XO (XI (XI (XI (XI
    XH)))))))))))))))), ((Zpos (XO (XO (XI (XO (XI (XI (XI (XO (XO (XI (XI
    (XO (XO (XI XH))))))))))))))) :: [])) :: (((Zpos (XI (XO (XI (XO (XI (XO
    (XO (XO (XO (XI (XO (XI (XI (XI (XI XH)))))))))))))))), ((Zpos (XO (XI
    (XI (XI (XI (XO (XI (XI (XI (XO (XO (XO (XI (XO
    XH))))))))))))))) :: [])) :: (((Zpos (XO (XI (XI (XO (XI (XO (XO (XO (XO
    (XI (XO (XI (XI (XI (XI XH)))))))))))))))), ((Zpos (XO (XI (XO (XI (XO
    (XI (XO (XO (XI (XI (XO (XO (XI (XI XH))))))))))))))) :: [])) :: (((Zpos
    (XI (XI (XI (XO (XI (XO (XO (XO (XO (XI (XO (XI (XI (XI (XI
    XH)))))))))))))))), ((Zpos (XO (XI (XO (XI (XO (XO (XI (XI (XO (XI (XI
    (XO (XI (XI XH))))))))))))))) :: [])) :: (((Zpos (XO (XO (XO (XI (XI (XO
    (XO (XO (XO (XI (XO (XI (XI (XI (XI XH)))))))))))))))), ((Zpos (XO (XO
    (XI (XI (XI (XI (XO (XO (XI (XO (XO (XI (XI (XI
    XH))))))))))))))) :: [])) :: (((Zpos (XI (XO (XO (XI (XI (XO (XO (XO (XO
    (XI (XO (XI (XI (XI (XI XH)))))))))))))))), ((Zpos (XO (XI (XI (XI (XI
    (XO (XI (XO (XI (XO (XO (XI (XI (XI XH))))))))))))))) :: [])) :: (((Zpos
    (XO (XI (XO (XI (XI (XO (XO (XO (XO (XI (XO (XI (XI (XI (XI
    XH)))))))))))))))), ((Zpos (XI (XO (XI (XO (XO (XI (XI (XO (XI (XO (XO
    (XI (XI (XI XH))))))))))))))) :: [])) :: (((Zpos (XI (XI (XO (XI (XI (XO
    (XO (XO (XO (XI (XO (XI (XI (XI (XI XH)))))))))))))))), ((Zpos (XI (XI
    (XI (XI (XO (XO (XO (XI (XI (XO (XO (XI (XI (XI
    XH))))))))))))))) :: [])) :: (((Zpos (XO (XO (XI (XI (XI (XO (XO (XO (XO
    (XI (XO (XI (XI (XI (XI XH)))))))))))))))), ((Zpos (XO (XI (XI (XO (XI
    (XO (XI (XO (XI (XI (XI (XO (XI (XO (XO
    XH)))))))))))))))) :: [])) :: (((Zpos (XI (XO (XI (XI (XI (XO (XO (XO (XO
    (XI (XO (XI (XI (XI (XI XH)))))))))))))))), ((Zpos (XO (XI (XI (XI (XI
    (XI (XO (XI (XO (XO (XI (XI (XI (XI XH))))))))))))))) :: [])) :: (((Zpos
    (XO (XI (XI (XI (XI (XO (XO (XO (XO (XI (XO (XI (XI (XI (XI
    XH)))))))))))))))), ((Zpos (XI (XO (XI (XI (XI (XI (XO (XI (XI (XI (XI
    (XI (XI (XI XH))))))))))))))) :: [])) :: (((Zpos (XO (XO (XO (XO (XO (XI
    (XO (XO (XO (XI (XO (XI (XI (XI (XI XH)))))))))))))))), ((Zpos (XO (XI
    (XO (XO (XI (XO (XO (XO (XO (XI (XI (XO (XO (XO (XO
    XH)))))))))))))))) :: [])) :: (((Zpos (XO (XI (XO (XO (XO (XI (XO (XO (XO
    (XI (XO (XI (XI (XI (XI XH)))))))))))))))), ((Zpos (XO (XO (XO (XI (XI
    (XI (XI (XI (XO (XI (XO (XI (XO (XO (XO
    XH)))))))))))))))) :: [])) :: (((Zpos (XI (XO (XI (XO (XO (XI (XO (XO (XO
    (XI (XO (XI (XI (XI (XI XH)))))))))))))))), ((Zpos (XO (XO (XO (XI (XI
    (XI (XO (XO (XO (XO (XO (XO (XI (XO (XO
    XH)))))))))))))))) :: [])) :: (((Zpos (XO (XI (XI (XO (XO (XI (XO (XO (XO
    (XI (XO (XI (XI (XI (XI XH)))))))))))))))), ((Zpos (XI (XO (XI (XI (XI
    (XI (XI (XI (XO (XO (XO (XO (XI (XO (XO
    XH)))))))))))))))) :: [])) :: (((Zpos (XO (XI (XO (XI (XO (XI (XO (XO (XO
    (XI (XO (XI (XI (XI (XI XH)))))))))))))))), ((Zpos (XI (XI (XI (XI (XO
    (XI (XI (XI (XO (XO (XO (XI (XI (XO (XO
    XH)))))))))))))))) :: [])) :: (((Zpos (XI (XI (XO (XI (XO (XI (XO (XO (XO
    (XI (XO (XI (XI (XI (XI XH)))))))))))))))), ((Zpos (XO (XO (XI (XI (XI
    (XI (XI (XI (XO (XO (XO (XI (XI (XO (XO
    XH)))))))))))))))) :: [])) :: (((Zpos (XO (XO (XI (XI (XO (XI (XO (XO (XO
    (XI (XO (XI (XI (XI (XI XH)))))))))))))))), ((Zpos (XO (XO (XO (XI (XO
    (XI (XO (XO (XI (XO (XO (XI (XI (XO (XO
    XH)))))))))))))))) :: [])) :: (((Zpos (XI (XO (XI (XI (XO (XI (XO (XO (XO
    (XI (XO (XI (XI (XI (XI XH)))))))))))))))), ((Zpos (XO (XO (XI (XO (XI
    (XI (XO (XI (XI (XO (XI (XI (XI (XO (XO
    XH)))))))))))))))) :: [])) :: (((Zpos (XO (XI (XI (XI (XO (XI (XO (XO (XO
    (XI (XO (XI (XI (XI (XI XH)))))))))))))))), ((Zpos (XO (XI (XI (XI (XI
    (XO (XI (XI (XO (XO (XO (XO (XI (XO (XO
    XH)))))))))))))))) :: [])) :: (((Zpos (XI (XI (XI (XI (XO (XI (XO (XO (XO
    (XI (XO (XI (XI (XI (XI XH)))))))))))))))), ((Zpos (XI (XI (XI (XO (XI
    (XI (XO (XI (XO (XI (XI (XO (XI (XO (XO
    XH)))))))))))))))) :: [])) :: (((Zpos (XO (XO (XO (XO (XI (XI (XO (XO (XO
    (XI (XO (XI (XI (XI (XI XH)))))))))))))))), ((Zpos (XO (XI (XI (XI (XO
    (XI (XO (XI (XI (XI (XI (XI (XO (XO XH))))))))))))))) :: [])) :: (((Zpos
    (XI (XO (XO (XO (XI (XI (XO (XO (XO (XI (XO (XI (XI (XI (XI
    XH)))))))))))))))), ((Zpos (XI (XI (XI (XO (XO (XI (XI (XI (XO (XO (XO
    (XO (XI (XO XH))))))))))))))) :: [])) :: (((Zpos (XO (XI (XO (XO (XI (XI
    (XO (XO (XO (XI (XO (XI (XI (XI (XI XH)))))))))))))))), ((Zpos (XI (XO
    (XI (XI (XO (XO (XI (XO (XI (XO (XO (XO (XI (XO
    XH))))))))))))))) :: [])) :: (((Zpos (XI (XI (XO (XO (XI (XI (XO (XO (XO
    (XI (XO (XI (XI (XI (XI XH)))))))))))))))), ((Zpos (XI (XO (XO (XI (XO
    (XO (XI (XI (XO (XI (XO (XO (XI (XO XH))))))))))))))) :: [])) :: (((Zpos
    (XO (XO (XI (XO (XI (XI (XO (XO (XO (XI (XO (XI (XI (XI (XI
    XH)))))))))))))))), ((Zpos (XO (XO (XI (XO (XO (XI (XI (XI (XO (XI (XO
    (XO (XI (XO XH))))))))))))))) :: [])) :: (((Zpos (XI (XO (XI (XO (XI (XI
    (XO (XO (XO (XI (XO (XI (XI (XI (XI XH)))))))))))))))), ((Zpos (XI (XO
    (XO (XO (XI (XO (XI (XO (XI (XI (XO (XO (XI (XO
    XH))))))))))))))) :: [])) :: (((Zpos (XO (XI (XI (XO (XI (XI (XO (XO (XO
    (XI (XO (XI (XI (XI (XI XH)))))))))))))))), ((Zpos (XI (XO (XI (XI (XI
    (XO (XO (XI (XI (XO (XI (XO (XI (XO XH))))))))))))))) :: [])) :: (((Zpos
    (XI (XI (XI (XO (XI (XI (XO (XO (XO (XI (XO (XI (XI (XI (XI
    XH)))))))))))))))), ((Zpos (XO (XI (XI (XO (XO (XO (XO (XO (XO (XI (XI
    (XO (XI (XO XH))))))))))))))) :: [])) :: (((Zpos (XO (XO (XO (XI (XI (XI
    (XO (XO (XO (XI (XO (XI (XI (XI (XI XH)))))))))))))))), ((Zpos (XO (XO
    (XO (XI (XO (XI (XI (XO (XO (XI (XI (XO (XI (XO
    XH))))))))))))))) :: [])) :: (((Zpos (XI (XO (XO (XI (XI (XI (XO (XO (XO
    (XI (XO (XI (XI (XI (XI XH)))))))))))))))), ((Zpos (XO (XO (XO (XO (XO
    (XO (XI (XO (XO (XO (XO (XI (XI (XO XH))))))))))))))) :: [])) :: (((Zpos
    (XO (XI (XO (XI (XI (XI (XO (XO (XO (XI (XO (XI (XI (XI (XI
    XH)))))))))))))))), ((Zpos (XO (XO (XO (XI (XO (XI (XO (XI (XO (XO (XO
    (XI (XI (XO XH))))))))))))))) :: [])) :: (((Zpos (XI (XI (XO (XI (XI (XI
    (XO (XO (XO (XI (XO (XI (XI (XI (XI XH)))))))))))))))), ((Zpos (XO (XO
    (XI (XO (XO (XI (XI (XO (XO (XO (XI (XI (XI (XO
    XH))))))))))))))) :: [])) :: (((Zpos (XO (XO (XI (XI (XI (XI (XO (XO (XO
    (XI (XO (XI (XI (XI (XI XH)))))))))))))))), ((Zpos (XO (XI (XI (XI (XO
    (XI (XI (XO (XO (XO (XI (XI (XI (XO XH))))))))))))))) :: [])) :: (((Zpos
    (XI (XO (XI (XI (XI (XI (XO (XO (XO (XI (XO (XI (XI (XI (XI
    XH)))))))))))))))), ((Zpos (XO (XO (XI (XO (XI (XO (XO (XI (XO (XO (XO
    (XO (XO (XI XH))))))))))))))) :: [])) :: (((Zpos (XO (XI (XI (XI (XI (XI
    (XO (XO (XO (XI (XO (XI (XI (XI (XI XH)))))))))))))))), ((Zpos (XO (XO
    (XO (XI (XO (XI (XI (XO (XI (XO (XO (XO (XO (XI
    XH))))))))))))))) :: [])) :: (((Zpos (XI (XI (XI (XI (XI (XI (XO (XO (XO
    (XI (XO (XI (XI (XI (XI XH)))))))))))))))), ((Zpos (XO (XI (XI (XI (XO
    (XO (XO (XI (XI (XO (XO (XO (XO (XI XH))))))))))))))) :: [])) :: (((Zpos
    (XO (XO (XO (XO (XO (XO (XI (XO (XO (XI (XO (XI (XI (XI (XI
    XH)))))))))))))))), ((Zpos (XO (XI (XO (XO (XI (XI (XI (XI (XI (XO (XO
    (XO (XO (XI XH))))))))))))))) :: [])) :: (((Zpos (XI (XO (XO (XO (XO (XO
    (XI (XO (XO (XI (XO (XI (XI (XI (XI XH)))))))))))))))), ((Zpos (XI (XI
    (XI (XI (XO (XO (XI (XO (XI (XO (XI (XO (XO (XI
    XH))))))))))))))) :: [])) :: (((Zpos (XO (XI (XO (XO (XO (XO (XI (XO (XO
    (XI (XO (XI (XI (XI (XI XH)))))))))))))))), ((Zpos (XO (XI (XO (XO (XO
    (XI (XI (XI (XI (XO (XI (XO (XO (XI XH))))))))))))))) :: [])) :: (((Zpos
    (XI (XI (XO (XO (XO (XO (XI (XO (XO (XI (XO (XI (XI (XI (XI
    XH)))))))))))))))), ((Zpos (XI (XO (XO (XO (XI (XO (XO (XI (XO (XI (XI
    (XO (XO (XI XH))))))))))))))) :: [])) :: (((Zpos (XO (XO (XI (XO (XO (XO
    (XI (XO (XO (XI (XO (XI (XI (XI (XI XH)))))))))))))))), ((Zpos (XI (XO
    (XI (XO (XO (XO (XO (XI (XO (XO (XO (XI (XO (XI
    XH))))))))))))))) :: [])) :: (((Zpos (XI (XO (XI (XO (XO (XO (XI (XO (XO
    (XI (XO (XI (XI (XI (XI XH)))))))))))))))), ((Zpos (XI (XI (XI (XO (XI
    (XI (XI (XO (XI (XO (XI (XI (XO (XI XH))))))))))))))) :: [])) :: (((Zpos
    (XO (XI (XI (XO (XO (XO (XI (XO (XO (XI (XO (XI (XI (XI (XI
    XH)))))))))))))))), ((Zpos (XO (XI (XO (XI (XI (XO (XO (XO (XO (XI (XI
    (XI (XO (XI XH))))))))))))))) :: [])) :: (((Zpos (XI (XI (XI (XO (XO (XO
    (XI (XO (XO (XI (XO (XI (XI (XI (XI XH)))))))))))))))), ((Zpos (XO (XI
    (XO (XO (XO (XI (XO (XO (XI (XI (XI (XI (XO (XI
    XH))))))))))))))) :: [])) :: (((Zpos (XO (XO (XO (XI (XO (XO (XI (XO (XO
    (XI (XO (XI (XI (XI (XI XH)))))))))))))))), ((Zpos (XO (XI (XI (XI (XO
    (XI (XI (XO (XI (XO (XO (XO (XI (XI XH))))))))))))))) :: [])) :: (((Zpos
    (XI (XO (XO (XI (XO (XO (XI (XO (XO (XI (XO (XI (XI (XI (XI
    XH)))))))))))))))), ((Zpos (XI (XI (XO (XI (XO (XI (XO (XO (XO (XI (XO
    (XO (XI (XI XH))))))))))))))) :: [])) :: (((Zpos (XO (XI (XO (XI (XO (XO
    (XI (XO (XO (XI (XO (XI (XI (XI (XI XH)))))))))))))))), ((Zpos (XO (XI
    (XO (XO (XO (XI (XO (XO (XO (XO (XI (XO (XI (XI
    XH))))))))))))))) :: [])) :: (((Zpos (XI (XI (XO (XI (XO (XO (XI (XO (XO
    (XI (XO (XI (XI (XI (XI XH)))))))))))))))), ((Zpos (XI (XO (XO (XO (XI
    (XO (XO (XI (XO (XO (XO (XI (XI (XI XH))))))))))))))) :: [])) :: (((Zpos
    (XO (XO (XI (XI (XO (XO (XI (XO (XO (XI (XO (XI (XI (XI (XI
    XH)))))))))))))))), ((Zpos (XO (XI (XI (XI (XI (XI (XO (XO (XI (XO (XO
    (XI (XI (XI XH))))))))))))))) :: [])) :: (((Zpos (XI (XO (XI (XI (XO (XO
    (XI (XO (XO (XI (XO (XI (XI (XI (XI XH)))))))))))))))), ((Zpos (XI (XO
    (XO (XI (XO (XO (XI (XO (XI (XO (XO (XI (XI (XI
    XH))))))))))))))) :: [])) :: (((Zpos (XO (XI (XI (XI (XO (XO (XI (XO (XO
    (XI (XO (XI (XI (XI (XI XH)))))))))))))))), ((Zpos (XO (XO (XO (XI (XO
    (XO (XI (XO (XI (XO (XO (XI (XI (XI XH))))))))))))))) :: [])) :: (((Zpos
    (XI (XI (XI (XI (XO (XO (XI (XO (XO (XI (XO (XI (XI (XI (XI
    XH)))))))))))))))), ((Zpos (XO (XO (XO (XO (XI (XO (XI (XO (XI (XO (XO
    (XI (XI (XI XH))))))))))))))) :: [])) :: (((Zpos (XO (XO (XO (XO (XI (XO
    (XI (XO (XO (XI (XO (XI (XI (XI (XI XH)))))))))))))))), ((Zpos (XO (XI
    (XI (XO (XI (XO (XI (XO (XI (XO (XO (XI (XI (XI
    XH))))))))))))))) :: [])) :: (((Zpos (XI (XO (XO (XO (XI (XO (XI (XO (XO
    (XI (XO (XI (XI (XI (XI XH)))))))))))))))), ((Zpos (XI (XO (XI (XI (XI
    (XO (XI (XO (XI (XO (XO (XI (XI (XI XH))))))))))))))) :: [])) :: (((Zpos
    (XO (XI (XO (XO (XI (XO (XI (XO (XO (XI (XO (XI (XI (XI (XI
    XH)))))))))))))))), ((Zpos (XI (XO (XI (XI (XO (XO (XO (XI (XI (XO (XO
    (XI (XI (XI XH))))))))))))))) :: [])) :: (((Zpos (XI (XI (XO (XO (XI (XO
    (XI (XO (XO (XI (XO (XI (XI (XI (XI XH)))))))))))))))), ((Zpos (XO (XI
    (XI (XI (XO (XO (XO (XI (XI (XO (XO (XI (XI (XI
    XH))))))))))))))) :: [])) :: (((Zpos (XO (XO (XI (XO (XI (XO (XI (XO (XO
    (XI (XO (XI (XI (XI (XI XH)))))))))))))))), ((Zpos (XO (XO (XO (XO (XO
    (XO (XI (XO (XO (XI (XO (XI (XI (XI XH))))))))))))))) :: [])) :: (((Zpos
    (XI (XO (XI (XO (XI (XO (XI (XO (XO (XI (XO (XI (XI (XI (XI
    XH)))))))))))))))), ((Zpos (XI (XO (XO (XO (XO (XO (XO (XI (XO (XI (XO
    (XI (XI (XI XH))))))))))))))) :: [])) :: (((Zpos (XO (XI (XI (XO (XI (XO
    (XI (XO (XO (XI (XO (XI (XI (XI (XI XH)))))))))))))))), ((Zpos (XO (XO
    (XO (XO (XO (XO (XI (XI (XI (XI (XO (XI (XI (XI
    XH))))))))))))))) :: [])) :: (((Zpos (XI (XI (XI (XO (XI (XO (XI (XO (XO
    (XI (XO (XI (XI (XI (XI XH)))))))))))))))), ((Zpos (XO (XO (XI (XO (XI
    (XI (XI (XI (XI (XO (XI (XI (XI (XI XH))))))))))))))) :: [])) :: (((Zpos
    (XO (XO (XO (XI (XI (XO (XI (XO (XO (XI (XO (XI (XI (XI (XI
    XH)))))))))))))))), ((Zpos (XI (XO (XO (XI (XO (XO (XO (XO (XO (XI (XI
    (XI (XI (XI XH))))))))))))))) :: [])) :: (((Zpos (XI (XO (XO (XI (XI (XO
    (XI (XO (XO (XI (XO (XI (XI (XI (XI XH)))))))))))))))), ((Zpos (XI (XO
    (XO (XO (XO (XO (XI (XO (XO (XI (XI (XI (XI (XI
    XH))))))))))))))) :: [])) :: (((Zpos (XO (XI (XO (XI (XI (XO (XI (XO (XO
    (XI (XO (XI (XI (XI (XI XH)))))))))))))))), ((Zpos (XO (XI (XO (XO (XI
    (XI (XI (XO (XI (XI (XI (XI (XI (XI XH))))))))))))))) :: [])) :: (((Zpos
    (XI (XI (XO (XI (XI (XO (XI (XO (XO (XI (XO (XI (XI (XI (XI
    XH)))))))))))))))), ((Zpos (XI (XO (XI (XO (XO (XO (XO (XO (XO (XO (XO
    (XO (XO (XO (XO XH)))))))))))))))) :: [])) :: (((Zpos (XO (XO (XI (XI (XI
    (XO (XI (XO (XO (XI (XO (XI (XI (XI (XI XH)))))))))))))))), ((Zpos (XI
    (XO (XI (XI (XO (XI (XI (XI (XI (XO (XO (XO (XO (XO (XO
    XH)))))))))))))))) :: [])) :: (((Zpos (XI (XO (XI (XI (XI (XO (XI (XO (XO
    (XI (XO (XI (XI (XI (XI XH)))))))))))))))), ((Zpos (XI (XO (XO (XI (XI
    (XI (XI (XO (XO (XI (XO (XO (XO (XO (XO
    XH)))))))))))))))) :: [])) :: (((Zpos (XO (XI (XI (XI (XI (XO (XI (XO (XO
    (XI (XO (XI (XI (XI (XI XH)))))))))))))))), ((Zpos (XI (XO (XO (XI (XI
    (XI (XI (XO (XO (XI (XO (XO (XO (XO (XO
    XH)))))))))))))))) :: [])) :: (((Zpos (XI (XI (XI (XI (XI (XO (XI (XO (XO
    (XI (XO (XI (XI (XI (XI XH)))))))))))))))), ((Zpos (XI (XI (XI (XO (XI
    (XO (XI (XO (XO (XO (XI (XO (XO (XO (XO
    XH)))))))))))))))) :: [])) :: (((Zpos (XO (XO (XO (XO (XO (XI (XI (XO (XO
    (XI (XO (XI (XI (XI (XI XH)))))))))))))))), ((Zpos (XO (XO (XO (XO (XI
    (XO (XO (XO (XI (XO (XO (XI (XO (XO (XO
    XH)))))))))))))))) :: [])) :: (((Zpos (XI (XO (XO (XO (XO (XI (XI (XO (XO
    (XI (XO (XI (XI (XI (XI XH)))))))))))))))), ((Zpos (XO (XI (XI (XO (XI
    (XO (XO (XI (XI (XO (XO (XI (XO (XO (XO
    XH)))))))))))))))) :: [])) :: (((Zpos (XO (XI (XO (XO (XO (XI (XI (XO (XO
    (XI (XO (XI (XI (XI (XI XH)))))))))))))))), ((Zpos (XI (XO (XO (XO (XO
    (XO (XO (XO (XI (XI (XO (XI (XO (XO (XO
    XH)))))))))))))))) :: [])) :: (((Zpos (XI (XI (XO (XO (XO (XI (XI (XO (XO
    (XI (XO (XI (XI (XI (XI XH)))))))))))))))), ((Zpos (XI (XO (XO (XI (XI
    (XI (XO (XO (XI (XI (XO (XI (XO (XO (XO
    XH)))))))))))))))) :: [])) :: (((Zpos (XO (XO (XI (XO (XO (XI (XI (XO (XO
    (XI (XO (XI (XI (XI (XI XH)))))))))))))))), ((Zpos (XI (XI (XO (XO (XI
    (XO (XI (XI (XO (XO (XI (XI (XO (XO (XO
    XH)))))))))))))))) :: [])) :: (((Zpos (XI (XO (XI (XO (XO (XI (XI (XO (XO
    (XI (XO (XI (XI (XI (XI XH)))))))))))))))), ((Zpos (XO (XO (XO (XI (XO
    (XO (XO (XO (XI (XO (XI (XI (XO (XO (XO
    XH)))))))))))))))) :: [])) :: (((Zpos (XO (XI (XI (XO (XO (XI (XI (XO (XO
    (XI (XO (XI (XI (XI (XI XH)))))))))))))))), ((Zpos (XO (XI (XI (XO (XI
    (XI (XO (XI (XI (XI (XI (XI (XO (XO (XO
    XH)))))))))))))))) :: [])) :: (((Zpos (XI (XI (XI (XO (XO (XI (XI (XO (XO
    (XI (XO (XI (XI (XI (XI XH)))))))))))))))), ((Zpos (XO (XO (XO (XI (XI
    (XI (XO (XO (XO (XO (XO (XO (XI (XO (XO
    XH)))))))))))))))) :: [])) :: (((Zpos (XO (XO (XO (XI (XO (XI (XI (XO (XO
    (XI (XO (XI (XI (XI (XI XH)))))))))))))))), ((Zpos (XI (XI (XO (XO (XO
    (XI (XI (XI (XO (XI (XI (XO (XI (XO (XO
    XH)))))))))))))))) :: [])) :: (((Zpos (XI (XO (XO (XI (XO (XI (XI (XO (XO
    (XI (XO (XI (XI (XI (XI XH)))))))))))))))), ((Zpos (XI (XI (XI (XI (XI
    (XI (XI (XI (XI (XI (XI (XO (XI (XO (XO
    XH)))))))))))))))) :: [])) :: (((Zpos (XO (XI (XO (XI (XO (XI (XI (XO (XO
    (XI (XO (XI (XI (XI (XI XH)))))))))))))))), ((Zpos (XI (XI (XO (XI (XI
    (XI (XO (XO (XO (XO (XO (XI (XI (XO (XO
    XH)))))))))))))))) :: [])) :: (((Zpos (XI (XI (XO (XI (XO (XI (XI (XO (XO
    (XI (XO (XI (XI (XI (XI XH)))))))))))))))), ((Zpos (XI (XO (XI (XO (XI
    (XI (XI (XO (XO (XO (XO (XO (XO (XI XH))))))))))))))) :: [])) :: (((Zpos
    (XO (XO (XI (XI (XO (XI (XI (XO (XO (XI (XO (XI (XI (XI (XI
    XH)))))))))))))))), ((Zpos (XO (XI (XI (XI (XO (XI (XI (XI (XO (XI (XO
    (XO (XO (XO (XI (XO (XO XH)))))))))))))))))) :: [])) :: (((Zpos (XI (XO
    (XI (XI (XO (XI (XI (XO (XO (XI (XO (XI (XI (XI (XI XH)))))))))))))))),
    ((Zpos (XO (XO (XO (XI (XI (XO (XO (XO (XO (XI (XO (XO (XO (XO (XO
    XH)))))))))))))))) :: [])) :: (((Zpos (XO (XO (XO (XO (XI (XI (XI (XO (XO
    (XI (XO (XI (XI (XI (XI XH)))))))))))))))), ((Zpos (XO (XI (XI (XO (XO
    (XI (XO (XO (XO (XI (XI (XI (XO (XO XH))))))))))))))) :: [])) :: (((Zpos
    (XI (XO (XO (XO (XI (XI (XI (XO (XO (XI (XO (XI (XI (XI (XI
    XH)))))))))))))))), ((Zpos (XI (XO (XI (XO (XI (XI (XO (XI (XI (XO (XO
    (XO (XI (XO XH))))))))))))))) :: [])) :: (((Zpos (XO (XI (XO (XO (XI (XI
    (XI (XO (XO (XI (XO (XI (XI (XI (XI XH)))))))))))))))), ((Zpos (XO (XO
    (XO (XI (XO (XI (XI (XO (XI (XO (XO (XO (XI (XO
    XH))))))))))))))) :: [])) :: (((Zpos (XI (XI (XO (XO (XI (XI (XI (XO (XO
    (XI (XO (XI (XI (XI (XI XH)))))))))))))))), ((Zpos (XO (XO (XO (XO (XO
    (XO (XO (XI (XI (XI (XI (XI (XO (XO XH))))))))))))))) :: [])) :: (((Zpos
    (XO (XO (XI (XO (XI (XI (XI (XO (XO (XI (XO (XI (XI (XI (XI
    XH)))))))))))))))), ((Zpos (XI (XO (XI (XO (XO (XO (XI (XO (XI (XO (XO
    (XO (XI (XO XH))))))))))))))) :: [])) :: (((Zpos (XI (XO (XI (XO (XI (XI
    (XI (XO (XO (XI (XO (XI (XI (XI (XI XH)))))))))))))))), ((Zpos (XO (XO
    (XO (XO (XO (XO (XO (XI (XI (XO (XO (XO (XI (XO
    XH))))))))))))))) :: [])) :: (((Zpos (XO (XI (XI (XO (XI (XI (XI (XO (XO
    (XI (XO (XI (XI (XI (XI XH)))))))))))))))), ((Zpos (XI (XI (XI (XO (XO
    (XO (XI (XI (XO (XI (XO (XO (XI (XO XH))))))))))))))) :: [])) :: (((Zpos
    (XI (XI (XI (XO (XI (XI (XI (XO (XO (XI (XO (XI (XI (XI (XI
    XH)))))))))))))))), ((Zpos (XO (XI (XO (XI (XI (XI (XI (XI (XO (XI (XO
    (XO (XI (XO XH))))))))))))))) :: [])) :: (((Zpos (XO (XO (XO (XI (XI (XI
    (XI (XO (XO (XI (XO (XI (XI (XI (XI XH)))))))))))))))), ((Zpos (XI (XO
    (XI (XI (XI (XO (XO (XI (XI (XO (XI (XO (XI (XO
    XH))))))))))))))) :: [])) :: (((Zpos (XI (XO (XO (XI (XI (XI (XI (XO (XO
    (XI (XO (XI (XI (XI (XI XH)))))))))))))))), ((Zpos (XI (XO (XI (XO (XI
    (XO (XI (XO (XI (XO (XI (XO (XI (XO XH))))))))))))))) :: [])) :: (((Zpos
    (XO (XI (XO (XI (XI (XI (XI (XO (XO (XI (XO (XI (XI (XI (XI
    XH)))))))))))))))), ((Zpos (XI (XO (XO (XI (XI (XO (XO (XI (XI (XO (XI
    (XO (XI (XO XH))))))))))))))) :: [])) :: (((Zpos (XI (XI (XO (XI (XI (XI
    (XI (XO (XO (XI (XO (XI (XI (XI (XI XH)))))))))))))))), ((Zpos (XO (XI
    (XO (XO (XO (XI (XI (XI (XI (XO (XI (XO (XI (XO
    XH))))))))))))))) :: [])) :: (((Zpos (XO (XO (XI (XI (XI (XI (XI (XO (XO
    (XI (XO (XI (XI (XI (XI XH)))))))))))))))), ((Zpos (XO (XI (XO (XI (XI
    (XO (XI (XO (XO (XO (XO (XI (XI (XO XH))))))))))))))) :: [])) :: (((Zpos
    (XI (XO (XI (XI (XI (XI (XI (XO (XO (XI (XO (XI (XI (XI (XI
    XH)))))))))))))))), ((Zpos (XI (XI (XO (XO (XI (XI (XO (XI (XO (XO (XO
    (XI (XI (XO XH))))))))))))))) :: [])) :: (((Zpos (XO (XI (XI (XI (XI (XI
    (XI (XO (XO (XI (XO (XI (XI (XI (XI XH)))))))))))))))), ((Zpos (XO (XO
    (XI (XO (XO (XO (XI (XO (XI (XO (XO (XI (XI (XO
    XH))))))))))))))) :: [])) :: (((Zpos (XI (XI (XI (XI (XI (XI (XI (XO (XO
    (XI (XO (XI (XI (XI (XI XH)))))))))))))))), ((Zpos (XO (XO (XI (XO (XI
    (XO (XI (XO (XI (XO (XO (XI (XI (XO XH))))))))))))))) :: [])) :: (((Zpos
    (XO (XO (XO (XO (XO (XO (XO (XI (XO (XI (XO (XI (XI (XI (XI
    XH)))))))))))))))), ((Zpos (XO (XI (XO (XO (XO (XI (XI (XO (XO (XI (XO
    (XI (XI (XO XH))))))))))))))) :: [])) :: (((Zpos (XI (XO (XO (XO (XO (XO
    (XO (XI (XO (XI (XO (XI (XI (XI (XI XH)))))))))))))))), ((Zpos (XO (XO
    (XO (XI (XO (XI (XO (XO (XI (XI (XO (XI (XI (XO
    XH))))))))))))))) :: [])) :: (((Zpos (XO (XI (XO (XO (XO (XO (XO (XI (XO
    (XI (XO (XI (XI (XI (XI XH)))))))))))))))), ((Zpos (XO (XI (XO (XO (XI
    (XO (XI (XI (XO (XI (XI (XI (XI (XO XH))))))))))))))) :: [])) :: (((Zpos
    (XI (XI (XO (XO (XO (XO (XO (XI (XO (XI (XO (XI (XI (XI (XI
    XH)))))))))))))))), ((Zpos (XI (XO (XO (XI (XI (XO (XI (XI (XO (XI (XI
    (XI (XI (XO XH))))))))))))))) :: [])) :: (((Zpos (XO (XO (XI (XO (XO (XO
    (XO (XI (XO (XI (XO (XI (XI (XI (XI XH)))))))))))))))), ((Zpos (XI (XO
    (XO (XI (XO (XI (XI (XO (XI (XI (XI (XI (XI (XO
    XH))))))))))))))) :: [])) :: (((Zpos (XI (XO (XI (XO (XO (XO (XO (XI (XO
    (XI (XO (XI (XI (XI (XI XH)))))))))))))))), ((Zpos (XI (XO (XI (XI (XO
    (XI (XO (XI (XI (XI (XI (XI (XI (XO XH))))))))))))))) :: [])) :: (((Zpos
    (XO (XI (XI (XO (XO (XO (XO (XI (XO (XI (XO (XI (XI (XI (XI
    XH)))))))))))))))), ((Zpos (XO (XO (XO (XI (XI (XO (XI (XI (XO (XO (XO
    (XO (XO (XI XH))))))))))))))) :: [])) :: (((Zpos (XI (XI (XI (XO (XO (XO
    (XO (XI (XO (XI (XO (XI (XI (XI (XI XH)))))))))))))))), ((Zpos (XO (XI
    (XI (XI (XO (XO (XI (XO (XI (XO (XO (XO (XO (XI
    XH))))))))))))))) :: [])) :: (((Zpos (XO (XO (XO (XI (XO (XO (XO (XI (XO
    (XI (XO (XI (XI (XI (XI XH)))))))))))))))), ((Zpos (XO (XO (XO (XI (XO
    (XO (XO (XO (XI (XO (XO (XO (XO (XI XH))))))))))))))) :: [])) :: (((Zpos
    (XI (XO (XO (XI (XO (XO (XO (XI (XO (XI (XO (XI (XI (XI (XI
    XH)))))))))))))))), ((Zpos (XO (XI (XI (XI (XO (XO (XO (XI (XI (XO (XO
    (XO (XO (XI XH))))))))))))))) :: [])) :: (((Zpos (XO (XI (XO (XI (XO (XO
    (XO (XI (XO (XI (XO (XI (XI (XI (XI XH)))))))))))))))), ((Zpos (XO (XO
    (XO (XO (XO (XI (XI (XO (XI (XO (XO (XO (XO (XI
    XH))))))))))))))) :: [])) :: (((Zpos (XI (XI (XO (XI (XO (XO (XO (XI (XO
    (XI (XO (XI (XI (XI (XI XH)))))))))))))))), ((Zpos (XO (XI (XO (XO (XI
    (XI (XI (XI (XI (XO (XO (XO (XO (XI XH))))))))))))))) :: [])) :: (((Zpos
    (XO (XO (XI (XI (XO (XO (XO (XI (XO (XI (XO (XI (XI (XI (XI
    XH)))))))))))))))), ((Zpos (XO (XO (XI (XO (XI (XI (XO (XO (XO (XI (XO
    (XO (XO (XI XH))))))))))))))) :: [])) :: (((Zpos (XI (XO (XI (XI (XO (XO
    (XO (XI (XO (XI (XO (XI (XI (XI (XI XH)))))))))))))))), ((Zpos (XO (XO
    (XI (XO (XO (XO (XI (XI (XI (XI (XO (XO (XO (XI
    XH))))))))))))))) :: [])) :: (((Zpos (XO (XI (XI (XI (XO (XO (XO (XI (XO
    (XI (XO (XI (XI (XI (XI XH)))))))))))))))), ((Zpos (XO (XO (XI (XI (XI
    (XO (XO (XO (XO (XO (XI (XO (XO (XI XH))))))))))))))) :: [])) :: (((Zpos
    (XI (XI (XI (XI (XO (XO (XO (XI (XO (XI (XO (XI (XI (XI (XI
    XH)))))))))))))))), ((Zpos (XO (XI (XO (XO (XI (XO (XI (XO (XO (XO (XI
    (XO (XO (XI XH))))))))))))))) :: [])) :: (((Zpos (XO (XO (XO (XO (XI (XO
    (XO (XI (XO (XI (XO (XI (XI (XI (XI XH)))))))))))))))), ((Zpos (XO (XI
    (XI (XO (XI (XO (XI (XO (XI (XO (XI (XO (XO (XI
    XH))))))))))))))) :: [])) :: (((Zpos (XI (XO (XO (XO (XI (XO (XO (XI (XO
    (XI (XO (XI (XI (XI (XI XH)))))))))))))))), ((Zpos (XO (XO (XI (XO (XI
    (XI (XI (XO (XO (XI (XI (XO (XO (XI XH))))))))))))))) :: [])) :: (((Zpos
    (XO (XI (XO (XO (XI (XO (XO (XI (XO (XI (XO (XI (XI (XI (XI
    XH)))))))))))))))), ((Zpos (XI (XI (XI (XO (XI (XO (XO (XO (XI (XI (XI
    (XO (XO (XI XH))))))))))))))) :: [])) :: (((Zpos (XI (XI (XO (XO (XI (XO
    (XO (XI (XO (XI (XO (XI (XI (XI (XI XH)))))))))))))))), ((Zpos (XI (XI
    (XO (XI (XI (XO (XO (XO (XI (XI (XI (XO (XO (XI
    XH))))))))))))))) :: [])) :: (((Zpos (XO (XO (XI (XO (XI (XO (XO (XI (XO
    (XI (XO (XI (XI (XI (XI XH)))))))))))))))), ((Zpos (XO (XI (XI (XO (XI
    (XO (XI (XO (XI (XI (XI (XO (XO (XI XH))))))))))))))) :: [])) :: (((Zpos
    (XI (XO (XI (XO (XI (XO (XO (XI (XO (XI (XO (XI (XI (XI (XI
    XH)))))))))))))))), ((Zpos (XI (XO (XO (XI (XI (XI (XI (XO (XI (XI (XO
    (XI (XO (XI XH))))))))))))))) :: [])) :: (((Zpos (XO (XI (XI (XO (XI (XO
    (XO (XI (XO (XI (XO (XI (XI (XI (XI XH)))))))))))))))), ((Zpos (XO (XI
    (XO (XI (XI (XI (XO (XI (XI (XI (XO (XI (XO (XI
    XH))))))))))))))) :: [])) :: (((Zpos (XI (XI (XI (XO (XI (XO (XO (XI (XO
    (XI (XO (XI (XI (XI (XI XH)))))))))))))))), ((Zpos (XI (XO (XO (XO (XO
    (XO (XI (XO (XI (XO (XI (XI (XO (XI XH))))))))))))))) :: [])) :: (((Zpos
    (XO (XO (XO (XI (XI (XO (XO (XI (XO (XI (XO (XI (XI (XI (XI
    XH)))))))))))))))), ((Zpos (XI (XI (XO (XI (XI (XO (XI (XI (XO (XI (XI
    (XI (XO (XI XH))))))))))))))) :: [])) :: (((Zpos (XI (XO (XO (XI (XI (XO
    (XO (XI (XO (XI (XO (XI (XI (XI (XI XH)))))))))))))))), ((Zpos (XI (XI
    (XO (XI (XO (XO (XI (XI (XO (XI (XI (XI (XO (XI
    XH))))))))))))))) :: [])) :: (((Zpos (XO (XI (XO (XI (XI (XO (XO (XI (XO
    (XI (XO (XI (XI (XI (XI XH)))))))))))))))), ((Zpos (XO (XI (XO (XO (XO
    (XI (XO (XO (XI (XI (XI (XI (XO (XI XH))))))))))))))) :: [])) :: (((Zpos
    (XI (XI (XO (XI (XI (XO (XO (XI (XO (XI (XO (XI (XI (XI (XI
    XH)))))))))))))))), ((Zpos (XO (XI (XI (XI (XI (XO (XO (XO (XO (XO (XO
    (XO (XI (XI XH))))))))))))))) :: [])) :: (((Zpos (XO (XO (XI (XI (XI (XO
    (XO (XI (XO (XI (XO (XI (XI (XI (XI XH)))))))))))))))), ((Zpos (XO (XI
    (XI (XI (XO (XI (XI (XO (XI (XO (XO (XO (XI (XI
    XH))))))))))))))) :: [])) :: (((Zpos (XI (XO (XI (XI (XI (XO (XO (XI (XO
    (XI (XO (XI (XI (XI (XI XH)))))))))))))))), ((Zpos (XI (XI (XI (XO (XO
    (XI (XO (XI (XI (XI (XI (XO (XI (XI XH))))))))))))))) :: [])) :: (((Zpos
    (XO (XI (XI (XI (XI (XO (XO (XI (XO (XI (XO (XI (XI (XI (XI
    XH)))))))))))))))), ((Zpos (XI (XO (XI (XO (XI (XI (XO (XO (XO (XI (XO
    (XO (XI (XI XH))))))))))))))) :: [])) :: (((Zpos (XI (XI (XI (XI (XI (XO
    (XO (XI (XO (XI (XO (XI (XI (XI (XI XH)))))))))))))))), ((Zpos (XI (XI
    (XI (XI (XO (XI (XO (XI (XO (XI (XO (XO (XI (XI
    XH))))))))))))))) :: [])) :: (((Zpos (XO (XO (XO (XO (XO (XI (XO (XI (XO
    (XI (XO (XI (XI (XI (XI XH)))))))))))))))), ((Zpos (XO (XI (XO (XI (XO
    (XI (XO (XO (XI (XI (XO (XO (XI (XI XH))))))))))))))) :: [])) :: (((Zpos
    (XI (XO (XO (XO (XO (XI (XO (XI (XO (XI (XO (XI (XI (XI (XI
    XH)))))))))))))))), ((Zpos (XI (XO (XO (XO (XI (XI (XI (XO (XO (XO (XI
    (XO (XI (XI XH))))))))))))))) :: [])) :: (((Zpos (XO (XI (XO (XO (XO (XI
    (XO (XI (XO (XI (XO (XI (XI (XI (XI XH)))))))))))))))), ((Zpos (XO (XI
    (XI (XO (XO (XO (XO (XO (XI (XO (XI (XO (XI (XI
    XH))))))))))))))) :: [])) :: (((Zpos (XI (XI (XO (XO (XO (XI (XO (XI (XO
    (XI (XO (XI (XI (XI (XI XH)))))))))))))))), ((Zpos (XI (XI (XO (XI (XI
    (XI (XO (XO (XI (XO (XI (XO (XI (XI XH))))))))))))))) :: [])) :: (((Zpos
    (XO (XO (XI (XO (XO (XI (XO (XI (XO (XI (XO (XI (XI (XI (XI
    XH)))))))))))))))), ((Zpos (XI (XO (XI (XI (XI (XO (XO (XO (XO (XI (XI
    (XO (XI (XI XH))))))))))))))) :: [])) :: (((Zpos (XI (XO (XI (XO (XO (XI
    (XO (XI (XO (XI (XO (XI (XI (XI (XI XH)))))))))))))))), ((Zpos (XI (XI
    (XI (XI (XI (XO (XO (XO (XO (XI (XI (XO (XI (XI
    XH))))))))))))))) :: [])) :: (((Zpos (XO (XI (XI (XO (XO (XI (XO (XI (XO
    (XI (XO (XI (XI (XI (XI XH)))))))))))))))), ((Zpos (XO (XI (XO (XI (XO
    (XO (XI (XI (XO (XI (XI (XO (XI (XI XH))))))))))))))) :: [])) :: (((Zpos
    (XI (XI (XI (XO (XO (XI (XO (XI (XO (XI (XO (XI (XI (XI (XI
    XH)))))))))))))))), ((Zpos (XI (XI (XO (XI (XI (XO (XI (XI (XO (XI (XI
    (XO (XI (XI XH))))))))))))))) :: [])) :: (((Zpos (XO (XO (XO (XI (XO (XI
    (XO (XI (XO (XI (XO (XI (XI (XI (XI XH)))))))))))))))), ((Zpos (XO (XO
    (XI (XO (XI (XI (XI (XI (XO (XI (XI (XO (XI (XI
    XH))))))))))))))) :: [])) :: (((Zpos (XI (XO (XO (XI (XO (XI (XO (XI (XO
    (XI (XO (XI (XI (XI (XI XH)))))))))))))))), ((Zpos (XO (XI (XO (XI (XO
    (XO (XI (XO (XI (XI (XI (XO (XI (XI XH))))))))))))))) :: [])) :: (((Zpos
    (XO (XI (XO (XI (XO (XI (XO (XI (XO (XI (XO (XI (XI (XI (XI
    XH)))))))))))))))), ((Zpos (XO (XO (XO (XO (XO (XO (XI (XO (XI (XI (XI
    (XO (XI (XI XH))))))))))))))) :: [])) :: (((Zpos (XI (XI (XO (XI (XO (XI
    (XO (XI (XO (XI (XO (XI (XI (XI (XI XH)))))))))))))))), ((Zpos (XO (XO
    (XI (XI (XO (XO (XI (XI (XO (XO (XO (XI (XI (XI
    XH))))))))))))))) :: [])) :: (((Zpos (XO (XO (XI (XI (XO (XI (XO (XI (XO
    (XI (XO (XI (XI (XI (XI XH)))))))))))))))), ((Zpos (XI (XO (XO (XO (XI
    (XI (XO (XI (XO (XI (XO (XI (XI (XI XH))))))))))))))) :: [])) :: (((Zpos
    (XI (XO (XI (XI (XO (XI (XO (XI (XO (XI (XO (XI (XI (XI (XI
    XH)))))))))))))))), ((Zpos (XO (XO (XO (XO (XO (XO (XI (XI (XI (XI (XO
    (XI (XI (XI XH))))))))))))))) :: [])) :: (((Zpos (XO (XI (XI (XI (XO (XI
    (XO (XI (XO (XI (XO (XI (XI (XI (XI XH)))))))))))))))), ((Zpos (XI (XI
    (XO (XI (XI (XI (XI (XO (XO (XO (XI (XI (XI (XI
    XH))))))))))))))) :: [])) :: (((Zpos (XI (XI (XI (XI (XO (XI (XO (XI (XO
    (XI (XO (XI (XI (XI (XI XH)))))))))))))))), ((Zpos (XI (XI (XO (XI (XI
    (XO (XI (XO (XI (XO (XI (XI (XI (XI XH))))))))))))))) :: [])) :: (((Zpos
    (XO (XO (XO (XO (XI (XI (XO (XI (XO (XI (XO (XI (XI (XI (XI
    XH)))))))))))))))), ((Zpos (XO (XO (XI (XO (XI (XI (XI (XI (XI (XO (XI
    (XI (XI (XI XH))))))))))))))) :: [])) :: (((Zpos (XI (XO (XO (XO (XI (XI
    (XO (XI (XO (XI (XO (XI (XI (XI (XI XH)))))))))))))))), ((Zpos (XO (XI
    (XI (XI (XI (XI (XO (XO (XI (XI (XI (XI (XI (XI
    XH))))))))))))))) :: [])) :: (((Zpos (XO (XI (XO (XO (XI (XI (XO (XI (XO
    (XI (XO (XI (XI (XI (XI XH)))))))))))))))), ((Zpos (XI (XO (XI (XO (XO
    (XO (XO (XO (XO (XO (XO (XO (XO (XO (XO
    XH)))))))))))))))) :: [])) :: (((Zpos (XI (XI (XO (XO (XI (XI (XO (XI (XO
    (XI (XO (XI (XI (XI (XI XH)))))))))))))))), ((Zpos (XO (XI (XO (XO (XI
    (XO (XI (XO (XI (XI (XO (XO (XO (XO (XO
    XH)))))))))))))))) :: [])) :: (((Zpos (XO (XO (XI (XO (XI (XI (XO (XI (XO
    (XI (XO (XI (XI (XI (XI XH)))))))))))))))), ((Zpos (XI (XI (XI (XI (XO
    (XI (XI (XI (XI (XI (XO (XO (XO (XO (XO
    XH)))))))))))))))) :: [])) :: (((Zpos (XI (XO (XI (XO (XI (XI (XO (XI (XO
    (XI (XO (XI (XI (XI (XI XH)))))))))))))))), ((Zpos (XI (XO (XO (XI (XI
    (XI (XI (XO (XI (XI (XI (XO (XO (XO (XO
    XH)))))))))))))))) :: [])) :: (((Zpos (XO (XI (XI (XO (XI (XI (XO (XI (XO
    (XI (XO (XI (XI (XI (XI XH)))))))))))))))), ((Zpos (XI (XO (XO (XO (XO
    (XO (XI (XO (XI (XO (XO (XI (XO (XO (XO
    XH)))))))))))))))) :: [])) :: (((Zpos (XI (XI (XI (XO (XI (XI (XO (XI (XO
    (XI (XO (XI (XI (XI (XI XH)))))))))))))))), ((Zpos (XO (XI (XI (XO (XO
    (XO (XO (XI (XI (XO (XO (XI (XO (XO (XO
    XH)))))))))))))))) :: [])) :: (((Zpos (XO (XO (XO (XI (XI (XI (XO (XI (XO
    (XI (XO (XI (XI (XI (XI XH)))))))))))))))), ((Zpos (XO (XI (XI (XO (XI
    (XO (XO (XI (XI (XO (XO (XI (XO (XO (XO
    XH)))))))))))))))) :: [])) :: (((Zpos (XI (XO (XO (XI (XI (XI (XO (XI (XO
    (XI (XO (XI (XI (XI (XI XH)))))))))))))))), ((Zpos (XI (XI (XI (XI (XI
    (XI (XO (XI (XO (XI (XO (XI (XO (XO (XO
    XH)))))))))))))))) :: [])) :: (((Zpos (XO (XI (XO (XI (XI (XI (XO (XI (XO
    (XI (XO (XI (XI (XI (XI XH)))))))))))))))), ((Zpos (XO (XO (XO (XI (XI
    (XI (XI (XI (XO (XI (XO (XI (XO (XO (XO
    XH)))))))))))))))) :: [])) :: (((Zpos (XI (XI (XO (XI (XI (XI (XO (XI (XO
    (XI (XO (XI (XI (XI (XI XH)))))))))))))))), ((Zpos (XI (XI (XO (XI (XO
    (XO (XI (XI (XO (XI (XO (XI (XO (XO (XO
    XH)))))))))))))))) :: [])) :: (((Zpos (XO (XO (XI (XI (XI (XI (XO (XI (XO
    (XI (XO (XI (XI (XI (XI XH)))))))))))))))), ((Zpos (XI (XO (XO (XO (XO
    (XO (XO (XO (XI (XI (XO (XI (XO (XO (XO
    XH)))))))))))))))) :: [])) :: (((Zpos (XI (XO (XI (XI (XI (XI (XO (XI (XO
    (XI (XO (XI (XI (XI (XI XH)))))))))))))))), ((Zpos (XO (XI (XI (XI (XI
    (XI (XI (XI (XO (XI (XO (XI (XO (XO (XO
    XH)))))))))))))))) :: [])) :: (((Zpos (XO (XI (XI (XI (XI (XI (XO (XI (XO
    (XI (XO (XI (XI (XI (XI XH)))))))))))))))), ((Zpos (XI (XO (XI (XI (XO
    (XI (XI (XI (XO (XI (XO (XI (XO (XO (XO
    XH)))))))))))))))) :: [])) :: (((Zpos (XI (XI (XI (XI (XI (XI (XO (XI (XO
    (XI (XO (XI (XI (XI (XI XH)))))))))))))))), ((Zpos (XI (XO (XO (XI (XI
    (XI (XO (XO (XI (XI (XO (XI (XO (XO (XO
    XH)))))))))))))))) :: [])) :: (((Zpos (XO (XO (XO (XO (XO (XO (XI (XI (XO
    (XI (XO (XI (XI (XI (XI XH)))))))))))))))), ((Zpos (XO (XI (XO (XI (XO
    (XO (XO (XI (XI (XI (XO (XI (XO (XO (XO
    XH)))))))))))))))) :: [])) :: (((Zpos (XI (XO (XO (XO (XO (XO (XI (XI (XO
    (XI (XO (XI (XI (XI (XI XH)))))))))))))))), ((Zpos (XO (XO (XO (XI (XO
    (XO (XO (XO (XI (XO (XI (XI (XO (XO (XO
    XH)))))))))))))))) :: [])) :: (((Zpos (XO (XI (XO (XO (XO (XO (XI (XI (XO
    (XI (XO (XI (XI (XI (XI XH)))))))))))))))), ((Zpos (XO (XO (XO (XI (XI
    (XI (XO (XO (XI (XI (XI (XI (XO (XO (XO
    XH)))))))))))))))) :: [])) :: (((Zpos (XI (XI (XO (XO (XO (XO (XI (XI (XO
    (XI (XO (XI (XI (XI (XI XH)))))))))))))))), ((Zpos (XO (XI (XO (XO (XI
    (XI (XI (XO (XO (XO (XO (XO (XI (XO (XO
    XH)))))))))))))))) :: [])) :: (((Zpos (XO (XO (XI (XO (XO (XO (XI (XI (XO
    (XI (XO (XI (XI (XI (XI XH)))))))))))))))), ((Zpos (XI (XO (XO (XI (XI
    (XO (XO (XI (XI (XO (XO (XO (XI (XO (XO
    XH)))))))))))))))) :: [])) :: (((Zpos (XI (XO (XI (XO (XO (XO (XI (XI (XO
    (XI (XO (XI (XI (XI (XI XH)))))))))))))))), ((Zpos (XO (XI (XI (XO (XI
    (XI (XI (XO (XO (XI (XO (XO (XI (XO (XO
    XH)))))))))))))))) :: [])) :: (((Zpos (XO (XI (XI (XO (XO (XO (XI (XI (XO
    (XI (XO (XI (XI (XI (XI XH)))))))))))))))), ((Zpos (XO (XO (XI (XI (XI
    (XI (XI (XO (XO (XI (XI (XO (XI (XO (XO
    XH)))))))))))))))) :: [])) :: (((Zpos (XI (XI (XI (XO (XO (XO (XI (XI (XO
    (XI (XO (XI (XI (XI (XI XH)))))))))))))))), ((Zpos (XI (XI (XO (XO (XO
    (XI (XI (XI (XO (XI (XI (XO (XI (XO (XO
    XH)))))))))))))))) :: [])) :: (((Zpos (XO (XO (XO (XI (XO (XO (XI (XI (XO
    (XI (XO (XI (XI (XI (XI XH)))))))))))))))), ((Zpos (XO (XI (XI (XO (XI
    (XO (XI (XO (XI (XI (XI (XO (XI (XO (XO
    XH)))))))))))))))) :: [])) :: (((Zpos (XI (XO (XO (XI (XO (XO (XI (XI (XO
    (XI (XO (XI (XI (XI (XI XH)))))))))))))))), ((Zpos (XI (XI (XO (XI (XI
    (XO (XI (XI (XI (XI (XI (XO (XI (XO (XO
    XH)))))))))))))))) :: [])) :: (((Zpos (XO (XI (XO (XI (XO (XO (XI (XI (XO
    (XI (XO (XI (XI (XI (XI XH)))))))))))))))), ((Zpos (XI (XI (XI (XI (XI
    (XI (XI (XI (XI (XI (XI (XO (XI (XO (XO
    XH)))))))))))))))) :: [])) :: (((Zpos (XI (XI (XO (XI (XO (XO (XI (XI (XO
    (XI (XO (XI (XI (XI (XI XH)))))))))))))))), ((Zpos (XI (XI (XO (XI (XO
    (XO (XO (XO (XO (XO (XO (XI (XI (XO (XO
    XH)))))))))))))))) :: [])) :: (((Zpos (XO (XO (XI (XI (XO (XO (XI (XI (XO
    (XI (XO (XI (XI (XI (XI XH)))))))))))))))), ((Zpos (XI (XI (XO (XI (XI
    (XI (XO (XO (XO (XO (XO (XI (XI (XO (XO
    XH)))))))))))))))) :: [])) :: (((Zpos (XI (XO (XI (XI (XO (XO (XI (XI (XO
    (XI (XO (XI (XI (XI (XI XH)))))))))))))))), ((Zpos (XO (XI (XO (XO (XI
    (XO (XO (XO (XI (XI (XO (XI (XI (XO (XO
    XH)))))))))))))))) :: [])) :: (((Zpos (XO (XI (XI (XI (XO (XO (XI (XI (XO
    (XI (XO (XI (XI (XI (XI XH)))))))))))))))), ((Zpos (XO (XO (XI (XI (XI
    (XO (XO (XI (XI (XI (XI (XI (XI (XO (XO
    XH)))))))))))))))) :: [])) :: (((Zpos (XI (XI (XI (XI (XO (XO (XI (XI (XO
    (XI (XO (XI (XI (XI (XI XH)))))))))))))))), ((Zpos (XO (XI (XO (XI (XO
    (XO (XI (XO (XO (XO (XO (XI (XO (XI (XO (XO (XO
    XH)))))))))))))))))) :: [])) :: (((Zpos (XO (XO (XO (XO (XI (XO (XI (XI
    (XO (XI (XO (XI (XI (XI (XI XH)))))))))))))))), ((Zpos (XO (XO (XI (XO
    (XO (XO (XI (XO (XO (XO (XO (XI (XO (XI (XO (XO (XO
    XH)))))))))))))))))) :: [])) :: (((Zpos (XI (XO (XO (XO (XI (XO (XI (XI
    (XO (XI (XO (XI (XI (XI (XI XH)))))))))))))))), ((Zpos (XI (XO (XI (XO
    (XI (XO (XI (XI (XI (XI (XO (XO (XI (XI (XO (XO (XO
    XH)))))))))))))))))) :: [])) :: (((Zpos (XO (XI (XO (XO (XI (XO (XI (XI
    (XO (XI (XO (XI (XI (XI (XI XH)))))))))))))))), ((Zpos (XI (XO (XI (XI
    (XI (XO (XO (XI (XI (XI (XO (XI (XI XH)))))))))))))) :: [])) :: (((Zpos
    (XI (XI (XO (XO (XI (XO (XI (XI (XO (XI (XO (XI (XI (XI (XI
    XH)))))))))))))))), ((Zpos (XO (XO (XO (XI (XI (XO (XO (XO (XO (XO (XO
    (XO (XO (XO XH))))))))))))))) :: [])) :: (((Zpos (XO (XO (XI (XO (XI (XO
    (XI (XI (XO (XI (XO (XI (XI (XI (XI XH)))))))))))))))), ((Zpos (XI (XO
    (XO (XI (XI (XI (XO (XO (XO (XO (XO (XO (XO (XO
    XH))))))))))))))) :: [])) :: (((Zpos (XI (XO (XI (XO (XI (XO (XI (XI (XO
    (XI (XO (XI (XI (XI (XI XH)))))))))))))))), ((Zpos (XI (XO (XO (XI (XO
    (XO (XI (XO (XO (XI (XO (XO (XI (XO (XI (XO (XO
    XH)))))))))))))))))) :: [])) :: (((Zpos (XO (XI (XI (XO (XI (XO (XI (XI
    (XO (XI (XO (XI (XI (XI (XI XH)))))))))))))))), ((Zpos (XO (XO (XO (XO
    (XI (XO (XI (XI (XO (XO (XI (XI (XI (XO (XI (XO (XO
    XH)))))))))))))))))) :: [])) :: (((Zpos (XI (XI (XI (XO (XI (XO (XI (XI
    (XO (XI (XO (XI (XI (XI (XI XH)))))))))))))))), ((Zpos (XI (XI (XO (XO
    (XI (XO (XI (XI (XO (XI (XI (XI (XI (XI (XI (XO (XO
    XH)))))))))))))))))) :: [])) :: (((Zpos (XO (XO (XO (XI (XI (XO (XI (XI
    (XO (XI (XO (XI (XI (XI (XI XH)))))))))))))))), ((Zpos (XI (XI (XO (XO
    (XO (XO (XI (XO (XI (XI (XI (XI (XI (XO (XO
    XH)))))))))))))))) :: [])) :: (((Zpos (XI (XO (XO (XI (XI (XO (XI (XI (XO
    (XI (XO (XI (XI (XI (XI XH)))))))))))))))), ((Zpos (XO (XI (XI (XI (XO
    (XO (XO (XI (XI (XI (XI (XI (XI (XO (XO
    XH)))))))))))))))) :: [])) :: (((Zpos (XI (XO (XI (XI (XI (XO (XO (XO (XI
    (XI (XO (XI (XI (XI (XI XH)))))))))))))))), ((Zpos (XI (XO (XO (XI (XI
    (XO (XI (XI (XI (XO XH))))))))))) :: ((Zpos (XO (XO (XI (XO (XI (XI (XO
    (XI (XI (XO XH))))))))))) :: []))) :: (((Zpos (XI (XI (XI (XI (XI (XO (XO
    (XO (XI (XI (XO (XI (XI (XI (XI XH)))))))))))))))), ((Zpos (XO (XI (XO
    (XO (XI (XI (XI (XI (XI (XO XH))))))))))) :: ((Zpos (XI (XI (XI (XO (XI
    (XI (XO (XI (XI (XO XH))))))))))) :: []))) :: (((Zpos (XO (XI (XO (XI (XO
    (XI (XO (XO (XI (XI (XO (XI (XI (XI (XI XH)))))))))))))))), ((Zpos (XI
    (XO (XO (XI (XO (XI (XI (XI (XI (XO XH))))))))))) :: ((Zpos (XI (XO (XO
    (XO (XO (XO (XI (XI (XI (XO XH))))))))))) :: []))) :: (((Zpos (XI (XI (XO
    (XI (XO (XI (XO (XO (XI (XI (XO (XI (XI (XI (XI XH)))))))))))))))),
    ((Zpos (XI (XO (XO (XI (XO (XI (XI (XI (XI (XO XH))))))))))) :: ((Zpos
    (XO (XI (XO (XO (XO (XO (XI (XI (XI (XO XH))))))))))) :: []))) :: (((Zpos
    (XO (XO (XI (XI (XO (XI (XO (XO (XI (XI (XO (XI (XI (XI (XI
    XH)))))))))))))))), ((Zpos (XI (XO (XO (XI (XO (XI (XI (XI (XI (XO
    XH))))))))))) :: ((Zpos (XO (XO (XI (XI (XI (XI (XO (XI (XI (XO
    XH))))))))))) :: ((Zpos (XI (XO (XO (XO (XO (XO (XI (XI (XI (XO
    XH))))))))))) :: [])))) :: (((Zpos (XI (XO (XI (XI (XO (XI (XO (XO (XI
    (XI (XO (XI (XI (XI (XI XH)))))))))))))))), ((Zpos (XI (XO (XO (XI (XO
    (XI (XI (XI (XI (XO XH))))))))))) :: ((Zpos (XO (XO (XI (XI (XI (XI (XO
    (XI (XI (XO XH))))))))))) :: ((Zpos (XO (XI (XO (XO (XO (XO (XI (XI (XI
    (XO XH))))))))))) :: [])))) :: (((Zpos (XO (XI (XI (XI (XO (XI (XO (XO
    (XI (XI (XO (XI (XI (XI (XI XH)))))))))))))))), ((Zpos (XO (XO (XO (XO
    (XI (XO (XI (XI (XI (XO XH))))))))))) :: ((Zpos (XI (XI (XI (XO (XI (XI
    (XO (XI (XI (XO XH))))))))))) :: []))) :: (((Zpos (XI (XI (XI (XI (XO (XI
    (XO (XO (XI (XI (XO (XI (XI (XI (XI XH)))))))))))))))), ((Zpos (XO (XO
    (XO (XO (XI (XO (XI (XI (XI (XO XH))))))))))) :: ((Zpos (XO (XO (XO (XI
    (XI (XI (XO (XI (XI (XO XH))))))))))) :: []))) :: (((Zpos (XO (XO (XO (XO
    (XI (XI (XO (XO (XI (XI (XO (XI (XI (XI (XI XH)))))))))))))))), ((Zpos
    (XO (XO (XO (XO (XI (XO (XI (XI (XI (XO XH))))))))))) :: ((Zpos (XO (XO
    (XI (XI (XI (XI (XO (XI (XI (XO XH))))))))))) :: []))) :: (((Zpos (XI (XO
    (XO (XO (XI (XI (XO (XO (XI (XI (XO (XI (XI (XI (XI XH)))))))))))))))),
    ((Zpos (XI (XO (XO (XO (XI (XO (XI (XI (XI (XO XH))))))))))) :: ((Zpos
    (XO (XO (XI (XI (XI (XI (XO (XI (XI (XO XH))))))))))) :: []))) :: (((Zpos
    (XO (XI (XO (XO (XI (XI (XO (XO (XI (XI (XO (XI (XI (XI (XI
    XH)))))))))))))))), ((Zpos (XO (XI (XO (XO (XI (XO (XI (XI (XI (XO
    XH))))))))))) :: ((Zpos (XO (XO (XI (XI (XI (XI (XO (XI (XI (XO
    XH))))))))))) :: []))) :: (((Zpos (XI (XI (XO (XO (XI (XI (XO (XO (XI (XI
    (XO (XI (XI (XI (XI XH)))))))))))))))), ((Zpos (XI (XI (XO (XO (XI (XO
    (XI (XI (XI (XO XH))))))))))) :: ((Zpos (XO (XO (XI (XI (XI (XI (XO (XI
    (XI (XO XH))))))))))) :: []))) :: (((Zpos (XO (XO (XI (XO (XI (XI (XO (XO
    (XI (XI (XO (XI (XI (XI (XI XH)))))))))))))))), ((Zpos (XO (XO (XI (XO
    (XI (XO (XI (XI (XI (XO XH))))))))))) :: ((Zpos (XO (XO (XI (XI (XI (XI
    (XO (XI (XI (XO XH))))))))))) :: []))) :: (((Zpos (XI (XO (XI (XO (XI (XI
    (XO (XO (XI (XI (XO (XI (XI (XI (XI XH)))))))))))))))), ((Zpos (XI (XO
    (XI (XO (XI (XO (XI (XI (XI (XO XH))))))))))) :: ((Zpos (XO (XO (XI (XI
    (XI (XI (XO (XI (XI (XO XH))))))))))) :: []))) :: (((Zpos (XO (XI (XI (XO
    (XI (XI (XO (XO (XI (XI (XO (XI (XI (XI (XI XH)))))))))))))))), ((Zpos
    (XO (XI (XI (XO (XI (XO (XI (XI (XI (XO XH))))))))))) :: ((Zpos (XO (XO
    (XI (XI (XI (XI (XO (XI (XI (XO XH))))))))))) :: []))) :: (((Zpos (XO (XO
    (XO (XI (XI (XI (XO (XO (XI (XI (XO (XI (XI (XI (XI XH)))))))))))))))),
    ((Zpos (XO (XO (XO (XI (XI (XO (XI (XI (XI (XO XH))))))))))) :: ((Zpos
    (XO (XO (XI (XI (XI (XI (XO (XI (XI (XO XH))))))))))) :: []))) :: (((Zpos
    (XI (XO (XO (XI (XI (XI (XO (XO (XI (XI (XO (XI (XI (XI (XI
    XH)))))))))))))))), ((Zpos (XI (XO (XO (XI (XI (XO (XI (XI (XI (XO
    XH))))))))))) :: ((Zpos (XO (XO (XI (XI (XI (XI (XO (XI (XI (XO
    XH))))))))))) :: []))) :: (((Zpos (XO (XI (XO (XI (XI (XI (XO (XO (XI (XI
    (XO (XI (XI (XI (XI XH)))))))))))))))), ((Zpos (XO (XI (XO (XI (XI (XO
    (XI (XI (XI (XO XH))))))))))) :: ((Zpos (XO (XO (XI (XI (XI (XI (XO (XI
    (XI (XO XH))))))))))) :: []))) :: (((Zpos (XI (XI (XO (XI (XI (XI (XO (XO
    (XI (XI (XO (XI (XI (XI (XI XH)))))))))))))))), ((Zpos (XI (XI (XO (XI
    (XI (XO (XI (XI (XI (XO XH))))))))))) :: ((Zpos (XO (XO (XI (XI (XI (XI
    (XO (XI (XI (XO XH))))))))))) :: []))) :: (((Zpos (XO (XO (XI (XI (XI (XI
    (XO (XO (XI (XI (XO (XI (XI (XI (XI XH)))))))))))))))), ((Zpos (XO (XO
    (XI (XI (XI (XO (XI (XI (XI (XO XH))))))))))) :: ((Zpos (XO (XO (XI (XI
    (XI (XI (XO (XI (XI (XO XH))))))))))) :: []))) :: (((Zpos (XO (XI (XI (XI
    (XI (XI (XO (XO (XI (XI (XO (XI (XI (XI (XI XH)))))))))))))))), ((Zpos
    (XO (XI (XI (XI (XI (XO (XI (XI (XI (XO XH))))))))))) :: ((Zpos (XO (XO
    (XI (XI (XI (XI (XO (XI (XI (XO XH))))))))))) :: []))) :: (((Zpos (XO (XO
    (XO (XO (XO (XO (XI (XO (XI (XI (XO (XI (XI (XI (XI XH)))))))))))))))),
    ((Zpos (XO (XO (XO (XO (XO (XI (XI (XI (XI (XO XH))))))))))) :: ((Zpos
    (XO (XO (XI (XI (XI (XI (XO (XI (XI (XO XH))))))))))) :: []))) :: (((Zpos
    (XI (XO (XO (XO (XO (XO (XI (XO (XI (XI (XO (XI (XI (XI (XI
    XH)))))))))))))))), ((Zpos (XI (XO (XO (XO (XO (XI (XI (XI (XI (XO
    XH))))))))))) :: ((Zpos (XO (XO (XI (XI (XI (XI (XO (XI (XI (XO
    XH))))))))))) :: []))) :: (((Zpos (XI (XI (XO (XO (XO (XO (XI (XO (XI (XI
    (XO (XI (XI (XI (XI XH)))))))))))))))), ((Zpos (XI (XI (XO (XO (XO (XI
    (XI (XI (XI (XO XH))))))))))) :: ((Zpos (XO (XO (XI (XI (XI (XI (XO (XI
    (XI (XO XH))))))))))) :: []))) :: (((Zpos (XO (XO (XI (XO (XO (XO (XI (XO
    (XI (XI (XO (XI (XI (XI (XI XH)))))))))))))))), ((Zpos (XO (XO (XI (XO
    (XO (XI (XI (XI (XI (XO XH))))))))))) :: ((Zpos (XO (XO (XI (XI (XI (XI
    (XO (XI (XI (XO XH))))))))))) :: []))) :: (((Zpos (XO (XI (XI (XO (XO (XO
    (XI (XO (XI (XI (XO (XI (XI (XI (XI XH)))))))))))))))), ((Zpos (XO (XI
    (XI (XO (XO (XI (XI (XI (XI (XO XH))))))))))) :: ((Zpos (XO (XO (XI (XI
    (XI (XI (XO (XI (XI (XO XH))))))))))) :: []))) :: (((Zpos (XI (XI (XI (XO
    (XO (XO (XI (XO (XI (XI (XO (XI (XI (XI (XI XH)))))))))))))))), ((Zpos
    (XI (XI (XI (XO (XO (XI (XI (XI (XI (XO XH))))))))))) :: ((Zpos (XO (XO
    (XI (XI (XI (XI (XO (XI (XI (XO XH))))))))))) :: []))) :: (((Zpos (XO (XO
    (XO (XI (XO (XO (XI (XO (XI (XI (XO (XI (XI (XI (XI XH)))))))))))))))),
    ((Zpos (XO (XO (XO (XI (XO (XI (XI (XI (XI (XO XH))))))))))) :: ((Zpos
    (XO (XO (XI (XI (XI (XI (XO (XI (XI (XO XH))))))))))) :: []))) :: (((Zpos
    (XI (XO (XO (XI (XO (XO (XI (XO (XI (XI (XO (XI (XI (XI (XI
    XH)))))))))))))))), ((Zpos (XI (XO (XO (XI (XO (XI (XI (XI (XI (XO
    XH))))))))))) :: ((Zpos (XO (XO (XI (XI (XI (XI (XO (XI (XI (XO
    XH))))))))))) :: []))) :: (((Zpos (XO (XI (XO (XI (XO (XO (XI (XO (XI (XI
    (XO (XI (XI (XI (XI XH)))))))))))))))), ((Zpos (XO (XI (XO (XI (XO (XI
    (XI (XI (XI (XO XH))))))))))) :: ((Zpos (XO (XO (XI (XI (XI (XI (XO (XI
    (XI (XO XH))))))))))) :: []))) :: (((Zpos (XI (XI (XO (XI (XO (XO (XI (XO
    (XI (XI (XO (XI (XI (XI (XI XH)))))))))))))))), ((Zpos (XI (XO (XI (XO
    (XI (XO (XI (XI (XI (XO XH))))))))))) :: ((Zpos (XI (XO (XO (XI (XI (XI
    (XO (XI (XI (XO XH))))))))))) :: []))) :: (((Zpos (XO (XO (XI (XI (XO (XO
    (XI (XO (XI (XI (XO (XI (XI (XI (XI XH)))))))))))))))), ((Zpos (XI (XO
    (XO (XO (XI (XO (XI (XI (XI (XO XH))))))))))) :: ((Zpos (XI (XI (XI (XI
    (XI (XI (XO (XI (XI (XO XH))))))))))) :: []))) :: (((Zpos (XI (XO (XI (XI
    (XO (XO (XI (XO (XI (XI (XO (XI (XI (XI (XI XH)))))))))))))))), ((Zpos
    (XI (XI (XO (XI (XI (XO (XI (XI (XI (XO XH))))))))))) :: ((Zpos (XI (XI
    (XI (XI (XI (XI (XO (XI (XI (XO XH))))))))))) :: []))) :: (((Zpos (XO (XI
    (XI (XI (XO (XO (XI (XO (XI (XI (XO (XI (XI (XI (XI XH)))))))))))))))),
    ((Zpos (XO (XO (XI (XO (XO (XI (XI (XI (XI (XO XH))))))))))) :: ((Zpos
    (XI (XI (XI (XI (XI (XI (XO (XI (XI (XO XH))))))))))) :: []))) :: (((Zpos
    (XO (XI (XO (XI (XI (XO (XO (XI (XO (XO (XO (XO (XI (XO (XO (XO
    XH))))))))))))))))), ((Zpos (XI (XO (XO (XI (XI (XO (XO (XI (XO (XO (XO
    (XO (XI (XO (XO (XO XH))))))))))))))))) :: ((Zpos (XO (XI (XO (XI (XI (XI
    (XO (XI (XO (XO (XO (XO (XI (XO (XO (XO
    XH))))))))))))))))) :: []))) :: (((Zpos (XO (XO (XI (XI (XI (XO (XO (XI
    (XO (XO (XO (XO (XI (XO (XO (XO XH))))))))))))))))), ((Zpos (XI (XI (XO
    (XI (XI (XO (XO (XI (XO (XO (XO (XO (XI (XO (XO (XO
    XH))))))))))))))))) :: ((Zpos (XO (XI (XO (XI (XI (XI (XO (XI (XO (XO (XO
    (XO (XI (XO (XO (XO XH))))))))))))))))) :: []))) :: (((Zpos (XI (XI (XO
    (XI (XO (XI (XO (XI (XO (XO (XO (XO (XI (XO (XO (XO XH))))))))))))))))),
    ((Zpos (XI (XO (XI (XO (XO (XI (XO (XI (XO (XO (XO (XO (XI (XO (XO (XO
    XH))))))))))))))))) :: ((Zpos (XO (XI (XO (XI (XI (XI (XO (XI (XO (XO (XO
    (XO (XI (XO (XO (XO XH))))))))))))))))) :: []))) :: (((Zpos (XO (XI (XI
    (XI (XO (XI (XO (XO (XI (XO (XO (XO (XI (XO (XO (XO XH))))))))))))))))),
    ((Zpos (XI (XO (XO (XO (XI (XI (XO (XO (XI (XO (XO (XO (XI (XO (XO (XO
    XH))))))))))))))))) :: ((Zpos (XI (XI (XI (XO (XO (XI (XO (XO (XI (XO (XO
    (XO (XI (XO (XO (XO XH))))))))))))))))) :: []))) :: (((Zpos (XI (XI (XI
    (XI (XO (XI (XO (XO (XI (XO (XO (XO (XI (XO (XO (XO XH))))))))))))))))),
    ((Zpos (XO (XI (XO (XO (XI (XI (XO (XO (XI (XO (XO (XO (XI (XO (XO (XO
    XH))))))))))))))))) :: ((Zpos (XI (XI (XI (XO (XO (XI (XO (XO (XI (XO (XO
    (XO (XI (XO (XO (XO XH))))))))))))))))) :: []))) :: (((Zpos (XI (XI (XO
    (XI (XO (XO (XI (XO (XI (XI (XO (XO (XI (XO (XO (XO XH))))))))))))))))),
    ((Zpos (XI (XI (XI (XO (XO (XO (XI (XO (XI (XI (XO (XO (XI (XO (XO (XO
    XH))))))))))))))))) :: ((Zpos (XO (XI (XI (XI (XI (XI (XO (XO (XI (XI (XO
    (XO (XI (XO (XO (XO XH))))))))))))))))) :: []))) :: (((Zpos (XO (XO (XI
    (XI (XO (XO (XI (XO (XI (XI (XO (XO (XI (XO (XO (XO XH))))))))))))))))),
    ((Zpos (XI (XI (XI (XO (XO (XO (XI (XO (XI (XI (XO (XO (XI (XO (XO (XO
    XH))))))))))))))))) :: ((Zpos (XI (XI (XI (XO (XI (XO (XI (XO (XI (XI (XO
    (XO (XI (XO (XO (XO XH))))))))))))))))) :: []))) :: (((Zpos (XI (XI (XO
    (XI (XI (XI (XO (XI (XO (XO (XI (XO (XI (XO (XO (XO XH))))))))))))))))),
    ((Zpos (XI (XO (XO (XI (XI (XI (XO (XI (XO (XO (XI (XO (XI (XO (XO (XO
    XH))))))))))))))))) :: ((Zpos (XO (XI (XO (XI (XI (XI (XO (XI (XO (XO (XI
    (XO (XI (XO (XO (XO XH))))))))))))))))) :: []))) :: (((Zpos (XO (XO (XI
    (XI (XI (XI (XO (XI (XO (XO (XI (XO (XI (XO (XO (XO XH))))))))))))))))),
    ((Zpos (XI (XO (XO (XI (XI (XI (XO (XI (XO (XO (XI (XO (XI (XO (XO (XO
    XH))))))))))))))))) :: ((Zpos (XO (XO (XO (XO (XI (XI (XO (XI (XO (XO (XI
    (XO (XI (XO (XO (XO XH))))))))))))))))) :: []))) :: (((Zpos (XO (XI (XI
    (XI (XI (XI (XO (XI (XO (XO (XI (XO (XI (XO (XO (XO XH))))))))))))))))),
    ((Zpos (XI (XO (XO (XI (XI (XI (XO (XI (XO (XO (XI (XO (XI (XO (XO (XO
    XH))))))))))))))))) :: ((Zpos (XI (XO (XI (XI (XI (XI (XO (XI (XO (XO (XI
    (XO (XI (XO (XO (XO XH))))))))))))))))) :: []))) :: (((Zpos (XO (XI (XO
    (XI (XI (XI (XO (XI (XI (XO (XI (XO (XI (XO (XO (XO XH))))))))))))))))),
    ((Zpos (XO (XO (XO (XI (XI (XI (XO (XI (XI (XO (XI (XO (XI (XO (XO (XO
    XH))))))))))))))))) :: ((Zpos (XI (XI (XI (XI (XO (XI (XO (XI (XI (XO (XI
    (XO (XI (XO (XO (XO XH))))))))))))))))) :: []))) :: (((Zpos (XI (XI (XO
    (XI (XI (XI (XO (XI (XI (XO (XI (XO (XI (XO (XO (XO XH))))))))))))))))),
    ((Zpos (XI (XO (XO (XI (XI (XI (XO (XI (XI (XO (XI (XO (XI (XO (XO (XO
    XH))))))))))))))))) :: ((Zpos (XI (XI (XI (XI (XO (XI (XO (XI (XI (XO (XI
    (XO (XI (XO (XO (XO XH))))))))))))))))) :: []))) :: (((Zpos (XO (XO (XO
    (XI (XI (XI (XO (XO (XI (XO (XO (XI (XI (XO (XO (XO XH))))))))))))))))),
    ((Zpos (XI (XO (XI (XO (XI (XI (XO (XO (XI (XO (XO (XI (XI (XO (XO (XO
    XH))))))))))))))))) :: ((Zpos (XO (XO (XO (XO (XI (XI (XO (XO (XI (XO (XO
    (XI (XI (XO (XO (XO XH))))))))))))))))) :: []))) :: (((Zpos (XO (XI (XI
    (XI (XI (XO (XI (XO (XI (XO (XO (XO (XI (XO (XI (XI XH))))))))))))))))),
    ((Zpos (XI (XI (XI (XO (XI (XO (XI (XO (XI (XO (XO (XO (XI (XO (XI (XI
    XH))))))))))))))))) :: ((Zpos (XI (XO (XI (XO (XO (XI (XI (XO (XI (XO (XO
    (XO (XI (XO (XI (XI XH))))))))))))))))) :: []))) :: (((Zpos (XI (XI (XI
    (XI (XI (XO (XI (XO (XI (XO (XO (XO (XI (XO (XI (XI XH))))))))))))))))),
    ((Zpos (XO (XO (XO (XI (XI (XO (XI (XO (XI (XO (XO (XO (XI (XO (XI (XI
    XH))))))))))))))))) :: ((Zpos (XI (XO (XI (XO (XO (XI (XI (XO (XI (XO (XO
    (XO (XI (XO (XI (XI XH))))))))))))))))) :: []))) :: (((Zpos (XO (XO (XO
    (XO (XO (XI (XI (XO (XI (XO (XO (XO (XI (XO (XI (XI XH))))))))))))))))),
    ((Zpos (XO (XO (XO (XI (XI (XO (XI (XO (XI (XO (XO (XO (XI (XO (XI (XI
    XH))))))))))))))))) :: ((Zpos (XI (XO (XI (XO (XO (XI (XI (XO (XI (XO (XO
    (XO (XI (XO (XI (XI XH))))))))))))))))) :: ((Zpos (XO (XI (XI (XI (XO (XI
    (XI (XO (XI (XO (XO (XO (XI (XO (XI (XI
    XH))))))))))))))))) :: [])))) :: (((Zpos (XI (XO (XO (XO (XO (XI (XI (XO
    (XI (XO (XO (XO (XI (XO (XI (XI XH))))))))))))))))), ((Zpos (XO (XO (XO
    (XI (XI (XO (XI (XO (XI (XO (XO (XO (XI (XO (XI (XI
    XH))))))))))))))))) :: ((Zpos (XI (XO (XI (XO (XO (XI (XI (XO (XI (XO (XO
    (XO (XI (XO (XI (XI XH))))))))))))))))) :: ((Zpos (XI (XI (XI (XI (XO (XI
    (XI (XO (XI (XO (XO (XO (XI (XO (XI (XI
    XH))))))))))))))))) :: [])))) :: (((Zpos (XO (XI (XO (XO (XO (XI (XI (XO
    (XI (XO (XO (XO (XI (XO (XI (XI XH))))))))))))))))), ((Zpos (XO (XO (XO
    (XI (XI (XO (XI (XO (XI (XO (XO (XO (XI (XO (XI (XI
    XH))))))))))))))))) :: ((Zpos (XI (XO (XI (XO (XO (XI (XI (XO (XI (XO (XO
    (XO (XI (XO (XI (XI XH))))))))))))))))) :: ((Zpos (XO (XO (XO (XO (XI (XI
    (XI (XO (XI (XO (XO (XO (XI (XO (XI (XI
    XH))))))))))))))))) :: [])))) :: (((Zpos (XI (XI (XO (XO (XO (XI (XI (XO
    (XI (XO (XO (XO (XI (XO (XI (XI XH))))))))))))))))), ((Zpos (XO (XO (XO
    (XI (XI (XO (XI (XO (XI (XO (XO (XO (XI (XO (XI (XI
    XH))))))))))))))))) :: ((Zpos (XI (XO (XI (XO (XO (XI (XI (XO (XI (XO (XO
    (XO (XI (XO (XI (XI XH))))))))))))))))) :: ((Zpos (XI (XO (XO (XO (XI (XI
    (XI (XO (XI (XO (XO (XO (XI (XO (XI (XI
    XH))))))))))))))))) :: [])))) :: (((Zpos (XO (XO (XI (XO (XO (XI (XI (XO
    (XI (XO (XO (XO (XI (XO (XI (XI XH))))))))))))))))), ((Zpos (XO (XO (XO
    (XI (XI (XO (XI (XO (XI (XO (XO (XO (XI (XO (XI (XI
    XH))))))))))))))))) :: ((Zpos (XI (XO (XI (XO (XO (XI (XI (XO (XI (XO (XO
    (XO (XI (XO (XI (XI XH))))))))))))))))) :: ((Zpos (XO (XI (XO (XO (XI (XI
    (XI (XO (XI (XO (XO (XO (XI (XO (XI (XI
    XH))))))))))))))))) :: [])))) :: (((Zpos (XI (XI (XO (XI (XI (XI (XO (XI
    (XI (XO (XO (XO (XI (XO (XI (XI XH))))))))))))))))), ((Zpos (XI (XO (XO
    (XI (XI (XI (XO (XI (XI (XO (XO (XO (XI (XO (XI (XI
    XH))))))))))))))))) :: ((Zpos (XI (XO (XI (XO (XO (XI (XI (XO (XI (XO (XO
    (XO (XI (XO (XI (XI XH))))))))))))))))) :: []))) :: (((Zpos (XO (XO (XI
    (XI (XI (XI (XO (XI (XI (XO (XO (XO (XI (XO (XI (XI XH))))))))))))))))),
    ((Zpos (XO (XI (XO (XI (XI (XI (XO (XI (XI (XO (XO (XO (XI (XO (XI (XI
    XH))))))))))))))))) :: ((Zpos (XI (XO (XI (XO (XO (XI (XI (XO (XI (XO (XO
    (XO (XI (XO (XI (XI XH))))))))))))))))) :: []))) :: (((Zpos (XI (XO (XI
    (XI (XI (XI (XO (XI (XI (XO (XO (XO (XI (XO (XI (XI XH))))))))))))))))),
    ((Zpos (XI (XO (XO (XI (XI (XI (XO (XI (XI (XO (XO (XO (XI (XO (XI (XI
    XH))))))))))))))))) :: ((Zpos (XI (XO (XI (XO (XO (XI (XI (XO (XI (XO (XO
    (XO (XI (XO (XI (XI XH))))))))))))))))) :: ((Zpos (XO (XI (XI (XI (XO (XI
    (XI (XO (XI (XO (XO (XO (XI (XO (XI (XI
    XH))))))))))))))))) :: [])))) :: (((Zpos (XO (XI (XI (XI (XI (XI (XO (XI
    (XI (XO (XO (XO (XI (XO (XI (XI XH))))))))))))))))), ((Zpos (XO (XI (XO
    (XI (XI (XI (XO (XI (XI (XO (XO (XO (XI (XO (XI (XI
    XH))))))))))))))))) :: ((Zpos (XI (XO (XI (XO (XO (XI (XI (XO (XI (XO (XO
    (XO (XI (XO (XI (XI XH))))))))))))))))) :: ((Zpos (XO (XI (XI (XI (XO (XI
    (XI (XO (XI (XO (XO (XO (XI (XO (XI (XI
    XH))))))))))))))))) :: [])))) :: (((Zpos (XI (XI (XI (XI (XI (XI (XO (XI
    (XI (XO (XO (XO (XI (XO (XI (XI XH))))))))))))))))), ((Zpos (XI (XO (XO
    (XI (XI (XI (XO (XI (XI (XO (XO (XO (XI (XO (XI (XI
    XH))))))))))))))))) :: ((Zpos (XI (XO (XI (XO (XO (XI (XI (XO (XI (XO (XO
    (XO (XI (XO (XI (XI XH))))))))))))))))) :: ((Zpos (XI (XI (XI (XI (XO (XI
    (XI (XO (XI (XO (XO (XO (XI (XO (XI (XI
    XH))))))))))))))))) :: [])))) :: (((Zpos (XO (XO (XO (XO (XO (XO (XI (XI
    (XI (XO (XO (XO (XI (XO (XI (XI XH))))))))))))))))), ((Zpos (XO (XI (XO
    (XI (XI (XI (XO (XI (XI (XO (XO (XO (XI (XO (XI (XI
    XH))))))))))))))))) :: ((Zpos (XI (XO (XI (XO (XO (XI (XI (XO (XI (XO (XO
    (XO (XI (XO (XI (XI XH))))))))))))))))) :: ((Zpos (XI (XI (XI (XI (XO (XI
    (XI (XO (XI (XO (XO (XO (XI (XO (XI (XI
    XH))))))))))))))))) :: [])))) :: (((Zpos (XO (XO (XO (XO (XO (XO (XO (XO
    (XO (XO (XO (XI (XI (XI (XI (XI (XO XH)))))))))))))))))), ((Zpos (XI (XO
    (XI (XI (XI (XI (XO (XO (XO (XI (XI (XI (XO (XO
    XH))))))))))))))) :: [])) :: (((Zpos (XI (XO (XO (XO (XO (XO (XO (XO (XO
    (XO (XO (XI (XI (XI (XI (XI (XO XH)))))))))))))))))), ((Zpos (XO (XO (XO
    (XI (XI (XI (XO (XO (XO (XI (XI (XI (XO (XO
    XH))))))))))))))) :: [])) :: (((Zpos (XO (XI (XO (XO (XO (XO (XO (XO (XO
    (XO (XO (XI (XI (XI (XI (XI (XO XH)))))))))))))))))), ((Zpos (XI (XO (XO
    (XO (XO (XO (XI (XO (XO (XI (XI (XI (XO (XO
    XH))))))))))))))) :: [])) :: (((Zpos (XI (XI (XO (XO (XO (XO (XO (XO (XO
    (XO (XO (XI (XI (XI (XI (XI (XO XH)))))))))))))))))), ((Zpos (XO (XI (XO
    (XO (XO (XI (XO (XO (XI (XO (XO (XO (XO (XO (XO (XO (XO
    XH)))))))))))))))))) :: [])) :: (((Zpos (XO (XO (XI (XO (XO (XO (XO (XO
    (XO (XO (XO (XI (XI (XI (XI (XI (XO XH)))))))))))))))))), ((Zpos (XO (XO
    (XO (XO (XO (XI (XI (XO (XI (XI (XI (XI (XO (XO
    XH))))))))))))))) :: [])) :: (((Zpos (XI (XO (XI (XO (XO (XO (XO (XO (XO
    (XO (XO (XI (XI (XI (XI (XI (XO XH)))))))))))))))))), ((Zpos (XO (XI (XI
    (XI (XO (XI (XO (XI (XI (XI (XI (XI (XO (XO
    XH))))))))))))))) :: [])) :: (((Zpos (XO (XI (XI (XO (XO (XO (XO (XO (XO
    (XO (XO (XI (XI (XI (XI (XI (XO XH)))))))))))))))))), ((Zpos (XI (XI (XO
    (XI (XI (XI (XO (XI (XI (XI (XI (XI (XO (XO
    XH))))))))))))))) :: [])) :: (((Zpos (XI (XI (XI (XO (XO (XO (XO (XO (XO
    (XO (XO (XI (XI (XI (XI (XI (XO XH)))))))))))))))))), ((Zpos (XO (XI (XO
    (XO (XO (XO (XO (XO (XO (XO (XO (XO (XI (XO
    XH))))))))))))))) :: [])) :: (((Zpos (XO (XO (XO (XI (XO (XO (XO (XO (XO
    (XO (XO (XI (XI (XI (XI (XI (XO XH)))))))))))))))))), ((Zpos (XO (XI (XO
    (XI (XI (XI (XI (XO (XO (XO (XO (XO (XI (XO
    XH))))))))))))))) :: [])) :: (((Zpos (XI (XO (XO (XI (XO (XO (XO (XO (XO
    (XO (XO (XI (XI (XI (XI (XI (XO XH)))))))))))))))))), ((Zpos (XI (XO (XO
    (XI (XI (XO (XO (XI (XO (XO (XO (XO (XI (XO
    XH))))))))))))))) :: [])) :: (((Zpos (XO (XI (XO (XI (XO (XO (XO (XO (XO
    (XO (XO (XI (XI (XI (XI (XI (XO XH)))))))))))))))))), ((Zpos (XI (XI (XI
    (XO (XO (XI (XI (XI (XO (XO (XO (XO (XI (XO
    XH))))))))))))))) :: [])) :: (((Zpos (XI (XI (XO (XI (XO (XO (XO (XO (XO
    (XO (XO (XI (XI (XI (XI (XI (XO XH)))))))))))))))))), ((Zpos (XI (XI (XI
    (XI (XO (XO (XI (XI (XO (XO (XO (XO (XI (XO
    XH))))))))))))))) :: [])) :: (((Zpos (XO (XO (XI (XI (XO (XO (XO (XO (XO
    (XO (XO (XI (XI (XI (XI (XI (XO XH)))))))))))))))))), ((Zpos (XO (XI (XI
    (XI (XI (XO (XO (XI (XO (XO (XI (XO (XI
    XH)))))))))))))) :: [])) :: (((Zpos (XI (XO (XI (XI (XO (XO (XO (XO (XO
    (XO (XO (XI (XI (XI (XI (XI (XO XH)))))))))))))))))), ((Zpos (XO (XI (XO
    (XI (XI (XI (XO (XO (XO (XI (XI (XO (XO (XO (XO (XO (XO
    XH)))))))))))))))))) :: [])) :: (((Zpos (XO (XI (XI (XI (XO (XO (XO (XO
    (XO (XO (XO (XI (XI (XI (XI (XI (XO XH)))))))))))))))))), ((Zpos (XI (XO
    (XI (XI (XO (XO (XI (XO (XI (XO (XO (XO (XI (XO
    XH))))))))))))))) :: [])) :: (((Zpos (XI (XI (XI (XI (XO (XO (XO (XO (XO
    (XO (XO (XI (XI (XI (XI (XI (XO XH)))))))))))))))))), ((Zpos (XO (XO (XI
    (XO (XI (XO (XI (XO (XI (XO (XO (XO (XI (XO
    XH))))))))))))))) :: [])) :: (((Zpos (XO (XO (XO (XO (XI (XO (XO (XO (XO
    (XO (XO (XI (XI (XI (XI (XI (XO XH)))))))))))))))))), ((Zpos (XO (XO (XI
    (XO (XO (XI (XI (XO (XI (XO (XO (XO (XI (XO
    XH))))))))))))))) :: [])) :: (((Zpos (XI (XO (XO (XO (XI (XO (XO (XO (XO
    (XO (XO (XI (XI (XI (XI (XI (XO XH)))))))))))))))))), ((Zpos (XI (XI (XI
    (XO (XI (XI (XI (XO (XI (XO (XO (XO (XI (XO
    XH))))))))))))))) :: [])) :: (((Zpos (XO (XI (XO (XO (XI (XO (XO (XO (XO
    (XO (XO (XI (XI (XI (XI (XI (XO XH)))))))))))))))))), ((Zpos (XO (XO (XI
    (XI (XI (XO (XO (XO (XI (XO (XI (XO (XO (XO (XO (XO (XO
    XH)))))))))))))))))) :: [])) :: (((Zpos (XI (XI (XO (XO (XI (XO (XO (XO
    (XO (XO (XO (XI (XI (XI (XI (XI (XO XH)))))))))))))))))), ((Zpos (XI (XO
    (XO (XI (XI (XI (XO (XI (XO (XO (XI (XO (XI
    XH)))))))))))))) :: [])) :: (((Zpos (XO (XO (XI (XO (XI (XO (XO (XO (XO
    (XO (XO (XI (XI (XI (XI (XI (XO XH)))))))))))))))))), ((Zpos (XI (XI (XI
    (XO (XO (XI (XI (XO (XI (XO (XO (XO (XI (XO
    XH))))))))))))))) :: [])) :: (((Zpos (XI (XO (XI (XO (XI (XO (XO (XO (XO
    (XO (XO (XI (XI (XI (XI (XI (XO XH)))))))))))))))))), ((Zpos (XI (XO (XI
    (XI (XO (XO (XO (XI (XI (XO (XO (XO (XI (XO
    XH))))))))))))))) :: [])) :: (((Zpos (XO (XI (XI (XO (XI (XO (XO (XO (XO
    (XO (XO (XI (XI (XI (XI (XI (XO XH)))))))))))))))))), ((Zpos (XI (XI (XO
    (XI (XO (XO (XI (XO (XI (XO (XI (XO (XO (XO (XO (XO (XO
    XH)))))))))))))))))) :: [])) :: (((Zpos (XI (XI (XI (XO (XI (XO (XO (XO
    (XO (XO (XO (XI (XI (XI (XI (XI (XO XH)))))))))))))))))), ((Zpos (XI (XI
    (XI (XO (XI (XO (XO (XI (XI (XO (XO (XO (XI (XO
    XH))))))))))))))) :: [])) :: (((Zpos (XO (XO (XO (XI (XI (XO (XO (XO (XO
    (XO (XO (XI (XI (XI (XI (XI (XO XH)))))))))))))))))), ((Zpos (XO (XO (XI
    (XO (XO (XI (XO (XI (XI (XO (XO (XO (XI (XO
    XH))))))))))))))) :: [])) :: (((Zpos (XI (XO (XO (XI (XI (XO (XO (XO (XO
    (XO (XO (XI (XI (XI (XI (XI (XO XH)))))))))))))))))), ((Zpos (XO (XO (XI
    (XI (XO (XO (XI (XI (XO (XI (XI (XI (XO (XO
    XH))))))))))))))) :: [])) :: (((Zpos (XO (XI (XO (XI (XI (XO (XO (XO (XO
    (XO (XO (XI (XI (XI (XI (XI (XO XH)))))))))))))))))), ((Zpos (XO (XO (XI
    (XI (XO (XI (XO (XI (XI (XO (XO (XO (XI (XO
    XH))))))))))))))) :: [])) :: (((Zpos (XI (XI (XO (XI (XI (XO (XO (XO (XO
    (XO (XO (XI (XI (XI (XI (XI (XO XH)))))))))))))))))), ((Zpos (XI (XO (XI
    (XO (XI (XI (XO (XI (XI (XO (XO (XO (XI (XO
    XH))))))))))))))) :: [])) :: (((Zpos (XO (XO (XI (XI (XI (XO (XO (XO (XO
    (XO (XO (XI (XI (XI (XI (XI (XO XH)))))))))))))))))), ((Zpos (XI (XI (XI
    (XI (XI (XO (XI (XI (XI (XO (XO (XO (XI (XO (XO (XI (XO
    XH)))))))))))))))))) :: [])) :: (((Zpos (XI (XO (XI (XI (XI (XO (XO (XO
    (XO (XO (XO (XI (XI (XI (XI (XI (XO XH)))))))))))))))))), ((Zpos (XI (XO
    (XI (XO (XI (XI (XI (XI (XI (XO (XO (XO (XI (XO
    XH))))))))))))))) :: [])) :: (((Zpos (XO (XI (XI (XI (XI (XO (XO (XO (XO
    (XO (XO (XI (XI (XI (XI (XI (XO XH)))))))))))))))))), ((Zpos (XI (XI (XO
    (XO (XO (XO (XO (XO (XO (XI (XO (XO (XI (XO
    XH))))))))))))))) :: [])) :: (((Zpos (XI (XI (XI (XI (XI (XO (XO (XO (XO
    (XO (XO (XI (XI (XI (XI (XI (XO XH)))))))))))))))))), ((Zpos (XI (XI (XI
    (XI (XI (XO (XI (XI (XO (XO (XI (XO (XI
    XH)))))))))))))) :: [])) :: (((Zpos (XO (XO (XO (XO (XO (XI (XO (XO (XO
    (XO (XO (XI (XI (XI (XI (XI (XO XH)))))))))))))))))), ((Zpos (XI (XI (XO
    (XI (XI (XI (XO (XO (XO (XI (XO (XO (XI (XO
    XH))))))))))))))) :: [])) :: (((Zpos (XI (XO (XO (XO (XO (XI (XO (XO (XO
    (XO (XO (XI (XI (XI (XI (XI (XO XH)))))))))))))))))), ((Zpos (XO (XI (XI
    (XO (XO (XO (XI (XO (XO (XI (XO (XO (XI (XO
    XH))))))))))))))) :: [])) :: (((Zpos (XO (XI (XO (XO (XO (XI (XO (XO (XO
    (XO (XO (XI (XI (XI (XI (XI (XO XH)))))))))))))))))), ((Zpos (XO (XI (XO
    (XO (XI (XI (XI (XO (XO (XI (XO (XO (XI (XO
    XH))))))))))))))) :: [])) :: (((Zpos (XI (XI (XO (XO (XO (XI (XO (XO (XO
    (XO (XO (XI (XI (XI (XI (XI (XO XH)))))))))))))))))), ((Zpos (XI (XI (XI
    (XO (XI (XI (XI (XO (XO (XI (XO (XO (XI (XO
    XH))))))))))))))) :: [])) :: (((Zpos (XO (XO (XI (XO (XO (XI (XO (XO (XO
    (XO (XO (XI (XI (XI (XI (XI (XO XH)))))))))))))))))), ((Zpos (XI (XO (XI
    (XO (XI (XO (XO (XO (XI (XO (XI (XO (XI
    XH)))))))))))))) :: [])) :: (((Zpos (XI (XO (XI (XO (XO (XI (XO (XO (XO
    (XO (XO (XI (XI (XI (XI (XI (XO XH)))))))))))))))))), ((Zpos (XI (XI (XI
    (XO (XO (XO (XI (XI (XO (XI (XO (XO (XI (XO
    XH))))))))))))))) :: [])) :: (((Zpos (XO (XI (XI (XO (XO (XI (XO (XO (XO
    (XO (XO (XI (XI (XI (XI (XI (XO XH)))))))))))))))))), ((Zpos (XI (XO (XO
    (XI (XO (XO (XI (XI (XO (XI (XO (XO (XI (XO
    XH))))))))))))))) :: [])) :: (((Zpos (XI (XI (XI (XO (XO (XI (XO (XO (XO
    (XO (XO (XI (XI (XI (XI (XI (XO XH)))))))))))))))))), ((Zpos (XO (XO (XI
    (XO (XO (XI (XI (XI (XO (XI (XO (XO (XI (XO
    XH))))))))))))))) :: [])) :: (((Zpos (XO (XO (XO (XI (XO (XI (XO (XO (XO
    (XO (XO (XI (XI (XI (XI (XI (XO XH)))))))))))))))))), ((Zpos (XO (XI (XO
    (XI (XI (XI (XI (XI (XO (XI (XO (XO (XI (XO
    XH))))))))))))))) :: [])) :: (((Zpos (XI (XO (XO (XI (XO (XI (XO (XO (XO
    (XO (XO (XI (XI (XI (XI (XI (XO XH)))))))))))))))))), ((Zpos (XI (XO (XI
    (XO (XO (XO (XO (XO (XI (XI (XO (XO (XI (XO
    XH))))))))))))))) :: [])) :: (((Zpos (XO (XI (XO (XI (XO (XI (XO (XO (XO
    (XO (XO (XI (XI (XI (XI (XI (XO XH)))))))))))))))))), ((Zpos (XO (XI (XI
    (XO (XO (XO (XO (XO (XI (XI (XO (XO (XI (XO
    XH))))))))))))))) :: [])) :: (((Zpos (XI (XI (XO (XI (XO (XI (XO (XO (XO
    (XO (XO (XI (XI (XI (XI (XI (XO XH)))))))))))))))))), ((Zpos (XI (XI (XI
    (XO (XI (XO (XO (XO (XI (XI (XO (XO (XI (XO
    XH))))))))))))))) :: [])) :: (((Zpos (XO (XO (XI (XI (XO (XI (XO (XO (XO
    (XO (XO (XI (XI (XI (XI (XI (XO XH)))))))))))))))))), ((Zpos (XI (XO (XO
    (XI (XO (XO (XI (XO (XI (XI (XO (XO (XI (XO
    XH))))))))))))))) :: [])) :: (((Zpos (XI (XO (XI (XI (XO (XI (XO (XO (XO
    (XO (XO (XI (XI (XI (XI (XI (XO XH)))))))))))))))))), ((Zpos (XI (XO (XO
    (XO (XI (XO (XI (XO (XI (XI (XO (XO (XI (XO
    XH))))))))))))))) :: [])) :: (((Zpos (XO (XI (XI (XI (XO (XI (XO (XO (XO
    (XO (XO (XI (XI (XI (XI (XI (XO XH)))))))))))))))))), ((Zpos (XO (XI (XO
    (XI (XI (XO (XI (XO (XI (XI (XO (XO (XI (XO
    XH))))))))))))))) :: [])) :: (((Zpos (XI (XI (XI (XI (XO (XI (XO (XO (XO
    (XO (XO (XI (XI (XI (XI (XI (XO XH)))))))))))))))))), ((Zpos (XI (XI (XO
    (XO (XI (XI (XI (XO (XI (XI (XO (XO (XI (XO
    XH))))))))))))))) :: [])) :: (((Zpos (XO (XO (XO (XO (XI (XI (XO (XO (XO
    (XO (XO (XI (XI (XI (XI (XI (XO XH)))))))))))))))))), ((Zpos (XI (XO (XI
    (XI (XI (XI (XI (XO (XI (XI (XO (XO (XI (XO
    XH))))))))))))))) :: [])) :: (((Zpos (XI (XO (XO (XO (XI (XI (XO (XO (XO
    (XO (XO (XI (XI (XI (XI (XI (XO XH)))))))))))))))))), ((Zpos (XI (XI (XI
    (XI (XI (XI (XI (XO (XI (XI (XO (XO (XI (XO
    XH))))))))))))))) :: [])) :: (((Zpos (XO (XI (XO (XO (XI (XI (XO (XO (XO
    (XO (XO (XI (XI (XI (XI (XI (XO XH)))))))))))))))))), ((Zpos (XI (XI (XI
    (XI (XI (XI (XI (XO (XI (XI (XO (XO (XI (XO
    XH))))))))))))))) :: [])) :: (((Zpos (XI (XI (XO (XO (XI (XI (XO (XO (XO
    (XO (XO (XI (XI (XI (XI (XI (XO XH)))))))))))))))))), ((Zpos (XI (XI (XI
    (XI (XI (XI (XI (XO (XI (XI (XO (XO (XI (XO
    XH))))))))))))))) :: [])) :: (((Zpos (XO (XO (XI (XO (XI (XI (XO (XO (XO
    (XO (XO (XI (XI (XI (XI (XI (XO XH)))))))))))))))))), ((Zpos (XO (XO (XI
    (XI (XO (XI (XO (XO (XO (XI (XO (XI (XO (XO (XO (XO (XO
    XH)))))))))))))))))) :: [])) :: (((Zpos (XI (XO (XI (XO (XI (XI (XO (XO
    (XO (XO (XO (XI (XI (XI (XI (XI (XO XH)))))))))))))))))), ((Zpos (XO (XO
    (XO (XO (XI (XI (XI (XO (XO (XO (XO (XO (XI (XI
    XH))))))))))))))) :: [])) :: (((Zpos (XO (XI (XI (XO (XI (XI (XO (XO (XO
    (XO (XO (XI (XI (XI (XI (XI (XO XH)))))))))))))))))), ((Zpos (XO (XI (XO
    (XI (XO (XO (XI (XI (XI (XI (XO (XO (XI (XO
    XH))))))))))))))) :: [])) :: (((Zpos (XI (XI (XI (XO (XI (XI (XO (XO (XO
    (XO (XO (XI (XI (XI (XI (XI (XO XH)))))))))))))))))), ((Zpos (XI (XI (XI
    (XI (XI (XO (XI (XI (XI (XI (XO (XO (XI (XO
    XH))))))))))))))) :: [])) :: (((Zpos (XO (XO (XO (XI (XI (XI (XO (XO (XO
    (XO (XO (XI (XI (XI (XI (XI (XO XH)))))))))))))))))), ((Zpos (XI (XI (XO
    (XO (XO (XI (XI (XO (XI (XI (XO (XI (XO (XO (XO (XO (XO
    XH)))))))))))))))))) :: [])) :: (((Zpos (XI (XO (XO (XI (XI (XI (XO (XO
    (XO (XO (XO (XI (XI (XI (XI (XI (XO XH)))))))))))))))))), ((Zpos (XI (XI
    (XO (XI (XO (XI (XI (XI (XI (XI (XO (XO (XI (XO
    XH))))))))))))))) :: [])) :: (((Zpos (XO (XI (XO (XI (XI (XI (XO (XO (XO
    (XO (XO (XI (XI (XI (XI (XI (XO XH)))))))))))))))))), ((Zpos (XI (XO (XO
    (XO (XI (XI (XI (XI (XI (XI (XO (XO (XI (XO
    XH))))))))))))))) :: [])) :: (((Zpos (XI (XI (XO (XI (XI (XI (XO (XO (XO
    (XO (XO (XI (XI (XI (XI (XI (XO XH)))))))))))))))))), ((Zpos (XO (XI (XI
    (XO (XO (XO (XO (XO (XO (XO (XI (XO (XI (XO
    XH))))))))))))))) :: [])) :: (((Zpos (XO (XO (XI (XI (XI (XI (XO (XO (XO
    (XO (XO (XI (XI (XI (XI (XI (XO XH)))))))))))))))))), ((Zpos (XO (XI (XI
    (XI (XI (XO (XO (XI (XO (XO (XI (XO (XI (XO
    XH))))))))))))))) :: [])) :: (((Zpos (XI (XO (XI (XI (XI (XI (XO (XO (XO
    (XO (XO (XI (XI (XI (XI (XI (XO XH)))))))))))))))))), ((Zpos (XO (XO (XO
    (XI (XI (XI (XO (XO (XO (XO (XI (XO (XI (XO
    XH))))))))))))))) :: [])) :: (((Zpos (XO (XI (XI (XI (XI (XI (XO (XO (XO
    (XO (XO (XI (XI (XI (XI (XI (XO XH)))))))))))))))))), ((Zpos (XO (XO (XO
    (XI (XO (XO (XI (XO (XO (XO (XI (XO (XI (XO
    XH))))))))))))))) :: [])) :: (((Zpos (XI (XI (XI (XI (XI (XI (XO (XO (XO
    (XO (XO (XI (XI (XI (XI (XI (XO XH)))))))))))))))))), ((Zpos (XO (XO (XO
    (XI (XO (XI (XI (XO (XO (XO (XI (XO (XI (XO
    XH))))))))))))))) :: [])) :: (((Zpos (XO (XO (XO (XO (XO (XO (XI (XO (XO
    (XO (XO (XI (XI (XI (XI (XI (XO XH)))))))))))))))))), ((Zpos (XO (XI (XO
    (XO (XO (XI (XO (XI (XO (XO (XI (XO (XI (XO
    XH))))))))))))))) :: [])) :: (((Zpos (XI (XO (XO (XO (XO (XO (XI (XO (XO
    (XO (XO (XI (XI (XI (XI (XI (XO XH)))))))))))))))))), ((Zpos (XO (XI (XI
    (XO (XI (XI (XI (XI (XO (XO (XI (XO (XI (XO
    XH))))))))))))))) :: [])) :: (((Zpos (XO (XI (XO (XO (XO (XO (XI (XO (XO
    (XO (XO (XI (XI (XI (XI (XI (XO XH)))))))))))))))))), ((Zpos (XO (XO (XO
    (XO (XI (XO (XO (XO (XI (XO (XI (XO (XI (XO
    XH))))))))))))))) :: [])) :: (((Zpos (XI (XI (XO (XO (XO (XO (XI (XO (XO
    (XO (XO (XI (XI (XI (XI (XI (XO XH)))))))))))))))))), ((Zpos (XI (XI (XO
    (XO (XI (XO (XI (XO (XI (XO (XI (XO (XI (XO
    XH))))))))))))))) :: [])) :: (((Zpos (XO (XO (XI (XO (XO (XO (XI (XO (XO
    (XO (XO (XI (XI (XI (XI (XI (XO XH)))))))))))))))))), ((Zpos (XI (XI (XO
    (XO (XO (XI (XI (XO (XI (XO (XI (XO (XI (XO
    XH))))))))))))))) :: [])) :: (((Zpos (XI (XO (XI (XO (XO (XO (XI (XO (XO
    (XO (XO (XI (XI (XI (XI (XI (XO XH)))))))))))))))))), ((Zpos (XO (XO (XI
    (XO (XO (XO (XO (XI (XI (XO (XI (XO (XI (XO
    XH))))))))))))))) :: [])) :: (((Zpos (XO (XI (XI (XO (XO (XO (XI (XO (XO
    (XO (XO (XI (XI (XI (XI (XI (XO XH)))))))))))))))))), ((Zpos (XO (XO (XI
    (XO (XO (XO (XO (XI (XI (XO (XI (XO (XI (XO
    XH))))))))))))))) :: [])) :: (((Zpos (XI (XI (XI (XO (XO (XO (XI (XO (XO
    (XO (XO (XI (XI (XI (XI (XI (XO XH)))))))))))))))))), ((Zpos (XI (XO (XO
    (XI (XI (XO (XO (XI (XI (XO (XI (XO (XI (XO
    XH))))))))))))))) :: [])) :: (((Zpos (XO (XO (XO (XI (XO (XO (XI (XO (XO
    (XO (XO (XI (XI (XI (XI (XI (XO XH)))))))))))))))))), ((Zpos (XI (XI (XO
    (XI (XO (XI (XO (XI (XI (XO (XI (XO (XI (XO
    XH))))))))))))))) :: [])) :: (((Zpos (XI (XO (XO (XI (XO (XO (XI (XO (XO
    (XO (XO (XI (XI (XI (XI (XI (XO XH)))))))))))))))))), ((Zpos (XI (XI (XO
    (XO (XI (XI (XO (XI (XI (XO (XI (XO (XI (XO
    XH))))))))))))))) :: [])) :: (((Zpos (XO (XI (XO (XI (XO (XO (XI (XO (XO
    (XO (XO (XI (XI (XI (XI (XI (XO XH)))))))))))))))))), ((Zpos (XO (XI (XO
    (XO (XO (XO (XI (XI (XI (XO (XI (XO (XI (XO
    XH))))))))))))))) :: [])) :: (((Zpos (XI (XI (XO (XI (XO (XO (XI (XO (XO
    (XO (XO (XI (XI (XI (XI (XI (XO XH)))))))))))))))))), ((Zpos (XO (XI (XI
    (XO (XI (XO (XO (XO (XI (XI (XI (XO (XI (XO
    XH))))))))))))))) :: [])) :: (((Zpos (XO (XO (XI (XI (XO (XO (XI (XO (XO
    (XO (XO (XI (XI (XI (XI (XI (XO XH)))))))))))))))))), ((Zpos (XO (XI (XI
    (XO (XO (XO (XO (XO (XO (XI (XI (XO (XI (XO
    XH))))))))))))))) :: [])) :: (((Zpos (XI (XO (XI (XI (XO (XO (XI (XO (XO
    (XO (XO (XI (XI (XI (XI (XI (XO XH)))))))))))))))))), ((Zpos (XI (XI (XI
    (XO (XI (XO (XO (XO (XI (XI (XI (XO (XI (XO
    XH))))))))))))))) :: [])) :: (((Zpos (XO (XI (XI (XI (XO (XO (XI (XO (XO
    (XO (XO (XI (XI (XI (XI (XI (XO XH)))))))))))))))))), ((Zpos (XI (XO (XO
    (XO (XI (XO (XI (XO (XO (XI (XI (XO (XI (XO
    XH))))))))))))))) :: [])) :: (((Zpos (XI (XI (XI (XI (XO (XO (XI (XO (XO
    (XO (XO (XI (XI (XI (XI (XI (XO XH)))))))))))))))))), ((Zpos (XO (XO (XI
    (XO (XI (XI (XI (XO (XO (XI (XI (XO (XI (XO
    XH))))))))))))))) :: [])) :: (((Zpos (XO (XO (XO (XO (XI (XO (XI (XO (XO
    (XO (XO (XI (XI (XI (XI (XI (XO XH)))))))))))))))))), ((Zpos (XI (XI (XI
    (XO (XO (XO (XO (XO (XO (XI (XO (XO (XI (XO
    XH))))))))))))))) :: [])) :: (((Zpos (XI (XO (XO (XO (XI (XO (XI (XO (XO
    (XO (XO (XI (XI (XI (XI (XI (XO XH)))))))))))))))))), ((Zpos (XO (XI (XI
    (XI (XO (XI (XI (XI (XO (XO (XO (XI (XI (XO
    XH))))))))))))))) :: [])) :: (((Zpos (XO (XI (XO (XO (XI (XO (XI (XO (XO
    (XO (XO (XI (XI (XI (XI (XI (XO XH)))))))))))))))))), ((Zpos (XO (XI (XI
    (XI (XO (XO (XI (XI (XI (XI (XI (XO (XI (XO
    XH))))))))))))))) :: [])) :: (((Zpos (XI (XI (XO (XO (XI (XO (XI (XO (XO
    (XO (XO (XI (XI (XI (XI (XI (XO XH)))))))))))))))))), ((Zpos (XO (XO (XI
    (XO (XI (XI (XI (XI (XI (XI (XI (XO (XI (XO
    XH))))))))))))))) :: [])) :: (((Zpos (XO (XO (XI (XO (XI (XO (XI (XO (XO
    (XO (XO (XI (XI (XI (XI (XI (XO XH)))))))))))))))))), ((Zpos (XI (XO (XI
    (XI (XO (XO (XO (XO (XO (XO (XO (XI (XI (XO
    XH))))))))))))))) :: [])) :: (((Zpos (XI (XO (XI (XO (XI (XO (XI (XO (XO
    (XO (XO (XI (XI (XI (XI (XI (XO XH)))))))))))))))))), ((Zpos (XI (XI (XO
    (XI (XO (XO (XO (XI (XI (XI (XI (XO (XI (XO
    XH))))))))))))))) :: [])) :: (((Zpos (XO (XI (XI (XO (XI (XO (XI (XO (XO
    (XO (XO (XI (XI (XI (XI (XI (XO XH)))))))))))))))))), ((Zpos (XO (XI (XO
    (XO (XI (XI (XO (XO (XO (XO (XO (XI (XI (XO
    XH))))))))))))))) :: [])) :: (((Zpos (XI (XI (XI (XO (XI (XO (XI (XO (XO
    (XO (XO (XI (XI (XI (XI (XI (XO XH)))))))))))))))))), ((Zpos (XI (XO (XO
    (XO (XI (XI (XO (XO (XO (XO (XO (XI (XI (XO
    XH))))))))))))))) :: [])) :: (((Zpos (XO (XO (XO (XI (XI (XO (XI (XO (XO
    (XO (XO (XI (XI (XI (XI (XI (XO XH)))))))))))))))))), ((Zpos (XO (XO (XI
    (XI (XO (XI (XO (XI (XO (XO (XO (XI (XI (XO
    XH))))))))))))))) :: [])) :: (((Zpos (XI (XO (XO (XI (XI (XO (XI (XO (XO
    (XO (XO (XI (XI (XI (XI (XI (XO XH)))))))))))))))))), ((Zpos (XO (XO (XI
    (XO (XO (XI (XI (XI (XO (XO (XI (XO (XI (XO (XO (XO (XO
    XH)))))))))))))))))) :: [])) :: (((Zpos (XO (XI (XO (XI (XI (XO (XI (XO
    (XO (XO (XO (XI (XI (XI (XI (XI (XO XH)))))))))))))))))), ((Zpos (XO (XI
    (XO (XO (XI (XI (XI (XI (XO (XO (XO (XI (XI (XO
    XH))))))))))))))) :: [])) :: (((Zpos (XI (XI (XO (XI (XI (XO (XI (XO (XO
    (XO (XO (XI (XI (XI (XI (XI (XO XH)))))))))))))))))), ((Zpos (XI (XI (XI
    (XO (XI (XI (XI (XI (XO (XO (XO (XI (XI (XO
    XH))))))))))))))) :: [])) :: (((Zpos (XO (XO (XI (XI (XI (XO (XI (XO (XO
    (XO (XO (XI (XI (XI (XI (XI (XO XH)))))))))))))))))), ((Zpos (XO (XI (XI
    (XO (XO (XO (XO (XO (XI (XO (XO (XI (XI (XO
    XH))))))))))))))) :: [])) :: (((Zpos (XI (XO (XI (XI (XI (XO (XI (XO (XO
    (XO (XO (XI (XI (XI (XI (XI (XO XH)))))))))))))))))), ((Zpos (XO (XI (XO
    (XI (XI (XO (XO (XO (XI (XO (XO (XI (XI (XO
    XH))))))))))))))) :: [])) :: (((Zpos (XO (XI (XI (XI (XI (XO (XI (XO (XO
    (XO (XO (XI (XI (XI (XI (XI (XO XH)))))))))))))))))), ((Zpos (XO (XI (XO
    (XO (XO (XI (XO (XO (XI (XO (XO (XI (XI (XO
    XH))))))))))))))) :: [])) :: (((Zpos (XI (XI (XI (XI (XI (XO (XI (XO (XO
    (XO (XO (XI (XI (XI (XI (XI (XO XH)))))))))))))))))), ((Zpos (XO (XI (XO
    (XO (XO (XI (XI (XO (XI (XO (XO (XI (XI (XO
    XH))))))))))))))) :: [])) :: (((Zpos (XO (XO (XO (XO (XO (XI (XI (XO (XO
    (XO (XO (XI (XI (XI (XI (XI (XO XH)))))))))))))))))), ((Zpos (XO (XO (XO
    (XI (XO (XI (XO (XI (XO (XI (XI (XO (XI (XO (XO (XO (XO
    XH)))))))))))))))))) :: [])) :: (((Zpos (XI (XO (XO (XO (XO (XI (XI (XO
    (XO (XO (XO (XI (XI (XI (XI (XI (XO XH)))))))))))))))))), ((Zpos (XO (XI
    (XO (XI (XO (XI (XI (XI (XO (XI (XI (XO (XI (XO (XO (XO (XO
    XH)))))))))))))))))) :: [])) :: (((Zpos (XO (XI (XO (XO (XO (XI (XI (XO
    (XO (XO (XO (XI (XI (XI (XI (XI (XO XH)))))))))))))))))), ((Zpos (XO (XO
    (XI (XI (XO (XI (XI (XI (XI (XO (XO (XI (XI (XO
    XH))))))))))))))) :: [])) :: (((Zpos (XI (XI (XO (XO (XO (XI (XI (XO (XO
    (XO (XO (XI (XI (XI (XI (XI (XO XH)))))))))))))))))), ((Zpos (XI (XI (XO
    (XI (XI (XO (XO (XO (XO (XI (XO (XI (XI (XO
    XH))))))))))))))) :: [])) :: (((Zpos (XO (XO (XI (XO (XO (XI (XI (XO (XO
    (XO (XO (XI (XI (XI (XI (XI (XO XH)))))))))))))))))), ((Zpos (XI (XI (XI
    (XO (XO (XI (XO (XO (XO (XI (XO (XI (XI (XO
    XH))))))))))))))) :: [])) :: (((Zpos (XI (XO (XI (XO (XO (XI (XI (XO (XO
    (XO (XO (XI (XI (XI (XI (XI (XO XH)))))))))))))))))), ((Zpos (XO (XO (XO
    (XI (XI (XO (XI (XI (XI (XO (XO (XI (XI (XO
    XH))))))))))))))) :: [])) :: (((Zpos (XO (XI (XI (XO (XO (XI (XI (XO (XO
    (XO (XO (XI (XI (XI (XI (XI (XO XH)))))))))))))))))), ((Zpos (XO (XI (XI
    (XO (XO (XI (XI (XO (XO (XI (XO (XI (XI (XO
    XH))))))))))))))) :: [])) :: (((Zpos (XI (XI (XI (XO (XO (XI (XI (XO (XO
    (XO (XO (XI (XI (XI (XI (XI (XO XH)))))))))))))))))), ((Zpos (XO (XI (XI
    (XI (XO (XI (XI (XI (XO (XI (XI (XO (XI
    XH)))))))))))))) :: [])) :: (((Zpos (XO (XO (XO (XI (XO (XI (XI (XO (XO
    (XO (XO (XI (XI (XI (XI (XI (XO XH)))))))))))))))))), ((Zpos (XO (XO (XI
    (XI (XI (XI (XI (XI (XO (XI (XI (XO (XI
    XH)))))))))))))) :: [])) :: (((Zpos (XI (XO (XO (XI (XO (XI (XI (XO (XO
    (XO (XO (XI (XI (XI (XI (XI (XO XH)))))))))))))))))), ((Zpos (XO (XO (XO
    (XI (XO (XO (XO (XO (XI (XI (XO (XI (XI (XO
    XH))))))))))))))) :: [])) :: (((Zpos (XO (XI (XO (XI (XO (XI (XI (XO (XO
    (XO (XO (XI (XI (XI (XI (XI (XO XH)))))))))))))))))), ((Zpos (XO (XI (XI
    (XI (XI (XI (XO (XO (XI (XI (XO (XI (XI (XO
    XH))))))))))))))) :: [])) :: (((Zpos (XI (XI (XO (XI (XO (XI (XI (XO (XO
    (XO (XO (XI (XI (XI (XI (XI (XO XH)))))))))))))))))), ((Zpos (XO (XI (XI
    (XI (XI (XI (XO (XO (XI (XI (XO (XI (XI (XO
    XH))))))))))))))) :: [])) :: (((Zpos (XO (XO (XI (XI (XO (XI (XI (XO (XO
    (XO (XO (XI (XI (XI (XI (XI (XO XH)))))))))))))))))), ((Zpos (XO (XO (XO
    (XI (XO (XO (XI (XI (XI (XO (XO (XI (XI (XO (XO (XO (XO
    XH)))))))))))))))))) :: [])) :: (((Zpos (XI (XO (XI (XI (XO (XI (XI (XO
    (XO (XO (XO (XI (XI (XI (XI (XI (XO XH)))))))))))))))))), ((Zpos (XI (XI
    (XO (XO (XO (XO (XI (XI (XI (XI (XO (XI (XI (XO
    XH))))))))))))))) :: [])) :: (((Zpos (XO (XI (XI (XI (XO (XI (XI (XO (XO
    (XO (XO (XI (XI (XI (XI (XI (XO XH)))))))))))))))))), ((Zpos (XO (XO (XO
    (XI (XI (XO (XI (XI (XI (XI (XO (XI (XI (XO
    XH))))))))))))))) :: [])) :: (((Zpos (XI (XI (XI (XI (XO (XI (XI (XO (XO
    (XO (XO (XI (XI (XI (XI (XI (XO XH)))))))))))))))))), ((Zpos (XI (XI (XI
    (XO (XO (XI (XI (XI (XI (XI (XO (XI (XI (XO
    XH))))))))))))))) :: [])) :: (((Zpos (XO (XO (XO (XO (XI (XI (XI (XO (XO
    (XO (XO (XI (XI (XI (XI (XI (XO XH)))))))))))))))))), ((Zpos (XI (XI (XO
    (XO (XI (XI (XI (XI (XI (XI (XO (XI (XI (XO
    XH))))))))))))))) :: [])) :: (((Zpos (XI (XO (XO (XO (XI (XI (XI (XO (XO
    (XO (XO (XI (XI (XI (XI (XI (XO XH)))))))))))))))))), ((Zpos (XO (XO (XO
    (XI (XI (XO (XO (XO (XI (XI (XO (XI (XI (XO (XO (XO (XO
    XH)))))))))))))))))) :: [])) :: (((Zpos (XO (XI (XO (XO (XI (XI (XI (XO
    (XO (XO (XO (XI (XI (XI (XI (XI (XO XH)))))))))))))))))), ((Zpos (XI (XI
    (XI (XI (XI (XI (XI (XI (XI (XI (XO (XI (XI (XO
    XH))))))))))))))) :: [])) :: (((Zpos (XI (XI (XO (XO (XI (XI (XI (XO (XO
    (XO (XO (XI (XI (XI (XI (XI (XO XH)))))))))))))))))), ((Zpos (XO (XI (XI
    (XO (XO (XO (XO (XO (XO (XO (XI (XI (XI (XO
    XH))))))))))))))) :: [])) :: (((Zpos (XO (XO (XI (XO (XI (XI (XI (XO (XO
    (XO (XO (XI (XI (XI (XI (XI (XO XH)))))))))))))))))), ((Zpos (XI (XI (XO
    (XO (XI (XO (XI (XO (XI (XI (XI (XI (XI (XO
    XH))))))))))))))) :: [])) :: (((Zpos (XI (XO (XI (XO (XI (XI (XI (XO (XO
    (XO (XO (XI (XI (XI (XI (XI (XO XH)))))))))))))))))), ((Zpos (XO (XI (XO
    (XO (XO (XI (XO (XO (XO (XO (XI (XI (XI (XO
    XH))))))))))))))) :: [])) :: (((Zpos (XO (XI (XI (XO (XI (XI (XI (XO (XO
    (XO (XO (XI (XI (XI (XI (XI (XO XH)))))))))))))))))), ((Zpos (XI (XO (XO
    (XO (XO (XO (XO (XI (XI (XI (XI (XO (XI
    XH)))))))))))))) :: [])) :: (((Zpos (XI (XI (XI (XO (XI (XI (XI (XO (XO
    (XO (XO (XI (XI (XI (XI (XI (XO XH)))))))))))))))))), ((Zpos (XO (XO (XO
    (XO (XO (XI (XI (XO (XO (XO (XI (XI (XI (XO
    XH))))))))))))))) :: [])) :: (((Zpos (XO (XO (XO (XI (XI (XI (XI (XO (XO
    (XO (XO (XI (XI (XI (XI (XI (XO XH)))))))))))))))))), ((Zpos (XO (XI (XI
    (XI (XO (XI (XI (XO (XO (XO (XI (XI (XI (XO
    XH))))))))))))))) :: [])) :: (((Zpos (XI (XO (XO (XI (XI (XI (XI (XO (XO
    (XO (XO (XI (XI (XI (XI (XI (XO XH)))))))))))))))))), ((Zpos (XO (XO (XO
    (XO (XO (XO (XI (XI (XO (XO (XI (XI (XI (XO
    XH))))))))))))))) :: [])) :: (((Zpos (XO (XI (XO (XI (XI (XI (XI (XO (XO
    (XO (XO (XI (XI (XI (XI (XI (XO XH)))))))))))))))))), ((Zpos (XI (XO (XI
    (XI (XO (XO (XO (XI (XO (XO (XI (XI (XI (XO
    XH))))))))))))))) :: [])) :: (((Zpos (XI (XI (XO (XI (XI (XI (XI (XO (XO
    (XO (XO (XI (XI (XI (XI (XI (XO XH)))))))))))))))))), ((Zpos (XO (XO (XI
    (XO (XO (XI (XI (XI (XI (XO (XI (XI (XI (XO (XO (XO (XO
    XH)))))))))))))))))) :: [])) :: (((Zpos (XO (XO (XI (XI (XI (XI (XI (XO
    (XO (XO (XO (XI (XI (XI (XI (XI (XO XH)))))))))))))))))), ((Zpos (XI (XI
    (XO (XO (XO (XO (XI (XO (XI (XO (XI (XI (XI (XO
    XH))))))))))))))) :: [])) :: (((Zpos (XI (XO (XI (XI (XI (XI (XI (XO (XO
    (XO (XO (XI (XI (XI (XI (XI (XO XH)))))))))))))))))), ((Zpos (XO (XI (XI
    (XO (XO (XI (XI (XI (XI (XO (XI (XI (XI (XO (XO (XO (XO
    XH)))))))))))))))))) :: [])) :: (((Zpos (XO (XI (XI (XI (XI (XI (XI (XO
    (XO (XO (XO (XI (XI (XI (XI (XI (XO XH)))))))))))))))))), ((Zpos (XO (XI
    (XI (XI (XO (XI (XI (XO (XI (XO (XI (XI (XI (XO
    XH))))))))))))))) :: [])) :: (((Zpos (XI (XI (XI (XI (XI (XI (XI (XO (XO
    (XO (XO (XI (XI (XI (XI (XI (XO XH)))))))))))))))))), ((Zpos (XI (XI (XO
    (XI (XO (XI (XI (XO (XI (XO (XI (XI (XI (XO
    XH))))))))))))))) :: [])) :: (((Zpos (XO (XO (XO (XO (XO (XO (XO (XI (XO
    (XO (XO (XI (XI (XI (XI (XI (XO XH)))))))))))))))))), ((Zpos (XO (XO (XI
    (XI (XI (XI (XI (XO (XI (XO (XI (XI (XI (XO
    XH))))))))))))))) :: [])) :: (((Zpos (XI (XO (XO (XO (XO (XO (XO (XI (XO
    (XO (XO (XI (XI (XI (XI (XI (XO XH)))))))))))))))))), ((Zpos (XI (XO (XO
    (XO (XO (XI (XI (XI (XI (XO (XI (XI (XI (XO
    XH))))))))))))))) :: [])) :: (((Zpos (XO (XI (XO (XO (XO (XO (XO (XI (XO
    (XO (XO (XI (XI (XI (XI (XI (XO XH)))))))))))))))))), ((Zpos (XO (XI (XO
    (XO (XO (XI (XI (XI (XI (XO (XI (XI (XI (XO
    XH))))))))))))))) :: [])) :: (((Zpos (XI (XI (XO (XO (XO (XO (XO (XI (XO
    (XO (XO (XI (XI (XI (XI (XI (XO XH)))))))))))))))))), ((Zpos (XI (XI (XI
    (XI (XO (XI (XO (XO (XO (XO (XO (XI (XI
    XH)))))))))))))) :: [])) :: (((Zpos (XO (XO (XI (XO (XO (XO (XO (XI (XO
    (XO (XO (XI (XI (XI (XI (XI (XO XH)))))))))))))))))), ((Zpos (XI (XO (XI
    (XI (XI (XI (XI (XI (XI (XO (XI (XI (XI (XO
    XH))))))))))))))) :: [])) :: (((Zpos (XI (XO (XI (XO (XO (XO (XO (XI (XO
    (XO (XO (XI (XI (XI (XI (XI (XO XH)))))))))))))))))), ((Zpos (XO (XO (XO
    (XI (XO (XI (XO (XO (XO (XI (XI (XI (XI (XO
    XH))))))))))))))) :: [])) :: (((Zpos (XO (XI (XI (XO (XO (XO (XO (XI (XO
    (XO (XO (XI (XI (XI (XI (XI (XO XH)))))))))))))))))), ((Zpos (XI (XO (XI
    (XI (XI (XI (XO (XO (XO (XI (XI (XI (XI (XO
    XH))))))))))))))) :: [])) :: (((Zpos (XI (XI (XI (XO (XO (XO (XO (XI (XO
    (XO (XO (XI (XI (XI (XI (XI (XO XH)))))))))))))))))), ((Zpos (XI (XO (XO
    (XI (XO (XI (XI (XO (XO (XI (XI (XI (XI (XO
    XH))))))))))))))) :: [])) :: (((Zpos (XO (XO (XO (XI (XO (XO (XO (XI (XO
    (XO (XO (XI (XI (XI (XI (XI (XO XH)))))))))))))))))), ((Zpos (XO (XI (XO
    (XO (XO (XI (XI (XO (XO (XO (XO (XI (XI
    XH)))))))))))))) :: [])) :: (((Zpos (XI (XO (XO (XI (XO (XO (XO (XI (XO
    (XO (XO (XI (XI (XI (XI (XI (XO XH)))))))))))))))))), ((Zpos (XI (XI (XO
    (XO (XO (XO (XO (XI (XI (XO (XO (XO (XO (XI (XO (XO (XO
    XH)))))))))))))))))) :: [])) :: (((Zpos (XO (XI (XO (XI (XO (XO (XO (XI
    (XO (XO (XO (XI (XI (XI (XI (XI (XO XH)))))))))))))))))), ((Zpos (XO (XO
    (XI (XI (XI (XI (XI (XO (XO (XO (XO (XI (XI
    XH)))))))))))))) :: [])) :: (((Zpos (XI (XI (XO (XI (XO (XO (XO (XI (XO
    (XO (XO (XI (XI (XI (XI (XI (XO XH)))))))))))))))))), ((Zpos (XO (XO (XO
    (XO (XI (XI (XO (XI (XO (XI (XI (XI (XI (XO
    XH))))))))))))))) :: [])) :: (((Zpos (XO (XO (XI (XI (XO (XO (XO (XI (XO
    (XO (XO (XI (XI (XI (XI (XI (XO XH)))))))))))))))))), ((Zpos (XI (XI (XO
    (XO (XI (XI (XO (XI (XO (XI (XI (XI (XI (XO
    XH))))))))))))))) :: [])) :: (((Zpos (XI (XO (XI (XI (XO (XO (XO (XI (XO
    (XO (XO (XI (XI (XI (XI (XI (XO XH)))))))))))))))))), ((Zpos (XO (XI (XI
    (XO (XI (XI (XO (XI (XO (XI (XI (XI (XI (XO
    XH))))))))))))))) :: [])) :: (((Zpos (XO (XI (XI (XI (XO (XO (XO (XI (XO
    (XO (XO (XI (XI (XI (XI (XI (XO XH)))))))))))))))))), ((Zpos (XO (XI (XO
    (XI (XO (XO (XI (XI (XO (XI (XI (XI (XI (XO
    XH))))))))))))))) :: [])) :: (((Zpos (XI (XI (XI (XI (XO (XO (XO (XI (XO
    (XO (XO (XI (XI (XI (XI (XI (XO XH)))))))))))))))))), ((Zpos (XO (XI (XO
    (XO (XI (XO (XO (XI (XI (XI (XO (XO (XO (XI (XO (XI (XO
    XH)))))))))))))))))) :: [])) :: (((Zpos (XO (XO (XO (XO (XI (XO (XO (XI
    (XO (XO (XO (XI (XI (XI (XI (XI (XO XH)))))))))))))))))), ((Zpos (XO (XI
    (XI (XI (XI (XI (XI (XI (XO (XI (XI (XI (XI (XO
    XH))))))))))))))) :: [])) :: (((Zpos (XI (XO (XO (XO (XI (XO (XO (XI (XO
    (XO (XO (XI (XI (XI (XI (XI (XO XH)))))))))))))))))), ((Zpos (XI (XO (XO
    (XO (XI (XI (XO (XO (XI (XI (XO (XO (XO (XI (XO (XO (XO
    XH)))))))))))))))))) :: [])) :: (((Zpos (XO (XI (XO (XO (XI (XO (XO (XI
    (XO (XO (XO (XI (XI (XI (XI (XI (XO XH)))))))))))))))))), ((Zpos (XI (XO
    (XO (XO (XI (XI (XO (XO (XI (XI (XO (XO (XO (XI (XO (XO (XO
    XH)))))))))))))))))) :: [])) :: (((Zpos (XI (XI (XO (XO (XI (XO (XO (XI
    (XO (XO (XO (XI (XI (XI (XI (XI (XO XH)))))))))))))))))), ((Zpos (XI (XO
    (XO (XO (XO (XO (XO (XO (XO (XI (XO (XO (XO (XO (XO
    XH)))))))))))))))) :: [])) :: (((Zpos (XO (XO (XI (XO (XI (XO (XO (XI (XO
    (XO (XO (XI (XI (XI (XI (XI (XO XH)))))))))))))))))), ((Zpos (XO (XI (XO
    (XO (XO (XI (XO (XO (XI (XI (XI (XI (XI (XO
    XH))))))))))))))) :: [])) :: (((Zpos (XI (XO (XI (XO (XI (XO (XO (XI (XO
    (XO (XO (XI (XI (XI (XI (XI (XO XH)))))))))))))))))), ((Zpos (XO (XI (XO
    (XO (XO (XI (XO (XO (XI (XI (XI (XI (XI (XO
    XH))))))))))))))) :: [])) :: (((Zpos (XO (XI (XI (XO (XI (XO (XO (XI (XO
    (XO (XO (XI (XI (XI (XI (XI (XO XH)))))))))))))))))), ((Zpos (XI (XI (XI
    (XO (XO (XO (XI (XI (XO (XO (XO (XI (XI
    XH)))))))))))))) :: [])) :: (((Zpos (XI (XI (XI (XO (XI (XO (XO (XI (XO
    (XO (XO (XI (XI (XI (XI (XI (XO XH)))))))))))))))))), ((Zpos (XO (XO (XO
    (XI (XI (XI (XO (XI (XO (XI (XO (XO (XI (XI (XO (XO (XO
    XH)))))))))))))))))) :: [])) :: (((Zpos (XO (XO (XO (XI (XI (XO (XO (XI
    (XO (XO (XO (XI (XI (XI (XI (XI (XO XH)))))))))))))))))), ((Zpos (XO (XI
    (XO (XI (XI (XO (XI (XI (XI (XO (XO (XO (XO (XI (XI (XO (XO
    XH)))))))))))))))))) :: [])) :: (((Zpos (XI (XO (XO (XI (XI (XO (XO (XI
    (XO (XO (XO (XI (XI (XI (XI (XI (XO XH)))))))))))))))))), ((Zpos (XO (XI
    (XO (XO (XO (XI (XI (XO (XI (XI (XI (XI (XI (XO
    XH))))))))))))))) :: [])) :: (((Zpos (XO (XI (XO (XI (XI (XO (XO (XI (XO
    (XO (XO (XI (XI (XI (XI (XI (XO XH)))))))))))))))))), ((Zpos (XI (XI (XO
    (XI (XO (XI (XI (XO (XI (XI (XI (XI (XI (XO
    XH))))))))))))))) :: [])) :: (((Zpos (XI (XI (XO (XI (XI (XO (XO (XI (XO
    (XO (XO (XI (XI (XI (XI (XI (XO XH)))))))))))))))))), ((Zpos (XI (XI (XO
    (XO (XO (XI (XI (XI (XO (XO (XO (XI (XI
    XH)))))))))))))) :: [])) :: (((Zpos (XO (XO (XI (XI (XI (XO (XO (XI (XO
    (XO (XO (XI (XI (XI (XI (XI (XO XH)))))))))))))))))), ((Zpos (XO (XI (XO
    (XI (XI (XO (XO (XI (XI (XI (XI (XI (XI (XO
    XH))))))))))))))) :: [])) :: (((Zpos (XI (XO (XI (XI (XI (XO (XO (XI (XO
    (XO (XO (XI (XI (XI (XI (XI (XO XH)))))))))))))))))), ((Zpos (XI (XO (XI
    (XI (XO (XO (XI (XI (XI (XI (XI (XI (XI (XO
    XH))))))))))))))) :: [])) :: (((Zpos (XO (XI (XI (XI (XI (XO (XO (XI (XO
    (XO (XO (XI (XI (XI (XI (XI (XO XH)))))))))))))))))), ((Zpos (XI (XI (XI
    (XO (XI (XO (XI (XI (XI (XI (XI (XI (XI (XO
    XH))))))))))))))) :: [])) :: (((Zpos (XI (XI (XI (XI (XI (XO (XO (XI (XO
    (XO (XO (XI (XI (XI (XI (XI (XO XH)))))))))))))))))), ((Zpos (XI (XO (XO
    (XI (XI (XI (XI (XI (XI (XI (XI (XI (XI (XO
    XH))))))))))))))) :: [])) :: (((Zpos (XO (XO (XO (XO (XO (XI (XO (XI (XO
    (XO (XO (XI (XI (XI (XI (XI (XO XH)))))))))))))))))), ((Zpos (XI (XO (XO
    (XO (XO (XO (XO (XI (XO (XO (XO (XO (XO (XI
    XH))))))))))))))) :: [])) :: (((Zpos (XI (XO (XO (XO (XO (XI (XO (XI (XO
    (XO (XO (XI (XI (XI (XI (XI (XO XH)))))))))))))))))), ((Zpos (XO (XI (XO
    (XI (XI (XI (XO (XO (XI (XO (XO (XI (XI
    XH)))))))))))))) :: [])) :: (((Zpos (XO (XI (XO (XO (XO (XI (XO (XI (XO
    (XO (XO (XI (XI (XI (XI (XI (XO XH)))))))))))))))))), ((Zpos (XO (XO (XI
    (XI (XI (XO (XO (XO (XI (XO (XO (XI (XI
    XH)))))))))))))) :: [])) :: (((Zpos (XI (XI (XO (XO (XO (XI (XO (XI (XO
    (XO (XO (XI (XI (XI (XI (XI (XO XH)))))))))))))))))), ((Zpos (XO (XO (XI
    (XO (XI (XO (XO (XI (XO (XO (XO (XO (XO (XI
    XH))))))))))))))) :: [])) :: (((Zpos (XO (XO (XI (XO (XO (XI (XO (XI (XO
    (XO (XO (XI (XI (XI (XI (XI (XO XH)))))))))))))))))), ((Zpos (XO (XO (XI
    (XO (XI (XO (XI (XI (XO (XI (XI (XO (XO (XI (XO (XO (XO
    XH)))))))))))))))))) :: [])) :: (((Zpos (XI (XO (XI (XO (XO (XI (XO (XI
    (XO (XO (XO (XI (XI (XI (XI (XI (XO XH)))))))))))))))))), ((Zpos (XI (XI
    (XI (XO (XO (XO (XI (XI (XO (XO (XO (XO (XO (XI
    XH))))))))))))))) :: [])) :: (((Zpos (XO (XI (XI (XO (XO (XI (XO (XI (XO
    (XO (XO (XI (XI (XI (XI (XI (XO XH)))))))))))))))))), ((Zpos (XO (XO (XO
    (XI (XO (XO (XI (XO (XI (XO (XO (XO (XO (XI
    XH))))))))))))))) :: [])) :: (((Zpos (XI (XI (XI (XO (XO (XI (XO (XI (XO
    (XO (XO (XI (XI (XI (XI (XI (XO XH)))))))))))))))))), ((Zpos (XO (XO (XI
    (XI (XO (XO (XI (XO (XI (XO (XO (XO (XO (XI
    XH))))))))))))))) :: [])) :: (((Zpos (XO (XO (XO (XI (XO (XI (XO (XI (XO
    (XO (XO (XI (XI (XI (XI (XI (XO XH)))))))))))))))))), ((Zpos (XO (XI (XI
    (XI (XO (XO (XI (XO (XI (XO (XO (XO (XO (XI
    XH))))))))))))))) :: [])) :: (((Zpos (XI (XO (XO (XI (XO (XI (XO (XI (XO
    (XO (XO (XI (XI (XI (XI (XI (XO XH)))))))))))))))))), ((Zpos (XO (XO (XI
    (XI (XO (XO (XI (XO (XI (XO (XO (XO (XO (XI
    XH))))))))))))))) :: [])) :: (((Zpos (XO (XI (XO (XI (XO (XI (XO (XI (XO
    (XO (XO (XI (XI (XI (XI (XI (XO XH)))))))))))))))))), ((Zpos (XO (XI (XO
    (XI (XI (XI (XI (XO (XI (XO (XO (XO (XO (XI
    XH))))))))))))))) :: [])) :: (((Zpos (XI (XI (XO (XI (XO (XI (XO (XI (XO
    (XO (XO (XI (XI (XI (XI (XI (XO XH)))))))))))))))))), ((Zpos (XO (XI (XI
    (XI (XO (XO (XO (XI (XI (XO (XO (XO (XO (XI
    XH))))))))))))))) :: [])) :: (((Zpos (XO (XO (XI (XI (XO (XI (XO (XI (XO
    (XO (XO (XI (XI (XI (XI (XI (XO XH)))))))))))))))))), ((Zpos (XO (XI (XO
    (XO (XI (XI (XO (XI (XI (XO (XO (XO (XO (XI
    XH))))))))))))))) :: [])) :: (((Zpos (XI (XO (XI (XI (XO (XI (XO (XI (XO
    (XO (XO (XI (XI (XI (XI (XI (XO XH)))))))))))))))))), ((Zpos (XO (XO (XI
    (XO (XO (XI (XO (XI (XI (XO (XO (XO (XO (XI
    XH))))))))))))))) :: [])) :: (((Zpos (XO (XI (XI (XI (XO (XI (XO (XI (XO
    (XO (XO (XI (XI (XI (XI (XI (XO XH)))))))))))))))))), ((Zpos (XI (XI (XI
    (XI (XO (XI (XO (XI (XI (XO (XO (XO (XO (XI
    XH))))))))))))))) :: [])) :: (((Zpos (XI (XI (XI (XI (XO (XI (XO (XI (XO
    (XO (XO (XI (XI (XI (XI (XI (XO XH)))))))))))))))))), ((Zpos (XO (XI (XI
    (XI (XI (XO (XI (XI (XI (XO (XO (XO (XO (XI
    XH))))))))))))))) :: [])) :: (((Zpos (XO (XO (XO (XO (XI (XI (XO (XI (XO
    (XO (XO (XI (XI (XI (XI (XI (XO XH)))))))))))))))))), ((Zpos (XO (XI (XO
    (XO (XI (XI (XI (XI (XI (XO (XO (XO (XO (XI
    XH))))))))))))))) :: [])) :: (((Zpos (XI (XO (XO (XO (XI (XI (XO (XI (XO
    (XO (XO (XI (XI (XI (XI (XI (XO XH)))))))))))))))))), ((Zpos (XO (XI (XI
    (XO (XI (XI (XI (XI (XI (XO (XO (XO (XO (XI
    XH))))))))))))))) :: [])) :: (((Zpos (XO (XI (XO (XO (XI (XI (XO (XI (XO
    (XO (XO (XI (XI (XI (XI (XI (XO XH)))))))))))))))))), ((Zpos (XO (XO (XO
    (XO (XI (XO (XO (XO (XO (XI (XO (XO (XO (XI
    XH))))))))))))))) :: [])) :: (((Zpos (XI (XI (XO (XO (XI (XI (XO (XI (XO
    (XO (XO (XI (XI (XI (XI (XI (XO XH)))))))))))))))))), ((Zpos (XI (XI (XO
    (XI (XI (XO (XO (XO (XO (XI (XO (XO (XO (XI
    XH))))))))))))))) :: [])) :: (((Zpos (XO (XO (XI (XO (XI (XI (XO (XI (XO
    (XO (XO (XI (XI (XI (XI (XI (XO XH)))))))))))))))))), ((Zpos (XI (XO (XI
    (XI (XI (XO (XI (XO (XO (XI (XO (XO (XO (XI
    XH))))))))))))))) :: [])) :: (((Zpos (XI (XO (XI (XO (XI (XI (XO (XI (XO
    (XO (XO (XI (XI (XI (XI (XI (XO XH)))))))))))))))))), ((Zpos (XI (XO (XO
    (XO (XI (XI (XO (XI (XO (XI (XO (XO (XO (XI
    XH))))))))))))))) :: [])) :: (((Zpos (XO (XI (XI (XO (XI (XI (XO (XI (XO
    (XO (XO (XI (XI (XI (XI (XI (XO XH)))))))))))))))))), ((Zpos (XO (XO (XI
    (XO (XI (XO (XI (XI (XO (XI (XO (XO (XO (XI
    XH))))))))))))))) :: [])) :: (((Zpos (XI (XI (XI (XO (XI (XI (XO (XI (XO
    (XO (XO (XI (XI (XI (XI (XI (XO XH)))))))))))))))))), ((Zpos (XO (XO (XO
    (XO (XI (XO (XI (XO (XI (XI (XO (XO (XO (XI
    XH))))))))))))))) :: [])) :: (((Zpos (XO (XO (XO (XI (XI (XI (XO (XI (XO
    (XO (XO (XI (XI (XI (XI (XI (XO XH)))))))))))))))))), ((Zpos (XO (XO (XI
    (XI (XO (XO (XO (XO (XI (XI (XO (XI (XO (XI (XO (XO (XO
    XH)))))))))))))))))) :: [])) :: (((Zpos (XI (XO (XO (XI (XI (XI (XO (XI
    (XO (XO (XO (XI (XI (XI (XI (XI (XO XH)))))))))))))))))), ((Zpos (XI (XO
    (XI (XI (XI (XI (XO (XO (XI (XI (XO (XO (XO (XI
    XH))))))))))))))) :: [])) :: (((Zpos (XO (XI (XO (XI (XI (XI (XO (XI (XO
    (XO (XO (XI (XI (XI (XI (XI (XO XH)))))))))))))))))), ((Zpos (XO (XO (XI
    (XI (XI (XI (XI (XI (XO (XI (XO (XO (XO (XI
    XH))))))))))))))) :: [])) :: (((Zpos (XI (XI (XO (XI (XI (XI (XO (XI (XO
    (XO (XO (XI (XI (XI (XI (XI (XO XH)))))))))))))))))), ((Zpos (XO (XO (XO
    (XI (XO (XI (XI (XO (XI (XI (XO (XO (XO (XI
    XH))))))))))))))) :: [])) :: (((Zpos (XO (XO (XI (XI (XI (XI (XO (XI (XO
    (XO (XO (XI (XI (XI (XI (XI (XO XH)))))))))))))))))), ((Zpos (XI (XI (XO
    (XO (XO (XO (XO (XI (XI (XI (XO (XO (XO (XI
    XH))))))))))))))) :: [])) :: (((Zpos (XI (XO (XI (XI (XI (XI (XO (XI (XO
    (XO (XO (XI (XI (XI (XI (XI (XO XH)))))))))))))))))), ((Zpos (XO (XO (XI
    (XO (XO (XI (XI (XI (XI (XI (XO (XO (XO (XI
    XH))))))))))))))) :: [])) :: (((Zpos (XO (XI (XI (XI (XI (XI (XO (XI (XO
    (XO (XO (XI (XI (XI (XI (XI (XO XH)))))))))))))))))), ((Zpos (XI (XO (XO
    (XO (XI (XI (XI (XI (XI (XI (XO (XI (XO (XI (XO (XO (XO
    XH)))))))))))))))))) :: [])) :: (((Zpos (XI (XI (XI (XI (XI (XI (XO (XI
    (XO (XO (XO (XI (XI (XI (XI (XI (XO XH)))))))))))))))))), ((Zpos (XO (XI
    (XO (XO (XO (XI (XO (XO (XO (XO (XI (XO (XO (XI
    XH))))))))))))))) :: [])) :: (((Zpos (XO (XO (XO (XO (XO (XO (XI (XI (XO
    (XO (XO (XI (XI (XI (XI (XI (XO XH)))))))))))))))))), ((Zpos (XI (XO (XI
    (XO (XO (XO (XI (XI (XI (XI (XO (XO (XO (XI
    XH))))))))))))))) :: [])) :: (((Zpos (XI (XO (XO (XO (XO (XO (XI (XI (XO
    (XO (XO (XI (XI (XI (XI (XI (XO XH)))))))))))))))))), ((Zpos (XI (XO (XO
    (XI (XO (XI (XO (XI (XI (XI (XO (XO (XO (XI
    XH))))))))))))))) :: [])) :: (((Zpos (XO (XI (XO (XO (XO (XO (XI (XI (XO
    (XO (XO (XI (XI (XI (XI (XI (XO XH)))))))))))))))))), ((Zpos (XO (XI (XI
    (XI (XO (XI (XO (XO (XO (XI (XO (XI (XI
    XH)))))))))))))) :: [])) :: (((Zpos (XI (XI (XO (XO (XO (XO (XI (XI (XO
    (XO (XO (XI (XI (XI (XI (XI (XO XH)))))))))))))))))), ((Zpos (XI (XO (XO
    (XI (XO (XI (XI (XO (XO (XO (XI (XO (XO (XI
    XH))))))))))))))) :: [])) :: (((Zpos (XO (XO (XI (XO (XO (XO (XI (XI (XO
    (XO (XO (XI (XI (XI (XI (XI (XO XH)))))))))))))))))), ((Zpos (XO (XI (XI
    (XI (XI (XI (XI (XO (XO (XO (XI (XO (XO (XI
    XH))))))))))))))) :: [])) :: (((Zpos (XI (XO (XI (XO (XO (XO (XI (XI (XO
    (XO (XO (XI (XI (XI (XI (XI (XO XH)))))))))))))))))), ((Zpos (XI (XO (XI
    (XI (XI (XO (XO (XI (XO (XO (XI (XO (XO (XI
    XH))))))))))))))) :: [])) :: (((Zpos (XO (XI (XI (XO (XO (XO (XI (XI (XO
    (XO (XO (XI (XI (XI (XI (XI (XO XH)))))))))))))))))), ((Zpos (XI (XI (XI
    (XO (XI (XI (XI (XO (XO (XO (XI (XO (XO (XI
    XH))))))))))))))) :: [])) :: (((Zpos (XI (XI (XI (XO (XO (XO (XI (XI (XO
    (XO (XO (XI (XI (XI (XI (XI (XO XH)))))))))))))))))), ((Zpos (XO (XO (XI
    (XI (XO (XI (XI (XO (XO (XI (XO (XI (XI
    XH)))))))))))))) :: [])) :: (((Zpos (XO (XO (XO (XI (XO (XO (XI (XI (XO
    (XO (XO (XI (XI (XI (XI (XI (XO XH)))))))))))))))))), ((Zpos (XI (XI (XI
    (XI (XO (XO (XI (XO (XI (XO (XI (XO (XO (XI
    XH))))))))))))))) :: [])) :: (((Zpos (XI (XO (XO (XI (XO (XO (XI (XI (XO
    (XO (XO (XI (XI (XI (XI (XI (XO XH)))))))))))))))))), ((Zpos (XO (XO (XI
    (XI (XO (XI (XI (XO (XI (XO (XI (XO (XO (XI
    XH))))))))))))))) :: [])) :: (((Zpos (XO (XI (XO (XI (XO (XO (XI (XI (XO
    (XO (XO (XI (XI (XI (XI (XI (XO XH)))))))))))))))))), ((Zpos (XO (XI (XO
    (XI (XO (XO (XO (XO (XO (XO (XO (XO (XI (XI (XO (XO (XO
    XH)))))))))))))))))) :: [])) :: (((Zpos (XI (XI (XO (XI (XO (XO (XI (XI
    (XO (XO (XO (XI (XI (XI (XI (XI (XO XH)))))))))))))))))), ((Zpos (XI (XI
    (XO (XO (XO (XI (XI (XI (XI (XO (XI (XO (XO (XI
    XH))))))))))))))) :: [])) :: (((Zpos (XO (XO (XI (XI (XO (XO (XI (XI (XO
    (XO (XO (XI (XI (XI (XI (XI (XO XH)))))))))))))))))), ((Zpos (XO (XO (XO
    (XI (XI (XI (XI (XI (XO (XI (XI (XO (XO (XI
    XH))))))))))))))) :: [])) :: (((Zpos (XI (XO (XI (XI (XO (XO (XI (XI (XO
    (XO (XO (XI (XI (XI (XI (XI (XO XH)))))))))))))))))), ((Zpos (XI (XO (XO
    (XI (XO (XO (XI (XO (XO (XI (XI (XO (XO (XI
    XH))))))))))))))) :: [])) :: (((Zpos (XO (XI (XI (XI (XO (XO (XI (XI (XO
    (XO (XO (XI (XI (XI (XI (XI (XO XH)))))))))))))))))), ((Zpos (XI (XO (XO
    (XI (XI (XO (XO (XO (XI (XI (XO (XI (XI
    XH)))))))))))))) :: [])) :: (((Zpos (XI (XI (XI (XI (XO (XO (XI (XI (XO
    (XO (XO (XI (XI (XI (XI (XI (XO XH)))))))))))))))))), ((Zpos (XI (XO (XO
    (XO (XI (XO (XO (XI (XO (XI (XI (XO (XO (XI
    XH))))))))))))))) :: [])) :: (((Zpos (XO (XO (XO (XO (XI (XO (XI (XI (XO
    (XO (XO (XI (XI (XI (XI (XI (XO XH)))))))))))))))))), ((Zpos (XO (XO (XO
    (XI (XO (XO (XO (XO (XI (XI (XO (XI (XI
    XH)))))))))))))) :: [])) :: (((Zpos (XI (XO (XO (XO (XI (XO (XI (XI (XO
    (XO (XO (XI (XI (XI (XI (XI (XO XH)))))))))))))))))), ((Zpos (XO (XO (XI
    (XO (XO (XI (XI (XI (XO (XI (XO (XI (XI
    XH)))))))))))))) :: [])) :: (((Zpos (XO (XI (XO (XO (XI (XO (XI (XI (XO
    (XO (XO (XI (XI (XI (XI (XI (XO XH)))))))))))))))))), ((Zpos (XO (XI (XO
    (XO (XI (XO (XO (XI (XI (XO (XO (XO (XI (XO
    XH))))))))))))))) :: [])) :: (((Zpos (XI (XI (XO (XO (XI (XO (XI (XI (XO
    (XO (XO (XI (XI (XI (XI (XI (XO XH)))))))))))))))))), ((Zpos (XI (XO (XI
    (XO (XI (XO (XO (XI (XI (XO (XO (XO (XI (XO
    XH))))))))))))))) :: [])) :: (((Zpos (XO (XO (XI (XO (XI (XO (XI (XI (XO
    (XO (XO (XI (XI (XI (XI (XI (XO XH)))))))))))))))))), ((Zpos (XO (XO (XO
    (XO (XO (XO (XO (XO (XI (XI (XI (XO (XO (XI
    XH))))))))))))))) :: [])) :: (((Zpos (XI (XO (XI (XO (XI (XO (XI (XI (XO
    (XO (XO (XI (XI (XI (XI (XI (XO XH)))))))))))))))))), ((Zpos (XO (XO (XI
    (XI (XI (XO (XO (XI (XO (XI (XI (XO (XO (XI
    XH))))))))))))))) :: [])) :: (((Zpos (XO (XI (XI (XO (XI (XO (XI (XI (XO
    (XO (XO (XI (XI (XI (XI (XI (XO XH)))))))))))))))))), ((Zpos (XI (XO (XI
    (XI (XO (XI (XO (XI (XO (XO (XO (XO (XO (XO (XO
    XH)))))))))))))))) :: [])) :: (((Zpos (XI (XI (XI (XO (XI (XO (XI (XI (XO
    (XO (XO (XI (XI (XI (XI (XI (XO XH)))))))))))))))))), ((Zpos (XI (XO (XO
    (XI (XI (XO (XI (XI (XI (XI (XO (XO (XO (XO
    XH))))))))))))))) :: [])) :: (((Zpos (XO (XO (XO (XI (XI (XO (XI (XI (XO
    (XO (XO (XI (XI (XI (XI (XI (XO XH)))))))))))))))))), ((Zpos (XI (XI (XI
    (XO (XI (XO (XO (XO (XI (XI (XI (XO (XO (XI
    XH))))))))))))))) :: [])) :: (((Zpos (XI (XO (XO (XI (XI (XO (XI (XI (XO
    (XO (XO (XI (XI (XI (XI (XI (XO XH)))))))))))))))))), ((Zpos (XI (XI (XO
    (XI (XI (XO (XO (XO (XI (XI (XI (XO (XO (XI
    XH))))))))))))))) :: [])) :: (((Zpos (XO (XI (XO (XI (XI (XO (XI (XI (XO
    (XO (XO (XI (XI (XI (XI (XI (XO XH)))))))))))))))))), ((Zpos (XI (XO (XO
    (XO (XO (XI (XO (XO (XI (XI (XI (XO (XO (XI
    XH))))))))))))))) :: [])) :: (((Zpos (XI (XI (XO (XI (XI (XO (XI (XI (XO
    (XO (XO (XI (XI (XI (XI (XI (XO XH)))))))))))))))))), ((Zpos (XO (XI (XI
    (XI (XI (XO (XI (XO (XI (XI (XI (XO (XO (XI
    XH))))))))))))))) :: [])) :: (((Zpos (XO (XO (XI (XI (XI (XO (XI (XI (XO
    (XO (XO (XI (XI (XI (XI (XI (XO XH)))))))))))))))))), ((Zpos (XI (XI (XO
    (XO (XI (XO (XI (XO (XI (XI (XI (XO (XO (XI
    XH))))))))))))))) :: [])) :: (((Zpos (XI (XO (XI (XI (XI (XO (XI (XI (XO
    (XO (XO (XI (XI (XI (XI (XI (XO XH)))))))))))))))))), ((Zpos (XI (XI (XO
    (XO (XO (XO (XI (XI (XI (XI (XO (XO (XI (XI (XO (XO (XO
    XH)))))))))))))))))) :: [])) :: (((Zpos (XO (XI (XI (XI (XI (XO (XI (XI
    (XO (XO (XO (XI (XI (XI (XI (XI (XO XH)))))))))))))))))), ((Zpos (XI (XO
    (XO (XI (XO (XO (XI (XO (XI (XI (XO (XI (XI
    XH)))))))))))))) :: [])) :: (((Zpos (XI (XI (XI (XI (XI (XO (XI (XI (XO
    (XO (XO (XI (XI (XI (XI (XI (XO XH)))))))))))))))))), ((Zpos (XO (XI (XO
    (XI (XI (XI (XI (XI (XI (XI (XI (XO (XO (XI
    XH))))))))))))))) :: [])) :: (((Zpos (XO (XO (XO (XO (XO (XI (XI (XI (XO
    (XO (XO (XI (XI (XI (XI (XI (XO XH)))))))))))))))))), ((Zpos (XI (XO (XI
    (XO (XO (XO (XO (XI (XI (XI (XI (XO (XO (XI
    XH))))))))))))))) :: [])) :: (((Zpos (XI (XO (XO (XO (XO (XI (XI (XI (XO
    (XO (XO (XI (XI (XI (XI (XI (XO XH)))))))))))))))))), ((Zpos (XO (XI (XO
    (XO (XI (XO (XI (XO (XO (XO (XO (XI (XO (XI
    XH))))))))))))))) :: [])) :: (((Zpos (XO (XI (XO (XO (XO (XI (XI (XI (XO
    (XO (XO (XI (XI (XI (XI (XI (XO XH)))))))))))))))))), ((Zpos (XI (XO (XI
    (XO (XO (XO (XO (XI (XO (XO (XO (XI (XO (XI
    XH))))))))))))))) :: [])) :: (((Zpos (XI (XI (XO (XO (XO (XI (XI (XI (XO
    (XO (XO (XI (XI (XI (XI (XI (XO XH)))))))))))))))))), ((Zpos (XI (XO (XI
    (XI (XO (XI (XI (XO (XO (XO (XI (XO (XI (XI (XO (XO (XO
    XH)))))))))))))))))) :: [])) :: (((Zpos (XO (XO (XI (XO (XO (XI (XI (XI
    (XO (XO (XO (XI (XI (XI (XI (XI (XO XH)))))))))))))))))), ((Zpos (XO (XI
    (XI (XI (XO (XO (XO (XI (XO (XO (XO (XI (XO (XI
    XH))))))))))))))) :: [])) :: (((Zpos (XI (XO (XI (XO (XO (XI (XI (XI (XO
    (XO (XO (XI (XI (XI (XI (XI (XO XH)))))))))))))))))), ((Zpos (XI (XI (XI
    (XI (XI (XO (XO (XO (XO (XO (XO (XI (XO (XI
    XH))))))))))))))) :: [])) :: (((Zpos (XO (XI (XI (XO (XO (XI (XI (XI (XO
    (XO (XO (XI (XI (XI (XI (XI (XO XH)))))))))))))))))), ((Zpos (XO (XO (XI
    (XO (XI (XO (XO (XO (XI (XO (XO (XI (XO (XI
    XH))))))))))))))) :: [])) :: (((Zpos (XI (XI (XI (XO (XO (XI (XI (XI (XO
    (XO (XO (XI (XI (XI (XI (XI (XO XH)))))))))))))))))), ((Zpos (XI (XO (XI
    (XI (XI (XO (XO (XI (XI (XI (XO (XI (XI
    XH)))))))))))))) :: [])) :: (((Zpos (XO (XO (XO (XI (XO (XI (XI (XI (XO
    (XO (XO (XI (XI (XI (XI (XI (XO XH)))))))))))))))))), ((Zpos (XO (XI (XO
    (XO (XO (XO (XI (XO (XI (XO (XO (XI (XO (XI
    XH))))))))))))))) :: [])) :: (((Zpos (XI (XO (XO (XI (XO (XI (XI (XI (XO
    (XO (XO (XI (XI (XI (XI (XI (XO XH)))))))))))))))))), ((Zpos (XI (XI (XO
    (XO (XO (XI (XO (XI (XI (XO (XO (XI (XO (XI
    XH))))))))))))))) :: [])) :: (((Zpos (XO (XI (XO (XI (XO (XI (XI (XI (XO
    (XO (XO (XI (XI (XI (XI (XI (XO XH)))))))))))))))))), ((Zpos (XO (XI (XO
    (XI (XO (XI (XI (XI (XI (XO (XO (XI (XO (XI
    XH))))))))))))))) :: [])) :: (((Zpos (XI (XI (XO (XI (XO (XI (XI (XI (XO
    (XO (XO (XI (XI (XI (XI (XI (XO XH)))))))))))))))))), ((Zpos (XO (XO (XO
    (XI (XO (XI (XO (XI (XO (XI (XO (XI (XO (XI
    XH))))))))))))))) :: [])) :: (((Zpos (XO (XO (XI (XI (XO (XI (XI (XI (XO
    (XO (XO (XI (XI (XI (XI (XI (XO XH)))))))))))))))))), ((Zpos (XI (XI (XO
    (XO (XO (XI (XO (XI (XO (XI (XI (XO (XI (XI (XO (XO (XO
    XH)))))))))))))))))) :: [])) :: (((Zpos (XI (XO (XI (XI (XO (XI (XI (XI
    (XO (XO (XO (XI (XI (XI (XI (XI (XO XH)))))))))))))))))), ((Zpos (XI (XI
    (XO (XI (XI (XO (XI (XI (XO (XI (XO (XI (XO (XI
    XH))))))))))))))) :: [])) :: (((Zpos (XO (XI (XI (XI (XO (XI (XI (XI (XO
    (XO (XO (XI (XI (XI (XI (XI (XO XH)))))))))))))))))), ((Zpos (XO (XO (XO
    (XI (XI (XO (XO (XO (XO (XO (XI (XI (XI
    XH)))))))))))))) :: [])) :: (((Zpos (XI (XI (XI (XI (XO (XI (XI (XI (XO
    (XO (XO (XI (XI (XI (XI (XI (XO XH)))))))))))))))))), ((Zpos (XI (XO (XO
    (XO (XO (XI (XO (XO (XI (XI (XO (XI (XO (XI
    XH))))))))))))))) :: [])) :: (((Zpos (XO (XO (XO (XO (XI (XI (XI (XI (XO
    (XO (XO (XI (XI (XI (XI (XI (XO XH)))))))))))))))))), ((Zpos (XI (XI (XI
    (XO (XO (XI (XO (XI (XO (XO (XO (XI (XI (XI (XO (XO (XO
    XH)))))))))))))))))) :: [])) :: (((Zpos (XI (XO (XO (XO (XI (XI (XI (XI
    (XO (XO (XO (XI (XI (XI (XI (XI (XO XH)))))))))))))))))), ((Zpos (XO (XO
    (XI (XO (XI (XO (XI (XO (XI (XI (XO (XI (XO (XI
    XH))))))))))))))) :: [])) :: (((Zpos (XO (XI (XO (XO (XI (XI (XI (XI (XO
    (XO (XO (XI (XI (XI (XI (XI (XO XH)))))))))))))))))), ((Zpos (XO (XI (XI
    (XI (XO (XO (XI (XO (XO (XO (XI (XI (XI
    XH)))))))))))))) :: [])) :: (((Zpos (XI (XI (XO (XO (XI (XI (XI (XI (XO
    (XO (XO (XI (XI (XI (XI (XI (XO XH)))))))))))))))))), ((Zpos (XO (XI (XO
    (XO (XI (XI (XI (XO (XI (XI (XO (XI (XO (XI
    XH))))))))))))))) :: [])) :: (((Zpos (XO (XO (XI (XO (XI (XI (XI (XI (XO
    (XO (XO (XI (XI (XI (XI (XI (XO XH)))))))))))))))))), ((Zpos (XI (XI (XI
    (XI (XI (XO (XO (XI (XI (XI (XO (XI (XO (XI
    XH))))))))))))))) :: [])) :: (((Zpos (XI (XO (XI (XO (XI (XI (XI (XI (XO
    (XO (XO (XI (XI (XI (XI (XI (XO XH)))))))))))))))))), ((Zpos (XO (XI (XO
    (XI (XI (XI (XO (XI (XI (XI (XO (XI (XO (XI
    XH))))))))))))))) :: [])) :: (((Zpos (XO (XI (XI (XO (XI (XI (XI (XI (XO
    (XO (XO (XI (XI (XI (XI (XI (XO XH)))))))))))))))))), ((Zpos (XI (XI (XO
    (XI (XI (XI (XO (XI (XI (XI (XO (XI (XO (XI
    XH))))))))))))))) :: [])) :: (((Zpos (XI (XI (XI (XO (XI (XI (XI (XI (XO
    (XO (XO (XI (XI (XI (XI (XI (XO XH)))))))))))))))))), ((Zpos (XI (XO (XI
    (XI (XO (XO (XO (XI (XO (XI (XO (XI (XI (XI (XO (XO (XO
    XH)))))))))))))))))) :: [])) :: (((Zpos (XO (XO (XO (XI (XI (XI (XI (XI
    (XO (XO (XO (XI (XI (XI (XI (XI (XO XH)))))))))))))))))), ((Zpos (XI (XI
    (XO (XI (XO (XO (XO (XO (XI (XO (XI (XI (XI (XO (XO (XO (XO
    XH)))))))))))))))))) :: [])) :: (((Zpos (XI (XO (XO (XI (XI (XI (XI (XI
    (XO (XO (XO (XI (XI (XI (XI (XI (XO XH)))))))))))))))))), ((Zpos (XO (XI
    (XO (XI (XI (XI (XI (XI (XO (XI (XO (XI (XI (XI (XO (XO (XO
    XH)))))))))))))))))) :: [])) :: (((Zpos (XO (XI (XO (XI (XI (XI (XI (XI
    (XO (XO (XO (XI (XI (XI (XI (XI (XO XH)))))))))))))))))), ((Zpos (XO (XI
    (XI (XI (XO (XO (XI (XO (XO (XO (XI (XI (XO (XI
    XH))))))))))))))) :: [])) :: (((Zpos (XI (XI (XO (XI (XI (XI (XI (XI (XO
    (XO (XO (XI (XI (XI (XI (XI (XO XH)))))))))))))))))), ((Zpos (XO (XO (XI
    (XI (XI (XI (XO (XI (XO (XO (XI (XI (XI (XI (XO (XO (XO
    XH)))))))))))))))))) :: [])) :: (((Zpos (XO (XO (XI (XI (XI (XI (XI (XI
    (XO (XO (XO (XI (XI (XI (XI (XI (XO XH)))))))))))))))))), ((Zpos (XI (XI
    (XI (XI (XI (XI (XO (XI (XO (XO (XI (XI (XO (XI
    XH))))))))))))))) :: [])) :: (((Zpos (XI (XO (XI (XI (XI (XI (XI (XI (XO
    (XO (XO (XI (XI (XI (XI (XI (XO XH)))))))))))))))))), ((Zpos (XI (XO (XI
    (XI (XO (XO (XI (XI (XO (XO (XI (XI (XO (XI
    XH))))))))))))))) :: [])) :: (((Zpos (XO (XI (XI (XI (XI (XI (XI (XI (XO
    (XO (XO (XI (XI (XI (XI (XI (XO XH)))))))))))))))))), ((Zpos (XI (XI (XI
    (XO (XO (XI (XI (XO (XO (XO (XI (XI (XO (XI
    XH))))))))))))))) :: [])) :: (((Zpos (XI (XI (XI (XI (XI (XI (XI (XI (XO
    (XO (XO (XI (XI (XI (XI (XI (XO XH)))))))))))))))))), ((Zpos (XO (XI (XI
    (XO (XI (XO (XO (XO (XI (XO (XI (XI (XO (XI
    XH))))))))))))))) :: [])) :: (((Zpos (XO (XO (XO (XO (XO (XO (XO (XO (XI
    (XO (XO (XI (XI (XI (XI (XI (XO XH)))))))))))))))))), ((Zpos (XO (XI (XI
    (XI (XI (XI (XO (XO (XI (XO (XI (XI (XO (XI
    XH))))))))))))))) :: [])) :: (((Zpos (XI (XO (XO (XO (XO (XO (XO (XO (XI
    (XO (XO (XI (XI (XI (XI (XI (XO XH)))))))))))))))))), ((Zpos (XI (XI (XI
    (XO (XI (XI (XI (XO (XI (XO (XI (XI (XO (XI
    XH))))))))))))))) :: [])) :: (((Zpos (XO (XI (XO (XO (XO (XO (XO (XO (XI
    (XO (XO (XI (XI (XI (XI (XI (XO XH)))))))))))))))))), ((Zpos (XI (XO (XO
    (XO (XO (XO (XI (XO (XI (XO (XI (XI (XO (XI
    XH))))))))))))))) :: [])) :: (((Zpos (XI (XI (XO (XO (XO (XO (XO (XO (XI
    (XO (XO (XI (XI (XI (XI (XI (XO XH)))))))))))))))))), ((Zpos (XI (XO (XO
    (XI (XO (XI (XI (XO (XI (XO (XI (XI (XO (XI
    XH))))))))))))))) :: [])) :: (((Zpos (XO (XO (XI (XO (XO (XO (XO (XO (XI
    (XO (XO (XI (XI (XI (XI (XI (XO XH)))))))))))))))))), ((Zpos (XO (XO (XO
    (XI (XI (XI (XI (XO (XI (XO (XI (XI (XO (XI
    XH))))))))))))))) :: [])) :: (((Zpos (XI (XO (XI (XO (XO (XO (XO (XO (XI
    (XO (XO (XI (XI (XI (XI (XI (XO XH)))))))))))))))))), ((Zpos (XI (XO (XI
    (XO (XO (XO (XO (XI (XI (XO (XI (XI (XO (XI
    XH))))))))))))))) :: [])) :: (((Zpos (XO (XI (XI (XO (XO (XO (XO (XO (XI
    (XO (XO (XI (XI (XI (XI (XI (XO XH)))))))))))))))))), ((Zpos (XO (XI (XI
    (XI (XI (XO (XO (XO (XI (XO (XI (XI (XI (XI (XO (XO (XO
    XH)))))))))))))))))) :: [])) :: (((Zpos (XI (XI (XI (XO (XO (XO (XO (XO
    (XI (XO (XO (XI (XI (XI (XI (XI (XO XH)))))))))))))))))), ((Zpos (XO (XO
    (XI (XO (XI (XI (XO (XO (XI (XO (XI (XI (XO (XI
    XH))))))))))))))) :: [])) :: (((Zpos (XO (XO (XO (XI (XO (XO (XO (XO (XI
    (XO (XO (XI (XI (XI (XI (XI (XO XH)))))))))))))))))), ((Zpos (XI (XI (XI
    (XI (XO (XI (XO (XO (XO (XI (XI (XI (XO (XI
    XH))))))))))))))) :: [])) :: (((Zpos (XI (XO (XO (XI (XO (XO (XO (XO (XI
    (XO (XO (XI (XI (XI (XI (XI (XO XH)))))))))))))))))), ((Zpos (XO (XI (XI
    (XI (XO (XI (XI (XO (XO (XI (XI (XI (XO (XI
    XH))))))))))))))) :: [])) :: (((Zpos (XO (XI (XO (XI (XO (XO (XO (XO (XI
    (XO (XO (XI (XI (XI (XI (XI (XO XH)))))))))))))))))), ((Zpos (XI (XI (XO
    (XO (XI (XI (XO (XO (XI (XO (XI (XI (XI
    XH)))))))))))))) :: [])) :: (((Zpos (XI (XI (XO (XI (XO (XO (XO (XO (XI
    (XO (XO (XI (XI (XI (XI (XI (XO XH)))))))))))))))))), ((Zpos (XI (XI (XO
    (XI (XO (XO (XI (XI (XO (XI (XI (XI (XO (XI
    XH))))))))))))))) :: [])) :: (((Zpos (XO (XO (XI (XI (XO (XO (XO (XO (XI
    (XO (XO (XI (XI (XI (XI (XI (XO XH)))))))))))))))))), ((Zpos (XI (XI (XI
    (XO (XO (XO (XI (XI (XO (XI (XI (XI (XO (XI
    XH))))))))))))))) :: [])) :: (((Zpos (XI (XO (XI (XI (XO (XO (XO (XO (XI
    (XO (XO (XI (XI (XI (XI (XI (XO XH)))))))))))))))))), ((Zpos (XI (XO (XO
    (XO (XI (XO (XI (XI (XO (XI (XI (XI (XI (XI (XO (XO (XO
    XH)))))))))))))))))) :: [])) :: (((Zpos (XO (XI (XI (XI (XO (XO (XO (XO
    (XI (XO (XO (XI (XI (XI (XI (XI (XO XH)))))))))))))))))), ((Zpos (XI (XO
    (XO (XI (XI (XI (XI (XI (XI (XO (XI (XI (XO (XI
    XH))))))))))))))) :: [])) :: (((Zpos (XI (XI (XI (XI (XO (XO (XO (XO (XI
    (XO (XO (XI (XI (XI (XI (XI (XO XH)))))))))))))))))), ((Zpos (XO (XI (XI
    (XI (XO (XI (XI (XO (XI (XI (XI (XI (XO (XI
    XH))))))))))))))) :: [])) :: (((Zpos (XO (XO (XO (XO (XI (XO (XO (XO (XI
    (XO (XO (XI (XI (XI (XI (XI (XO XH)))))))))))))))))), ((Zpos (XO (XI (XI
    (XI (XI (XO (XI (XO (XI (XI (XI (XI (XI (XI (XO (XO (XO
    XH)))))))))))))))))) :: [])) :: (((Zpos (XI (XO (XO (XO (XI (XO (XO (XO
    (XI (XO (XO (XI (XI (XI (XI (XI (XO XH)))))))))))))))))), ((Zpos (XO (XI
    (XI (XI (XO (XO (XO (XI (XI (XI (XI (XI (XI (XI (XO (XO (XO
    XH)))))))))))))))))) :: [])) :: (((Zpos (XO (XI (XO (XO (XI (XO (XO (XO
    (XI (XO (XO (XI (XI (XI (XI (XI (XO XH)))))))))))))))))), ((Zpos (XO (XI
    (XI (XO (XO (XO (XI (XI (XI (XI (XI (XI (XO (XI
    XH))))))))))))))) :: [])) :: (((Zpos (XI (XI (XO (XO (XI (XO (XO (XO (XI
    (XO (XO (XI (XI (XI (XI (XI (XO XH)))))))))))))))))), ((Zpos (XI (XO (XO
    (XI (XI (XI (XO (XO (XO (XO (XO (XO (XI (XI
    XH))))))))))))))) :: [])) :: (((Zpos (XO (XO (XI (XO (XI (XO (XO (XO (XI
    (XO (XO (XI (XI (XI (XI (XI (XO XH)))))))))))))))))), ((Zpos (XO (XI (XI
    (XI (XI (XO (XO (XO (XO (XO (XO (XO (XI (XI
    XH))))))))))))))) :: [])) :: (((Zpos (XI (XO (XI (XO (XI (XO (XO (XO (XI
    (XO (XO (XI (XI (XI (XI (XI (XO XH)))))))))))))))))), ((Zpos (XI (XI (XO
    (XI (XI (XO (XO (XO (XO (XO (XO (XO (XI (XI
    XH))))))))))))))) :: [])) :: (((Zpos (XO (XI (XI (XO (XI (XO (XO (XO (XI
    (XO (XO (XI (XI (XI (XI (XI (XO XH)))))))))))))))))), ((Zpos (XO (XI (XI
    (XO (XI (XO (XO (XI (XI (XO (XI (XI (XI
    XH)))))))))))))) :: [])) :: (((Zpos (XI (XI (XI (XO (XI (XO (XO (XO (XI
    (XO (XO (XI (XI (XI (XI (XI (XO XH)))))))))))))))))), ((Zpos (XO (XI (XO
    (XI (XO (XO (XI (XO (XO (XO (XO (XO (XI (XI
    XH))))))))))))))) :: [])) :: (((Zpos (XO (XO (XO (XI (XI (XO (XO (XO (XI
    (XO (XO (XI (XI (XI (XI (XI (XO XH)))))))))))))))))), ((Zpos (XI (XO (XI
    (XI (XI (XI (XI (XO (XO (XO (XO (XO (XI (XI
    XH))))))))))))))) :: [])) :: (((Zpos (XI (XO (XO (XI (XI (XO (XO (XO (XI
    (XO (XO (XI (XI (XI (XI (XI (XO XH)))))))))))))))))), ((Zpos (XI (XI (XI
    (XO (XI (XI (XI (XO (XO (XO (XO (XO (XI (XI
    XH))))))))))))))) :: [])) :: (((Zpos (XO (XI (XO (XI (XI (XO (XO (XO (XI
    (XO (XO (XI (XI (XI (XI (XI (XO XH)))))))))))))))))), ((Zpos (XI (XO (XI
    (XI (XO (XI (XO (XI (XO (XO (XO (XO (XI (XI
    XH))))))))))))))) :: [])) :: (((Zpos (XI (XI (XO (XI (XI (XO (XO (XO (XI
    (XO (XO (XI (XI (XI (XI (XI (XO XH)))))))))))))))))), ((Zpos (XI (XO (XI
    (XO (XO (XI (XO (XO (XI (XO (XI (XO (XO (XO (XO (XO (XO
    XH)))))))))))))))))) :: [])) :: (((Zpos (XO (XO (XI (XI (XI (XO (XO (XO
    (XI (XO (XO (XI (XI (XI (XI (XI (XO XH)))))))))))))))))), ((Zpos (XI (XO
    (XI (XO (XO (XO (XI (XO (XI (XO (XO (XO (XI (XI
    XH))))))))))))))) :: [])) :: (((Zpos (XI (XO (XI (XI (XI (XO (XO (XO (XI
    (XO (XO (XI (XI (XI (XI (XI (XO XH)))))))))))))))))), ((Zpos (XI (XI (XO
    (XO (XO (XI (XI (XO (XO (XI (XO (XO (XO (XO (XI (XO (XO
    XH)))))))))))))))))) :: [])) :: (((Zpos (XO (XI (XI (XI (XI (XO (XO (XO
    (XI (XO (XO (XI (XI (XI (XI (XI (XO XH)))))))))))))))))), ((Zpos (XO (XO
    (XI (XI (XI (XO (XO (XI (XI (XO (XO (XO (XI (XI
    XH))))))))))))))) :: [])) :: (((Zpos (XI (XI (XI (XI (XI (XO (XO (XO (XI
    (XO (XO (XI (XI (XI (XI (XI (XO XH)))))))))))))))))), ((Zpos (XI (XI (XO
    (XI (XO (XI (XO (XI (XI (XI (XO (XO (XO (XO (XI (XO (XO
    XH)))))))))))))))))) :: [])) :: (((Zpos (XO (XO (XO (XO (XO (XI (XO (XO
    (XI (XO (XO (XI (XI (XI (XI (XI (XO XH)))))))))))))))))), ((Zpos (XO (XO
    (XO (XI (XO (XI (XO (XO (XO (XI (XO (XO (XI (XI
    XH))))))))))))))) :: [])) :: (((Zpos (XI (XO (XO (XO (XO (XI (XO (XO (XI
    (XO (XO (XI (XI (XI (XI (XI (XO XH)))))))))))))))))), ((Zpos (XI (XO (XI
    (XO (XI (XI (XO (XO (XO (XI (XO (XO (XI (XI
    XH))))))))))))))) :: [])) :: (((Zpos (XO (XI (XO (XO (XO (XI (XO (XO (XI
    (XO (XO (XI (XI (XI (XI (XI (XO XH)))))))))))))))))), ((Zpos (XO (XO (XO
    (XO (XI (XO (XI (XO (XO (XI (XO (XO (XI (XI
    XH))))))))))))))) :: [])) :: (((Zpos (XI (XI (XO (XO (XO (XI (XO (XO (XI
    (XO (XO (XI (XI (XI (XI (XI (XO XH)))))))))))))))))), ((Zpos (XO (XO (XO
    (XI (XO (XO (XO (XO (XO (XI (XI (XO (XO (XO (XI (XO (XO
    XH)))))))))))))))))) :: [])) :: (((Zpos (XO (XO (XI (XO (XO (XI (XO (XO
    (XI (XO (XO (XI (XI (XI (XI (XI (XO XH)))))))))))))))))), ((Zpos (XO (XO
    (XO (XO (XO (XO (XO (XI (XO (XI (XO (XO (XI (XI
    XH))))))))))))))) :: [])) :: (((Zpos (XI (XO (XI (XO (XO (XI (XO (XO (XI
    (XO (XO (XI (XI (XI (XI (XI (XO XH)))))))))))))))))), ((Zpos (XI (XO (XI
    (XO (XI (XO (XO (XI (XO (XI (XO (XO (XI (XI
    XH))))))))))))))) :: [])) :: (((Zpos (XO (XI (XI (XO (XO (XI (XO (XO (XI
    (XO (XO (XI (XI (XI (XI (XI (XO XH)))))))))))))))))), ((Zpos (XI (XO (XI
    (XO (XI (XI (XO (XO (XI (XI (XI (XO (XO (XO (XI (XO (XO
    XH)))))))))))))))))) :: [])) :: (((Zpos (XI (XI (XI (XO (XO (XI (XO (XO
    (XI (XO (XO (XI (XI (XI (XI (XI (XO XH)))))))))))))))))), ((Zpos (XO (XO
    (XI (XO (XI (XO (XO (XO (XO (XO (XO (XI (XO (XO (XI (XO (XO
    XH)))))))))))))))))) :: [])) :: (((Zpos (XO (XO (XO (XI (XO (XI (XO (XO
    (XI (XO (XO (XI (XI (XI (XI (XI (XO XH)))))))))))))))))), ((Zpos (XO (XI
    (XO (XI (XI (XI (XI (XO (XI (XI (XO (XO (XI (XI
    XH))))))))))))))) :: [])) :: (((Zpos (XI (XO (XO (XI (XO (XI (XO (XO (XI
    (XO (XO (XI (XI (XI (XI (XI (XO XH)))))))))))))))))), ((Zpos (XI (XI (XO
    (XI (XO (XO (XO (XI (XI (XI (XO (XO (XI (XI
    XH))))))))))))))) :: [])) :: (((Zpos (XO (XI (XO (XI (XO (XI (XO (XO (XI
    (XO (XO (XI (XI (XI (XI (XI (XO XH)))))))))))))))))), ((Zpos (XO (XO (XI
    (XI (XO (XI (XO (XI (XO (XI (XI (XI (XI
    XH)))))))))))))) :: [])) :: (((Zpos (XI (XI (XO (XI (XO (XI (XO (XO (XI
    (XO (XO (XI (XI (XI (XI (XI (XO XH)))))))))))))))))), ((Zpos (XI (XO (XI
    (XO (XO (XI (XO (XI (XI (XI (XO (XO (XI (XI
    XH))))))))))))))) :: [])) :: (((Zpos (XO (XO (XI (XI (XO (XI (XO (XO (XI
    (XO (XO (XI (XI (XI (XI (XI (XO XH)))))))))))))))))), ((Zpos (XO (XO (XO
    (XI (XI (XI (XO (XI (XO (XI (XI (XI (XI
    XH)))))))))))))) :: [])) :: (((Zpos (XI (XO (XI (XI (XO (XI (XO (XO (XI
    (XO (XO (XI (XI (XI (XI (XI (XO XH)))))))))))))))))), ((Zpos (XO (XO (XO
    (XI (XI (XI (XO (XI (XO (XI (XI (XI (XI
    XH)))))))))))))) :: [])) :: (((Zpos (XO (XI (XI (XI (XO (XI (XO (XO (XI
    (XO (XO (XI (XI (XI (XI (XI (XO XH)))))))))))))))))), ((Zpos (XI (XI (XI
    (XO (XO (XO (XI (XO (XO (XO (XI (XO (XI (XI
    XH))))))))))))))) :: [])) :: (((Zpos (XI (XI (XI (XI (XO (XI (XO (XO (XI
    (XO (XO (XI (XI (XI (XI (XI (XO XH)))))))))))))))))), ((Zpos (XO (XO (XI
    (XI (XI (XO (XI (XO (XO (XO (XI (XO (XI (XI
    XH))))))))))))))) :: [])) :: (((Zpos (XO (XO (XO (XO (XI (XI (XO (XO (XI
    (XO (XO (XI (XI (XI (XI (XI (XO XH)))))))))))))))))), ((Zpos (XI (XO (XO
    (XO (XI (XI (XI (XO (XO (XO (XI (XO (XI (XI
    XH))))))))))))))) :: [])) :: (((Zpos (XI (XO (XO (XO (XI (XI (XO (XO (XI
    (XO (XO (XI (XI (XI (XI (XI (XO XH)))))))))))))))))), ((Zpos (XI (XO (XI
    (XO (XO (XO (XO (XI (XO (XO (XI (XO (XI (XI
    XH))))))))))))))) :: [])) :: (((Zpos (XO (XI (XO (XO (XI (XI (XO (XO (XI
    (XO (XO (XI (XI (XI (XI (XI (XO XH)))))))))))))))))), ((Zpos (XO (XI (XO
    (XI (XO (XO (XI (XI (XO (XO (XI (XO (XI (XI
    XH))))))))))))))) :: [])) :: (((Zpos (XI (XI (XO (XO (XI (XI (XO (XO (XI
    (XO (XO (XI (XI (XI (XI (XI (XO XH)))))))))))))))))), ((Zpos (XI (XI (XO
    (XI (XI (XO (XO (XO (XI (XI (XI (XI (XI
    XH)))))))))))))) :: [])) :: (((Zpos (XO (XO (XI (XO (XI (XI (XO (XO (XI
    (XO (XO (XI (XI (XI (XI (XI (XO XH)))))))))))))))))), ((Zpos (XO (XO (XI
    (XO (XO (XI (XO (XO (XI (XO (XI (XO (XI (XI
    XH))))))))))))))) :: [])) :: (((Zpos (XI (XO (XI (XO (XI (XI (XO (XO (XI
    (XO (XO (XI (XI (XI (XI (XI (XO XH)))))))))))))))))), ((Zpos (XO (XI (XI
    (XO (XI (XI (XO (XO (XO (XO (XI (XI (XO (XO (XI (XO (XO
    XH)))))))))))))))))) :: [])) :: (((Zpos (XO (XI (XI (XO (XI (XI (XO (XO
    (XI (XO (XO (XI (XI (XI (XI (XI (XO XH)))))))))))))))))), ((Zpos (XO (XI
    (XI (XI (XI (XI (XO (XO (XI (XO (XI (XO (XI (XI
    XH))))))))))))))) :: [])) :: (((Zpos (XI (XI (XI (XO (XI (XI (XO (XO (XI
    (XO (XO (XI (XI (XI (XI (XI (XO XH)))))))))))))))))), ((Zpos (XO (XI (XO
    (XO (XI (XO (XO (XI (XO (XO (XI (XI (XO (XO (XI (XO (XO
    XH)))))))))))))))))) :: [])) :: (((Zpos (XO (XO (XO (XI (XI (XI (XO (XO
    (XI (XO (XO (XI (XI (XI (XI (XI (XO XH)))))))))))))))))), ((Zpos (XO (XO
    (XO (XO (XI (XI (XI (XO (XI (XO (XI (XO (XI (XI
    XH))))))))))))))) :: [])) :: (((Zpos (XI (XO (XO (XI (XI (XI (XO (XO (XI
    (XO (XO (XI (XI (XI (XI (XI (XO XH)))))))))))))))))), ((Zpos (XI (XI (XI
    (XI (XI (XO (XO (XI (XI (XO (XO (XO (XO (XI (XO (XO (XO
    XH)))))))))))))))))) :: [])) :: (((Zpos (XO (XI (XO (XI (XI (XI (XO (XO
    (XI (XO (XO (XI (XI (XI (XI (XI (XO XH)))))))))))))))))), ((Zpos (XO (XO
    (XO (XO (XI (XO (XO (XO (XO (XI (XI (XO (XI (XI
    XH))))))))))))))) :: [])) :: (((Zpos (XI (XI (XO (XI (XI (XI (XO (XO (XI
    (XO (XO (XI (XI (XI (XI (XI (XO XH)))))))))))))))))), ((Zpos (XI (XO (XO
    (XO (XO (XI (XO (XI (XI (XI (XI (XI (XO (XO (XI (XO (XO
    XH)))))))))))))))))) :: [])) :: (((Zpos (XO (XO (XI (XI (XI (XI (XO (XO
    (XI (XO (XO (XI (XI (XI (XI (XI (XO XH)))))))))))))))))), ((Zpos (XO (XO
    (XO (XI (XI (XI (XO (XI (XI (XI (XI (XI (XO (XO (XI (XO (XO
    XH)))))))))))))))))) :: [])) :: (((Zpos (XI (XO (XI (XI (XI (XI (XO (XO
    (XI (XO (XO (XI (XI (XI (XI (XI (XO XH)))))))))))))))))), ((Zpos (XO (XO
    (XI (XO (XO (XO (XI (XO (XO (XO (XO (XO (XI (XO (XI (XO (XO
    XH)))))))))))))))))) :: [])) :: (((Zpos (XO (XI (XI (XI (XI (XI (XO (XO
    (XI (XO (XO (XI (XI (XI (XI (XI (XO XH)))))))))))))))))), ((Zpos (XO (XO
    (XI (XI (XI (XI (XI (XI (XI (XI (XI (XI (XI
    XH)))))))))))))) :: [])) :: (((Zpos (XI (XI (XI (XI (XI (XI (XO (XO (XI
    (XO (XO (XI (XI (XI (XI (XI (XO XH)))))))))))))))))), ((Zpos (XO (XO (XO
    (XI (XO (XO (XO (XO (XO (XO (XO (XO (XO (XO
    XH))))))))))))))) :: [])) :: (((Zpos (XO (XO (XO (XO (XO (XO (XI (XO (XI
    (XO (XO (XI (XI (XI (XI (XI (XO XH)))))))))))))))))), ((Zpos (XO (XO (XI
    (XO (XI (XI (XI (XI (XO (XI (XI (XO (XI (XI
    XH))))))))))))))) :: [])) :: (((Zpos (XI (XO (XO (XO (XO (XO (XI (XO (XI
    (XO (XO (XI (XI (XI (XI (XI (XO XH)))))))))))))))))), ((Zpos (XI (XI (XO
    (XO (XI (XI (XI (XI (XO (XO (XO (XO (XI (XO (XI (XO (XO
    XH)))))))))))))))))) :: [])) :: (((Zpos (XO (XI (XO (XO (XO (XO (XI (XO
    (XI (XO (XO (XI (XI (XI (XI (XI (XO XH)))))))))))))))))), ((Zpos (XO (XI
    (XO (XO (XI (XI (XI (XI (XO (XO (XO (XO (XI (XO (XI (XO (XO
    XH)))))))))))))))))) :: [])) :: (((Zpos (XI (XI (XO (XO (XO (XO (XI (XO
    (XI (XO (XO (XI (XI (XI (XI (XI (XO XH)))))))))))))))))), ((Zpos (XI (XO
    (XO (XI (XI (XO (XO (XO (XI (XO (XO (XO (XI (XO (XI (XO (XO
    XH)))))))))))))))))) :: [])) :: (((Zpos (XO (XO (XI (XO (XO (XO (XI (XO
    (XI (XO (XO (XI (XI (XI (XI (XI (XO XH)))))))))))))))))), ((Zpos (XI (XI
    (XO (XO (XI (XI (XO (XO (XI (XO (XO (XO (XI (XO (XI (XO (XO
    XH)))))))))))))))))) :: [])) :: (((Zpos (XI (XO (XI (XO (XO (XO (XI (XO
    (XI (XO (XO (XI (XI (XI (XI (XI (XO XH)))))))))))))))))), ((Zpos (XO (XI
    (XI (XI (XI (XO (XO (XO (XI (XI (XI (XO (XI (XI
    XH))))))))))))))) :: [])) :: (((Zpos (XO (XI (XI (XO (XO (XO (XI (XO (XI
    (XO (XO (XI (XI (XI (XI (XI (XO XH)))))))))))))))))), ((Zpos (XI (XI (XI
    (XI (XI (XO (XO (XO (XI (XI (XI (XO (XI (XI
    XH))))))))))))))) :: [])) :: (((Zpos (XI (XI (XI (XO (XO (XO (XI (XO (XI
    (XO (XO (XI (XI (XI (XI (XI (XO XH)))))))))))))))))), ((Zpos (XI (XI (XI
    (XI (XI (XO (XO (XO (XI (XI (XI (XO (XI (XI
    XH))))))))))))))) :: [])) :: (((Zpos (XO (XO (XO (XI (XO (XO (XI (XO (XI
    (XO (XO (XI (XI (XI (XI (XI (XO XH)))))))))))))))))), ((Zpos (XO (XI (XO
    (XI (XO (XO (XI (XO (XI (XI (XI (XO (XI (XI
    XH))))))))))))))) :: [])) :: (((Zpos (XI (XO (XO (XI (XO (XO (XI (XO (XI
    (XO (XO (XI (XI (XI (XI (XI (XO XH)))))))))))))))))), ((Zpos (XI (XO (XO
    (XI (XI (XI (XO (XO (XO (XO (XO (XO (XO (XO
    XH))))))))))))))) :: [])) :: (((Zpos (XO (XI (XO (XI (XO (XO (XI (XO (XI
    (XO (XO (XI (XI (XI (XI (XI (XO XH)))))))))))))))))), ((Zpos (XI (XI (XO
    (XI (XO (XO (XO (XI (XI (XI (XI (XO (XI (XI
    XH))))))))))))))) :: [])) :: (((Zpos (XI (XI (XO (XI (XO (XO (XI (XO (XI
    (XO (XO (XI (XI (XI (XI (XI (XO XH)))))))))))))))))), ((Zpos (XO (XI (XI
    (XO (XO (XO (XI (XO (XO (XO (XO (XO (XO (XO
    XH))))))))))))))) :: [])) :: (((Zpos (XO (XO (XI (XI (XO (XO (XI (XO (XI
    (XO (XO (XI (XI (XI (XI (XI (XO XH)))))))))))))))))), ((Zpos (XO (XI (XI
    (XO (XI (XO (XO (XI (XO (XO (XO (XO (XO (XO
    XH))))))))))))))) :: [])) :: (((Zpos (XI (XO (XI (XI (XO (XO (XI (XO (XI
    (XO (XO (XI (XI (XI (XI (XI (XO XH)))))))))))))))))), ((Zpos (XI (XO (XI
    (XI (XI (XO (XO (XO (XO (XO (XI (XO (XI (XO (XI (XO (XO
    XH)))))))))))))))))) :: [])) :: (((Zpos (XO (XI (XI (XI (XO (XO (XI (XO
    (XI (XO (XO (XI (XI (XI (XI (XI (XO XH)))))))))))))))))), ((Zpos (XO (XI
    (XI (XI (XO (XO (XI (XO (XO (XO (XO (XI (XI (XI
    XH))))))))))))))) :: [])) :: (((Zpos (XI (XI (XI (XI (XO (XO (XI (XO (XI
    (XO (XO (XI (XI (XI (XI (XI (XO XH)))))))))))))))))), ((Zpos (XO (XO (XI
    (XI (XO (XO (XO (XI (XO (XO (XO (XI (XI (XI
    XH))))))))))))))) :: [])) :: (((Zpos (XO (XO (XO (XO (XI (XO (XI (XO (XI
    (XO (XO (XI (XI (XI (XI (XI (XO XH)))))))))))))))))), ((Zpos (XO (XO (XI
    (XI (XO (XO (XI (XI (XO (XO (XO (XI (XI (XI
    XH))))))))))))))) :: [])) :: (((Zpos (XI (XO (XO (XO (XI (XO (XI (XO (XI
    (XO (XO (XI (XI (XI (XI (XI (XO XH)))))))))))))))))), ((Zpos (XI (XI (XO
    (XO (XO (XI (XI (XI (XO (XO (XO (XO (XO (XO
    XH))))))))))))))) :: [])) :: (((Zpos (XO (XI (XO (XO (XI (XO (XI (XO (XI
    (XO (XO (XI (XI (XI (XI (XI (XO XH)))))))))))))))))), ((Zpos (XO (XI (XI
    (XO (XO (XI (XO (XO (XO (XI (XI (XO (XI (XO (XI (XO (XO
    XH)))))))))))))))))) :: [])) :: (((Zpos (XI (XI (XO (XO (XI (XO (XI (XO
    (XI (XO (XO (XI (XI (XI (XI (XI (XO XH)))))))))))))))))), ((Zpos (XO (XI
    (XI (XO (XI (XO (XI (XO (XI (XO (XO (XI (XI (XI
    XH))))))))))))))) :: [])) :: (((Zpos (XO (XO (XI (XO (XI (XO (XI (XO (XI
    (XO (XO (XI (XI (XI (XI (XI (XO XH)))))))))))))))))), ((Zpos (XO (XI (XO
    (XI (XI (XO (XO (XI (XO (XI (XI (XO (XI (XO (XI (XO (XO
    XH)))))))))))))))))) :: [])) :: (((Zpos (XI (XO (XI (XO (XI (XO (XI (XO
    (XI (XO (XO (XI (XI (XI (XI (XI (XO XH)))))))))))))))))), ((Zpos (XI (XO
    (XI (XO (XO (XO (XI (XI (XO (XI (XI (XO (XI (XO (XI (XO (XO
    XH)))))))))))))))))) :: [])) :: (((Zpos (XO (XI (XI (XO (XI (XO (XI (XO
    (XI (XO (XO (XI (XI (XI (XI (XI (XO XH)))))))))))))))))), ((Zpos (XI (XI
    (XI (XI (XO (XO (XO (XI (XI (XO (XO (XI (XI (XI
    XH))))))))))))))) :: [])) :: (((Zpos (XI (XI (XI (XO (XI (XO (XI (XO (XI
    (XO (XO (XI (XI (XI (XI (XI (XO XH)))))))))))))))))), ((Zpos (XI (XI (XO
    (XI (XO (XI (XI (XI (XI (XO (XO (XI (XI (XI
    XH))))))))))))))) :: [])) :: (((Zpos (XO (XO (XO (XI (XI (XO (XI (XO (XI
    (XO (XO (XI (XI (XI (XI (XI (XO XH)))))))))))))))))), ((Zpos (XI (XI (XI
    (XI (XO (XI (XO (XO (XI (XO (XO (XO (XO (XO
    XH))))))))))))))) :: [])) :: (((Zpos (XI (XO (XO (XI (XI (XO (XI (XO (XI
    (XO (XO (XI (XI (XI (XI (XI (XO XH)))))))))))))))))), ((Zpos (XO (XO (XO
    (XO (XO (XO (XI (XO (XO (XI (XO (XI (XI (XI
    XH))))))))))))))) :: [])) :: (((Zpos (XO (XI (XO (XI (XI (XO (XI (XO (XI
    (XO (XO (XI (XI (XI (XI (XI (XO XH)))))))))))))))))), ((Zpos (XO (XI (XO
    (XI (XO (XO (XI (XO (XO (XI (XO (XI (XI (XI
    XH))))))))))))))) :: [])) :: (((Zpos (XI (XI (XO (XI (XI (XO (XI (XO (XI
    (XO (XO (XI (XI (XI (XI (XI (XO XH)))))))))))))))))), ((Zpos (XI (XI (XI
    (XI (XO (XO (XI (XO (XO (XI (XO (XI (XI (XI
    XH))))))))))))))) :: [])) :: (((Zpos (XO (XO (XI (XI (XI (XO (XI (XO (XI
    (XO (XO (XI (XI (XI (XI (XI (XO XH)))))))))))))))))), ((Zpos (XO (XO (XI
    (XI (XI (XI (XI (XO (XI (XO (XO (XI (XI (XO (XI (XO (XO
    XH)))))))))))))))))) :: [])) :: (((Zpos (XI (XO (XI (XI (XI (XO (XI (XO
    (XI (XO (XO (XI (XI (XI (XI (XI (XO XH)))))))))))))))))), ((Zpos (XI (XI
    (XI (XO (XO (XI (XO (XI (XO (XI (XO (XI (XI (XO (XI (XO (XO
    XH)))))))))))))))))) :: [])) :: (((Zpos (XO (XI (XI (XI (XI (XO (XI (XO
    (XI (XO (XO (XI (XI (XI (XI (XI (XO XH)))))))))))))))))), ((Zpos (XI (XI
    (XI (XO (XO (XI (XO (XI (XO (XI (XO (XI (XI (XO (XI (XO (XO
    XH)))))))))))))))))) :: [])) :: (((Zpos (XI (XI (XI (XI (XI (XO (XI (XO
    (XI (XO (XO (XI (XI (XI (XI (XI (XO XH)))))))))))))))))), ((Zpos (XO (XI
    (XI (XI (XO (XI (XI (XI (XO (XI (XO (XI (XI (XI
    XH))))))))))))))) :: [])) :: (((Zpos (XO (XO (XO (XO (XO (XI (XI (XO (XI
    (XO (XO (XI (XI (XI (XI (XI (XO XH)))))))))))))))))), ((Zpos (XO (XI (XO
    (XO (XO (XO (XO (XO (XO (XI (XO (XO (XO (XO
    XH))))))))))))))) :: [])) :: (((Zpos (XI (XO (XO (XO (XO (XI (XI (XO (XI
    (XO (XO (XI (XI (XI (XI (XI (XO XH)))))))))))))))))), ((Zpos (XI (XI (XO
    (XI (XO (XI (XO (XI (XI (XI (XO (XI (XI (XO (XI (XO (XO
    XH)))))))))))))))))) :: [])) :: (((Zpos (XO (XI (XO (XO (XO (XI (XI (XO
    (XI (XO (XO (XI (XI (XI (XI (XI (XO XH)))))))))))))))))), ((Zpos (XO (XI
    (XI (XO (XO (XO (XI (XI (XI (XI (XO (XI (XI (XI
    XH))))))))))))))) :: [])) :: (((Zpos (XI (XI (XO (XO (XO (XI (XI (XO (XI
    (XO (XO (XI (XI (XI (XI (XI (XO XH)))))))))))))))))), ((Zpos (XI (XO (XO
    (XI (XO (XO (XI (XI (XI (XI (XO (XI (XI (XI
    XH))))))))))))))) :: [])) :: (((Zpos (XO (XO (XI (XO (XO (XI (XI (XO (XI
    (XO (XO (XI (XI (XI (XI (XI (XO XH)))))))))))))))))), ((Zpos (XI (XI (XI
    (XO (XO (XI (XO (XO (XO (XI (XO (XO (XO (XO
    XH))))))))))))))) :: [])) :: (((Zpos (XI (XO (XI (XO (XO (XI (XI (XO (XI
    (XO (XO (XI (XI (XI (XI (XI (XO XH)))))))))))))))))), ((Zpos (XO (XO (XO
    (XO (XO (XO (XO (XI (XO (XO (XI (XI (XI (XO (XI (XO (XO
    XH)))))))))))))))))) :: [])) :: (((Zpos (XO (XI (XI (XO (XO (XI (XI (XO
    (XI (XO (XO (XI (XI (XI (XI (XI (XO XH)))))))))))))))))), ((Zpos (XO (XI
    (XO (XO (XI (XO (XI (XI (XO (XO (XI (XI (XI (XI
    XH))))))))))))))) :: [])) :: (((Zpos (XI (XI (XI (XO (XO (XI (XI (XO (XI
    (XO (XO (XI (XI (XI (XI (XI (XO XH)))))))))))))))))), ((Zpos (XO (XO (XO
    (XO (XO (XI (XO (XI (XO (XI (XO (XO (XO (XO
    XH))))))))))))))) :: [])) :: (((Zpos (XO (XO (XO (XI (XO (XI (XI (XO (XI
    (XO (XO (XI (XI (XI (XI (XI (XO XH)))))))))))))))))), ((Zpos (XO (XO (XO
    (XI (XO (XI (XI (XI (XO (XO (XI (XI (XI (XI
    XH))))))))))))))) :: [])) :: (((Zpos (XI (XO (XO (XI (XO (XI (XI (XO (XI
    (XO (XO (XI (XI (XI (XI (XI (XO XH)))))))))))))))))), ((Zpos (XI (XI (XO
    (XO (XO (XI (XI (XI (XO (XO (XI (XI (XI (XI
    XH))))))))))))))) :: [])) :: (((Zpos (XO (XI (XO (XI (XO (XI (XI (XO (XI
    (XO (XO (XI (XI (XI (XI (XI (XO XH)))))))))))))))))), ((Zpos (XO (XO (XO
    (XO (XO (XO (XO (XO (XI (XO (XI (XI (XI (XI
    XH))))))))))))))) :: [])) :: (((Zpos (XI (XI (XO (XI (XO (XI (XI (XO (XI
    (XO (XO (XI (XI (XI (XI (XI (XO XH)))))))))))))))))), ((Zpos (XO (XI (XI
    (XO (XO (XO (XO (XI (XI (XI (XI (XI (XI (XO (XI (XO (XO
    XH)))))))))))))))))) :: [])) :: (((Zpos (XO (XO (XI (XI (XO (XI (XI (XO
    (XI (XO (XO (XI (XI (XI (XI (XI (XO XH)))))))))))))))))), ((Zpos (XI (XI
    (XO (XO (XO (XI (XI (XO (XI (XO (XI (XI (XI (XI
    XH))))))))))))))) :: [])) :: (((Zpos (XI (XO (XI (XI (XO (XI (XI (XO (XI
    (XO (XO (XI (XI (XI (XI (XI (XO XH)))))))))))))))))), ((Zpos (XI (XO (XO
    (XO (XO (XO (XO (XO (XI (XI (XO (XO (XO (XO
    XH))))))))))))))) :: [])) :: (((Zpos (XO (XI (XI (XI (XO (XI (XI (XO (XI
    (XO (XO (XI (XI (XI (XI (XI (XO XH)))))))))))))))))), ((Zpos (XI (XI (XI
    (XO (XO (XO (XI (XI (XI (XO (XI (XI (XI (XI
    XH))))))))))))))) :: [])) :: (((Zpos (XI (XI (XI (XI (XO (XI (XI (XO (XI
    (XO (XO (XI (XI (XI (XI (XI (XO XH)))))))))))))))))), ((Zpos (XO (XI (XO
    (XO (XO (XO (XO (XO (XO (XI (XI (XI (XI (XI
    XH))))))))))))))) :: [])) :: (((Zpos (XO (XO (XO (XO (XI (XI (XI (XO (XI
    (XO (XO (XI (XI (XI (XI (XI (XO XH)))))))))))))))))), ((Zpos (XI (XO (XI
    (XO (XO (XO (XI (XO (XO (XI (XI (XI (XI (XI
    XH))))))))))))))) :: [])) :: (((Zpos (XI (XO (XO (XO (XI (XI (XI (XO (XI
    (XO (XO (XI (XI (XI (XI (XI (XO XH)))))))))))))))))), ((Zpos (XO (XO (XI
    (XO (XI (XI (XO (XO (XI (XI (XO (XO (XO (XO
    XH))))))))))))))) :: [])) :: (((Zpos (XO (XI (XO (XO (XI (XI (XI (XO (XI
    (XO (XO (XI (XI (XI (XI (XI (XO XH)))))))))))))))))), ((Zpos (XO (XO (XO
    (XI (XO (XI (XO (XO (XO (XI (XO (XO (XO (XI (XI (XO (XO
    XH)))))))))))))))))) :: [])) :: (((Zpos (XI (XI (XO (XO (XI (XI (XI (XO
    (XI (XO (XO (XI (XI (XI (XI (XI (XO XH)))))))))))))))))), ((Zpos (XI (XI
    (XI (XO (XO (XO (XI (XO (XO (XI (XO (XO (XO (XI (XI (XO (XO
    XH)))))))))))))))))) :: [])) :: (((Zpos (XO (XO (XI (XO (XI (XI (XI (XO
    (XI (XO (XO (XI (XI (XI (XI (XI (XO XH)))))))))))))))))), ((Zpos (XI (XO
    (XO (XI (XI (XO (XI (XO (XI (XI (XO (XO (XO (XO
    XH))))))))))))))) :: [])) :: (((Zpos (XI (XO (XI (XO (XI (XI (XI (XO (XI
    (XO (XO (XI (XI (XI (XI (XI (XO XH)))))))))))))))))), ((Zpos (XI (XO (XO
    (XI (XI (XO (XI (XI (XO (XI (XO (XO (XO (XI (XI (XO (XO
    XH)))))))))))))))))) :: [])) :: (((Zpos (XO (XI (XI (XO (XI (XI (XI (XO
    (XI (XO (XO (XI (XI (XI (XI (XI (XO XH)))))))))))))))))), ((Zpos (XO (XI
    (XO (XI (XI (XI (XI (XO (XI (XI (XI (XI (XI (XI
    XH))))))))))))))) :: [])) :: (((Zpos (XI (XI (XI (XO (XI (XI (XI (XO (XI
    (XO (XO (XI (XI (XI (XI (XI (XO XH)))))))))))))))))), ((Zpos (XO (XI (XI
    (XI (XI (XI (XO (XO (XI (XI (XO (XO (XO (XI (XI (XO (XO
    XH)))))))))))))))))) :: [])) :: (((Zpos (XO (XO (XO (XI (XI (XI (XI (XO
    (XI (XO (XO (XI (XI (XI (XI (XI (XO XH)))))))))))))))))), ((Zpos (XI (XO
    (XI (XO (XI (XO (XO (XI (XI (XI (XI (XI (XI (XI
    XH))))))))))))))) :: [])) :: (((Zpos (XI (XO (XO (XI (XI (XI (XI (XO (XI
    (XO (XO (XI (XI (XI (XI (XI (XO XH)))))))))))))))))), ((Zpos (XO (XI (XO
    (XI (XI (XI (XI (XI (XI (XI (XI (XI (XI (XI
    XH))))))))))))))) :: [])) :: (((Zpos (XO (XI (XO (XI (XI (XI (XI (XO (XI
    (XO (XO (XI (XI (XI (XI (XI (XO XH)))))))))))))))))), ((Zpos (XI (XO (XI
    (XO (XO (XO (XO (XO (XO (XO (XO (XO (XO (XO (XO
    XH)))))))))))))))) :: [])) :: (((Zpos (XI (XI (XO (XI (XI (XI (XI (XO (XI
    (XO (XO (XI (XI (XI (XI (XI (XO XH)))))))))))))))))), ((Zpos (XO (XI (XO
    (XI (XI (XO (XI (XI (XO (XO (XI (XO (XO (XI (XI (XO (XO
    XH)))))))))))))))))) :: [])) :: (((Zpos (XO (XO (XI (XI (XI (XI (XI (XO
    (XI (XO (XO (XI (XI (XI (XI (XI (XO XH)))))))))))))))))), ((Zpos (XI (XI
    (XO (XO (XO (XI (XO (XO (XI (XO (XI (XO (XO (XI (XI (XO (XO
    XH)))))))))))))))))) :: [])) :: (((Zpos (XI (XO (XI (XI (XI (XI (XI (XO
    (XI (XO (XO (XI (XI (XI (XI (XI (XO XH)))))))))))))))))), ((Zpos (XO (XO
    (XO (XO (XO (XI (XI (XO (XO (XO (XO (XO (XO (XO (XO
    XH)))))))))))))))) :: [])) :: (((Zpos (XO (XI (XI (XI (XI (XI (XI (XO (XI
    (XO (XO (XI (XI (XI (XI (XI (XO XH)))))))))))))))))), ((Zpos (XO (XO (XO
    (XI (XO (XI (XO (XI (XI (XO (XI (XO (XO (XI (XI (XO (XO
    XH)))))))))))))))))) :: [])) :: (((Zpos (XI (XI (XI (XI (XI (XI (XI (XO
    (XI (XO (XO (XI (XI (XI (XI (XI (XO XH)))))))))))))))))), ((Zpos (XO (XO
    (XO (XO (XI (XI (XI (XO (XO (XO (XO (XO (XO (XO (XO
    XH)))))))))))))))) :: [])) :: (((Zpos (XO (XO (XO (XO (XO (XO (XO (XI (XI
    (XO (XO (XI (XI (XI (XI (XI (XO XH)))))))))))))))))), ((Zpos (XI (XI (XI
    (XI (XI (XO (XI (XO (XI (XI (XO (XO (XI (XI (XO (XO (XO
    XH)))))))))))))))))) :: [])) :: (((Zpos (XI (XO (XO (XO (XO (XO (XO (XI
    (XI (XO (XO (XI (XI (XI (XI (XI (XO XH)))))))))))))))))), ((Zpos (XI (XO
    (XI (XO (XI (XO (XI (XI (XI (XI (XO (XO (XO (XO
    XH))))))))))))))) :: [])) :: (((Zpos (XO (XI (XO (XO (XO (XO (XO (XI (XI
    (XO (XO (XI (XI (XI (XI (XI (XO XH)))))))))))))))))), ((Zpos (XO (XI (XO
    (XO (XI (XI (XO (XI (XO (XO (XO (XO (XO (XO (XO
    XH)))))))))))))))) :: [])) :: (((Zpos (XI (XI (XO (XO (XO (XO (XO (XI (XI
    (XO (XO (XI (XI (XI (XI (XI (XO XH)))))))))))))))))), ((Zpos (XI (XI (XO
    (XO (XO (XO (XO (XO (XI (XO (XO (XO (XO (XO (XO
    XH)))))))))))))))) :: [])) :: (((Zpos (XO (XO (XI (XO (XO (XO (XO (XI (XI
    (XO (XO (XI (XI (XI (XI (XI (XO XH)))))))))))))))))), ((Zpos (XI (XI (XO
    (XI (XO (XO (XO (XO (XO (XO (XI (XO (XO (XO
    XH))))))))))))))) :: [])) :: (((Zpos (XI (XO (XI (XO (XO (XO (XO (XI (XI
    (XO (XO (XI (XI (XI (XI (XI (XO XH)))))))))))))))))), ((Zpos (XO (XI (XI
    (XI (XI (XI (XO (XO (XI (XO (XO (XO (XO (XO (XO
    XH)))))))))))))))) :: [])) :: (((Zpos (XO (XI (XI (XO (XO (XO (XO (XI (XI
    (XO (XO (XI (XI (XI (XI (XI (XO XH)))))))))))))))))), ((Zpos (XI (XO (XI
    (XO (XI (XI (XO (XI (XO (XI (XO (XI (XI (XO
    XH))))))))))))))) :: [])) :: (((Zpos (XI (XI (XI (XO (XO (XO (XO (XI (XI
    (XO (XO (XI (XI (XI (XI (XI (XO XH)))))))))))))))))), ((Zpos (XI (XI (XI
    (XO (XO (XI (XO (XI (XI (XI (XI (XO (XO (XI (XI (XO (XO
    XH)))))))))))))))))) :: [])) :: (((Zpos (XO (XO (XO (XI (XO (XO (XO (XI
    (XI (XO (XO (XI (XI (XI (XI (XI (XO XH)))))))))))))))))), ((Zpos (XI (XO
    (XI (XO (XI (XI (XO (XI (XI (XI (XI (XO (XO (XI (XI (XO (XO
    XH)))))))))))))))))) :: [])) :: (((Zpos (XI (XO (XO (XI (XO (XO (XO (XI
    (XI (XO (XO (XI (XI (XI (XI (XI (XO XH)))))))))))))))))), ((Zpos (XI (XI
    (XO (XO (XI (XO (XO (XI (XI (XI (XO (XO (XI (XI (XO (XO (XO
    XH)))))))))))))))))) :: [])) :: (((Zpos (XO (XI (XO (XI (XO (XO (XO (XI
    (XI (XO (XO (XI (XI (XI (XI (XI (XO XH)))))))))))))))))), ((Zpos (XO (XO
    (XI (XI (XI (XO (XO (XI (XI (XI (XO (XO (XI (XI (XO (XO (XO
    XH)))))))))))))))))) :: [])) :: (((Zpos (XI (XI (XO (XI (XO (XO (XO (XI
    (XI (XO (XO (XI (XI (XI (XI (XI (XO XH)))))))))))))))))), ((Zpos (XI (XO
    (XO (XO (XO (XO (XO (XO (XO (XI (XO (XO (XO (XO (XO
    XH)))))))))))))))) :: [])) :: (((Zpos (XO (XO (XI (XI (XO (XO (XO (XI (XI
    (XO (XO (XI (XI (XI (XI (XI (XO XH)))))))))))))))))), ((Zpos (XO (XO (XI
    (XO (XO (XO (XO (XO (XO (XI (XO (XO (XO (XO (XO
    XH)))))))))))))))) :: [])) :: (((Zpos (XI (XO (XI (XI (XO (XO (XO (XI (XI
    (XO (XO (XI (XI (XI (XI (XI (XO XH)))))))))))))))))), ((Zpos (XO (XI (XI
    (XI (XI (XO (XO (XI (XI (XI (XI (XI (XO (XO (XO
    XH)))))))))))))))) :: [])) :: (((Zpos (XO (XI (XI (XI (XO (XO (XO (XI (XI
    (XO (XO (XI (XI (XI (XI (XI (XO XH)))))))))))))))))), ((Zpos (XI (XI (XO
    (XI (XO (XI (XI (XO (XO (XO (XI (XO (XO (XO
    XH))))))))))))))) :: [])) :: (((Zpos (XI (XI (XI (XI (XO (XO (XO (XI (XI
    (XO (XO (XI (XI (XI (XI (XI (XO XH)))))))))))))))))), ((Zpos (XI (XO (XO
    (XO (XI (XO (XO (XI (XO (XI (XO (XO (XO (XO (XO
    XH)))))))))))))))) :: [])) :: (((Zpos (XO (XO (XO (XO (XI (XO (XO (XI (XI
    (XO (XO (XI (XI (XI (XI (XI (XO XH)))))))))))))))))), ((Zpos (XI (XI (XO
    (XI (XO (XO (XO (XI (XO (XI (XO (XO (XO (XO (XO
    XH)))))))))))))))) :: [])) :: (((Zpos (XI (XO (XO (XO (XI (XO (XO (XI (XI
    (XO (XO (XI (XI (XI (XI (XI (XO XH)))))))))))))))))), ((Zpos (XI (XO (XI
    (XI (XI (XO (XO (XI (XO (XI (XO (XO (XO (XO (XO
    XH)))))))))))))))) :: [])) :: (((Zpos (XO (XI (XO (XO (XI (XO (XO (XI (XI
    (XO (XO (XI (XI (XI (XI (XI (XO XH)))))))))))))))))), ((Zpos (XI (XI (XO
    (XO (XI (XI (XO (XI (XO (XI (XO (XO (XI (XO
    XH))))))))))))))) :: [])) :: (((Zpos (XI (XI (XO (XO (XI (XO (XO (XI (XI
    (XO (XO (XI (XI (XI (XI (XI (XO XH)))))))))))))))))), ((Zpos (XI (XO (XO
    (XO (XI (XI (XO (XI (XO (XI (XO (XO (XO (XO (XO
    XH)))))))))))))))) :: [])) :: (((Zpos (XO (XO (XI (XO (XI (XO (XO (XI (XI
    (XO (XO (XI (XI (XI (XI (XI (XO XH)))))))))))))))))), ((Zpos (XI (XI (XO
    (XO (XI (XI (XO (XI (XO (XI (XO (XO (XO (XO (XO
    XH)))))))))))))))) :: [])) :: (((Zpos (XI (XO (XI (XO (XI (XO (XO (XI (XI
    (XO (XO (XI (XI (XI (XI (XI (XO XH)))))))))))))))))), ((Zpos (XI (XO (XI
    (XI (XI (XI (XO (XI (XO (XI (XO (XO (XO (XO (XO
    XH)))))))))))))))) :: [])) :: (((Zpos (XO (XI (XI (XO (XI (XO (XO (XI (XI
    (XO (XO (XI (XI (XI (XI (XI (XO XH)))))))))))))))))), ((Zpos (XO (XI (XI
    (XO (XO (XI (XI (XI (XO (XI (XO (XO (XO (XO (XO
    XH)))))))))))))))) :: [])) :: (((Zpos (XI (XI (XI (XO (XI (XO (XO (XI (XI
    (XO (XO (XI (XI (XI (XI (XI (XO XH)))))))))))))))))), ((Zpos (XO (XO (XI
    (XI (XI (XI (XO (XO (XI (XI (XO (XI (XO (XI (XI (XO (XO
    XH)))))))))))))))))) :: [])) :: (((Zpos (XO (XO (XO (XI (XI (XO (XO (XI
    (XI (XO (XO (XI (XI (XI (XI (XI (XO XH)))))))))))))))))), ((Zpos (XI (XO
    (XI (XO (XO (XI (XI (XI (XO (XI (XO (XO (XO (XO (XO
    XH)))))))))))))))) :: [])) :: (((Zpos (XI (XO (XO (XI (XI (XO (XO (XI (XI
    (XO (XO (XI (XI (XI (XI (XI (XO XH)))))))))))))))))), ((Zpos (XI (XO (XI
    (XI (XI (XO (XO (XO (XI (XI (XO (XO (XO (XO (XO
    XH)))))))))))))))) :: [])) :: (((Zpos (XO (XI (XO (XI (XI (XO (XO (XI (XI
    (XO (XO (XI (XI (XI (XI (XI (XO XH)))))))))))))))))), ((Zpos (XI (XI (XO
    (XO (XO (XI (XI (XO (XI (XI (XO (XO (XO (XO (XO
    XH)))))))))))))))) :: [])) :: (((Zpos (XI (XI (XO (XI (XI (XO (XO (XI (XI
    (XO (XO (XI (XI (XI (XI (XI (XO XH)))))))))))))))))), ((Zpos (XI (XO (XI
    (XI (XO (XI (XO (XI (XI (XI (XO (XO (XO (XO (XO
    XH)))))))))))))))) :: [])) :: (((Zpos (XO (XO (XI (XI (XI (XO (XO (XI (XI
    (XO (XO (XI (XI (XI (XI (XI (XO XH)))))))))))))))))), ((Zpos (XI (XI (XO
    (XO (XO (XI (XO (XO (XI (XI (XO (XO (XO (XO (XO
    XH)))))))))))))))) :: [])) :: (((Zpos (XI (XO (XI (XI (XI (XO (XO (XI (XI
    (XO (XO (XI (XI (XI (XI (XI (XO XH)))))))))))))))))), ((Zpos (XI (XO (XI
    (XI (XI (XI (XO (XI (XI (XI (XO (XO (XO (XO (XO
    XH)))))))))))))))) :: [])) :: (((Zpos (XO (XI (XI (XI (XI (XO (XO (XI (XI
    (XO (XO (XI (XI (XI (XI (XI (XO XH)))))))))))))))))), ((Zpos (XI (XI (XI
    (XO (XO (XI (XI (XI (XI (XI (XO (XO (XO (XO (XO
    XH)))))))))))))))) :: [])) :: (((Zpos (XI (XI (XI (XI (XI (XO (XO (XI (XI
    (XO (XO (XI (XI (XI (XI (XI (XO XH)))))))))))))))))), ((Zpos (XI (XI (XI
    (XO (XI (XO (XI (XO (XO (XO (XI (XO (XO (XO (XO
    XH)))))))))))))))) :: [])) :: (((Zpos (XO (XO (XO (XO (XO (XI (XO (XI (XI
    (XO (XO (XI (XI (XI (XI (XI (XO XH)))))))))))))))))), ((Zpos (XI (XI (XO
    (XO (XI (XO (XI (XO (XI (XI (XO (XO (XO (XO (XO
    XH)))))))))))))))) :: [])) :: (((Zpos (XI (XO (XO (XO (XO (XI (XO (XI (XI
    (XO (XO (XI (XI (XI (XI (XI (XO XH)))))))))))))))))), ((Zpos (XO (XI (XO
    (XI (XO (XO (XI (XI (XI (XI (XO (XO (XO (XO (XO
    XH)))))))))))))))) :: [])) :: (((Zpos (XO (XI (XO (XO (XO (XI (XO (XI (XI
    (XO (XO (XI (XI (XI (XI (XI (XO XH)))))))))))))))))), ((Zpos (XO (XO (XI
    (XI (XO (XO (XI (XI (XI (XI (XO (XO (XO (XO (XO
    XH)))))))))))))))) :: [])) :: (((Zpos (XI (XI (XO (XO (XO (XI (XO (XI (XI
    (XO (XO (XI (XI (XI (XI (XI (XO XH)))))))))))))))))), ((Zpos (XO (XO (XI
    (XI (XI (XO (XI (XI (XI (XI (XO (XO (XO (XO (XO
    XH)))))))))))))))) :: [])) :: (((Zpos (XO (XO (XI (XO (XO (XI (XO (XI (XI
    (XO (XO (XI (XI (XI (XI (XI (XO XH)))))))))))))))))), ((Zpos (XO (XI (XI
    (XO (XI (XI (XO (XO (XO (XO (XI (XI (XO (XI (XI (XO (XO
    XH)))))))))))))))))) :: [])) :: (((Zpos (XI (XO (XI (XO (XO (XI (XO (XI
    (XI (XO (XO (XI (XI (XI (XI (XI (XO XH)))))))))))))))))), ((Zpos (XI (XI
    (XO (XI (XO (XI (XI (XO (XI (XO (XI (XI (XO (XI (XI (XO (XO
    XH)))))))))))))))))) :: [])) :: (((Zpos (XO (XI (XI (XO (XO (XI (XO (XI
    (XI (XO (XO (XI (XI (XI (XI (XI (XO XH)))))))))))))))))), ((Zpos (XI (XO
    (XI (XO (XI (XO (XI (XI (XO (XO (XI (XI (XO (XI (XI (XO (XO
    XH)))))))))))))))))) :: [])) :: (((Zpos (XI (XI (XI (XO (XO (XI (XO (XI
    (XI (XO (XO (XI (XI (XI (XI (XI (XO XH)))))))))))))))))), ((Zpos (XI (XI
    (XO (XI (XO (XI (XO (XO (XI (XO (XI (XO (XO (XO
    XH))))))))))))))) :: [])) :: (((Zpos (XO (XO (XO (XI (XO (XI (XO (XI (XI
    (XO (XO (XI (XI (XI (XI (XI (XO XH)))))))))))))))))), ((Zpos (XI (XO (XO
    (XO (XI (XI (XI (XI (XO (XO (XI (XO (XO (XO (XO
    XH)))))))))))))))) :: [])) :: (((Zpos (XI (XO (XO (XI (XO (XI (XO (XI (XI
    (XO (XO (XI (XI (XI (XI (XI (XO XH)))))))))))))))))), ((Zpos (XI (XI (XO
    (XO (XI (XI (XI (XI (XO (XO (XI (XO (XO (XO (XO
    XH)))))))))))))))) :: [])) :: (((Zpos (XO (XI (XO (XI (XO (XI (XO (XI (XI
    (XO (XO (XI (XI (XI (XI (XI (XO XH)))))))))))))))))), ((Zpos (XO (XI (XI
    (XO (XI (XO (XO (XO (XI (XO (XI (XO (XO (XO (XO
    XH)))))))))))))))) :: [])) :: (((Zpos (XI (XI (XO (XI (XO (XI (XO (XI (XI
    (XO (XO (XI (XI (XI (XI (XI (XO XH)))))))))))))))))), ((Zpos (XO (XI (XO
    (XI (XO (XO (XI (XI (XI (XI (XO (XO (XI (XI (XI (XO (XO
    XH)))))))))))))))))) :: [])) :: (((Zpos (XO (XO (XI (XI (XO (XI (XO (XI
    (XI (XO (XO (XI (XI (XI (XI (XI (XO XH)))))))))))))))))), ((Zpos (XO (XO
    (XI (XO (XO (XI (XI (XO (XI (XO (XI (XO (XO (XO (XO
    XH)))))))))))))))) :: [])) :: (((Zpos (XI (XO (XI (XI (XO (XI (XO (XI (XI
    (XO (XO (XI (XI (XI (XI (XI (XO XH)))))))))))))))))), ((Zpos (XO (XO (XI
    (XI (XO (XI (XO (XO (XI (XI (XI (XI (XO (XI (XI (XO (XO
    XH)))))))))))))))))) :: [])) :: (((Zpos (XO (XI (XI (XI (XO (XI (XO (XI
    (XI (XO (XO (XI (XI (XI (XI (XI (XO XH)))))))))))))))))), ((Zpos (XI (XO
    (XI (XI (XI (XO (XI (XO (XI (XO (XI (XO (XO (XO
    XH))))))))))))))) :: [])) :: (((Zpos (XI (XI (XI (XI (XO (XI (XO (XI (XI
    (XO (XO (XI (XI (XI (XI (XI (XO XH)))))))))))))))))), ((Zpos (XI (XO (XO
    (XO (XO (XI (XI (XO (XI (XO (XI (XO (XO (XO
    XH))))))))))))))) :: [])) :: (((Zpos (XO (XO (XO (XO (XI (XI (XO (XI (XI
    (XO (XO (XI (XI (XI (XI (XI (XO XH)))))))))))))))))), ((Zpos (XI (XO (XO
    (XO (XI (XI (XO (XI (XI (XI (XI (XI (XO (XI (XI (XO (XO
    XH)))))))))))))))))) :: [])) :: (((Zpos (XI (XO (XO (XO (XI (XI (XO (XI
    (XI (XO (XO (XI (XI (XI (XI (XI (XO XH)))))))))))))))))), ((Zpos (XO (XI
    (XO (XO (XI (XO (XI (XI (XO (XO (XO (XO (XI (XI (XI (XO (XO
    XH)))))))))))))))))) :: [])) :: (((Zpos (XO (XI (XO (XO (XI (XI (XO (XI
    (XI (XO (XO (XI (XI (XI (XI (XI (XO XH)))))))))))))))))), ((Zpos (XI (XI
    (XO (XI (XO (XI (XI (XO (XI (XO (XI (XO (XO (XO
    XH))))))))))))))) :: [])) :: (((Zpos (XI (XI (XO (XO (XI (XI (XO (XI (XI
    (XO (XO (XI (XI (XI (XI (XI (XO XH)))))))))))))))))), ((Zpos (XO (XO (XO
    (XO (XI (XO (XI (XO (XO (XI (XI (XO (XO (XO (XO
    XH)))))))))))))))) :: [])) :: (((Zpos (XO (XO (XI (XO (XI (XI (XO (XI (XI
    (XO (XO (XI (XI (XI (XI (XI (XO XH)))))))))))))))))), ((Zpos (XO (XO (XI
    (XI (XI (XO (XI (XO (XO (XI (XI (XO (XO (XO (XO
    XH)))))))))))))))) :: [])) :: (((Zpos (XI (XO (XI (XO (XI (XI (XO (XI (XI
    (XO (XO (XI (XI (XI (XI (XI (XO XH)))))))))))))))))), ((Zpos (XI (XI (XI
    (XO (XO (XI (XI (XO (XO (XI (XI (XO (XO (XO (XO
    XH)))))))))))))))) :: [])) :: (((Zpos (XO (XI (XI (XO (XI (XI (XO (XI (XI
    (XO (XO (XI (XI (XI (XI (XI (XO XH)))))))))))))))))), ((Zpos (XI (XO (XO
    (XI (XO (XI (XI (XO (XO (XI (XI (XO (XO (XO (XO
    XH)))))))))))))))) :: [])) :: (((Zpos (XI (XI (XI (XO (XI (XI (XO (XI (XI
    (XO (XO (XI (XI (XI (XI (XI (XO XH)))))))))))))))))), ((Zpos (XI (XO (XO
    (XI (XO (XI (XO (XI (XO (XI (XI (XO (XO (XO (XO
    XH)))))))))))))))) :: [])) :: (((Zpos (XO (XO (XO (XI (XI (XI (XO (XI (XI
    (XO (XO (XI (XI (XI (XI (XI (XO XH)))))))))))))))))), ((Zpos (XO (XO (XO
    (XI (XO (XO (XO (XI (XO (XI (XI (XO (XO (XO (XO
    XH)))))))))))))))) :: [])) :: (((Zpos (XI (XO (XO (XI (XI (XI (XO (XI (XI
    (XO (XO (XI (XI (XI (XI (XI (XO XH)))))))))))))))))), ((Zpos (XO (XI (XI
    (XI (XO (XO (XO (XO (XI (XI (XI (XO (XO (XO (XO
    XH)))))))))))))))) :: [])) :: (((Zpos (XO (XI (XO (XI (XI (XI (XO (XI (XI
    (XO (XO (XI (XI (XI (XI (XI (XO XH)))))))))))))))))), ((Zpos (XO (XI (XO
    (XO (XO (XI (XI (XI (XO (XI (XI (XO (XO (XO (XO
    XH)))))))))))))))) :: [])) :: (((Zpos (XI (XI (XO (XI (XI (XI (XO (XI (XI
    (XO (XO (XI (XI (XI (XI (XI (XO XH)))))))))))))))))), ((Zpos (XI (XO (XO
    (XI (XI (XI (XI (XO (XI (XI (XI (XO (XO (XO (XO
    XH)))))))))))))))) :: [])) :: (((Zpos (XO (XO (XI (XI (XI (XI (XO (XI (XI
    (XO (XO (XI (XI (XI (XI (XI (XO XH)))))))))))))))))), ((Zpos (XO (XO (XO
    (XI (XO (XI (XO (XO (XI (XI (XI (XO (XO (XO (XO
    XH)))))))))))))))) :: [])) :: (((Zpos (XI (XO (XI (XI (XI (XI (XO (XI (XI
    (XO (XO (XI (XI (XI (XI (XI (XO XH)))))))))))))))))), ((Zpos (XI (XI (XO
    (XI (XO (XI (XI (XO (XI (XI (XI (XO (XO (XO (XO
    XH)))))))))))))))) :: [])) :: (((Zpos (XO (XI (XI (XI (XI (XI (XO (XI (XI
    (XO (XO (XI (XI (XI (XI (XI (XO XH)))))))))))))))))), ((Zpos (XO (XI (XI
    (XO (XO (XO (XO (XI (XI (XI (XI (XO (XO (XO (XO
    XH)))))))))))))))) :: [])) :: (((Zpos (XI (XI (XI (XI (XI (XI (XO (XI (XI
    (XO (XO (XI (XI (XI (XI (XI (XO XH)))))))))))))))))), ((Zpos (XI (XI (XI
    (XO (XI (XO (XI (XI (XI (XO (XI (XO (XO (XO
    XH))))))))))))))) :: [])) :: (((Zpos (XO (XO (XO (XO (XO (XO (XI (XI (XI
    (XO (XO (XI (XI (XI (XI (XI (XO XH)))))))))))))))))), ((Zpos (XI (XO (XO
    (XO (XO (XI (XI (XI (XI (XI (XI (XO (XO (XO (XO
    XH)))))))))))))))) :: [])) :: (((Zpos (XI (XO (XO (XO (XO (XO (XI (XI (XI
    (XO (XO (XI (XI (XI (XI (XI (XO XH)))))))))))))))))), ((Zpos (XI (XO (XO
    (XO (XO (XO (XO (XO (XO (XO (XO (XI (XO (XO (XO
    XH)))))))))))))))) :: [])) :: (((Zpos (XO (XI (XO (XO (XO (XO (XI (XI (XI
    (XO (XO (XI (XI (XI (XI (XI (XO XH)))))))))))))))))), ((Zpos (XI (XO (XO
    (XI (XI (XI (XI (XI (XI (XO (XI (XO (XO (XO
    XH))))))))))))))) :: [])) :: (((Zpos (XI (XI (XO (XO (XO (XO (XI (XI (XI
    (XO (XO (XI (XI (XI (XI (XI (XO XH)))))))))))))))))), ((Zpos (XO (XO (XO
    (XO (XO (XI (XI (XO (XO (XO (XO (XI (XO (XO (XO
    XH)))))))))))))))) :: [])) :: (((Zpos (XO (XO (XI (XO (XO (XO (XI (XI (XI
    (XO (XO (XI (XI (XI (XI (XI (XO XH)))))))))))))))))), ((Zpos (XI (XI (XO
    (XO (XO (XI (XI (XO (XO (XO (XO (XI (XO (XO (XO
    XH)))))))))))))))) :: [])) :: (((Zpos (XI (XO (XI (XO (XO (XO (XI (XI (XI
    (XO (XO (XI (XI (XI (XI (XI (XO XH)))))))))))))))))), ((Zpos (XI (XI (XI
    (XO (XO (XI (XI (XO (XO (XI (XI (XO (XI (XI (XI (XO (XO
    XH)))))))))))))))))) :: [])) :: (((Zpos (XO (XI (XI (XO (XO (XO (XI (XI
    (XI (XO (XO (XI (XI (XI (XI (XI (XO XH)))))))))))))))))), ((Zpos (XI (XI
    (XI (XO (XI (XO (XI (XI (XO (XO (XO (XI (XO (XO (XO
    XH)))))))))))))))) :: [])) :: (((Zpos (XI (XI (XI (XO (XO (XO (XI (XI (XI
    (XO (XO (XI (XI (XI (XI (XI (XO XH)))))))))))))))))), ((Zpos (XO (XI (XI
    (XI (XI (XO (XI (XI (XO (XO (XO (XI (XO (XO (XO
    XH)))))))))))))))) :: [])) :: (((Zpos (XO (XO (XO (XI (XO (XO (XI (XI (XI
    (XO (XO (XI (XI (XI (XI (XI (XO XH)))))))))))))))))), ((Zpos (XI (XO (XI
    (XO (XI (XI (XO (XO (XO (XI (XI (XO (XO (XO
    XH))))))))))))))) :: [])) :: (((Zpos (XI (XO (XO (XI (XO (XO (XI (XI (XI
    (XO (XO (XI (XI (XI (XI (XI (XO XH)))))))))))))))))), ((Zpos (XO (XI (XO
    (XI (XI (XI (XI (XI (XO (XO (XO (XI (XO (XO (XO
    XH)))))))))))))))) :: [])) :: (((Zpos (XO (XI (XO (XI (XO (XO (XI (XI (XI
    (XO (XO (XI (XI (XI (XI (XI (XO XH)))))))))))))))))), ((Zpos (XI (XI (XO
    (XI (XI (XI (XO (XI (XO (XO (XI (XO (XI
    XH)))))))))))))) :: [])) :: (((Zpos (XI (XI (XO (XI (XO (XO (XI (XI (XI
    (XO (XO (XI (XI (XI (XI (XI (XO XH)))))))))))))))))), ((Zpos (XO (XI (XI
    (XI (XO (XI (XO (XI (XO (XO (XO (XI (XI (XI (XI (XO (XO
    XH)))))))))))))))))) :: [])) :: (((Zpos (XO (XO (XI (XI (XO (XO (XI (XI
    (XI (XO (XO (XI (XI (XI (XI (XI (XO XH)))))))))))))))))), ((Zpos (XO (XI
    (XI (XO (XO (XI (XI (XO (XI (XO (XO (XI (XI (XI (XI (XO (XO
    XH)))))))))))))))))) :: [])) :: (((Zpos (XI (XO (XI (XI (XO (XO (XI (XI
    (XI (XO (XO (XI (XI (XI (XI (XI (XO XH)))))))))))))))))), ((Zpos (XO (XI
    (XI (XI (XI (XI (XO (XI (XO (XI (XI (XO (XO (XO
    XH))))))))))))))) :: [])) :: (((Zpos (XO (XI (XI (XI (XO (XO (XI (XI (XI
    (XO (XO (XI (XI (XI (XI (XI (XO XH)))))))))))))))))), ((Zpos (XI (XI (XI
    (XO (XO (XO (XI (XI (XO (XI (XI (XO (XO (XO
    XH))))))))))))))) :: [])) :: (((Zpos (XI (XI (XI (XI (XO (XO (XI (XI (XI
    (XO (XO (XI (XI (XI (XI (XI (XO XH)))))))))))))))))), ((Zpos (XO (XO (XO
    (XO (XO (XI (XO (XI (XO (XI (XO (XI (XO (XO (XO
    XH)))))))))))))))) :: [])) :: (((Zpos (XO (XO (XO (XO (XI (XO (XI (XI (XI
    (XO (XO (XI (XI (XI (XI (XI (XO XH)))))))))))))))))), ((Zpos (XI (XO (XI
    (XI (XO (XI (XI (XI (XO (XI (XO (XI (XO (XO (XO
    XH)))))))))))))))) :: [])) :: (((Zpos (XI (XO (XO (XO (XI (XO (XI (XI (XI
    (XO (XO (XI (XI (XI (XI (XI (XO XH)))))))))))))))))), ((Zpos (XO (XI (XO
    (XI (XO (XO (XO (XI (XI (XI (XO (XI (XO (XO (XO
    XH)))))))))))))))) :: [])) :: (((Zpos (XO (XI (XO (XO (XI (XO (XI (XI (XI
    (XO (XO (XI (XI (XI (XI (XI (XO XH)))))))))))))))))), ((Zpos (XI (XO (XI
    (XO (XI (XO (XI (XO (XO (XO (XI (XI (XO (XO (XO
    XH)))))))))))))))) :: [])) :: (((Zpos (XI (XI (XO (XO (XI (XO (XI (XI (XI
    (XO (XO (XI (XI (XI (XI (XI (XO XH)))))))))))))))))), ((Zpos (XO (XO (XO
    (XI (XO (XI (XO (XI (XO (XO (XI (XI (XI (XI (XI (XO (XO
    XH)))))))))))))))))) :: [])) :: (((Zpos (XO (XO (XI (XO (XI (XO (XI (XI
    (XI (XO (XO (XI (XI (XI (XI (XI (XO XH)))))))))))))))))), ((Zpos (XI (XI
    (XO (XI (XO (XI (XO (XI (XO (XO (XI (XI (XO (XO (XO
    XH)))))))))))))))) :: [])) :: (((Zpos (XI (XO (XI (XO (XI (XO (XI (XI (XI
    (XO (XO (XI (XI (XI (XI (XI (XO XH)))))))))))))))))), ((Zpos (XI (XO (XO
    (XO (XO (XO (XI (XI (XO (XO (XI (XI (XO (XO (XO
    XH)))))))))))))))) :: [])) :: (((Zpos (XO (XI (XI (XO (XI (XO (XI (XI (XI
    (XO (XO (XI (XI (XI (XI (XI (XO XH)))))))))))))))))), ((Zpos (XI (XI (XO
    (XI (XI (XO (XO (XO (XI (XO (XI (XI (XO (XO (XO
    XH)))))))))))))))) :: [])) :: (((Zpos (XI (XI (XI (XO (XI (XO (XI (XI (XI
    (XO (XO (XI (XI (XI (XI (XI (XO XH)))))))))))))))))), ((Zpos (XI (XI (XI
    (XO (XI (XI (XI (XO (XI (XO (XI (XI (XO (XO (XO
    XH)))))))))))))))) :: [])) :: (((Zpos (XO (XO (XO (XI (XI (XO (XI (XI (XI
    (XO (XO (XI (XI (XI (XI (XI (XO XH)))))))))))))))))), ((Zpos (XI (XI (XI
    (XI (XO (XI (XO (XO (XI (XI (XI (XI (XI (XI (XI (XO (XO
    XH)))))))))))))))))) :: [])) :: (((Zpos (XI (XO (XO (XI (XI (XO (XI (XI
    (XI (XO (XO (XI (XI (XI (XI (XI (XO XH)))))))))))))))))), ((Zpos (XO (XO
    (XI (XO (XO (XO (XO (XO (XO (XO (XO (XI (XO (XO (XO (XO (XO
    XH)))))))))))))))))) :: [])) :: (((Zpos (XO (XI (XO (XI (XI (XO (XI (XI
    (XI (XO (XO (XI (XI (XI (XI (XI (XO XH)))))))))))))))))), ((Zpos (XI (XI
    (XO (XI (XO (XO (XI (XI (XI (XO (XI (XI (XO (XO (XO
    XH)))))))))))))))) :: [])) :: (((Zpos (XI (XI (XO (XI (XI (XO (XI (XI (XI
    (XO (XO (XI (XI (XI (XI (XI (XO XH)))))))))))))))))), ((Zpos (XO (XO (XI
    (XI (XI (XI (XO (XI (XI (XO (XI (XI (XO (XO (XO
    XH)))))))))))))))) :: [])) :: (((Zpos (XO (XO (XI (XI (XI (XO (XI (XI (XI
    (XO (XO (XI (XI (XI (XI (XI (XO XH)))))))))))))))))), ((Zpos (XO (XO (XO
    (XO (XI (XI (XI (XI (XI (XO (XI (XI (XO (XO (XO
    XH)))))))))))))))) :: [])) :: (((Zpos (XI (XO (XI (XI (XI (XO (XI (XI (XI
    (XO (XO (XI (XI (XI (XI (XI (XO XH)))))))))))))))))), ((Zpos (XO (XI (XI
    (XI (XI (XO (XI (XI (XO (XO (XO (XI (XO (XO (XO (XO (XO
    XH)))))))))))))))))) :: [])) :: (((Zpos (XO (XI (XI (XI (XI (XO (XI (XI
    (XI (XO (XO (XI (XI (XI (XI (XI (XO XH)))))))))))))))))), ((Zpos (XO (XO
    (XI (XO (XI (XO (XI (XI (XO (XI (XI (XI (XO (XO (XO
    XH)))))))))))))))) :: [])) :: (((Zpos (XI (XI (XI (XI (XI (XO (XI (XI (XI
    (XO (XO (XI (XI (XI (XI (XI (XO XH)))))))))))))))))), ((Zpos (XO (XO (XO
    (XI (XI (XI (XO (XO (XI (XI (XI (XI (XO (XO (XO
    XH)))))))))))))))) :: [])) :: (((Zpos (XO (XO (XO (XO (XO (XI (XI (XI (XI
    (XO (XO (XI (XI (XI (XI (XI (XO XH)))))))))))))))))), ((Zpos (XO (XI (XO
    (XO (XI (XO (XI (XI (XI (XO (XI (XO (XO (XO (XO (XI (XO
    XH)))))))))))))))))) :: [])) :: (((Zpos (XI (XO (XO (XO (XO (XI (XI (XI
    (XI (XO (XO (XI (XI (XI (XI (XI (XO XH)))))))))))))))))), ((Zpos (XI (XO
    (XI (XI (XO (XI (XI (XI (XI (XO (XI (XO (XO (XO (XO (XI (XO
    XH)))))))))))))))))) :: [])) :: (((Zpos (XO (XI (XO (XO (XO (XI (XI (XI
    (XI (XO (XO (XI (XI (XI (XI (XI (XO XH)))))))))))))))))), ((Zpos (XO (XO
    (XI (XO (XI (XO (XO (XI (XO (XO (XO (XO (XI (XO (XO
    XH)))))))))))))))) :: [])) :: (((Zpos (XI (XI (XO (XO (XO (XI (XI (XI (XI
    (XO (XO (XI (XI (XI (XI (XI (XO XH)))))))))))))))))), ((Zpos (XI (XO (XO
    (XO (XI (XI (XI (XI (XO (XO (XO (XO (XI (XO (XO
    XH)))))))))))))))) :: [])) :: (((Zpos (XO (XO (XI (XO (XO (XI (XI (XI (XI
    (XO (XO (XI (XI (XI (XI (XI (XO XH)))))))))))))))))), ((Zpos (XI (XO (XO
    (XO (XI (XO (XO (XO (XI (XO (XO (XO (XI (XO (XO
    XH)))))))))))))))) :: [])) :: (((Zpos (XI (XO (XI (XO (XO (XI (XI (XI (XI
    (XO (XO (XI (XI (XI (XI (XI (XO XH)))))))))))))))))), ((Zpos (XO (XI (XI
    (XI (XO (XI (XO (XO (XI (XI (XI (XO (XO (XO (XO (XI (XO
    XH)))))))))))))))))) :: [])) :: (((Zpos (XO (XI (XI (XO (XO (XI (XI (XI
    (XI (XO (XO (XI (XI (XI (XI (XI (XO XH)))))))))))))))))), ((Zpos (XI (XI
    (XO (XI (XI (XO (XO (XO (XI (XO (XO (XO (XI (XO (XO
    XH)))))))))))))))) :: [])) :: (((Zpos (XI (XI (XI (XO (XO (XI (XI (XI (XI
    (XO (XO (XI (XI (XI (XI (XI (XO XH)))))))))))))))))), ((Zpos (XO (XO (XO
    (XI (XI (XI (XO (XO (XO (XI (XO (XO (XI (XO (XO
    XH)))))))))))))))) :: [])) :: (((Zpos (XO (XO (XO (XI (XO (XI (XI (XI (XI
    (XO (XO (XI (XI (XI (XI (XI (XO XH)))))))))))))))))), ((Zpos (XI (XI (XI
    (XO (XI (XO (XI (XI (XO (XI (XO (XO (XI (XO (XO
    XH)))))))))))))))) :: [])) :: (((Zpos (XI (XO (XO (XI (XO (XI (XI (XI (XI
    (XO (XO (XI (XI (XI (XI (XI (XO XH)))))))))))))))))), ((Zpos (XO (XO (XO
    (XI (XI (XO (XI (XI (XO (XI (XO (XO (XI (XO (XO
    XH)))))))))))))))) :: [])) :: (((Zpos (XO (XI (XO (XI (XO (XI (XI (XI (XI
    (XO (XO (XI (XI (XI (XI (XI (XO XH)))))))))))))))))), ((Zpos (XO (XO (XI
    (XI (XI (XI (XI (XO (XO (XI (XO (XO (XI (XO (XO
    XH)))))))))))))))) :: [])) :: (((Zpos (XI (XI (XO (XI (XO (XI (XI (XI (XI
    (XO (XO (XI (XI (XI (XI (XI (XO XH)))))))))))))))))), ((Zpos (XI (XO (XO
    (XI (XI (XI (XI (XI (XI (XI (XO (XO (XI (XO (XO
    XH)))))))))))))))) :: [])) :: (((Zpos (XO (XO (XI (XI (XO (XI (XI (XI (XI
    (XO (XO (XI (XI (XI (XI (XI (XO XH)))))))))))))))))), ((Zpos (XI (XO (XI
    (XO (XI (XO (XO (XO (XO (XO (XI (XO (XI (XO (XO
    XH)))))))))))))))) :: [])) :: (((Zpos (XI (XO (XI (XI (XO (XI (XI (XI (XI
    (XO (XO (XI (XI (XI (XI (XI (XO XH)))))))))))))))))), ((Zpos (XO (XI (XO
    (XI (XI (XI (XI (XI (XI (XI (XO (XI (XO (XO (XO (XI (XO
    XH)))))))))))))))))) :: [])) :: (((Zpos (XO (XI (XI (XI (XO (XI (XI (XI
    (XI (XO (XO (XI (XI (XI (XI (XI (XO XH)))))))))))))))))), ((Zpos (XI (XI
    (XO (XI (XO (XO (XO (XI (XI (XO (XI (XO (XI (XO (XO
    XH)))))))))))))))) :: [])) :: (((Zpos (XI (XI (XI (XI (XO (XI (XI (XI (XI
    (XO (XO (XI (XI (XI (XI (XI (XO XH)))))))))))))))))), ((Zpos (XI (XO (XI
    (XO (XI (XO (XO (XI (XI (XO (XO (XI (XO (XO
    XH))))))))))))))) :: [])) :: (((Zpos (XO (XO (XO (XO (XI (XI (XI (XI (XI
    (XO (XO (XI (XI (XI (XI (XI (XO XH)))))))))))))))))), ((Zpos (XI (XI (XI
    (XO (XI (XI (XO (XI (XI (XO (XI (XO (XI (XO (XO
    XH)))))))))))))))) :: [])) :: (((Zpos (XI (XO (XO (XO (XI (XI (XI (XI (XI
    (XO (XO (XI (XI (XI (XI (XI (XO XH)))))))))))))))))), ((Zpos (XI (XI (XI
    (XO (XI (XI (XI (XO (XI (XO (XI (XI (XO (XO (XO (XI (XO
    XH)))))))))))))))))) :: [])) :: (((Zpos (XO (XI (XO (XO (XI (XI (XI (XI
    (XI (XO (XO (XI (XI (XI (XI (XI (XO XH)))))))))))))))))), ((Zpos (XO (XI
    (XI (XO (XO (XI (XI (XI (XI (XO (XO (XI (XO (XO
    XH))))))))))))))) :: [])) :: (((Zpos (XI (XI (XO (XO (XI (XI (XI (XI (XI
    (XO (XO (XI (XI (XI (XI (XI (XO XH)))))))))))))))))), ((Zpos (XI (XI (XO
    (XO (XO (XO (XI (XI (XO (XI (XI (XO (XI (XO (XO
    XH)))))))))))))))) :: [])) :: (((Zpos (XO (XO (XI (XO (XI (XI (XI (XI (XI
    (XO (XO (XI (XI (XI (XI (XI (XO XH)))))))))))))))))), ((Zpos (XO (XI (XO
    (XO (XI (XI (XO (XI (XI (XO (XI (XI (XI (XO
    XH))))))))))))))) :: [])) :: (((Zpos (XI (XO (XI (XO (XI (XI (XI (XI (XI
    (XO (XO (XI (XI (XI (XI (XI (XO XH)))))))))))))))))), ((Zpos (XI (XI (XO
    (XO (XO (XI (XO (XO (XI (XI (XI (XO (XI (XO (XO
    XH)))))))))))))))) :: [])) :: (((Zpos (XO (XI (XI (XO (XI (XI (XI (XI (XI
    (XO (XO (XI (XI (XI (XI (XI (XO XH)))))))))))))))))), ((Zpos (XI (XO (XI
    (XO (XO (XO (XI (XO (XI (XO (XO (XO (XI (XO (XO (XI (XO
    XH)))))))))))))))))) :: [])) :: (((Zpos (XI (XI (XI (XO (XI (XI (XI (XI
    (XI (XO (XO (XI (XI (XI (XI (XI (XO XH)))))))))))))))))), ((Zpos (XO (XI
    (XO (XI (XI (XO (XO (XO (XO (XI (XO (XO (XI (XO (XO (XI (XO
    XH)))))))))))))))))) :: [])) :: (((Zpos (XO (XO (XO (XI (XI (XI (XI (XI
    (XI (XO (XO (XI (XI (XI (XI (XI (XO XH)))))))))))))))))), ((Zpos (XO (XI
    (XI (XI (XO (XI (XI (XO (XO (XI (XO (XI (XO (XO
    XH))))))))))))))) :: [])) :: (((Zpos (XI (XO (XO (XI (XI (XI (XI (XI (XI
    (XO (XO (XI (XI (XI (XI (XI (XO XH)))))))))))))))))), ((Zpos (XO (XI (XI
    (XO (XI (XI (XI (XO (XO (XI (XO (XI (XO (XO
    XH))))))))))))))) :: [])) :: (((Zpos (XO (XI (XO (XI (XI (XI (XI (XI (XI
    (XO (XO (XI (XI (XI (XI (XI (XO XH)))))))))))))))))), ((Zpos (XO (XO (XO
    (XO (XO (XI (XI (XI (XI (XI (XI (XO (XI (XO (XO
    XH)))))))))))))))) :: [])) :: (((Zpos (XI (XI (XO (XI (XI (XI (XI (XI (XI
    (XO (XO (XI (XI (XI (XI (XI (XO XH)))))))))))))))))), ((Zpos (XO (XI (XO
    (XI (XO (XO (XO (XO (XO (XO (XI (XO (XI (XO (XO (XI (XO
    XH)))))))))))))))))) :: [])) :: (((Zpos (XO (XO (XI (XI (XI (XI (XI (XI
    (XI (XO (XO (XI (XI (XI (XI (XI (XO XH)))))))))))))))))), ((Zpos (XO (XI
    (XO (XO (XI (XI (XO (XI (XO (XI (XO (XI (XO (XO
    XH))))))))))))))) :: [])) :: (((Zpos (XI (XO (XI (XI (XI (XI (XI (XI (XI
    (XO (XO (XI (XI (XI (XI (XI (XO XH)))))))))))))))))), ((Zpos (XO (XI (XI
    (XO (XI (XO (XO (XI (XO (XO (XI (XO (XI (XO (XO (XI (XO
    XH)))))))))))))))))) :: [])) :: (((Zpos (XO (XI (XI (XI (XI (XI (XI (XI
    (XI (XO (XO (XI (XI (XI (XI (XI (XO XH)))))))))))))))))), ((Zpos (XI (XI
    (XO (XI (XO (XO (XO (XO (XO (XO (XO (XI (XI (XO (XO
    XH)))))))))))))))) :: [])) :: (((Zpos (XI (XI (XI (XI (XI (XI (XI (XI (XI
    (XO (XO (XI (XI (XI (XI (XI (XO XH)))))))))))))))))), ((Zpos (XI (XI (XO
    (XI (XO (XO (XO (XO (XO (XO (XO (XI (XI (XO (XO
    XH)))))))))))))))) :: [])) :: (((Zpos (XO (XO (XO (XO (XO (XO (XO (XO (XO
    (XI (XO (XI (XI (XI (XI (XI (XO XH)))))))))))))))))), ((Zpos (XI (XO (XO
    (XI (XO (XI (XO (XO (XO (XO (XO (XI (XI (XO (XO
    XH)))))))))))))))) :: [])) :: (((Zpos (XI (XO (XO (XO (XO (XO (XO (XO (XO
    (XI (XO (XI (XI (XI (XI (XI (XO XH)))))))))))))))))), ((Zpos (XO (XI (XI
    (XO (XI (XI (XO (XI (XI (XO (XI (XO (XI (XO (XO (XI (XO
    XH)))))))))))))))))) :: [])) :: (((Zpos (XO (XI (XO (XO (XO (XO (XO (XO
    (XO (XI (XO (XI (XI (XI (XI (XI (XO XH)))))))))))))))))), ((Zpos (XO (XI
    (XO (XO (XO (XI (XI (XI (XO (XO (XO (XI (XI (XO (XO
    XH)))))))))))))))) :: [])) :: (((Zpos (XI (XI (XO (XO (XO (XO (XO (XO (XO
    (XI (XO (XI (XI (XI (XI (XI (XO XH)))))))))))))))))), ((Zpos (XI (XI (XO
    (XO (XI (XI (XO (XO (XI (XI (XO (XI (XO (XO
    XH))))))))))))))) :: [])) :: (((Zpos (XO (XO (XI (XO (XO (XO (XO (XO (XO
    (XI (XO (XI (XI (XI (XI (XI (XO XH)))))))))))))))))), ((Zpos (XI (XO (XO
    (XI (XO (XI (XO (XO (XI (XO (XO (XI (XI (XO (XO
    XH)))))))))))))))) :: [])) :: (((Zpos (XI (XO (XI (XO (XO (XO (XO (XO (XO
    (XI (XO (XI (XI (XI (XI (XI (XO XH)))))))))))))))))), ((Zpos (XI (XI (XI
    (XO (XO (XI (XO (XI (XI (XO (XO (XI (XI (XO (XO
    XH)))))))))))))))) :: [])) :: (((Zpos (XO (XI (XI (XO (XO (XO (XO (XO (XO
    (XI (XO (XI (XI (XI (XI (XI (XO XH)))))))))))))))))), ((Zpos (XO (XI (XO
    (XO (XO (XO (XI (XI (XI (XO (XO (XI (XI (XO (XO
    XH)))))))))))))))) :: [])) :: (((Zpos (XI (XI (XI (XO (XO (XO (XO (XO (XO
    (XI (XO (XI (XI (XI (XI (XI (XO XH)))))))))))))))))), ((Zpos (XO (XI (XI
    (XI (XI (XI (XI (XI (XI (XO (XO (XI (XI (XO (XO
    XH)))))))))))))))) :: [])) :: (((Zpos (XO (XO (XO (XI (XO (XO (XO (XO (XO
    (XI (XO (XI (XI (XI (XI (XI (XO XH)))))))))))))))))), ((Zpos (XO (XI (XI
    (XI (XO (XO (XI (XI (XI (XI (XO (XI (XO (XO
    XH))))))))))))))) :: [])) :: (((Zpos (XI (XO (XO (XI (XO (XO (XO (XO (XO
    (XI (XO (XI (XI (XI (XI (XI (XO XH)))))))))))))))))), ((Zpos (XO (XO (XO
    (XO (XI (XI (XO (XO (XI (XI (XO (XI (XI (XO (XO (XI (XO
    XH)))))))))))))))))) :: [])) :: (((Zpos (XO (XI (XO (XI (XO (XO (XO (XO
    (XO (XI (XO (XI (XI (XI (XI (XI (XO XH)))))))))))))))))), ((Zpos (XO (XI
    (XO (XO (XI (XO (XO (XO (XI (XI (XO (XI (XI (XO (XO
    XH)))))))))))))))) :: [])) :: (((Zpos (XI (XI (XO (XI (XO (XO (XO (XO (XO
    (XI (XO (XI (XI (XI (XI (XI (XO XH)))))))))))))))))), ((Zpos (XO (XO (XO
    (XO (XO (XO (XI (XO (XO (XO (XI (XI (XI (XO (XO
    XH)))))))))))))))) :: [])) :: (((Zpos (XO (XO (XI (XI (XO (XO (XO (XO (XO
    (XI (XO (XI (XI (XI (XI (XI (XO XH)))))))))))))))))), ((Zpos (XI (XO (XI
    (XI (XI (XI (XI (XI (XO (XO (XI (XI (XI (XO (XO
    XH)))))))))))))))) :: [])) :: (((Zpos (XI (XO (XI (XI (XO (XO (XO (XO (XO
    (XI (XO (XI (XI (XI (XI (XI (XO XH)))))))))))))))))), ((Zpos (XO (XI (XI
    (XI (XO (XO (XI (XI (XO (XO (XI (XI (XO (XO
    XH))))))))))))))) :: [])) :: (((Zpos (XO (XI (XI (XI (XO (XO (XO (XO (XO
    (XI (XO (XI (XI (XI (XI (XI (XO XH)))))))))))))))))), ((Zpos (XI (XO (XI
    (XI (XO (XI (XI (XI (XO (XO (XI (XI (XO (XO
    XH))))))))))))))) :: [])) :: (((Zpos (XI (XI (XI (XI (XO (XO (XO (XO (XO
    (XI (XO (XI (XI (XI (XI (XI (XO XH)))))))))))))))))), ((Zpos (XI (XI (XI
    (XO (XO (XI (XI (XO (XI (XO (XI (XI (XI (XO (XO
    XH)))))))))))))))) :: [])) :: (((Zpos (XO (XO (XO (XO (XI (XO (XO (XO (XO
    (XI (XO (XI (XI (XI (XI (XI (XO XH)))))))))))))))))), ((Zpos (XO (XI (XI
    (XI (XO (XO (XI (XI (XO (XO (XO (XO (XO (XI (XO (XI (XO
    XH)))))))))))))))))) :: [])) :: (((Zpos (XI (XO (XO (XO (XI (XO (XO (XO
    (XO (XI (XO (XI (XI (XI (XI (XI (XO XH)))))))))))))))))), ((Zpos (XO (XO
    (XO (XI (XI (XI (XI (XI (XO (XO (XI (XI (XO (XO
    XH))))))))))))))) :: [])) :: (((Zpos (XO (XI (XO (XO (XI (XO (XO (XO (XO
    (XI (XO (XI (XI (XI (XI (XI (XO XH)))))))))))))))))), ((Zpos (XI (XO (XI
    (XO (XO (XO (XO (XO (XI (XO (XO (XO (XO (XI (XO (XI (XO
    XH)))))))))))))))))) :: [])) :: (((Zpos (XI (XI (XO (XO (XI (XO (XO (XO
    (XO (XI (XO (XI (XI (XI (XI (XI (XO XH)))))))))))))))))), ((Zpos (XO (XI
    (XI (XI (XO (XO (XO (XO (XO (XI (XO (XO (XO (XI (XO (XI (XO
    XH)))))))))))))))))) :: [])) :: (((Zpos (XO (XO (XI (XO (XI (XO (XO (XO
    (XO (XI (XO (XI (XI (XI (XI (XI (XO XH)))))))))))))))))), ((Zpos (XI (XO
    (XO (XO (XI (XO (XO (XI (XO (XI (XO (XO (XO (XI (XO (XI (XO
    XH)))))))))))))))))) :: [])) :: (((Zpos (XI (XO (XI (XO (XI (XO (XO (XO
    (XO (XI (XO (XI (XI (XI (XI (XI (XO XH)))))))))))))))))), ((Zpos (XI (XI
    (XO (XI (XI (XI (XO (XI (XO (XI (XI (XI (XI (XO (XO
    XH)))))))))))))))) :: [])) :: (((Zpos (XO (XI (XI (XO (XI (XO (XO (XO (XO
    (XI (XO (XI (XI (XI (XI (XI (XO XH)))))))))))))))))), ((Zpos (XO (XI (XI
    (XO (XI (XO (XI (XO (XI (XO (XI (XI (XO (XO
    XH))))))))))))))) :: [])) :: (((Zpos (XI (XI (XI (XO (XI (XO (XO (XO (XO
    (XI (XO (XI (XI (XI (XI (XI (XO XH)))))))))))))))))), ((Zpos (XI (XO (XO
    (XI (XI (XI (XI (XI (XO (XI (XI (XI (XI (XO (XO
    XH)))))))))))))))) :: [])) :: (((Zpos (XO (XO (XO (XI (XI (XO (XO (XO (XO
    (XI (XO (XI (XI (XI (XI (XI (XO XH)))))))))))))))))), ((Zpos (XO (XI (XI
    (XI (XI (XI (XI (XI (XO (XI (XI (XI (XI (XO (XO
    XH)))))))))))))))) :: [])) :: (((Zpos (XI (XO (XO (XI (XI (XO (XO (XO (XO
    (XI (XO (XI (XI (XI (XI (XI (XO XH)))))))))))))))))), ((Zpos (XI (XO (XI
    (XO (XO (XO (XO (XO (XI (XI (XI (XI (XI (XO (XO
    XH)))))))))))))))) :: [])) :: (((Zpos (XO (XI (XO (XI (XI (XO (XO (XO (XO
    (XI (XO (XI (XI (XI (XI (XI (XO XH)))))))))))))))))), ((Zpos (XI (XI (XI
    (XI (XO (XO (XO (XO (XI (XI (XI (XI (XI (XO (XO
    XH)))))))))))))))) :: [])) :: (((Zpos (XI (XI (XO (XI (XI (XO (XO (XO (XO
    (XI (XO (XI (XI (XI (XI (XI (XO XH)))))))))))))))))), ((Zpos (XO (XI (XI
    (XO (XI (XO (XO (XO (XI (XI (XI (XI (XI (XO (XO
    XH)))))))))))))))) :: [])) :: (((Zpos (XO (XO (XI (XI (XI (XO (XO (XO (XO
    (XI (XO (XI (XI (XI (XI (XI (XO XH)))))))))))))))))), ((Zpos (XI (XI (XO
    (XI (XI (XI (XO (XO (XI (XI (XI (XI (XI (XO (XO
    XH)))))))))))))))) :: [])) :: (((Zpos (XI (XO (XI (XI (XI (XO (XO (XO (XO
    (XI (XO (XI (XI (XI (XI (XI (XO XH)))))))))))))))))), ((Zpos (XO (XO (XO
    (XO (XO (XO (XO (XO (XO (XI (XI (XO (XO (XI (XO (XI (XO
    XH)))))))))))))))))) :: [])) :: [])))))))))))))))))))))))))))))))))))))))))))))))))))))))))))))))))))))))))))))))))))))))))))))))))))))))))))))))))))))))))))))))))))))))))))))))))))))))))))))))))))))))))))))))))))))))))))))))))))))))))))))))))))))))))))))))))))))))))))))))))))))))))))))))))))))))))))))))))))))))))))))))))))))))))))))))))))))))))))))))))))))))))))))))))))))))))))))))))))))))))))))))))))))))))))))))))))))))))))))))))))))))))))))))))))))))))))))))))))))))))))))))))))))))))))))))))))))))))))))))))))))))))))))))))))))))))))))))))))))))))))))))))))))))))))))))))))))))))))))))))))))))))))))))))))))))))))))))))))))))))))))))))))))))))))))))))))))))))))))))))))))))))))))))))))))))))))))))))))))))))))))))))))))))))))))))))))))))))))))))))))))))))))))))))))))))))))))))))))))))))))))))))))))))))))))))))))))))))))))))))))))))))))))))))))))))))))))))))))))))))))))))))))))))))))))))))))))))))))))))))))))))))))))))))))))))))))))))))))))))))))))))))))))))))))))))))))))))))))))))))))))))))))))))))))))))))))))))))))))))))))))))))))))))))))))))))))))))))))))))))))))))))))))))))))))))))))))))))))))))))))))))))))))))))))))))))))))))))))))))))))))))))))))))))))))))))))))))))))))))))))))))))))))))))))))))))))))))))))))))))))))))))))))))))))))))))))))))))))))))))))))))))))))))))))))))))))))))))))))))))))))))))))))))))))))))))))))))))))))))))))))))))))))))))))))))))))))))))))))))))))))))))))))))))))))))))))))))))))))))))))))))))))))))))))))))))))))))))))))))))))))))))))))))))))))))))))))))))))))))))))))))))))))))))))))))))))))))))))))))))))))))))))))))))))))))))))))))))))))))))))))))))))))))))))))))))))))))))))))))))))))))))))))))))))))))))))))))))))))))))))))))))))))))))))))))))))))))))))))))))))))))))))))))))))))))))))))))))))))))))))))))))))))))))))))))))))))))))))))))))))))))))))))))))))))))))))))))))))))))))))))))))))))))))))))))))))))))))))))))))))))))))))))))))))))))))))))))))))))))))))))))))))))))))))))))))))))))))))))))))))))))))))))))))))))))))))))))))))))))))))))))))))))))))))))))))))))))))))))))))))))))))))))))))))))))))))))))))))))))))))))))))))))))))))

(** val impl_ccc : (z * z) list **)

let impl_ccc =
  ((Zpos (XO (XO (XO (XO (XO (XO (XO (XO (XI XH)))))))))), (Zpos (XO (XI (XI
    (XO (XO (XI (XI XH))))))))) :: (((Zpos (XI (XO (XO (XO (XO (XO (XO (XO
    (XI XH)))))))))), (Zpos (XO (XI (XI (XO (XO (XI (XI
    XH))))))))) :: (((Zpos (XO (XI (XO (XO (XO (XO (XO (XO (XI XH)))))))))),
    (Zpos (XO (XI (XI (XO (XO (XI (XI XH))))))))) :: (((Zpos (XI (XI (XO (XO
    (XO (XO (XO (XO (XI XH)))))))))), (Zpos (XO (XI (XI (XO (XO (XI (XI
    XH))))))))) :: (((Zpos (XO (XO (XI (XO (XO (XO (XO (XO (XI XH)))))))))),
    (Zpos (XO (XI (XI (XO (XO (XI (XI XH))))))))) :: (((Zpos (XI (XO (XI (XO
    (XO (XO (XO (XO (XI XH)))))))))), (Zpos (XO (XI (XI (XO (XO (XI (XI
    XH))))))))) :: (((Zpos (XO (XI (XI (XO (XO (XO (XO (XO (XI XH)))))))))),
    (Zpos (XO (XI (XI (XO (XO (XI (XI XH))))))))) :: (((Zpos (XI (XI (XI (XO
    (XO (XO (XO (XO (XI XH)))))))))), (Zpos (XO (XI (XI (XO (XO (XI (XI
    XH))))))))) :: (((Zpos (XO (XO (XO (XI (XO (XO (XO (XO (XI XH)))))))))),
    (Zpos (XO (XI (XI (XO (XO (XI (XI XH))))))))) :: (((Zpos (XI (XO (XO (XI
    (XO (XO (XO (XO (XI XH)))))))))), (Zpos (XO (XI (XI (XO (XO (XI (XI
    XH))))))))) :: (((Zpos (XO (XI (XO (XI (XO (XO (XO (XO (XI XH)))))))))),
    (Zpos (XO (XI (XI (XO (XO (XI (XI XH))))))))) :: (((Zpos (XI (XI (XO (XI
    (XO (XO (XO (XO (XI XH)))))))))), (Zpos (XO (XI (XI (XO (XO (XI (XI
    XH))))))))) :: (((Zpos (XO (XO (XI (XI (XO (XO (XO (XO (XI XH)))))))))),
    (Zpos (XO (XI (XI (XO (XO (XI (XI XH))))))))) :: (((Zpos (XI (XO (XI (XI
    (XO (XO (XO (XO (XI XH)))))))))), (Zpos (XO (XI (XI (XO (XO (XI (XI
    XH))))))))) :: (((Zpos (XO (XI (XI (XI (XO (XO (XO (XO (XI XH)))))))))),
    (Zpos (XO (XI (XI (XO (XO (XI (XI XH))))))))) :: (((Zpos (XI (XI (XI (XI
    (XO (XO (XO (XO (XI XH)))))))))), (Zpos (XO (XI (XI (XO (XO (XI (XI
    XH))))))))) :: (((Zpos (XO (XO (XO (XO (XI (XO (XO (XO (XI XH)))))))))),
    (Zpos (XO (XI (XI (XO (XO (XI (XI XH))))))))) :: (((Zpos (XI (XO (XO (XO
    (XI (XO (XO (XO (XI XH)))))))))), (Zpos (XO (XI (XI (XO (XO (XI (XI
    XH))))))))) :: (((Zpos (XO (XI (XO (XO (XI (XO (XO (XO (XI XH)))))))))),
    (Zpos (XO (XI (XI (XO (XO (XI (XI XH))))))))) :: (((Zpos (XI (XI (XO (XO
    (XI (XO (XO (XO (XI XH)))))))))), (Zpos (XO (XI (XI (XO (XO (XI (XI
    XH))))))))) :: (((Zpos (XO (XO (XI (XO (XI (XO (XO (XO (XI XH)))))))))),
    (Zpos (XO (XI (XI (XO (XO (XI (XI XH))))))))) :: (((Zpos (XI (XO (XI (XO
    (XI (XO (XO (XO (XI XH)))))))))), (Zpos (XO (XO (XO (XI (XO (XI (XI
    XH))))))))) :: (((Zpos (XO (XI (XI (XO (XI (XO (XO (XO (XI XH)))))))))),
    (Zpos (XO (XO (XI (XI (XI (XO (XI XH))))))))) :: (((Zpos (XI (XI (XI (XO
    (XI (XO (XO (XO (XI XH)))))))))), (Zpos (XO (XO (XI (XI (XI (XO (XI
    XH))))))))) :: (((Zpos (XO (XO (XO (XI (XI (XO (XO (XO (XI XH)))))))))),
    (Zpos (XO (XO (XI (XI (XI (XO (XI XH))))))))) :: (((Zpos (XI (XO (XO (XI
    (XI (XO (XO (XO (XI XH)))))))))), (Zpos (XO (XO (XI (XI (XI (XO (XI
    XH))))))))) :: (((Zpos (XO (XI (XO (XI (XI (XO (XO (XO (XI XH)))))))))),
    (Zpos (XO (XO (XO (XI (XO (XI (XI XH))))))))) :: (((Zpos (XI (XI (XO (XI
    (XI (XO (XO (XO (XI XH)))))))))), (Zpos (XO (XO (XO (XI (XI (XO (XI
    XH))))))))) :: (((Zpos (XO (XO (XI (XI (XI (XO (XO (XO (XI XH)))))))))),
    (Zpos (XO (XO (XI (XI (XI (XO (XI XH))))))))) :: (((Zpos (XI (XO (XI (XI
    (XI (XO (XO (XO (XI XH)))))))))), (Zpos (XO (XO (XI (XI (XI (XO (XI
    XH))))))))) :: (((Zpos (XO (XI (XI (XI (XI (XO (XO (XO (XI XH)))))))))),
    (Zpos (XO (XO (XI (XI (XI (XO (XI XH))))))))) :: (((Zpos (XI (XI (XI (XI
    (XI (XO (XO (XO (XI XH)))))))))), (Zpos (XO (XO (XI (XI (XI (XO (XI
    XH))))))))) :: (((Zpos (XO (XO (XO (XO (XO (XI (XO (XO (XI XH)))))))))),
    (Zpos (XO (XO (XI (XI (XI (XO (XI XH))))))))) :: (((Zpos (XI (XO (XO (XO
    (XO (XI (XO (XO (XI XH)))))))))), (Zpos (XO (XI (XO (XI (XO (XO (XI
    XH))))))))) :: (((Zpos (XO (XI (XO (XO (XO (XI (XO (XO (XI XH)))))))))),
    (Zpos (XO (XI (XO (XI (XO (XO (XI XH))))))))) :: (((Zpos (XI (XI (XO (XO
    (XO (XI (XO (XO (XI XH)))))))))), (Zpos (XO (XO (XI (XI (XI (XO (XI
    XH))))))))) :: (((Zpos (XO (XO (XI (XO (XO (XI (XO (XO (XI XH)))))))))),
    (Zpos (XO (XO (XI (XI (XI (XO (XI XH))))))))) :: (((Zpos (XI (XO (XI (XO
    (XO (XI (XO (XO (XI XH)))))))))), (Zpos (XO (XO (XI (XI (XI (XO (XI
    XH))))))))) :: (((Zpos (XO (XI (XI (XO (XO (XI (XO (XO (XI XH)))))))))),
    (Zpos (XO (XO (XI (XI (XI (XO (XI XH))))))))) :: (((Zpos (XI (XI (XI (XO
    (XO (XI (XO (XO (XI XH)))))))))), (Zpos (XO (XI (XO (XI (XO (XO (XI
    XH))))))))) :: (((Zpos (XO (XO (XO (XI (XO (XI (XO (XO (XI XH)))))))))),
    (Zpos (XO (XI (XO (XI (XO (XO (XI XH))))))))) :: (((Zpos (XI (XO (XO (XI
    (XO (XI (XO (XO (XI XH)))))))))), (Zpos (XO (XO (XI (XI (XI (XO (XI
    XH))))))))) :: (((Zpos (XO (XI (XO (XI (XO (XI (XO (XO (XI XH)))))))))),
    (Zpos (XO (XO (XI (XI (XI (XO (XI XH))))))))) :: (((Zpos (XI (XI (XO (XI
    (XO (XI (XO (XO (XI XH)))))))))), (Zpos (XO (XO (XI (XI (XI (XO (XI
    XH))))))))) :: (((Zpos (XO (XO (XI (XI (XO (XI (XO (XO (XI XH)))))))))),
    (Zpos (XO (XO (XI (XI (XI (XO (XI XH))))))))) :: (((Zpos (XI (XO (XI (XI
    (XO (XI (XO (XO (XI XH)))))))))), (Zpos (XO (XO (XI (XI (XI (XO (XI
    XH))))))))) :: (((Zpos (XO (XI (XI (XI (XO (XI (XO (XO (XI XH)))))))))),
    (Zpos (XO (XO (XI (XI (XI (XO (XI XH))))))))) :: (((Zpos (XI (XI (XI (XI
    (XO (XI (XO (XO (XI XH)))))))))), (Zpos (XO (XO (XI (XI (XI (XO (XI
    XH))))))))) :: (((Zpos (XO (XO (XO (XO (XI (XI (XO (XO (XI XH)))))))))),
    (Zpos (XO (XO (XI (XI (XI (XO (XI XH))))))))) :: (((Zpos (XI (XO (XO (XO
    (XI (XI (XO (XO (XI XH)))))))))), (Zpos (XO (XO (XI (XI (XI (XO (XI
    XH))))))))) :: (((Zpos (XO (XI (XO (XO (XI (XI (XO (XO (XI XH)))))))))),
    (Zpos (XO (XO (XI (XI (XI (XO (XI XH))))))))) :: (((Zpos (XI (XI (XO (XO
    (XI (XI (XO (XO (XI XH)))))))))), (Zpos (XO (XO (XI (XI (XI (XO (XI
    XH))))))))) :: (((Zpos (XO (XO (XI (XO (XI (XI (XO (XO (XI XH)))))))))),
    (Zpos XH)) :: (((Zpos (XI (XO (XI (XO (XI (XI (XO (XO (XI XH)))))))))),
    (Zpos XH)) :: (((Zpos (XO (XI (XI (XO (XI (XI (XO (XO (XI XH)))))))))),
    (Zpos XH)) :: (((Zpos (XI (XI (XI (XO (XI (XI (XO (XO (XI XH)))))))))),
    (Zpos XH)) :: (((Zpos (XO (XO (XO (XI (XI (XI (XO (XO (XI XH)))))))))),
    (Zpos XH)) :: (((Zpos (XI (XO (XO (XI (XI (XI (XO (XO (XI XH)))))))))),
    (Zpos (XO (XO (XI (XI (XI (XO (XI XH))))))))) :: (((Zpos (XO (XI (XO (XI
    (XI (XI (XO (XO (XI XH)))))))))), (Zpos (XO (XO (XI (XI (XI (XO (XI
    XH))))))))) :: (((Zpos (XI (XI (XO (XI (XI (XI (XO (XO (XI XH)))))))))),
    (Zpos (XO (XO (XI (XI (XI (XO (XI XH))))))))) :: (((Zpos (XO (XO (XI (XI
    (XI (XI (XO (XO (XI XH)))))))))), (Zpos (XO (XO (XI (XI (XI (XO (XI
    XH))))))))) :: (((Zpos (XI (XO (XI (XI (XI (XI (XO (XO (XI XH)))))))))),
    (Zpos (XO (XI (XI (XO (XO (XI (XI XH))))))))) :: (((Zpos (XO (XI (XI (XI
    (XI (XI (XO (XO (XI XH)))))))))), (Zpos (XO (XI (XI (XO (XO (XI (XI
    XH))))))))) :: (((Zpos (XI (XI (XI (XI (XI (XI (XO (XO (XI XH)))))))))),
    (Zpos (XO (XI (XI (XO (XO (XI (XI XH))))))))) :: (((Zpos (XO (XO (XO (XO
    (XO (XO (XI (XO (XI XH)))))))))), (Zpos (XO (XI (XI (XO (XO (XI (XI
    XH))))))))) :: (((Zpos (XI (XO (XO (XO (XO (XO (XI (XO (XI XH)))))))))),
    (Zpos (XO (XI (XI (XO (XO (XI (XI XH))))))))) :: (((Zpos (XO (XI (XO (XO
    (XO (XO (XI (XO (XI XH)))))))))), (Zpos (XO (XI (XI (XO (XO (XI (XI
    XH))))))))) :: (((Zpos (XI (XI (XO (XO (XO (XO (XI (XO (XI XH)))))))))),
    (Zpos (XO (XI (XI (XO (XO (XI (XI XH))))))))) :: (((Zpos (XO (XO (XI (XO
    (XO (XO (XI (XO (XI XH)))))))))), (Zpos (XO (XI (XI (XO (XO (XI (XI
    XH))))))))) :: (((Zpos (XI (XO (XI (XO (XO (XO (XI (XO (XI XH)))))))))),
    (Zpos (XO (XO (XO (XO (XI (XI (XI XH))))))))) :: (((Zpos (XO (XI (XI (XO
    (XO (XO (XI (XO (XI XH)))))))))), (Zpos (XO (XI (XI (XO (XO (XI (XI
    XH))))))))) :: (((Zpos (XI (XI (XI (XO (XO (XO (XI (XO (XI XH)))))))))),
    (Zpos (XO (XO (XI (XI (XI (XO (XI XH))))))))) :: (((Zpos (XO (XO (XO (XI
    (XO (XO (XI (XO (XI XH)))))))))), (Zpos (XO (XO (XI (XI (XI (XO (XI
    XH))))))))) :: (((Zpos (XI (XO (XO (XI (XO (XO (XI (XO (XI XH)))))))))),
    (Zpos (XO (XO (XI (XI (XI (XO (XI XH))))))))) :: (((Zpos (XO (XI (XO (XI
    (XO (XO (XI (XO (XI XH)))))))))), (Zpos (XO (XI (XI (XO (XO (XI (XI
    XH))))))))) :: (((Zpos (XI (XI (XO (XI (XO (XO (XI (XO (XI XH)))))))))),
    (Zpos (XO (XI (XI (XO (XO (XI (XI XH))))))))) :: (((Zpos (XO (XO (XI (XI
    (XO (XO (XI (XO (XI XH)))))))))), (Zpos (XO (XI (XI (XO (XO (XI (XI
    XH))))))))) :: (((Zpos (XI (XO (XI (XI (XO (XO (XI (XO (XI XH)))))))))),
    (Zpos (XO (XO (XI (XI (XI (XO (XI XH))))))))) :: (((Zpos (XO (XI (XI (XI
    (XO (XO (XI (XO (XI XH)))))))))), (Zpos (XO (XO (XI (XI (XI (XO (XI
    XH))))))))) :: (((Zpos (XO (XO (XO (XO (XI (XO (XI (XO (XI XH)))))))))),
    (Zpos (XO (XI (XI (XO (XO (XI (XI XH))))))))) :: (((Zpos (XI (XO (XO (XO
    (XI (XO (XI (XO (XI XH)))))))))), (Zpos (XO (XI (XI (XO (XO (XI (XI
    XH))))))))) :: (((Zpos (XO (XI (XO (XO (XI (XO (XI (XO (XI XH)))))))))),
    (Zpos (XO (XI (XI (XO (XO (XI (XI XH))))))))) :: (((Zpos (XI (XI (XO (XO
    (XI (XO (XI (XO (XI XH)))))))))), (Zpos (XO (XO (XI (XI (XI (XO (XI
    XH))))))))) :: (((Zpos (XO (XO (XI (XO (XI (XO (XI (XO (XI XH)))))))))),
    (Zpos (XO (XO (XI (XI (XI (XO (XI XH))))))))) :: (((Zpos (XI (XO (XI (XO
    (XI (XO (XI (XO (XI XH)))))))))), (Zpos (XO (XO (XI (XI (XI (XO (XI
    XH))))))))) :: (((Zpos (XO (XI (XI (XO (XI (XO (XI (XO (XI XH)))))))))),
    (Zpos (XO (XO (XI (XI (XI (XO (XI XH))))))))) :: (((Zpos (XI (XI (XI (XO
    (XI (XO (XI (XO (XI XH)))))))))), (Zpos (XO (XI (XI (XO (XO (XI (XI
    XH))))))))) :: (((Zpos (XO (XO (XO (XI (XI (XO (XI (XO (XI XH)))))))))),
    (Zpos (XO (XO (XO (XI (XO (XI (XI XH))))))))) :: (((Zpos (XI (XO (XO (XI
    (XI (XO (XI (XO (XI XH)))))))))), (Zpos (XO (XO (XI (XI (XI (XO (XI
    XH))))))))) :: (((Zpos (XO (XI (XO (XI (XI (XO (XI (XO (XI XH)))))))))),
    (Zpos (XO (XO (XI (XI (XI (XO (XI XH))))))))) :: (((Zpos (XI (XI (XO (XI
    (XI (XO (XI (XO (XI XH)))))))))), (Zpos (XO (XI (XI (XO (XO (XI (XI
    XH))))))))) :: (((Zpos (XO (XO (XI (XI (XI (XO (XI (XO (XI XH)))))))))),
    (Zpos (XI (XO (XO (XI (XO (XI (XI XH))))))))) :: (((Zpos (XI (XO (XI (XI
    (XI (XO (XI (XO (XI XH)))))))))), (Zpos (XO (XI (XO (XI (XO (XI (XI
    XH))))))))) :: (((Zpos (XO (XI (XI (XI (XI (XO (XI (XO (XI XH)))))))))),
    (Zpos (XO (XI (XO (XI (XO (XI (XI XH))))))))) :: (((Zpos (XI (XI (XI (XI
    (XI (XO (XI (XO (XI XH)))))))))), (Zpos (XI (XO (XO (XI (XO (XI (XI
    XH))))))))) :: (((Zpos (XO (XO (XO (XO (XO (XI (XI (XO (XI XH)))))))))),
    (Zpos (XO (XI (XO (XI (XO (XI (XI XH))))))))) :: (((Zpos (XI (XO (XO (XO
    (XO (XI (XI (XO (XI XH)))))))))), (Zpos (XO (XI (XO (XI (XO (XI (XI
    XH))))))))) :: (((Zpos (XO (XI (XO (XO (XO (XI (XI (XO (XI XH)))))))))),
    (Zpos (XI (XO (XO (XI (XO (XI (XI XH))))))))) :: (((Zpos (XI (XI (XO (XO
    (XO (XI (XI (XO (XI XH)))))))))), (Zpos (XO (XI (XI (XO (XO (XI (XI
    XH))))))))) :: (((Zpos (XO (XO (XI (XO (XO (XI (XI (XO (XI XH)))))))))),
    (Zpos (XO (XI (XI (XO (XO (XI (XI XH))))))))) :: (((Zpos (XI (XO (XI (XO
    (XO (XI (XI (XO (XI XH)))))))))), (Zpos (XO (XI (XI (XO (XO (XI (XI
    XH))))))))) :: (((Zpos (XO (XI (XI (XO (XO (XI (XI (XO (XI XH)))))))))),
    (Zpos (XO (XI (XI (XO (XO (XI (XI XH))))))))) :: (((Zpos (XI (XI (XI (XO
    (XO (XI (XI (XO (XI XH)))))))))), (Zpos (XO (XI (XI (XO (XO (XI (XI
    XH))))))))) :: (((Zpos (XO (XO (XO (XI (XO (XI (XI (XO (XI XH)))))))))),
    (Zpos (XO (XI (XI (XO (XO (XI (XI XH))))))))) :: (((Zpos (XI (XO (XO (XI
    (XO (XI (XI (XO (XI XH)))))))))), (Zpos (XO (XI (XI (XO (XO (XI (XI
    XH))))))))) :: (((Zpos (XO (XI (XO (XI (XO (XI (XI (XO (XI XH)))))))))),
    (Zpos (XO (XI (XI (XO (XO (XI (XI XH))))))))) :: (((Zpos (XI (XI (XO (XI
    (XO (XI (XI (XO (XI XH)))))))))), (Zpos (XO (XI (XI (XO (XO (XI (XI
    XH))))))))) :: (((Zpos (XO (XO (XI (XI (XO (XI (XI (XO (XI XH)))))))))),
    (Zpos (XO (XI (XI (XO (XO (XI (XI XH))))))))) :: (((Zpos (XI (XO (XI (XI
    (XO (XI (XI (XO (XI XH)))))))))), (Zpos (XO (XI (XI (XO (XO (XI (XI
    XH))))))))) :: (((Zpos (XO (XI (XI (XI (XO (XI (XI (XO (XI XH)))))))))),
    (Zpos (XO (XI (XI (XO (XO (XI (XI XH))))))))) :: (((Zpos (XI (XI (XI (XI
    (XO (XI (XI (XO (XI XH)))))))))), (Zpos (XO (XI (XI (XO (XO (XI (XI
    XH))))))))) :: (((Zpos (XI (XI (XO (XO (XO (XO (XO (XI (XO (XO
    XH))))))))))), (Zpos (XO (XI (XI (XO (XO (XI (XI XH))))))))) :: (((Zpos
    (XO (XO (XI (XO (XO (XO (XO (XI (XO (XO XH))))))))))), (Zpos (XO (XI (XI
    (XO (XO (XI (XI XH))))))))) :: (((Zpos (XI (XO (XI (XO (XO (XO (XO (XI
    (XO (XO XH))))))))))), (Zpos (XO (XI (XI (XO (XO (XI (XI
    XH))))))))) :: (((Zpos (XO (XI (XI (XO (XO (XO (XO (XI (XO (XO
    XH))))))))))), (Zpos (XO (XI (XI (XO (XO (XI (XI XH))))))))) :: (((Zpos
    (XI (XI (XI (XO (XO (XO (XO (XI (XO (XO XH))))))))))), (Zpos (XO (XI (XI
    (XO (XO (XI (XI XH))))))))) :: (((Zpos (XI (XO (XO (XO (XI (XO (XO (XI
    (XI (XO XH))))))))))), (Zpos (XO (XO (XI (XI (XI (XO (XI
    XH))))))))) :: (((Zpos (XO (XI (XO (XO (XI (XO (XO (XI (XI (XO
    XH))))))))))), (Zpos (XO (XI (XI (XO (XO (XI (XI XH))))))))) :: (((Zpos
    (XI (XI (XO (XO (XI (XO (XO (XI (XI (XO XH))))))))))), (Zpos (XO (XI (XI
    (XO (XO (XI (XI XH))))))))) :: (((Zpos (XO (XO (XI (XO (XI (XO (XO (XI
    (XI (XO XH))))))))))), (Zpos (XO (XI (XI (XO (XO (XI (XI
    XH))))))))) :: (((Zpos (XI (XO (XI (XO (XI (XO (XO (XI (XI (XO
    XH))))))))))), (Zpos (XO (XI (XI (XO (XO (XI (XI XH))))))))) :: (((Zpos
    (XO (XI (XI (XO (XI (XO (XO (XI (XI (XO XH))))))))))), (Zpos (XO (XO (XI
    (XI (XI (XO (XI XH))))))))) :: (((Zpos (XI (XI (XI (XO (XI (XO (XO (XI
    (XI (XO XH))))))))))), (Zpos (XO (XI (XI (XO (XO (XI (XI
    XH))))))))) :: (((Zpos (XO (XO (XO (XI (XI (XO (XO (XI (XI (XO
    XH))))))))))), (Zpos (XO (XI (XI (XO (XO (XI (XI XH))))))))) :: (((Zpos
    (XI (XO (XO (XI (XI (XO (XO (XI (XI (XO XH))))))))))), (Zpos (XO (XI (XI
    (XO (XO (XI (XI XH))))))))) :: (((Zpos (XO (XI (XO (XI (XI (XO (XO (XI
    (XI (XO XH))))))))))), (Zpos (XO (XI (XI (XI (XI (XO (XI
    XH))))))))) :: (((Zpos (XI (XI (XO (XI (XI (XO (XO (XI (XI (XO
    XH))))))))))), (Zpos (XO (XO (XI (XI (XI (XO (XI XH))))))))) :: (((Zpos
    (XO (XO (XI (XI (XI (XO (XO (XI (XI (XO XH))))))))))), (Zpos (XO (XI (XI
    (XO (XO (XI (XI XH))))))))) :: (((Zpos (XI (XO (XI (XI (XI (XO (XO (XI
    (XI (XO XH))))))))))), (Zpos (XO (XI (XI (XO (XO (XI (XI
    XH))))))))) :: (((Zpos (XO (XI (XI (XI (XI (XO (XO (XI (XI (XO
    XH))))))))))), (Zpos (XO (XI (XI (XO (XO (XI (XI XH))))))))) :: (((Zpos
    (XI (XI (XI (XI (XI (XO (XO (XI (XI (XO XH))))))))))), (Zpos (XO (XI (XI
    (XO (XO (XI (XI XH))))))))) :: (((Zpos (XO (XO (XO (XO (XO (XI (XO (XI
    (XI (XO XH))))))))))), (Zpos (XO (XI (XI (XO (XO (XI (XI
    XH))))))))) :: (((Zpos (XI (XO (XO (XO (XO (XI (XO (XI (XI (XO
    XH))))))))))), (Zpos (XO (XI (XI (XO (XO (XI (XI XH))))))))) :: (((Zpos
    (XO (XI (XO (XO (XO (XI (XO (XI (XI (XO XH))))))))))), (Zpos (XO (XO (XI
    (XI (XI (XO (XI XH))))))))) :: (((Zpos (XI (XI (XO (XO (XO (XI (XO (XI
    (XI (XO XH))))))))))), (Zpos (XO (XO (XI (XI (XI (XO (XI
    XH))))))))) :: (((Zpos (XO (XO (XI (XO (XO (XI (XO (XI (XI (XO
    XH))))))))))), (Zpos (XO (XO (XI (XI (XI (XO (XI XH))))))))) :: (((Zpos
    (XI (XO (XI (XO (XO (XI (XO (XI (XI (XO XH))))))))))), (Zpos (XO (XO (XI
    (XI (XI (XO (XI XH))))))))) :: (((Zpos (XO (XI (XI (XO (XO (XI (XO (XI
    (XI (XO XH))))))))))), (Zpos (XO (XO (XI (XI (XI (XO (XI
    XH))))))))) :: (((Zpos (XI (XI (XI (XO (XO (XI (XO (XI (XI (XO
    XH))))))))))), (Zpos (XO (XO (XI (XI (XI (XO (XI XH))))))))) :: (((Zpos
    (XO (XO (XO (XI (XO (XI (XO (XI (XI (XO XH))))))))))), (Zpos (XO (XI (XI
    (XO (XO (XI (XI XH))))))))) :: (((Zpos (XI (XO (XO (XI (XO (XI (XO (XI
    (XI (XO XH))))))))))), (Zpos (XO (XI (XI (XO (XO (XI (XI
    XH))))))))) :: (((Zpos (XO (XI (XO (XI (XO (XI (XO (XI (XI (XO
    XH))))))))))), (Zpos (XO (XO (XI (XI (XI (XO (XI XH))))))))) :: (((Zpos
    (XI (XI (XO (XI (XO (XI (XO (XI (XI (XO XH))))))))))), (Zpos (XO (XI (XI
    (XO (XO (XI (XI XH))))))))) :: (((Zpos (XO (XO (XI (XI (XO (XI (XO (XI
    (XI (XO XH))))))))))), (Zpos (XO (XI (XI (XO (XO (XI (XI
    XH))))))))) :: (((Zpos (XI (XO (XI (XI (XO (XI (XO (XI (XI (XO
    XH))))))))))), (Zpos (XO (XI (XI (XI (XI (XO (XI XH))))))))) :: (((Zpos
    (XO (XI (XI (XI (XO (XI (XO (XI (XI (XO XH))))))))))), (Zpos (XO (XO (XI
    (XO (XO (XI (XI XH))))))))) :: (((Zpos (XI (XI (XI (XI (XO (XI (XO (XI
    (XI (XO XH))))))))))), (Zpos (XO (XI (XI (XO (XO (XI (XI
    XH))))))))) :: (((Zpos (XO (XO (XO (XO (XI (XI (XO (XI (XI (XO
    XH))))))))))), (Zpos (XO (XI (XO XH))))) :: (((Zpos (XI (XO (XO (XO (XI
    (XI (XO (XI (XI (XO XH))))))))))), (Zpos (XI (XI (XO XH))))) :: (((Zpos
    (XO (XI (XO (XO (XI (XI (XO (XI (XI (XO XH))))))))))), (Zpos (XO (XO (XI
    XH))))) :: (((Zpos (XI (XI (XO (XO (XI (XI (XO (XI (XI (XO XH))))))))))),
    (Zpos (XI (XO (XI XH))))) :: (((Zpos (XO (XO (XI (XO (XI (XI (XO (XI (XI
    (XO XH))))))))))), (Zpos (XO (XI (XI XH))))) :: (((Zpos (XI (XO (XI (XO
    (XI (XI (XO (XI (XI (XO XH))))))))))), (Zpos (XI (XI (XI
    XH))))) :: (((Zpos (XO (XI (XI (XO (XI (XI (XO (XI (XI (XO XH))))))))))),
    (Zpos (XO (XO (XO (XO XH)))))) :: (((Zpos (XI (XI (XI (XO (XI (XI (XO (XI
    (XI (XO XH))))))))))), (Zpos (XI (XO (XO (XO XH)))))) :: (((Zpos (XO (XO
    (XO (XI (XI (XI (XO (XI (XI (XO XH))))))))))), (Zpos (XO (XI (XO (XO
    XH)))))) :: (((Zpos (XI (XO (XO (XI (XI (XI (XO (XI (XI (XO
    XH))))))))))), (Zpos (XI (XI (XO (XO XH)))))) :: (((Zpos (XO (XI (XO (XI
    (XI (XI (XO (XI (XI (XO XH))))))))))), (Zpos (XI (XI (XO (XO
    XH)))))) :: (((Zpos (XI (XI (XO (XI (XI (XI (XO (XI (XI (XO
    XH))))))))))), (Zpos (XO (XO (XI (XO XH)))))) :: (((Zpos (XO (XO (XI (XI
    (XI (XI (XO (XI (XI (XO XH))))))))))), (Zpos (XI (XO (XI (XO
    XH)))))) :: (((Zpos (XI (XO (XI (XI (XI (XI (XO (XI (XI (XO
    XH))))))))))), (Zpos (XO (XI (XI (XO XH)))))) :: (((Zpos (XI (XI (XI (XI
    (XI (XI (XO (XI (XI (XO XH))))))))))), (Zpos (XI (XI (XI (XO
    XH)))))) :: (((Zpos (XI (XO (XO (XO (XO (XO (XI (XI (XI (XO
    XH))))))))))), (Zpos (XO (XO (XO (XI XH)))))) :: (((Zpos (XO (XI (XO (XO
    (XO (XO (XI (XI (XI (XO XH))))))))))), (Zpos (XI (XO (XO (XI
    XH)))))) :: (((Zpos (XO (XO (XI (XO (XO (XO (XI (XI (XI (XO
    XH))))))))))), (Zpos (XO (XI (XI (XO (XO (XI (XI XH))))))))) :: (((Zpos
    (XI (XO (XI (XO (XO (XO (XI (XI (XI (XO XH))))))))))), (Zpos (XO (XO (XI
    (XI (XI (XO (XI XH))))))))) :: (((Zpos (XI (XI (XI (XO (XO (XO (XI (XI
    (XI (XO XH))))))))))), (Zpos (XO (XI (XO (XO XH)))))) :: (((Zpos (XO (XO
    (XO (XO (XI (XO (XO (XO (XO (XI XH))))))))))), (Zpos (XO (XI (XI (XO (XO
    (XI (XI XH))))))))) :: (((Zpos (XI (XO (XO (XO (XI (XO (XO (XO (XO (XI
    XH))))))))))), (Zpos (XO (XI (XI (XO (XO (XI (XI XH))))))))) :: (((Zpos
    (XO (XI (XO (XO (XI (XO (XO (XO (XO (XI XH))))))))))), (Zpos (XO (XI (XI
    (XO (XO (XI (XI XH))))))))) :: (((Zpos (XI (XI (XO (XO (XI (XO (XO (XO
    (XO (XI XH))))))))))), (Zpos (XO (XI (XI (XO (XO (XI (XI
    XH))))))))) :: (((Zpos (XO (XO (XI (XO (XI (XO (XO (XO (XO (XI
    XH))))))))))), (Zpos (XO (XI (XI (XO (XO (XI (XI XH))))))))) :: (((Zpos
    (XI (XO (XI (XO (XI (XO (XO (XO (XO (XI XH))))))))))), (Zpos (XO (XI (XI
    (XO (XO (XI (XI XH))))))))) :: (((Zpos (XO (XI (XI (XO (XI (XO (XO (XO
    (XO (XI XH))))))))))), (Zpos (XO (XI (XI (XO (XO (XI (XI
    XH))))))))) :: (((Zpos (XI (XI (XI (XO (XI (XO (XO (XO (XO (XI
    XH))))))))))), (Zpos (XO (XI (XI (XO (XO (XI (XI XH))))))))) :: (((Zpos
    (XO (XO (XO (XI (XI (XO (XO (XO (XO (XI XH))))))))))), (Zpos (XO (XI (XI
    (XI XH)))))) :: (((Zpos (XI (XO (XO (XI (XI (XO (XO (XO (XO (XI
    XH))))))))))), (Zpos (XI (XI (XI (XI XH)))))) :: (((Zpos (XO (XI (XO (XI
    (XI (XO (XO (XO (XO (XI XH))))))))))), (Zpos (XO (XO (XO (XO (XO
    XH))))))) :: (((Zpos (XI (XI (XO (XI (XO (XO (XI (XO (XO (XI
    XH))))))))))), (Zpos (XI (XI (XO (XI XH)))))) :: (((Zpos (XO (XO (XI (XI
    (XO (XO (XI (XO (XO (XI XH))))))))))), (Zpos (XO (XO (XI (XI
    XH)))))) :: (((Zpos (XI (XO (XI (XI (XO (XO (XI (XO (XO (XI
    XH))))))))))), (Zpos (XI (XO (XI (XI XH)))))) :: (((Zpos (XO (XI (XI (XI
    (XO (XO (XI (XO (XO (XI XH))))))))))), (Zpos (XO (XI (XI (XI
    XH)))))) :: (((Zpos (XI (XI (XI (XI (XO (XO (XI (XO (XO (XI
    XH))))))))))), (Zpos (XI (XI (XI (XI XH)))))) :: (((Zpos (XO (XO (XO (XO
    (XI (XO (XI (XO (XO (XI XH))))))))))), (Zpos (XO (XO (XO (XO (XO
    XH))))))) :: (((Zpos (XI (XO (XO (XO (XI (XO (XI (XO (XO (XI
    XH))))))))))), (Zpos (XI (XO (XO (XO (XO XH))))))) :: (((Zpos (XO (XI (XO
    (XO (XI (XO (XI (XO (XO (XI XH))))))))))), (Zpos (XO (XI (XO (XO (XO
    XH))))))) :: (((Zpos (XI (XI (XO (XO (XI (XO (XI (XO (XO (XI
    XH))))))))))), (Zpos (XO (XI (XI (XO (XO (XI (XI XH))))))))) :: (((Zpos
    (XO (XO (XI (XO (XI (XO (XI (XO (XO (XI XH))))))))))), (Zpos (XO (XI (XI
    (XO (XO (XI (XI XH))))))))) :: (((Zpos (XI (XO (XI (XO (XI (XO (XI (XO
    (XO (XI XH))))))))))), (Zpos (XO (XO (XI (XI (XI (XO (XI
    XH))))))))) :: (((Zpos (XO (XI (XI (XO (XI (XO (XI (XO (XO (XI
    XH))))))))))), (Zpos (XO (XO (XI (XI (XI (XO (XI XH))))))))) :: (((Zpos
    (XI (XI (XI (XO (XI (XO (XI (XO (XO (XI XH))))))))))), (Zpos (XO (XI (XI
    (XO (XO (XI (XI XH))))))))) :: (((Zpos (XO (XO (XO (XI (XI (XO (XI (XO
    (XO (XI XH))))))))))), (Zpos (XO (XI (XI (XO (XO (XI (XI
    XH))))))))) :: (((Zpos (XI (XO (XO (XI (XI (XO (XI (XO (XO (XI
    XH))))))))))), (Zpos (XO (XI (XI (XO (XO (XI (XI XH))))))))) :: (((Zpos
    (XO (XI (XO (XI (XI (XO (XI (XO (XO (XI XH))))))))))), (Zpos (XO (XI (XI
    (XO (XO (XI (XI XH))))))))) :: (((Zpos (XI (XI (XO (XI (XI (XO (XI (XO
    (XO (XI XH))))))))))), (Zpos (XO (XI (XI (XO (XO (XI (XI
    XH))))))))) :: (((Zpos (XO (XO (XI (XI (XI (XO (XI (XO (XO (XI
    XH))))))))))), (Zpos (XO (XO (XI (XI (XI (XO (XI XH))))))))) :: (((Zpos
    (XI (XO (XI (XI (XI (XO (XI (XO (XO (XI XH))))))))))), (Zpos (XO (XI (XI
    (XO (XO (XI (XI XH))))))))) :: (((Zpos (XO (XI (XI (XI (XI (XO (XI (XO
    (XO (XI XH))))))))))), (Zpos (XO (XI (XI (XO (XO (XI (XI
    XH))))))))) :: (((Zpos (XI (XI (XI (XI (XI (XO (XI (XO (XO (XI
    XH))))))))))), (Zpos (XO (XO (XI (XI (XI (XO (XI XH))))))))) :: (((Zpos
    (XO (XO (XO (XO (XI (XI (XI (XO (XO (XI XH))))))))))), (Zpos (XI (XI (XO
    (XO (XO XH))))))) :: (((Zpos (XO (XI (XI (XO (XI (XO (XI (XI (XO (XI
    XH))))))))))), (Zpos (XO (XI (XI (XO (XO (XI (XI XH))))))))) :: (((Zpos
    (XI (XI (XI (XO (XI (XO (XI (XI (XO (XI XH))))))))))), (Zpos (XO (XI (XI
    (XO (XO (XI (XI XH))))))))) :: (((Zpos (XO (XO (XO (XI (XI (XO (XI (XI
    (XO (XI XH))))))))))), (Zpos (XO (XI (XI (XO (XO (XI (XI
    XH))))))))) :: (((Zpos (XI (XO (XO (XI (XI (XO (XI (XI (XO (XI
    XH))))))))))), (Zpos (XO (XI (XI (XO (XO (XI (XI XH))))))))) :: (((Zpos
    (XO (XI (XO (XI (XI (XO (XI (XI (XO (XI XH))))))))))), (Zpos (XO (XI (XI
    (XO (XO (XI (XI XH))))))))) :: (((Zpos (XI (XI (XO (XI (XI (XO (XI (XI
    (XO (XI XH))))))))))), (Zpos (XO (XI (XI (XO (XO (XI (XI
    XH))))))))) :: (((Zpos (XO (XO (XI (XI (XI (XO (XI (XI (XO (XI
    XH))))))))))), (Zpos (XO (XI (XI (XO (XO (XI (XI XH))))))))) :: (((Zpos
    (XI (XI (XI (XI (XI (XO (XI (XI (XO (XI XH))))))))))), (Zpos (XO (XI (XI
    (XO (XO (XI (XI XH))))))))) :: (((Zpos (XO (XO (XO (XO (XO (XI (XI (XI
    (XO (XI XH))))))))))), (Zpos (XO (XI (XI (XO (XO (XI (XI
    XH))))))))) :: (((Zpos (XI (XO (XO (XO (XO (XI (XI (XI (XO (XI
    XH))))))))))), (Zpos (XO (XI (XI (XO (XO (XI (XI XH))))))))) :: (((Zpos
    (XO (XI (XO (XO (XO (XI (XI (XI (XO (XI XH))))))))))), (Zpos (XO (XI (XI
    (XO (XO (XI (XI XH))))))))) :: (((Zpos (XI (XI (XO (XO (XO (XI (XI (XI
    (XO (XI XH))))))))))), (Zpos (XO (XO (XI (XI (XI (XO (XI
    XH))))))))) :: (((Zpos (XO (XO (XI (XO (XO (XI (XI (XI (XO (XI
    XH))))))))))), (Zpos (XO (XI (XI (XO (XO (XI (XI XH))))))))) :: (((Zpos
    (XI (XI (XI (XO (XO (XI (XI (XI (XO (XI XH))))))))))), (Zpos (XO (XI (XI
    (XO (XO (XI (XI XH))))))))) :: (((Zpos (XO (XO (XO (XI (XO (XI (XI (XI
    (XO (XI XH))))))))))), (Zpos (XO (XI (XI (XO (XO (XI (XI
    XH))))))))) :: (((Zpos (XO (XI (XO (XI (XO (XI (XI (XI (XO (XI
    XH))))))))))), (Zpos (XO (XO (XI (XI (XI (XO (XI XH))))))))) :: (((Zpos
    (XI (XI (XO (XI (XO (XI (XI (XI (XO (XI XH))))))))))), (Zpos (XO (XI (XI
    (XO (XO (XI (XI XH))))))))) :: (((Zpos (XO (XO (XI (XI (XO (XI (XI (XI
    (XO (XI XH))))))))))), (Zpos (XO (XI (XI (XO (XO (XI (XI
    XH))))))))) :: (((Zpos (XI (XO (XI (XI (XO (XI (XI (XI (XO (XI
    XH))))))))))), (Zpos (XO (XO (XI (XI (XI (XO (XI XH))))))))) :: (((Zpos
    (XI (XO (XO (XO (XI (XO (XO (XO (XI (XI XH))))))))))), (Zpos (XO (XO (XI
    (XO (XO XH))))))) :: (((Zpos (XO (XO (XO (XO (XI (XI (XO (XO (XI (XI
    XH))))))))))), (Zpos (XO (XI (XI (XO (XO (XI (XI XH))))))))) :: (((Zpos
    (XI (XO (XO (XO (XI (XI (XO (XO (XI (XI XH))))))))))), (Zpos (XO (XO (XI
    (XI (XI (XO (XI XH))))))))) :: (((Zpos (XO (XI (XO (XO (XI (XI (XO (XO
    (XI (XI XH))))))))))), (Zpos (XO (XI (XI (XO (XO (XI (XI
    XH))))))))) :: (((Zpos (XI (XI (XO (XO (XI (XI (XO (XO (XI (XI
    XH))))))))))), (Zpos (XO (XI (XI (XO (XO (XI (XI XH))))))))) :: (((Zpos
    (XO (XO (XI (XO (XI (XI (XO (XO (XI (XI XH))))))))))), (Zpos (XO (XO (XI
    (XI (XI (XO (XI XH))))))))) :: (((Zpos (XI (XO (XI (XO (XI (XI (XO (XO
    (XI (XI XH))))))))))), (Zpos (XO (XI (XI (XO (XO (XI (XI
    XH))))))))) :: (((Zpos (XO (XI (XI (XO (XI (XI (XO (XO (XI (XI
    XH))))))))))), (Zpos (XO (XI (XI (XO (XO (XI (XI XH))))))))) :: (((Zpos
    (XI (XI (XI (XO (XI (XI (XO (XO (XI (XI XH))))))))))), (Zpos (XO (XO (XI
    (XI (XI (XO (XI XH))))))))) :: (((Zpos (XO (XO (XO (XI (XI (XI (XO (XO
    (XI (XI XH))))))))))), (Zpos (XO (XO (XI (XI (XI (XO (XI
    XH))))))))) :: (((Zpos (XI (XO (XO (XI (XI (XI (XO (XO (XI (XI
    XH))))))))))), (Zpos (XO (XO (XI (XI (XI (XO (XI XH))))))))) :: (((Zpos
    (XO (XI (XO (XI (XI (XI (XO (XO (XI (XI XH))))))))))), (Zpos (XO (XI (XI
    (XO (XO (XI (XI XH))))))))) :: (((Zpos (XI (XI (XO (XI (XI (XI (XO (XO
    (XI (XI XH))))))))))), (Zpos (XO (XO (XI (XI (XI (XO (XI
    XH))))))))) :: (((Zpos (XO (XO (XI (XI (XI (XI (XO (XO (XI (XI
    XH))))))))))), (Zpos (XO (XO (XI (XI (XI (XO (XI XH))))))))) :: (((Zpos
    (XI (XO (XI (XI (XI (XI (XO (XO (XI (XI XH))))))))))), (Zpos (XO (XI (XI
    (XO (XO (XI (XI XH))))))))) :: (((Zpos (XO (XI (XI (XI (XI (XI (XO (XO
    (XI (XI XH))))))))))), (Zpos (XO (XO (XI (XI (XI (XO (XI
    XH))))))))) :: (((Zpos (XI (XI (XI (XI (XI (XI (XO (XO (XI (XI
    XH))))))))))), (Zpos (XO (XI (XI (XO (XO (XI (XI XH))))))))) :: (((Zpos
    (XO (XO (XO (XO (XO (XO (XI (XO (XI (XI XH))))))))))), (Zpos (XO (XI (XI
    (XO (XO (XI (XI XH))))))))) :: (((Zpos (XI (XO (XO (XO (XO (XO (XI (XO
    (XI (XI XH))))))))))), (Zpos (XO (XI (XI (XO (XO (XI (XI
    XH))))))))) :: (((Zpos (XO (XI (XO (XO (XO (XO (XI (XO (XI (XI
    XH))))))))))), (Zpos (XO (XO (XI (XI (XI (XO (XI XH))))))))) :: (((Zpos
    (XI (XI (XO (XO (XO (XO (XI (XO (XI (XI XH))))))))))), (Zpos (XO (XI (XI
    (XO (XO (XI (XI XH))))))))) :: (((Zpos (XO (XO (XI (XO (XO (XO (XI (XO
    (XI (XI XH))))))))))), (Zpos (XO (XO (XI (XI (XI (XO (XI
    XH))))))))) :: (((Zpos (XI (XO (XI (XO (XO (XO (XI (XO (XI (XI
    XH))))))))))), (Zpos (XO (XI (XI (XO (XO (XI (XI XH))))))))) :: (((Zpos
    (XO (XI (XI (XO (XO (XO (XI (XO (XI (XI XH))))))))))), (Zpos (XO (XO (XI
    (XI (XI (XO (XI XH))))))))) :: (((Zpos (XI (XI (XI (XO (XO (XO (XI (XO
    (XI (XI XH))))))))))), (Zpos (XO (XI (XI (XO (XO (XI (XI
    XH))))))))) :: (((Zpos (XO (XO (XO (XI (XO (XO (XI (XO (XI (XI
    XH))))))))))), (Zpos (XO (XO (XI (XI (XI (XO (XI XH))))))))) :: (((Zpos
    (XI (XO (XO (XI (XO (XO (XI (XO (XI (XI XH))))))))))), (Zpos (XO (XI (XI
    (XO (XO (XI (XI XH))))))))) :: (((Zpos (XO (XI (XO (XI (XO (XO (XI (XO
    (XI (XI XH))))))))))), (Zpos (XO (XI (XI (XO (XO (XI (XI
    XH))))))))) :: (((Zpos (XI (XI (XO (XI (XO (XI (XI (XI (XI (XI
    XH))))))))))), (Zpos (XO (XI (XI (XO (XO (XI (XI XH))))))))) :: (((Zpos
    (XO (XO (XI (XI (XO (XI (XI (XI (XI (XI XH))))))))))), (Zpos (XO (XI (XI
    (XO (XO (XI (XI XH))))))))) :: (((Zpos (XI (XO (XI (XI (XO (XI (XI (XI
    (XI (XI XH))))))))))), (Zpos (XO (XI (XI (XO (XO (XI (XI
    XH))))))))) :: (((Zpos (XO (XI (XI (XI (XO (XI (XI (XI (XI (XI
    XH))))))))))), (Zpos (XO (XI (XI (XO (XO (XI (XI XH))))))))) :: (((Zpos
    (XI (XI (XI (XI (XO (XI (XI (XI (XI (XI XH))))))))))), (Zpos (XO (XI (XI
    (XO (XO (XI (XI XH))))))))) :: (((Zpos (XO (XO (XO (XO (XI (XI (XI (XI
    (XI (XI XH))))))))))), (Zpos (XO (XI (XI (XO (XO (XI (XI
    XH))))))))) :: (((Zpos (XI (XO (XO (XO (XI (XI (XI (XI (XI (XI
    XH))))))))))), (Zpos (XO (XI (XI (XO (XO (XI (XI XH))))))))) :: (((Zpos
    (XO (XI (XO (XO (XI (XI (XI (XI (XI (XI XH))))))))))), (Zpos (XO (XO (XI
    (XI (XI (XO (XI XH))))))))) :: (((Zpos (XI (XI (XO (XO (XI (XI (XI (XI
    (XI (XI XH))))))))))), (Zpos (XO (XI (XI (XO (XO (XI (XI
    XH))))))))) :: (((Zpos (XI (XO (XI (XI (XI (XI (XI (XI (XI (XI
    XH))))))))))), (Zpos (XO (XO (XI (XI (XI (XO (XI XH))))))))) :: (((Zpos
    (XO (XI (XI (XO (XI (XO (XO (XO (XO (XO (XO XH)))))))))))), (Zpos (XO (XI
    (XI (XO (XO (XI (XI XH))))))))) :: (((Zpos (XI (XI (XI (XO (XI (XO (XO
    (XO (XO (XO (XO XH)))))))))))), (Zpos (XO (XI (XI (XO (XO (XI (XI
    XH))))))))) :: (((Zpos (XO (XO (XO (XI (XI (XO (XO (XO (XO (XO (XO
    XH)))))))))))), (Zpos (XO (XI (XI (XO (XO (XI (XI XH))))))))) :: (((Zpos
    (XI (XO (XO (XI (XI (XO (XO (XO (XO (XO (XO XH)))))))))))), (Zpos (XO (XI
    (XI (XO (XO (XI (XI XH))))))))) :: (((Zpos (XI (XI (XO (XI (XI (XO (XO
    (XO (XO (XO (XO XH)))))))))))), (Zpos (XO (XI (XI (XO (XO (XI (XI
    XH))))))))) :: (((Zpos (XO (XO (XI (XI (XI (XO (XO (XO (XO (XO (XO
    XH)))))))))))), (Zpos (XO (XI (XI (XO (XO (XI (XI XH))))))))) :: (((Zpos
    (XI (XO (XI (XI (XI (XO (XO (XO (XO (XO (XO XH)))))))))))), (Zpos (XO (XI
    (XI (XO (XO (XI (XI XH))))))))) :: (((Zpos (XO (XI (XI (XI (XI (XO (XO
    (XO (XO (XO (XO XH)))))))))))), (Zpos (XO (XI (XI (XO (XO (XI (XI
    XH))))))))) :: (((Zpos (XI (XI (XI (XI (XI (XO (XO (XO (XO (XO (XO
    XH)))))))))))), (Zpos (XO (XI (XI (XO (XO (XI (XI XH))))))))) :: (((Zpos
    (XO (XO (XO (XO (XO (XI (XO (XO (XO (XO (XO XH)))))))))))), (Zpos (XO (XI
    (XI (XO (XO (XI (XI XH))))))))) :: (((Zpos (XI (XO (XO (XO (XO (XI (XO
    (XO (XO (XO (XO XH)))))))))))), (Zpos (XO (XI (XI (XO (XO (XI (XI
    XH))))))))) :: (((Zpos (XO (XI (XO (XO (XO (XI (XO (XO (XO (XO (XO
    XH)))))))))))), (Zpos (XO (XI (XI (XO (XO (XI (XI XH))))))))) :: (((Zpos
    (XI (XI (XO (XO (XO (XI (XO (XO (XO (XO (XO XH)))))))))))), (Zpos (XO (XI
    (XI (XO (XO (XI (XI XH))))))))) :: (((Zpos (XI (XO (XI (XO (XO (XI (XO
    (XO (XO (XO (XO XH)))))))))))), (Zpos (XO (XI (XI (XO (XO (XI (XI
    XH))))))))) :: (((Zpos (XO (XI (XI (XO (XO (XI (XO (XO (XO (XO (XO
    XH)))))))))))), (Zpos (XO (XI (XI (XO (XO (XI (XI XH))))))))) :: (((Zpos
    (XI (XI (XI (XO (XO (XI (XO (XO (XO (XO (XO XH)))))))))))), (Zpos (XO (XI
    (XI (XO (XO (XI (XI XH))))))))) :: (((Zpos (XI (XO (XO (XI (XO (XI (XO
    (XO (XO (XO (XO XH)))))))))))), (Zpos (XO (XI (XI (XO (XO (XI (XI
    XH))))))))) :: (((Zpos (XO (XI (XO (XI (XO (XI (XO (XO (XO (XO (XO
    XH)))))))))))), (Zpos (XO (XI (XI (XO (XO (XI (XI XH))))))))) :: (((Zpos
    (XI (XI (XO (XI (XO (XI (XO (XO (XO (XO (XO XH)))))))))))), (Zpos (XO (XI
    (XI (XO (XO (XI (XI XH))))))))) :: (((Zpos (XO (XO (XI (XI (XO (XI (XO
    (XO (XO (XO (XO XH)))))))))))), (Zpos (XO (XI (XI (XO (XO (XI (XI
    XH))))))))) :: (((Zpos (XI (XO (XI (XI (XO (XI (XO (XO (XO (XO (XO
    XH)))))))))))), (Zpos (XO (XI (XI (XO (XO (XI (XI XH))))))))) :: (((Zpos
    (XI (XO (XO (XI (XI (XO (XI (XO (XO (XO (XO XH)))))))))))), (Zpos (XO (XO
    (XI (XI (XI (XO (XI XH))))))))) :: (((Zpos (XO (XI (XO (XI (XI (XO (XI
    (XO (XO (XO (XO XH)))))))))))), (Zpos (XO (XO (XI (XI (XI (XO (XI
    XH))))))))) :: (((Zpos (XI (XI (XO (XI (XI (XO (XI (XO (XO (XO (XO
    XH)))))))))))), (Zpos (XO (XO (XI (XI (XI (XO (XI XH))))))))) :: (((Zpos
    (XO (XO (XO (XI (XI (XO (XO (XI (XO (XO (XO XH)))))))))))), (Zpos (XO (XI
    (XI (XO (XO (XI (XI XH))))))))) :: (((Zpos (XI (XO (XO (XI (XI (XO (XO
    (XI (XO (XO (XO XH)))))))))))), (Zpos (XO (XO (XI (XI (XI (XO (XI
    XH))))))))) :: (((Zpos (XO (XI (XO (XI (XI (XO (XO (XI (XO (XO (XO
    XH)))))))))))), (Zpos (XO (XO (XI (XI (XI (XO (XI XH))))))))) :: (((Zpos
    (XI (XI (XO (XI (XI (XO (XO (XI (XO (XO (XO XH)))))))))))), (Zpos (XO (XO
    (XI (XI (XI (XO (XI XH))))))))) :: (((Zpos (XO (XO (XI (XI (XI (XO (XO
    (XI (XO (XO (XO XH)))))))))))), (Zpos (XO (XI (XI (XO (XO (XI (XI
    XH))))))))) :: (((Zpos (XI (XO (XI (XI (XI (XO (XO (XI (XO (XO (XO
    XH)))))))))))), (Zpos (XO (XI (XI (XO (XO (XI (XI XH))))))))) :: (((Zpos
    (XO (XI (XI (XI (XI (XO (XO (XI (XO (XO (XO XH)))))))))))), (Zpos (XO (XI
    (XI (XO (XO (XI (XI XH))))))))) :: (((Zpos (XI (XI (XI (XI (XI (XO (XO
    (XI (XO (XO (XO XH)))))))))))), (Zpos (XO (XI (XI (XO (XO (XI (XI
    XH))))))))) :: (((Zpos (XO (XI (XO (XI (XO (XO (XI (XI (XO (XO (XO
    XH)))))))))))), (Zpos (XO (XI (XI (XO (XO (XI (XI XH))))))))) :: (((Zpos
    (XI (XI (XO (XI (XO (XO (XI (XI (XO (XO (XO XH)))))))))))), (Zpos (XO (XI
    (XI (XO (XO (XI (XI XH))))))))) :: (((Zpos (XO (XO (XI (XI (XO (XO (XI
    (XI (XO (XO (XO XH)))))))))))), (Zpos (XO (XI (XI (XO (XO (XI (XI
    XH))))))))) :: (((Zpos (XI (XO (XI (XI (XO (XO (XI (XI (XO (XO (XO
    XH)))))))))))), (Zpos (XO (XI (XI (XO (XO (XI (XI XH))))))))) :: (((Zpos
    (XO (XI (XI (XI (XO (XO (XI (XI (XO (XO (XO XH)))))))))))), (Zpos (XO (XI
    (XI (XO (XO (XI (XI XH))))))))) :: (((Zpos (XI (XI (XI (XI (XO (XO (XI
    (XI (XO (XO (XO XH)))))))))))), (Zpos (XO (XO (XI (XI (XI (XO (XI
    XH))))))))) :: (((Zpos (XO (XO (XO (XO (XI (XO (XI (XI (XO (XO (XO
    XH)))))))))))), (Zpos (XO (XO (XI (XI (XI (XO (XI XH))))))))) :: (((Zpos
    (XI (XO (XO (XO (XI (XO (XI (XI (XO (XO (XO XH)))))))))))), (Zpos (XO (XO
    (XI (XI (XI (XO (XI XH))))))))) :: (((Zpos (XO (XI (XO (XO (XI (XO (XI
    (XI (XO (XO (XO XH)))))))))))), (Zpos (XO (XO (XI (XI (XI (XO (XI
    XH))))))))) :: (((Zpos (XI (XI (XO (XO (XI (XO (XI (XI (XO (XO (XO
    XH)))))))))))), (Zpos (XO (XO (XI (XI (XI (XO (XI XH))))))))) :: (((Zpos
    (XO (XO (XI (XO (XI (XO (XI (XI (XO (XO (XO XH)))))))))))), (Zpos (XO (XI
    (XI (XO (XO (XI (XI XH))))))))) :: (((Zpos (XI (XO (XI (XO (XI (XO (XI
    (XI (XO (XO (XO XH)))))))))))), (Zpos (XO (XI (XI (XO (XO (XI (XI
    XH))))))))) :: (((Zpos (XO (XI (XI (XO (XI (XO (XI (XI (XO (XO (XO
    XH)))))))))))), (Zpos (XO (XI (XI (XO (XO (XI (XI XH))))))))) :: (((Zpos
    (XI (XI (XI (XO (XI (XO (XI (XI (XO (XO (XO XH)))))))))))), (Zpos (XO (XI
    (XI (XO (XO (XI (XI XH))))))))) :: (((Zpos (XO (XO (XO (XI (XI (XO (XI
    (XI (XO (XO (XO XH)))))))))))), (Zpos (XO (XI (XI (XO (XO (XI (XI
    XH))))))))) :: (((Zpos (XI (XO (XO (XI (XI (XO (XI (XI (XO (XO (XO
    XH)))))))))))), (Zpos (XO (XI (XI (XO (XO (XI (XI XH))))))))) :: (((Zpos
    (XO (XI (XO (XI (XI (XO (XI (XI (XO (XO (XO XH)))))))))))), (Zpos (XO (XI
    (XI (XO (XO (XI (XI XH))))))))) :: (((Zpos (XI (XI (XO (XI (XI (XO (XI
    (XI (XO (XO (XO XH)))))))))))), (Zpos (XO (XI (XI (XO (XO (XI (XI
    XH))))))))) :: (((Zpos (XO (XO (XI (XI (XI (XO (XI (XI (XO (XO (XO
    XH)))))))))))), (Zpos (XO (XI (XI (XO (XO (XI (XI XH))))))))) :: (((Zpos
    (XI (XO (XI (XI (XI (XO (XI (XI (XO (XO (XO XH)))))))))))), (Zpos (XO (XI
    (XI (XO (XO (XI (XI XH))))))))) :: (((Zpos (XO (XI (XI (XI (XI (XO (XI
    (XI (XO (XO (XO XH)))))))))))), (Zpos (XO (XI (XI (XO (XO (XI (XI
    XH))))))))) :: (((Zpos (XI (XI (XI (XI (XI (XO (XI (XI (XO (XO (XO
    XH)))))))))))), (Zpos (XO (XI (XI (XO (XO (XI (XI XH))))))))) :: (((Zpos
    (XO (XO (XO (XO (XO (XI (XI (XI (XO (XO (XO XH)))))))))))), (Zpos (XO (XI
    (XI (XO (XO (XI (XI XH))))))))) :: (((Zpos (XI (XO (XO (XO (XO (XI (XI
    (XI (XO (XO (XO XH)))))))))))), (Zpos (XO (XI (XI (XO (XO (XI (XI
    XH))))))))) :: (((Zpos (XI (XI (XO (XO (XO (XI (XI (XI (XO (XO (XO
    XH)))))))))))), (Zpos (XO (XO (XI (XI (XI (XO (XI XH))))))))) :: (((Zpos
    (XO (XO (XI (XO (XO (XI (XI (XI (XO (XO (XO XH)))))))))))), (Zpos (XO (XI
    (XI (XO (XO (XI (XI XH))))))))) :: (((Zpos (XI (XO (XI (XO (XO (XI (XI
    (XI (XO (XO (XO XH)))))))))))), (Zpos (XO (XI (XI (XO (XO (XI (XI
    XH))))))))) :: (((Zpos (XO (XI (XI (XO (XO (XI (XI (XI (XO (XO (XO
    XH)))))))))))), (Zpos (XO (XO (XI (XI (XI (XO (XI XH))))))))) :: (((Zpos
    (XI (XI (XI (XO (XO (XI (XI (XI (XO (XO (XO XH)))))))))))), (Zpos (XO (XI
    (XI (XO (XO (XI (XI XH))))))))) :: (((Zpos (XO (XO (XO (XI (XO (XI (XI
    (XI (XO (XO (XO XH)))))))))))), (Zpos (XO (XI (XI (XO (XO (XI (XI
    XH))))))))) :: (((Zpos (XI (XO (XO (XI (XO (XI (XI (XI (XO (XO (XO
    XH)))))))))))), (Zpos (XO (XO (XI (XI (XI (XO (XI XH))))))))) :: (((Zpos
    (XO (XI (XO (XI (XO (XI (XI (XI (XO (XO (XO XH)))))))))))), (Zpos (XO (XI
    (XI (XO (XO (XI (XI XH))))))))) :: (((Zpos (XI (XI (XO (XI (XO (XI (XI
    (XI (XO (XO (XO XH)))))))))))), (Zpos (XO (XI (XI (XO (XO (XI (XI
    XH))))))))) :: (((Zpos (XO (XO (XI (XI (XO (XI (XI (XI (XO (XO (XO
    XH)))))))))))), (Zpos (XO (XI (XI (XO (XO (XI (XI XH))))))))) :: (((Zpos
    (XI (XO (XI (XI (XO (XI (XI (XI (XO (XO (XO XH)))))))))))), (Zpos (XO (XO
    (XI (XI (XI (XO (XI XH))))))))) :: (((Zpos (XO (XI (XI (XI (XO (XI (XI
    (XI (XO (XO (XO XH)))))))))))), (Zpos (XO (XO (XI (XI (XI (XO (XI
    XH))))))))) :: (((Zpos (XI (XI (XI (XI (XO (XI (XI (XI (XO (XO (XO
    XH)))))))))))), (Zpos (XO (XO (XI (XI (XI (XO (XI XH))))))))) :: (((Zpos
    (XO (XO (XO (XO (XI (XI (XI (XI (XO (XO (XO XH)))))))))))), (Zpos (XI (XI
    (XO (XI XH)))))) :: (((Zpos (XI (XO (XO (XO (XI (XI (XI (XI (XO (XO (XO
    XH)))))))))))), (Zpos (XO (XO (XI (XI XH)))))) :: (((Zpos (XO (XI (XO (XO
    (XI (XI (XI (XI (XO (XO (XO XH)))))))))))), (Zpos (XI (XO (XI (XI
    XH)))))) :: (((Zpos (XI (XI (XO (XO (XI (XI (XI (XI (XO (XO (XO
    XH)))))))))))), (Zpos (XO (XI (XI (XO (XO (XI (XI XH))))))))) :: (((Zpos
    (XO (XO (XI (XO (XI (XI (XI (XI (XO (XO (XO XH)))))))))))), (Zpos (XO (XI
    (XI (XO (XO (XI (XI XH))))))))) :: (((Zpos (XI (XO (XI (XO (XI (XI (XI
    (XI (XO (XO (XO XH)))))))))))), (Zpos (XO (XI (XI (XO (XO (XI (XI
    XH))))))))) :: (((Zpos (XO (XI (XI (XO (XI (XI (XI (XI (XO (XO (XO
    XH)))))))))))), (Zpos (XO (XO (XI (XI (XI (XO (XI XH))))))))) :: (((Zpos
    (XI (XI (XI (XO (XI (XI (XI (XI (XO (XO (XO XH)))))))))))), (Zpos (XO (XI
    (XI (XO (XO (XI (XI XH))))))))) :: (((Zpos (XO (XO (XO (XI (XI (XI (XI
    (XI (XO (XO (XO XH)))))))))))), (Zpos (XO (XI (XI (XO (XO (XI (XI
    XH))))))))) :: (((Zpos (XI (XO (XO (XI (XI (XI (XI (XI (XO (XO (XO
    XH)))))))))))), (Zpos (XO (XO (XI (XI (XI (XO (XI XH))))))))) :: (((Zpos
    (XO (XI (XO (XI (XI (XI (XI (XI (XO (XO (XO XH)))))))))))), (Zpos (XO (XO
    (XI (XI (XI (XO (XI XH))))))))) :: (((Zpos (XI (XI (XO (XI (XI (XI (XI
    (XI (XO (XO (XO XH)))))))))))), (Zpos (XO (XI (XI (XO (XO (XI (XI
    XH))))))))) :: (((Zpos (XO (XO (XI (XI (XI (XI (XI (XI (XO (XO (XO
    XH)))))))))))), (Zpos (XO (XI (XI (XO (XO (XI (XI XH))))))))) :: (((Zpos
    (XI (XO (XI (XI (XI (XI (XI (XI (XO (XO (XO XH)))))))))))), (Zpos (XO (XI
    (XI (XO (XO (XI (XI XH))))))))) :: (((Zpos (XO (XI (XI (XI (XI (XI (XI
    (XI (XO (XO (XO XH)))))))))))), (Zpos (XO (XI (XI (XO (XO (XI (XI
    XH))))))))) :: (((Zpos (XI (XI (XI (XI (XI (XI (XI (XI (XO (XO (XO
    XH)))))))))))), (Zpos (XO (XI (XI (XO (XO (XI (XI XH))))))))) :: (((Zpos
    (XO (XO (XI (XI (XI (XI (XO (XO (XI (XO (XO XH)))))))))))), (Zpos (XI (XI
    XH)))) :: (((Zpos (XI (XO (XI (XI (XO (XO (XI (XO (XI (XO (XO
    XH)))))))))))), (Zpos (XI (XO (XO XH))))) :: (((Zpos (XI (XO (XO (XO (XI
    (XO (XI (XO (XI (XO (XO XH)))))))))))), (Zpos (XO (XI (XI (XO (XO (XI (XI
    XH))))))))) :: (((Zpos (XO (XI (XO (XO (XI (XO (XI (XO (XI (XO (XO
    XH)))))))))))), (Zpos (XO (XO (XI (XI (XI (XO (XI XH))))))))) :: (((Zpos
    (XI (XI (XO (XO (XI (XO (XI (XO (XI (XO (XO XH)))))))))))), (Zpos (XO (XI
    (XI (XO (XO (XI (XI XH))))))))) :: (((Zpos (XO (XO (XI (XO (XI (XO (XI
    (XO (XI (XO (XO XH)))))))))))), (Zpos (XO (XI (XI (XO (XO (XI (XI
    XH))))))))) :: (((Zpos (XO (XO (XI (XI (XI (XI (XO (XI (XI (XO (XO
    XH)))))))))))), (Zpos (XI (XI XH)))) :: (((Zpos (XI (XO (XI (XI (XO (XO
    (XI (XI (XI (XO (XO XH)))))))))))), (Zpos (XI (XO (XO XH))))) :: (((Zpos
    (XO (XI (XI (XI (XI (XI (XI (XI (XI (XO (XO XH)))))))))))), (Zpos (XO (XI
    (XI (XO (XO (XI (XI XH))))))))) :: (((Zpos (XO (XO (XI (XI (XI (XI (XO
    (XO (XO (XI (XO XH)))))))))))), (Zpos (XI (XI XH)))) :: (((Zpos (XI (XO
    (XI (XI (XO (XO (XI (XO (XO (XI (XO XH)))))))))))), (Zpos (XI (XO (XO
    XH))))) :: (((Zpos (XO (XO (XI (XI (XI (XI (XO (XI (XO (XI (XO
    XH)))))))))))), (Zpos (XI (XI XH)))) :: (((Zpos (XI (XO (XI (XI (XO (XO
    (XI (XI (XO (XI (XO XH)))))))))))), (Zpos (XI (XO (XO XH))))) :: (((Zpos
    (XO (XO (XI (XI (XI (XI (XO (XO (XI (XI (XO XH)))))))))))), (Zpos (XI (XI
    XH)))) :: (((Zpos (XI (XO (XI (XI (XO (XO (XI (XO (XI (XI (XO
    XH)))))))))))), (Zpos (XI (XO (XO XH))))) :: (((Zpos (XI (XO (XI (XI (XO
    (XO (XI (XI (XI (XI (XO XH)))))))))))), (Zpos (XI (XO (XO
    XH))))) :: (((Zpos (XO (XO (XI (XI (XI (XI (XO (XO (XO (XO (XI
    XH)))))))))))), (Zpos (XI (XI XH)))) :: (((Zpos (XI (XO (XI (XI (XO (XO
    (XI (XO (XO (XO (XI XH)))))))))))), (Zpos (XI (XO (XO XH))))) :: (((Zpos
    (XI (XO (XI (XO (XI (XO (XI (XO (XO (XO (XI XH)))))))))))), (Zpos (XO (XO
    (XI (XO (XI (XO XH)))))))) :: (((Zpos (XO (XI (XI (XO (XI (XO (XI (XO (XO
    (XO (XI XH)))))))))))), (Zpos (XI (XI (XO (XI (XI (XO
    XH)))))))) :: (((Zpos (XO (XO (XI (XI (XI (XI (XO (XI (XO (XO (XI
    XH)))))))))))), (Zpos (XI (XI XH)))) :: (((Zpos (XI (XO (XI (XI (XO (XO
    (XI (XI (XO (XO (XI XH)))))))))))), (Zpos (XI (XO (XO XH))))) :: (((Zpos
    (XI (XI (XO (XI (XI (XI (XO (XO (XI (XO (XI XH)))))))))))), (Zpos (XI (XO
    (XO XH))))) :: (((Zpos (XO (XO (XI (XI (XI (XI (XO (XO (XI (XO (XI
    XH)))))))))))), (Zpos (XI (XO (XO XH))))) :: (((Zpos (XI (XO (XI (XI (XO
    (XO (XI (XO (XI (XO (XI XH)))))))))))), (Zpos (XI (XO (XO
    XH))))) :: (((Zpos (XO (XI (XO (XI (XO (XO (XI (XI (XI (XO (XI
    XH)))))))))))), (Zpos (XI (XO (XO XH))))) :: (((Zpos (XO (XO (XO (XI (XI
    (XI (XO (XO (XO (XI (XI XH)))))))))))), (Zpos (XI (XI (XI (XO (XO (XI
    XH)))))))) :: (((Zpos (XI (XO (XO (XI (XI (XI (XO (XO (XO (XI (XI
    XH)))))))))))), (Zpos (XI (XI (XI (XO (XO (XI XH)))))))) :: (((Zpos (XO
    (XI (XO (XI (XI (XI (XO (XO (XO (XI (XI XH)))))))))))), (Zpos (XI (XO (XO
    XH))))) :: (((Zpos (XO (XO (XO (XI (XO (XO (XI (XO (XO (XI (XI
    XH)))))))))))), (Zpos (XI (XI (XO (XI (XO (XI XH)))))))) :: (((Zpos (XI
    (XO (XO (XI (XO (XO (XI (XO (XO (XI (XI XH)))))))))))), (Zpos (XI (XI (XO
    (XI (XO (XI XH)))))))) :: (((Zpos (XO (XI (XO (XI (XO (XO (XI (XO (XO (XI
    (XI XH)))))))))))), (Zpos (XI (XI (XO (XI (XO (XI XH)))))))) :: (((Zpos
    (XI (XI (XO (XI (XO (XO (XI (XO (XO (XI (XI XH)))))))))))), (Zpos (XI (XI
    (XO (XI (XO (XI XH)))))))) :: (((Zpos (XO (XO (XO (XI (XI (XI (XO (XI (XO
    (XI (XI XH)))))))))))), (Zpos (XO (XI (XI (XO (XI (XI
    XH)))))))) :: (((Zpos (XI (XO (XO (XI (XI (XI (XO (XI (XO (XI (XI
    XH)))))))))))), (Zpos (XO (XI (XI (XO (XI (XI XH)))))))) :: (((Zpos (XO
    (XI (XO (XI (XI (XI (XO (XI (XO (XI (XI XH)))))))))))), (Zpos (XI (XO (XO
    XH))))) :: (((Zpos (XO (XO (XO (XI (XO (XO (XI (XI (XO (XI (XI
    XH)))))))))))), (Zpos (XO (XI (XO (XI (XI (XI XH)))))))) :: (((Zpos (XI
    (XO (XO (XI (XO (XO (XI (XI (XO (XI (XI XH)))))))))))), (Zpos (XO (XI (XO
    (XI (XI (XI XH)))))))) :: (((Zpos (XO (XI (XO (XI (XO (XO (XI (XI (XO (XI
    (XI XH)))))))))))), (Zpos (XO (XI (XO (XI (XI (XI XH)))))))) :: (((Zpos
    (XI (XI (XO (XI (XO (XO (XI (XI (XO (XI (XI XH)))))))))))), (Zpos (XO (XI
    (XO (XI (XI (XI XH)))))))) :: (((Zpos (XO (XO (XO (XI (XI (XO (XO (XO (XI
    (XI (XI XH)))))))))))), (Zpos (XO (XO (XI (XI (XI (XO (XI
    XH))))))))) :: (((Zpos (XI (XO (XO (XI (XI (XO (XO (XO (XI (XI (XI
    XH)))))))))))), (Zpos (XO (XO (XI (XI (XI (XO (XI XH))))))))) :: (((Zpos
    (XI (XO (XI (XO (XI (XI (XO (XO (XI (XI (XI XH)))))))))))), (Zpos (XO (XO
    (XI (XI (XI (XO (XI XH))))))))) :: (((Zpos (XI (XI (XI (XO (XI (XI (XO
    (XO (XI (XI (XI XH)))))))))))), (Zpos (XO (XO (XI (XI (XI (XO (XI
    XH))))))))) :: (((Zpos (XI (XO (XO (XI (XI (XI (XO (XO (XI (XI (XI
    XH)))))))))))), (Zpos (XO (XO (XO (XI (XI (XO (XI XH))))))))) :: (((Zpos
    (XI (XO (XO (XO (XI (XI (XI (XO (XI (XI (XI XH)))))))))))), (Zpos (XI (XO
    (XO (XO (XO (XO (XO XH))))))))) :: (((Zpos (XO (XI (XO (XO (XI (XI (XI
    (XO (XI (XI (XI XH)))))))))))), (Zpos (XO (XI (XO (XO (XO (XO (XO
    XH))))))))) :: (((Zpos (XO (XO (XI (XO (XI (XI (XI (XO (XI (XI (XI
    XH)))))))))))), (Zpos (XO (XO (XI (XO (XO (XO (XO XH))))))))) :: (((Zpos
    (XO (XI (XO (XI (XI (XI (XI (XO (XI (XI (XI XH)))))))))))), (Zpos (XO (XI
    (XO (XO (XO (XO (XO XH))))))))) :: (((Zpos (XI (XI (XO (XI (XI (XI (XI
    (XO (XI (XI (XI XH)))))))))))), (Zpos (XO (XI (XO (XO (XO (XO (XO
    XH))))))))) :: (((Zpos (XO (XO (XI (XI (XI (XI (XI (XO (XI (XI (XI
    XH)))))))))))), (Zpos (XO (XI (XO (XO (XO (XO (XO XH))))))))) :: (((Zpos
    (XI (XO (XI (XI (XI (XI (XI (XO (XI (XI (XI XH)))))))))))), (Zpos (XO (XI
    (XO (XO (XO (XO (XO XH))))))))) :: (((Zpos (XO (XO (XO (XO (XO (XO (XO
    (XI (XI (XI (XI XH)))))))))))), (Zpos (XO (XI (XO (XO (XO (XO (XO
    XH))))))))) :: (((Zpos (XO (XI (XO (XO (XO (XO (XO (XI (XI (XI (XI
    XH)))))))))))), (Zpos (XO (XI (XI (XO (XO (XI (XI XH))))))))) :: (((Zpos
    (XI (XI (XO (XO (XO (XO (XO (XI (XI (XI (XI XH)))))))))))), (Zpos (XO (XI
    (XI (XO (XO (XI (XI XH))))))))) :: (((Zpos (XO (XO (XI (XO (XO (XO (XO
    (XI (XI (XI (XI XH)))))))))))), (Zpos (XI (XO (XO XH))))) :: (((Zpos (XO
    (XI (XI (XO (XO (XO (XO (XI (XI (XI (XI XH)))))))))))), (Zpos (XO (XI (XI
    (XO (XO (XI (XI XH))))))))) :: (((Zpos (XI (XI (XI (XO (XO (XO (XO (XI
    (XI (XI (XI XH)))))))))))), (Zpos (XO (XI (XI (XO (XO (XI (XI
    XH))))))))) :: (((Zpos (XO (XI (XI (XO (XO (XO (XI (XI (XI (XI (XI
    XH)))))))))))), (Zpos (XO (XO (XI (XI (XI (XO (XI XH))))))))) :: (((Zpos
    (XI (XI (XI (XO (XI (XI (XO (XO (XO (XO (XO (XO XH))))))))))))), (Zpos
    (XI (XI XH)))) :: (((Zpos (XI (XO (XO (XI (XI (XI (XO (XO (XO (XO (XO (XO
    XH))))))))))))), (Zpos (XI (XO (XO XH))))) :: (((Zpos (XO (XI (XO (XI (XI
    (XI (XO (XO (XO (XO (XO (XO XH))))))))))))), (Zpos (XI (XO (XO
    XH))))) :: (((Zpos (XI (XO (XI (XI (XO (XO (XO (XI (XO (XO (XO (XO
    XH))))))))))))), (Zpos (XO (XO (XI (XI (XI (XO (XI XH))))))))) :: (((Zpos
    (XI (XO (XI (XI (XI (XO (XI (XO (XI (XI (XO (XO XH))))))))))))), (Zpos
    (XO (XI (XI (XO (XO (XI (XI XH))))))))) :: (((Zpos (XO (XI (XI (XI (XI
    (XO (XI (XO (XI (XI (XO (XO XH))))))))))))), (Zpos (XO (XI (XI (XO (XO
    (XI (XI XH))))))))) :: (((Zpos (XI (XI (XI (XI (XI (XO (XI (XO (XI (XI
    (XO (XO XH))))))))))))), (Zpos (XO (XI (XI (XO (XO (XI (XI
    XH))))))))) :: (((Zpos (XO (XO (XI (XO (XI (XO (XO (XO (XI (XI (XI (XO
    XH))))))))))))), (Zpos (XI (XO (XO XH))))) :: (((Zpos (XI (XO (XI (XO (XI
    (XO (XO (XO (XI (XI (XI (XO XH))))))))))))), (Zpos (XI (XO (XO
    XH))))) :: (((Zpos (XO (XO (XI (XO (XI (XI (XO (XO (XI (XI (XI (XO
    XH))))))))))))), (Zpos (XI (XO (XO XH))))) :: (((Zpos (XO (XI (XO (XO (XI
    (XO (XI (XI (XI (XI (XI (XO XH))))))))))))), (Zpos (XI (XO (XO
    XH))))) :: (((Zpos (XI (XO (XI (XI (XI (XO (XI (XI (XI (XI (XI (XO
    XH))))))))))))), (Zpos (XO (XI (XI (XO (XO (XI (XI XH))))))))) :: (((Zpos
    (XI (XO (XO (XI (XO (XI (XO (XI (XO (XO (XO (XI XH))))))))))))), (Zpos
    (XO (XO (XI (XO (XO (XI (XI XH))))))))) :: (((Zpos (XI (XO (XO (XI (XI
    (XI (XO (XO (XI (XO (XO (XI XH))))))))))))), (Zpos (XO (XI (XI (XI (XI
    (XO (XI XH))))))))) :: (((Zpos (XO (XI (XO (XI (XI (XI (XO (XO (XI (XO
    (XO (XI XH))))))))))))), (Zpos (XO (XI (XI (XO (XO (XI (XI
    XH))))))))) :: (((Zpos (XI (XI (XO (XI (XI (XI (XO (XO (XI (XO (XO (XI
    XH))))))))))))), (Zpos (XO (XO (XI (XI (XI (XO (XI XH))))))))) :: (((Zpos
    (XI (XI (XI (XO (XI (XO (XO (XO (XO (XI (XO (XI XH))))))))))))), (Zpos
    (XO (XI (XI (XO (XO (XI (XI XH))))))))) :: (((Zpos (XO (XO (XO (XI (XI
    (XO (XO (XO (XO (XI (XO (XI XH))))))))))))), (Zpos (XO (XO (XI (XI (XI
    (XO (XI XH))))))))) :: (((Zpos (XO (XO (XO (XO (XO (XI (XI (XO (XO (XI
    (XO (XI XH))))))))))))), (Zpos (XI (XO (XO XH))))) :: (((Zpos (XI (XO (XI
    (XO (XI (XI (XI (XO (XO (XI (XO (XI XH))))))))))))), (Zpos (XO (XI (XI
    (XO (XO (XI (XI XH))))))))) :: (((Zpos (XO (XI (XI (XO (XI (XI (XI (XO
    (XO (XI (XO (XI XH))))))))))))), (Zpos (XO (XI (XI (XO (XO (XI (XI
    XH))))))))) :: (((Zpos (XI (XI (XI (XO (XI (XI (XI (XO (XO (XI (XO (XI
    XH))))))))))))), (Zpos (XO (XI (XI (XO (XO (XI (XI XH))))))))) :: (((Zpos
    (XO (XO (XO (XI (XI (XI (XI (XO (XO (XI (XO (XI XH))))))))))))), (Zpos
    (XO (XI (XI (XO (XO (XI (XI XH))))))))) :: (((Zpos (XI (XO (XO (XI (XI
    (XI (XI (XO (XO (XI (XO (XI XH))))))))))))), (Zpos (XO (XI (XI (XO (XO
    (XI (XI XH))))))))) :: (((Zpos (XO (XI (XO (XI (XI (XI (XI (XO (XO (XI
    (XO (XI XH))))))))))))), (Zpos (XO (XI (XI (XO (XO (XI (XI
    XH))))))))) :: (((Zpos (XI (XI (XO (XI (XI (XI (XI (XO (XO (XI (XO (XI
    XH))))))))))))), (Zpos (XO (XI (XI (XO (XO (XI (XI XH))))))))) :: (((Zpos
    (XO (XO (XI (XI (XI (XI (XI (XO (XO (XI (XO (XI XH))))))))))))), (Zpos
    (XO (XI (XI (XO (XO (XI (XI XH))))))))) :: (((Zpos (XI (XI (XI (XI (XI
    (XI (XI (XO (XO (XI (XO (XI XH))))))))))))), (Zpos (XO (XO (XI (XI (XI
    (XO (XI XH))))))))) :: (((Zpos (XO (XO (XO (XO (XI (XI (XO (XI (XO (XI
    (XO (XI XH))))))))))))), (Zpos (XO (XI (XI (XO (XO (XI (XI
    XH))))))))) :: (((Zpos (XI (XO (XO (XO (XI (XI (XO (XI (XO (XI (XO (XI
    XH))))))))))))), (Zpos (XO (XI (XI (XO (XO (XI (XI XH))))))))) :: (((Zpos
    (XO (XI (XO (XO (XI (XI (XO (XI (XO (XI (XO (XI XH))))))))))))), (Zpos
    (XO (XI (XI (XO (XO (XI (XI XH))))))))) :: (((Zpos (XI (XI (XO (XO (XI
    (XI (XO (XI (XO (XI (XO (XI XH))))))))))))), (Zpos (XO (XI (XI (XO (XO
    (XI (XI XH))))))))) :: (((Zpos (XO (XO (XI (XO (XI (XI (XO (XI (XO (XI
    (XO (XI XH))))))))))))), (Zpos (XO (XI (XI (XO (XO (XI (XI
    XH))))))))) :: (((Zpos (XI (XO (XI (XO (XI (XI (XO (XI (XO (XI (XO (XI
    XH))))))))))))), (Zpos (XO (XO (XI (XI (XI (XO (XI XH))))))))) :: (((Zpos
    (XO (XI (XI (XO (XI (XI (XO (XI (XO (XI (XO (XI XH))))))))))))), (Zpos
    (XO (XO (XI (XI (XI (XO (XI XH))))))))) :: (((Zpos (XI (XI (XI (XO (XI
    (XI (XO (XI (XO (XI (XO (XI XH))))))))))))), (Zpos (XO (XO (XI (XI (XI
    (XO (XI XH))))))))) :: (((Zpos (XO (XO (XO (XI (XI (XI (XO (XI (XO (XI
    (XO (XI XH))))))))))))), (Zpos (XO (XO (XI (XI (XI (XO (XI
    XH))))))))) :: (((Zpos (XI (XO (XO (XI (XI (XI (XO (XI (XO (XI (XO (XI
    XH))))))))))))), (Zpos (XO (XO (XI (XI (XI (XO (XI XH))))))))) :: (((Zpos
    (XO (XI (XO (XI (XI (XI (XO (XI (XO (XI (XO (XI XH))))))))))))), (Zpos
    (XO (XO (XI (XI (XI (XO (XI XH))))))))) :: (((Zpos (XI (XI (XO (XI (XI
    (XI (XO (XI (XO (XI (XO (XI XH))))))))))))), (Zpos (XO (XI (XI (XO (XO
    (XI (XI XH))))))))) :: (((Zpos (XO (XO (XI (XI (XI (XI (XO (XI (XO (XI
    (XO (XI XH))))))))))))), (Zpos (XO (XI (XI (XO (XO (XI (XI
    XH))))))))) :: (((Zpos (XI (XO (XI (XI (XI (XI (XO (XI (XO (XI (XO (XI
    XH))))))))))))), (Zpos (XO (XO (XI (XI (XI (XO (XI XH))))))))) :: (((Zpos
    (XI (XI (XI (XI (XI (XI (XO (XI (XO (XI (XO (XI XH))))))))))))), (Zpos
    (XO (XO (XI (XI (XI (XO (XI XH))))))))) :: (((Zpos (XO (XO (XO (XO (XO
    (XO (XI (XI (XO (XI (XO (XI XH))))))))))))), (Zpos (XO (XO (XI (XI (XI
    (XO (XI XH))))))))) :: (((Zpos (XI (XO (XO (XO (XO (XO (XI (XI (XO (XI
    (XO (XI XH))))))))))))), (Zpos (XO (XI (XI (XO (XO (XI (XI
    XH))))))))) :: (((Zpos (XO (XI (XO (XO (XO (XO (XI (XI (XO (XI (XO (XI
    XH))))))))))))), (Zpos (XO (XI (XI (XO (XO (XI (XI XH))))))))) :: (((Zpos
    (XI (XI (XO (XO (XO (XO (XI (XI (XO (XI (XO (XI XH))))))))))))), (Zpos
    (XO (XO (XI (XI (XI (XO (XI XH))))))))) :: (((Zpos (XO (XO (XI (XO (XO
    (XO (XI (XI (XO (XI (XO (XI XH))))))))))))), (Zpos (XO (XO (XI (XI (XI
    (XO (XI XH))))))))) :: (((Zpos (XI (XO (XI (XO (XO (XO (XI (XI (XO (XI
    (XO (XI XH))))))))))))), (Zpos (XO (XI (XI (XO (XO (XI (XI
    XH))))))))) :: (((Zpos (XO (XI (XI (XO (XO (XO (XI (XI (XO (XI (XO (XI
    XH))))))))))))), (Zpos (XO (XI (XI (XO (XO (XI (XI XH))))))))) :: (((Zpos
    (XI (XI (XI (XO (XO (XO (XI (XI (XO (XI (XO (XI XH))))))))))))), (Zpos
    (XO (XI (XI (XO (XO (XI (XI XH))))))))) :: (((Zpos (XO (XO (XO (XI (XO
    (XO (XI (XI (XO (XI (XO (XI XH))))))))))))), (Zpos (XO (XI (XI (XO (XO
    (XI (XI XH))))))))) :: (((Zpos (XI (XO (XO (XI (XO (XO (XI (XI (XO (XI
    (XO (XI XH))))))))))))), (Zpos (XO (XI (XI (XO (XO (XI (XI
    XH))))))))) :: (((Zpos (XO (XI (XO (XI (XO (XO (XI (XI (XO (XI (XO (XI
    XH))))))))))))), (Zpos (XO (XO (XI (XI (XI (XO (XI XH))))))))) :: (((Zpos
    (XI (XI (XO (XI (XO (XO (XI (XI (XO (XI (XO (XI XH))))))))))))), (Zpos
    (XO (XI (XI (XO (XO (XI (XI XH))))))))) :: (((Zpos (XO (XO (XI (XI (XO
    (XO (XI (XI (XO (XI (XO (XI XH))))))))))))), (Zpos (XO (XI (XI (XO (XO
    (XI (XI XH))))))))) :: (((Zpos (XI (XO (XI (XI (XO (XO (XI (XI (XO (XI
    (XO (XI XH))))))))))))), (Zpos (XO (XI (XI (XO (XO (XI (XI
    XH))))))))) :: (((Zpos (XO (XI (XI (XI (XO (XO (XI (XI (XO (XI (XO (XI
    XH))))))))))))), (Zpos (XO (XI (XI (XO (XO (XI (XI XH))))))))) :: (((Zpos
    (XO (XO (XI (XO (XI (XI (XO (XO (XI (XI (XO (XI XH))))))))))))), (Zpos
    (XI (XI XH)))) :: (((Zpos (XO (XO (XI (XO (XO (XO (XI (XO (XI (XI (XO (XI
    XH))))))))))))), (Zpos (XI (XO (XO XH))))) :: (((Zpos (XI (XI (XO (XI (XO
    (XI (XI (XO (XI (XI (XO (XI XH))))))))))))), (Zpos (XO (XI (XI (XO (XO
    (XI (XI XH))))))))) :: (((Zpos (XO (XO (XI (XI (XO (XI (XI (XO (XI (XI
    (XO (XI XH))))))))))))), (Zpos (XO (XO (XI (XI (XI (XO (XI
    XH))))))))) :: (((Zpos (XI (XO (XI (XI (XO (XI (XI (XO (XI (XI (XO (XI
    XH))))))))))))), (Zpos (XO (XI (XI (XO (XO (XI (XI XH))))))))) :: (((Zpos
    (XO (XI (XI (XI (XO (XI (XI (XO (XI (XI (XO (XI XH))))))))))))), (Zpos
    (XO (XI (XI (XO (XO (XI (XI XH))))))))) :: (((Zpos (XI (XI (XI (XI (XO
    (XI (XI (XO (XI (XI (XO (XI XH))))))))))))), (Zpos (XO (XI (XI (XO (XO
    (XI (XI XH))))))))) :: (((Zpos (XO (XO (XO (XO (XI (XI (XI (XO (XI (XI
    (XO (XI XH))))))))))))), (Zpos (XO (XI (XI (XO (XO (XI (XI
    XH))))))))) :: (((Zpos (XI (XO (XO (XO (XI (XI (XI (XO (XI (XI (XO (XI
    XH))))))))))))), (Zpos (XO (XI (XI (XO (XO (XI (XI XH))))))))) :: (((Zpos
    (XO (XI (XO (XO (XI (XI (XI (XO (XI (XI (XO (XI XH))))))))))))), (Zpos
    (XO (XI (XI (XO (XO (XI (XI XH))))))))) :: (((Zpos (XI (XI (XO (XO (XI
    (XI (XI (XO (XI (XI (XO (XI XH))))))))))))), (Zpos (XO (XI (XI (XO (XO
    (XI (XI XH))))))))) :: (((Zpos (XO (XI (XO (XI (XO (XI (XO (XI (XI (XI
    (XO (XI XH))))))))))))), (Zpos (XI (XO (XO XH))))) :: (((Zpos (XI (XI (XO
    (XI (XO (XI (XO (XI (XI (XI (XO (XI XH))))))))))))), (Zpos (XI (XO (XO
    XH))))) :: (((Zpos (XO (XI (XI (XO (XO (XI (XI (XI (XI (XI (XO (XI
    XH))))))))))))), (Zpos (XI (XI XH)))) :: (((Zpos (XO (XI (XO (XO (XI (XI
    (XI (XI (XI (XI (XO (XI XH))))))))))))), (Zpos (XI (XO (XO
    XH))))) :: (((Zpos (XI (XI (XO (XO (XI (XI (XI (XI (XI (XI (XO (XI
    XH))))))))))))), (Zpos (XI (XO (XO XH))))) :: (((Zpos (XI (XI (XI (XO (XI
    (XI (XO (XO (XO (XO (XI (XI XH))))))))))))), (Zpos (XI (XI
    XH)))) :: (((Zpos (XO (XO (XO (XO (XI (XO (XI (XI (XO (XO (XI (XI
    XH))))))))))))), (Zpos (XO (XI (XI (XO (XO (XI (XI XH))))))))) :: (((Zpos
    (XI (XO (XO (XO (XI (XO (XI (XI (XO (XO (XI (XI XH))))))))))))), (Zpos
    (XO (XI (XI (XO (XO (XI (XI XH))))))))) :: (((Zpos (XO (XI (XO (XO (XI
    (XO (XI (XI (XO (XO (XI (XI XH))))))))))))), (Zpos (XO (XI (XI (XO (XO
    (XI (XI XH))))))))) :: (((Zpos (XO (XO (XI (XO (XI (XO (XI (XI (XO (XO
    (XI (XI XH))))))))))))), (Zpos XH)) :: (((Zpos (XI (XO (XI (XO (XI (XO
    (XI (XI (XO (XO (XI (XI XH))))))))))))), (Zpos (XO (XO (XI (XI (XI (XO
    (XI XH))))))))) :: (((Zpos (XO (XI (XI (XO (XI (XO (XI (XI (XO (XO (XI
    (XI XH))))))))))))), (Zpos (XO (XO (XI (XI (XI (XO (XI
    XH))))))))) :: (((Zpos (XI (XI (XI (XO (XI (XO (XI (XI (XO (XO (XI (XI
    XH))))))))))))), (Zpos (XO (XO (XI (XI (XI (XO (XI XH))))))))) :: (((Zpos
    (XO (XO (XO (XI (XI (XO (XI (XI (XO (XO (XI (XI XH))))))))))))), (Zpos
    (XO (XO (XI (XI (XI (XO (XI XH))))))))) :: (((Zpos (XI (XO (XO (XI (XI
    (XO (XI (XI (XO (XO (XI (XI XH))))))))))))), (Zpos (XO (XO (XI (XI (XI
    (XO (XI XH))))))))) :: (((Zpos (XO (XI (XO (XI (XI (XO (XI (XI (XO (XO
    (XI (XI XH))))))))))))), (Zpos (XO (XI (XI (XO (XO (XI (XI
    XH))))))))) :: (((Zpos (XI (XI (XO (XI (XI (XO (XI (XI (XO (XO (XI (XI
    XH))))))))))))), (Zpos (XO (XI (XI (XO (XO (XI (XI XH))))))))) :: (((Zpos
    (XO (XO (XI (XI (XI (XO (XI (XI (XO (XO (XI (XI XH))))))))))))), (Zpos
    (XO (XO (XI (XI (XI (XO (XI XH))))))))) :: (((Zpos (XI (XO (XI (XI (XI
    (XO (XI (XI (XO (XO (XI (XI XH))))))))))))), (Zpos (XO (XO (XI (XI (XI
    (XO (XI XH))))))))) :: (((Zpos (XO (XI (XI (XI (XI (XO (XI (XI (XO (XO
    (XI (XI XH))))))))))))), (Zpos (XO (XO (XI (XI (XI (XO (XI
    XH))))))))) :: (((Zpos (XI (XI (XI (XI (XI (XO (XI (XI (XO (XO (XI (XI
    XH))))))))))))), (Zpos (XO (XO (XI (XI (XI (XO (XI XH))))))))) :: (((Zpos
    (XO (XO (XO (XO (XO (XI (XI (XI (XO (XO (XI (XI XH))))))))))))), (Zpos
    (XO (XI (XI (XO (XO (XI (XI XH))))))))) :: (((Zpos (XO (XI (XO (XO (XO
    (XI (XI (XI (XO (XO (XI (XI XH))))))))))))), (Zpos XH)) :: (((Zpos (XI
    (XI (XO (XO (XO (XI (XI (XI (XO (XO (XI (XI XH))))))))))))), (Zpos
    XH)) :: (((Zpos (XO (XO (XI (XO (XO (XI (XI (XI (XO (XO (XI (XI
    XH))))))))))))), (Zpos XH)) :: (((Zpos (XI (XO (XI (XO (XO (XI (XI (XI
    (XO (XO (XI (XI XH))))))))))))), (Zpos XH)) :: (((Zpos (XO (XI (XI (XO
    (XO (XI (XI (XI (XO (XO (XI (XI XH))))))))))))), (Zpos XH)) :: (((Zpos
    (XI (XI (XI (XO (XO (XI (XI (XI (XO (XO (XI (XI XH))))))))))))), (Zpos
    XH)) :: (((Zpos (XO (XO (XO (XI (XO (XI (XI (XI (XO (XO (XI (XI
    XH))))))))))))), (Zpos XH)) :: (((Zpos (XI (XO (XI (XI (XO (XI (XI (XI
    (XO (XO (XI (XI XH))))))))))))), (Zpos (XO (XO (XI (XI (XI (XO (XI
    XH))))))))) :: (((Zpos (XO (XO (XI (XO (XI (XI (XI (XI (XO (XO (XI (XI
    XH))))))))))))), (Zpos (XO (XI (XI (XO (XO (XI (XI XH))))))))) :: (((Zpos
    (XO (XO (XO (XI (XI (XI (XI (XI (XO (XO (XI (XI XH))))))))))))), (Zpos
    (XO (XI (XI (XO (XO (XI (XI XH))))))))) :: (((Zpos (XI (XO (XO (XI (XI
    (XI (XI (XI (XO (XO (XI (XI XH))))))))))))), (Zpos (XO (XI (XI (XO (XO
    (XI (XI XH))))))))) :: (((Zpos (XO (XO (XO (XO (XO (XO (XI (XI (XI (XO
    (XI (XI XH))))))))))))), (Zpos (XO (XI (XI (XO (XO (XI (XI
    XH))))))))) :: (((Zpos (XI (XO (XO (XO (XO (XO (XI (XI (XI (XO (XI (XI
    XH))))))))))))), (Zpos (XO (XI (XI (XO (XO (XI (XI XH))))))))) :: (((Zpos
    (XO (XI (XO (XO (XO (XO (XI (XI (XI (XO (XI (XI XH))))))))))))), (Zpos
    (XO (XO (XI (XI (XI (XO (XI XH))))))))) :: (((Zpos (XI (XI (XO (XO (XO
    (XO (XI (XI (XI (XO (XI (XI XH))))))))))))), (Zpos (XO (XI (XI (XO (XO
    (XI (XI XH))))))))) :: (((Zpos (XO (XO (XI (XO (XO (XO (XI (XI (XI (XO
    (XI (XI XH))))))))))))), (Zpos (XO (XI (XI (XO (XO (XI (XI
    XH))))))))) :: (((Zpos (XI (XO (XI (XO (XO (XO (XI (XI (XI (XO (XI (XI
    XH))))))))))))), (Zpos (XO (XI (XI (XO (XO (XI (XI XH))))))))) :: (((Zpos
    (XO (XI (XI (XO (XO (XO (XI (XI (XI (XO (XI (XI XH))))))))))))), (Zpos
    (XO (XI (XI (XO (XO (XI (XI XH))))))))) :: (((Zpos (XI (XI (XI (XO (XO
    (XO (XI (XI (XI (XO (XI (XI XH))))))))))))), (Zpos (XO (XI (XI (XO (XO
    (XI (XI XH))))))))) :: (((Zpos (XO (XO (XO (XI (XO (XO (XI (XI (XI (XO
    (XI (XI XH))))))))))))), (Zpos (XO (XI (XI (XO (XO (XI (XI
    XH))))))))) :: (((Zpos (XI (XO (XO (XI (XO (XO (XI (XI (XI (XO (XI (XI
    XH))))))))))))), (Zpos (XO (XI (XI (XO (XO (XI (XI XH))))))))) :: (((Zpos
    (XO (XI (XO (XI (XO (XO (XI (XI (XI (XO (XI (XI XH))))))))))))), (Zpos
    (XO (XO (XI (XI (XI (XO (XI XH))))))))) :: (((Zpos (XI (XI (XO (XI (XO
    (XO (XI (XI (XI (XO (XI (XI XH))))))))))))), (Zpos (XO (XI (XI (XO (XO
    (XI (XI XH))))))))) :: (((Zpos (XO (XO (XI (XI (XO (XO (XI (XI (XI (XO
    (XI (XI XH))))))))))))), (Zpos (XO (XI (XI (XO (XO (XI (XI
    XH))))))))) :: (((Zpos (XI (XO (XI (XI (XO (XO (XI (XI (XI (XO (XI (XI
    XH))))))))))))), (Zpos (XO (XI (XO (XI (XO (XI (XI XH))))))))) :: (((Zpos
    (XO (XI (XI (XI (XO (XO (XI (XI (XI (XO (XI (XI XH))))))))))))), (Zpos
    (XO (XI (XI (XO (XI (XO (XI XH))))))))) :: (((Zpos (XI (XI (XI (XI (XO
    (XO (XI (XI (XI (XO (XI (XI XH))))))))))))), (Zpos (XO (XO (XI (XI (XI
    (XO (XI XH))))))))) :: (((Zpos (XO (XO (XO (XO (XI (XO (XI (XI (XI (XO
    (XI (XI XH))))))))))))), (Zpos (XO (XI (XO (XI (XO (XO (XI
    XH))))))))) :: (((Zpos (XI (XO (XO (XO (XI (XO (XI (XI (XI (XO (XI (XI
    XH))))))))))))), (Zpos (XO (XI (XI (XO (XO (XI (XI XH))))))))) :: (((Zpos
    (XO (XI (XO (XO (XI (XO (XI (XI (XI (XO (XI (XI XH))))))))))))), (Zpos
    (XO (XI (XI (XO (XO (XI (XI XH))))))))) :: (((Zpos (XI (XI (XO (XO (XI
    (XO (XI (XI (XI (XO (XI (XI XH))))))))))))), (Zpos (XO (XI (XI (XO (XO
    (XI (XI XH))))))))) :: (((Zpos (XO (XO (XI (XO (XI (XO (XI (XI (XI (XO
    (XI (XI XH))))))))))))), (Zpos (XO (XI (XI (XO (XO (XI (XI
    XH))))))))) :: (((Zpos (XI (XO (XI (XO (XI (XO (XI (XI (XI (XO (XI (XI
    XH))))))))))))), (Zpos (XO (XI (XI (XO (XO (XI (XI XH))))))))) :: (((Zpos
    (XO (XI (XI (XO (XI (XO (XI (XI (XI (XO (XI (XI XH))))))))))))), (Zpos
    (XO (XI (XI (XO (XO (XI (XI XH))))))))) :: (((Zpos (XI (XI (XI (XO (XI
    (XO (XI (XI (XI (XO (XI (XI XH))))))))))))), (Zpos (XO (XI (XI (XO (XO
    (XI (XI XH))))))))) :: (((Zpos (XO (XO (XO (XI (XI (XO (XI (XI (XI (XO
    (XI (XI XH))))))))))))), (Zpos (XO (XI (XI (XO (XO (XI (XI
    XH))))))))) :: (((Zpos (XI (XO (XO (XI (XI (XO (XI (XI (XI (XO (XI (XI
    XH))))))))))))), (Zpos (XO (XI (XI (XO (XO (XI (XI XH))))))))) :: (((Zpos
    (XO (XI (XO (XI (XI (XO (XI (XI (XI (XO (XI (XI XH))))))))))))), (Zpos
    (XO (XI (XI (XO (XO (XI (XI XH))))))))) :: (((Zpos (XI (XI (XO (XI (XI
    (XO (XI (XI (XI (XO (XI (XI XH))))))))))))), (Zpos (XO (XI (XI (XO (XO
    (XI (XI XH))))))))) :: (((Zpos (XO (XO (XI (XI (XI (XO (XI (XI (XI (XO
    (XI (XI XH))))))))))))), (Zpos (XO (XI (XI (XO (XO (XI (XI
    XH))))))))) :: (((Zpos (XI (XO (XI (XI (XI (XO (XI (XI (XI (XO (XI (XI
    XH))))))))))))), (Zpos (XO (XI (XI (XO (XO (XI (XI XH))))))))) :: (((Zpos
    (XO (XI (XI (XI (XI (XO (XI (XI (XI (XO (XI (XI XH))))))))))))), (Zpos
    (XO (XI (XI (XO (XO (XI (XI XH))))))))) :: (((Zpos (XI (XI (XI (XI (XI
    (XO (XI (XI (XI (XO (XI (XI XH))))))))))))), (Zpos (XO (XI (XI (XO (XO
    (XI (XI XH))))))))) :: (((Zpos (XO (XO (XO (XO (XO (XI (XI (XI (XI (XO
    (XI (XI XH))))))))))))), (Zpos (XO (XI (XI (XO (XO (XI (XI
    XH))))))))) :: (((Zpos (XI (XO (XO (XO (XO (XI (XI (XI (XI (XO (XI (XI
    XH))))))))))))), (Zpos (XO (XI (XI (XO (XO (XI (XI XH))))))))) :: (((Zpos
    (XO (XI (XO (XO (XO (XI (XI (XI (XI (XO (XI (XI XH))))))))))))), (Zpos
    (XO (XI (XI (XO (XO (XI (XI XH))))))))) :: (((Zpos (XI (XI (XO (XO (XO
    (XI (XI (XI (XI (XO (XI (XI XH))))))))))))), (Zpos (XO (XI (XI (XO (XO
    (XI (XI XH))))))))) :: (((Zpos (XO (XO (XI (XO (XO (XI (XI (XI (XI (XO
    (XI (XI XH))))))))))))), (Zpos (XO (XI (XI (XO (XO (XI (XI
    XH))))))))) :: (((Zpos (XI (XO (XI (XO (XO (XI (XI (XI (XI (XO (XI (XI
    XH))))))))))))), (Zpos (XO (XI (XI (XO (XO (XI (XI XH))))))))) :: (((Zpos
    (XO (XI (XI (XO (XO (XI (XI (XI (XI (XO (XI (XI XH))))))))))))), (Zpos
    (XO (XI (XI (XO (XO (XI (XI XH))))))))) :: (((Zpos (XI (XI (XI (XO (XO
    (XI (XI (XI (XI (XO (XI (XI XH))))))))))))), (Zpos (XO (XI (XI (XO (XO
    (XI (XI XH))))))))) :: (((Zpos (XO (XO (XO (XI (XO (XI (XI (XI (XI (XO
    (XI (XI XH))))))))))))), (Zpos (XO (XI (XI (XO (XO (XI (XI
    XH))))))))) :: (((Zpos (XI (XO (XO (XI (XO (XI (XI (XI (XI (XO (XI (XI
    XH))))))))))))), (Zpos (XO (XI (XI (XO (XO (XI (XI XH))))))))) :: (((Zpos
    (XO (XI (XO (XI (XO (XI (XI (XI (XI (XO (XI (XI XH))))))))))))), (Zpos
    (XO (XI (XI (XO (XO (XI (XI XH))))))))) :: (((Zpos (XI (XI (XO (XI (XO
    (XI (XI (XI (XI (XO (XI (XI XH))))))))))))), (Zpos (XO (XI (XI (XO (XO
    (XI (XI XH))))))))) :: (((Zpos (XO (XO (XI (XI (XO (XI (XI (XI (XI (XO
    (XI (XI XH))))))))))))), (Zpos (XO (XI (XI (XO (XO (XI (XI
    XH))))))))) :: (((Zpos (XI (XO (XI (XI (XO (XI (XI (XI (XI (XO (XI (XI
    XH))))))))))))), (Zpos (XO (XI (XI (XO (XO (XI (XI XH))))))))) :: (((Zpos
    (XO (XI (XI (XI (XO (XI (XI (XI (XI (XO (XI (XI XH))))))))))))), (Zpos
    (XO (XI (XI (XO (XO (XI (XI XH))))))))) :: (((Zpos (XI (XI (XI (XI (XO
    (XI (XI (XI (XI (XO (XI (XI XH))))))))))))), (Zpos (XO (XI (XI (XO (XO
    (XI (XI XH))))))))) :: (((Zpos (XO (XO (XO (XO (XI (XI (XI (XI (XI (XO
    (XI (XI XH))))))))))))), (Zpos (XO (XI (XI (XO (XO (XI (XI
    XH))))))))) :: (((Zpos (XI (XO (XO (XO (XI (XI (XI (XI (XI (XO (XI (XI
    XH))))))))))))), (Zpos (XO (XI (XI (XO (XO (XI (XI XH))))))))) :: (((Zpos
    (XO (XI (XO (XO (XI (XI (XI (XI (XI (XO (XI (XI XH))))))))))))), (Zpos
    (XO (XI (XI (XO (XO (XI (XI XH))))))))) :: (((Zpos (XI (XI (XO (XO (XI
    (XI (XI (XI (XI (XO (XI (XI XH))))))))))))), (Zpos (XO (XI (XI (XO (XO
    (XI (XI XH))))))))) :: (((Zpos (XO (XO (XI (XO (XI (XI (XI (XI (XI (XO
    (XI (XI XH))))))))))))), (Zpos (XO (XI (XI (XO (XO (XI (XI
    XH))))))))) :: (((Zpos (XI (XO (XI (XO (XI (XI (XI (XI (XI (XO (XI (XI
    XH))))))))))))), (Zpos (XO (XI (XI (XO (XO (XI (XI XH))))))))) :: (((Zpos
    (XO (XI (XI (XO (XI (XI (XI (XI (XI (XO (XI (XI XH))))))))))))), (Zpos
    (XO (XO (XO (XI (XO (XI (XI XH))))))))) :: (((Zpos (XI (XI (XI (XO (XI
    (XI (XI (XI (XI (XO (XI (XI XH))))))))))))), (Zpos (XO (XO (XI (XO (XO
    (XI (XI XH))))))))) :: (((Zpos (XO (XO (XO (XI (XI (XI (XI (XI (XI (XO
    (XI (XI XH))))))))))))), (Zpos (XO (XO (XI (XO (XO (XI (XI
    XH))))))))) :: (((Zpos (XI (XO (XO (XI (XI (XI (XI (XI (XI (XO (XI (XI
    XH))))))))))))), (Zpos (XO (XO (XI (XI (XI (XO (XI XH))))))))) :: (((Zpos
    (XO (XI (XO (XI (XI (XI (XI (XI (XI (XO (XI (XI XH))))))))))))), (Zpos
    (XO (XI (XO (XI (XI (XO (XI XH))))))))) :: (((Zpos (XI (XI (XO (XI (XI
    (XI (XI (XI (XI (XO (XI (XI XH))))))))))))), (Zpos (XO (XI (XI (XO (XO
    (XI (XI XH))))))))) :: (((Zpos (XO (XO (XI (XI (XI (XI (XI (XI (XI (XO
    (XI (XI XH))))))))))))), (Zpos (XI (XO (XO (XI (XO (XI (XI
    XH))))))))) :: (((Zpos (XI (XO (XI (XI (XI (XI (XI (XI (XI (XO (XI (XI
    XH))))))))))))), (Zpos (XO (XO (XI (XI (XI (XO (XI XH))))))))) :: (((Zpos
    (XO (XI (XI (XI (XI (XI (XI (XI (XI (XO (XI (XI XH))))))))))))), (Zpos
    (XO (XI (XI (XO (XO (XI (XI XH))))))))) :: (((Zpos (XI (XI (XI (XI (XI
    (XI (XI (XI (XI (XO (XI (XI XH))))))))))))), (Zpos (XO (XO (XI (XI (XI
    (XO (XI XH))))))))) :: (((Zpos (XO (XO (XO (XO (XI (XO (XI (XI (XO (XO
    (XO (XO (XO XH)))))))))))))), (Zpos (XO (XI (XI (XO (XO (XI (XI
    XH))))))))) :: (((Zpos (XI (XO (XO (XO (XI (XO (XI (XI (XO (XO (XO (XO
    (XO XH)))))))))))))), (Zpos (XO (XI (XI (XO (XO (XI (XI
    XH))))))))) :: (((Zpos (XO (XI (XO (XO (XI (XO (XI (XI (XO (XO (XO (XO
    (XO XH)))))))))))))), (Zpos XH)) :: (((Zpos (XI (XI (XO (XO (XI (XO (XI
    (XI (XO (XO (XO (XO (XO XH)))))))))))))), (Zpos XH)) :: (((Zpos (XO (XO
    (XI (XO (XI (XO (XI (XI (XO (XO (XO (XO (XO XH)))))))))))))), (Zpos (XO
    (XI (XI (XO (XO (XI (XI XH))))))))) :: (((Zpos (XI (XO (XI (XO (XI (XO
    (XI (XI (XO (XO (XO (XO (XO XH)))))))))))))), (Zpos (XO (XI (XI (XO (XO
    (XI (XI XH))))))))) :: (((Zpos (XO (XI (XI (XO (XI (XO (XI (XI (XO (XO
    (XO (XO (XO XH)))))))))))))), (Zpos (XO (XI (XI (XO (XO (XI (XI
    XH))))))))) :: (((Zpos (XI (XI (XI (XO (XI (XO (XI (XI (XO (XO (XO (XO
    (XO XH)))))))))))))), (Zpos (XO (XI (XI (XO (XO (XI (XI
    XH))))))))) :: (((Zpos (XO (XO (XO (XI (XI (XO (XI (XI (XO (XO (XO (XO
    (XO XH)))))))))))))), (Zpos XH)) :: (((Zpos (XI (XO (XO (XI (XI (XO (XI
    (XI (XO (XO (XO (XO (XO XH)))))))))))))), (Zpos XH)) :: (((Zpos (XO (XI
    (XO (XI (XI (XO (XI (XI (XO (XO (XO (XO (XO XH)))))))))))))), (Zpos
    XH)) :: (((Zpos (XI (XI (XO (XI (XI (XO (XI (XI (XO (XO (XO (XO (XO
    XH)))))))))))))), (Zpos (XO (XI (XI (XO (XO (XI (XI
    XH))))))))) :: (((Zpos (XO (XO (XI (XI (XI (XO (XI (XI (XO (XO (XO (XO
    (XO XH)))))))))))))), (Zpos (XO (XI (XI (XO (XO (XI (XI
    XH))))))))) :: (((Zpos (XI (XO (XO (XO (XO (XI (XI (XI (XO (XO (XO (XO
    (XO XH)))))))))))))), (Zpos (XO (XI (XI (XO (XO (XI (XI
    XH))))))))) :: (((Zpos (XI (XO (XI (XO (XO (XI (XI (XI (XO (XO (XO (XO
    (XO XH)))))))))))))), (Zpos XH)) :: (((Zpos (XO (XI (XI (XO (XO (XI (XI
    (XI (XO (XO (XO (XO (XO XH)))))))))))))), (Zpos XH)) :: (((Zpos (XI (XI
    (XI (XO (XO (XI (XI (XI (XO (XO (XO (XO (XO XH)))))))))))))), (Zpos (XO
    (XI (XI (XO (XO (XI (XI XH))))))))) :: (((Zpos (XO (XO (XO (XI (XO (XI
    (XI (XI (XO (XO (XO (XO (XO XH)))))))))))))), (Zpos (XO (XO (XI (XI (XI
    (XO (XI XH))))))))) :: (((Zpos (XI (XO (XO (XI (XO (XI (XI (XI (XO (XO
    (XO (XO (XO XH)))))))))))))), (Zpos (XO (XI (XI (XO (XO (XI (XI
    XH))))))))) :: (((Zpos (XO (XI (XO (XI (XO (XI (XI (XI (XO (XO (XO (XO
    (XO XH)))))))))))))), (Zpos XH)) :: (((Zpos (XI (XI (XO (XI (XO (XI (XI
    (XI (XO (XO (XO (XO (XO XH)))))))))))))), (Zpos XH)) :: (((Zpos (XO (XO
    (XI (XI (XO (XI (XI (XI (XO (XO (XO (XO (XO XH)))))))))))))), (Zpos (XO
    (XO (XI (XI (XI (XO (XI XH))))))))) :: (((Zpos (XI (XO (XI (XI (XO (XI
    (XI (XI (XO (XO (XO (XO (XO XH)))))))))))))), (Zpos (XO (XO (XI (XI (XI
    (XO (XI XH))))))))) :: (((Zpos (XO (XI (XI (XI (XO (XI (XI (XI (XO (XO
    (XO (XO (XO XH)))))))))))))), (Zpos (XO (XO (XI (XI (XI (XO (XI
    XH))))))))) :: (((Zpos (XI (XI (XI (XI (XO (XI (XI (XI (XO (XO (XO (XO
    (XO XH)))))))))))))), (Zpos (XO (XO (XI (XI (XI (XO (XI
    XH))))))))) :: (((Zpos (XO (XO (XO (XO (XI (XI (XI (XI (XO (XO (XO (XO
    (XO XH)))))))))))))), (Zpos (XO (XI (XI (XO (XO (XI (XI
    XH))))))))) :: (((Zpos (XI (XI (XI (XI (XO (XI (XI (XI (XO (XO (XI (XI
    (XO XH)))))))))))))), (Zpos (XO (XI (XI (XO (XO (XI (XI
    XH))))))))) :: (((Zpos (XO (XO (XO (XO (XI (XI (XI (XI (XO (XO (XI (XI
    (XO XH)))))))))))))), (Zpos (XO (XI (XI (XO (XO (XI (XI
    XH))))))))) :: (((Zpos (XI (XO (XO (XO (XI (XI (XI (XI (XO (XO (XI (XI
    (XO XH)))))))))))))), (Zpos (XO (XI (XI (XO (XO (XI (XI
    XH))))))))) :: (((Zpos (XI (XI (XI (XI (XI (XI (XI (XO (XI (XO (XI (XI
    (XO XH)))))))))))))), (Zpos (XI (XO (XO XH))))) :: (((Zpos (XO (XO (XO
    (XO (XO (XI (XI (XI (XI (XO (XI (XI (XO XH)))))))))))))), (Zpos (XO (XI
    (XI (XO (XO (XI (XI XH))))))))) :: (((Zpos (XI (XO (XO (XO (XO (XI (XI
    (XI (XI (XO (XI (XI (XO XH)))))))))))))), (Zpos (XO (XI (XI (XO (XO (XI
    (XI XH))))))))) :: (((Zpos (XO (XI (XO (XO (XO (XI (XI (XI (XI (XO (XI
    (XI (XO XH)))))))))))))), (Zpos (XO (XI (XI (XO (XO (XI (XI
    XH))))))))) :: (((Zpos (XI (XI (XO (XO (XO (XI (XI (XI (XI (XO (XI (XI
    (XO XH)))))))))))))), (Zpos (XO (XI (XI (XO (XO (XI (XI
    XH))))))))) :: (((Zpos (XO (XO (XI (XO (XO (XI (XI (XI (XI (XO (XI (XI
    (XO XH)))))))))))))), (Zpos (XO (XI (XI (XO (XO (XI (XI
    XH))))))))) :: (((Zpos (XI (XO (XI (XO (XO (XI (XI (XI (XI (XO (XI (XI
    (XO XH)))))))))))))), (Zpos (XO (XI (XI (XO (XO (XI (XI
    XH))))))))) :: (((Zpos (XO (XI (XI (XO (XO (XI (XI (XI (XI (XO (XI (XI
    (XO XH)))))))))))))), (Zpos (XO (XI (XI (XO (XO (XI (XI
    XH))))))))) :: (((Zpos (XI (XI (XI (XO (XO (XI (XI (XI (XI (XO (XI (XI
    (XO XH)))))))))))))), (Zpos (XO (XI (XI (XO (XO (XI (XI
    XH))))))))) :: (((Zpos (XO (XO (XO (XI (XO (XI (XI (XI (XI (XO (XI (XI
    (XO XH)))))))))))))), (Zpos (XO (XI (XI (XO (XO (XI (XI
    XH))))))))) :: (((Zpos (XI (XO (XO (XI (XO (XI (XI (XI (XI (XO (XI (XI
    (XO XH)))))))))))))), (Zpos (XO (XI (XI (XO (XO (XI (XI
    XH))))))))) :: (((Zpos (XO (XI (XO (XI (XO (XI (XI (XI (XI (XO (XI (XI
    (XO XH)))))))))))))), (Zpos (XO (XI (XI (XO (XO (XI (XI
    XH))))))))) :: (((Zpos (XI (XI (XO (XI (XO (XI (XI (XI (XI (XO (XI (XI
    (XO XH)))))))))))))), (Zpos (XO (XI (XI (XO (XO (XI (XI
    XH))))))))) :: (((Zpos (XO (XO (XI (XI (XO (XI (XI (XI (XI (XO (XI (XI
    (XO XH)))))))))))))), (Zpos (XO (XI (XI (XO (XO (XI (XI
    XH))))))))) :: (((Zpos (XI (XO (XI (XI (XO (XI (XI (XI (XI (XO (XI (XI
    (XO XH)))))))))))))), (Zpos (XO (XI (XI (XO (XO (XI (XI
    XH))))))))) :: (((Zpos (XO (XI (XI (XI (XO (XI (XI (XI (XI (XO (XI (XI
    (XO XH)))))))))))))), (Zpos (XO (XI (XI (XO (XO (XI (XI
    XH))))))))) :: (((Zpos (XI (XI (XI (XI (XO (XI (XI (XI (XI (XO (XI (XI
    (XO XH)))))))))))))), (Zpos (XO (XI (XI (XO (XO (XI (XI
    XH))))))))) :: (((Zpos (XO (XO (XO (XO (XI (XI (XI (XI (XI (XO (XI (XI
    (XO XH)))))))))))))), (Zpos (XO (XI (XI (XO (XO (XI (XI
    XH))))))))) :: (((Zpos (XI (XO (XO (XO (XI (XI (XI (XI (XI (XO (XI (XI
    (XO XH)))))))))))))), (Zpos (XO (XI (XI (XO (XO (XI (XI
    XH))))))))) :: (((Zpos (XO (XI (XO (XO (XI (XI (XI (XI (XI (XO (XI (XI
    (XO XH)))))))))))))), (Zpos (XO (XI (XI (XO (XO (XI (XI
    XH))))))))) :: (((Zpos (XI (XI (XO (XO (XI (XI (XI (XI (XI (XO (XI (XI
    (XO XH)))))))))))))), (Zpos (XO (XI (XI (XO (XO (XI (XI
    XH))))))))) :: (((Zpos (XO (XO (XI (XO (XI (XI (XI (XI (XI (XO (XI (XI
    (XO XH)))))))))))))), (Zpos (XO (XI (XI (XO (XO (XI (XI
    XH))))))))) :: (((Zpos (XI (XO (XI (XO (XI (XI (XI (XI (XI (XO (XI (XI
    (XO XH)))))))))))))), (Zpos (XO (XI (XI (XO (XO (XI (XI
    XH))))))))) :: (((Zpos (XO (XI (XI (XO (XI (XI (XI (XI (XI (XO (XI (XI
    (XO XH)))))))))))))), (Zpos (XO (XI (XI (XO (XO (XI (XI
    XH))))))))) :: (((Zpos (XI (XI (XI (XO (XI (XI (XI (XI (XI (XO (XI (XI
    (XO XH)))))))))))))), (Zpos (XO (XI (XI (XO (XO (XI (XI
    XH))))))))) :: (((Zpos (XO (XO (XO (XI (XI (XI (XI (XI (XI (XO (XI (XI
    (XO XH)))))))))))))), (Zpos (XO (XI (XI (XO (XO (XI (XI
    XH))))))))) :: (((Zpos (XI (XO (XO (XI (XI (XI (XI (XI (XI (XO (XI (XI
    (XO XH)))))))))))))), (Zpos (XO (XI (XI (XO (XO (XI (XI
    XH))))))))) :: (((Zpos (XO (XI (XO (XI (XI (XI (XI (XI (XI (XO (XI (XI
    (XO XH)))))))))))))), (Zpos (XO (XI (XI (XO (XO (XI (XI
    XH))))))))) :: (((Zpos (XI (XI (XO (XI (XI (XI (XI (XI (XI (XO (XI (XI
    (XO XH)))))))))))))), (Zpos (XO (XI (XI (XO (XO (XI (XI
    XH))))))))) :: (((Zpos (XO (XO (XI (XI (XI (XI (XI (XI (XI (XO (XI (XI
    (XO XH)))))))))))))), (Zpos (XO (XI (XI (XO (XO (XI (XI
    XH))))))))) :: (((Zpos (XI (XO (XI (XI (XI (XI (XI (XI (XI (XO (XI (XI
    (XO XH)))))))))))))), (Zpos (XO (XI (XI (XO (XO (XI (XI
    XH))))))))) :: (((Zpos (XO (XI (XI (XI (XI (XI (XI (XI (XI (XO (XI (XI
    (XO XH)))))))))))))), (Zpos (XO (XI (XI (XO (XO (XI (XI
    XH))))))))) :: (((Zpos (XI (XI (XI (XI (XI (XI (XI (XI (XI (XO (XI (XI
    (XO XH)))))))))))))), (Zpos (XO (XI (XI (XO (XO (XI (XI
    XH))))))))) :: (((Zpos (XO (XI (XO (XI (XO (XI (XO (XO (XO (XO (XO (XO
    (XI XH)))))))))))))), (Zpos (XO (XI (XO (XI (XI (XO (XI
    XH))))))))) :: (((Zpos (XI (XI (XO (XI (XO (XI (XO (XO (XO (XO (XO (XO
    (XI XH)))))))))))))), (Zpos (XO (XO (XI (XO (XO (XI (XI
    XH))))))))) :: (((Zpos (XO (XO (XI (XI (XO (XI (XO (XO (XO (XO (XO (XO
    (XI XH)))))))))))))), (Zpos (XO (XO (XO (XI (XO (XI (XI
    XH))))))))) :: (((Zpos (XI (XO (XI (XI (XO (XI (XO (XO (XO (XO (XO (XO
    (XI XH)))))))))))))), (Zpos (XO (XI (XI (XI (XI (XO (XI
    XH))))))))) :: (((Zpos (XO (XI (XI (XI (XO (XI (XO (XO (XO (XO (XO (XO
    (XI XH)))))))))))))), (Zpos (XO (XO (XO (XO (XO (XI (XI
    XH))))))))) :: (((Zpos (XI (XI (XI (XI (XO (XI (XO (XO (XO (XO (XO (XO
    (XI XH)))))))))))))), (Zpos (XO (XO (XO (XO (XO (XI (XI
    XH))))))))) :: (((Zpos (XI (XO (XO (XI (XI (XO (XO (XI (XO (XO (XO (XO
    (XI XH)))))))))))))), (Zpos (XO (XO (XO XH))))) :: (((Zpos (XO (XI (XO
    (XI (XI (XO (XO (XI (XO (XO (XO (XO (XI XH)))))))))))))), (Zpos (XO (XO
    (XO XH))))) :: (((Zpos (XI (XI (XI (XI (XO (XI (XI (XO (XO (XI (XI (XO
    (XO (XI (XO XH)))))))))))))))), (Zpos (XO (XI (XI (XO (XO (XI (XI
    XH))))))))) :: (((Zpos (XO (XO (XI (XO (XI (XI (XI (XO (XO (XI (XI (XO
    (XO (XI (XO XH)))))))))))))))), (Zpos (XO (XI (XI (XO (XO (XI (XI
    XH))))))))) :: (((Zpos (XI (XO (XI (XO (XI (XI (XI (XO (XO (XI (XI (XO
    (XO (XI (XO XH)))))))))))))))), (Zpos (XO (XI (XI (XO (XO (XI (XI
    XH))))))))) :: (((Zpos (XO (XI (XI (XO (XI (XI (XI (XO (XO (XI (XI (XO
    (XO (XI (XO XH)))))))))))))))), (Zpos (XO (XI (XI (XO (XO (XI (XI
    XH))))))))) :: (((Zpos (XI (XI (XI (XO (XI (XI (XI (XO (XO (XI (XI (XO
    (XO (XI (XO XH)))))))))))))))), (Zpos (XO (XI (XI (XO (XO (XI (XI
    XH))))))))) :: (((Zpos (XO (XO (XO (XI (XI (XI (XI (XO (XO (XI (XI (XO
    (XO (XI (XO XH)))))))))))))))), (Zpos (XO (XI (XI (XO (XO (XI (XI
    XH))))))))) :: (((Zpos (XI (XO (XO (XI (XI (XI (XI (XO (XO (XI (XI (XO
    (XO (XI (XO XH)))))))))))))))), (Zpos (XO (XI (XI (XO (XO (XI (XI
    XH))))))))) :: (((Zpos (XO (XI (XO (XI (XI (XI (XI (XO (XO (XI (XI (XO
    (XO (XI (XO XH)))))))))))))))), (Zpos (XO (XI (XI (XO (XO (XI (XI
    XH))))))))) :: (((Zpos (XI (XI (XO (XI (XI (XI (XI (XO (XO (XI (XI (XO
    (XO (XI (XO XH)))))))))))))))), (Zpos (XO (XI (XI (XO (XO (XI (XI
    XH))))))))) :: (((Zpos (XO (XO (XI (XI (XI (XI (XI (XO (XO (XI (XI (XO
    (XO (XI (XO XH)))))))))))))))), (Zpos (XO (XI (XI (XO (XO (XI (XI
    XH))))))))) :: (((Zpos (XI (XO (XI (XI (XI (XI (XI (XO (XO (XI (XI (XO
    (XO (XI (XO XH)))))))))))))))), (Zpos (XO (XI (XI (XO (XO (XI (XI
    XH))))))))) :: (((Zpos (XO (XI (XI (XI (XI (XO (XO (XI (XO (XI (XI (XO
    (XO (XI (XO XH)))))))))))))))), (Zpos (XO (XI (XI (XO (XO (XI (XI
    XH))))))))) :: (((Zpos (XI (XI (XI (XI (XI (XO (XO (XI (XO (XI (XI (XO
    (XO (XI (XO XH)))))))))))))))), (Zpos (XO (XI (XI (XO (XO (XI (XI
    XH))))))))) :: (((Zpos (XO (XO (XO (XO (XI (XI (XI (XI (XO (XI (XI (XO
    (XO (XI (XO XH)))))))))))))))), (Zpos (XO (XI (XI (XO (XO (XI (XI
    XH))))))))) :: (((Zpos (XI (XO (XO (XO (XI (XI (XI (XI (XO (XI (XI (XO
    (XO (XI (XO XH)))))))))))))))), (Zpos (XO (XI (XI (XO (XO (XI (XI
    XH))))))))) :: (((Zpos (XO (XI (XI (XO (XO (XO (XO (XO (XO (XO (XO (XI
    (XO (XI (XO XH)))))))))))))))), (Zpos (XI (XO (XO XH))))) :: (((Zpos (XO
    (XO (XI (XI (XO (XI (XO (XO (XO (XO (XO (XI (XO (XI (XO
    XH)))))))))))))))), (Zpos (XI (XO (XO XH))))) :: (((Zpos (XO (XO (XI (XO
    (XO (XO (XI (XI (XO (XO (XO (XI (XO (XI (XO XH)))))))))))))))), (Zpos (XI
    (XO (XO XH))))) :: (((Zpos (XO (XO (XO (XO (XO (XI (XI (XI (XO (XO (XO
    (XI (XO (XI (XO XH)))))))))))))))), (Zpos (XO (XI (XI (XO (XO (XI (XI
    XH))))))))) :: (((Zpos (XI (XO (XO (XO (XO (XI (XI (XI (XO (XO (XO (XI
    (XO (XI (XO XH)))))))))))))))), (Zpos (XO (XI (XI (XO (XO (XI (XI
    XH))))))))) :: (((Zpos (XO (XI (XO (XO (XO (XI (XI (XI (XO (XO (XO (XI
    (XO (XI (XO XH)))))))))))))))), (Zpos (XO (XI (XI (XO (XO (XI (XI
    XH))))))))) :: (((Zpos (XI (XI (XO (XO (XO (XI (XI (XI (XO (XO (XO (XI
    (XO (XI (XO XH)))))))))))))))), (Zpos (XO (XI (XI (XO (XO (XI (XI
    XH))))))))) :: (((Zpos (XO (XO (XI (XO (XO (XI (XI (XI (XO (XO (XO (XI
    (XO (XI (XO XH)))))))))))))))), (Zpos (XO (XI (XI (XO (XO (XI (XI
    XH))))))))) :: (((Zpos (XI (XO (XI (XO (XO (XI (XI (XI (XO (XO (XO (XI
    (XO (XI (XO XH)))))))))))))))), (Zpos (XO (XI (XI (XO (XO (XI (XI
    XH))))))))) :: (((Zpos (XO (XI (XI (XO (XO (XI (XI (XI (XO (XO (XO (XI
    (XO (XI (XO XH)))))))))))))))), (Zpos (XO (XI (XI (XO (XO (XI (XI
    XH))))))))) :: (((Zpos (XI (XI (XI (XO (XO (XI (XI (XI (XO (XO (XO (XI
    (XO (XI (XO XH)))))))))))))))), (Zpos (XO (XI (XI (XO (XO (XI (XI
    XH))))))))) :: (((Zpos (XO (XO (XO (XI (XO (XI (XI (XI (XO (XO (XO (XI
    (XO (XI (XO XH)))))))))))))))), (Zpos (XO (XI (XI (XO (XO (XI (XI
    XH))))))))) :: (((Zpos (XI (XO (XO (XI (XO (XI (XI (XI (XO (XO (XO (XI
    (XO (XI (XO XH)))))))))))))))), (Zpos (XO (XI (XI (XO (XO (XI (XI
    XH))))))))) :: (((Zpos (XO (XI (XO (XI (XO (XI (XI (XI (XO (XO (XO (XI
    (XO (XI (XO XH)))))))))))))))), (Zpos (XO (XI (XI (XO (XO (XI (XI
    XH))))))))) :: (((Zpos (XI (XI (XO (XI (XO (XI (XI (XI (XO (XO (XO (XI
    (XO (XI (XO XH)))))))))))))))), (Zpos (XO (XI (XI (XO (XO (XI (XI
    XH))))))))) :: (((Zpos (XO (XO (XI (XI (XO (XI (XI (XI (XO (XO (XO (XI
    (XO (XI (XO XH)))))))))))))))), (Zpos (XO (XI (XI (XO (XO (XI (XI
    XH))))))))) :: (((Zpos (XI (XO (XI (XI (XO (XI (XI (XI (XO (XO (XO (XI
    (XO (XI (XO XH)))))))))))))))), (Zpos (XO (XI (XI (XO (XO (XI (XI
    XH))))))))) :: (((Zpos (XO (XI (XI (XI (XO (XI (XI (XI (XO (XO (XO (XI
    (XO (XI (XO XH)))))))))))))))), (Zpos (XO (XI (XI (XO (XO (XI (XI
    XH))))))))) :: (((Zpos (XI (XI (XI (XI (XO (XI (XI (XI (XO (XO (XO (XI
    (XO (XI (XO XH)))))))))))))))), (Zpos (XO (XI (XI (XO (XO (XI (XI
    XH))))))))) :: (((Zpos (XO (XO (XO (XO (XI (XI (XI (XI (XO (XO (XO (XI
    (XO (XI (XO XH)))))))))))))))), (Zpos (XO (XI (XI (XO (XO (XI (XI
    XH))))))))) :: (((Zpos (XI (XO (XO (XO (XI (XI (XI (XI (XO (XO (XO (XI
    (XO (XI (XO XH)))))))))))))))), (Zpos (XO (XI (XI (XO (XO (XI (XI
    XH))))))))) :: (((Zpos (XI (XI (XO (XI (XO (XI (XO (XO (XI (XO (XO (XI
    (XO (XI (XO XH)))))))))))))))), (Zpos (XO (XO (XI (XI (XI (XO (XI
    XH))))))))) :: (((Zpos (XO (XO (XI (XI (XO (XI (XO (XO (XI (XO (XO (XI
    (XO (XI (XO XH)))))))))))))))), (Zpos (XO (XO (XI (XI (XI (XO (XI
    XH))))))))) :: (((Zpos (XI (XO (XI (XI (XO (XI (XO (XO (XI (XO (XO (XI
    (XO (XI (XO XH)))))))))))))))), (Zpos (XO (XO (XI (XI (XI (XO (XI
    XH))))))))) :: (((Zpos (XI (XI (XO (XO (XI (XO (XI (XO (XI (XO (XO (XI
    (XO (XI (XO XH)))))))))))))))), (Zpos (XI (XO (XO XH))))) :: (((Zpos (XI
    (XI (XO (XO (XI (XI (XO (XI (XI (XO (XO (XI (XO (XI (XO
    XH)))))))))))))))), (Zpos (XI (XI XH)))) :: (((Zpos (XO (XO (XO (XO (XO
    (XO (XI (XI (XI (XO (XO (XI (XO (XI (XO XH)))))))))))))))), (Zpos (XI (XO
    (XO XH))))) :: (((Zpos (XO (XO (XO (XO (XI (XI (XO (XI (XO (XI (XO (XI
    (XO (XI (XO XH)))))))))))))))), (Zpos (XO (XI (XI (XO (XO (XI (XI
    XH))))))))) :: (((Zpos (XO (XI (XO (XO (XI (XI (XO (XI (XO (XI (XO (XI
    (XO (XI (XO XH)))))))))))))))), (Zpos (XO (XI (XI (XO (XO (XI (XI
    XH))))))))) :: (((Zpos (XI (XI (XO (XO (XI (XI (XO (XI (XO (XI (XO (XI
    (XO (XI (XO XH)))))))))))))))), (Zpos (XO (XI (XI (XO (XO (XI (XI
    XH))))))))) :: (((Zpos (XO (XO (XI (XO (XI (XI (XO (XI (XO (XI (XO (XI
    (XO (XI (XO XH)))))))))))))))), (Zpos (XO (XO (XI (XI (XI (XO (XI
    XH))))))))) :: (((Zpos (XI (XI (XI (XO (XI (XI (XO (XI (XO (XI (XO (XI
    (XO (XI (XO XH)))))))))))))))), (Zpos (XO (XI (XI (XO (XO (XI (XI
    XH))))))))) :: (((Zpos (XO (XO (XO (XI (XI (XI (XO (XI (XO (XI (XO (XI
    (XO (XI (XO XH)))))))))))))))), (Zpos (XO (XI (XI (XO (XO (XI (XI
    XH))))))))) :: (((Zpos (XO (XI (XI (XI (XI (XI (XO (XI (XO (XI (XO (XI
    (XO (XI (XO XH)))))))))))))))), (Zpos (XO (XI (XI (XO (XO (XI (XI
    XH))))))))) :: (((Zpos (XI (XI (XI (XI (XI (XI (XO (XI (XO (XI (XO (XI
    (XO (XI (XO XH)))))))))))))))), (Zpos (XO (XI (XI (XO (XO (XI (XI
    XH))))))))) :: (((Zpos (XI (XO (XO (XO (XO (XO (XI (XI (XO (XI (XO (XI
    (XO (XI (XO XH)))))))))))))))), (Zpos (XO (XI (XI (XO (XO (XI (XI
    XH))))))))) :: (((Zpos (XO (XI (XI (XO (XI (XI (XI (XI (XO (XI (XO (XI
    (XO (XI (XO XH)))))))))))))))), (Zpos (XI (XO (XO XH))))) :: (((Zpos (XI
    (XO (XI (XI (XO (XI (XI (XI (XI (XI (XO (XI (XO (XI (XO
    XH)))))))))))))))), (Zpos (XI (XO (XO XH))))) :: (((Zpos (XO (XI (XI (XI
    (XI (XO (XO (XO (XI (XI (XO (XI (XI (XI (XI XH)))))))))))))))), (Zpos (XO
    (XI (XO (XI XH)))))) :: (((Zpos (XO (XO (XO (XO (XO (XI (XO (XO (XO (XI
    (XI (XI (XI (XI (XI XH)))))))))))))))), (Zpos (XO (XI (XI (XO (XO (XI (XI
    XH))))))))) :: (((Zpos (XI (XO (XO (XO (XO (XI (XO (XO (XO (XI (XI (XI
    (XI (XI (XI XH)))))))))))))))), (Zpos (XO (XI (XI (XO (XO (XI (XI
    XH))))))))) :: (((Zpos (XO (XI (XO (XO (XO (XI (XO (XO (XO (XI (XI (XI
    (XI (XI (XI XH)))))))))))))))), (Zpos (XO (XI (XI (XO (XO (XI (XI
    XH))))))))) :: (((Zpos (XI (XI (XO (XO (XO (XI (XO (XO (XO (XI (XI (XI
    (XI (XI (XI XH)))))))))))))))), (Zpos (XO (XI (XI (XO (XO (XI (XI
    XH))))))))) :: (((Zpos (XO (XO (XI (XO (XO (XI (XO (XO (XO (XI (XI (XI
    (XI (XI (XI XH)))))))))))))))), (Zpos (XO (XI (XI (XO (XO (XI (XI
    XH))))))))) :: (((Zpos (XI (XO (XI (XO (XO (XI (XO (XO (XO (XI (XI (XI
    (XI (XI (XI XH)))))))))))))))), (Zpos (XO (XI (XI (XO (XO (XI (XI
    XH))))))))) :: (((Zpos (XO (XI (XI (XO (XO (XI (XO (XO (XO (XI (XI (XI
    (XI (XI (XI XH)))))))))))))))), (Zpos (XO (XI (XI (XO (XO (XI (XI
    XH))))))))) :: (((Zpos (XI (XI (XI (XO (XO (XI (XO (XO (XO (XI (XI (XI
    (XI (XI (XI XH)))))))))))))))), (Zpos (XO (XO (XI (XI (XI (XO (XI
    XH))))))))) :: (((Zpos (XO (XO (XO (XI (XO (XI (XO (XO (XO (XI (XI (XI
    (XI (XI (XI XH)))))))))))))))), (Zpos (XO (XO (XI (XI (XI (XO (XI
    XH))))))))) :: (((Zpos (XI (XO (XO (XI (XO (XI (XO (XO (XO (XI (XI (XI
    (XI (XI (XI XH)))))))))))))))), (Zpos (XO (XO (XI (XI (XI (XO (XI
    XH))))))))) :: (((Zpos (XO (XI (XO (XI (XO (XI (XO (XO (XO (XI (XI (XI
    (XI (XI (XI XH)))))))))))))))), (Zpos (XO (XO (XI (XI (XI (XO (XI
    XH))))))))) :: (((Zpos (XI (XI (XO (XI (XO (XI (XO (XO (XO (XI (XI (XI
    (XI (XI (XI XH)))))))))))))))), (Zpos (XO (XO (XI (XI (XI (XO (XI
    XH))))))))) :: (((Zpos (XO (XO (XI (XI (XO (XI (XO (XO (XO (XI (XI (XI
    (XI (XI (XI XH)))))))))))))))), (Zpos (XO (XO (XI (XI (XI (XO (XI
    XH))))))))) :: (((Zpos (XI (XO (XI (XI (XO (XI (XO (XO (XO (XI (XI (XI
    (XI (XI (XI XH)))))))))))))))), (Zpos (XO (XO (XI (XI (XI (XO (XI
    XH))))))))) :: (((Zpos (XO (XI (XI (XI (XO (XI (XO (XO (XO (XI (XI (XI
    (XI (XI (XI XH)))))))))))))))), (Zpos (XO (XI (XI (XO (XO (XI (XI
    XH))))))))) :: (((Zpos (XI (XI (XI (XI (XO (XI (XO (XO (XO (XI (XI (XI
    (XI (XI (XI XH)))))))))))))))), (Zpos (XO (XI (XI (XO (XO (XI (XI
    XH))))))))) :: (((Zpos (XI (XO (XI (XI (XI (XI (XI (XI (XI (XO (XO (XO
    (XO (XO (XO (XO XH))))))))))))))))), (Zpos (XO (XO (XI (XI (XI (XO (XI
    XH))))))))) :: (((Zpos (XO (XO (XO (XO (XO (XI (XI (XI (XO (XI (XO (XO
    (XO (XO (XO (XO XH))))))))))))))))), (Zpos (XO (XO (XI (XI (XI (XO (XI
    XH))))))))) :: (((Zpos (XO (XI (XI (XO (XI (XI (XI (XO (XI (XI (XO (XO
    (XO (XO (XO (XO XH))))))))))))))))), (Zpos (XO (XI (XI (XO (XO (XI (XI
    XH))))))))) :: (((Zpos (XI (XI (XI (XO (XI (XI (XI (XO (XI (XI (XO (XO
    (XO (XO (XO (XO XH))))))))))))))))), (Zpos (XO (XI (XI (XO (XO (XI (XI
    XH))))))))) :: (((Zpos (XO (XO (XO (XI (XI (XI (XI (XO (XI (XI (XO (XO
    (XO (XO (XO (XO XH))))))))))))))))), (Zpos (XO (XI (XI (XO (XO (XI (XI
    XH))))))))) :: (((Zpos (XI (XO (XO (XI (XI (XI (XI (XO (XI (XI (XO (XO
    (XO (XO (XO (XO XH))))))))))))))))), (Zpos (XO (XI (XI (XO (XO (XI (XI
    XH))))))))) :: (((Zpos (XO (XI (XO (XI (XI (XI (XI (XO (XI (XI (XO (XO
    (XO (XO (XO (XO XH))))))))))))))))), (Zpos (XO (XI (XI (XO (XO (XI (XI
    XH))))))))) :: (((Zpos (XI (XO (XI (XI (XO (XO (XO (XO (XO (XI (XO (XI
    (XO (XO (XO (XO XH))))))))))))))))), (Zpos (XO (XO (XI (XI (XI (XO (XI
    XH))))))))) :: (((Zpos (XI (XI (XI (XI (XO (XO (XO (XO (XO (XI (XO (XI
    (XO (XO (XO (XO XH))))))))))))))))), (Zpos (XO (XI (XI (XO (XO (XI (XI
    XH))))))))) :: (((Zpos (XO (XO (XO (XI (XI (XI (XO (XO (XO (XI (XO (XI
    (XO (XO (XO (XO XH))))))))))))))))), (Zpos (XO (XI (XI (XO (XO (XI (XI
    XH))))))))) :: (((Zpos (XI (XO (XO (XI (XI (XI (XO (XO (XO (XI (XO (XI
    (XO (XO (XO (XO XH))))))))))))))))), (Zpos XH)) :: (((Zpos (XO (XI (XO
    (XI (XI (XI (XO (XO (XO (XI (XO (XI (XO (XO (XO (XO XH))))))))))))))))),
    (Zpos (XO (XO (XI (XI (XI (XO (XI XH))))))))) :: (((Zpos (XI (XI (XI (XI
    (XI (XI (XO (XO (XO (XI (XO (XI (XO (XO (XO (XO XH))))))))))))))))),
    (Zpos (XI (XO (XO XH))))) :: (((Zpos (XI (XO (XI (XO (XO (XI (XI (XI (XO
    (XI (XO (XI (XO (XO (XO (XO XH))))))))))))))))), (Zpos (XO (XI (XI (XO
    (XO (XI (XI XH))))))))) :: (((Zpos (XO (XI (XI (XO (XO (XI (XI (XI (XO
    (XI (XO (XI (XO (XO (XO (XO XH))))))))))))))))), (Zpos (XO (XO (XI (XI
    (XI (XO (XI XH))))))))) :: (((Zpos (XO (XO (XI (XO (XO (XI (XO (XO (XI
    (XO (XI (XI (XO (XO (XO (XO XH))))))))))))))))), (Zpos (XO (XI (XI (XO
    (XO (XI (XI XH))))))))) :: (((Zpos (XI (XO (XI (XO (XO (XI (XO (XO (XI
    (XO (XI (XI (XO (XO (XO (XO XH))))))))))))))))), (Zpos (XO (XI (XI (XO
    (XO (XI (XI XH))))))))) :: (((Zpos (XO (XI (XI (XO (XO (XI (XO (XO (XI
    (XO (XI (XI (XO (XO (XO (XO XH))))))))))))))))), (Zpos (XO (XI (XI (XO
    (XO (XI (XI XH))))))))) :: (((Zpos (XI (XI (XI (XO (XO (XI (XO (XO (XI
    (XO (XI (XI (XO (XO (XO (XO XH))))))))))))))))), (Zpos (XO (XI (XI (XO
    (XO (XI (XI XH))))))))) :: (((Zpos (XI (XI (XO (XI (XO (XI (XO (XI (XO
    (XI (XI (XI (XO (XO (XO (XO XH))))))))))))))))), (Zpos (XO (XI (XI (XO
    (XO (XI (XI XH))))))))) :: (((Zpos (XO (XO (XI (XI (XO (XI (XO (XI (XO
    (XI (XI (XI (XO (XO (XO (XO XH))))))))))))))))), (Zpos (XO (XI (XI (XO
    (XO (XI (XI XH))))))))) :: (((Zpos (XI (XO (XI (XI (XI (XI (XI (XI (XO
    (XI (XI (XI (XO (XO (XO (XO XH))))))))))))))))), (Zpos (XO (XO (XI (XI
    (XI (XO (XI XH))))))))) :: (((Zpos (XO (XI (XI (XI (XI (XI (XI (XI (XO
    (XI (XI (XI (XO (XO (XO (XO XH))))))))))))))))), (Zpos (XO (XO (XI (XI
    (XI (XO (XI XH))))))))) :: (((Zpos (XI (XI (XI (XI (XI (XI (XI (XI (XO
    (XI (XI (XI (XO (XO (XO (XO XH))))))))))))))))), (Zpos (XO (XO (XI (XI
    (XI (XO (XI XH))))))))) :: (((Zpos (XO (XI (XI (XO (XO (XO (XI (XO (XI
    (XI (XI (XI (XO (XO (XO (XO XH))))))))))))))))), (Zpos (XO (XO (XI (XI
    (XI (XO (XI XH))))))))) :: (((Zpos (XI (XI (XI (XO (XO (XO (XI (XO (XI
    (XI (XI (XI (XO (XO (XO (XO XH))))))))))))))))), (Zpos (XO (XO (XI (XI
    (XI (XO (XI XH))))))))) :: (((Zpos (XO (XO (XO (XI (XO (XO (XI (XO (XI
    (XI (XI (XI (XO (XO (XO (XO XH))))))))))))))))), (Zpos (XO (XI (XI (XO
    (XO (XI (XI XH))))))))) :: (((Zpos (XI (XO (XO (XI (XO (XO (XI (XO (XI
    (XI (XI (XI (XO (XO (XO (XO XH))))))))))))))))), (Zpos (XO (XI (XI (XO
    (XO (XI (XI XH))))))))) :: (((Zpos (XO (XI (XO (XI (XO (XO (XI (XO (XI
    (XI (XI (XI (XO (XO (XO (XO XH))))))))))))))))), (Zpos (XO (XI (XI (XO
    (XO (XI (XI XH))))))))) :: (((Zpos (XI (XI (XO (XI (XO (XO (XI (XO (XI
    (XI (XI (XI (XO (XO (XO (XO XH))))))))))))))))), (Zpos (XO (XO (XI (XI
    (XI (XO (XI XH))))))))) :: (((Zpos (XO (XO (XI (XI (XO (XO (XI (XO (XI
    (XI (XI (XI (XO (XO (XO (XO XH))))))))))))))))), (Zpos (XO (XI (XI (XO
    (XO (XI (XI XH))))))))) :: (((Zpos (XI (XO (XI (XI (XO (XO (XI (XO (XI
    (XI (XI (XI (XO (XO (XO (XO XH))))))))))))))))), (Zpos (XO (XO (XI (XI
    (XI (XO (XI XH))))))))) :: (((Zpos (XO (XI (XI (XI (XO (XO (XI (XO (XI
    (XI (XI (XI (XO (XO (XO (XO XH))))))))))))))))), (Zpos (XO (XO (XI (XI
    (XI (XO (XI XH))))))))) :: (((Zpos (XI (XI (XI (XI (XO (XO (XI (XO (XI
    (XI (XI (XI (XO (XO (XO (XO XH))))))))))))))))), (Zpos (XO (XO (XI (XI
    (XI (XO (XI XH))))))))) :: (((Zpos (XO (XO (XO (XO (XI (XO (XI (XO (XI
    (XI (XI (XI (XO (XO (XO (XO XH))))))))))))))))), (Zpos (XO (XO (XI (XI
    (XI (XO (XI XH))))))))) :: (((Zpos (XO (XI (XO (XO (XO (XO (XO (XI (XI
    (XI (XI (XI (XO (XO (XO (XO XH))))))))))))))))), (Zpos (XO (XI (XI (XO
    (XO (XI (XI XH))))))))) :: (((Zpos (XI (XI (XO (XO (XO (XO (XO (XI (XI
    (XI (XI (XI (XO (XO (XO (XO XH))))))))))))))))), (Zpos (XO (XO (XI (XI
    (XI (XO (XI XH))))))))) :: (((Zpos (XO (XO (XI (XO (XO (XO (XO (XI (XI
    (XI (XI (XI (XO (XO (XO (XO XH))))))))))))))))), (Zpos (XO (XI (XI (XO
    (XO (XI (XI XH))))))))) :: (((Zpos (XI (XO (XI (XO (XO (XO (XO (XI (XI
    (XI (XI (XI (XO (XO (XO (XO XH))))))))))))))))), (Zpos (XO (XO (XI (XI
    (XI (XO (XI XH))))))))) :: (((Zpos (XO (XI (XI (XO (XO (XO (XI (XO (XO
    (XO (XO (XO (XI (XO (XO (XO XH))))))))))))))))), (Zpos (XI (XO (XO
    XH))))) :: (((Zpos (XO (XO (XO (XO (XI (XI (XI (XO (XO (XO (XO (XO (XI
    (XO (XO (XO XH))))))))))))))))), (Zpos (XI (XO (XO XH))))) :: (((Zpos (XI
    (XI (XI (XI (XI (XI (XI (XO (XO (XO (XO (XO (XI (XO (XO (XO
    XH))))))))))))))))), (Zpos (XI (XO (XO XH))))) :: (((Zpos (XI (XO (XO (XI
    (XI (XI (XO (XI (XO (XO (XO (XO (XI (XO (XO (XO XH))))))))))))))))),
    (Zpos (XI (XO (XO XH))))) :: (((Zpos (XO (XI (XO (XI (XI (XI (XO (XI (XO
    (XO (XO (XO (XI (XO (XO (XO XH))))))))))))))))), (Zpos (XI (XI
    XH)))) :: (((Zpos (XO (XO (XO (XO (XO (XO (XO (XO (XI (XO (XO (XO (XI (XO
    (XO (XO XH))))))))))))))))), (Zpos (XO (XI (XI (XO (XO (XI (XI
    XH))))))))) :: (((Zpos (XI (XO (XO (XO (XO (XO (XO (XO (XI (XO (XO (XO
    (XI (XO (XO (XO XH))))))))))))))))), (Zpos (XO (XI (XI (XO (XO (XI (XI
    XH))))))))) :: (((Zpos (XO (XI (XO (XO (XO (XO (XO (XO (XI (XO (XO (XO
    (XI (XO (XO (XO XH))))))))))))))))), (Zpos (XO (XI (XI (XO (XO (XI (XI
    XH))))))))) :: (((Zpos (XI (XI (XO (XO (XI (XI (XO (XO (XI (XO (XO (XO
    (XI (XO (XO (XO XH))))))))))))))))), (Zpos (XI (XO (XO XH))))) :: (((Zpos
    (XO (XO (XI (XO (XI (XI (XO (XO (XI (XO (XO (XO (XI (XO (XO (XO
    XH))))))))))))))))), (Zpos (XI (XO (XO XH))))) :: (((Zpos (XI (XI (XO (XO
    (XI (XI (XI (XO (XI (XO (XO (XO (XI (XO (XO (XO XH))))))))))))))))),
    (Zpos (XI (XI XH)))) :: (((Zpos (XO (XO (XO (XO (XO (XO (XI (XI (XI (XO
    (XO (XO (XI (XO (XO (XO XH))))))))))))))))), (Zpos (XI (XO (XO
    XH))))) :: (((Zpos (XO (XI (XO (XI (XO (XO (XI (XI (XI (XO (XO (XO (XI
    (XO (XO (XO XH))))))))))))))))), (Zpos (XI (XI XH)))) :: (((Zpos (XI (XO
    (XI (XO (XI (XI (XO (XO (XO (XI (XO (XO (XI (XO (XO (XO
    XH))))))))))))))))), (Zpos (XI (XO (XO XH))))) :: (((Zpos (XO (XI (XI (XO
    (XI (XI (XO (XO (XO (XI (XO (XO (XI (XO (XO (XO XH))))))))))))))))),
    (Zpos (XI (XI XH)))) :: (((Zpos (XI (XO (XO (XI (XO (XI (XI (XI (XO (XI
    (XO (XO (XI (XO (XO (XO XH))))))))))))))))), (Zpos (XI (XI
    XH)))) :: (((Zpos (XO (XI (XO (XI (XO (XI (XI (XI (XO (XI (XO (XO (XI (XO
    (XO (XO XH))))))))))))))))), (Zpos (XI (XO (XO XH))))) :: (((Zpos (XI (XI
    (XO (XI (XI (XI (XO (XO (XI (XI (XO (XO (XI (XO (XO (XO
    XH))))))))))))))))), (Zpos (XI (XI XH)))) :: (((Zpos (XO (XO (XI (XI (XI
    (XI (XO (XO (XI (XI (XO (XO (XI (XO (XO (XO XH))))))))))))))))), (Zpos
    (XI (XI XH)))) :: (((Zpos (XI (XO (XI (XI (XO (XO (XI (XO (XI (XI (XO (XO
    (XI (XO (XO (XO XH))))))))))))))))), (Zpos (XI (XO (XO XH))))) :: (((Zpos
    (XO (XI (XI (XO (XO (XI (XI (XO (XI (XI (XO (XO (XI (XO (XO (XO
    XH))))))))))))))))), (Zpos (XO (XI (XI (XO (XO (XI (XI
    XH))))))))) :: (((Zpos (XI (XI (XI (XO (XO (XI (XI (XO (XI (XI (XO (XO
    (XI (XO (XO (XO XH))))))))))))))))), (Zpos (XO (XI (XI (XO (XO (XI (XI
    XH))))))))) :: (((Zpos (XO (XO (XO (XI (XO (XI (XI (XO (XI (XI (XO (XO
    (XI (XO (XO (XO XH))))))))))))))))), (Zpos (XO (XI (XI (XO (XO (XI (XI
    XH))))))))) :: (((Zpos (XI (XO (XO (XI (XO (XI (XI (XO (XI (XI (XO (XO
    (XI (XO (XO (XO XH))))))))))))))))), (Zpos (XO (XI (XI (XO (XO (XI (XI
    XH))))))))) :: (((Zpos (XO (XI (XO (XI (XO (XI (XI (XO (XI (XI (XO (XO
    (XI (XO (XO (XO XH))))))))))))))))), (Zpos (XO (XI (XI (XO (XO (XI (XI
    XH))))))))) :: (((Zpos (XI (XI (XO (XI (XO (XI (XI (XO (XI (XI (XO (XO
    (XI (XO (XO (XO XH))))))))))))))))), (Zpos (XO (XI (XI (XO (XO (XI (XI
    XH))))))))) :: (((Zpos (XO (XO (XI (XI (XO (XI (XI (XO (XI (XI (XO (XO
    (XI (XO (XO (XO XH))))))))))))))))), (Zpos (XO (XI (XI (XO (XO (XI (XI
    XH))))))))) :: (((Zpos (XO (XO (XO (XO (XI (XI (XI (XO (XI (XI (XO (XO
    (XI (XO (XO (XO XH))))))))))))))))), (Zpos (XO (XI (XI (XO (XO (XI (XI
    XH))))))))) :: (((Zpos (XI (XO (XO (XO (XI (XI (XI (XO (XI (XI (XO (XO
    (XI (XO (XO (XO XH))))))))))))))))), (Zpos (XO (XI (XI (XO (XO (XI (XI
    XH))))))))) :: (((Zpos (XO (XI (XO (XO (XI (XI (XI (XO (XI (XI (XO (XO
    (XI (XO (XO (XO XH))))))))))))))))), (Zpos (XO (XI (XI (XO (XO (XI (XI
    XH))))))))) :: (((Zpos (XI (XI (XO (XO (XI (XI (XI (XO (XI (XI (XO (XO
    (XI (XO (XO (XO XH))))))))))))))))), (Zpos (XO (XI (XI (XO (XO (XI (XI
    XH))))))))) :: (((Zpos (XO (XO (XI (XO (XI (XI (XI (XO (XI (XI (XO (XO
    (XI (XO (XO (XO XH))))))))))))))))), (Zpos (XO (XI (XI (XO (XO (XI (XI
    XH))))))))) :: (((Zpos (XO (XI (XO (XO (XO (XO (XI (XO (XO (XO (XI (XO
    (XI (XO (XO (XO XH))))))))))))))))), (Zpos (XI (XO (XO XH))))) :: (((Zpos
    (XO (XI (XI (XO (XO (XO (XI (XO (XO (XO (XI (XO (XI (XO (XO (XO
    XH))))))))))))))))), (Zpos (XI (XI XH)))) :: (((Zpos (XO (XI (XI (XI (XI
    (XO (XI (XO (XO (XO (XI (XO (XI (XO (XO (XO XH))))))))))))))))), (Zpos
    (XO (XI (XI (XO (XO (XI (XI XH))))))))) :: (((Zpos (XO (XI (XO (XO (XO
    (XO (XI (XI (XO (XO (XI (XO (XI (XO (XO (XO XH))))))))))))))))), (Zpos
    (XI (XO (XO XH))))) :: (((Zpos (XI (XI (XO (XO (XO (XO (XI (XI (XO (XO
    (XI (XO (XI (XO (XO (XO XH))))))))))))))))), (Zpos (XI (XI
    XH)))) :: (((Zpos (XI (XI (XI (XI (XI (XI (XO (XI (XI (XO (XI (XO (XI (XO
    (XO (XO XH))))))))))))))))), (Zpos (XI (XO (XO XH))))) :: (((Zpos (XO (XO
    (XO (XO (XO (XO (XI (XI (XI (XO (XI (XO (XI (XO (XO (XO
    XH))))))))))))))))), (Zpos (XI (XI XH)))) :: (((Zpos (XI (XI (XI (XI (XI
    (XI (XO (XO (XO (XI (XI (XO (XI (XO (XO (XO XH))))))))))))))))), (Zpos
    (XI (XO (XO XH))))) :: (((Zpos (XO (XI (XI (XO (XI (XI (XO (XI (XO (XI
    (XI (XO (XI (XO (XO (XO XH))))))))))))))))), (Zpos (XI (XO (XO
    XH))))) :: (((Zpos (XI (XI (XI (XO (XI (XI (XO (XI (XO (XI (XI (XO (XI
    (XO (XO (XO XH))))))))))))))))), (Zpos (XI (XI XH)))) :: (((Zpos (XI (XI
    (XO (XI (XO (XI (XO (XO (XI (XI (XI (XO (XI (XO (XO (XO
    XH))))))))))))))))), (Zpos (XI (XO (XO XH))))) :: (((Zpos (XI (XO (XO (XI
    (XI (XI (XO (XO (XO (XO (XO (XI (XI (XO (XO (XO XH))))))))))))))))),
    (Zpos (XI (XO (XO XH))))) :: (((Zpos (XO (XI (XO (XI (XI (XI (XO (XO (XO
    (XO (XO (XI (XI (XO (XO (XO XH))))))))))))))))), (Zpos (XI (XI
    XH)))) :: (((Zpos (XI (XO (XI (XI (XI (XI (XO (XO (XI (XO (XO (XI (XI (XO
    (XO (XO XH))))))))))))))))), (Zpos (XI (XO (XO XH))))) :: (((Zpos (XO (XI
    (XI (XI (XI (XI (XO (XO (XI (XO (XO (XI (XI (XO (XO (XO
    XH))))))))))))))))), (Zpos (XI (XO (XO XH))))) :: (((Zpos (XI (XI (XO (XO
    (XO (XO (XI (XO (XI (XO (XO (XI (XI (XO (XO (XO XH))))))))))))))))),
    (Zpos (XI (XI XH)))) :: (((Zpos (XO (XO (XO (XO (XO (XI (XI (XI (XI (XO
    (XO (XI (XI (XO (XO (XO XH))))))))))))))))), (Zpos (XI (XO (XO
    XH))))) :: (((Zpos (XO (XO (XI (XO (XI (XI (XO (XO (XO (XI (XO (XI (XI
    (XO (XO (XO XH))))))))))))))))), (Zpos (XI (XO (XO XH))))) :: (((Zpos (XI
    (XI (XI (XO (XO (XO (XI (XO (XO (XI (XO (XI (XI (XO (XO (XO
    XH))))))))))))))))), (Zpos (XI (XO (XO XH))))) :: (((Zpos (XI (XO (XO (XI
    (XI (XO (XO (XI (XO (XI (XO (XI (XI (XO (XO (XO XH))))))))))))))))),
    (Zpos (XI (XO (XO XH))))) :: (((Zpos (XI (XI (XI (XI (XI (XI (XO (XO (XO
    (XO (XI (XI (XI (XO (XO (XO XH))))))))))))))))), (Zpos (XI (XO (XO
    XH))))) :: (((Zpos (XO (XI (XO (XO (XO (XO (XI (XO (XI (XO (XI (XI (XI
    (XO (XO (XO XH))))))))))))))))), (Zpos (XI (XI XH)))) :: (((Zpos (XO (XO
    (XI (XO (XO (XO (XI (XO (XI (XO (XI (XI (XI (XO (XO (XO
    XH))))))))))))))))), (Zpos (XI (XO (XO XH))))) :: (((Zpos (XI (XO (XI (XO
    (XO (XO (XI (XO (XI (XO (XI (XI (XI (XO (XO (XO XH))))))))))))))))),
    (Zpos (XI (XO (XO XH))))) :: (((Zpos (XI (XI (XI (XO (XI (XO (XO (XI (XI
    (XO (XI (XI (XI (XO (XO (XO XH))))))))))))))))), (Zpos (XI (XO (XO
    XH))))) :: (((Zpos (XI (XO (XO (XO (XO (XO (XI (XO (XI (XI (XI (XI (XI
    (XO (XO (XO XH))))))))))))))))), (Zpos (XI (XO (XO XH))))) :: (((Zpos (XO
    (XI (XO (XO (XO (XO (XI (XO (XI (XI (XI (XI (XI (XO (XO (XO
    XH))))))))))))))))), (Zpos (XI (XO (XO XH))))) :: (((Zpos (XO (XO (XO (XO
    (XI (XI (XI (XI (XO (XI (XO (XI (XO (XI (XI (XO XH))))))))))))))))),
    (Zpos XH)) :: (((Zpos (XI (XO (XO (XO (XI (XI (XI (XI (XO (XI (XO (XI (XO
    (XI (XI (XO XH))))))))))))))))), (Zpos XH)) :: (((Zpos (XO (XI (XO (XO
    (XI (XI (XI (XI (XO (XI (XO (XI (XO (XI (XI (XO XH))))))))))))))))),
    (Zpos XH)) :: (((Zpos (XI (XI (XO (XO (XI (XI (XI (XI (XO (XI (XO (XI (XO
    (XI (XI (XO XH))))))))))))))))), (Zpos XH)) :: (((Zpos (XO (XO (XI (XO
    (XI (XI (XI (XI (XO (XI (XO (XI (XO (XI (XI (XO XH))))))))))))))))),
    (Zpos XH)) :: (((Zpos (XO (XO (XO (XO (XI (XI (XO (XO (XI (XI (XO (XI (XO
    (XI (XI (XO XH))))))))))))))))), (Zpos (XO (XI (XI (XO (XO (XI (XI
    XH))))))))) :: (((Zpos (XI (XO (XO (XO (XI (XI (XO (XO (XI (XI (XO (XI
    (XO (XI (XI (XO XH))))))))))))))))), (Zpos (XO (XI (XI (XO (XO (XI (XI
    XH))))))))) :: (((Zpos (XO (XI (XO (XO (XI (XI (XO (XO (XI (XI (XO (XI
    (XO (XI (XI (XO XH))))))))))))))))), (Zpos (XO (XI (XI (XO (XO (XI (XI
    XH))))))))) :: (((Zpos (XI (XI (XO (XO (XI (XI (XO (XO (XI (XI (XO (XI
    (XO (XI (XI (XO XH))))))))))))))))), (Zpos (XO (XI (XI (XO (XO (XI (XI
    XH))))))))) :: (((Zpos (XO (XO (XI (XO (XI (XI (XO (XO (XI (XI (XO (XI
    (XO (XI (XI (XO XH))))))))))))))))), (Zpos (XO (XI (XI (XO (XO (XI (XI
    XH))))))))) :: (((Zpos (XI (XO (XI (XO (XI (XI (XO (XO (XI (XI (XO (XI
    (XO (XI (XI (XO XH))))))))))))))))), (Zpos (XO (XI (XI (XO (XO (XI (XI
    XH))))))))) :: (((Zpos (XO (XI (XI (XO (XI (XI (XO (XO (XI (XI (XO (XI
    (XO (XI (XI (XO XH))))))))))))))))), (Zpos (XO (XI (XI (XO (XO (XI (XI
    XH))))))))) :: (((Zpos (XO (XO (XO (XO (XI (XI (XI (XI (XI (XI (XI (XI
    (XO (XI (XI (XO XH))))))))))))))))), (Zpos (XO (XI XH)))) :: (((Zpos (XI
    (XO (XO (XO (XI (XI (XI (XI (XI (XI (XI (XI (XO (XI (XI (XO
    XH))))))))))))))))), (Zpos (XO (XI XH)))) :: (((Zpos (XO (XI (XI (XI (XI
    (XO (XO (XI (XO (XO (XI (XI (XI (XI (XO (XI XH))))))))))))))))), (Zpos
    XH)) :: (((Zpos (XI (XO (XI (XO (XO (XI (XI (XO (XI (XO (XO (XO (XI (XO
    (XI (XI XH))))))))))))))))), (Zpos (XO (XO (XO (XI (XI (XO (XI
    XH))))))))) :: (((Zpos (XO (XI (XI (XO (XO (XI (XI (XO (XI (XO (XO (XO
    (XI (XO (XI (XI XH))))))))))))))))), (Zpos (XO (XO (XO (XI (XI (XO (XI
    XH))))))))) :: (((Zpos (XI (XI (XI (XO (XO (XI (XI (XO (XI (XO (XO (XO
    (XI (XO (XI (XI XH))))))))))))))))), (Zpos XH)) :: (((Zpos (XO (XO (XO
    (XI (XO (XI (XI (XO (XI (XO (XO (XO (XI (XO (XI (XI XH))))))))))))))))),
    (Zpos XH)) :: (((Zpos (XI (XO (XO (XI (XO (XI (XI (XO (XI (XO (XO (XO (XI
    (XO (XI (XI XH))))))))))))))))), (Zpos XH)) :: (((Zpos (XI (XO (XI (XI
    (XO (XI (XI (XO (XI (XO (XO (XO (XI (XO (XI (XI XH))))))))))))))))),
    (Zpos (XO (XI (XO (XO (XO (XI (XI XH))))))))) :: (((Zpos (XO (XI (XI (XI
    (XO (XI (XI (XO (XI (XO (XO (XO (XI (XO (XI (XI XH))))))))))))))))),
    (Zpos (XO (XO (XO (XI (XI (XO (XI XH))))))))) :: (((Zpos (XI (XI (XI (XI
    (XO (XI (XI (XO (XI (XO (XO (XO (XI (XO (XI (XI XH))))))))))))))))),
    (Zpos (XO (XO (XO (XI (XI (XO (XI XH))))))))) :: (((Zpos (XO (XO (XO (XO
    (XI (XI (XI (XO (XI (XO (XO (XO (XI (XO (XI (XI XH))))))))))))))))),
    (Zpos (XO (XO (XO (XI (XI (XO (XI XH))))))))) :: (((Zpos (XI (XO (XO (XO
    (XI (XI (XI (XO (XI (XO (XO (XO (XI (XO (XI (XI XH))))))))))))))))),
    (Zpos (XO (XO (XO (XI (XI (XO (XI XH))))))))) :: (((Zpos (XO (XI (XO (XO
    (XI (XI (XI (XO (XI (XO (XO (XO (XI (XO (XI (XI XH))))))))))))))))),
    (Zpos (XO (XO (XO (XI (XI (XO (XI XH))))))))) :: (((Zpos (XI (XI (XO (XI
    (XI (XI (XI (XO (XI (XO (XO (XO (XI (XO (XI (XI XH))))))))))))))))),
    (Zpos (XO (XO (XI (XI (XI (XO (XI XH))))))))) :: (((Zpos (XO (XO (XI (XI
    (XI (XI (XI (XO (XI (XO (XO (XO (XI (XO (XI (XI XH))))))))))))))))),
    (Zpos (XO (XO (XI (XI (XI (XO (XI XH))))))))) :: (((Zpos (XI (XO (XI (XI
    (XI (XI (XI (XO (XI (XO (XO (XO (XI (XO (XI (XI XH))))))))))))))))),
    (Zpos (XO (XO (XI (XI (XI (XO (XI XH))))))))) :: (((Zpos (XO (XI (XI (XI
    (XI (XI (XI (XO (XI (XO (XO (XO (XI (XO (XI (XI XH))))))))))))))))),
    (Zpos (XO (XO (XI (XI (XI (XO (XI XH))))))))) :: (((Zpos (XI (XI (XI (XI
    (XI (XI (XI (XO (XI (XO (XO (XO (XI (XO (XI (XI XH))))))))))))))))),
    (Zpos (XO (XO (XI (XI (XI (XO (XI XH))))))))) :: (((Zpos (XO (XO (XO (XO
    (XO (XO (XO (XI (XI (XO (XO (XO (XI (XO (XI (XI XH))))))))))))))))),
    (Zpos (XO (XO (XI (XI (XI (XO (XI XH))))))))) :: (((Zpos (XI (XO (XO (XO
    (XO (XO (XO (XI (XI (XO (XO (XO (XI (XO (XI (XI XH))))))))))))))))),
    (Zpos (XO (XO (XI (XI (XI (XO (XI XH))))))))) :: (((Zpos (XO (XI (XO (XO
    (XO (XO (XO (XI (XI (XO (XO (XO (XI (XO (XI (XI XH))))))))))))))))),
    (Zpos (XO (XO (XI (XI (XI (XO (XI XH))))))))) :: (((Zpos (XI (XO (XI (XO
    (XO (XO (XO (XI (XI (XO (XO (XO (XI (XO (XI (XI XH))))))))))))))))),
    (Zpos (XO (XI (XI (XO (XO (XI (XI XH))))))))) :: (((Zpos (XO (XI (XI (XO
    (XO (XO (XO (XI (XI (XO (XO (XO (XI (XO (XI (XI XH))))))))))))))))),
    (Zpos (XO (XI (XI (XO (XO (XI (XI XH))))))))) :: (((Zpos (XI (XI (XI (XO
    (XO (XO (XO (XI (XI (XO (XO (XO (XI (XO (XI (XI XH))))))))))))))))),
    (Zpos (XO (XI (XI (XO (XO (XI (XI XH))))))))) :: (((Zpos (XO (XO (XO (XI
    (XO (XO (XO (XI (XI (XO (XO (XO (XI (XO (XI (XI XH))))))))))))))))),
    (Zpos (XO (XI (XI (XO (XO (XI (XI XH))))))))) :: (((Zpos (XI (XO (XO (XI
    (XO (XO (XO (XI (XI (XO (XO (XO (XI (XO (XI (XI XH))))))))))))))))),
    (Zpos (XO (XI (XI (XO (XO (XI (XI XH))))))))) :: (((Zpos (XO (XI (XO (XI
    (XO (XO (XO (XI (XI (XO (XO (XO (XI (XO (XI (XI XH))))))))))))))))),
    (Zpos (XO (XO (XI (XI (XI (XO (XI XH))))))))) :: (((Zpos (XI (XI (XO (XI
    (XO (XO (XO (XI (XI (XO (XO (XO (XI (XO (XI (XI XH))))))))))))))))),
    (Zpos (XO (XO (XI (XI (XI (XO (XI XH))))))))) :: (((Zpos (XO (XI (XO (XI
    (XO (XI (XO (XI (XI (XO (XO (XO (XI (XO (XI (XI XH))))))))))))))))),
    (Zpos (XO (XI (XI (XO (XO (XI (XI XH))))))))) :: (((Zpos (XI (XI (XO (XI
    (XO (XI (XO (XI (XI (XO (XO (XO (XI (XO (XI (XI XH))))))))))))))))),
    (Zpos (XO (XI (XI (XO (XO (XI (XI XH))))))))) :: (((Zpos (XO (XO (XI (XI
    (XO (XI (XO (XI (XI (XO (XO (XO (XI (XO (XI (XI XH))))))))))))))))),
    (Zpos (XO (XI (XI (XO (XO (XI (XI XH))))))))) :: (((Zpos (XI (XO (XI (XI
    (XO (XI (XO (XI (XI (XO (XO (XO (XI (XO (XI (XI XH))))))))))))))))),
    (Zpos (XO (XI (XI (XO (XO (XI (XI XH))))))))) :: (((Zpos (XO (XI (XO (XO
    (XO (XO (XI (XO (XO (XI (XO (XO (XI (XO (XI (XI XH))))))))))))))))),
    (Zpos (XO (XI (XI (XO (XO (XI (XI XH))))))))) :: (((Zpos (XI (XI (XO (XO
    (XO (XO (XI (XO (XO (XI (XO (XO (XI (XO (XI (XI XH))))))))))))))))),
    (Zpos (XO (XI (XI (XO (XO (XI (XI XH))))))))) :: (((Zpos (XO (XO (XI (XO
    (XO (XO (XI (XO (XO (XI (XO (XO (XI (XO (XI (XI XH))))))))))))))))),
    (Zpos (XO (XI (XI (XO (XO (XI (XI XH))))))))) :: (((Zpos (XO (XO (XO (XO
    (XO (XO (XO (XO (XO (XO (XO (XO (XO (XI (XI (XI XH))))))))))))))))),
    (Zpos (XO (XI (XI (XO (XO (XI (XI XH))))))))) :: (((Zpos (XI (XO (XO (XO
    (XO (XO (XO (XO (XO (XO (XO (XO (XO (XI (XI (XI XH))))))))))))))))),
    (Zpos (XO (XI (XI (XO (XO (XI (XI XH))))))))) :: (((Zpos (XO (XI (XO (XO
    (XO (XO (XO (XO (XO (XO (XO (XO (XO (XI (XI (XI XH))))))))))))))))),
    (Zpos (XO (XI (XI (XO (XO (XI (XI XH))))))))) :: (((Zpos (XI (XI (XO (XO
    (XO (XO (XO (XO (XO (XO (XO (XO (XO (XI (XI (XI XH))))))))))))))))),
    (Zpos (XO (XI (XI (XO (XO (XI (XI XH))))))))) :: (((Zpos (XO (XO (XI (XO
    (XO (XO (XO (XO (XO (XO (XO (XO (XO (XI (XI (XI XH))))))))))))))))),
    (Zpos (XO (XI (XI (XO (XO (XI (XI XH))))))))) :: (((Zpos (XI (XO (XI (XO
    (XO (XO (XO (XO (XO (XO (XO (XO (XO (XI (XI (XI XH))))))))))))))))),
    (Zpos (XO (XI (XI (XO (XO (XI (XI XH))))))))) :: (((Zpos (XO (XI (XI (XO
    (XO (XO (XO (XO (XO (XO (XO (XO (XO (XI (XI (XI XH))))))))))))))))),
    (Zpos (XO (XI (XI (XO (XO (XI (XI XH))))))))) :: (((Zpos (XO (XO (XO (XI
    (XO (XO (XO (XO (XO (XO (XO (XO (XO (XI (XI (XI XH))))))))))))))))),
    (Zpos (XO (XI (XI (XO (XO (XI (XI XH))))))))) :: (((Zpos (XI (XO (XO (XI
    (XO (XO (XO (XO (XO (XO (XO (XO (XO (XI (XI (XI XH))))))))))))))))),
    (Zpos (XO (XI (XI (XO (XO (XI (XI XH))))))))) :: (((Zpos (XO (XI (XO (XI
    (XO (XO (XO (XO (XO (XO (XO (XO (XO (XI (XI (XI XH))))))))))))))))),
    (Zpos (XO (XI (XI (XO (XO (XI (XI XH))))))))) :: (((Zpos (XI (XI (XO (XI
    (XO (XO (XO (XO (XO (XO (XO (XO (XO (XI (XI (XI XH))))))))))))))))),
    (Zpos (XO (XI (XI (XO (XO (XI (XI XH))))))))) :: (((Zpos (XO (XO (XI (XI
    (XO (XO (XO (XO (XO (XO (XO (XO (XO (XI (XI (XI XH))))))))))))))))),
    (Zpos (XO (XI (XI (XO (XO (XI (XI XH))))))))) :: (((Zpos (XI (XO (XI (XI
    (XO (XO (XO (XO (XO (XO (XO (XO (XO (XI (XI (XI XH))))))))))))))))),
    (Zpos (XO (XI (XI (XO (XO (XI (XI XH))))))))) :: (((Zpos (XO (XI (XI (XI
    (XO (XO (XO (XO (XO (XO (XO (XO (XO (XI (XI (XI XH))))))))))))))))),
    (Zpos (XO (XI (XI (XO (XO (XI (XI XH))))))))) :: (((Zpos (XI (XI (XI (XI
    (XO (XO (XO (XO (XO (XO (XO (XO (XO (XI (XI (XI XH))))))))))))))))),
    (Zpos (XO (XI (XI (XO (XO (XI (XI XH))))))))) :: (((Zpos (XO (XO (XO (XO
    (XI (XO (XO (XO (XO (XO (XO (XO (XO (XI (XI (XI XH))))))))))))))))),
    (Zpos (XO (XI (XI (XO (XO (XI (XI XH))))))))) :: (((Zpos (XI (XO (XO (XO
    (XI (XO (XO (XO (XO (XO (XO (XO (XO (XI (XI (XI XH))))))))))))))))),
    (Zpos (XO (XI (XI (XO (XO (XI (XI XH))))))))) :: (((Zpos (XO (XI (XO (XO
    (XI (XO (XO (XO (XO (XO (XO (XO (XO (XI (XI (XI XH))))))))))))))))),
    (Zpos (XO (XI (XI (XO (XO (XI (XI XH))))))))) :: (((Zpos (XI (XI (XO (XO
    (XI (XO (XO (XO (XO (XO (XO (XO (XO (XI (XI (XI XH))))))))))))))))),
    (Zpos (XO (XI (XI (XO (XO (XI (XI XH))))))))) :: (((Zpos (XO (XO (XI (XO
    (XI (XO (XO (XO (XO (XO (XO (XO (XO (XI (XI (XI XH))))))))))))))))),
    (Zpos (XO (XI (XI (XO (XO (XI (XI XH))))))))) :: (((Zpos (XI (XO (XI (XO
    (XI (XO (XO (XO (XO (XO (XO (XO (XO (XI (XI (XI XH))))))))))))))))),
    (Zpos (XO (XI (XI (XO (XO (XI (XI XH))))))))) :: (((Zpos (XO (XI (XI (XO
    (XI (XO (XO (XO (XO (XO (XO (XO (XO (XI (XI (XI XH))))))))))))))))),
    (Zpos (XO (XI (XI (XO (XO (XI (XI XH))))))))) :: (((Zpos (XI (XI (XI (XO
    (XI (XO (XO (XO (XO (XO (XO (XO (XO (XI (XI (XI XH))))))))))))))))),
    (Zpos (XO (XI (XI (XO (XO (XI (XI XH))))))))) :: (((Zpos (XO (XO (XO (XI
    (XI (XO (XO (XO (XO (XO (XO (XO (XO (XI (XI (XI XH))))))))))))))))),
    (Zpos (XO (XI (XI (XO (XO (XI (XI XH))))))))) :: (((Zpos (XI (XI (XO (XI
    (XI (XO (XO (XO (XO (XO (XO (XO (XO (XI (XI (XI XH))))))))))))))))),
    (Zpos (XO (XI (XI (XO (XO (XI (XI XH))))))))) :: (((Zpos (XO (XO (XI (XI
    (XI (XO (XO (XO (XO (XO (XO (XO (XO (XI (XI (XI XH))))))))))))))))),
    (Zpos (XO (XI (XI (XO (XO (XI (XI XH))))))))) :: (((Zpos (XI (XO (XI (XI
    (XI (XO (XO (XO (XO (XO (XO (XO (XO (XI (XI (XI XH))))))))))))))))),
    (Zpos (XO (XI (XI (XO (XO (XI (XI XH))))))))) :: (((Zpos (XO (XI (XI (XI
    (XI (XO (XO (XO (XO (XO (XO (XO (XO (XI (XI (XI XH))))))))))))))))),
    (Zpos (XO (XI (XI (XO (XO (XI (XI XH))))))))) :: (((Zpos (XI (XI (XI (XI
    (XI (XO (XO (XO (XO (XO (XO (XO (XO (XI (XI (XI XH))))))))))))))))),
    (Zpos (XO (XI (XI (XO (XO (XI (XI XH))))))))) :: (((Zpos (XO (XO (XO (XO
    (XO (XI (XO (XO (XO (XO (XO (XO (XO (XI (XI (XI XH))))))))))))))))),
    (Zpos (XO (XI (XI (XO (XO (XI (XI XH))))))))) :: (((Zpos (XI (XO (XO (XO
    (XO (XI (XO (XO (XO (XO (XO (XO (XO (XI (XI (XI XH))))))))))))))))),
    (Zpos (XO (XI (XI (XO (XO (XI (XI XH))))))))) :: (((Zpos (XI (XI (XO (XO
    (XO (XI (XO (XO (XO (XO (XO (XO (XO (XI (XI (XI XH))))))))))))))))),
    (Zpos (XO (XI (XI (XO (XO (XI (XI XH))))))))) :: (((Zpos (XO (XO (XI (XO
    (XO (XI (XO (XO (XO (XO (XO (XO (XO (XI (XI (XI XH))))))))))))))))),
    (Zpos (XO (XI (XI (XO (XO (XI (XI XH))))))))) :: (((Zpos (XO (XI (XI (XO
    (XO (XI (XO (XO (XO (XO (XO (XO (XO (XI (XI (XI XH))))))))))))))))),
    (Zpos (XO (XI (XI (XO (XO (XI (XI XH))))))))) :: (((Zpos (XI (XI (XI (XO
    (XO (XI (XO (XO (XO (XO (XO (XO (XO (XI (XI (XI XH))))))))))))))))),
    (Zpos (XO (XI (XI (XO (XO (XI (XI XH))))))))) :: (((Zpos (XO (XO (XO (XI
    (XO (XI (XO (XO (XO (XO (XO (XO (XO (XI (XI (XI XH))))))))))))))))),
    (Zpos (XO (XI (XI (XO (XO (XI (XI XH))))))))) :: (((Zpos (XI (XO (XO (XI
    (XO (XI (XO (XO (XO (XO (XO (XO (XO (XI (XI (XI XH))))))))))))))))),
    (Zpos (XO (XI (XI (XO (XO (XI (XI XH))))))))) :: (((Zpos (XO (XI (XO (XI
    (XO (XI (XO (XO (XO (XO (XO (XO (XO (XI (XI (XI XH))))))))))))))))),
    (Zpos (XO (XI (XI (XO (XO (XI (XI XH))))))))) :: (((Zpos (XI (XI (XI (XI
    (XO (XO (XO (XI (XO (XO (XO (XO (XO (XI (XI (XI XH))))))))))))))))),
    (Zpos (XO (XI (XI (XO (XO (XI (XI XH))))))))) :: (((Zpos (XO (XO (XO (XO
    (XI (XI (XO (XO (XI (XO (XO (XO (XO (XI (XI (XI XH))))))))))))))))),
    (Zpos (XO (XI (XI (XO (XO (XI (XI XH))))))))) :: (((Zpos (XI (XO (XO (XO
    (XI (XI (XO (XO (XI (XO (XO (XO (XO (XI (XI (XI XH))))))))))))))))),
    (Zpos (XO (XI (XI (XO (XO (XI (XI XH))))))))) :: (((Zpos (XO (XI (XO (XO
    (XI (XI (XO (XO (XI (XO (XO (XO (XO (XI (XI (XI XH))))))))))))))))),
    (Zpos (XO (XI (XI (XO (XO (XI (XI XH))))))))) :: (((Zpos (XI (XI (XO (XO
    (XI (XI (XO (XO (XI (XO (XO (XO (XO (XI (XI (XI XH))))))))))))))))),
    (Zpos (XO (XI (XI (XO (XO (XI (XI XH))))))))) :: (((Zpos (XO (XO (XI (XO
    (XI (XI (XO (XO (XI (XO (XO (XO (XO (XI (XI (XI XH))))))))))))))))),
    (Zpos (XO (XI (XI (XO (XO (XI (XI XH))))))))) :: (((Zpos (XI (XO (XI (XO
    (XI (XI (XO (XO (XI (XO (XO (XO (XO (XI (XI (XI XH))))))))))))))))),
    (Zpos (XO (XI (XI (XO (XO (XI (XI XH))))))))) :: (((Zpos (XO (XI (XI (XO
    (XI (XI (XO (XO (XI (XO (XO (XO (XO (XI (XI (XI XH))))))))))))))))),
    (Zpos (XO (XI (XI (XO (XO (XI (XI XH))))))))) :: (((Zpos (XO (XI (XI (XI
    (XO (XI (XO (XI (XO (XI (XO (XO (XO (XI (XI (XI XH))))))))))))))))),
    (Zpos (XO (XI (XI (XO (XO (XI (XI XH))))))))) :: (((Zpos (XO (XO (XI (XI
    (XO (XI (XI (XI (XO (XI (XO (XO (XO (XI (XI (XI XH))))))))))))))))),
    (Zpos (XO (XI (XI (XO (XO (XI (XI XH))))))))) :: (((Zpos (XI (XO (XI (XI
    (XO (XI (XI (XI (XO (XI (XO (XO (XO (XI (XI (XI XH))))))))))))))))),
    (Zpos (XO (XI (XI (XO (XO (XI (XI XH))))))))) :: (((Zpos (XO (XI (XI (XI
    (XO (XI (XI (XI (XO (XI (XO (XO (XO (XI (XI (XI XH))))))))))))))))),
    (Zpos (XO (XI (XI (XO (XO (XI (XI XH))))))))) :: (((Zpos (XI (XI (XI (XI
    (XO (XI (XI (XI (XO (XI (XO (XO (XO (XI (XI (XI XH))))))))))))))))),
    (Zpos (XO (XI (XI (XO (XO (XI (XI XH))))))))) :: (((Zpos (XO (XO (XI (XI
    (XO (XI (XI (XI (XO (XO (XI (XO (XO (XI (XI (XI XH))))))))))))))))),
    (Zpos (XO (XO (XO (XI (XO (XI (XI XH))))))))) :: (((Zpos (XI (XO (XI (XI
    (XO (XI (XI (XI (XO (XO (XI (XO (XO (XI (XI (XI XH))))))))))))))))),
    (Zpos (XO (XO (XO (XI (XO (XI (XI XH))))))))) :: (((Zpos (XO (XI (XI (XI
    (XO (XI (XI (XI (XO (XO (XI (XO (XO (XI (XI (XI XH))))))))))))))))),
    (Zpos (XO (XO (XI (XI (XI (XO (XI XH))))))))) :: (((Zpos (XI (XI (XI (XI
    (XO (XI (XI (XI (XO (XO (XI (XO (XO (XI (XI (XI XH))))))))))))))))),
    (Zpos (XO (XI (XI (XO (XO (XI (XI XH))))))))) :: (((Zpos (XO (XO (XO (XO
    (XI (XO (XI (XI (XO (XO (XO (XI (XO (XI (XI (XI XH))))))))))))))))),
    (Zpos (XO (XO (XI (XI (XI (XO (XI XH))))))))) :: (((Zpos (XI (XO (XO (XO
    (XI (XO (XI (XI (XO (XO (XO (XI (XO (XI (XI (XI XH))))))))))))))))),
    (Zpos (XO (XO (XI (XI (XI (XO (XI XH))))))))) :: (((Zpos (XO (XI (XO (XO
    (XI (XO (XI (XI (XO (XO (XO (XI (XO (XI (XI (XI XH))))))))))))))))),
    (Zpos (XO (XO (XI (XI (XI (XO (XI XH))))))))) :: (((Zpos (XI (XI (XO (XO
    (XI (XO (XI (XI (XO (XO (XO (XI (XO (XI (XI (XI XH))))))))))))))))),
    (Zpos (XO (XO (XI (XI (XI (XO (XI XH))))))))) :: (((Zpos (XO (XO (XI (XO
    (XI (XO (XI (XI (XO (XO (XO (XI (XO (XI (XI (XI XH))))))))))))))))),
    (Zpos (XO (XO (XI (XI (XI (XO (XI XH))))))))) :: (((Zpos (XI (XO (XI (XO
    (XI (XO (XI (XI (XO (XO (XO (XI (XO (XI (XI (XI XH))))))))))))))))),
    (Zpos (XO (XO (XI (XI (XI (XO (XI XH))))))))) :: (((Zpos (XO (XI (XI (XO
    (XI (XO (XI (XI (XO (XO (XO (XI (XO (XI (XI (XI XH))))))))))))))))),
    (Zpos (XO (XO (XI (XI (XI (XO (XI XH))))))))) :: (((Zpos (XO (XO (XI (XO
    (XO (XO (XI (XO (XI (XO (XO (XI (XO (XI (XI (XI XH))))))))))))))))),
    (Zpos (XO (XI (XI (XO (XO (XI (XI XH))))))))) :: (((Zpos (XI (XO (XI (XO
    (XO (XO (XI (XO (XI (XO (XO (XI (XO (XI (XI (XI XH))))))))))))))))),
    (Zpos (XO (XI (XI (XO (XO (XI (XI XH))))))))) :: (((Zpos (XO (XI (XI (XO
    (XO (XO (XI (XO (XI (XO (XO (XI (XO (XI (XI (XI XH))))))))))))))))),
    (Zpos (XO (XI (XI (XO (XO (XI (XI XH))))))))) :: (((Zpos (XI (XI (XI (XO
    (XO (XO (XI (XO (XI (XO (XO (XI (XO (XI (XI (XI XH))))))))))))))))),
    (Zpos (XO (XI (XI (XO (XO (XI (XI XH))))))))) :: (((Zpos (XO (XO (XO (XI
    (XO (XO (XI (XO (XI (XO (XO (XI (XO (XI (XI (XI XH))))))))))))))))),
    (Zpos (XO (XI (XI (XO (XO (XI (XI XH))))))))) :: (((Zpos (XI (XO (XO (XI
    (XO (XO (XI (XO (XI (XO (XO (XI (XO (XI (XI (XI XH))))))))))))))))),
    (Zpos (XO (XI (XI (XO (XO (XI (XI XH))))))))) :: (((Zpos (XO (XI (XO (XI
    (XO (XO (XI (XO (XI (XO (XO (XI (XO (XI (XI (XI XH))))))))))))))))),
    (Zpos (XI (XI
    XH)))) :: [])))))))))))))))))))))))))))))))))))))))))))))))))))))))))))))))))))))))))))))))))))))))))))))))))))))))))))))))))))))))))))))))))))))))))))))))))))))))))))))))))))))))))))))))))))))))))))))))))))))))))))))))))))))))))))))))))))))))))))))))))))))))))))))))))))))))))))))))))))))))))))))))))))))))))))))))))))))))))))))))))))))))))))))))))))))))))))))))))))))))))))))))))))))))))))))))))))))))))))))))))))))))))))))))))))))))))))))))))))))))))))))))))))))))))))))))))))))))))))))))))))))))))))))))))))))))))))))))))))))))))))))))))))))))))))))))))))))))))))))))))))))))))))))))))))))))))))))))))))))))))))))))))))))))))))))))))))))))))))))))))))))))))))))))))))))))))))))))))))))))))))))))))))))))))))))))))))))))))))))))))))))))))))))))))))))))))))))))))))))))))))))))))))))))))))))))))))))))))))))))))))))))))))))))))))))))))))))))))))))))))))))))))))))))))))))))))))))))))))))))))))))))))))))))))))))))))))))))))))))))))

(** val impl_compose : ((z * z) * z) list **)

let impl_compose =
  (((Zpos (XO (XO (XI (XI (XI XH)))))), (Zpos (XO (XO (XO (XI (XI (XI (XO (XO
    (XI XH))))))))))), (Zpos (XO (XI (XI (XI (XO (XI (XI (XO (XO (XI (XO (XO
    (XO XH))))))))))))))) :: ((((Zpos (XI (XO (XI (XI (XI XH)))))), (Zpos (XO
    (XO (XO (XI (XI (XI (XO (XO (XI XH))))))))))), (Zpos (XO (XO (XO (XO (XO
    (XI (XI (XO (XO (XI (XO (XO (XO XH))))))))))))))) :: ((((Zpos (XO (XI (XI
    (XI (XI XH)))))), (Zpos (XO (XO (XO (XI (XI (XI (XO (XO (XI
    XH))))))))))), (Zpos (XI (XI (XI (XI (XO (XI (XI (XO (XO (XI (XO (XO (XO
    XH))))))))))))))) :: ((((Zpos (XI (XO (XO (XO (XO (XO XH))))))), (Zpos
    (XO (XO (XO (XO (XO (XO (XO (XO (XI XH))))))))))), (Zpos (XO (XO (XO (XO
    (XO (XO (XI XH))))))))) :: ((((Zpos (XI (XO (XO (XO (XO (XO XH))))))),
    (Zpos (XI (XO (XO (XO (XO (XO (XO (XO (XI XH))))))))))), (Zpos (XI (XO
    (XO (XO (XO (XO (XI XH))))))))) :: ((((Zpos (XI (XO (XO (XO (XO (XO
    XH))))))), (Zpos (XO (XI (XO (XO (XO (XO (XO (XO (XI XH))))))))))), (Zpos
    (XO (XI (XO (XO (XO (XO (XI XH))))))))) :: ((((Zpos (XI (XO (XO (XO (XO
    (XO XH))))))), (Zpos (XI (XI (XO (XO (XO (XO (XO (XO (XI XH))))))))))),
    (Zpos (XI (XI (XO (XO (XO (XO (XI XH))))))))) :: ((((Zpos (XI (XO (XO (XO
    (XO (XO XH))))))), (Zpos (XO (XO (XI (XO (XO (XO (XO (XO (XI
    XH))))))))))), (Zpos (XO (XO (XO (XO (XO (XO (XO (XO
    XH)))))))))) :: ((((Zpos (XI (XO (XO (XO (XO (XO XH))))))), (Zpos (XO (XI
    (XI (XO (XO (XO (XO (XO (XI XH))))))))))), (Zpos (XO (XI (XO (XO (XO (XO
    (XO (XO XH)))))))))) :: ((((Zpos (XI (XO (XO (XO (XO (XO XH))))))), (Zpos
    (XI (XI (XI (XO (XO (XO (XO (XO (XI XH))))))))))), (Zpos (XO (XI (XI (XO
    (XO (XI (XO (XO (XO XH))))))))))) :: ((((Zpos (XI (XO (XO (XO (XO (XO
    XH))))))), (Zpos (XO (XO (XO (XI (XO (XO (XO (XO (XI XH))))))))))), (Zpos
    (XO (XO (XI (XO (XO (XO (XI XH))))))))) :: ((((Zpos (XI (XO (XO (XO (XO
    (XO XH))))))), (Zpos (XI (XO (XO (XI (XO (XO (XO (XO (XI XH))))))))))),
    (Zpos (XO (XI (XO (XO (XO (XI (XO (XI (XO (XI (XI (XI
    XH)))))))))))))) :: ((((Zpos (XI (XO (XO (XO (XO (XO XH))))))), (Zpos (XO
    (XI (XO (XI (XO (XO (XO (XO (XI XH))))))))))), (Zpos (XI (XO (XI (XO (XO
    (XO (XI XH))))))))) :: ((((Zpos (XI (XO (XO (XO (XO (XO XH))))))), (Zpos
    (XO (XO (XI (XI (XO (XO (XO (XO (XI XH))))))))))), (Zpos (XI (XO (XI (XI
    (XO (XO (XI (XI XH)))))))))) :: ((((Zpos (XI (XO (XO (XO (XO (XO
    XH))))))), (Zpos (XI (XI (XI (XI (XO (XO (XO (XO (XI XH))))))))))), (Zpos
    (XO (XO (XO (XO (XO (XO (XO (XO (XO XH))))))))))) :: ((((Zpos (XI (XO (XO
    (XO (XO (XO XH))))))), (Zpos (XI (XO (XO (XO (XI (XO (XO (XO (XI
    XH))))))))))), (Zpos (XO (XI (XO (XO (XO (XO (XO (XO (XO
    XH))))))))))) :: ((((Zpos (XI (XO (XO (XO (XO (XO XH))))))), (Zpos (XI
    (XI (XO (XO (XO (XI (XO (XO (XI XH))))))))))), (Zpos (XO (XO (XO (XO (XO
    (XI (XO (XI (XO (XI (XI (XI XH)))))))))))))) :: ((((Zpos (XI (XO (XO (XO
    (XO (XO XH))))))), (Zpos (XI (XO (XI (XO (XO (XI (XO (XO (XI
    XH))))))))))), (Zpos (XO (XO (XO (XO (XO (XO (XO (XO (XO (XI (XI (XI
    XH)))))))))))))) :: ((((Zpos (XI (XO (XO (XO (XO (XO XH))))))), (Zpos (XO
    (XO (XO (XI (XO (XI (XO (XO (XI XH))))))))))), (Zpos (XO (XO (XI (XO (XO
    (XO (XO (XO XH)))))))))) :: ((((Zpos (XO (XI (XO (XO (XO (XO XH))))))),
    (Zpos (XI (XI (XI (XO (XO (XO (XO (XO (XI XH))))))))))), (Zpos (XO (XI
    (XO (XO (XO (XO (XO (XO (XO (XI (XI (XI XH)))))))))))))) :: ((((Zpos (XO
    (XI (XO (XO (XO (XO XH))))))), (Zpos (XI (XI (XO (XO (XO (XI (XO (XO (XI
    XH))))))))))), (Zpos (XO (XO (XI (XO (XO (XO (XO (XO (XO (XI (XI (XI
    XH)))))))))))))) :: ((((Zpos (XO (XI (XO (XO (XO (XO XH))))))), (Zpos (XI
    (XO (XO (XO (XI (XI (XO (XO (XI XH))))))))))), (Zpos (XO (XI (XI (XO (XO
    (XO (XO (XO (XO (XI (XI (XI XH)))))))))))))) :: ((((Zpos (XI (XI (XO (XO
    (XO (XO XH))))))), (Zpos (XI (XO (XO (XO (XO (XO (XO (XO (XI
    XH))))))))))), (Zpos (XO (XI (XI (XO (XO (XO (XO (XO
    XH)))))))))) :: ((((Zpos (XI (XI (XO (XO (XO (XO XH))))))), (Zpos (XO (XI
    (XO (XO (XO (XO (XO (XO (XI XH))))))))))), (Zpos (XO (XO (XO (XI (XO (XO
    (XO (XO XH)))))))))) :: ((((Zpos (XI (XI (XO (XO (XO (XO XH))))))), (Zpos
    (XI (XI (XI (XO (XO (XO (XO (XO (XI XH))))))))))), (Zpos (XO (XI (XO (XI
    (XO (XO (XO (XO XH)))))))))) :: ((((Zpos (XI (XI (XO (XO (XO (XO
    XH))))))), (Zpos (XO (XO (XI (XI (XO (XO (XO (XO (XI XH))))))))))), (Zpos
    (XO (XO (XI (XI (XO (XO (XO (XO XH)))))))))) :: ((((Zpos (XI (XI (XO (XO
    (XO (XO XH))))))), (Zpos (XI (XI (XI (XO (XO (XI (XO (XO (XI
    XH))))))))))), (Zpos (XI (XI (XI (XO (XO (XO (XI XH))))))))) :: ((((Zpos
    (XO (XO (XI (XO (XO (XO XH))))))), (Zpos (XI (XI (XI (XO (XO (XO (XO (XO
    (XI XH))))))))))), (Zpos (XO (XI (XO (XI (XO (XO (XO (XO (XO (XI (XI (XI
    XH)))))))))))))) :: ((((Zpos (XO (XO (XI (XO (XO (XO XH))))))), (Zpos (XO
    (XO (XI (XI (XO (XO (XO (XO (XI XH))))))))))), (Zpos (XO (XI (XI (XI (XO
    (XO (XO (XO XH)))))))))) :: ((((Zpos (XO (XO (XI (XO (XO (XO XH))))))),
    (Zpos (XI (XI (XO (XO (XO (XI (XO (XO (XI XH))))))))))), (Zpos (XO (XO
    (XI (XI (XO (XO (XO (XO (XO (XI (XI (XI XH)))))))))))))) :: ((((Zpos (XO
    (XO (XI (XO (XO (XO XH))))))), (Zpos (XI (XI (XI (XO (XO (XI (XO (XO (XI
    XH))))))))))), (Zpos (XO (XO (XO (XO (XI (XO (XO (XO (XO (XI (XI (XI
    XH)))))))))))))) :: ((((Zpos (XO (XO (XI (XO (XO (XO XH))))))), (Zpos (XI
    (XO (XI (XI (XO (XI (XO (XO (XI XH))))))))))), (Zpos (XO (XI (XO (XO (XI
    (XO (XO (XO (XO (XI (XI (XI XH)))))))))))))) :: ((((Zpos (XO (XO (XI (XO
    (XO (XO XH))))))), (Zpos (XI (XO (XO (XO (XI (XI (XO (XO (XI
    XH))))))))))), (Zpos (XO (XI (XI (XI (XO (XO (XO (XO (XO (XI (XI (XI
    XH)))))))))))))) :: ((((Zpos (XI (XO (XI (XO (XO (XO XH))))))), (Zpos (XO
    (XO (XO (XO (XO (XO (XO (XO (XI XH))))))))))), (Zpos (XO (XO (XO (XI (XO
    (XO (XI XH))))))))) :: ((((Zpos (XI (XO (XI (XO (XO (XO XH))))))), (Zpos
    (XI (XO (XO (XO (XO (XO (XO (XO (XI XH))))))))))), (Zpos (XI (XO (XO (XI
    (XO (XO (XI XH))))))))) :: ((((Zpos (XI (XO (XI (XO (XO (XO XH))))))),
    (Zpos (XO (XI (XO (XO (XO (XO (XO (XO (XI XH))))))))))), (Zpos (XO (XI
    (XO (XI (XO (XO (XI XH))))))))) :: ((((Zpos (XI (XO (XI (XO (XO (XO
    XH))))))), (Zpos (XI (XI (XO (XO (XO (XO (XO (XO (XI XH))))))))))), (Zpos
    (XO (XO (XI (XI (XI (XI (XO (XI (XO (XI (XI (XI
    XH)))))))))))))) :: ((((Zpos (XI (XO (XI (XO (XO (XO XH))))))), (Zpos (XO
    (XO (XI (XO (XO (XO (XO (XO (XI XH))))))))))), (Zpos (XO (XI (XO (XO (XI
    (XO (XO (XO XH)))))))))) :: ((((Zpos (XI (XO (XI (XO (XO (XO XH))))))),
    (Zpos (XO (XI (XI (XO (XO (XO (XO (XO (XI XH))))))))))), (Zpos (XO (XO
    (XI (XO (XI (XO (XO (XO XH)))))))))) :: ((((Zpos (XI (XO (XI (XO (XO (XO
    XH))))))), (Zpos (XI (XI (XI (XO (XO (XO (XO (XO (XI XH))))))))))), (Zpos
    (XO (XI (XI (XO (XI (XO (XO (XO XH)))))))))) :: ((((Zpos (XI (XO (XI (XO
    (XO (XO XH))))))), (Zpos (XO (XO (XO (XI (XO (XO (XO (XO (XI
    XH))))))))))), (Zpos (XI (XI (XO (XI (XO (XO (XI XH))))))))) :: ((((Zpos
    (XI (XO (XI (XO (XO (XO XH))))))), (Zpos (XI (XO (XO (XI (XO (XO (XO (XO
    (XI XH))))))))))), (Zpos (XO (XI (XO (XI (XI (XI (XO (XI (XO (XI (XI (XI
    XH)))))))))))))) :: ((((Zpos (XI (XO (XI (XO (XO (XO XH))))))), (Zpos (XO
    (XO (XI (XI (XO (XO (XO (XO (XI XH))))))))))), (Zpos (XO (XI (XO (XI (XI
    (XO (XO (XO XH)))))))))) :: ((((Zpos (XI (XO (XI (XO (XO (XO XH))))))),
    (Zpos (XI (XI (XI (XI (XO (XO (XO (XO (XI XH))))))))))), (Zpos (XO (XO
    (XI (XO (XO (XO (XO (XO (XO XH))))))))))) :: ((((Zpos (XI (XO (XI (XO (XO
    (XO XH))))))), (Zpos (XI (XO (XO (XO (XI (XO (XO (XO (XI XH))))))))))),
    (Zpos (XO (XI (XI (XO (XO (XO (XO (XO (XO XH))))))))))) :: ((((Zpos (XI
    (XO (XI (XO (XO (XO XH))))))), (Zpos (XI (XI (XO (XO (XO (XI (XO (XO (XI
    XH))))))))))), (Zpos (XO (XO (XO (XI (XI (XI (XO (XI (XO (XI (XI (XI
    XH)))))))))))))) :: ((((Zpos (XI (XO (XI (XO (XO (XO XH))))))), (Zpos (XI
    (XI (XI (XO (XO (XI (XO (XO (XI XH))))))))))), (Zpos (XO (XO (XO (XI (XO
    (XI (XO (XO (XO XH))))))))))) :: ((((Zpos (XI (XO (XI (XO (XO (XO
    XH))))))), (Zpos (XO (XO (XO (XI (XO (XI (XO (XO (XI XH))))))))))), (Zpos
    (XO (XO (XO (XI (XI (XO (XO (XO XH)))))))))) :: ((((Zpos (XI (XO (XI (XO
    (XO (XO XH))))))), (Zpos (XI (XO (XI (XI (XO (XI (XO (XO (XI
    XH))))))))))), (Zpos (XO (XO (XO (XI (XI (XO (XO (XO (XO (XI (XI (XI
    XH)))))))))))))) :: ((((Zpos (XI (XO (XI (XO (XO (XO XH))))))), (Zpos (XO
    (XO (XO (XO (XI (XI (XO (XO (XI XH))))))))))), (Zpos (XO (XI (XO (XI (XI
    (XO (XO (XO (XO (XI (XI (XI XH)))))))))))))) :: ((((Zpos (XO (XI (XI (XO
    (XO (XO XH))))))), (Zpos (XI (XI (XI (XO (XO (XO (XO (XO (XI
    XH))))))))))), (Zpos (XO (XI (XI (XI (XI (XO (XO (XO (XO (XI (XI (XI
    XH)))))))))))))) :: ((((Zpos (XI (XI (XI (XO (XO (XO XH))))))), (Zpos (XI
    (XO (XO (XO (XO (XO (XO (XO (XI XH))))))))))), (Zpos (XO (XO (XI (XO (XI
    (XI (XI (XI XH)))))))))) :: ((((Zpos (XI (XI (XI (XO (XO (XO XH))))))),
    (Zpos (XO (XI (XO (XO (XO (XO (XO (XO (XI XH))))))))))), (Zpos (XO (XO
    (XI (XI (XI (XO (XO (XO XH)))))))))) :: ((((Zpos (XI (XI (XI (XO (XO (XO
    XH))))))), (Zpos (XO (XO (XI (XO (XO (XO (XO (XO (XI XH))))))))))), (Zpos
    (XO (XO (XO (XO (XO (XI (XO (XO (XO (XI (XI (XI
    XH)))))))))))))) :: ((((Zpos (XI (XI (XI (XO (XO (XO XH))))))), (Zpos (XO
    (XI (XI (XO (XO (XO (XO (XO (XI XH))))))))))), (Zpos (XO (XI (XI (XI (XI
    (XO (XO (XO XH)))))))))) :: ((((Zpos (XI (XI (XI (XO (XO (XO XH))))))),
    (Zpos (XI (XI (XI (XO (XO (XO (XO (XO (XI XH))))))))))), (Zpos (XO (XO
    (XO (XO (XO (XI (XO (XO XH)))))))))) :: ((((Zpos (XI (XI (XI (XO (XO (XO
    XH))))))), (Zpos (XO (XO (XI (XI (XO (XO (XO (XO (XI XH))))))))))), (Zpos
    (XO (XI (XI (XO (XO (XI (XI (XI XH)))))))))) :: ((((Zpos (XI (XI (XI (XO
    (XO (XO XH))))))), (Zpos (XI (XI (XI (XO (XO (XI (XO (XO (XI
    XH))))))))))), (Zpos (XO (XI (XO (XO (XO (XI (XO (XO
    XH)))))))))) :: ((((Zpos (XO (XO (XO (XI (XO (XO XH))))))), (Zpos (XO (XI
    (XO (XO (XO (XO (XO (XO (XI XH))))))))))), (Zpos (XO (XO (XI (XO (XO (XI
    (XO (XO XH)))))))))) :: ((((Zpos (XO (XO (XO (XI (XO (XO XH))))))), (Zpos
    (XI (XI (XI (XO (XO (XO (XO (XO (XI XH))))))))))), (Zpos (XO (XI (XO (XO
    (XO (XI (XO (XO (XO (XI (XI (XI XH)))))))))))))) :: ((((Zpos (XO (XO (XO
    (XI (XO (XO XH))))))), (Zpos (XO (XO (XO (XI (XO (XO (XO (XO (XI
    XH))))))))))), (Zpos (XO (XI (XI (XO (XO (XI (XO (XO (XO (XI (XI (XI
    XH)))))))))))))) :: ((((Zpos (XO (XO (XO (XI (XO (XO XH))))))), (Zpos (XO
    (XO (XI (XI (XO (XO (XO (XO (XI XH))))))))))), (Zpos (XO (XI (XI (XI (XI
    (XO (XO (XO (XO XH))))))))))) :: ((((Zpos (XO (XO (XO (XI (XO (XO
    XH))))))), (Zpos (XI (XI (XO (XO (XO (XI (XO (XO (XI XH))))))))))), (Zpos
    (XO (XO (XI (XO (XO (XI (XO (XO (XO (XI (XI (XI
    XH)))))))))))))) :: ((((Zpos (XO (XO (XO (XI (XO (XO XH))))))), (Zpos (XI
    (XI (XI (XO (XO (XI (XO (XO (XI XH))))))))))), (Zpos (XO (XO (XO (XI (XO
    (XI (XO (XO (XO (XI (XI (XI XH)))))))))))))) :: ((((Zpos (XO (XO (XO (XI
    (XO (XO XH))))))), (Zpos (XO (XI (XI (XI (XO (XI (XO (XO (XI
    XH))))))))))), (Zpos (XO (XI (XO (XI (XO (XI (XO (XO (XO (XI (XI (XI
    XH)))))))))))))) :: ((((Zpos (XI (XO (XO (XI (XO (XO XH))))))), (Zpos (XO
    (XO (XO (XO (XO (XO (XO (XO (XI XH))))))))))), (Zpos (XO (XO (XI (XI (XO
    (XO (XI XH))))))))) :: ((((Zpos (XI (XO (XO (XI (XO (XO XH))))))), (Zpos
    (XI (XO (XO (XO (XO (XO (XO (XO (XI XH))))))))))), (Zpos (XI (XO (XI (XI
    (XO (XO (XI XH))))))))) :: ((((Zpos (XI (XO (XO (XI (XO (XO XH))))))),
    (Zpos (XO (XI (XO (XO (XO (XO (XO (XO (XI XH))))))))))), (Zpos (XO (XI
    (XI (XI (XO (XO (XI XH))))))))) :: ((((Zpos (XI (XO (XO (XI (XO (XO
    XH))))))), (Zpos (XI (XI (XO (XO (XO (XO (XO (XO (XI XH))))))))))), (Zpos
    (XO (XO (XO (XI (XO (XI (XO (XO XH)))))))))) :: ((((Zpos (XI (XO (XO (XI
    (XO (XO XH))))))), (Zpos (XO (XO (XI (XO (XO (XO (XO (XO (XI
    XH))))))))))), (Zpos (XO (XI (XO (XI (XO (XI (XO (XO
    XH)))))))))) :: ((((Zpos (XI (XO (XO (XI (XO (XO XH))))))), (Zpos (XO (XI
    (XI (XO (XO (XO (XO (XO (XI XH))))))))))), (Zpos (XO (XO (XI (XI (XO (XI
    (XO (XO XH)))))))))) :: ((((Zpos (XI (XO (XO (XI (XO (XO XH))))))), (Zpos
    (XI (XI (XI (XO (XO (XO (XO (XO (XI XH))))))))))), (Zpos (XO (XO (XO (XO
    (XI (XI (XO (XO XH)))))))))) :: ((((Zpos (XI (XO (XO (XI (XO (XO
    XH))))))), (Zpos (XO (XO (XO (XI (XO (XO (XO (XO (XI XH))))))))))), (Zpos
    (XI (XI (XI (XI (XO (XO (XI XH))))))))) :: ((((Zpos (XI (XO (XO (XI (XO
    (XO XH))))))), (Zpos (XI (XO (XO (XI (XO (XO (XO (XO (XI XH))))))))))),
    (Zpos (XO (XO (XO (XI (XO (XO (XI (XI (XO (XI (XI (XI
    XH)))))))))))))) :: ((((Zpos (XI (XO (XO (XI (XO (XO XH))))))), (Zpos (XO
    (XO (XI (XI (XO (XO (XO (XO (XI XH))))))))))), (Zpos (XI (XI (XI (XI (XO
    (XO (XI (XI XH)))))))))) :: ((((Zpos (XI (XO (XO (XI (XO (XO XH))))))),
    (Zpos (XI (XI (XI (XI (XO (XO (XO (XO (XI XH))))))))))), (Zpos (XO (XO
    (XO (XI (XO (XO (XO (XO (XO XH))))))))))) :: ((((Zpos (XI (XO (XO (XI (XO
    (XO XH))))))), (Zpos (XI (XO (XO (XO (XI (XO (XO (XO (XI XH))))))))))),
    (Zpos (XO (XI (XO (XI (XO (XO (XO (XO (XO XH))))))))))) :: ((((Zpos (XI
    (XO (XO (XI (XO (XO XH))))))), (Zpos (XI (XI (XO (XO (XO (XI (XO (XO (XI
    XH))))))))))), (Zpos (XO (XI (XO (XI (XO (XO (XI (XI (XO (XI (XI (XI
    XH)))))))))))))) :: ((((Zpos (XI (XO (XO (XI (XO (XO XH))))))), (Zpos (XO
    (XO (XO (XI (XO (XI (XO (XO (XI XH))))))))))), (Zpos (XO (XI (XI (XI (XO
    (XI (XO (XO XH)))))))))) :: ((((Zpos (XI (XO (XO (XI (XO (XO XH))))))),
    (Zpos (XO (XO (XO (XO (XI (XI (XO (XO (XI XH))))))))))), (Zpos (XO (XO
    (XI (XI (XO (XI (XO (XO (XO (XI (XI (XI XH)))))))))))))) :: ((((Zpos (XO
    (XI (XO (XI (XO (XO XH))))))), (Zpos (XO (XI (XO (XO (XO (XO (XO (XO (XI
    XH))))))))))), (Zpos (XO (XO (XI (XO (XI (XI (XO (XO
    XH)))))))))) :: ((((Zpos (XI (XI (XO (XI (XO (XO XH))))))), (Zpos (XI (XO
    (XO (XO (XO (XO (XO (XO (XI XH))))))))))), (Zpos (XO (XO (XO (XO (XI (XI
    (XO (XO (XO (XI (XI (XI XH)))))))))))))) :: ((((Zpos (XI (XI (XO (XI (XO
    (XO XH))))))), (Zpos (XO (XO (XI (XI (XO (XO (XO (XO (XI XH))))))))))),
    (Zpos (XO (XO (XO (XI (XO (XI (XI (XI XH)))))))))) :: ((((Zpos (XI (XI
    (XO (XI (XO (XO XH))))))), (Zpos (XI (XI (XO (XO (XO (XI (XO (XO (XI
    XH))))))))))), (Zpos (XO (XI (XO (XO (XI (XI (XO (XO (XO (XI (XI (XI
    XH)))))))))))))) :: ((((Zpos (XI (XI (XO (XI (XO (XO XH))))))), (Zpos (XI
    (XI (XI (XO (XO (XI (XO (XO (XI XH))))))))))), (Zpos (XO (XI (XI (XO (XI
    (XI (XO (XO XH)))))))))) :: ((((Zpos (XI (XI (XO (XI (XO (XO XH))))))),
    (Zpos (XI (XO (XO (XO (XI (XI (XO (XO (XI XH))))))))))), (Zpos (XO (XO
    (XI (XO (XI (XI (XO (XO (XO (XI (XI (XI XH)))))))))))))) :: ((((Zpos (XO
    (XO (XI (XI (XO (XO XH))))))), (Zpos (XI (XO (XO (XO (XO (XO (XO (XO (XI
    XH))))))))))), (Zpos (XI (XO (XO (XI (XI (XI (XO (XO
    XH)))))))))) :: ((((Zpos (XO (XO (XI (XI (XO (XO XH))))))), (Zpos (XO (XO
    (XI (XI (XO (XO (XO (XO (XI XH))))))))))), (Zpos (XI (XO (XI (XI (XI (XI
    (XO (XO XH)))))))))) :: ((((Zpos (XO (XO (XI (XI (XO (XO XH))))))), (Zpos
    (XI (XI (XO (XO (XO (XI (XO (XO (XI XH))))))))))), (Zpos (XO (XI (XI (XO
    (XI (XI (XO (XO (XO (XI (XI (XI XH)))))))))))))) :: ((((Zpos (XO (XO (XI
    (XI (XO (XO XH))))))), (Zpos (XI (XI (XI (XO (XO (XI (XO (XO (XI
    XH))))))))))), (Zpos (XI (XI (XO (XI (XI (XI (XO (XO
    XH)))))))))) :: ((((Zpos (XO (XO (XI (XI (XO (XO XH))))))), (Zpos (XI (XO
    (XI (XI (XO (XI (XO (XO (XI XH))))))))))), (Zpos (XO (XO (XI (XI (XI (XI
    (XO (XO (XO (XI (XI (XI XH)))))))))))))) :: ((((Zpos (XO (XO (XI (XI (XO
    (XO XH))))))), (Zpos (XI (XO (XO (XO (XI (XI (XO (XO (XI XH))))))))))),
    (Zpos (XO (XI (XO (XI (XI (XI (XO (XO (XO (XI (XI (XI
    XH)))))))))))))) :: ((((Zpos (XI (XO (XI (XI (XO (XO XH))))))), (Zpos (XI
    (XO (XO (XO (XO (XO (XO (XO (XI XH))))))))))), (Zpos (XO (XI (XI (XI (XI
    (XI (XO (XO (XO (XI (XI (XI XH)))))))))))))) :: ((((Zpos (XI (XO (XI (XI
    (XO (XO XH))))))), (Zpos (XI (XI (XI (XO (XO (XO (XO (XO (XI
    XH))))))))))), (Zpos (XO (XO (XO (XO (XO (XO (XI (XO (XO (XI (XI (XI
    XH)))))))))))))) :: ((((Zpos (XI (XO (XI (XI (XO (XO XH))))))), (Zpos (XI
    (XI (XO (XO (XO (XI (XO (XO (XI XH))))))))))), (Zpos (XO (XI (XO (XO (XO
    (XO (XI (XO (XO (XI (XI (XI XH)))))))))))))) :: ((((Zpos (XO (XI (XI (XI
    (XO (XO XH))))))), (Zpos (XO (XO (XO (XO (XO (XO (XO (XO (XI
    XH))))))))))), (Zpos (XO (XO (XO (XI (XI (XI (XI (XI
    XH)))))))))) :: ((((Zpos (XO (XI (XI (XI (XO (XO XH))))))), (Zpos (XI (XO
    (XO (XO (XO (XO (XO (XO (XI XH))))))))))), (Zpos (XI (XI (XO (XO (XO (XO
    (XI (XO XH)))))))))) :: ((((Zpos (XO (XI (XI (XI (XO (XO XH))))))), (Zpos
    (XI (XI (XO (XO (XO (XO (XO (XO (XI XH))))))))))), (Zpos (XI (XO (XO (XO
    (XI (XO (XI XH))))))))) :: ((((Zpos (XO (XI (XI (XI (XO (XO XH))))))),
    (Zpos (XI (XI (XI (XO (XO (XO (XO (XO (XI XH))))))))))), (Zpos (XO (XO
    (XI (XO (XO (XO (XI (XO (XO (XI (XI (XI XH)))))))))))))) :: ((((Zpos (XO
    (XI (XI (XI (XO (XO XH))))))), (Zpos (XO (XO (XI (XI (XO (XO (XO (XO (XI
    XH))))))))))), (Zpos (XI (XI (XI (XO (XO (XO (XI (XO
    XH)))))))))) :: ((((Zpos (XO (XI (XI (XI (XO (XO XH))))))), (Zpos (XI (XI
    (XO (XO (XO (XI (XO (XO (XI XH))))))))))), (Zpos (XO (XI (XI (XO (XO (XO
    (XI (XO (XO (XI (XI (XI XH)))))))))))))) :: ((((Zpos (XO (XI (XI (XI (XO
    (XO XH))))))), (Zpos (XI (XI (XI (XO (XO (XI (XO (XO (XI XH))))))))))),
    (Zpos (XI (XO (XI (XO (XO (XO (XI (XO XH)))))))))) :: ((((Zpos (XO (XI
    (XI (XI (XO (XO XH))))))), (Zpos (XI (XO (XI (XI (XO (XI (XO (XO (XI
    XH))))))))))), (Zpos (XO (XI (XO (XI (XO (XO (XI (XO (XO (XI (XI (XI
    XH)))))))))))))) :: ((((Zpos (XO (XI (XI (XI (XO (XO XH))))))), (Zpos (XI
    (XO (XO (XO (XI (XI (XO (XO (XI XH))))))))))), (Zpos (XO (XO (XO (XI (XO
    (XO (XI (XO (XO (XI (XI (XI XH)))))))))))))) :: ((((Zpos (XI (XI (XI (XI
    (XO (XO XH))))))), (Zpos (XO (XO (XO (XO (XO (XO (XO (XO (XI
    XH))))))))))), (Zpos (XO (XI (XO (XO (XI (XO (XI XH))))))))) :: ((((Zpos
    (XI (XI (XI (XI (XO (XO XH))))))), (Zpos (XI (XO (XO (XO (XO (XO (XO (XO
    (XI XH))))))))))), (Zpos (XI (XI (XO (XO (XI (XO (XI
    XH))))))))) :: ((((Zpos (XI (XI (XI (XI (XO (XO XH))))))), (Zpos (XO (XI
    (XO (XO (XO (XO (XO (XO (XI XH))))))))))), (Zpos (XO (XO (XI (XO (XI (XO
    (XI XH))))))))) :: ((((Zpos (XI (XI (XI (XI (XO (XO XH))))))), (Zpos (XI
    (XI (XO (XO (XO (XO (XO (XO (XI XH))))))))))), (Zpos (XI (XO (XI (XO (XI
    (XO (XI XH))))))))) :: ((((Zpos (XI (XI (XI (XI (XO (XO XH))))))), (Zpos
    (XO (XO (XI (XO (XO (XO (XO (XO (XI XH))))))))))), (Zpos (XO (XO (XI (XI
    (XO (XO (XI (XO XH)))))))))) :: ((((Zpos (XI (XI (XI (XI (XO (XO
    XH))))))), (Zpos (XO (XI (XI (XO (XO (XO (XO (XO (XI XH))))))))))), (Zpos
    (XO (XI (XI (XI (XO (XO (XI (XO XH)))))))))) :: ((((Zpos (XI (XI (XI (XI
    (XO (XO XH))))))), (Zpos (XI (XI (XI (XO (XO (XO (XO (XO (XI
    XH))))))))))), (Zpos (XO (XI (XI (XI (XO (XI (XO (XO (XO
    XH))))))))))) :: ((((Zpos (XI (XI (XI (XI (XO (XO XH))))))), (Zpos (XO
    (XO (XO (XI (XO (XO (XO (XO (XI XH))))))))))), (Zpos (XO (XI (XI (XO (XI
    (XO (XI XH))))))))) :: ((((Zpos (XI (XI (XI (XI (XO (XO XH))))))), (Zpos
    (XI (XO (XO (XI (XO (XO (XO (XO (XI XH))))))))))), (Zpos (XO (XI (XI (XI
    (XO (XO (XI (XI (XO (XI (XI (XI XH)))))))))))))) :: ((((Zpos (XI (XI (XI
    (XI (XO (XO XH))))))), (Zpos (XI (XI (XO (XI (XO (XO (XO (XO (XI
    XH))))))))))), (Zpos (XO (XO (XO (XO (XI (XO (XI (XO
    XH)))))))))) :: ((((Zpos (XI (XI (XI (XI (XO (XO XH))))))), (Zpos (XO (XO
    (XI (XI (XO (XO (XO (XO (XI XH))))))))))), (Zpos (XI (XO (XO (XO (XI (XO
    (XI (XI XH)))))))))) :: ((((Zpos (XI (XI (XI (XI (XO (XO XH))))))), (Zpos
    (XI (XI (XI (XI (XO (XO (XO (XO (XI XH))))))))))), (Zpos (XO (XO (XI (XI
    (XO (XO (XO (XO (XO XH))))))))))) :: ((((Zpos (XI (XI (XI (XI (XO (XO
    XH))))))), (Zpos (XI (XO (XO (XO (XI (XO (XO (XO (XI XH))))))))))), (Zpos
    (XO (XI (XI (XI (XO (XO (XO (XO (XO XH))))))))))) :: ((((Zpos (XI (XI (XI
    (XI (XO (XO XH))))))), (Zpos (XI (XI (XO (XI (XI (XO (XO (XO (XI
    XH))))))))))), (Zpos (XO (XO (XO (XO (XO (XI (XO (XI
    XH)))))))))) :: ((((Zpos (XI (XI (XI (XI (XO (XO XH))))))), (Zpos (XI (XI
    (XO (XO (XO (XI (XO (XO (XI XH))))))))))), (Zpos (XO (XO (XI (XI (XO (XO
    (XI (XI (XO (XI (XI (XI XH)))))))))))))) :: ((((Zpos (XI (XI (XI (XI (XO
    (XO XH))))))), (Zpos (XO (XO (XO (XI (XO (XI (XO (XO (XI XH))))))))))),
    (Zpos (XO (XI (XO (XI (XO (XI (XI (XI XH)))))))))) :: ((((Zpos (XO (XO
    (XO (XO (XI (XO XH))))))), (Zpos (XI (XO (XO (XO (XO (XO (XO (XO (XI
    XH))))))))))), (Zpos (XO (XO (XI (XO (XI (XO (XI (XO (XO (XI (XI (XI
    XH)))))))))))))) :: ((((Zpos (XO (XO (XO (XO (XI (XO XH))))))), (Zpos (XI
    (XI (XI (XO (XO (XO (XO (XO (XI XH))))))))))), (Zpos (XO (XI (XI (XO (XI
    (XO (XI (XO (XO (XI (XI (XI XH)))))))))))))) :: ((((Zpos (XO (XI (XO (XO
    (XI (XO XH))))))), (Zpos (XI (XO (XO (XO (XO (XO (XO (XO (XI
    XH))))))))))), (Zpos (XO (XO (XI (XO (XI (XO (XI (XO
    XH)))))))))) :: ((((Zpos (XO (XI (XO (XO (XI (XO XH))))))), (Zpos (XI (XI
    (XI (XO (XO (XO (XO (XO (XI XH))))))))))), (Zpos (XO (XO (XO (XI (XI (XO
    (XI (XO (XO (XI (XI (XI XH)))))))))))))) :: ((((Zpos (XO (XI (XO (XO (XI
    (XO XH))))))), (Zpos (XO (XO (XI (XI (XO (XO (XO (XO (XI XH))))))))))),
    (Zpos (XO (XO (XO (XI (XI (XO (XI (XO XH)))))))))) :: ((((Zpos (XO (XI
    (XO (XO (XI (XO XH))))))), (Zpos (XI (XI (XI (XI (XO (XO (XO (XO (XI
    XH))))))))))), (Zpos (XO (XO (XO (XO (XI (XO (XO (XO (XO
    XH))))))))))) :: ((((Zpos (XO (XI (XO (XO (XI (XO XH))))))), (Zpos (XI
    (XO (XO (XO (XI (XO (XO (XO (XI XH))))))))))), (Zpos (XO (XI (XO (XO (XI
    (XO (XO (XO (XO XH))))))))))) :: ((((Zpos (XO (XI (XO (XO (XI (XO
    XH))))))), (Zpos (XI (XI (XO (XO (XO (XI (XO (XO (XI XH))))))))))), (Zpos
    (XO (XI (XO (XI (XI (XO (XI (XO (XO (XI (XI (XI
    XH)))))))))))))) :: ((((Zpos (XO (XI (XO (XO (XI (XO XH))))))), (Zpos (XI
    (XI (XI (XO (XO (XI (XO (XO (XI XH))))))))))), (Zpos (XO (XI (XI (XO (XI
    (XO (XI (XO XH)))))))))) :: ((((Zpos (XO (XI (XO (XO (XI (XO XH))))))),
    (Zpos (XI (XO (XO (XO (XI (XI (XO (XO (XI XH))))))))))), (Zpos (XO (XI
    (XI (XI (XI (XO (XI (XO (XO (XI (XI (XI XH)))))))))))))) :: ((((Zpos (XI
    (XI (XO (XO (XI (XO XH))))))), (Zpos (XI (XO (XO (XO (XO (XO (XO (XO (XI
    XH))))))))))), (Zpos (XO (XI (XO (XI (XI (XO (XI (XO
    XH)))))))))) :: ((((Zpos (XI (XI (XO (XO (XI (XO XH))))))), (Zpos (XO (XI
    (XO (XO (XO (XO (XO (XO (XI XH))))))))))), (Zpos (XO (XO (XI (XI (XI (XO
    (XI (XO XH)))))))))) :: ((((Zpos (XI (XI (XO (XO (XI (XO XH))))))), (Zpos
    (XI (XI (XI (XO (XO (XO (XO (XO (XI XH))))))))))), (Zpos (XO (XO (XO (XO
    (XO (XI (XI (XO (XO (XI (XI (XI XH)))))))))))))) :: ((((Zpos (XI (XI (XO
    (XO (XI (XO XH))))))), (Zpos (XO (XO (XI (XI (XO (XO (XO (XO (XI
    XH))))))))))), (Zpos (XO (XO (XO (XO (XO (XI (XI (XO
    XH)))))))))) :: ((((Zpos (XI (XI (XO (XO (XI (XO XH))))))), (Zpos (XI (XI
    (XO (XO (XO (XI (XO (XO (XI XH))))))))))), (Zpos (XO (XI (XO (XO (XO (XI
    (XI (XO (XO (XI (XI (XI XH)))))))))))))) :: ((((Zpos (XI (XI (XO (XO (XI
    (XO XH))))))), (Zpos (XO (XI (XI (XO (XO (XI (XO (XO (XI XH))))))))))),
    (Zpos (XO (XO (XO (XI (XI (XO (XO (XO (XO XH))))))))))) :: ((((Zpos (XI
    (XI (XO (XO (XI (XO XH))))))), (Zpos (XI (XI (XI (XO (XO (XI (XO (XO (XI
    XH))))))))))), (Zpos (XO (XI (XI (XI (XI (XO (XI (XO
    XH)))))))))) :: ((((Zpos (XO (XO (XI (XO (XI (XO XH))))))), (Zpos (XI (XI
    (XI (XO (XO (XO (XO (XO (XI XH))))))))))), (Zpos (XO (XI (XO (XI (XO (XI
    (XI (XO (XO (XI (XI (XI XH)))))))))))))) :: ((((Zpos (XO (XO (XI (XO (XI
    (XO XH))))))), (Zpos (XO (XO (XI (XI (XO (XO (XO (XO (XI XH))))))))))),
    (Zpos (XO (XO (XI (XO (XO (XI (XI (XO XH)))))))))) :: ((((Zpos (XO (XO
    (XI (XO (XI (XO XH))))))), (Zpos (XI (XI (XO (XO (XO (XI (XO (XO (XI
    XH))))))))))), (Zpos (XO (XO (XI (XI (XO (XI (XI (XO (XO (XI (XI (XI
    XH)))))))))))))) :: ((((Zpos (XO (XO (XI (XO (XI (XO XH))))))), (Zpos (XO
    (XI (XI (XO (XO (XI (XO (XO (XI XH))))))))))), (Zpos (XO (XI (XO (XI (XI
    (XO (XO (XO (XO XH))))))))))) :: ((((Zpos (XO (XO (XI (XO (XI (XO
    XH))))))), (Zpos (XI (XI (XI (XO (XO (XI (XO (XO (XI XH))))))))))), (Zpos
    (XO (XI (XO (XO (XO (XI (XI (XO XH)))))))))) :: ((((Zpos (XO (XO (XI (XO
    (XI (XO XH))))))), (Zpos (XI (XO (XI (XI (XO (XI (XO (XO (XI
    XH))))))))))), (Zpos (XO (XO (XO (XO (XI (XI (XI (XO (XO (XI (XI (XI
    XH)))))))))))))) :: ((((Zpos (XO (XO (XI (XO (XI (XO XH))))))), (Zpos (XI
    (XO (XO (XO (XI (XI (XO (XO (XI XH))))))))))), (Zpos (XO (XI (XI (XI (XO
    (XI (XI (XO (XO (XI (XI (XI XH)))))))))))))) :: ((((Zpos (XI (XO (XI (XO
    (XI (XO XH))))))), (Zpos (XO (XO (XO (XO (XO (XO (XO (XO (XI
    XH))))))))))), (Zpos (XI (XO (XO (XI (XI (XO (XI XH))))))))) :: ((((Zpos
    (XI (XO (XI (XO (XI (XO XH))))))), (Zpos (XI (XO (XO (XO (XO (XO (XO (XO
    (XI XH))))))))))), (Zpos (XO (XI (XO (XI (XI (XO (XI
    XH))))))))) :: ((((Zpos (XI (XO (XI (XO (XI (XO XH))))))), (Zpos (XO (XI
    (XO (XO (XO (XO (XO (XO (XI XH))))))))))), (Zpos (XI (XI (XO (XI (XI (XO
    (XI XH))))))))) :: ((((Zpos (XI (XO (XI (XO (XI (XO XH))))))), (Zpos (XI
    (XI (XO (XO (XO (XO (XO (XO (XI XH))))))))))), (Zpos (XO (XO (XO (XI (XO
    (XI (XI (XO XH)))))))))) :: ((((Zpos (XI (XO (XI (XO (XI (XO XH))))))),
    (Zpos (XO (XO (XI (XO (XO (XO (XO (XO (XI XH))))))))))), (Zpos (XO (XI
    (XO (XI (XO (XI (XI (XO XH)))))))))) :: ((((Zpos (XI (XO (XI (XO (XI (XO
    XH))))))), (Zpos (XO (XI (XI (XO (XO (XO (XO (XO (XI XH))))))))))), (Zpos
    (XO (XO (XI (XI (XO (XI (XI (XO XH)))))))))) :: ((((Zpos (XI (XO (XI (XO
    (XI (XO XH))))))), (Zpos (XO (XO (XO (XI (XO (XO (XO (XO (XI
    XH))))))))))), (Zpos (XO (XO (XI (XI (XI (XO (XI XH))))))))) :: ((((Zpos
    (XI (XO (XI (XO (XI (XO XH))))))), (Zpos (XI (XO (XO (XI (XO (XO (XO (XO
    (XI XH))))))))))), (Zpos (XO (XI (XI (XO (XO (XI (XI (XI (XO (XI (XI (XI
    XH)))))))))))))) :: ((((Zpos (XI (XO (XI (XO (XI (XO XH))))))), (Zpos (XO
    (XI (XO (XI (XO (XO (XO (XO (XI XH))))))))))), (Zpos (XO (XI (XI (XI (XO
    (XI (XI (XO XH)))))))))) :: ((((Zpos (XI (XO (XI (XO (XI (XO XH))))))),
    (Zpos (XI (XI (XO (XI (XO (XO (XO (XO (XI XH))))))))))), (Zpos (XO (XO
    (XO (XO (XI (XI (XI (XO XH)))))))))) :: ((((Zpos (XI (XO (XI (XO (XI (XO
    XH))))))), (Zpos (XO (XO (XI (XI (XO (XO (XO (XO (XI XH))))))))))), (Zpos
    (XI (XI (XO (XO (XI (XO (XI (XI XH)))))))))) :: ((((Zpos (XI (XO (XI (XO
    (XI (XO XH))))))), (Zpos (XI (XI (XI (XI (XO (XO (XO (XO (XI
    XH))))))))))), (Zpos (XO (XO (XI (XO (XI (XO (XO (XO (XO
    XH))))))))))) :: ((((Zpos (XI (XO (XI (XO (XI (XO XH))))))), (Zpos (XI
    (XO (XO (XO (XI (XO (XO (XO (XI XH))))))))))), (Zpos (XO (XI (XI (XO (XI
    (XO (XO (XO (XO XH))))))))))) :: ((((Zpos (XI (XO (XI (XO (XI (XO
    XH))))))), (Zpos (XI (XI (XO (XI (XI (XO (XO (XO (XI XH))))))))))), (Zpos
    (XI (XI (XI (XI (XO (XI (XO (XI XH)))))))))) :: ((((Zpos (XI (XO (XI (XO
    (XI (XO XH))))))), (Zpos (XI (XI (XO (XO (XO (XI (XO (XO (XI
    XH))))))))))), (Zpos (XO (XO (XI (XO (XO (XI (XI (XI (XO (XI (XI (XI
    XH)))))))))))))) :: ((((Zpos (XI (XO (XI (XO (XI (XO XH))))))), (Zpos (XO
    (XO (XI (XO (XO (XI (XO (XO (XI XH))))))))))), (Zpos (XO (XI (XO (XO (XI
    (XI (XI (XO (XO (XI (XI (XI XH)))))))))))))) :: ((((Zpos (XI (XO (XI (XO
    (XI (XO XH))))))), (Zpos (XO (XO (XO (XI (XO (XI (XO (XO (XI
    XH))))))))))), (Zpos (XO (XI (XO (XO (XI (XI (XI (XO
    XH)))))))))) :: ((((Zpos (XI (XO (XI (XO (XI (XO XH))))))), (Zpos (XI (XO
    (XI (XI (XO (XI (XO (XO (XI XH))))))))))), (Zpos (XO (XI (XI (XO (XI (XI
    (XI (XO (XO (XI (XI (XI XH)))))))))))))) :: ((((Zpos (XI (XO (XI (XO (XI
    (XO XH))))))), (Zpos (XO (XO (XO (XO (XI (XI (XO (XO (XI XH))))))))))),
    (Zpos (XO (XO (XI (XO (XI (XI (XI (XO (XO (XI (XI (XI
    XH)))))))))))))) :: ((((Zpos (XO (XI (XI (XO (XI (XO XH))))))), (Zpos (XI
    (XI (XO (XO (XO (XO (XO (XO (XI XH))))))))))), (Zpos (XO (XO (XI (XI (XI
    (XI (XI (XO (XO (XI (XI (XI XH)))))))))))))) :: ((((Zpos (XO (XI (XI (XO
    (XI (XO XH))))))), (Zpos (XI (XI (XO (XO (XO (XI (XO (XO (XI
    XH))))))))))), (Zpos (XO (XI (XI (XI (XI (XI (XI (XO (XO (XI (XI (XI
    XH)))))))))))))) :: ((((Zpos (XI (XI (XI (XO (XI (XO XH))))))), (Zpos (XO
    (XO (XO (XO (XO (XO (XO (XO (XI XH))))))))))), (Zpos (XO (XO (XO (XO (XO
    (XO (XO (XI (XO (XI (XI (XI XH)))))))))))))) :: ((((Zpos (XI (XI (XI (XO
    (XI (XO XH))))))), (Zpos (XI (XO (XO (XO (XO (XO (XO (XO (XI
    XH))))))))))), (Zpos (XO (XI (XO (XO (XO (XO (XO (XI (XO (XI (XI (XI
    XH)))))))))))))) :: ((((Zpos (XI (XI (XI (XO (XI (XO XH))))))), (Zpos (XO
    (XI (XO (XO (XO (XO (XO (XO (XI XH))))))))))), (Zpos (XO (XO (XI (XO (XI
    (XI (XI (XO XH)))))))))) :: ((((Zpos (XI (XI (XI (XO (XI (XO XH))))))),
    (Zpos (XI (XI (XI (XO (XO (XO (XO (XO (XI XH))))))))))), (Zpos (XO (XI
    (XI (XO (XO (XO (XO (XI (XO (XI (XI (XI XH)))))))))))))) :: ((((Zpos (XI
    (XI (XI (XO (XI (XO XH))))))), (Zpos (XO (XO (XO (XI (XO (XO (XO (XO (XI
    XH))))))))))), (Zpos (XO (XO (XI (XO (XO (XO (XO (XI (XO (XI (XI (XI
    XH)))))))))))))) :: ((((Zpos (XI (XI (XI (XO (XI (XO XH))))))), (Zpos (XI
    (XI (XO (XO (XO (XI (XO (XO (XI XH))))))))))), (Zpos (XO (XO (XO (XI (XO
    (XO (XO (XI (XO (XI (XI (XI XH)))))))))))))) :: ((((Zpos (XO (XO (XO (XI
    (XI (XO XH))))))), (Zpos (XI (XI (XI (XO (XO (XO (XO (XO (XI
    XH))))))))))), (Zpos (XO (XI (XO (XI (XO (XO (XO (XI (XO (XI (XI (XI
    XH)))))))))))))) :: ((((Zpos (XO (XO (XO (XI (XI (XO XH))))))), (Zpos (XO
    (XO (XO (XI (XO (XO (XO (XO (XI XH))))))))))), (Zpos (XO (XO (XI (XI (XO
    (XO (XO (XI (XO (XI (XI (XI XH)))))))))))))) :: ((((Zpos (XI (XO (XO (XI
    (XI (XO XH))))))), (Zpos (XO (XO (XO (XO (XO (XO (XO (XO (XI
    XH))))))))))), (Zpos (XO (XI (XO (XO (XI (XI (XI (XI (XO (XI (XI (XI
    XH)))))))))))))) :: ((((Zpos (XI (XO (XO (XI (XI (XO XH))))))), (Zpos (XI
    (XO (XO (XO (XO (XO (XO (XO (XI XH))))))))))), (Zpos (XI (XO (XI (XI (XI
    (XO (XI XH))))))))) :: ((((Zpos (XI (XO (XO (XI (XI (XO XH))))))), (Zpos
    (XO (XI (XO (XO (XO (XO (XO (XO (XI XH))))))))))), (Zpos (XO (XI (XI (XO
    (XI (XI (XI (XO XH)))))))))) :: ((((Zpos (XI (XO (XO (XI (XI (XO
    XH))))))), (Zpos (XI (XI (XO (XO (XO (XO (XO (XO (XI XH))))))))))), (Zpos
    (XO (XO (XO (XI (XI (XI (XI (XI (XO (XI (XI (XI
    XH)))))))))))))) :: ((((Zpos (XI (XO (XO (XI (XI (XO XH))))))), (Zpos (XO
    (XO (XI (XO (XO (XO (XO (XO (XI XH))))))))))), (Zpos (XO (XI (XO (XO (XI
    (XI (XO (XO (XO XH))))))))))) :: ((((Zpos (XI (XO (XO (XI (XI (XO
    XH))))))), (Zpos (XI (XI (XI (XO (XO (XO (XO (XO (XI XH))))))))))), (Zpos
    (XO (XI (XI (XI (XO (XO (XO (XI (XO (XI (XI (XI
    XH)))))))))))))) :: ((((Zpos (XI (XO (XO (XI (XI (XO XH))))))), (Zpos (XO
    (XO (XO (XI (XO (XO (XO (XO (XI XH))))))))))), (Zpos (XO (XO (XO (XI (XI
    (XI (XI (XO XH)))))))))) :: ((((Zpos (XI (XO (XO (XI (XI (XO XH))))))),
    (Zpos (XI (XO (XO (XI (XO (XO (XO (XO (XI XH))))))))))), (Zpos (XO (XI
    (XI (XO (XI (XI (XI (XI (XO (XI (XI (XI XH)))))))))))))) :: ((((Zpos (XI
    (XO (XO (XI (XI (XO XH))))))), (Zpos (XI (XI (XO (XO (XO (XI (XO (XO (XI
    XH))))))))))), (Zpos (XO (XO (XI (XO (XI (XI (XI (XI (XO (XI (XI (XI
    XH)))))))))))))) :: ((((Zpos (XO (XI (XO (XI (XI (XO XH))))))), (Zpos (XI
    (XO (XO (XO (XO (XO (XO (XO (XI XH))))))))))), (Zpos (XI (XO (XO (XI (XI
    (XI (XI (XO XH)))))))))) :: ((((Zpos (XO (XI (XO (XI (XI (XO XH))))))),
    (Zpos (XO (XI (XO (XO (XO (XO (XO (XO (XI XH))))))))))), (Zpos (XO (XO
    (XO (XO (XI (XO (XO (XI (XO (XI (XI (XI XH)))))))))))))) :: ((((Zpos (XO
    (XI (XO (XI (XI (XO XH))))))), (Zpos (XI (XI (XI (XO (XO (XO (XO (XO (XI
    XH))))))))))), (Zpos (XI (XI (XO (XI (XI (XI (XI (XO
    XH)))))))))) :: ((((Zpos (XO (XI (XO (XI (XI (XO XH))))))), (Zpos (XO (XO
    (XI (XI (XO (XO (XO (XO (XI XH))))))))))), (Zpos (XI (XO (XI (XI (XI (XI
    (XI (XO XH)))))))))) :: ((((Zpos (XO (XI (XO (XI (XI (XO XH))))))), (Zpos
    (XI (XI (XO (XO (XO (XI (XO (XO (XI XH))))))))))), (Zpos (XO (XI (XO (XO
    (XI (XO (XO (XI (XO (XI (XI (XI XH)))))))))))))) :: ((((Zpos (XO (XI (XO
    (XI (XI (XO XH))))))), (Zpos (XI (XO (XO (XO (XI (XI (XO (XO (XI
    XH))))))))))), (Zpos (XO (XO (XI (XO (XI (XO (XO (XI (XO (XI (XI (XI
    XH)))))))))))))) :: ((((Zpos (XI (XO (XO (XO (XO (XI XH))))))), (Zpos (XO
    (XO (XO (XO (XO (XO (XO (XO (XI XH))))))))))), (Zpos (XO (XO (XO (XO (XO
    (XI (XI XH))))))))) :: ((((Zpos (XI (XO (XO (XO (XO (XI XH))))))), (Zpos
    (XI (XO (XO (XO (XO (XO (XO (XO (XI XH))))))))))), (Zpos (XI (XO (XO (XO
    (XO (XI (XI XH))))))))) :: ((((Zpos (XI (XO (XO (XO (XO (XI XH))))))),
    (Zpos (XO (XI (XO (XO (XO (XO (XO (XO (XI XH))))))))))), (Zpos (XO (XI
    (XO (XO (XO (XI (XI XH))))))))) :: ((((Zpos (XI (XO (XO (XO (XO (XI
    XH))))))), (Zpos (XI (XI (XO (XO (XO (XO (XO (XO (XI XH))))))))))), (Zpos
    (XI (XI (XO (XO (XO (XI (XI XH))))))))) :: ((((Zpos (XI (XO (XO (XO (XO
    (XI XH))))))), (Zpos (XO (XO (XI (XO (XO (XO (XO (XO (XI XH))))))))))),
    (Zpos (XI (XO (XO (XO (XO (XO (XO (XO XH)))))))))) :: ((((Zpos (XI (XO
    (XO (XO (XO (XI XH))))))), (Zpos (XO (XI (XI (XO (XO (XO (XO (XO (XI
    XH))))))))))), (Zpos (XI (XI (XO (XO (XO (XO (XO (XO
    XH)))))))))) :: ((((Zpos (XI (XO (XO (XO (XO (XI XH))))))), (Zpos (XI (XI
    (XI (XO (XO (XO (XO (XO (XI XH))))))))))), (Zpos (XI (XI (XI (XO (XO (XI
    (XO (XO (XO XH))))))))))) :: ((((Zpos (XI (XO (XO (XO (XO (XI XH))))))),
    (Zpos (XO (XO (XO (XI (XO (XO (XO (XO (XI XH))))))))))), (Zpos (XO (XO
    (XI (XO (XO (XI (XI XH))))))))) :: ((((Zpos (XI (XO (XO (XO (XO (XI
    XH))))))), (Zpos (XI (XO (XO (XI (XO (XO (XO (XO (XI XH))))))))))), (Zpos
    (XI (XI (XO (XO (XO (XI (XO (XI (XO (XI (XI (XI
    XH)))))))))))))) :: ((((Zpos (XI (XO (XO (XO (XO (XI XH))))))), (Zpos (XO
    (XI (XO (XI (XO (XO (XO (XO (XI XH))))))))))), (Zpos (XI (XO (XI (XO (XO
    (XI (XI XH))))))))) :: ((((Zpos (XI (XO (XO (XO (XO (XI XH))))))), (Zpos
    (XO (XO (XI (XI (XO (XO (XO (XO (XI XH))))))))))), (Zpos (XO (XI (XI (XI
    (XO (XO (XI (XI XH)))))))))) :: ((((Zpos (XI (XO (XO (XO (XO (XI
    XH))))))), (Zpos (XI (XI (XI (XI (XO (XO (XO (XO (XI XH))))))))))), (Zpos
    (XI (XO (XO (XO (XO (XO (XO (XO (XO XH))))))))))) :: ((((Zpos (XI (XO (XO
    (XO (XO (XI XH))))))), (Zpos (XI (XO (XO (XO (XI (XO (XO (XO (XI
    XH))))))))))), (Zpos (XI (XI (XO (XO (XO (XO (XO (XO (XO
    XH))))))))))) :: ((((Zpos (XI (XO (XO (XO (XO (XI XH))))))), (Zpos (XI
    (XI (XO (XO (XO (XI (XO (XO (XI XH))))))))))), (Zpos (XI (XO (XO (XO (XO
    (XI (XO (XI (XO (XI (XI (XI XH)))))))))))))) :: ((((Zpos (XI (XO (XO (XO
    (XO (XI XH))))))), (Zpos (XI (XO (XI (XO (XO (XI (XO (XO (XI
    XH))))))))))), (Zpos (XI (XO (XO (XO (XO (XO (XO (XO (XO (XI (XI (XI
    XH)))))))))))))) :: ((((Zpos (XI (XO (XO (XO (XO (XI XH))))))), (Zpos (XO
    (XO (XO (XI (XO (XI (XO (XO (XI XH))))))))))), (Zpos (XI (XO (XI (XO (XO
    (XO (XO (XO XH)))))))))) :: ((((Zpos (XO (XI (XO (XO (XO (XI XH))))))),
    (Zpos (XI (XI (XI (XO (XO (XO (XO (XO (XI XH))))))))))), (Zpos (XI (XI
    (XO (XO (XO (XO (XO (XO (XO (XI (XI (XI XH)))))))))))))) :: ((((Zpos (XO
    (XI (XO (XO (XO (XI XH))))))), (Zpos (XI (XI (XO (XO (XO (XI (XO (XO (XI
    XH))))))))))), (Zpos (XI (XO (XI (XO (XO (XO (XO (XO (XO (XI (XI (XI
    XH)))))))))))))) :: ((((Zpos (XO (XI (XO (XO (XO (XI XH))))))), (Zpos (XI
    (XO (XO (XO (XI (XI (XO (XO (XI XH))))))))))), (Zpos (XI (XI (XI (XO (XO
    (XO (XO (XO (XO (XI (XI (XI XH)))))))))))))) :: ((((Zpos (XI (XI (XO (XO
    (XO (XI XH))))))), (Zpos (XI (XO (XO (XO (XO (XO (XO (XO (XI
    XH))))))))))), (Zpos (XI (XI (XI (XO (XO (XO (XO (XO
    XH)))))))))) :: ((((Zpos (XI (XI (XO (XO (XO (XI XH))))))), (Zpos (XO (XI
    (XO (XO (XO (XO (XO (XO (XI XH))))))))))), (Zpos (XI (XO (XO (XI (XO (XO
    (XO (XO XH)))))))))) :: ((((Zpos (XI (XI (XO (XO (XO (XI XH))))))), (Zpos
    (XI (XI (XI (XO (XO (XO (XO (XO (XI XH))))))))))), (Zpos (XI (XI (XO (XI
    (XO (XO (XO (XO XH)))))))))) :: ((((Zpos (XI (XI (XO (XO (XO (XI
    XH))))))), (Zpos (XO (XO (XI (XI (XO (XO (XO (XO (XI XH))))))))))), (Zpos
    (XI (XO (XI (XI (XO (XO (XO (XO XH)))))))))) :: ((((Zpos (XI (XI (XO (XO
    (XO (XI XH))))))), (Zpos (XI (XI (XI (XO (XO (XI (XO (XO (XI
    XH))))))))))), (Zpos (XI (XI (XI (XO (XO (XI (XI XH))))))))) :: ((((Zpos
    (XO (XO (XI (XO (XO (XI XH))))))), (Zpos (XI (XI (XI (XO (XO (XO (XO (XO
    (XI XH))))))))))), (Zpos (XI (XI (XO (XI (XO (XO (XO (XO (XO (XI (XI (XI
    XH)))))))))))))) :: ((((Zpos (XO (XO (XI (XO (XO (XI XH))))))), (Zpos (XO
    (XO (XI (XI (XO (XO (XO (XO (XI XH))))))))))), (Zpos (XI (XI (XI (XI (XO
    (XO (XO (XO XH)))))))))) :: ((((Zpos (XO (XO (XI (XO (XO (XI XH))))))),
    (Zpos (XI (XI (XO (XO (XO (XI (XO (XO (XI XH))))))))))), (Zpos (XI (XO
    (XI (XI (XO (XO (XO (XO (XO (XI (XI (XI XH)))))))))))))) :: ((((Zpos (XO
    (XO (XI (XO (XO (XI XH))))))), (Zpos (XI (XI (XI (XO (XO (XI (XO (XO (XI
    XH))))))))))), (Zpos (XI (XO (XO (XO (XI (XO (XO (XO (XO (XI (XI (XI
    XH)))))))))))))) :: ((((Zpos (XO (XO (XI (XO (XO (XI XH))))))), (Zpos (XI
    (XO (XI (XI (XO (XI (XO (XO (XI XH))))))))))), (Zpos (XI (XI (XO (XO (XI
    (XO (XO (XO (XO (XI (XI (XI XH)))))))))))))) :: ((((Zpos (XO (XO (XI (XO
    (XO (XI XH))))))), (Zpos (XI (XO (XO (XO (XI (XI (XO (XO (XI
    XH))))))))))), (Zpos (XI (XI (XI (XI (XO (XO (XO (XO (XO (XI (XI (XI
    XH)))))))))))))) :: ((((Zpos (XI (XO (XI (XO (XO (XI XH))))))), (Zpos (XO
    (XO (XO (XO (XO (XO (XO (XO (XI XH))))))))))), (Zpos (XO (XO (XO (XI (XO
    (XI (XI XH))))))))) :: ((((Zpos (XI (XO (XI (XO (XO (XI XH))))))), (Zpos
    (XI (XO (XO (XO (XO (XO (XO (XO (XI XH))))))))))), (Zpos (XI (XO (XO (XI
    (XO (XI (XI XH))))))))) :: ((((Zpos (XI (XO (XI (XO (XO (XI XH))))))),
    (Zpos (XO (XI (XO (XO (XO (XO (XO (XO (XI XH))))))))))), (Zpos (XO (XI
    (XO (XI (XO (XI (XI XH))))))))) :: ((((Zpos (XI (XO (XI (XO (XO (XI
    XH))))))), (Zpos (XI (XI (XO (XO (XO (XO (XO (XO (XI XH))))))))))), (Zpos
    (XI (XO (XI (XI (XI (XI (XO (XI (XO (XI (XI (XI
    XH)))))))))))))) :: ((((Zpos (XI (XO (XI (XO (XO (XI XH))))))), (Zpos (XO
    (XO (XI (XO (XO (XO (XO (XO (XI XH))))))))))), (Zpos (XI (XI (XO (XO (XI
    (XO (XO (XO XH)))))))))) :: ((((Zpos (XI (XO (XI (XO (XO (XI XH))))))),
    (Zpos (XO (XI (XI (XO (XO (XO (XO (XO (XI XH))))))))))), (Zpos (XI (XO
    (XI (XO (XI (XO (XO (XO XH)))))))))) :: ((((Zpos (XI (XO (XI (XO (XO (XI
    XH))))))), (Zpos (XI (XI (XI (XO (XO (XO (XO (XO (XI XH))))))))))), (Zpos
    (XI (XI (XI (XO (XI (XO (XO (XO XH)))))))))) :: ((((Zpos (XI (XO (XI (XO
    (XO (XI XH))))))), (Zpos (XO (XO (XO (XI (XO (XO (XO (XO (XI
    XH))))))))))), (Zpos (XI (XI (XO (XI (XO (XI (XI XH))))))))) :: ((((Zpos
    (XI (XO (XI (XO (XO (XI XH))))))), (Zpos (XI (XO (XO (XI (XO (XO (XO (XO
    (XI XH))))))))))), (Zpos (XI (XI (XO (XI (XI (XI (XO (XI (XO (XI (XI (XI
    XH)))))))))))))) :: ((((Zpos (XI (XO (XI (XO (XO (XI XH))))))), (Zpos (XO
    (XO (XI (XI (XO (XO (XO (XO (XI XH))))))))))), (Zpos (XI (XI (XO (XI (XI
    (XO (XO (XO XH)))))))))) :: ((((Zpos (XI (XO (XI (XO (XO (XI XH))))))),
    (Zpos (XI (XI (XI (XI (XO (XO (XO (XO (XI XH))))))))))), (Zpos (XI (XO
    (XI (XO (XO (XO (XO (XO (XO XH))))))))))) :: ((((Zpos (XI (XO (XI (XO (XO
    (XI XH))))))), (Zpos (XI (XO (XO (XO (XI (XO (XO (XO (XI XH))))))))))),
    (Zpos (XI (XI (XI (XO (XO (XO (XO (XO (XO XH))))))))))) :: ((((Zpos (XI
    (XO (XI (XO (XO (XI XH))))))), (Zpos (XI (XI (XO (XO (XO (XI (XO (XO (XI
    XH))))))))))), (Zpos (XI (XO (XO (XI (XI (XI (XO (XI (XO (XI (XI (XI
    XH)))))))))))))) :: ((((Zpos (XI (XO (XI (XO (XO (XI XH))))))), (Zpos (XI
    (XI (XI (XO (XO (XI (XO (XO (XI XH))))))))))), (Zpos (XI (XO (XO (XI (XO
    (XI (XO (XO (XO XH))))))))))) :: ((((Zpos (XI (XO (XI (XO (XO (XI
    XH))))))), (Zpos (XO (XO (XO (XI (XO (XI (XO (XO (XI XH))))))))))), (Zpos
    (XI (XO (XO (XI (XI (XO (XO (XO XH)))))))))) :: ((((Zpos (XI (XO (XI (XO
    (XO (XI XH))))))), (Zpos (XI (XO (XI (XI (XO (XI (XO (XO (XI
    XH))))))))))), (Zpos (XI (XO (XO (XI (XI (XO (XO (XO (XO (XI (XI (XI
    XH)))))))))))))) :: ((((Zpos (XI (XO (XI (XO (XO (XI XH))))))), (Zpos (XO
    (XO (XO (XO (XI (XI (XO (XO (XI XH))))))))))), (Zpos (XI (XI (XO (XI (XI
    (XO (XO (XO (XO (XI (XI (XI XH)))))))))))))) :: ((((Zpos (XO (XI (XI (XO
    (XO (XI XH))))))), (Zpos (XI (XI (XI (XO (XO (XO (XO (XO (XI
    XH))))))))))), (Zpos (XI (XI (XI (XI (XI (XO (XO (XO (XO (XI (XI (XI
    XH)))))))))))))) :: ((((Zpos (XI (XI (XI (XO (XO (XI XH))))))), (Zpos (XI
    (XO (XO (XO (XO (XO (XO (XO (XI XH))))))))))), (Zpos (XI (XO (XI (XO (XI
    (XI (XI (XI XH)))))))))) :: ((((Zpos (XI (XI (XI (XO (XO (XI XH))))))),
    (Zpos (XO (XI (XO (XO (XO (XO (XO (XO (XI XH))))))))))), (Zpos (XI (XO
    (XI (XI (XI (XO (XO (XO XH)))))))))) :: ((((Zpos (XI (XI (XI (XO (XO (XI
    XH))))))), (Zpos (XO (XO (XI (XO (XO (XO (XO (XO (XI XH))))))))))), (Zpos
    (XI (XO (XO (XO (XO (XI (XO (XO (XO (XI (XI (XI
    XH)))))))))))))) :: ((((Zpos (XI (XI (XI (XO (XO (XI XH))))))), (Zpos (XO
    (XI (XI (XO (XO (XO (XO (XO (XI XH))))))))))), (Zpos (XI (XI (XI (XI (XI
    (XO (XO (XO XH)))))))))) :: ((((Zpos (XI (XI (XI (XO (XO (XI XH))))))),
    (Zpos (XI (XI (XI (XO (XO (XO (XO (XO (XI XH))))))))))), (Zpos (XI (XO
    (XO (XO (XO (XI (XO (XO XH)))))))))) :: ((((Zpos (XI (XI (XI (XO (XO (XI
    XH))))))), (Zpos (XO (XO (XI (XI (XO (XO (XO (XO (XI XH))))))))))), (Zpos
    (XI (XI (XI (XO (XO (XI (XI (XI XH)))))))))) :: ((((Zpos (XI (XI (XI (XO
    (XO (XI XH))))))), (Zpos (XI (XI (XI (XO (XO (XI (XO (XO (XI
    XH))))))))))), (Zpos (XI (XI (XO (XO (XO (XI (XO (XO
    XH)))))))))) :: ((((Zpos (XO (XO (XO (XI (XO (XI XH))))))), (Zpos (XO (XI
    (XO (XO (XO (XO (XO (XO (XI XH))))))))))), (Zpos (XI (XO (XI (XO (XO (XI
    (XO (XO XH)))))))))) :: ((((Zpos (XO (XO (XO (XI (XO (XI XH))))))), (Zpos
    (XI (XI (XI (XO (XO (XO (XO (XO (XI XH))))))))))), (Zpos (XI (XI (XO (XO
    (XO (XI (XO (XO (XO (XI (XI (XI XH)))))))))))))) :: ((((Zpos (XO (XO (XO
    (XI (XO (XI XH))))))), (Zpos (XO (XO (XO (XI (XO (XO (XO (XO (XI
    XH))))))))))), (Zpos (XI (XI (XI (XO (XO (XI (XO (XO (XO (XI (XI (XI
    XH)))))))))))))) :: ((((Zpos (XO (XO (XO (XI (XO (XI XH))))))), (Zpos (XO
    (XO (XI (XI (XO (XO (XO (XO (XI XH))))))))))), (Zpos (XI (XI (XI (XI (XI
    (XO (XO (XO (XO XH))))))))))) :: ((((Zpos (XO (XO (XO (XI (XO (XI
    XH))))))), (Zpos (XI (XI (XO (XO (XO (XI (XO (XO (XI XH))))))))))), (Zpos
    (XI (XO (XI (XO (XO (XI (XO (XO (XO (XI (XI (XI
    XH)))))))))))))) :: ((((Zpos (XO (XO (XO (XI (XO (XI XH))))))), (Zpos (XI
    (XI (XI (XO (XO (XI (XO (XO (XI XH))))))))))), (Zpos (XI (XO (XO (XI (XO
    (XI (XO (XO (XO (XI (XI (XI XH)))))))))))))) :: ((((Zpos (XO (XO (XO (XI
    (XO (XI XH))))))), (Zpos (XO (XI (XI (XI (XO (XI (XO (XO (XI
    XH))))))))))), (Zpos (XI (XI (XO (XI (XO (XI (XO (XO (XO (XI (XI (XI
    XH)))))))))))))) :: ((((Zpos (XO (XO (XO (XI (XO (XI XH))))))), (Zpos (XI
    (XO (XO (XO (XI (XI (XO (XO (XI XH))))))))))), (Zpos (XO (XI (XI (XO (XI
    (XO (XO (XI (XO (XI (XI (XI XH)))))))))))))) :: ((((Zpos (XI (XO (XO (XI
    (XO (XI XH))))))), (Zpos (XO (XO (XO (XO (XO (XO (XO (XO (XI
    XH))))))))))), (Zpos (XO (XO (XI (XI (XO (XI (XI XH))))))))) :: ((((Zpos
    (XI (XO (XO (XI (XO (XI XH))))))), (Zpos (XI (XO (XO (XO (XO (XO (XO (XO
    (XI XH))))))))))), (Zpos (XI (XO (XI (XI (XO (XI (XI
    XH))))))))) :: ((((Zpos (XI (XO (XO (XI (XO (XI XH))))))), (Zpos (XO (XI
    (XO (XO (XO (XO (XO (XO (XI XH))))))))))), (Zpos (XO (XI (XI (XI (XO (XI
    (XI XH))))))))) :: ((((Zpos (XI (XO (XO (XI (XO (XI XH))))))), (Zpos (XI
    (XI (XO (XO (XO (XO (XO (XO (XI XH))))))))))), (Zpos (XI (XO (XO (XI (XO
    (XI (XO (XO XH)))))))))) :: ((((Zpos (XI (XO (XO (XI (XO (XI XH))))))),
    (Zpos (XO (XO (XI (XO (XO (XO (XO (XO (XI XH))))))))))), (Zpos (XI (XI
    (XO (XI (XO (XI (XO (XO XH)))))))))) :: ((((Zpos (XI (XO (XO (XI (XO (XI
    XH))))))), (Zpos (XO (XI (XI (XO (XO (XO (XO (XO (XI XH))))))))))), (Zpos
    (XI (XO (XI (XI (XO (XI (XO (XO XH)))))))))) :: ((((Zpos (XI (XO (XO (XI
    (XO (XI XH))))))), (Zpos (XO (XO (XO (XI (XO (XO (XO (XO (XI
    XH))))))))))), (Zpos (XI (XI (XI (XI (XO (XI (XI XH))))))))) :: ((((Zpos
    (XI (XO (XO (XI (XO (XI XH))))))), (Zpos (XI (XO (XO (XI (XO (XO (XO (XO
    (XI XH))))))))))), (Zpos (XI (XO (XO (XI (XO (XO (XI (XI (XO (XI (XI (XI
    XH)))))))))))))) :: ((((Zpos (XI (XO (XO (XI (XO (XI XH))))))), (Zpos (XO
    (XO (XI (XI (XO (XO (XO (XO (XI XH))))))))))), (Zpos (XO (XO (XO (XO (XI
    (XO (XI (XI XH)))))))))) :: ((((Zpos (XI (XO (XO (XI (XO (XI XH))))))),
    (Zpos (XI (XI (XI (XI (XO (XO (XO (XO (XI XH))))))))))), (Zpos (XI (XO
    (XO (XI (XO (XO (XO (XO (XO XH))))))))))) :: ((((Zpos (XI (XO (XO (XI (XO
    (XI XH))))))), (Zpos (XI (XO (XO (XO (XI (XO (XO (XO (XI XH))))))))))),
    (Zpos (XI (XI (XO (XI (XO (XO (XO (XO (XO XH))))))))))) :: ((((Zpos (XI
    (XO (XO (XI (XO (XI XH))))))), (Zpos (XI (XI (XO (XO (XO (XI (XO (XO (XI
    XH))))))))))), (Zpos (XI (XI (XO (XI (XO (XO (XI (XI (XO (XI (XI (XI
    XH)))))))))))))) :: ((((Zpos (XI (XO (XO (XI (XO (XI XH))))))), (Zpos (XO
    (XO (XO (XI (XO (XI (XO (XO (XI XH))))))))))), (Zpos (XI (XI (XI (XI (XO
    (XI (XO (XO XH)))))))))) :: ((((Zpos (XI (XO (XO (XI (XO (XI XH))))))),
    (Zpos (XO (XO (XO (XO (XI (XI (XO (XO (XI XH))))))))))), (Zpos (XI (XO
    (XI (XI (XO (XI (XO (XO (XO (XI (XI (XI XH)))))))))))))) :: ((((Zpos (XO
    (XI (XO (XI (XO (XI XH))))))), (Zpos (XO (XI (XO (XO (XO (XO (XO (XO (XI
    XH))))))))))), (Zpos (XI (XO (XI (XO (XI (XI (XO (XO
    XH)))))))))) :: ((((Zpos (XO (XI (XO (XI (XO (XI XH))))))), (Zpos (XO (XO
    (XI (XI (XO (XO (XO (XO (XI XH))))))))))), (Zpos (XO (XO (XO (XO (XI (XI
    (XI (XI XH)))))))))) :: ((((Zpos (XI (XI (XO (XI (XO (XI XH))))))), (Zpos
    (XI (XO (XO (XO (XO (XO (XO (XO (XI XH))))))))))), (Zpos (XI (XO (XO (XO
    (XI (XI (XO (XO (XO (XI (XI (XI XH)))))))))))))) :: ((((Zpos (XI (XI (XO
    (XI (XO (XI XH))))))), (Zpos (XO (XO (XI (XI (XO (XO (XO (XO (XI
    XH))))))))))), (Zpos (XI (XO (XO (XI (XO (XI (XI (XI
    XH)))))))))) :: ((((Zpos (XI (XI (XO (XI (XO (XI XH))))))), (Zpos (XI (XI
    (XO (XO (XO (XI (XO (XO (XI XH))))))))))), (Zpos (XI (XI (XO (XO (XI (XI
    (XO (XO (XO (XI (XI (XI XH)))))))))))))) :: ((((Zpos (XI (XI (XO (XI (XO
    (XI XH))))))), (Zpos (XI (XI (XI (XO (XO (XI (XO (XO (XI XH))))))))))),
    (Zpos (XI (XI (XI (XO (XI (XI (XO (XO XH)))))))))) :: ((((Zpos (XI (XI
    (XO (XI (XO (XI XH))))))), (Zpos (XI (XO (XO (XO (XI (XI (XO (XO (XI
    XH))))))))))), (Zpos (XI (XO (XI (XO (XI (XI (XO (XO (XO (XI (XI (XI
    XH)))))))))))))) :: ((((Zpos (XO (XO (XI (XI (XO (XI XH))))))), (Zpos (XI
    (XO (XO (XO (XO (XO (XO (XO (XI XH))))))))))), (Zpos (XO (XI (XO (XI (XI
    (XI (XO (XO XH)))))))))) :: ((((Zpos (XO (XO (XI (XI (XO (XI XH))))))),
    (Zpos (XO (XO (XI (XI (XO (XO (XO (XO (XI XH))))))))))), (Zpos (XO (XI
    (XI (XI (XI (XI (XO (XO XH)))))))))) :: ((((Zpos (XO (XO (XI (XI (XO (XI
    XH))))))), (Zpos (XI (XI (XO (XO (XO (XI (XO (XO (XI XH))))))))))), (Zpos
    (XI (XI (XI (XO (XI (XI (XO (XO (XO (XI (XI (XI
    XH)))))))))))))) :: ((((Zpos (XO (XO (XI (XI (XO (XI XH))))))), (Zpos (XI
    (XI (XI (XO (XO (XI (XO (XO (XI XH))))))))))), (Zpos (XO (XO (XI (XI (XI
    (XI (XO (XO XH)))))))))) :: ((((Zpos (XO (XO (XI (XI (XO (XI XH))))))),
    (Zpos (XI (XO (XI (XI (XO (XI (XO (XO (XI XH))))))))))), (Zpos (XI (XO
    (XI (XI (XI (XI (XO (XO (XO (XI (XI (XI XH)))))))))))))) :: ((((Zpos (XO
    (XO (XI (XI (XO (XI XH))))))), (Zpos (XI (XO (XO (XO (XI (XI (XO (XO (XI
    XH))))))))))), (Zpos (XI (XI (XO (XI (XI (XI (XO (XO (XO (XI (XI (XI
    XH)))))))))))))) :: ((((Zpos (XI (XO (XI (XI (XO (XI XH))))))), (Zpos (XI
    (XO (XO (XO (XO (XO (XO (XO (XI XH))))))))))), (Zpos (XI (XI (XI (XI (XI
    (XI (XO (XO (XO (XI (XI (XI XH)))))))))))))) :: ((((Zpos (XI (XO (XI (XI
    (XO (XI XH))))))), (Zpos (XI (XI (XI (XO (XO (XO (XO (XO (XI
    XH))))))))))), (Zpos (XI (XO (XO (XO (XO (XO (XI (XO (XO (XI (XI (XI
    XH)))))))))))))) :: ((((Zpos (XI (XO (XI (XI (XO (XI XH))))))), (Zpos (XI
    (XI (XO (XO (XO (XI (XO (XO (XI XH))))))))))), (Zpos (XI (XI (XO (XO (XO
    (XO (XI (XO (XO (XI (XI (XI XH)))))))))))))) :: ((((Zpos (XO (XI (XI (XI
    (XO (XI XH))))))), (Zpos (XO (XO (XO (XO (XO (XO (XO (XO (XI
    XH))))))))))), (Zpos (XI (XO (XO (XI (XI (XI (XI (XI
    XH)))))))))) :: ((((Zpos (XO (XI (XI (XI (XO (XI XH))))))), (Zpos (XI (XO
    (XO (XO (XO (XO (XO (XO (XI XH))))))))))), (Zpos (XO (XO (XI (XO (XO (XO
    (XI (XO XH)))))))))) :: ((((Zpos (XO (XI (XI (XI (XO (XI XH))))))), (Zpos
    (XI (XI (XO (XO (XO (XO (XO (XO (XI XH))))))))))), (Zpos (XI (XO (XO (XO
    (XI (XI (XI XH))))))))) :: ((((Zpos (XO (XI (XI (XI (XO (XI XH))))))),
    (Zpos (XI (XI (XI (XO (XO (XO (XO (XO (XI XH))))))))))), (Zpos (XI (XO
    (XI (XO (XO (XO (XI (XO (XO (XI (XI (XI XH)))))))))))))) :: ((((Zpos (XO
    (XI (XI (XI (XO (XI XH))))))), (Zpos (XO (XO (XI (XI (XO (XO (XO (XO (XI
    XH))))))))))), (Zpos (XO (XO (XO (XI (XO (XO (XI (XO
    XH)))))))))) :: ((((Zpos (XO (XI (XI (XI (XO (XI XH))))))), (Zpos (XI (XI
    (XO (XO (XO (XI (XO (XO (XI XH))))))))))), (Zpos (XI (XI (XI (XO (XO (XO
    (XI (XO (XO (XI (XI (XI XH)))))))))))))) :: ((((Zpos (XO (XI (XI (XI (XO
    (XI XH))))))), (Zpos (XI (XI (XI (XO (XO (XI (XO (XO (XI XH))))))))))),
    (Zpos (XO (XI (XI (XO (XO (XO (XI (XO XH)))))))))) :: ((((Zpos (XO (XI
    (XI (XI (XO (XI XH))))))), (Zpos (XI (XO (XI (XI (XO (XI (XO (XO (XI
    XH))))))))))), (Zpos (XI (XI (XO (XI (XO (XO (XI (XO (XO (XI (XI (XI
    XH)))))))))))))) :: ((((Zpos (XO (XI (XI (XI (XO (XI XH))))))), (Zpos (XI
    (XO (XO (XO (XI (XI (XO (XO (XI XH))))))))))), (Zpos (XI (XO (XO (XI (XO
    (XO (XI (XO (XO (XI (XI (XI XH)))))))))))))) :: ((((Zpos (XI (XI (XI (XI
    (XO (XI XH))))))), (Zpos (XO (XO (XO (XO (XO (XO (XO (XO (XI
    XH))))))))))), (Zpos (XO (XI (XO (XO (XI (XI (XI XH))))))))) :: ((((Zpos
    (XI (XI (XI (XI (XO (XI XH))))))), (Zpos (XI (XO (XO (XO (XO (XO (XO (XO
    (XI XH))))))))))), (Zpos (XI (XI (XO (XO (XI (XI (XI
    XH))))))))) :: ((((Zpos (XI (XI (XI (XI (XO (XI XH))))))), (Zpos (XO (XI
    (XO (XO (XO (XO (XO (XO (XI XH))))))))))), (Zpos (XO (XO (XI (XO (XI (XI
    (XI XH))))))))) :: ((((Zpos (XI (XI (XI (XI (XO (XI XH))))))), (Zpos (XI
    (XI (XO (XO (XO (XO (XO (XO (XI XH))))))))))), (Zpos (XI (XO (XI (XO (XI
    (XI (XI XH))))))))) :: ((((Zpos (XI (XI (XI (XI (XO (XI XH))))))), (Zpos
    (XO (XO (XI (XO (XO (XO (XO (XO (XI XH))))))))))), (Zpos (XI (XO (XI (XI
    (XO (XO (XI (XO XH)))))))))) :: ((((Zpos (XI (XI (XI (XI (XO (XI
    XH))))))), (Zpos (XO (XI (XI (XO (XO (XO (XO (XO (XI XH))))))))))), (Zpos
    (XI (XI (XI (XI (XO (XO (XI (XO XH)))))))))) :: ((((Zpos (XI (XI (XI (XI
    (XO (XI XH))))))), (Zpos (XI (XI (XI (XO (XO (XO (XO (XO (XI
    XH))))))))))), (Zpos (XI (XI (XI (XI (XO (XI (XO (XO (XO
    XH))))))))))) :: ((((Zpos (XI (XI (XI (XI (XO (XI XH))))))), (Zpos (XO
    (XO (XO (XI (XO (XO (XO (XO (XI XH))))))))))), (Zpos (XO (XI (XI (XO (XI
    (XI (XI XH))))))))) :: ((((Zpos (XI (XI (XI (XI (XO (XI XH))))))), (Zpos
    (XI (XO (XO (XI (XO (XO (XO (XO (XI XH))))))))))), (Zpos (XI (XI (XI (XI
    (XO (XO (XI (XI (XO (XI (XI (XI XH)))))))))))))) :: ((((Zpos (XI (XI (XI
    (XI (XO (XI XH))))))), (Zpos (XI (XI (XO (XI (XO (XO (XO (XO (XI
    XH))))))))))), (Zpos (XI (XO (XO (XO (XI (XO (XI (XO
    XH)))))))))) :: ((((Zpos (XI (XI (XI (XI (XO (XI XH))))))), (Zpos (XO (XO
    (XI (XI (XO (XO (XO (XO (XI XH))))))))))), (Zpos (XO (XI (XO (XO (XI (XO
    (XI (XI XH)))))))))) :: ((((Zpos (XI (XI (XI (XI (XO (XI XH))))))), (Zpos
    (XI (XI (XI (XI (XO (XO (XO (XO (XI XH))))))))))), (Zpos (XI (XO (XI (XI
    (XO (XO (XO (XO (XO XH))))))))))) :: ((((Zpos (XI (XI (XI (XI (XO (XI
    XH))))))), (Zpos (XI (XO (XO (XO (XI (XO (XO (XO (XI XH))))))))))), (Zpos
    (XI (XI (XI (XI (XO (XO (XO (XO (XO XH))))))))))) :: ((((Zpos (XI (XI (XI
    (XI (XO (XI XH))))))), (Zpos (XI (XI (XO (XI (XI (XO (XO (XO (XI
    XH))))))))))), (Zpos (XI (XO (XO (XO (XO (XI (XO (XI
    XH)))))))))) :: ((((Zpos (XI (XI (XI (XI (XO (XI XH))))))), (Zpos (XI (XI
    (XO (XO (XO (XI (XO (XO (XI XH))))))))))), (Zpos (XI (XO (XI (XI (XO (XO
    (XI (XI (XO (XI (XI (XI XH)))))))))))))) :: ((((Zpos (XI (XI (XI (XI (XO
    (XI XH))))))), (Zpos (XO (XO (XO (XI (XO (XI (XO (XO (XI XH))))))))))),
    (Zpos (XI (XI (XO (XI (XO (XI (XI (XI XH)))))))))) :: ((((Zpos (XO (XO
    (XO (XO (XI (XI XH))))))), (Zpos (XI (XO (XO (XO (XO (XO (XO (XO (XI
    XH))))))))))), (Zpos (XI (XO (XI (XO (XI (XO (XI (XO (XO (XI (XI (XI
    XH)))))))))))))) :: ((((Zpos (XO (XO (XO (XO (XI (XI XH))))))), (Zpos (XI
    (XI (XI (XO (XO (XO (XO (XO (XI XH))))))))))), (Zpos (XI (XI (XI (XO (XI
    (XO (XI (XO (XO (XI (XI (XI XH)))))))))))))) :: ((((Zpos (XO (XI (XO (XO
    (XI (XI XH))))))), (Zpos (XI (XO (XO (XO (XO (XO (XO (XO (XI
    XH))))))))))), (Zpos (XI (XO (XI (XO (XI (XO (XI (XO
    XH)))))))))) :: ((((Zpos (XO (XI (XO (XO (XI (XI XH))))))), (Zpos (XI (XI
    (XI (XO (XO (XO (XO (XO (XI XH))))))))))), (Zpos (XI (XO (XO (XI (XI (XO
    (XI (XO (XO (XI (XI (XI XH)))))))))))))) :: ((((Zpos (XO (XI (XO (XO (XI
    (XI XH))))))), (Zpos (XO (XO (XI (XI (XO (XO (XO (XO (XI XH))))))))))),
    (Zpos (XI (XO (XO (XI (XI (XO (XI (XO XH)))))))))) :: ((((Zpos (XO (XI
    (XO (XO (XI (XI XH))))))), (Zpos (XI (XI (XI (XI (XO (XO (XO (XO (XI
    XH))))))))))), (Zpos (XI (XO (XO (XO (XI (XO (XO (XO (XO
    XH))))))))))) :: ((((Zpos (XO (XI (XO (XO (XI (XI XH))))))), (Zpos (XI
    (XO (XO (XO (XI (XO (XO (XO (XI XH))))))))))), (Zpos (XI (XI (XO (XO (XI
    (XO (XO (XO (XO XH))))))))))) :: ((((Zpos (XO (XI (XO (XO (XI (XI
    XH))))))), (Zpos (XI (XI (XO (XO (XO (XI (XO (XO (XI XH))))))))))), (Zpos
    (XI (XI (XO (XI (XI (XO (XI (XO (XO (XI (XI (XI
    XH)))))))))))))) :: ((((Zpos (XO (XI (XO (XO (XI (XI XH))))))), (Zpos (XI
    (XI (XI (XO (XO (XI (XO (XO (XI XH))))))))))), (Zpos (XI (XI (XI (XO (XI
    (XO (XI (XO XH)))))))))) :: ((((Zpos (XO (XI (XO (XO (XI (XI XH))))))),
    (Zpos (XI (XO (XO (XO (XI (XI (XO (XO (XI XH))))))))))), (Zpos (XI (XI
    (XI (XI (XI (XO (XI (XO (XO (XI (XI (XI XH)))))))))))))) :: ((((Zpos (XI
    (XI (XO (XO (XI (XI XH))))))), (Zpos (XI (XO (XO (XO (XO (XO (XO (XO (XI
    XH))))))))))), (Zpos (XI (XI (XO (XI (XI (XO (XI (XO
    XH)))))))))) :: ((((Zpos (XI (XI (XO (XO (XI (XI XH))))))), (Zpos (XO (XI
    (XO (XO (XO (XO (XO (XO (XI XH))))))))))), (Zpos (XI (XO (XI (XI (XI (XO
    (XI (XO XH)))))))))) :: ((((Zpos (XI (XI (XO (XO (XI (XI XH))))))), (Zpos
    (XI (XI (XI (XO (XO (XO (XO (XO (XI XH))))))))))), (Zpos (XI (XO (XO (XO
    (XO (XI (XI (XO (XO (XI (XI (XI XH)))))))))))))) :: ((((Zpos (XI (XI (XO
    (XO (XI (XI XH))))))), (Zpos (XO (XO (XI (XI (XO (XO (XO (XO (XI
    XH))))))))))), (Zpos (XI (XO (XO (XO (XO (XI (XI (XO
    XH)))))))))) :: ((((Zpos (XI (XI (XO (XO (XI (XI XH))))))), (Zpos (XI (XI
    (XO (XO (XO (XI (XO (XO (XI XH))))))))))), (Zpos (XI (XI (XO (XO (XO (XI
    (XI (XO (XO (XI (XI (XI XH)))))))))))))) :: ((((Zpos (XI (XI (XO (XO (XI
    (XI XH))))))), (Zpos (XO (XI (XI (XO (XO (XI (XO (XO (XI XH))))))))))),
    (Zpos (XI (XO (XO (XI (XI (XO (XO (XO (XO XH))))))))))) :: ((((Zpos (XI
    (XI (XO (XO (XI (XI XH))))))), (Zpos (XI (XI (XI (XO (XO (XI (XO (XO (XI
    XH))))))))))), (Zpos (XI (XI (XI (XI (XI (XO (XI (XO
    XH)))))))))) :: ((((Zpos (XO (XO (XI (XO (XI (XI XH))))))), (Zpos (XI (XI
    (XI (XO (XO (XO (XO (XO (XI XH))))))))))), (Zpos (XI (XI (XO (XI (XO (XI
    (XI (XO (XO (XI (XI (XI XH)))))))))))))) :: ((((Zpos (XO (XO (XI (XO (XI
    (XI XH))))))), (Zpos (XO (XO (XO (XI (XO (XO (XO (XO (XI XH))))))))))),
    (Zpos (XI (XI (XI (XO (XI (XO (XO (XI (XO (XI (XI (XI
    XH)))))))))))))) :: ((((Zpos (XO (XO (XI (XO (XI (XI XH))))))), (Zpos (XO
    (XO (XI (XI (XO (XO (XO (XO (XI XH))))))))))), (Zpos (XI (XO (XI (XO (XO
    (XI (XI (XO XH)))))))))) :: ((((Zpos (XO (XO (XI (XO (XI (XI XH))))))),
    (Zpos (XI (XI (XO (XO (XO (XI (XO (XO (XI XH))))))))))), (Zpos (XI (XO
    (XI (XI (XO (XI (XI (XO (XO (XI (XI (XI XH)))))))))))))) :: ((((Zpos (XO
    (XO (XI (XO (XI (XI XH))))))), (Zpos (XO (XI (XI (XO (XO (XI (XO (XO (XI
    XH))))))))))), (Zpos (XI (XI (XO (XI (XI (XO (XO (XO (XO
    XH))))))))))) :: ((((Zpos (XO (XO (XI (XO (XI (XI XH))))))), (Zpos (XI
    (XI (XI (XO (XO (XI (XO (XO (XI XH))))))))))), (Zpos (XI (XI (XO (XO (XO
    (XI (XI (XO XH)))))))))) :: ((((Zpos (XO (XO (XI (XO (XI (XI XH))))))),
    (Zpos (XI (XO (XI (XI (XO (XI (XO (XO (XI XH))))))))))), (Zpos (XI (XO
    (XO (XO (XI (XI (XI (XO (XO (XI (XI (XI XH)))))))))))))) :: ((((Zpos (XO
    (XO (XI (XO (XI (XI XH))))))), (Zpos (XI (XO (XO (XO (XI (XI (XO (XO (XI
    XH))))))))))), (Zpos (XI (XI (XI (XI (XO (XI (XI (XO (XO (XI (XI (XI
    XH)))))))))))))) :: ((((Zpos (XI (XO (XI (XO (XI (XI XH))))))), (Zpos (XO
    (XO (XO (XO (XO (XO (XO (XO (XI XH))))))))))), (Zpos (XI (XO (XO (XI (XI
    (XI (XI XH))))))))) :: ((((Zpos (XI (XO (XI (XO (XI (XI XH))))))), (Zpos
    (XI (XO (XO (XO (XO (XO (XO (XO (XI XH))))))))))), (Zpos (XO (XI (XO (XI
    (XI (XI (XI XH))))))))) :: ((((Zpos (XI (XO (XI (XO (XI (XI XH))))))),
    (Zpos (XO (XI (XO (XO (XO (XO (XO (XO (XI XH))))))))))), (Zpos (XI (XI
    (XO (XI (XI (XI (XI XH))))))))) :: ((((Zpos (XI (XO (XI (XO (XI (XI
    XH))))))), (Zpos (XI (XI (XO (XO (XO (XO (XO (XO (XI XH))))))))))), (Zpos
    (XI (XO (XO (XI (XO (XI (XI (XO XH)))))))))) :: ((((Zpos (XI (XO (XI (XO
    (XI (XI XH))))))), (Zpos (XO (XO (XI (XO (XO (XO (XO (XO (XI
    XH))))))))))), (Zpos (XI (XI (XO (XI (XO (XI (XI (XO
    XH)))))))))) :: ((((Zpos (XI (XO (XI (XO (XI (XI XH))))))), (Zpos (XO (XI
    (XI (XO (XO (XO (XO (XO (XI XH))))))))))), (Zpos (XI (XO (XI (XI (XO (XI
    (XI (XO XH)))))))))) :: ((((Zpos (XI (XO (XI (XO (XI (XI XH))))))), (Zpos
    (XO (XO (XO (XI (XO (XO (XO (XO (XI XH))))))))))), (Zpos (XO (XO (XI (XI
    (XI (XI (XI XH))))))))) :: ((((Zpos (XI (XO (XI (XO (XI (XI XH))))))),
    (Zpos (XI (XO (XO (XI (XO (XO (XO (XO (XI XH))))))))))), (Zpos (XI (XI
    (XI (XO (XO (XI (XI (XI (XO (XI (XI (XI XH)))))))))))))) :: ((((Zpos (XI
    (XO (XI (XO (XI (XI XH))))))), (Zpos (XO (XI (XO (XI (XO (XO (XO (XO (XI
    XH))))))))))), (Zpos (XI (XI (XI (XI (XO (XI (XI (XO
    XH)))))))))) :: ((((Zpos (XI (XO (XI (XO (XI (XI XH))))))), (Zpos (XI (XI
    (XO (XI (XO (XO (XO (XO (XI XH))))))))))), (Zpos (XI (XO (XO (XO (XI (XI
    (XI (XO XH)))))))))) :: ((((Zpos (XI (XO (XI (XO (XI (XI XH))))))), (Zpos
    (XO (XO (XI (XI (XO (XO (XO (XO (XI XH))))))))))), (Zpos (XO (XO (XI (XO
    (XI (XO (XI (XI XH)))))))))) :: ((((Zpos (XI (XO (XI (XO (XI (XI
    XH))))))), (Zpos (XI (XI (XI (XI (XO (XO (XO (XO (XI XH))))))))))), (Zpos
    (XI (XO (XI (XO (XI (XO (XO (XO (XO XH))))))))))) :: ((((Zpos (XI (XO (XI
    (XO (XI (XI XH))))))), (Zpos (XI (XO (XO (XO (XI (XO (XO (XO (XI
    XH))))))))))), (Zpos (XI (XI (XI (XO (XI (XO (XO (XO (XO
    XH))))))))))) :: ((((Zpos (XI (XO (XI (XO (XI (XI XH))))))), (Zpos (XI
    (XI (XO (XI (XI (XO (XO (XO (XI XH))))))))))), (Zpos (XO (XO (XO (XO (XI
    (XI (XO (XI XH)))))))))) :: ((((Zpos (XI (XO (XI (XO (XI (XI XH))))))),
    (Zpos (XI (XI (XO (XO (XO (XI (XO (XO (XI XH))))))))))), (Zpos (XI (XO
    (XI (XO (XO (XI (XI (XI (XO (XI (XI (XI XH)))))))))))))) :: ((((Zpos (XI
    (XO (XI (XO (XI (XI XH))))))), (Zpos (XO (XO (XI (XO (XO (XI (XO (XO (XI
    XH))))))))))), (Zpos (XI (XI (XO (XO (XI (XI (XI (XO (XO (XI (XI (XI
    XH)))))))))))))) :: ((((Zpos (XI (XO (XI (XO (XI (XI XH))))))), (Zpos (XO
    (XO (XO (XI (XO (XI (XO (XO (XI XH))))))))))), (Zpos (XI (XI (XO (XO (XI
    (XI (XI (XO XH)))))))))) :: ((((Zpos (XI (XO (XI (XO (XI (XI XH))))))),
    (Zpos (XI (XO (XI (XI (XO (XI (XO (XO (XI XH))))))))))), (Zpos (XI (XI
    (XI (XO (XI (XI (XI (XO (XO (XI (XI (XI XH)))))))))))))) :: ((((Zpos (XI
    (XO (XI (XO (XI (XI XH))))))), (Zpos (XO (XO (XO (XO (XI (XI (XO (XO (XI
    XH))))))))))), (Zpos (XI (XO (XI (XO (XI (XI (XI (XO (XO (XI (XI (XI
    XH)))))))))))))) :: ((((Zpos (XO (XI (XI (XO (XI (XI XH))))))), (Zpos (XI
    (XI (XO (XO (XO (XO (XO (XO (XI XH))))))))))), (Zpos (XI (XO (XI (XI (XI
    (XI (XI (XO (XO (XI (XI (XI XH)))))))))))))) :: ((((Zpos (XO (XI (XI (XO
    (XI (XI XH))))))), (Zpos (XI (XI (XO (XO (XO (XI (XO (XO (XI
    XH))))))))))), (Zpos (XI (XI (XI (XI (XI (XI (XI (XO (XO (XI (XI (XI
    XH)))))))))))))) :: ((((Zpos (XI (XI (XI (XO (XI (XI XH))))))), (Zpos (XO
    (XO (XO (XO (XO (XO (XO (XO (XI XH))))))))))), (Zpos (XI (XO (XO (XO (XO
    (XO (XO (XI (XO (XI (XI (XI XH)))))))))))))) :: ((((Zpos (XI (XI (XI (XO
    (XI (XI XH))))))), (Zpos (XI (XO (XO (XO (XO (XO (XO (XO (XI
    XH))))))))))), (Zpos (XI (XI (XO (XO (XO (XO (XO (XI (XO (XI (XI (XI
    XH)))))))))))))) :: ((((Zpos (XI (XI (XI (XO (XI (XI XH))))))), (Zpos (XO
    (XI (XO (XO (XO (XO (XO (XO (XI XH))))))))))), (Zpos (XI (XO (XI (XO (XI
    (XI (XI (XO XH)))))))))) :: ((((Zpos (XI (XI (XI (XO (XI (XI XH))))))),
    (Zpos (XI (XI (XI (XO (XO (XO (XO (XO (XI XH))))))))))), (Zpos (XI (XI
    (XI (XO (XO (XO (XO (XI (XO (XI (XI (XI XH)))))))))))))) :: ((((Zpos (XI
    (XI (XI (XO (XI (XI XH))))))), (Zpos (XO (XO (XO (XI (XO (XO (XO (XO (XI
    XH))))))))))), (Zpos (XI (XO (XI (XO (XO (XO (XO (XI (XO (XI (XI (XI
    XH)))))))))))))) :: ((((Zpos (XI (XI (XI (XO (XI (XI XH))))))), (Zpos (XO
    (XI (XO (XI (XO (XO (XO (XO (XI XH))))))))))), (Zpos (XO (XO (XO (XI (XI
    (XO (XO (XI (XO (XI (XI (XI XH)))))))))))))) :: ((((Zpos (XI (XI (XI (XO
    (XI (XI XH))))))), (Zpos (XI (XI (XO (XO (XO (XI (XO (XO (XI
    XH))))))))))), (Zpos (XI (XO (XO (XI (XO (XO (XO (XI (XO (XI (XI (XI
    XH)))))))))))))) :: ((((Zpos (XO (XO (XO (XI (XI (XI XH))))))), (Zpos (XI
    (XI (XI (XO (XO (XO (XO (XO (XI XH))))))))))), (Zpos (XI (XI (XO (XI (XO
    (XO (XO (XI (XO (XI (XI (XI XH)))))))))))))) :: ((((Zpos (XO (XO (XO (XI
    (XI (XI XH))))))), (Zpos (XO (XO (XO (XI (XO (XO (XO (XO (XI
    XH))))))))))), (Zpos (XI (XO (XI (XI (XO (XO (XO (XI (XO (XI (XI (XI
    XH)))))))))))))) :: ((((Zpos (XI (XO (XO (XI (XI (XI XH))))))), (Zpos (XO
    (XO (XO (XO (XO (XO (XO (XO (XI XH))))))))))), (Zpos (XI (XI (XO (XO (XI
    (XI (XI (XI (XO (XI (XI (XI XH)))))))))))))) :: ((((Zpos (XI (XO (XO (XI
    (XI (XI XH))))))), (Zpos (XI (XO (XO (XO (XO (XO (XO (XO (XI
    XH))))))))))), (Zpos (XI (XO (XI (XI (XI (XI (XI XH))))))))) :: ((((Zpos
    (XI (XO (XO (XI (XI (XI XH))))))), (Zpos (XO (XI (XO (XO (XO (XO (XO (XO
    (XI XH))))))))))), (Zpos (XI (XI (XI (XO (XI (XI (XI (XO
    XH)))))))))) :: ((((Zpos (XI (XO (XO (XI (XI (XI XH))))))), (Zpos (XI (XI
    (XO (XO (XO (XO (XO (XO (XI XH))))))))))), (Zpos (XI (XO (XO (XI (XI (XI
    (XI (XI (XO (XI (XI (XI XH)))))))))))))) :: ((((Zpos (XI (XO (XO (XI (XI
    (XI XH))))))), (Zpos (XO (XO (XI (XO (XO (XO (XO (XO (XI XH))))))))))),
    (Zpos (XI (XI (XO (XO (XI (XI (XO (XO (XO XH))))))))))) :: ((((Zpos (XI
    (XO (XO (XI (XI (XI XH))))))), (Zpos (XI (XI (XI (XO (XO (XO (XO (XO (XI
    XH))))))))))), (Zpos (XI (XI (XI (XI (XO (XO (XO (XI (XO (XI (XI (XI
    XH)))))))))))))) :: ((((Zpos (XI (XO (XO (XI (XI (XI XH))))))), (Zpos (XO
    (XO (XO (XI (XO (XO (XO (XO (XI XH))))))))))), (Zpos (XI (XI (XI (XI (XI
    (XI (XI XH))))))))) :: ((((Zpos (XI (XO (XO (XI (XI (XI XH))))))), (Zpos
    (XI (XO (XO (XI (XO (XO (XO (XO (XI XH))))))))))), (Zpos (XI (XI (XI (XO
    (XI (XI (XI (XI (XO (XI (XI (XI XH)))))))))))))) :: ((((Zpos (XI (XO (XO
    (XI (XI (XI XH))))))), (Zpos (XO (XI (XO (XI (XO (XO (XO (XO (XI
    XH))))))))))), (Zpos (XI (XO (XO (XI (XI (XO (XO (XI (XO (XI (XI (XI
    XH)))))))))))))) :: ((((Zpos (XI (XO (XO (XI (XI (XI XH))))))), (Zpos (XI
    (XI (XO (XO (XO (XI (XO (XO (XI XH))))))))))), (Zpos (XI (XO (XI (XO (XI
    (XI (XI (XI (XO (XI (XI (XI XH)))))))))))))) :: ((((Zpos (XO (XI (XO (XI
    (XI (XI XH))))))), (Zpos (XI (XO (XO (XO (XO (XO (XO (XO (XI
    XH))))))))))), (Zpos (XO (XI (XO (XI (XI (XI (XI (XO
    XH)))))))))) :: ((((Zpos (XO (XI (XO (XI (XI (XI XH))))))), (Zpos (XO (XI
    (XO (XO (XO (XO (XO (XO (XI XH))))))))))), (Zpos (XI (XO (XO (XO (XI (XO
    (XO (XI (XO (XI (XI (XI XH)))))))))))))) :: ((((Zpos (XO (XI (XO (XI (XI
    (XI XH))))))), (Zpos (XI (XI (XI (XO (XO (XO (XO (XO (XI XH))))))))))),
    (Zpos (XO (XO (XI (XI (XI (XI (XI (XO XH)))))))))) :: ((((Zpos (XO (XI
    (XO (XI (XI (XI XH))))))), (Zpos (XO (XO (XI (XI (XO (XO (XO (XO (XI
    XH))))))))))), (Zpos (XO (XI (XI (XI (XI (XI (XI (XO
    XH)))))))))) :: ((((Zpos (XO (XI (XO (XI (XI (XI XH))))))), (Zpos (XI (XI
    (XO (XO (XO (XI (XO (XO (XI XH))))))))))), (Zpos (XI (XI (XO (XO (XI (XO
    (XO (XI (XO (XI (XI (XI XH)))))))))))))) :: ((((Zpos (XO (XI (XO (XI (XI
    (XI XH))))))), (Zpos (XI (XO (XO (XO (XI (XI (XO (XO (XI XH))))))))))),
    (Zpos (XI (XO (XI (XO (XI (XO (XO (XI (XO (XI (XI (XI
    XH)))))))))))))) :: ((((Zpos (XO (XO (XO (XI (XO (XI (XO XH)))))))),
    (Zpos (XO (XO (XO (XO (XO (XO (XO (XO (XI XH))))))))))), (Zpos (XI (XO
    (XI (XI (XO (XI (XI (XI (XI (XI (XI (XI XH)))))))))))))) :: ((((Zpos (XO
    (XO (XO (XI (XO (XI (XO XH)))))))), (Zpos (XI (XO (XO (XO (XO (XO (XO (XO
    (XI XH))))))))))), (Zpos (XI (XO (XI (XO (XO (XO (XO (XI (XI
    XH))))))))))) :: ((((Zpos (XO (XO (XO (XI (XO (XI (XO XH)))))))), (Zpos
    (XO (XI (XO (XO (XO (XO (XI (XO (XI XH))))))))))), (Zpos (XI (XO (XO (XO
    (XO (XO (XI (XI (XI (XI (XI (XI XH)))))))))))))) :: ((((Zpos (XO (XI (XO
    (XO (XO (XO (XI XH)))))))), (Zpos (XO (XO (XO (XO (XO (XO (XO (XO (XI
    XH))))))))))), (Zpos (XO (XI (XI (XO (XO (XI (XO (XI (XO (XI (XI (XI
    XH)))))))))))))) :: ((((Zpos (XO (XI (XO (XO (XO (XO (XI XH)))))))),
    (Zpos (XI (XO (XO (XO (XO (XO (XO (XO (XI XH))))))))))), (Zpos (XO (XO
    (XI (XO (XO (XI (XO (XI (XO (XI (XI (XI XH)))))))))))))) :: ((((Zpos (XO
    (XI (XO (XO (XO (XO (XI XH)))))))), (Zpos (XI (XI (XO (XO (XO (XO (XO (XO
    (XI XH))))))))))), (Zpos (XO (XI (XO (XI (XO (XI (XO (XI (XO (XI (XI (XI
    XH)))))))))))))) :: ((((Zpos (XO (XI (XO (XO (XO (XO (XI XH)))))))),
    (Zpos (XI (XO (XO (XI (XO (XO (XO (XO (XI XH))))))))))), (Zpos (XO (XO
    (XO (XI (XO (XI (XO (XI (XO (XI (XI (XI XH)))))))))))))) :: ((((Zpos (XO
    (XO (XI (XO (XO (XO (XI XH)))))))), (Zpos (XO (XO (XI (XO (XO (XO (XO (XO
    (XI XH))))))))))), (Zpos (XO (XI (XI (XI (XI (XO (XI (XI
    XH)))))))))) :: ((((Zpos (XI (XO (XI (XO (XO (XO (XI XH)))))))), (Zpos
    (XI (XO (XO (XO (XO (XO (XO (XO (XI XH))))))))))), (Zpos (XO (XI (XO (XI
    (XI (XI (XI (XI XH)))))))))) :: ((((Zpos (XO (XI (XI (XO (XO (XO (XI
    XH)))))))), (Zpos (XI (XO (XO (XO (XO (XO (XO (XO (XI XH))))))))))),
    (Zpos (XO (XO (XI (XI (XI (XI (XI (XI XH)))))))))) :: ((((Zpos (XO (XI
    (XI (XO (XO (XO (XI XH)))))))), (Zpos (XO (XO (XI (XO (XO (XO (XO (XO (XI
    XH))))))))))), (Zpos (XO (XI (XO (XO (XO (XI (XI (XI
    XH)))))))))) :: ((((Zpos (XI (XI (XI (XO (XO (XO (XI XH)))))))), (Zpos
    (XI (XO (XO (XO (XO (XO (XO (XO (XI XH))))))))))), (Zpos (XO (XO (XO (XI
    (XO (XO (XO (XO (XO (XI (XI (XI XH)))))))))))))) :: ((((Zpos (XO (XI (XO
    (XI (XO (XO (XI XH)))))))), (Zpos (XO (XO (XO (XO (XO (XO (XO (XO (XI
    XH))))))))))), (Zpos (XO (XO (XO (XO (XO (XO (XI (XI (XO (XI (XI (XI
    XH)))))))))))))) :: ((((Zpos (XO (XI (XO (XI (XO (XO (XI XH)))))))),
    (Zpos (XI (XO (XO (XO (XO (XO (XO (XO (XI XH))))))))))), (Zpos (XO (XI
    (XI (XI (XI (XI (XO (XI (XO (XI (XI (XI XH)))))))))))))) :: ((((Zpos (XO
    (XI (XO (XI (XO (XO (XI XH)))))))), (Zpos (XI (XI (XO (XO (XO (XO (XO (XO
    (XI XH))))))))))), (Zpos (XO (XO (XI (XO (XO (XO (XI (XI (XO (XI (XI (XI
    XH)))))))))))))) :: ((((Zpos (XO (XI (XO (XI (XO (XO (XI XH)))))))),
    (Zpos (XI (XO (XO (XI (XO (XO (XO (XO (XI XH))))))))))), (Zpos (XO (XI
    (XO (XO (XO (XO (XI (XI (XO (XI (XI (XI XH)))))))))))))) :: ((((Zpos (XI
    (XI (XI (XI (XO (XO (XI XH)))))))), (Zpos (XI (XO (XO (XO (XO (XO (XO (XO
    (XI XH))))))))))), (Zpos (XO (XI (XI (XI (XO (XI (XO (XO (XO (XI (XI (XI
    XH)))))))))))))) :: ((((Zpos (XO (XO (XI (XO (XI (XO (XI XH)))))))),
    (Zpos (XO (XO (XO (XO (XO (XO (XO (XO (XI XH))))))))))), (Zpos (XO (XI
    (XO (XO (XI (XO (XI (XI (XO (XI (XI (XI XH)))))))))))))) :: ((((Zpos (XO
    (XO (XI (XO (XI (XO (XI XH)))))))), (Zpos (XI (XO (XO (XO (XO (XO (XO (XO
    (XI XH))))))))))), (Zpos (XO (XO (XO (XO (XI (XO (XI (XI (XO (XI (XI (XI
    XH)))))))))))))) :: ((((Zpos (XO (XO (XI (XO (XI (XO (XI XH)))))))),
    (Zpos (XI (XI (XO (XO (XO (XO (XO (XO (XI XH))))))))))), (Zpos (XO (XI
    (XI (XO (XI (XO (XI (XI (XO (XI (XI (XI XH)))))))))))))) :: ((((Zpos (XO
    (XO (XI (XO (XI (XO (XI XH)))))))), (Zpos (XI (XO (XO (XI (XO (XO (XO (XO
    (XI XH))))))))))), (Zpos (XO (XO (XI (XO (XI (XO (XI (XI (XO (XI (XI (XI
    XH)))))))))))))) :: ((((Zpos (XI (XO (XI (XO (XI (XO (XI XH)))))))),
    (Zpos (XI (XO (XO (XO (XO (XO (XO (XO (XI XH))))))))))), (Zpos (XO (XO
    (XI (XI (XO (XO (XI (XO (XO (XI (XI (XI XH)))))))))))))) :: ((((Zpos (XI
    (XO (XI (XO (XI (XO (XI XH)))))))), (Zpos (XO (XO (XI (XO (XO (XO (XO (XO
    (XI XH))))))))))), (Zpos (XO (XO (XI (XI (XO (XI (XO (XO (XO
    XH))))))))))) :: ((((Zpos (XI (XO (XI (XO (XI (XO (XI XH)))))))), (Zpos
    (XO (XO (XO (XI (XO (XO (XO (XO (XI XH))))))))))), (Zpos (XO (XI (XI (XI
    (XO (XO (XI (XO (XO (XI (XI (XI XH)))))))))))))) :: ((((Zpos (XO (XI (XI
    (XO (XI (XO (XI XH)))))))), (Zpos (XO (XO (XI (XO (XO (XO (XO (XO (XI
    XH))))))))))), (Zpos (XO (XI (XO (XI (XO (XI (XO (XO (XO
    XH))))))))))) :: ((((Zpos (XO (XO (XO (XI (XI (XO (XI XH)))))))), (Zpos
    (XI (XO (XO (XO (XO (XO (XO (XO (XI XH))))))))))), (Zpos (XO (XI (XI (XI
    (XI (XI (XI (XI XH)))))))))) :: ((((Zpos (XO (XO (XI (XI (XI (XO (XI
    XH)))))))), (Zpos (XO (XO (XO (XO (XO (XO (XO (XO (XI XH))))))))))),
    (Zpos (XI (XI (XO (XI (XI (XO (XI (XI XH)))))))))) :: ((((Zpos (XO (XO
    (XI (XI (XI (XO (XI XH)))))))), (Zpos (XI (XO (XO (XO (XO (XO (XO (XO (XI
    XH))))))))))), (Zpos (XI (XI (XI (XO (XI (XO (XI (XI
    XH)))))))))) :: ((((Zpos (XO (XO (XI (XI (XI (XO (XI XH)))))))), (Zpos
    (XO (XO (XI (XO (XO (XO (XO (XO (XI XH))))))))))), (Zpos (XI (XO (XI (XO
    (XI (XO (XI (XI XH)))))))))) :: ((((Zpos (XO (XO (XI (XI (XI (XO (XI
    XH)))))))), (Zpos (XO (XO (XI (XI (XO (XO (XO (XO (XI XH))))))))))),
    (Zpos (XI (XO (XO (XI (XI (XO (XI (XI XH)))))))))) :: ((((Zpos (XO (XI
    (XO (XO (XO (XI (XI XH)))))))), (Zpos (XO (XO (XO (XO (XO (XO (XO (XO (XI
    XH))))))))))), (Zpos (XI (XI (XI (XO (XO (XI (XO (XI (XO (XI (XI (XI
    XH)))))))))))))) :: ((((Zpos (XO (XI (XO (XO (XO (XI (XI XH)))))))),
    (Zpos (XI (XO (XO (XO (XO (XO (XO (XO (XI XH))))))))))), (Zpos (XI (XO
    (XI (XO (XO (XI (XO (XI (XO (XI (XI (XI XH)))))))))))))) :: ((((Zpos (XO
    (XI (XO (XO (XO (XI (XI XH)))))))), (Zpos (XI (XI (XO (XO (XO (XO (XO (XO
    (XI XH))))))))))), (Zpos (XI (XI (XO (XI (XO (XI (XO (XI (XO (XI (XI (XI
    XH)))))))))))))) :: ((((Zpos (XO (XI (XO (XO (XO (XI (XI XH)))))))),
    (Zpos (XI (XO (XO (XI (XO (XO (XO (XO (XI XH))))))))))), (Zpos (XI (XO
    (XO (XI (XO (XI (XO (XI (XO (XI (XI (XI XH)))))))))))))) :: ((((Zpos (XO
    (XO (XI (XO (XO (XI (XI XH)))))))), (Zpos (XO (XO (XI (XO (XO (XO (XO (XO
    (XI XH))))))))))), (Zpos (XI (XI (XI (XI (XI (XO (XI (XI
    XH)))))))))) :: ((((Zpos (XI (XO (XI (XO (XO (XI (XI XH)))))))), (Zpos
    (XI (XO (XO (XO (XO (XO (XO (XO (XI XH))))))))))), (Zpos (XI (XI (XO (XI
    (XI (XI (XI (XI XH)))))))))) :: ((((Zpos (XO (XI (XI (XO (XO (XI (XI
    XH)))))))), (Zpos (XI (XO (XO (XO (XO (XO (XO (XO (XI XH))))))))))),
    (Zpos (XI (XO (XI (XI (XI (XI (XI (XI XH)))))))))) :: ((((Zpos (XO (XI
    (XI (XO (XO (XI (XI XH)))))))), (Zpos (XO (XO (XI (XO (XO (XO (XO (XO (XI
    XH))))))))))), (Zpos (XI (XI (XO (XO (XO (XI (XI (XI
    XH)))))))))) :: ((((Zpos (XI (XI (XI (XO (XO (XI (XI XH)))))))), (Zpos
    (XI (XO (XO (XO (XO (XO (XO (XO (XI XH))))))))))), (Zpos (XI (XO (XO (XI
    (XO (XO (XO (XO (XO (XI (XI (XI XH)))))))))))))) :: ((((Zpos (XO (XI (XO
    (XI (XO (XI (XI XH)))))))), (Zpos (XO (XO (XO (XO (XO (XO (XO (XO (XI
    XH))))))))))), (Zpos (XI (XO (XO (XO (XO (XO (XI (XI (XO (XI (XI (XI
    XH)))))))))))))) :: ((((Zpos (XO (XI (XO (XI (XO (XI (XI XH)))))))),
    (Zpos (XI (XO (XO (XO (XO (XO (XO (XO (XI XH))))))))))), (Zpos (XI (XI
    (XI (XI (XI (XI (XO (XI (XO (XI (XI (XI XH)))))))))))))) :: ((((Zpos (XO
    (XI (XO (XI (XO (XI (XI XH)))))))), (Zpos (XI (XI (XO (XO (XO (XO (XO (XO
    (XI XH))))))))))), (Zpos (XI (XO (XI (XO (XO (XO (XI (XI (XO (XI (XI (XI
    XH)))))))))))))) :: ((((Zpos (XO (XI (XO (XI (XO (XI (XI XH)))))))),
    (Zpos (XI (XO (XO (XI (XO (XO (XO (XO (XI XH))))))))))), (Zpos (XI (XI
    (XO (XO (XO (XO (XI (XI (XO (XI (XI (XI XH)))))))))))))) :: ((((Zpos (XI
    (XI (XI (XI (XO (XI (XI XH)))))))), (Zpos (XI (XO (XO (XO (XO (XO (XO (XO
    (XI XH))))))))))), (Zpos (XI (XI (XI (XI (XO (XI (XO (XO (XO (XI (XI (XI
    XH)))))))))))))) :: ((((Zpos (XO (XO (XI (XO (XI (XI (XI XH)))))))),
    (Zpos (XO (XO (XO (XO (XO (XO (XO (XO (XI XH))))))))))), (Zpos (XI (XI
    (XO (XO (XI (XO (XI (XI (XO (XI (XI (XI XH)))))))))))))) :: ((((Zpos (XO
    (XO (XI (XO (XI (XI (XI XH)))))))), (Zpos (XI (XO (XO (XO (XO (XO (XO (XO
    (XI XH))))))))))), (Zpos (XI (XO (XO (XO (XI (XO (XI (XI (XO (XI (XI (XI
    XH)))))))))))))) :: ((((Zpos (XO (XO (XI (XO (XI (XI (XI XH)))))))),
    (Zpos (XI (XI (XO (XO (XO (XO (XO (XO (XI XH))))))))))), (Zpos (XI (XI
    (XI (XO (XI (XO (XI (XI (XO (XI (XI (XI XH)))))))))))))) :: ((((Zpos (XO
    (XO (XI (XO (XI (XI (XI XH)))))))), (Zpos (XI (XO (XO (XI (XO (XO (XO (XO
    (XI XH))))))))))), (Zpos (XI (XO (XI (XO (XI (XO (XI (XI (XO (XI (XI (XI
    XH)))))))))))))) :: ((((Zpos (XI (XO (XI (XO (XI (XI (XI XH)))))))),
    (Zpos (XI (XO (XO (XO (XO (XO (XO (XO (XI XH))))))))))), (Zpos (XI (XO
    (XI (XI (XO (XO (XI (XO (XO (XI (XI (XI XH)))))))))))))) :: ((((Zpos (XI
    (XO (XI (XO (XI (XI (XI XH)))))))), (Zpos (XO (XO (XI (XO (XO (XO (XO (XO
    (XI XH))))))))))), (Zpos (XI (XO (XI (XI (XO (XI (XO (XO (XO
    XH))))))))))) :: ((((Zpos (XI (XO (XI (XO (XI (XI (XI XH)))))))), (Zpos
    (XO (XO (XO (XI (XO (XO (XO (XO (XI XH))))))))))), (Zpos (XI (XI (XI (XI
    (XO (XO (XI (XO (XO (XI (XI (XI XH)))))))))))))) :: ((((Zpos (XO (XI (XI
    (XO (XI (XI (XI XH)))))))), (Zpos (XO (XO (XI (XO (XO (XO (XO (XO (XI
    XH))))))))))), (Zpos (XI (XI (XO (XI (XO (XI (XO (XO (XO
    XH))))))))))) :: ((((Zpos (XO (XO (XO (XI (XI (XI (XI XH)))))))), (Zpos
    (XI (XO (XO (XO (XO (XO (XO (XO (XI XH))))))))))), (Zpos (XI (XI (XI (XI
    (XI (XI (XI (XI XH)))))))))) :: ((((Zpos (XO (XO (XI (XI (XI (XI (XI
    XH)))))))), (Zpos (XO (XO (XO (XO (XO (XO (XO (XO (XI XH))))))))))),
    (Zpos (XO (XO (XI (XI (XI (XO (XI (XI XH)))))))))) :: ((((Zpos (XO (XO
    (XI (XI (XI (XI (XI XH)))))))), (Zpos (XI (XO (XO (XO (XO (XO (XO (XO (XI
    XH))))))))))), (Zpos (XO (XO (XO (XI (XI (XO (XI (XI
    XH)))))))))) :: ((((Zpos (XO (XO (XI (XI (XI (XI (XI XH)))))))), (Zpos
    (XO (XO (XI (XO (XO (XO (XO (XO (XI XH))))))))))), (Zpos (XO (XI (XI (XO
    (XI (XO (XI (XI XH)))))))))) :: ((((Zpos (XO (XO (XI (XI (XI (XI (XI
    XH)))))))), (Zpos (XO (XO (XI (XI (XO (XO (XO (XO (XI XH))))))))))),
    (Zpos (XO (XI (XO (XI (XI (XO (XI (XI XH)))))))))) :: ((((Zpos (XO (XI
    (XO (XO (XO (XO (XO (XO XH))))))))), (Zpos (XO (XO (XO (XO (XO (XO (XO
    (XO (XI XH))))))))))), (Zpos (XO (XO (XO (XO (XI (XI (XO (XI (XO (XI (XI
    (XI XH)))))))))))))) :: ((((Zpos (XO (XI (XO (XO (XO (XO (XO (XO
    XH))))))))), (Zpos (XI (XO (XO (XO (XO (XO (XO (XO (XI XH))))))))))),
    (Zpos (XO (XI (XI (XI (XO (XI (XO (XI (XO (XI (XI (XI
    XH)))))))))))))) :: ((((Zpos (XO (XI (XO (XO (XO (XO (XO (XO XH))))))))),
    (Zpos (XI (XI (XO (XO (XO (XO (XO (XO (XI XH))))))))))), (Zpos (XO (XO
    (XI (XO (XI (XI (XO (XI (XO (XI (XI (XI XH)))))))))))))) :: ((((Zpos (XO
    (XI (XO (XO (XO (XO (XO (XO XH))))))))), (Zpos (XI (XO (XO (XI (XO (XO
    (XO (XO (XI XH))))))))))), (Zpos (XO (XI (XO (XO (XI (XI (XO (XI (XO (XI
    (XI (XI XH)))))))))))))) :: ((((Zpos (XI (XI (XO (XO (XO (XO (XO (XO
    XH))))))))), (Zpos (XO (XO (XO (XO (XO (XO (XO (XO (XI XH))))))))))),
    (Zpos (XI (XO (XO (XO (XI (XI (XO (XI (XO (XI (XI (XI
    XH)))))))))))))) :: ((((Zpos (XI (XI (XO (XO (XO (XO (XO (XO XH))))))))),
    (Zpos (XI (XO (XO (XO (XO (XO (XO (XO (XI XH))))))))))), (Zpos (XI (XI
    (XI (XI (XO (XI (XO (XI (XO (XI (XI (XI XH)))))))))))))) :: ((((Zpos (XI
    (XI (XO (XO (XO (XO (XO (XO XH))))))))), (Zpos (XI (XI (XO (XO (XO (XO
    (XO (XO (XI XH))))))))))), (Zpos (XI (XO (XI (XO (XI (XI (XO (XI (XO (XI
    (XI (XI XH)))))))))))))) :: ((((Zpos (XI (XI (XO (XO (XO (XO (XO (XO
    XH))))))))), (Zpos (XI (XO (XO (XI (XO (XO (XO (XO (XI XH))))))))))),
    (Zpos (XI (XI (XO (XO (XI (XI (XO (XI (XO (XI (XI (XI
    XH)))))))))))))) :: ((((Zpos (XO (XI (XO (XO (XI (XO (XO (XO XH))))))))),
    (Zpos (XO (XO (XO (XO (XO (XO (XO (XO (XI XH))))))))))), (Zpos (XO (XO
    (XI (XO (XI (XO (XO (XO (XO (XI (XI (XI XH)))))))))))))) :: ((((Zpos (XO
    (XI (XO (XO (XI (XO (XO (XO XH))))))))), (Zpos (XI (XO (XO (XO (XO (XO
    (XO (XO (XI XH))))))))))), (Zpos (XO (XI (XI (XO (XI (XO (XO (XO (XO (XI
    (XI (XI XH)))))))))))))) :: ((((Zpos (XI (XI (XO (XO (XI (XO (XO (XO
    XH))))))))), (Zpos (XO (XO (XO (XO (XO (XO (XO (XO (XI XH))))))))))),
    (Zpos (XI (XO (XI (XO (XI (XO (XO (XO (XO (XI (XI (XI
    XH)))))))))))))) :: ((((Zpos (XI (XI (XO (XO (XI (XO (XO (XO XH))))))))),
    (Zpos (XI (XO (XO (XO (XO (XO (XO (XO (XI XH))))))))))), (Zpos (XI (XI
    (XI (XO (XI (XO (XO (XO (XO (XI (XI (XI XH)))))))))))))) :: ((((Zpos (XO
    (XO (XI (XI (XO (XO (XI (XO XH))))))))), (Zpos (XO (XO (XO (XO (XO (XO
    (XO (XO (XI XH))))))))))), (Zpos (XO (XO (XO (XO (XI (XO (XI (XO (XO (XI
    (XI (XI XH)))))))))))))) :: ((((Zpos (XO (XO (XI (XI (XO (XO (XI (XO
    XH))))))))), (Zpos (XI (XO (XO (XO (XO (XO (XO (XO (XI XH))))))))))),
    (Zpos (XO (XI (XO (XO (XI (XO (XI (XO (XO (XI (XI (XI
    XH)))))))))))))) :: ((((Zpos (XI (XO (XI (XI (XO (XO (XI (XO XH))))))))),
    (Zpos (XO (XO (XO (XO (XO (XO (XO (XO (XI XH))))))))))), (Zpos (XI (XO
    (XO (XO (XI (XO (XI (XO (XO (XI (XI (XI XH)))))))))))))) :: ((((Zpos (XI
    (XO (XI (XI (XO (XO (XI (XO XH))))))))), (Zpos (XI (XO (XO (XO (XO (XO
    (XO (XO (XI XH))))))))))), (Zpos (XI (XI (XO (XO (XI (XO (XI (XO (XO (XI
    (XI (XI XH)))))))))))))) :: ((((Zpos (XO (XI (XO (XI (XI (XO (XI (XO
    XH))))))))), (Zpos (XI (XI (XI (XO (XO (XO (XO (XO (XI XH))))))))))),
    (Zpos (XO (XO (XI (XO (XO (XI (XI (XO (XO (XI (XI (XI
    XH)))))))))))))) :: ((((Zpos (XI (XI (XO (XI (XI (XO (XI (XO XH))))))))),
    (Zpos (XI (XI (XI (XO (XO (XO (XO (XO (XI XH))))))))))), (Zpos (XI (XO
    (XI (XO (XO (XI (XI (XO (XO (XI (XI (XI XH)))))))))))))) :: ((((Zpos (XO
    (XO (XO (XO (XO (XI (XI (XO XH))))))))), (Zpos (XI (XI (XI (XO (XO (XO
    (XO (XO (XI XH))))))))))), (Zpos (XO (XI (XI (XO (XO (XI (XI (XO (XO (XI
    (XI (XI XH)))))))))))))) :: ((((Zpos (XI (XO (XO (XO (XO (XI (XI (XO
    XH))))))))), (Zpos (XI (XI (XI (XO (XO (XO (XO (XO (XI XH))))))))))),
    (Zpos (XI (XI (XI (XO (XO (XI (XI (XO (XO (XI (XI (XI
    XH)))))))))))))) :: ((((Zpos (XO (XO (XO (XI (XO (XI (XI (XO XH))))))))),
    (Zpos (XI (XO (XO (XO (XO (XO (XO (XO (XI XH))))))))))), (Zpos (XO (XO
    (XO (XI (XI (XI (XI (XO (XO (XI (XI (XI XH)))))))))))))) :: ((((Zpos (XI
    (XO (XO (XI (XO (XI (XI (XO XH))))))))), (Zpos (XI (XO (XO (XO (XO (XO
    (XO (XO (XI XH))))))))))), (Zpos (XI (XO (XO (XI (XI (XI (XI (XO (XO (XI
    (XI (XI XH)))))))))))))) :: ((((Zpos (XO (XI (XO (XI (XO (XI (XI (XO
    XH))))))))), (Zpos (XO (XO (XO (XI (XO (XO (XO (XO (XI XH))))))))))),
    (Zpos (XO (XI (XO (XI (XI (XI (XI (XO (XO (XI (XI (XI
    XH)))))))))))))) :: ((((Zpos (XI (XI (XO (XI (XO (XI (XI (XO XH))))))))),
    (Zpos (XO (XO (XO (XI (XO (XO (XO (XO (XI XH))))))))))), (Zpos (XI (XI
    (XO (XI (XI (XI (XI (XO (XO (XI (XI (XI XH)))))))))))))) :: ((((Zpos (XI
    (XI (XI (XI (XI (XI (XI (XO XH))))))))), (Zpos (XI (XI (XI (XO (XO (XO
    (XO (XO (XI XH))))))))))), (Zpos (XI (XI (XO (XI (XI (XO (XO (XI (XO (XI
    (XI (XI XH)))))))))))))) :: ((((Zpos (XO (XO (XO (XO (XO (XI (XO (XI
    XH))))))))), (Zpos (XO (XO (XO (XO (XO (XO (XO (XO (XI XH))))))))))),
    (Zpos (XO (XO (XI (XI (XI (XO (XI (XI (XO (XI (XI (XI
    XH)))))))))))))) :: ((((Zpos (XO (XO (XO (XO (XO (XI (XO (XI XH))))))))),
    (Zpos (XI (XO (XO (XO (XO (XO (XO (XO (XI XH))))))))))), (Zpos (XO (XI
    (XO (XI (XI (XO (XI (XI (XO (XI (XI (XI XH)))))))))))))) :: ((((Zpos (XO
    (XO (XO (XO (XO (XI (XO (XI XH))))))))), (Zpos (XI (XI (XO (XO (XO (XO
    (XO (XO (XI XH))))))))))), (Zpos (XO (XO (XO (XO (XO (XI (XI (XI (XO (XI
    (XI (XI XH)))))))))))))) :: ((((Zpos (XO (XO (XO (XO (XO (XI (XO (XI
    XH))))))))), (Zpos (XI (XO (XO (XI (XO (XO (XO (XO (XI XH))))))))))),
    (Zpos (XO (XI (XI (XI (XI (XO (XI (XI (XO (XI (XI (XI
    XH)))))))))))))) :: ((((Zpos (XO (XO (XO (XO (XO (XI (XO (XI XH))))))))),
    (Zpos (XI (XI (XO (XO (XO (XI (XO (XO (XI XH))))))))))), (Zpos (XO (XI
    (XO (XO (XO (XI (XI (XI (XO (XI (XI (XI XH)))))))))))))) :: ((((Zpos (XI
    (XO (XO (XO (XO (XI (XO (XI XH))))))))), (Zpos (XO (XO (XO (XO (XO (XO
    (XO (XO (XI XH))))))))))), (Zpos (XI (XO (XI (XI (XI (XO (XI (XI (XO (XI
    (XI (XI XH)))))))))))))) :: ((((Zpos (XI (XO (XO (XO (XO (XI (XO (XI
    XH))))))))), (Zpos (XI (XO (XO (XO (XO (XO (XO (XO (XI XH))))))))))),
    (Zpos (XI (XI (XO (XI (XI (XO (XI (XI (XO (XI (XI (XI
    XH)))))))))))))) :: ((((Zpos (XI (XO (XO (XO (XO (XI (XO (XI XH))))))))),
    (Zpos (XI (XI (XO (XO (XO (XO (XO (XO (XI XH))))))))))), (Zpos (XI (XO
    (XO (XO (XO (XI (XI (XI (XO (XI (XI (XI XH)))))))))))))) :: ((((Zpos (XI
    (XO (XO (XO (XO (XI (XO (XI XH))))))))), (Zpos (XI (XO (XO (XI (XO (XO
    (XO (XO (XI XH))))))))))), (Zpos (XI (XI (XI (XI (XI (XO (XI (XI (XO (XI
    (XI (XI XH)))))))))))))) :: ((((Zpos (XI (XO (XO (XO (XO (XI (XO (XI
    XH))))))))), (Zpos (XI (XI (XO (XO (XO (XI (XO (XO (XI XH))))))))))),
    (Zpos (XI (XI (XO (XO (XO (XI (XI (XI (XO (XI (XI (XI
    XH)))))))))))))) :: ((((Zpos (XI (XI (XI (XI (XO (XI (XO (XI XH))))))))),
    (Zpos (XO (XO (XO (XO (XO (XO (XO (XO (XI XH))))))))))), (Zpos (XO (XI
    (XO (XI (XO (XI (XI (XI (XO (XI (XI (XI XH)))))))))))))) :: ((((Zpos (XI
    (XI (XI (XI (XO (XI (XO (XI XH))))))))), (Zpos (XI (XO (XO (XO (XO (XO
    (XO (XO (XI XH))))))))))), (Zpos (XO (XO (XO (XI (XO (XI (XI (XI (XO (XI
    (XI (XI XH)))))))))))))) :: ((((Zpos (XI (XI (XI (XI (XO (XI (XO (XI
    XH))))))))), (Zpos (XI (XI (XO (XO (XO (XO (XO (XO (XI XH))))))))))),
    (Zpos (XO (XI (XI (XI (XO (XI (XI (XI (XO (XI (XI (XI
    XH)))))))))))))) :: ((((Zpos (XI (XI (XI (XI (XO (XI (XO (XI XH))))))))),
    (Zpos (XI (XO (XO (XI (XO (XO (XO (XO (XI XH))))))))))), (Zpos (XO (XO
    (XI (XI (XO (XI (XI (XI (XO (XI (XI (XI XH)))))))))))))) :: ((((Zpos (XI
    (XI (XI (XI (XO (XI (XO (XI XH))))))))), (Zpos (XI (XI (XO (XO (XO (XI
    (XO (XO (XI XH))))))))))), (Zpos (XO (XO (XO (XO (XI (XI (XI (XI (XO (XI
    (XI (XI XH)))))))))))))) :: ((((Zpos (XO (XO (XO (XO (XI (XI (XO (XI
    XH))))))))), (Zpos (XO (XO (XO (XO (XO (XO (XO (XO (XI XH))))))))))),
    (Zpos (XI (XI (XO (XI (XO (XI (XI (XI (XO (XI (XI (XI
    XH)))))))))))))) :: ((((Zpos (XO (XO (XO (XO (XI (XI (XO (XI XH))))))))),
    (Zpos (XI (XO (XO (XO (XO (XO (XO (XO (XI XH))))))))))), (Zpos (XI (XO
    (XO (XI (XO (XI (XI (XI (XO (XI (XI (XI XH)))))))))))))) :: ((((Zpos (XO
    (XO (XO (XO (XI (XI (XO (XI XH))))))))), (Zpos (XI (XI (XO (XO (XO (XO
    (XO (XO (XI XH))))))))))), (Zpos (XI (XI (XI (XI (XO (XI (XI (XI (XO (XI
    (XI (XI XH)))))))))))))) :: ((((Zpos (XO (XO (XO (XO (XI (XI (XO (XI
    XH))))))))), (Zpos (XI (XO (XO (XI (XO (XO (XO (XO (XI XH))))))))))),
    (Zpos (XI (XO (XI (XI (XO (XI (XI (XI (XO (XI (XI (XI
    XH)))))))))))))) :: ((((Zpos (XO (XO (XO (XO (XI (XI (XO (XI XH))))))))),
    (Zpos (XI (XI (XO (XO (XO (XI (XO (XO (XI XH))))))))))), (Zpos (XI (XO
    (XO (XO (XI (XI (XI (XI (XO (XI (XI (XI XH)))))))))))))) :: ((((Zpos (XI
    (XI (XI (XO (XI (XI (XO (XI XH))))))))), (Zpos (XO (XO (XI (XI (XO (XO
    (XO (XO (XI XH))))))))))), (Zpos (XO (XI (XI (XI (XO (XI (XI (XI
    XH)))))))))) :: ((((Zpos (XO (XI (XO (XI (XO (XI (XI (XI XH))))))))),
    (Zpos (XO (XO (XI (XO (XO (XO (XO (XO (XI XH))))))))))), (Zpos (XO (XO
    (XI (XI (XO (XI (XI (XI XH)))))))))) :: ((((Zpos (XI (XI (XO (XI (XO (XI
    (XI (XI XH))))))))), (Zpos (XO (XO (XI (XO (XO (XO (XO (XO (XI
    XH))))))))))), (Zpos (XI (XO (XI (XI (XO (XI (XI (XI
    XH)))))))))) :: ((((Zpos (XO (XI (XI (XO (XO (XI (XO (XO (XO
    XH)))))))))), (Zpos (XO (XO (XI (XO (XO (XO (XO (XO (XI XH))))))))))),
    (Zpos (XO (XO (XO (XO (XO (XI (XI (XI XH)))))))))) :: ((((Zpos (XI (XI
    (XI (XO (XO (XI (XO (XO (XO XH)))))))))), (Zpos (XO (XO (XI (XO (XO (XO
    (XO (XO (XI XH))))))))))), (Zpos (XI (XO (XO (XO (XO (XI (XI (XI
    XH)))))))))) :: ((((Zpos (XO (XO (XO (XI (XO (XI (XO (XO (XO
    XH)))))))))), (Zpos (XO (XI (XI (XO (XO (XO (XO (XO (XI XH))))))))))),
    (Zpos (XO (XO (XI (XI (XI (XO (XO (XO (XO (XI (XI (XI
    XH)))))))))))))) :: ((((Zpos (XI (XO (XO (XI (XO (XI (XO (XO (XO
    XH)))))))))), (Zpos (XO (XI (XI (XO (XO (XO (XO (XO (XI XH))))))))))),
    (Zpos (XI (XO (XI (XI (XI (XO (XO (XO (XO (XI (XI (XI
    XH)))))))))))))) :: ((((Zpos (XO (XI (XI (XI (XO (XI (XO (XO (XO
    XH)))))))))), (Zpos (XO (XO (XI (XO (XO (XO (XO (XO (XI XH))))))))))),
    (Zpos (XO (XO (XO (XO (XI (XI (XO (XO (XO XH))))))))))) :: ((((Zpos (XI
    (XI (XI (XI (XO (XI (XO (XO (XO XH)))))))))), (Zpos (XO (XO (XI (XO (XO
    (XO (XO (XO (XI XH))))))))))), (Zpos (XI (XO (XO (XO (XI (XI (XO (XO (XO
    XH))))))))))) :: ((((Zpos (XO (XI (XO (XO (XI (XO (XO (XI (XO
    XH)))))))))), (Zpos (XO (XO (XI (XI (XO (XO (XO (XO (XI XH))))))))))),
    (Zpos (XI (XI (XI (XI (XO (XI (XI (XI XH)))))))))) :: ((((Zpos (XI (XO
    (XO (XO (XI (XO (XO (XI (XI XH)))))))))), (Zpos (XO (XO (XO (XO (XO (XO
    (XO (XO (XI XH))))))))))), (Zpos (XO (XI (XO (XI (XI (XI (XO (XI (XI (XI
    (XI (XI XH)))))))))))))) :: ((((Zpos (XI (XO (XO (XO (XI (XO (XO (XI (XI
    XH)))))))))), (Zpos (XI (XO (XO (XO (XO (XO (XO (XO (XI XH))))))))))),
    (Zpos (XO (XI (XI (XO (XO (XO (XO (XI (XI XH))))))))))) :: ((((Zpos (XI
    (XO (XO (XO (XI (XO (XO (XI (XI XH)))))))))), (Zpos (XO (XO (XI (XO (XO
    (XO (XO (XO (XI XH))))))))))), (Zpos (XI (XO (XO (XI (XI (XI (XO (XI (XI
    (XI (XI (XI XH)))))))))))))) :: ((((Zpos (XI (XO (XO (XO (XI (XO (XO (XI
    (XI XH)))))))))), (Zpos (XO (XI (XI (XO (XO (XO (XO (XO (XI
    XH))))))))))), (Zpos (XO (XO (XO (XI (XI (XI (XO (XI (XI (XI (XI (XI
    XH)))))))))))))) :: ((((Zpos (XI (XO (XO (XO (XI (XO (XO (XI (XI
    XH)))))))))), (Zpos (XI (XI (XO (XO (XI (XO (XO (XO (XI XH))))))))))),
    (Zpos (XO (XO (XO (XI (XO (XO (XO (XO (XI (XI (XI (XI
    XH)))))))))))))) :: ((((Zpos (XI (XO (XO (XO (XI (XO (XO (XI (XI
    XH)))))))))), (Zpos (XO (XO (XI (XO (XI (XO (XO (XO (XI XH))))))))))),
    (Zpos (XI (XO (XO (XI (XO (XO (XO (XO (XI (XI (XI (XI
    XH)))))))))))))) :: ((((Zpos (XI (XO (XO (XO (XI (XO (XO (XI (XI
    XH)))))))))), (Zpos (XI (XO (XI (XO (XO (XO (XI (XO (XI XH))))))))))),
    (Zpos (XO (XO (XI (XI (XI (XI (XO (XI (XI (XI (XI (XI
    XH)))))))))))))) :: ((((Zpos (XI (XO (XI (XO (XI (XO (XO (XI (XI
    XH)))))))))), (Zpos (XO (XO (XO (XO (XO (XO (XO (XO (XI XH))))))))))),
    (Zpos (XO (XO (XO (XI (XO (XO (XI (XI (XI (XI (XI (XI
    XH)))))))))))))) :: ((((Zpos (XI (XO (XI (XO (XI (XO (XO (XI (XI
    XH)))))))))), (Zpos (XI (XO (XO (XO (XO (XO (XO (XO (XI XH))))))))))),
    (Zpos (XO (XO (XO (XI (XO (XO (XO (XI (XI XH))))))))))) :: ((((Zpos (XI
    (XO (XI (XO (XI (XO (XO (XI (XI XH)))))))))), (Zpos (XI (XI (XO (XO (XI
    (XO (XO (XO (XI XH))))))))))), (Zpos (XO (XO (XO (XI (XI (XO (XO (XO (XI
    (XI (XI (XI XH)))))))))))))) :: ((((Zpos (XI (XO (XI (XO (XI (XO (XO (XI
    (XI XH)))))))))), (Zpos (XO (XO (XI (XO (XI (XO (XO (XO (XI
    XH))))))))))), (Zpos (XI (XO (XO (XI (XI (XO (XO (XO (XI (XI (XI (XI
    XH)))))))))))))) :: ((((Zpos (XI (XI (XI (XO (XI (XO (XO (XI (XI
    XH)))))))))), (Zpos (XO (XO (XO (XO (XO (XO (XO (XO (XI XH))))))))))),
    (Zpos (XO (XI (XO (XI (XO (XO (XI (XI (XI (XI (XI (XI
    XH)))))))))))))) :: ((((Zpos (XI (XI (XI (XO (XI (XO (XO (XI (XI
    XH)))))))))), (Zpos (XI (XO (XO (XO (XO (XO (XO (XO (XI XH))))))))))),
    (Zpos (XI (XO (XO (XI (XO (XO (XO (XI (XI XH))))))))))) :: ((((Zpos (XI
    (XI (XI (XO (XI (XO (XO (XI (XI XH)))))))))), (Zpos (XI (XI (XO (XO (XI
    (XO (XO (XO (XI XH))))))))))), (Zpos (XO (XO (XO (XI (XO (XI (XO (XO (XI
    (XI (XI (XI XH)))))))))))))) :: ((((Zpos (XI (XI (XI (XO (XI (XO (XO (XI
    (XI XH)))))))))), (Zpos (XO (XO (XI (XO (XI (XO (XO (XO (XI
    XH))))))))))), (Zpos (XI (XO (XO (XI (XO (XI (XO (XO (XI (XI (XI (XI
    XH)))))))))))))) :: ((((Zpos (XI (XI (XI (XO (XI (XO (XO (XI (XI
    XH)))))))))), (Zpos (XI (XO (XI (XO (XO (XO (XI (XO (XI XH))))))))))),
    (Zpos (XO (XO (XI (XI (XO (XO (XI (XI (XI (XI (XI (XI
    XH)))))))))))))) :: ((((Zpos (XI (XO (XO (XI (XI (XO (XO (XI (XI
    XH)))))))))), (Zpos (XO (XO (XO (XO (XO (XO (XO (XO (XI XH))))))))))),
    (Zpos (XO (XI (XO (XI (XI (XO (XI (XI (XI (XI (XI (XI
    XH)))))))))))))) :: ((((Zpos (XI (XO (XO (XI (XI (XO (XO (XI (XI
    XH)))))))))), (Zpos (XI (XO (XO (XO (XO (XO (XO (XO (XI XH))))))))))),
    (Zpos (XO (XI (XO (XI (XO (XO (XO (XI (XI XH))))))))))) :: ((((Zpos (XI
    (XO (XO (XI (XI (XO (XO (XI (XI XH)))))))))), (Zpos (XO (XO (XI (XO (XO
    (XO (XO (XO (XI XH))))))))))), (Zpos (XI (XO (XO (XI (XI (XO (XI (XI (XI
    (XI (XI (XI XH)))))))))))))) :: ((((Zpos (XI (XO (XO (XI (XI (XO (XO (XI
    (XI XH)))))))))), (Zpos (XO (XI (XI (XO (XO (XO (XO (XO (XI
    XH))))))))))), (Zpos (XO (XO (XO (XI (XI (XO (XI (XI (XI (XI (XI (XI
    XH)))))))))))))) :: ((((Zpos (XI (XO (XO (XI (XI (XO (XO (XI (XI
    XH)))))))))), (Zpos (XO (XO (XO (XI (XO (XO (XO (XO (XI XH))))))))))),
    (Zpos (XO (XI (XO (XI (XO (XI (XO (XI (XI XH))))))))))) :: ((((Zpos (XI
    (XO (XO (XI (XI (XO (XO (XI (XI XH)))))))))), (Zpos (XI (XI (XO (XO (XI
    (XO (XO (XO (XI XH))))))))))), (Zpos (XO (XO (XO (XI (XI (XI (XO (XO (XI
    (XI (XI (XI XH)))))))))))))) :: ((((Zpos (XI (XO (XO (XI (XI (XO (XO (XI
    (XI XH)))))))))), (Zpos (XO (XO (XI (XO (XI (XO (XO (XO (XI
    XH))))))))))), (Zpos (XI (XO (XO (XI (XI (XI (XO (XO (XI (XI (XI (XI
    XH)))))))))))))) :: ((((Zpos (XI (XI (XI (XI (XI (XO (XO (XI (XI
    XH)))))))))), (Zpos (XO (XO (XO (XO (XO (XO (XO (XO (XI XH))))))))))),
    (Zpos (XO (XO (XO (XI (XI (XI (XI (XI (XI (XI (XI (XI
    XH)))))))))))))) :: ((((Zpos (XI (XI (XI (XI (XI (XO (XO (XI (XI
    XH)))))))))), (Zpos (XI (XO (XO (XO (XO (XO (XO (XO (XI XH))))))))))),
    (Zpos (XO (XO (XI (XI (XO (XO (XO (XI (XI XH))))))))))) :: ((((Zpos (XI
    (XI (XI (XI (XI (XO (XO (XI (XI XH)))))))))), (Zpos (XI (XI (XO (XO (XI
    (XO (XO (XO (XI XH))))))))))), (Zpos (XO (XO (XO (XI (XO (XO (XI (XO (XI
    (XI (XI (XI XH)))))))))))))) :: ((((Zpos (XI (XI (XI (XI (XI (XO (XO (XI
    (XI XH)))))))))), (Zpos (XO (XO (XI (XO (XI (XO (XO (XO (XI
    XH))))))))))), (Zpos (XI (XO (XO (XI (XO (XO (XI (XO (XI (XI (XI (XI
    XH)))))))))))))) :: ((((Zpos (XI (XO (XO (XO (XO (XI (XO (XI (XI
    XH)))))))))), (Zpos (XO (XO (XI (XO (XI (XO (XO (XO (XI XH))))))))))),
    (Zpos (XO (XO (XI (XI (XO (XI (XI (XI (XI (XI (XI (XI
    XH)))))))))))))) :: ((((Zpos (XI (XO (XI (XO (XO (XI (XO (XI (XI
    XH)))))))))), (Zpos (XO (XO (XO (XO (XO (XO (XO (XO (XI XH))))))))))),
    (Zpos (XO (XI (XO (XI (XO (XI (XI (XI (XI (XI (XI (XI
    XH)))))))))))))) :: ((((Zpos (XI (XO (XI (XO (XO (XI (XO (XI (XI
    XH)))))))))), (Zpos (XI (XO (XO (XO (XO (XO (XO (XO (XI XH))))))))))),
    (Zpos (XO (XI (XI (XI (XO (XO (XO (XI (XI XH))))))))))) :: ((((Zpos (XI
    (XO (XI (XO (XO (XI (XO (XI (XI XH)))))))))), (Zpos (XO (XO (XI (XO (XO
    (XO (XO (XO (XI XH))))))))))), (Zpos (XI (XO (XO (XI (XO (XI (XI (XI (XI
    (XI (XI (XI XH)))))))))))))) :: ((((Zpos (XI (XO (XI (XO (XO (XI (XO (XI
    (XI XH)))))))))), (Zpos (XO (XI (XI (XO (XO (XO (XO (XO (XI
    XH))))))))))), (Zpos (XO (XO (XO (XI (XO (XI (XI (XI (XI (XI (XI (XI
    XH)))))))))))))) :: ((((Zpos (XI (XO (XI (XO (XO (XI (XO (XI (XI
    XH)))))))))), (Zpos (XO (XO (XO (XI (XO (XO (XO (XO (XI XH))))))))))),
    (Zpos (XI (XI (XO (XI (XO (XI (XO (XI (XI XH))))))))))) :: ((((Zpos (XI
    (XO (XI (XO (XO (XI (XO (XI (XI XH)))))))))), (Zpos (XO (XO (XI (XO (XI
    (XO (XO (XO (XI XH))))))))))), (Zpos (XI (XO (XO (XI (XI (XO (XI (XO (XI
    (XI (XI (XI XH)))))))))))))) :: ((((Zpos (XI (XO (XO (XI (XO (XI (XO (XI
    (XI XH)))))))))), (Zpos (XO (XO (XO (XO (XO (XO (XO (XO (XI
    XH))))))))))), (Zpos (XO (XI (XO (XI (XI (XI (XI (XI (XI (XI (XI (XI
    XH)))))))))))))) :: ((((Zpos (XI (XO (XO (XI (XO (XI (XO (XI (XI
    XH)))))))))), (Zpos (XI (XO (XO (XO (XO (XO (XO (XO (XI XH))))))))))),
    (Zpos (XI (XI (XI (XI (XO (XO (XO (XI (XI XH))))))))))) :: ((((Zpos (XI
    (XO (XO (XI (XO (XI (XO (XI (XI XH)))))))))), (Zpos (XI (XI (XO (XO (XI
    (XO (XO (XO (XI XH))))))))))), (Zpos (XO (XO (XO (XI (XO (XI (XI (XO (XI
    (XI (XI (XI XH)))))))))))))) :: ((((Zpos (XI (XO (XO (XI (XO (XI (XO (XI
    (XI XH)))))))))), (Zpos (XO (XO (XI (XO (XI (XO (XO (XO (XI
    XH))))))))))), (Zpos (XI (XO (XO (XI (XO (XI (XI (XO (XI (XI (XI (XI
    XH)))))))))))))) :: ((((Zpos (XI (XO (XO (XI (XO (XI (XO (XI (XI
    XH)))))))))), (Zpos (XI (XO (XI (XO (XO (XO (XI (XO (XI XH))))))))))),
    (Zpos (XO (XO (XI (XI (XI (XI (XI (XI (XI (XI (XI (XI
    XH)))))))))))))) :: ((((Zpos (XO (XO (XI (XI (XO (XI (XO (XI (XI
    XH)))))))))), (Zpos (XI (XO (XI (XO (XO (XO (XI (XO (XI XH))))))))))),
    (Zpos (XO (XO (XI (XO (XI (XI (XO (XI (XI (XI (XI (XI
    XH)))))))))))))) :: ((((Zpos (XO (XI (XI (XI (XO (XI (XO (XI (XI
    XH)))))))))), (Zpos (XI (XO (XI (XO (XO (XO (XI (XO (XI XH))))))))))),
    (Zpos (XO (XO (XI (XO (XO (XO (XI (XI (XI (XI (XI (XI
    XH)))))))))))))) :: ((((Zpos (XI (XO (XO (XO (XI (XI (XO (XI (XI
    XH)))))))))), (Zpos (XO (XO (XO (XO (XO (XO (XO (XO (XI XH))))))))))),
    (Zpos (XO (XO (XO (XO (XI (XI (XI (XO (XI (XI (XI (XI
    XH)))))))))))))) :: ((((Zpos (XI (XO (XO (XO (XI (XI (XO (XI (XI
    XH)))))))))), (Zpos (XI (XO (XO (XO (XO (XO (XO (XO (XI XH))))))))))),
    (Zpos (XO (XO (XI (XI (XO (XI (XO (XI (XI XH))))))))))) :: ((((Zpos (XI
    (XO (XO (XO (XI (XI (XO (XI (XI XH)))))))))), (Zpos (XO (XO (XI (XO (XO
    (XO (XO (XO (XI XH))))))))))), (Zpos (XI (XO (XO (XO (XI (XI (XO (XI (XI
    (XI (XI (XI XH)))))))))))))) :: ((((Zpos (XI (XO (XO (XO (XI (XI (XO (XI
    (XI XH)))))))))), (Zpos (XO (XI (XI (XO (XO (XO (XO (XO (XI
    XH))))))))))), (Zpos (XO (XO (XO (XO (XI (XI (XO (XI (XI (XI (XI (XI
    XH)))))))))))))) :: ((((Zpos (XI (XO (XO (XO (XI (XI (XO (XI (XI
    XH)))))))))), (Zpos (XI (XI (XO (XO (XI (XO (XO (XO (XI XH))))))))))),
    (Zpos (XO (XO (XO (XO (XO (XO (XO (XO (XI (XI (XI (XI
    XH)))))))))))))) :: ((((Zpos (XI (XO (XO (XO (XI (XI (XO (XI (XI
    XH)))))))))), (Zpos (XO (XO (XI (XO (XI (XO (XO (XO (XI XH))))))))))),
    (Zpos (XI (XO (XO (XO (XO (XO (XO (XO (XI (XI (XI (XI
    XH)))))))))))))) :: ((((Zpos (XI (XO (XO (XO (XI (XI (XO (XI (XI
    XH)))))))))), (Zpos (XO (XI (XO (XO (XO (XO (XI (XO (XI XH))))))))))),
    (Zpos (XO (XI (XI (XO (XI (XI (XO (XI (XI (XI (XI (XI
    XH)))))))))))))) :: ((((Zpos (XI (XO (XO (XO (XI (XI (XO (XI (XI
    XH)))))))))), (Zpos (XI (XO (XI (XO (XO (XO (XI (XO (XI XH))))))))))),
    (Zpos (XI (XI (XO (XO (XI (XI (XO (XI (XI (XI (XI (XI
    XH)))))))))))))) :: ((((Zpos (XI (XO (XI (XO (XI (XI (XO (XI (XI
    XH)))))))))), (Zpos (XO (XO (XO (XO (XO (XO (XO (XO (XI XH))))))))))),
    (Zpos (XO (XI (XO (XO (XI (XI (XI (XO (XI (XI (XI (XI
    XH)))))))))))))) :: ((((Zpos (XI (XO (XI (XO (XI (XI (XO (XI (XI
    XH)))))))))), (Zpos (XI (XO (XO (XO (XO (XO (XO (XO (XI XH))))))))))),
    (Zpos (XI (XO (XI (XI (XO (XI (XO (XI (XI XH))))))))))) :: ((((Zpos (XI
    (XO (XI (XO (XI (XI (XO (XI (XI XH)))))))))), (Zpos (XI (XI (XO (XO (XI
    (XO (XO (XO (XI XH))))))))))), (Zpos (XO (XO (XO (XO (XI (XO (XO (XO (XI
    (XI (XI (XI XH)))))))))))))) :: ((((Zpos (XI (XO (XI (XO (XI (XI (XO (XI
    (XI XH)))))))))), (Zpos (XO (XO (XI (XO (XI (XO (XO (XO (XI
    XH))))))))))), (Zpos (XI (XO (XO (XO (XI (XO (XO (XO (XI (XI (XI (XI
    XH)))))))))))))) :: ((((Zpos (XI (XI (XI (XO (XI (XI (XO (XI (XI
    XH)))))))))), (Zpos (XO (XO (XO (XO (XO (XO (XO (XO (XI XH))))))))))),
    (Zpos (XO (XO (XI (XO (XI (XI (XI (XO (XI (XI (XI (XI
    XH)))))))))))))) :: ((((Zpos (XI (XI (XI (XO (XI (XI (XO (XI (XI
    XH)))))))))), (Zpos (XI (XO (XO (XO (XO (XO (XO (XO (XI XH))))))))))),
    (Zpos (XO (XI (XI (XI (XO (XI (XO (XI (XI XH))))))))))) :: ((((Zpos (XI
    (XI (XI (XO (XI (XI (XO (XI (XI XH)))))))))), (Zpos (XI (XI (XO (XO (XI
    (XO (XO (XO (XI XH))))))))))), (Zpos (XO (XO (XO (XO (XO (XI (XO (XO (XI
    (XI (XI (XI XH)))))))))))))) :: ((((Zpos (XI (XI (XI (XO (XI (XI (XO (XI
    (XI XH)))))))))), (Zpos (XO (XO (XI (XO (XI (XO (XO (XO (XI
    XH))))))))))), (Zpos (XI (XO (XO (XO (XO (XI (XO (XO (XI (XI (XI (XI
    XH)))))))))))))) :: ((((Zpos (XI (XI (XI (XO (XI (XI (XO (XI (XI
    XH)))))))))), (Zpos (XO (XI (XO (XO (XO (XO (XI (XO (XI XH))))))))))),
    (Zpos (XO (XI (XI (XO (XO (XO (XI (XI (XI (XI (XI (XI
    XH)))))))))))))) :: ((((Zpos (XI (XI (XI (XO (XI (XI (XO (XI (XI
    XH)))))))))), (Zpos (XI (XO (XI (XO (XO (XO (XI (XO (XI XH))))))))))),
    (Zpos (XI (XI (XO (XO (XO (XO (XI (XI (XI (XI (XI (XI
    XH)))))))))))))) :: ((((Zpos (XI (XO (XO (XI (XI (XI (XO (XI (XI
    XH)))))))))), (Zpos (XO (XO (XO (XO (XO (XO (XO (XO (XI XH))))))))))),
    (Zpos (XO (XI (XI (XO (XI (XI (XI (XO (XI (XI (XI (XI
    XH)))))))))))))) :: ((((Zpos (XI (XO (XO (XI (XI (XI (XO (XI (XI
    XH)))))))))), (Zpos (XI (XO (XO (XO (XO (XO (XO (XO (XI XH))))))))))),
    (Zpos (XI (XI (XI (XI (XO (XI (XO (XI (XI XH))))))))))) :: ((((Zpos (XI
    (XO (XO (XI (XI (XI (XO (XI (XI XH)))))))))), (Zpos (XO (XO (XI (XO (XO
    (XO (XO (XO (XI XH))))))))))), (Zpos (XI (XO (XO (XO (XI (XO (XI (XI (XI
    (XI (XI (XI XH)))))))))))))) :: ((((Zpos (XI (XO (XO (XI (XI (XI (XO (XI
    (XI XH)))))))))), (Zpos (XO (XI (XI (XO (XO (XO (XO (XO (XI
    XH))))))))))), (Zpos (XO (XO (XO (XO (XI (XO (XI (XI (XI (XI (XI (XI
    XH)))))))))))))) :: ((((Zpos (XI (XO (XO (XI (XI (XI (XO (XI (XI
    XH)))))))))), (Zpos (XO (XO (XO (XI (XO (XO (XO (XO (XI XH))))))))))),
    (Zpos (XO (XI (XO (XI (XO (XO (XI (XI (XI XH))))))))))) :: ((((Zpos (XI
    (XO (XO (XI (XI (XI (XO (XI (XI XH)))))))))), (Zpos (XI (XI (XO (XO (XI
    (XO (XO (XO (XI XH))))))))))), (Zpos (XO (XO (XO (XO (XI (XI (XO (XO (XI
    (XI (XI (XI XH)))))))))))))) :: ((((Zpos (XI (XO (XO (XI (XI (XI (XO (XI
    (XI XH)))))))))), (Zpos (XO (XO (XI (XO (XI (XO (XO (XO (XI
    XH))))))))))), (Zpos (XI (XO (XO (XO (XI (XI (XO (XO (XI (XI (XI (XI
    XH)))))))))))))) :: ((((Zpos (XI (XO (XO (XI (XI (XI (XO (XI (XI
    XH)))))))))), (Zpos (XO (XI (XO (XO (XO (XO (XI (XO (XI XH))))))))))),
    (Zpos (XO (XI (XI (XO (XI (XO (XI (XI (XI (XI (XI (XI
    XH)))))))))))))) :: ((((Zpos (XI (XI (XI (XI (XI (XI (XO (XI (XI
    XH)))))))))), (Zpos (XO (XO (XO (XO (XO (XO (XO (XO (XI XH))))))))))),
    (Zpos (XO (XO (XO (XI (XI (XI (XI (XO (XI (XI (XI (XI
    XH)))))))))))))) :: ((((Zpos (XI (XI (XI (XI (XI (XI (XO (XI (XI
    XH)))))))))), (Zpos (XI (XO (XO (XO (XO (XO (XO (XO (XI XH))))))))))),
    (Zpos (XO (XO (XI (XI (XO (XO (XI (XI (XI XH))))))))))) :: ((((Zpos (XI
    (XI (XI (XI (XI (XI (XO (XI (XI XH)))))))))), (Zpos (XI (XI (XO (XO (XI
    (XO (XO (XO (XI XH))))))))))), (Zpos (XO (XO (XO (XO (XO (XO (XI (XO (XI
    (XI (XI (XI XH)))))))))))))) :: ((((Zpos (XI (XI (XI (XI (XI (XI (XO (XI
    (XI XH)))))))))), (Zpos (XO (XO (XI (XO (XI (XO (XO (XO (XI
    XH))))))))))), (Zpos (XI (XO (XO (XO (XO (XO (XI (XO (XI (XI (XI (XI
    XH)))))))))))))) :: ((((Zpos (XI (XO (XO (XO (XO (XO (XI (XI (XI
    XH)))))))))), (Zpos (XI (XI (XO (XO (XI (XO (XO (XO (XI XH))))))))))),
    (Zpos (XO (XO (XI (XO (XO (XI (XI (XI (XI (XI (XI (XI
    XH)))))))))))))) :: ((((Zpos (XI (XO (XO (XO (XO (XO (XI (XI (XI
    XH)))))))))), (Zpos (XO (XO (XI (XO (XI (XO (XO (XO (XI XH))))))))))),
    (Zpos (XI (XO (XI (XO (XO (XI (XI (XI (XI (XI (XI (XI
    XH)))))))))))))) :: ((((Zpos (XI (XO (XI (XO (XO (XO (XI (XI (XI
    XH)))))))))), (Zpos (XO (XO (XO (XO (XO (XO (XO (XO (XI XH))))))))))),
    (Zpos (XO (XI (XO (XI (XI (XI (XI (XO (XI (XI (XI (XI
    XH)))))))))))))) :: ((((Zpos (XI (XO (XI (XO (XO (XO (XI (XI (XI
    XH)))))))))), (Zpos (XI (XO (XO (XO (XO (XO (XO (XO (XI XH))))))))))),
    (Zpos (XI (XO (XI (XI (XO (XO (XI (XI (XI XH))))))))))) :: ((((Zpos (XI
    (XO (XI (XO (XO (XO (XI (XI (XI XH)))))))))), (Zpos (XO (XO (XI (XO (XO
    (XO (XO (XO (XI XH))))))))))), (Zpos (XI (XO (XO (XO (XO (XI (XI (XI (XI
    (XI (XI (XI XH)))))))))))))) :: ((((Zpos (XI (XO (XI (XO (XO (XO (XI (XI
    (XI XH)))))))))), (Zpos (XO (XI (XI (XO (XO (XO (XO (XO (XI
    XH))))))))))), (Zpos (XO (XO (XO (XO (XO (XI (XI (XI (XI (XI (XI (XI
    XH)))))))))))))) :: ((((Zpos (XI (XO (XI (XO (XO (XO (XI (XI (XI
    XH)))))))))), (Zpos (XO (XO (XO (XI (XO (XO (XO (XO (XI XH))))))))))),
    (Zpos (XI (XI (XO (XI (XO (XO (XI (XI (XI XH))))))))))) :: ((((Zpos (XI
    (XO (XI (XO (XO (XO (XI (XI (XI XH)))))))))), (Zpos (XI (XI (XO (XO (XI
    (XO (XO (XO (XI XH))))))))))), (Zpos (XO (XO (XO (XO (XI (XO (XI (XO (XI
    (XI (XI (XI XH)))))))))))))) :: ((((Zpos (XI (XO (XI (XO (XO (XO (XI (XI
    (XI XH)))))))))), (Zpos (XO (XO (XI (XO (XI (XO (XO (XO (XI
    XH))))))))))), (Zpos (XI (XO (XO (XO (XI (XO (XI (XO (XI (XI (XI (XI
    XH)))))))))))))) :: ((((Zpos (XI (XO (XI (XO (XO (XO (XI (XI (XI
    XH)))))))))), (Zpos (XO (XI (XO (XO (XO (XO (XI (XO (XI XH))))))))))),
    (Zpos (XO (XI (XI (XO (XO (XI (XI (XI (XI (XI (XI (XI
    XH)))))))))))))) :: ((((Zpos (XI (XO (XO (XI (XO (XO (XI (XI (XI
    XH)))))))))), (Zpos (XO (XO (XO (XO (XO (XO (XO (XO (XI XH))))))))))),
    (Zpos (XO (XO (XI (XI (XI (XI (XI (XO (XI (XI (XI (XI
    XH)))))))))))))) :: ((((Zpos (XI (XO (XO (XI (XO (XO (XI (XI (XI
    XH)))))))))), (Zpos (XI (XO (XO (XO (XO (XO (XO (XO (XI XH))))))))))),
    (Zpos (XO (XI (XI (XI (XO (XO (XI (XI (XI XH))))))))))) :: ((((Zpos (XI
    (XO (XO (XI (XO (XO (XI (XI (XI XH)))))))))), (Zpos (XI (XI (XO (XO (XI
    (XO (XO (XO (XI XH))))))))))), (Zpos (XO (XO (XO (XO (XO (XI (XI (XO (XI
    (XI (XI (XI XH)))))))))))))) :: ((((Zpos (XI (XO (XO (XI (XO (XO (XI (XI
    (XI XH)))))))))), (Zpos (XO (XO (XI (XO (XI (XO (XO (XO (XI
    XH))))))))))), (Zpos (XI (XO (XO (XO (XO (XI (XI (XO (XI (XI (XI (XI
    XH)))))))))))))) :: ((((Zpos (XI (XO (XO (XI (XO (XO (XI (XI (XI
    XH)))))))))), (Zpos (XO (XI (XO (XO (XO (XO (XI (XO (XI XH))))))))))),
    (Zpos (XO (XI (XI (XO (XI (XI (XI (XI (XI (XI (XI (XI
    XH)))))))))))))) :: ((((Zpos (XI (XO (XO (XI (XO (XO (XI (XI (XI
    XH)))))))))), (Zpos (XI (XO (XI (XO (XO (XO (XI (XO (XI XH))))))))))),
    (Zpos (XI (XI (XO (XO (XI (XI (XI (XI (XI (XI (XI (XI
    XH)))))))))))))) :: ((((Zpos (XO (XI (XO (XI (XO (XO (XI (XI (XI
    XH)))))))))), (Zpos (XO (XO (XO (XO (XO (XO (XO (XO (XI XH))))))))))),
    (Zpos (XO (XI (XO (XO (XI (XO (XI (XI (XI (XI (XI (XI
    XH)))))))))))))) :: ((((Zpos (XO (XI (XO (XI (XO (XO (XI (XI (XI
    XH)))))))))), (Zpos (XI (XO (XO (XO (XO (XO (XO (XO (XI XH))))))))))),
    (Zpos (XO (XO (XO (XO (XI (XO (XO (XI (XI XH))))))))))) :: ((((Zpos (XO
    (XI (XO (XI (XO (XO (XI (XI (XI XH)))))))))), (Zpos (XO (XI (XO (XO (XO
    (XO (XI (XO (XI XH))))))))))), (Zpos (XI (XI (XI (XO (XI (XO (XI (XI (XI
    (XI (XI (XI XH)))))))))))))) :: ((((Zpos (XI (XI (XO (XI (XO (XO (XI (XI
    (XI XH)))))))))), (Zpos (XO (XO (XO (XO (XO (XO (XO (XO (XI
    XH))))))))))), (Zpos (XO (XI (XO (XO (XO (XI (XI (XI (XI (XI (XI (XI
    XH)))))))))))))) :: ((((Zpos (XI (XI (XO (XI (XO (XO (XI (XI (XI
    XH)))))))))), (Zpos (XI (XO (XO (XO (XO (XO (XO (XO (XI XH))))))))))),
    (Zpos (XO (XO (XO (XO (XI (XI (XO (XI (XI XH))))))))))) :: ((((Zpos (XI
    (XI (XO (XI (XO (XO (XI (XI (XI XH)))))))))), (Zpos (XO (XI (XO (XO (XO
    (XO (XI (XO (XI XH))))))))))), (Zpos (XI (XI (XI (XO (XO (XI (XI (XI (XI
    (XI (XI (XI XH)))))))))))))) :: ((((Zpos (XO (XI (XI (XI (XO (XO (XI (XI
    (XI XH)))))))))), (Zpos (XI (XO (XI (XO (XO (XO (XI (XO (XI
    XH))))))))))), (Zpos (XO (XO (XI (XO (XI (XI (XI (XI (XI (XI (XI (XI
    XH)))))))))))))) :: ((((Zpos (XO (XI (XO (XO (XI (XO (XI (XI (XI
    XH)))))))))), (Zpos (XI (XO (XO (XO (XO (XO (XO (XO (XI XH))))))))))),
    (Zpos (XI (XI (XO (XO (XI (XO (XI (XI (XI XH))))))))))) :: ((((Zpos (XO
    (XI (XO (XO (XI (XO (XI (XI (XI XH)))))))))), (Zpos (XO (XO (XO (XI (XO
    (XO (XO (XO (XI XH))))))))))), (Zpos (XO (XO (XI (XO (XI (XO (XI (XI (XI
    XH))))))))))) :: ((((Zpos (XO (XI (XI (XO (XO (XO (XO (XO (XO (XO
    XH))))))))))), (Zpos (XO (XO (XO (XI (XO (XO (XO (XO (XI XH))))))))))),
    (Zpos (XI (XI (XI (XO (XO (XO (XO (XO (XO (XO XH)))))))))))) :: ((((Zpos
    (XO (XO (XO (XO (XI (XO (XO (XO (XO (XO XH))))))))))), (Zpos (XO (XI (XI
    (XO (XO (XO (XO (XO (XI XH))))))))))), (Zpos (XO (XO (XO (XO (XI (XO (XI
    (XI (XO (XO XH)))))))))))) :: ((((Zpos (XO (XO (XO (XO (XI (XO (XO (XO
    (XO (XO XH))))))))))), (Zpos (XO (XO (XO (XI (XO (XO (XO (XO (XI
    XH))))))))))), (Zpos (XO (XI (XO (XO (XI (XO (XI (XI (XO (XO
    XH)))))))))))) :: ((((Zpos (XI (XI (XO (XO (XI (XO (XO (XO (XO (XO
    XH))))))))))), (Zpos (XI (XO (XO (XO (XO (XO (XO (XO (XI XH))))))))))),
    (Zpos (XI (XI (XO (XO (XO (XO (XO (XO (XO (XO XH)))))))))))) :: ((((Zpos
    (XI (XO (XI (XO (XI (XO (XO (XO (XO (XO XH))))))))))), (Zpos (XO (XO (XO
    (XO (XO (XO (XO (XO (XI XH))))))))))), (Zpos (XO (XO (XO (XO (XO (XO (XO
    (XO (XO (XO XH)))))))))))) :: ((((Zpos (XI (XO (XI (XO (XI (XO (XO (XO
    (XO (XO XH))))))))))), (Zpos (XO (XI (XI (XO (XO (XO (XO (XO (XI
    XH))))))))))), (Zpos (XO (XI (XI (XO (XI (XO (XI (XI (XO (XO
    XH)))))))))))) :: ((((Zpos (XI (XO (XI (XO (XI (XO (XO (XO (XO (XO
    XH))))))))))), (Zpos (XO (XO (XO (XI (XO (XO (XO (XO (XI XH))))))))))),
    (Zpos (XI (XO (XO (XO (XO (XO (XO (XO (XO (XO XH)))))))))))) :: ((((Zpos
    (XO (XI (XI (XO (XI (XO (XO (XO (XO (XO XH))))))))))), (Zpos (XO (XI (XI
    (XO (XO (XO (XO (XO (XI XH))))))))))), (Zpos (XI (XO (XO (XO (XO (XO (XI
    (XI (XO (XO XH)))))))))))) :: ((((Zpos (XO (XI (XI (XO (XI (XO (XO (XO
    (XO (XO XH))))))))))), (Zpos (XO (XO (XO (XI (XO (XO (XO (XO (XI
    XH))))))))))), (Zpos (XO (XO (XI (XI (XI (XO (XI (XI (XO (XO
    XH)))))))))))) :: ((((Zpos (XI (XI (XI (XO (XI (XO (XO (XO (XO (XO
    XH))))))))))), (Zpos (XO (XO (XO (XI (XO (XO (XO (XO (XI XH))))))))))),
    (Zpos (XO (XI (XI (XI (XI (XO (XI (XI (XO (XO XH)))))))))))) :: ((((Zpos
    (XO (XO (XO (XI (XI (XO (XO (XO (XO (XO XH))))))))))), (Zpos (XO (XO (XO
    (XO (XO (XO (XO (XO (XI XH))))))))))), (Zpos (XI (XO (XI (XI (XO (XO (XO
    (XO (XO (XO XH)))))))))))) :: ((((Zpos (XO (XO (XO (XI (XI (XO (XO (XO
    (XO (XO XH))))))))))), (Zpos (XO (XO (XI (XO (XO (XO (XO (XO (XI
    XH))))))))))), (Zpos (XO (XI (XO (XO (XO (XI (XI (XI (XO (XO
    XH)))))))))))) :: ((((Zpos (XO (XO (XO (XI (XI (XO (XO (XO (XO (XO
    XH))))))))))), (Zpos (XO (XI (XI (XO (XO (XO (XO (XO (XI XH))))))))))),
    (Zpos (XI (XO (XO (XI (XI (XO (XO (XO (XO (XO XH)))))))))))) :: ((((Zpos
    (XO (XO (XO (XI (XI (XO (XO (XO (XO (XO XH))))))))))), (Zpos (XO (XO (XO
    (XI (XO (XO (XO (XO (XI XH))))))))))), (Zpos (XO (XO (XI (XO (XO (XI (XI
    (XI (XO (XO XH)))))))))))) :: ((((Zpos (XO (XI (XO (XI (XI (XO (XO (XO
    (XO (XO XH))))))))))), (Zpos (XI (XO (XO (XO (XO (XO (XO (XO (XI
    XH))))))))))), (Zpos (XO (XO (XI (XI (XO (XO (XO (XO (XO (XO
    XH)))))))))))) :: ((((Zpos (XO (XI (XI (XI (XI (XO (XO (XO (XO (XO
    XH))))))))))), (Zpos (XO (XO (XO (XI (XO (XO (XO (XO (XI XH))))))))))),
    (Zpos (XO (XI (XI (XO (XO (XI (XI (XI (XO (XO XH)))))))))))) :: ((((Zpos
    (XI (XI (XO (XO (XO (XI (XO (XO (XO (XO XH))))))))))), (Zpos (XO (XO (XI
    (XO (XO (XO (XO (XO (XI XH))))))))))), (Zpos (XO (XI (XI (XI (XO (XI (XI
    (XI (XO (XO XH)))))))))))) :: ((((Zpos (XI (XI (XO (XO (XO (XI (XO (XO
    (XO (XO XH))))))))))), (Zpos (XO (XI (XI (XO (XO (XO (XO (XO (XI
    XH))))))))))), (Zpos (XO (XI (XI (XI (XO (XO (XO (XO (XO (XO
    XH)))))))))))) :: ((((Zpos (XI (XI (XO (XO (XO (XI (XO (XO (XO (XO
    XH))))))))))), (Zpos (XO (XO (XO (XI (XO (XO (XO (XO (XI XH))))))))))),
    (Zpos (XO (XO (XO (XO (XI (XI (XI (XI (XO (XO XH)))))))))))) :: ((((Zpos
    (XI (XI (XO (XO (XO (XI (XO (XO (XO (XO XH))))))))))), (Zpos (XI (XI (XO
    (XI (XO (XO (XO (XO (XI XH))))))))))), (Zpos (XO (XI (XO (XO (XI (XI (XI
    (XI (XO (XO XH)))))))))))) :: ((((Zpos (XI (XI (XI (XO (XO (XI (XO (XO
    (XO (XO XH))))))))))), (Zpos (XO (XO (XO (XI (XO (XO (XO (XO (XI
    XH))))))))))), (Zpos (XO (XO (XI (XO (XI (XI (XI (XI (XO (XO
    XH)))))))))))) :: ((((Zpos (XI (XI (XO (XI (XO (XI (XO (XO (XO (XO
    XH))))))))))), (Zpos (XO (XO (XO (XI (XO (XO (XO (XO (XI XH))))))))))),
    (Zpos (XO (XO (XO (XI (XI (XI (XI (XI (XO (XO XH)))))))))))) :: ((((Zpos
    (XI (XO (XI (XI (XO (XI (XO (XO (XO (XO XH))))))))))), (Zpos (XO (XO (XO
    (XI (XO (XO (XO (XO (XI XH))))))))))), (Zpos (XO (XO (XI (XI (XO (XI (XI
    (XI (XO (XO XH)))))))))))) :: ((((Zpos (XO (XO (XO (XO (XI (XI (XO (XO
    (XO (XO XH))))))))))), (Zpos (XO (XI (XI (XO (XO (XO (XO (XO (XI
    XH))))))))))), (Zpos (XI (XO (XO (XO (XI (XO (XI (XI (XO (XO
    XH)))))))))))) :: ((((Zpos (XO (XO (XO (XO (XI (XI (XO (XO (XO (XO
    XH))))))))))), (Zpos (XO (XO (XO (XI (XO (XO (XO (XO (XI XH))))))))))),
    (Zpos (XI (XI (XO (XO (XI (XO (XI (XI (XO (XO XH)))))))))))) :: ((((Zpos
    (XI (XI (XO (XO (XI (XI (XO (XO (XO (XO XH))))))))))), (Zpos (XI (XO (XO
    (XO (XO (XO (XO (XO (XI XH))))))))))), (Zpos (XI (XI (XO (XO (XI (XO (XI
    (XO (XO (XO XH)))))))))))) :: ((((Zpos (XI (XO (XI (XO (XI (XI (XO (XO
    (XO (XO XH))))))))))), (Zpos (XO (XO (XO (XO (XO (XO (XO (XO (XI
    XH))))))))))), (Zpos (XO (XO (XO (XO (XI (XO (XI (XO (XO (XO
    XH)))))))))))) :: ((((Zpos (XI (XO (XI (XO (XI (XI (XO (XO (XO (XO
    XH))))))))))), (Zpos (XO (XI (XI (XO (XO (XO (XO (XO (XI XH))))))))))),
    (Zpos (XI (XI (XI (XO (XI (XO (XI (XI (XO (XO XH)))))))))))) :: ((((Zpos
    (XI (XO (XI (XO (XI (XI (XO (XO (XO (XO XH))))))))))), (Zpos (XO (XO (XO
    (XI (XO (XO (XO (XO (XI XH))))))))))), (Zpos (XI (XO (XO (XO (XI (XO (XI
    (XO (XO (XO XH)))))))))))) :: ((((Zpos (XO (XI (XI (XO (XI (XI (XO (XO
    (XO (XO XH))))))))))), (Zpos (XO (XI (XI (XO (XO (XO (XO (XO (XI
    XH))))))))))), (Zpos (XO (XI (XO (XO (XO (XO (XI (XI (XO (XO
    XH)))))))))))) :: ((((Zpos (XO (XI (XI (XO (XI (XI (XO (XO (XO (XO
    XH))))))))))), (Zpos (XO (XO (XO (XI (XO (XO (XO (XO (XI XH))))))))))),
    (Zpos (XI (XO (XI (XI (XI (XO (XI (XI (XO (XO XH)))))))))))) :: ((((Zpos
    (XI (XI (XI (XO (XI (XI (XO (XO (XO (XO XH))))))))))), (Zpos (XO (XO (XO
    (XI (XO (XO (XO (XO (XI XH))))))))))), (Zpos (XI (XI (XI (XI (XI (XO (XI
    (XI (XO (XO XH)))))))))))) :: ((((Zpos (XO (XO (XO (XI (XI (XI (XO (XO
    (XO (XO XH))))))))))), (Zpos (XO (XO (XO (XO (XO (XO (XO (XO (XI
    XH))))))))))), (Zpos (XI (XO (XI (XI (XI (XO (XI (XO (XO (XO
    XH)))))))))))) :: ((((Zpos (XO (XO (XO (XI (XI (XI (XO (XO (XO (XO
    XH))))))))))), (Zpos (XO (XO (XI (XO (XO (XO (XO (XO (XI XH))))))))))),
    (Zpos (XI (XI (XO (XO (XO (XI (XI (XI (XO (XO XH)))))))))))) :: ((((Zpos
    (XO (XO (XO (XI (XI (XI (XO (XO (XO (XO XH))))))))))), (Zpos (XO (XI (XI
    (XO (XO (XO (XO (XO (XI XH))))))))))), (Zpos (XI (XO (XO (XI (XI (XI (XO
    (XO (XO (XO XH)))))))))))) :: ((((Zpos (XO (XO (XO (XI (XI (XI (XO (XO
    (XO (XO XH))))))))))), (Zpos (XO (XO (XO (XI (XO (XO (XO (XO (XI
    XH))))))))))), (Zpos (XI (XO (XI (XO (XO (XI (XI (XI (XO (XO
    XH)))))))))))) :: ((((Zpos (XO (XI (XO (XI (XI (XI (XO (XO (XO (XO
    XH))))))))))), (Zpos (XI (XO (XO (XO (XO (XO (XO (XO (XI XH))))))))))),
    (Zpos (XO (XO (XI (XI (XI (XO (XI (XO (XO (XO XH)))))))))))) :: ((((Zpos
    (XO (XI (XI (XI (XI (XI (XO (XO (XO (XO XH))))))))))), (Zpos (XO (XO (XO
    (XI (XO (XO (XO (XO (XI XH))))))))))), (Zpos (XI (XI (XI (XO (XO (XI (XI
    (XI (XO (XO XH)))))))))))) :: ((((Zpos (XI (XI (XO (XO (XO (XO (XI (XO
    (XO (XO XH))))))))))), (Zpos (XO (XO (XI (XO (XO (XO (XO (XO (XI
    XH))))))))))), (Zpos (XI (XI (XI (XI (XO (XI (XI (XI (XO (XO
    XH)))))))))))) :: ((((Zpos (XI (XI (XO (XO (XO (XO (XI (XO (XO (XO
    XH))))))))))), (Zpos (XO (XI (XI (XO (XO (XO (XO (XO (XI XH))))))))))),
    (Zpos (XO (XI (XI (XI (XI (XO (XI (XO (XO (XO XH)))))))))))) :: ((((Zpos
    (XI (XI (XO (XO (XO (XO (XI (XO (XO (XO XH))))))))))), (Zpos (XO (XO (XO
    (XI (XO (XO (XO (XO (XI XH))))))))))), (Zpos (XI (XO (XO (XO (XI (XI (XI
    (XI (XO (XO XH)))))))))))) :: ((((Zpos (XI (XI (XO (XO (XO (XO (XI (XO
    (XO (XO XH))))))))))), (Zpos (XI (XI (XO (XI (XO (XO (XO (XO (XI
    XH))))))))))), (Zpos (XI (XI (XO (XO (XI (XI (XI (XI (XO (XO
    XH)))))))))))) :: ((((Zpos (XI (XI (XI (XO (XO (XO (XI (XO (XO (XO
    XH))))))))))), (Zpos (XO (XO (XO (XI (XO (XO (XO (XO (XI XH))))))))))),
    (Zpos (XI (XO (XI (XO (XI (XI (XI (XI (XO (XO XH)))))))))))) :: ((((Zpos
    (XI (XI (XO (XI (XO (XO (XI (XO (XO (XO XH))))))))))), (Zpos (XO (XO (XO
    (XI (XO (XO (XO (XO (XI XH))))))))))), (Zpos (XI (XO (XO (XI (XI (XI (XI
    (XI (XO (XO XH)))))))))))) :: ((((Zpos (XI (XO (XI (XI (XO (XO (XI (XO
    (XO (XO XH))))))))))), (Zpos (XO (XO (XO (XI (XO (XO (XO (XO (XI
    XH))))))))))), (Zpos (XI (XO (XI (XI (XO (XI (XI (XI (XO (XO
    XH)))))))))))) :: ((((Zpos (XO (XI (XI (XO (XI (XO (XI (XO (XO (XO
    XH))))))))))), (Zpos (XO (XO (XO (XI (XO (XO (XO (XO (XI XH))))))))))),
    (Zpos (XI (XI (XI (XO (XI (XO (XI (XO (XO (XO XH)))))))))))) :: ((((Zpos
    (XO (XO (XI (XO (XI (XI (XI (XO (XO (XO XH))))))))))), (Zpos (XI (XI (XI
    (XI (XO (XO (XO (XO (XI XH))))))))))), (Zpos (XO (XI (XI (XO (XI (XI (XI
    (XO (XO (XO XH)))))))))))) :: ((((Zpos (XI (XO (XI (XO (XI (XI (XI (XO
    (XO (XO XH))))))))))), (Zpos (XI (XI (XI (XI (XO (XO (XO (XO (XI
    XH))))))))))), (Zpos (XI (XI (XI (XO (XI (XI (XI (XO (XO (XO
    XH)))))))))))) :: ((((Zpos (XO (XO (XO (XI (XI (XO (XI (XI (XO (XO
    XH))))))))))), (Zpos (XO (XO (XO (XI (XO (XO (XO (XO (XI XH))))))))))),
    (Zpos (XO (XI (XO (XI (XI (XO (XI (XI (XO (XO XH)))))))))))) :: ((((Zpos
    (XI (XO (XO (XI (XI (XO (XI (XI (XO (XO XH))))))))))), (Zpos (XO (XO (XO
    (XI (XO (XO (XO (XO (XI XH))))))))))), (Zpos (XI (XI (XO (XI (XI (XO (XI
    (XI (XO (XO XH)))))))))))) :: ((((Zpos (XO (XO (XO (XI (XO (XI (XI (XI
    (XO (XO XH))))))))))), (Zpos (XO (XO (XO (XI (XO (XO (XO (XO (XI
    XH))))))))))), (Zpos (XO (XI (XO (XI (XO (XI (XI (XI (XO (XO
    XH)))))))))))) :: ((((Zpos (XI (XO (XO (XI (XO (XI (XI (XI (XO (XO
    XH))))))))))), (Zpos (XO (XO (XO (XI (XO (XO (XO (XO (XI XH))))))))))),
    (Zpos (XI (XI (XO (XI (XO (XI (XI (XI (XO (XO XH)))))))))))) :: ((((Zpos
    (XO (XO (XO (XO (XI (XO (XI (XI (XI (XO XH))))))))))), (Zpos (XI (XI (XI
    (XO (XI (XI (XO (XI (XI (XO XH)))))))))))), (Zpos (XO (XI (XI (XI (XO (XI
    (XO (XO (XI (XI (XO (XI (XI (XI (XI XH))))))))))))))))) :: ((((Zpos (XO
    (XO (XO (XO (XI (XO (XI (XI (XI (XO XH))))))))))), (Zpos (XO (XO (XO (XI
    (XI (XI (XO (XI (XI (XO XH)))))))))))), (Zpos (XI (XI (XI (XI (XO (XI (XO
    (XO (XI (XI (XO (XI (XI (XI (XI XH))))))))))))))))) :: ((((Zpos (XO (XO
    (XO (XO (XI (XO (XI (XI (XI (XO XH))))))))))), (Zpos (XO (XO (XI (XI (XI
    (XI (XO (XI (XI (XO XH)))))))))))), (Zpos (XO (XO (XO (XO (XI (XI (XO (XO
    (XI (XI (XO (XI (XI (XI (XI XH))))))))))))))))) :: ((((Zpos (XI (XO (XO
    (XO (XI (XO (XI (XI (XI (XO XH))))))))))), (Zpos (XO (XO (XI (XI (XI (XI
    (XO (XI (XI (XO XH)))))))))))), (Zpos (XI (XO (XO (XO (XI (XI (XO (XO (XI
    (XI (XO (XI (XI (XI (XI XH))))))))))))))))) :: ((((Zpos (XI (XO (XO (XO
    (XI (XO (XI (XI (XI (XO XH))))))))))), (Zpos (XI (XI (XI (XI (XI (XI (XO
    (XI (XI (XO XH)))))))))))), (Zpos (XO (XO (XI (XI (XO (XO (XI (XO (XI (XI
    (XO (XI (XI (XI (XI XH))))))))))))))))) :: ((((Zpos (XO (XI (XO (XO (XI
    (XO (XI (XI (XI (XO XH))))))))))), (Zpos (XO (XO (XI (XI (XI (XI (XO (XI
    (XI (XO XH)))))))))))), (Zpos (XO (XI (XO (XO (XI (XI (XO (XO (XI (XI (XO
    (XI (XI (XI (XI XH))))))))))))))))) :: ((((Zpos (XI (XI (XO (XO (XI (XO
    (XI (XI (XI (XO XH))))))))))), (Zpos (XO (XO (XI (XI (XI (XI (XO (XI (XI
    (XO XH)))))))))))), (Zpos (XI (XI (XO (XO (XI (XI (XO (XO (XI (XI (XO (XI
    (XI (XI (XI XH))))))))))))))))) :: ((((Zpos (XO (XO (XI (XO (XI (XO (XI
    (XI (XI (XO XH))))))))))), (Zpos (XO (XO (XI (XI (XI (XI (XO (XI (XI (XO
    XH)))))))))))), (Zpos (XO (XO (XI (XO (XI (XI (XO (XO (XI (XI (XO (XI (XI
    (XI (XI XH))))))))))))))))) :: ((((Zpos (XI (XO (XI (XO (XI (XO (XI (XI
    (XI (XO XH))))))))))), (Zpos (XI (XO (XO (XI (XI (XI (XO (XI (XI (XO
    XH)))))))))))), (Zpos (XI (XI (XO (XI (XO (XO (XI (XO (XI (XI (XO (XI (XI
    (XI (XI XH))))))))))))))))) :: ((((Zpos (XI (XO (XI (XO (XI (XO (XI (XI
    (XI (XO XH))))))))))), (Zpos (XO (XO (XI (XI (XI (XI (XO (XI (XI (XO
    XH)))))))))))), (Zpos (XI (XO (XI (XO (XI (XI (XO (XO (XI (XI (XO (XI (XI
    (XI (XI XH))))))))))))))))) :: ((((Zpos (XO (XI (XI (XO (XI (XO (XI (XI
    (XI (XO XH))))))))))), (Zpos (XO (XO (XI (XI (XI (XI (XO (XI (XI (XO
    XH)))))))))))), (Zpos (XO (XI (XI (XO (XI (XI (XO (XO (XI (XI (XO (XI (XI
    (XI (XI XH))))))))))))))))) :: ((((Zpos (XO (XO (XO (XI (XI (XO (XI (XI
    (XI (XO XH))))))))))), (Zpos (XO (XO (XI (XI (XI (XI (XO (XI (XI (XO
    XH)))))))))))), (Zpos (XO (XO (XO (XI (XI (XI (XO (XO (XI (XI (XO (XI (XI
    (XI (XI XH))))))))))))))))) :: ((((Zpos (XI (XO (XO (XI (XI (XO (XI (XI
    (XI (XO XH))))))))))), (Zpos (XO (XO (XI (XO (XI (XI (XO (XI (XI (XO
    XH)))))))))))), (Zpos (XI (XO (XI (XI (XI (XO (XO (XO (XI (XI (XO (XI (XI
    (XI (XI XH))))))))))))))))) :: ((((Zpos (XI (XO (XO (XI (XI (XO (XI (XI
    (XI (XO XH))))))))))), (Zpos (XO (XO (XI (XI (XI (XI (XO (XI (XI (XO
    XH)))))))))))), (Zpos (XI (XO (XO (XI (XI (XI (XO (XO (XI (XI (XO (XI (XI
    (XI (XI XH))))))))))))))))) :: ((((Zpos (XO (XI (XO (XI (XI (XO (XI (XI
    (XI (XO XH))))))))))), (Zpos (XO (XO (XI (XI (XI (XI (XO (XI (XI (XO
    XH)))))))))))), (Zpos (XO (XI (XO (XI (XI (XI (XO (XO (XI (XI (XO (XI (XI
    (XI (XI XH))))))))))))))))) :: ((((Zpos (XI (XI (XO (XI (XI (XO (XI (XI
    (XI (XO XH))))))))))), (Zpos (XO (XO (XI (XI (XI (XI (XO (XI (XI (XO
    XH)))))))))))), (Zpos (XI (XI (XO (XI (XI (XI (XO (XO (XI (XI (XO (XI (XI
    (XI (XI XH))))))))))))))))) :: ((((Zpos (XI (XI (XO (XI (XI (XO (XI (XI
    (XI (XO XH))))))))))), (Zpos (XI (XI (XI (XI (XI (XI (XO (XI (XI (XO
    XH)))))))))))), (Zpos (XI (XO (XI (XI (XO (XO (XI (XO (XI (XI (XO (XI (XI
    (XI (XI XH))))))))))))))))) :: ((((Zpos (XO (XO (XI (XI (XI (XO (XI (XI
    (XI (XO XH))))))))))), (Zpos (XO (XO (XI (XI (XI (XI (XO (XI (XI (XO
    XH)))))))))))), (Zpos (XO (XO (XI (XI (XI (XI (XO (XO (XI (XI (XO (XI (XI
    (XI (XI XH))))))))))))))))) :: ((((Zpos (XO (XI (XI (XI (XI (XO (XI (XI
    (XI (XO XH))))))))))), (Zpos (XO (XO (XI (XI (XI (XI (XO (XI (XI (XO
    XH)))))))))))), (Zpos (XO (XI (XI (XI (XI (XI (XO (XO (XI (XI (XO (XI (XI
    (XI (XI XH))))))))))))))))) :: ((((Zpos (XO (XO (XO (XO (XO (XI (XI (XI
    (XI (XO XH))))))))))), (Zpos (XO (XO (XI (XI (XI (XI (XO (XI (XI (XO
    XH)))))))))))), (Zpos (XO (XO (XO (XO (XO (XO (XI (XO (XI (XI (XO (XI (XI
    (XI (XI XH))))))))))))))))) :: ((((Zpos (XI (XO (XO (XO (XO (XI (XI (XI
    (XI (XO XH))))))))))), (Zpos (XO (XO (XI (XI (XI (XI (XO (XI (XI (XO
    XH)))))))))))), (Zpos (XI (XO (XO (XO (XO (XO (XI (XO (XI (XI (XO (XI (XI
    (XI (XI XH))))))))))))))))) :: ((((Zpos (XI (XI (XO (XO (XO (XI (XI (XI
    (XI (XO XH))))))))))), (Zpos (XO (XO (XI (XI (XI (XI (XO (XI (XI (XO
    XH)))))))))))), (Zpos (XI (XI (XO (XO (XO (XO (XI (XO (XI (XI (XO (XI (XI
    (XI (XI XH))))))))))))))))) :: ((((Zpos (XO (XO (XI (XO (XO (XI (XI (XI
    (XI (XO XH))))))))))), (Zpos (XO (XO (XI (XI (XI (XI (XO (XI (XI (XO
    XH)))))))))))), (Zpos (XO (XO (XI (XO (XO (XO (XI (XO (XI (XI (XO (XI (XI
    (XI (XI XH))))))))))))))))) :: ((((Zpos (XO (XO (XI (XO (XO (XI (XI (XI
    (XI (XO XH))))))))))), (Zpos (XI (XI (XI (XI (XI (XI (XO (XI (XI (XO
    XH)))))))))))), (Zpos (XO (XI (XI (XI (XO (XO (XI (XO (XI (XI (XO (XI (XI
    (XI (XI XH))))))))))))))))) :: ((((Zpos (XO (XI (XI (XO (XO (XI (XI (XI
    (XI (XO XH))))))))))), (Zpos (XO (XO (XI (XI (XI (XI (XO (XI (XI (XO
    XH)))))))))))), (Zpos (XO (XI (XI (XO (XO (XO (XI (XO (XI (XI (XO (XI (XI
    (XI (XI XH))))))))))))))))) :: ((((Zpos (XI (XI (XI (XO (XO (XI (XI (XI
    (XI (XO XH))))))))))), (Zpos (XO (XO (XI (XI (XI (XI (XO (XI (XI (XO
    XH)))))))))))), (Zpos (XI (XI (XI (XO (XO (XO (XI (XO (XI (XI (XO (XI (XI
    (XI (XI XH))))))))))))))))) :: ((((Zpos (XO (XO (XO (XI (XO (XI (XI (XI
    (XI (XO XH))))))))))), (Zpos (XO (XO (XI (XI (XI (XI (XO (XI (XI (XO
    XH)))))))))))), (Zpos (XO (XO (XO (XI (XO (XO (XI (XO (XI (XI (XO (XI (XI
    (XI (XI XH))))))))))))))))) :: ((((Zpos (XI (XO (XO (XI (XO (XI (XI (XI
    (XI (XO XH))))))))))), (Zpos (XO (XO (XI (XI (XI (XI (XO (XI (XI (XO
    XH)))))))))))), (Zpos (XI (XO (XO (XI (XO (XO (XI (XO (XI (XI (XO (XI (XI
    (XI (XI XH))))))))))))))))) :: ((((Zpos (XI (XO (XO (XI (XO (XI (XI (XI
    (XI (XO XH))))))))))), (Zpos (XI (XO (XO (XO (XO (XO (XI (XI (XI (XO
    XH)))))))))))), (Zpos (XO (XI (XO (XI (XO (XI (XO (XO (XI (XI (XO (XI (XI
    (XI (XI XH))))))))))))))))) :: ((((Zpos (XI (XO (XO (XI (XO (XI (XI (XI
    (XI (XO XH))))))))))), (Zpos (XO (XI (XO (XO (XO (XO (XI (XI (XI (XO
    XH)))))))))))), (Zpos (XI (XI (XO (XI (XO (XI (XO (XO (XI (XI (XO (XI (XI
    (XI (XI XH))))))))))))))))) :: ((((Zpos (XO (XI (XO (XI (XO (XI (XI (XI
    (XI (XO XH))))))))))), (Zpos (XO (XO (XI (XI (XI (XI (XO (XI (XI (XO
    XH)))))))))))), (Zpos (XO (XI (XO (XI (XO (XO (XI (XO (XI (XI (XO (XI (XI
    (XI (XI XH))))))))))))))))) :: ((((Zpos (XO (XI (XO (XO (XI (XI (XI (XI
    (XI (XO XH))))))))))), (Zpos (XI (XI (XI (XO (XI (XI (XO (XI (XI (XO
    XH)))))))))))), (Zpos (XI (XI (XI (XI (XI (XO (XO (XO (XI (XI (XO (XI (XI
    (XI (XI XH))))))))))))))))) :: ((((Zpos (XI (XI (XI (XO (XO (XI (XO (XO
    (XO (XI XH))))))))))), (Zpos (XI (XI (XO (XO (XI (XO (XI (XO (XO (XI
    XH)))))))))))), (Zpos (XO (XI (XO (XO (XO (XI (XO (XO (XO (XI
    XH)))))))))))) :: ((((Zpos (XI (XI (XI (XO (XO (XI (XO (XO (XO (XI
    XH))))))))))), (Zpos (XO (XO (XI (XO (XI (XO (XI (XO (XO (XI
    XH)))))))))))), (Zpos (XI (XI (XO (XO (XO (XI (XO (XO (XO (XI
    XH)))))))))))) :: ((((Zpos (XI (XI (XI (XO (XO (XI (XO (XO (XO (XI
    XH))))))))))), (Zpos (XI (XO (XI (XO (XI (XO (XI (XO (XO (XI
    XH)))))))))))), (Zpos (XI (XO (XI (XO (XO (XI (XO (XO (XO (XI
    XH)))))))))))) :: ((((Zpos (XO (XO (XO (XI (XO (XO (XI (XO (XO (XI
    XH))))))))))), (Zpos (XO (XO (XI (XO (XI (XO (XI (XO (XO (XI
    XH)))))))))))), (Zpos (XO (XO (XI (XO (XO (XI (XO (XO (XO (XI
    XH)))))))))))) :: ((((Zpos (XO (XI (XO (XI (XO (XO (XI (XO (XO (XI
    XH))))))))))), (Zpos (XO (XO (XI (XO (XI (XO (XI (XO (XO (XI
    XH)))))))))))), (Zpos (XO (XI (XI (XO (XO (XI (XO (XO (XO (XI
    XH)))))))))))) :: ((((Zpos (XI (XO (XO (XO (XO (XO (XI (XI (XO (XI
    XH))))))))))), (Zpos (XO (XO (XI (XO (XI (XO (XI (XO (XO (XI
    XH)))))))))))), (Zpos (XO (XI (XO (XO (XO (XO (XI (XI (XO (XI
    XH)))))))))))) :: ((((Zpos (XO (XI (XO (XO (XI (XO (XI (XI (XO (XI
    XH))))))))))), (Zpos (XO (XO (XI (XO (XI (XO (XI (XO (XO (XI
    XH)))))))))))), (Zpos (XI (XI (XO (XO (XI (XO (XI (XI (XO (XI
    XH)))))))))))) :: ((((Zpos (XI (XO (XI (XO (XI (XO (XI (XI (XO (XI
    XH))))))))))), (Zpos (XO (XO (XI (XO (XI (XO (XI (XO (XO (XI
    XH)))))))))))), (Zpos (XO (XO (XO (XO (XO (XO (XI (XI (XO (XI
    XH)))))))))))) :: ((((Zpos (XI (XO (XI (XO (XI (XO (XO (XO (XI (XO (XO
    XH)))))))))))), (Zpos (XO (XO (XI (XI (XI (XI (XO (XO (XI (XO (XO
    XH))))))))))))), (Zpos (XO (XO (XO (XI (XI (XO (XI (XO (XI (XO (XO
    XH))))))))))))) :: ((((Zpos (XO (XI (XI (XO (XI (XO (XO (XO (XI (XO (XO
    XH)))))))))))), (Zpos (XO (XO (XI (XI (XI (XI (XO (XO (XI (XO (XO
    XH))))))))))))), (Zpos (XI (XO (XO (XI (XI (XO (XI (XO (XI (XO (XO
    XH))))))))))))) :: ((((Zpos (XI (XI (XI (XO (XI (XO (XO (XO (XI (XO (XO
    XH)))))))))))), (Zpos (XO (XO (XI (XI (XI (XI (XO (XO (XI (XO (XO
    XH))))))))))))), (Zpos (XO (XI (XO (XI (XI (XO (XI (XO (XI (XO (XO
    XH))))))))))))) :: ((((Zpos (XO (XO (XI (XI (XI (XO (XO (XO (XI (XO (XO
    XH)))))))))))), (Zpos (XO (XO (XI (XI (XI (XI (XO (XO (XI (XO (XO
    XH))))))))))))), (Zpos (XI (XI (XO (XI (XI (XO (XI (XO (XI (XO (XO
    XH))))))))))))) :: ((((Zpos (XI (XO (XO (XO (XO (XI (XO (XO (XI (XO (XO
    XH)))))))))))), (Zpos (XO (XO (XI (XI (XI (XI (XO (XO (XI (XO (XO
    XH))))))))))))), (Zpos (XO (XO (XI (XI (XI (XO (XI (XO (XI (XO (XO
    XH))))))))))))) :: ((((Zpos (XO (XI (XO (XO (XO (XI (XO (XO (XI (XO (XO
    XH)))))))))))), (Zpos (XO (XO (XI (XI (XI (XI (XO (XO (XI (XO (XO
    XH))))))))))))), (Zpos (XI (XO (XI (XI (XI (XO (XI (XO (XI (XO (XO
    XH))))))))))))) :: ((((Zpos (XO (XO (XO (XI (XO (XI (XO (XO (XI (XO (XO
    XH)))))))))))), (Zpos (XO (XO (XI (XI (XI (XI (XO (XO (XI (XO (XO
    XH))))))))))))), (Zpos (XI (XO (XO (XI (XO (XI (XO (XO (XI (XO (XO
    XH))))))))))))) :: ((((Zpos (XI (XI (XO (XI (XO (XI (XO (XO (XI (XO (XO
    XH)))))))))))), (Zpos (XO (XO (XI (XI (XI (XI (XO (XO (XI (XO (XO
    XH))))))))))))), (Zpos (XO (XI (XI (XI (XI (XO (XI (XO (XI (XO (XO
    XH))))))))))))) :: ((((Zpos (XI (XI (XI (XI (XO (XI (XO (XO (XI (XO (XO
    XH)))))))))))), (Zpos (XO (XO (XI (XI (XI (XI (XO (XO (XI (XO (XO
    XH))))))))))))), (Zpos (XI (XI (XI (XI (XI (XO (XI (XO (XI (XO (XO
    XH))))))))))))) :: ((((Zpos (XO (XO (XO (XO (XI (XI (XO (XO (XI (XO (XO
    XH)))))))))))), (Zpos (XO (XO (XI (XI (XI (XI (XO (XO (XI (XO (XO
    XH))))))))))))), (Zpos (XI (XO (XO (XO (XI (XI (XO (XO (XI (XO (XO
    XH))))))))))))) :: ((((Zpos (XI (XI (XO (XO (XI (XI (XO (XO (XI (XO (XO
    XH)))))))))))), (Zpos (XO (XO (XI (XI (XI (XI (XO (XO (XI (XO (XO
    XH))))))))))))), (Zpos (XO (XO (XI (XO (XI (XI (XO (XO (XI (XO (XO
    XH))))))))))))) :: ((((Zpos (XI (XO (XO (XO (XO (XI (XO (XI (XI (XO (XO
    XH)))))))))))), (Zpos (XO (XO (XI (XI (XI (XI (XO (XI (XI (XO (XO
    XH))))))))))))), (Zpos (XO (XO (XI (XI (XI (XO (XI (XI (XI (XO (XO
    XH))))))))))))) :: ((((Zpos (XO (XI (XO (XO (XO (XI (XO (XI (XI (XO (XO
    XH)))))))))))), (Zpos (XO (XO (XI (XI (XI (XI (XO (XI (XI (XO (XO
    XH))))))))))))), (Zpos (XI (XO (XI (XI (XI (XO (XI (XI (XI (XO (XO
    XH))))))))))))) :: ((((Zpos (XI (XI (XI (XI (XO (XI (XO (XI (XI (XO (XO
    XH)))))))))))), (Zpos (XO (XO (XI (XI (XI (XI (XO (XI (XI (XO (XO
    XH))))))))))))), (Zpos (XI (XI (XI (XI (XI (XO (XI (XI (XI (XO (XO
    XH))))))))))))) :: ((((Zpos (XI (XI (XI (XO (XO (XO (XI (XI (XI (XO (XO
    XH)))))))))))), (Zpos (XO (XI (XI (XI (XI (XI (XO (XI (XI (XO (XO
    XH))))))))))))), (Zpos (XI (XI (XO (XI (XO (XO (XI (XI (XI (XO (XO
    XH))))))))))))) :: ((((Zpos (XI (XI (XI (XO (XO (XO (XI (XI (XI (XO (XO
    XH)))))))))))), (Zpos (XI (XI (XI (XO (XI (XO (XI (XI (XI (XO (XO
    XH))))))))))))), (Zpos (XO (XO (XI (XI (XO (XO (XI (XI (XI (XO (XO
    XH))))))))))))) :: ((((Zpos (XO (XI (XI (XO (XI (XO (XO (XO (XO (XI (XO
    XH)))))))))))), (Zpos (XO (XO (XI (XI (XI (XI (XO (XO (XO (XI (XO
    XH))))))))))))), (Zpos (XI (XO (XO (XI (XI (XO (XI (XO (XO (XI (XO
    XH))))))))))))) :: ((((Zpos (XI (XI (XI (XO (XI (XO (XO (XO (XO (XI (XO
    XH)))))))))))), (Zpos (XO (XO (XI (XI (XI (XI (XO (XO (XO (XI (XO
    XH))))))))))))), (Zpos (XO (XI (XO (XI (XI (XO (XI (XO (XO (XI (XO
    XH))))))))))))) :: ((((Zpos (XO (XO (XI (XI (XI (XO (XO (XO (XO (XI (XO
    XH)))))))))))), (Zpos (XO (XO (XI (XI (XI (XI (XO (XO (XO (XI (XO
    XH))))))))))))), (Zpos (XI (XI (XO (XI (XI (XO (XI (XO (XO (XI (XO
    XH))))))))))))) :: ((((Zpos (XI (XI (XO (XI (XO (XI (XO (XO (XO (XI (XO
    XH)))))))))))), (Zpos (XO (XO (XI (XI (XI (XI (XO (XO (XO (XI (XO
    XH))))))))))))), (Zpos (XO (XI (XI (XI (XI (XO (XI (XO (XO (XI (XO
    XH))))))))))))) :: ((((Zpos (XO (XI (XO (XO (XI (XI (XO (XO (XO (XI (XO
    XH)))))))))))), (Zpos (XO (XO (XI (XI (XI (XI (XO (XO (XO (XI (XO
    XH))))))))))))), (Zpos (XI (XI (XO (XO (XI (XI (XO (XO (XO (XI (XO
    XH))))))))))))) :: ((((Zpos (XO (XO (XO (XI (XI (XI (XO (XO (XO (XI (XO
    XH)))))))))))), (Zpos (XO (XO (XI (XI (XI (XI (XO (XO (XO (XI (XO
    XH))))))))))))), (Zpos (XO (XI (XI (XO (XI (XI (XO (XO (XO (XI (XO
    XH))))))))))))) :: ((((Zpos (XI (XO (XO (XO (XO (XI (XO (XO (XI (XI (XO
    XH)))))))))))), (Zpos (XO (XO (XI (XI (XI (XI (XO (XO (XI (XI (XO
    XH))))))))))))), (Zpos (XO (XO (XI (XI (XI (XO (XI (XO (XI (XI (XO
    XH))))))))))))) :: ((((Zpos (XO (XI (XO (XO (XO (XI (XO (XO (XI (XI (XO
    XH)))))))))))), (Zpos (XO (XO (XI (XI (XI (XI (XO (XO (XI (XI (XO
    XH))))))))))))), (Zpos (XI (XO (XI (XI (XI (XO (XI (XO (XI (XI (XO
    XH))))))))))))) :: ((((Zpos (XI (XI (XI (XO (XO (XO (XI (XO (XI (XI (XO
    XH)))))))))))), (Zpos (XO (XI (XI (XI (XI (XI (XO (XO (XI (XI (XO
    XH))))))))))))), (Zpos (XI (XI (XO (XI (XO (XO (XI (XO (XI (XI (XO
    XH))))))))))))) :: ((((Zpos (XI (XI (XI (XO (XO (XO (XI (XO (XI (XI (XO
    XH)))))))))))), (Zpos (XO (XI (XI (XO (XI (XO (XI (XO (XI (XI (XO
    XH))))))))))))), (Zpos (XO (XO (XO (XI (XO (XO (XI (XO (XI (XI (XO
    XH))))))))))))) :: ((((Zpos (XI (XI (XI (XO (XO (XO (XI (XO (XI (XI (XO
    XH)))))))))))), (Zpos (XI (XI (XI (XO (XI (XO (XI (XO (XI (XI (XO
    XH))))))))))))), (Zpos (XO (XO (XI (XI (XO (XO (XI (XO (XI (XI (XO
    XH))))))))))))) :: ((((Zpos (XO (XI (XO (XO (XI (XO (XO (XI (XI (XI (XO
    XH)))))))))))), (Zpos (XI (XI (XI (XO (XI (XO (XI (XI (XI (XI (XO
    XH))))))))))))), (Zpos (XO (XO (XI (XO (XI (XO (XO (XI (XI (XI (XO
    XH))))))))))))) :: ((((Zpos (XO (XI (XI (XO (XO (XO (XI (XI (XI (XI (XO
    XH)))))))))))), (Zpos (XO (XI (XI (XI (XI (XI (XO (XI (XI (XI (XO
    XH))))))))))))), (Zpos (XO (XI (XO (XI (XO (XO (XI (XI (XI (XI (XO
    XH))))))))))))) :: ((((Zpos (XO (XI (XI (XO (XO (XO (XI (XI (XI (XI (XO
    XH)))))))))))), (Zpos (XI (XI (XI (XO (XI (XO (XI (XI (XI (XI (XO
    XH))))))))))))), (Zpos (XO (XO (XI (XI (XO (XO (XI (XI (XI (XI (XO
    XH))))))))))))) :: ((((Zpos (XI (XI (XI (XO (XO (XO (XI (XI (XI (XI (XO
    XH)))))))))))), (Zpos (XO (XI (XI (XI (XI (XI (XO (XI (XI (XI (XO
    XH))))))))))))), (Zpos (XI (XI (XO (XI (XO (XO (XI (XI (XI (XI (XO
    XH))))))))))))) :: ((((Zpos (XO (XI (XI (XO (XO (XO (XI (XO (XO (XO (XI
    XH)))))))))))), (Zpos (XO (XI (XI (XO (XI (XO (XI (XO (XO (XO (XI
    XH))))))))))))), (Zpos (XO (XO (XO (XI (XO (XO (XI (XO (XO (XO (XI
    XH))))))))))))) :: ((((Zpos (XI (XI (XI (XI (XI (XI (XO (XI (XO (XO (XI
    XH)))))))))))), (Zpos (XI (XO (XI (XO (XI (XO (XI (XI (XO (XO (XI
    XH))))))))))))), (Zpos (XO (XO (XO (XO (XO (XO (XI (XI (XO (XO (XI
    XH))))))))))))) :: ((((Zpos (XO (XI (XI (XO (XO (XO (XI (XI (XO (XO (XI
    XH)))))))))))), (Zpos (XO (XI (XO (XO (XO (XO (XI (XI (XO (XO (XI
    XH))))))))))))), (Zpos (XO (XI (XO (XI (XO (XO (XI (XI (XO (XO (XI
    XH))))))))))))) :: ((((Zpos (XO (XI (XI (XO (XO (XO (XI (XI (XO (XO (XI
    XH)))))))))))), (Zpos (XI (XO (XI (XO (XI (XO (XI (XI (XO (XO (XI
    XH))))))))))))), (Zpos (XI (XI (XI (XO (XO (XO (XI (XI (XO (XO (XI
    XH))))))))))))) :: ((((Zpos (XO (XI (XI (XO (XO (XO (XI (XI (XO (XO (XI
    XH)))))))))))), (Zpos (XO (XI (XI (XO (XI (XO (XI (XI (XO (XO (XI
    XH))))))))))))), (Zpos (XO (XO (XO (XI (XO (XO (XI (XI (XO (XO (XI
    XH))))))))))))) :: ((((Zpos (XO (XI (XO (XI (XO (XO (XI (XI (XO (XO (XI
    XH)))))))))))), (Zpos (XI (XO (XI (XO (XI (XO (XI (XI (XO (XO (XI
    XH))))))))))))), (Zpos (XI (XI (XO (XI (XO (XO (XI (XI (XO (XO (XI
    XH))))))))))))) :: ((((Zpos (XO (XI (XI (XO (XO (XO (XI (XO (XI (XO (XI
    XH)))))))))))), (Zpos (XO (XI (XI (XI (XI (XI (XO (XO (XI (XO (XI
    XH))))))))))))), (Zpos (XO (XI (XO (XI (XO (XO (XI (XO (XI (XO (XI
    XH))))))))))))) :: ((((Zpos (XO (XI (XI (XO (XO (XO (XI (XO (XI (XO (XI
    XH)))))))))))), (Zpos (XI (XI (XI (XO (XI (XO (XI (XO (XI (XO (XI
    XH))))))))))))), (Zpos (XO (XO (XI (XI (XO (XO (XI (XO (XI (XO (XI
    XH))))))))))))) :: ((((Zpos (XI (XI (XI (XO (XO (XO (XI (XO (XI (XO (XI
    XH)))))))))))), (Zpos (XO (XI (XI (XI (XI (XI (XO (XO (XI (XO (XI
    XH))))))))))))), (Zpos (XI (XI (XO (XI (XO (XO (XI (XO (XI (XO (XI
    XH))))))))))))) :: ((((Zpos (XI (XO (XO (XI (XI (XO (XI (XI (XI (XO (XI
    XH)))))))))))), (Zpos (XO (XI (XO (XI (XO (XO (XI (XI (XI (XO (XI
    XH))))))))))))), (Zpos (XO (XI (XO (XI (XI (XO (XI (XI (XI (XO (XI
    XH))))))))))))) :: ((((Zpos (XI (XO (XO (XI (XI (XO (XI (XI (XI (XO (XI
    XH)))))))))))), (Zpos (XI (XI (XI (XI (XO (XO (XI (XI (XI (XO (XI
    XH))))))))))))), (Zpos (XO (XO (XI (XI (XI (XO (XI (XI (XI (XO (XI
    XH))))))))))))) :: ((((Zpos (XI (XO (XO (XI (XI (XO (XI (XI (XI (XO (XI
    XH)))))))))))), (Zpos (XI (XI (XI (XI (XI (XO (XI (XI (XI (XO (XI
    XH))))))))))))), (Zpos (XO (XI (XI (XI (XI (XO (XI (XI (XI (XO (XI
    XH))))))))))))) :: ((((Zpos (XO (XO (XI (XI (XI (XO (XI (XI (XI (XO (XI
    XH)))))))))))), (Zpos (XO (XI (XO (XI (XO (XO (XI (XI (XI (XO (XI
    XH))))))))))))), (Zpos (XI (XO (XI (XI (XI (XO (XI (XI (XI (XO (XI
    XH))))))))))))) :: ((((Zpos (XO (XO (XO (XO (XO (XO (XI (XO (XI (XI (XI
    XH)))))))))))), (Zpos (XI (XO (XI (XO (XI (XI (XO (XI (XI (XI (XI
    XH))))))))))))), (Zpos (XI (XO (XO (XI (XO (XI (XI (XO (XI (XI (XI
    XH))))))))))))) :: ((((Zpos (XO (XI (XO (XO (XO (XO (XI (XO (XI (XI (XI
    XH)))))))))))), (Zpos (XI (XI (XI (XO (XI (XI (XO (XI (XI (XI (XI
    XH))))))))))))), (Zpos (XI (XI (XO (XO (XO (XO (XI (XO (XI (XI (XI
    XH))))))))))))) :: ((((Zpos (XO (XO (XI (XI (XO (XO (XI (XO (XI (XI (XI
    XH)))))))))))), (Zpos (XI (XI (XI (XO (XI (XI (XO (XI (XI (XI (XI
    XH))))))))))))), (Zpos (XI (XO (XI (XI (XO (XO (XI (XO (XI (XI (XI
    XH))))))))))))) :: ((((Zpos (XI (XO (XO (XO (XI (XO (XI (XO (XI (XI (XI
    XH)))))))))))), (Zpos (XI (XI (XI (XO (XI (XI (XO (XI (XI (XI (XI
    XH))))))))))))), (Zpos (XO (XI (XO (XO (XI (XO (XI (XO (XI (XI (XI
    XH))))))))))))) :: ((((Zpos (XO (XI (XI (XO (XI (XO (XI (XO (XI (XI (XI
    XH)))))))))))), (Zpos (XI (XI (XI (XO (XI (XI (XO (XI (XI (XI (XI
    XH))))))))))))), (Zpos (XI (XI (XI (XO (XI (XO (XI (XO (XI (XI (XI
    XH))))))))))))) :: ((((Zpos (XI (XI (XO (XI (XI (XO (XI (XO (XI (XI (XI
    XH)))))))))))), (Zpos (XI (XI (XI (XO (XI (XI (XO (XI (XI (XI (XI
    XH))))))))))))), (Zpos (XO (XO (XI (XI (XI (XO (XI (XO (XI (XI (XI
    XH))))))))))))) :: ((((Zpos (XO (XO (XO (XO (XI (XO (XO (XI (XI (XI (XI
    XH)))))))))))), (Zpos (XI (XO (XI (XO (XI (XI (XO (XI (XI (XI (XI
    XH))))))))))))), (Zpos (XI (XO (XO (XI (XI (XI (XO (XI (XI (XI (XI
    XH))))))))))))) :: ((((Zpos (XO (XI (XO (XO (XI (XO (XO (XI (XI (XI (XI
    XH)))))))))))), (Zpos (XI (XI (XI (XO (XI (XI (XO (XI (XI (XI (XI
    XH))))))))))))), (Zpos (XI (XI (XO (XO (XI (XO (XO (XI (XI (XI (XI
    XH))))))))))))) :: ((((Zpos (XO (XO (XI (XI (XI (XO (XO (XI (XI (XI (XI
    XH)))))))))))), (Zpos (XI (XI (XI (XO (XI (XI (XO (XI (XI (XI (XI
    XH))))))))))))), (Zpos (XI (XO (XI (XI (XI (XO (XO (XI (XI (XI (XI
    XH))))))))))))) :: ((((Zpos (XI (XO (XO (XO (XO (XI (XO (XI (XI (XI (XI
    XH)))))))))))), (Zpos (XI (XI (XI (XO (XI (XI (XO (XI (XI (XI (XI
    XH))))))))))))), (Zpos (XO (XI (XO (XO (XO (XI (XO (XI (XI (XI (XI
    XH))))))))))))) :: ((((Zpos (XO (XI (XI (XO (XO (XI (XO (XI (XI (XI (XI
    XH)))))))))))), (Zpos (XI (XI (XI (XO (XI (XI (XO (XI (XI (XI (XI
    XH))))))))))))), (Zpos (XI (XI (XI (XO (XO (XI (XO (XI (XI (XI (XI
    XH))))))))))))) :: ((((Zpos (XI (XI (XO (XI (XO (XI (XO (XI (XI (XI (XI
    XH)))))))))))), (Zpos (XI (XI (XI (XO (XI (XI (XO (XI (XI (XI (XI
    XH))))))))))))), (Zpos (XO (XO (XI (XI (XO (XI (XO (XI (XI (XI (XI
    XH))))))))))))) :: ((((Zpos (XO (XI (XO (XO (XI (XI (XO (XI (XI (XI (XI
    XH)))))))))))), (Zpos (XO (XO (XO (XO (XO (XO (XO (XI (XI (XI (XI
    XH))))))))))))), (Zpos (XO (XI (XI (XO (XI (XI (XI (XO (XI (XI (XI
    XH))))))))))))) :: ((((Zpos (XI (XI (XO (XO (XI (XI (XO (XI (XI (XI (XI
    XH)))))))))))), (Zpos (XO (XO (XO (XO (XO (XO (XO (XI (XI (XI (XI
    XH))))))))))))), (Zpos (XO (XO (XO (XI (XI (XI (XI (XO (XI (XI (XI
    XH))))))))))))) :: ((((Zpos (XI (XO (XI (XO (XO (XI (XO (XO (XO (XO (XO
    (XO XH))))))))))))), (Zpos (XO (XI (XI (XI (XO (XI (XO (XO (XO (XO (XO
    (XO XH)))))))))))))), (Zpos (XO (XI (XI (XO (XO (XI (XO (XO (XO (XO (XO
    (XO XH)))))))))))))) :: ((((Zpos (XI (XO (XI (XO (XO (XO (XO (XO (XI (XI
    (XO (XI XH))))))))))))), (Zpos (XI (XO (XI (XO (XI (XI (XO (XO (XI (XI
    (XO (XI XH)))))))))))))), (Zpos (XO (XI (XI (XO (XO (XO (XO (XO (XI (XI
    (XO (XI XH)))))))))))))) :: ((((Zpos (XI (XI (XI (XO (XO (XO (XO (XO (XI
    (XI (XO (XI XH))))))))))))), (Zpos (XI (XO (XI (XO (XI (XI (XO (XO (XI
    (XI (XO (XI XH)))))))))))))), (Zpos (XO (XO (XO (XI (XO (XO (XO (XO (XI
    (XI (XO (XI XH)))))))))))))) :: ((((Zpos (XI (XO (XO (XI (XO (XO (XO (XO
    (XI (XI (XO (XI XH))))))))))))), (Zpos (XI (XO (XI (XO (XI (XI (XO (XO
    (XI (XI (XO (XI XH)))))))))))))), (Zpos (XO (XI (XO (XI (XO (XO (XO (XO
    (XI (XI (XO (XI XH)))))))))))))) :: ((((Zpos (XI (XI (XO (XI (XO (XO (XO
    (XO (XI (XI (XO (XI XH))))))))))))), (Zpos (XI (XO (XI (XO (XI (XI (XO
    (XO (XI (XI (XO (XI XH)))))))))))))), (Zpos (XO (XO (XI (XI (XO (XO (XO
    (XO (XI (XI (XO (XI XH)))))))))))))) :: ((((Zpos (XI (XO (XI (XI (XO (XO
    (XO (XO (XI (XI (XO (XI XH))))))))))))), (Zpos (XI (XO (XI (XO (XI (XI
    (XO (XO (XI (XI (XO (XI XH)))))))))))))), (Zpos (XO (XI (XI (XI (XO (XO
    (XO (XO (XI (XI (XO (XI XH)))))))))))))) :: ((((Zpos (XI (XO (XO (XO (XI
    (XO (XO (XO (XI (XI (XO (XI XH))))))))))))), (Zpos (XI (XO (XI (XO (XI
    (XI (XO (XO (XI (XI (XO (XI XH)))))))))))))), (Zpos (XO (XI (XO (XO (XI
    (XO (XO (XO (XI (XI (XO (XI XH)))))))))))))) :: ((((Zpos (XO (XI (XO (XI
    (XI (XI (XO (XO (XI (XI (XO (XI XH))))))))))))), (Zpos (XI (XO (XI (XO
    (XI (XI (XO (XO (XI (XI (XO (XI XH)))))))))))))), (Zpos (XI (XI (XO (XI
    (XI (XI (XO (XO (XI (XI (XO (XI XH)))))))))))))) :: ((((Zpos (XO (XO (XI
    (XI (XI (XI (XO (XO (XI (XI (XO (XI XH))))))))))))), (Zpos (XI (XO (XI
    (XO (XI (XI (XO (XO (XI (XI (XO (XI XH)))))))))))))), (Zpos (XI (XO (XI
    (XI (XI (XI (XO (XO (XI (XI (XO (XI XH)))))))))))))) :: ((((Zpos (XO (XI
    (XI (XI (XI (XI (XO (XO (XI (XI (XO (XI XH))))))))))))), (Zpos (XI (XO
    (XI (XO (XI (XI (XO (XO (XI (XI (XO (XI XH)))))))))))))), (Zpos (XO (XO
    (XO (XO (XO (XO (XI (XO (XI (XI (XO (XI XH)))))))))))))) :: ((((Zpos (XI
    (XI (XI (XI (XI (XI (XO (XO (XI (XI (XO (XI XH))))))))))))), (Zpos (XI
    (XO (XI (XO (XI (XI (XO (XO (XI (XI (XO (XI XH)))))))))))))), (Zpos (XI
    (XO (XO (XO (XO (XO (XI (XO (XI (XI (XO (XI XH)))))))))))))) :: ((((Zpos
    (XO (XI (XO (XO (XO (XO (XI (XO (XI (XI (XO (XI XH))))))))))))), (Zpos
    (XI (XO (XI (XO (XI (XI (XO (XO (XI (XI (XO (XI XH)))))))))))))), (Zpos
    (XI (XI (XO (XO (XO (XO (XI (XO (XI (XI (XO (XI
    XH)))))))))))))) :: ((((Zpos (XO (XI (XI (XO (XI (XI (XO (XO (XO (XI (XI
    (XI XH))))))))))))), (Zpos (XO (XO (XI (XO (XO (XO (XO (XO (XI
    XH))))))))))), (Zpos (XO (XO (XO (XI (XI (XI (XO (XO (XO (XI (XI (XI
    XH)))))))))))))) :: ((((Zpos (XI (XI (XI (XO (XI (XI (XO (XO (XO (XI (XI
    (XI XH))))))))))))), (Zpos (XO (XO (XI (XO (XO (XO (XO (XO (XI
    XH))))))))))), (Zpos (XI (XO (XO (XI (XI (XI (XO (XO (XO (XI (XI (XI
    XH)))))))))))))) :: ((((Zpos (XO (XI (XO (XI (XI (XO (XI (XO (XO (XI (XI
    (XI XH))))))))))))), (Zpos (XO (XO (XI (XO (XO (XO (XO (XO (XI
    XH))))))))))), (Zpos (XO (XO (XI (XI (XI (XO (XI (XO (XO (XI (XI (XI
    XH)))))))))))))) :: ((((Zpos (XI (XI (XO (XI (XI (XO (XI (XO (XO (XI (XI
    (XI XH))))))))))))), (Zpos (XO (XO (XI (XO (XO (XO (XO (XO (XI
    XH))))))))))), (Zpos (XI (XO (XI (XI (XI (XO (XI (XO (XO (XI (XI (XI
    XH)))))))))))))) :: ((((Zpos (XO (XI (XO (XO (XO (XI (XI (XO (XO (XI (XI
    (XI XH))))))))))))), (Zpos (XI (XI (XI (XO (XO (XO (XO (XO (XI
    XH))))))))))), (Zpos (XO (XO (XO (XI (XO (XI (XI (XO (XO (XI (XI (XI
    XH)))))))))))))) :: ((((Zpos (XI (XI (XO (XO (XO (XI (XI (XO (XO (XI (XI
    (XI XH))))))))))))), (Zpos (XI (XI (XI (XO (XO (XO (XO (XO (XI
    XH))))))))))), (Zpos (XI (XO (XO (XI (XO (XI (XI (XO (XO (XI (XI (XI
    XH)))))))))))))) :: ((((Zpos (XO (XO (XO (XO (XO (XI (XO (XI (XO (XI (XI
    (XI XH))))))))))))), (Zpos (XO (XI (XO (XO (XO (XO (XO (XO (XI
    XH))))))))))), (Zpos (XO (XO (XI (XI (XO (XI (XO (XI (XO (XI (XI (XI
    XH)))))))))))))) :: ((((Zpos (XO (XO (XO (XO (XO (XI (XO (XI (XO (XI (XI
    (XI XH))))))))))))), (Zpos (XO (XI (XI (XO (XO (XO (XO (XO (XI
    XH))))))))))), (Zpos (XO (XI (XI (XO (XI (XI (XO (XI (XO (XI (XI (XI
    XH)))))))))))))) :: ((((Zpos (XI (XO (XO (XO (XO (XI (XO (XI (XO (XI (XI
    (XI XH))))))))))))), (Zpos (XO (XI (XO (XO (XO (XO (XO (XO (XI
    XH))))))))))), (Zpos (XI (XO (XI (XI (XO (XI (XO (XI (XO (XI (XI (XI
    XH)))))))))))))) :: ((((Zpos (XI (XO (XO (XO (XO (XI (XO (XI (XO (XI (XI
    (XI XH))))))))))))), (Zpos (XO (XI (XI (XO (XO (XO (XO (XO (XI
    XH))))))))))), (Zpos (XI (XI (XI (XO (XI (XI (XO (XI (XO (XI (XI (XI
    XH)))))))))))))) :: ((((Zpos (XO (XO (XO (XI (XI (XI (XO (XI (XO (XI (XI
    (XI XH))))))))))))), (Zpos (XO (XI (XO (XO (XO (XO (XO (XO (XI
    XH))))))))))), (Zpos (XO (XI (XI (XO (XO (XO (XI (XI (XO (XI (XI (XI
    XH)))))))))))))) :: ((((Zpos (XI (XO (XO (XI (XI (XI (XO (XI (XO (XI (XI
    (XI XH))))))))))))), (Zpos (XO (XI (XO (XO (XO (XO (XO (XO (XI
    XH))))))))))), (Zpos (XI (XI (XI (XO (XO (XO (XI (XI (XO (XI (XI (XI
    XH)))))))))))))) :: ((((Zpos (XO (XO (XI (XI (XO (XO (XI (XI (XO (XI (XI
    (XI XH))))))))))))), (Zpos (XO (XI (XO (XO (XO (XO (XO (XO (XI
    XH))))))))))), (Zpos (XO (XO (XO (XI (XI (XO (XI (XI (XO (XI (XI (XI
    XH)))))))))))))) :: ((((Zpos (XI (XO (XI (XI (XO (XO (XI (XI (XO (XI (XI
    (XI XH))))))))))))), (Zpos (XO (XI (XO (XO (XO (XO (XO (XO (XI
    XH))))))))))), (Zpos (XI (XO (XO (XI (XI (XO (XI (XI (XO (XI (XI (XI
    XH)))))))))))))) :: ((((Zpos (XO (XO (XO (XO (XO (XO (XO (XO (XI (XI (XI
    (XI XH))))))))))))), (Zpos (XO (XO (XO (XO (XO (XO (XO (XO (XI
    XH))))))))))), (Zpos (XO (XI (XO (XO (XO (XO (XO (XO (XI (XI (XI (XI
    XH)))))))))))))) :: ((((Zpos (XO (XO (XO (XO (XO (XO (XO (XO (XI (XI (XI
    (XI XH))))))))))))), (Zpos (XI (XO (XO (XO (XO (XO (XO (XO (XI
    XH))))))))))), (Zpos (XO (XO (XI (XO (XO (XO (XO (XO (XI (XI (XI (XI
    XH)))))))))))))) :: ((((Zpos (XO (XO (XO (XO (XO (XO (XO (XO (XI (XI (XI
    (XI XH))))))))))))), (Zpos (XO (XI (XO (XO (XO (XO (XI (XO (XI
    XH))))))))))), (Zpos (XO (XI (XI (XO (XO (XO (XO (XO (XI (XI (XI (XI
    XH)))))))))))))) :: ((((Zpos (XO (XO (XO (XO (XO (XO (XO (XO (XI (XI (XI
    (XI XH))))))))))))), (Zpos (XI (XO (XI (XO (XO (XO (XI (XO (XI
    XH))))))))))), (Zpos (XO (XO (XO (XO (XO (XO (XO (XI (XI (XI (XI (XI
    XH)))))))))))))) :: ((((Zpos (XI (XO (XO (XO (XO (XO (XO (XO (XI (XI (XI
    (XI XH))))))))))))), (Zpos (XO (XO (XO (XO (XO (XO (XO (XO (XI
    XH))))))))))), (Zpos (XI (XI (XO (XO (XO (XO (XO (XO (XI (XI (XI (XI
    XH)))))))))))))) :: ((((Zpos (XI (XO (XO (XO (XO (XO (XO (XO (XI (XI (XI
    (XI XH))))))))))))), (Zpos (XI (XO (XO (XO (XO (XO (XO (XO (XI
    XH))))))))))), (Zpos (XI (XO (XI (XO (XO (XO (XO (XO (XI (XI (XI (XI
    XH)))))))))))))) :: ((((Zpos (XI (XO (XO (XO (XO (XO (XO (XO (XI (XI (XI
    (XI XH))))))))))))), (Zpos (XO (XI (XO (XO (XO (XO (XI (XO (XI
    XH))))))))))), (Zpos (XI (XI (XI (XO (XO (XO (XO (XO (XI (XI (XI (XI
    XH)))))))))))))) :: ((((Zpos (XI (XO (XO (XO (XO (XO (XO (XO (XI (XI (XI
    (XI XH))))))))))))), (Zpos (XI (XO (XI (XO (XO (XO (XI (XO (XI
    XH))))))))))), (Zpos (XI (XO (XO (XO (XO (XO (XO (XI (XI (XI (XI (XI
    XH)))))))))))))) :: ((((Zpos (XO (XI (XO (XO (XO (XO (XO (XO (XI (XI (XI
    (XI XH))))))))))))), (Zpos (XI (XO (XI (XO (XO (XO (XI (XO (XI
    XH))))))))))), (Zpos (XO (XI (XO (XO (XO (XO (XO (XI (XI (XI (XI (XI
    XH)))))))))))))) :: ((((Zpos (XI (XI (XO (XO (XO (XO (XO (XO (XI (XI (XI
    (XI XH))))))))))))), (Zpos (XI (XO (XI (XO (XO (XO (XI (XO (XI
    XH))))))))))), (Zpos (XI (XI (XO (XO (XO (XO (XO (XI (XI (XI (XI (XI
    XH)))))))))))))) :: ((((Zpos (XO (XO (XI (XO (XO (XO (XO (XO (XI (XI (XI
    (XI XH))))))))))))), (Zpos (XI (XO (XI (XO (XO (XO (XI (XO (XI
    XH))))))))))), (Zpos (XO (XO (XI (XO (XO (XO (XO (XI (XI (XI (XI (XI
    XH)))))))))))))) :: ((((Zpos (XI (XO (XI (XO (XO (XO (XO (XO (XI (XI (XI
    (XI XH))))))))))))), (Zpos (XI (XO (XI (XO (XO (XO (XI (XO (XI
    XH))))))))))), (Zpos (XI (XO (XI (XO (XO (XO (XO (XI (XI (XI (XI (XI
    XH)))))))))))))) :: ((((Zpos (XO (XI (XI (XO (XO (XO (XO (XO (XI (XI (XI
    (XI XH))))))))))))), (Zpos (XI (XO (XI (XO (XO (XO (XI (XO (XI
    XH))))))))))), (Zpos (XO (XI (XI (XO (XO (XO (XO (XI (XI (XI (XI (XI
    XH)))))))))))))) :: ((((Zpos (XI (XI (XI (XO (XO (XO (XO (XO (XI (XI (XI
    (XI XH))))))))))))), (Zpos (XI (XO (XI (XO (XO (XO (XI (XO (XI
    XH))))))))))), (Zpos (XI (XI (XI (XO (XO (XO (XO (XI (XI (XI (XI (XI
    XH)))))))))))))) :: ((((Zpos (XO (XO (XO (XI (XO (XO (XO (XO (XI (XI (XI
    (XI XH))))))))))))), (Zpos (XO (XO (XO (XO (XO (XO (XO (XO (XI
    XH))))))))))), (Zpos (XO (XI (XO (XI (XO (XO (XO (XO (XI (XI (XI (XI
    XH)))))))))))))) :: ((((Zpos (XO (XO (XO (XI (XO (XO (XO (XO (XI (XI (XI
    (XI XH))))))))))))), (Zpos (XI (XO (XO (XO (XO (XO (XO (XO (XI
    XH))))))))))), (Zpos (XO (XO (XI (XI (XO (XO (XO (XO (XI (XI (XI (XI
    XH)))))))))))))) :: ((((Zpos (XO (XO (XO (XI (XO (XO (XO (XO (XI (XI (XI
    (XI XH))))))))))))), (Zpos (XO (XI (XO (XO (XO (XO (XI (XO (XI
    XH))))))))))), (Zpos (XO (XI (XI (XI (XO (XO (XO (XO (XI (XI (XI (XI
    XH)))))))))))))) :: ((((Zpos (XO (XO (XO (XI (XO (XO (XO (XO (XI (XI (XI
    (XI XH))))))))))))), (Zpos (XI (XO (XI (XO (XO (XO (XI (XO (XI
    XH))))))))))), (Zpos (XO (XO (XO (XI (XO (XO (XO (XI (XI (XI (XI (XI
    XH)))))))))))))) :: ((((Zpos (XI (XO (XO (XI (XO (XO (XO (XO (XI (XI (XI
    (XI XH))))))))))))), (Zpos (XO (XO (XO (XO (XO (XO (XO (XO (XI
    XH))))))))))), (Zpos (XI (XI (XO (XI (XO (XO (XO (XO (XI (XI (XI (XI
    XH)))))))))))))) :: ((((Zpos (XI (XO (XO (XI (XO (XO (XO (XO (XI (XI (XI
    (XI XH))))))))))))), (Zpos (XI (XO (XO (XO (XO (XO (XO (XO (XI
    XH))))))))))), (Zpos (XI (XO (XI (XI (XO (XO (XO (XO (XI (XI (XI (XI
    XH)))))))))))))) :: ((((Zpos (XI (XO (XO (XI (XO (XO (XO (XO (XI (XI (XI
    (XI XH))))))))))))), (Zpos (XO (XI (XO (XO (XO (XO (XI (XO (XI
    XH))))))))))), (Zpos (XI (XI (XI (XI (XO (XO (XO (XO (XI (XI (XI (XI
    XH)))))))))))))) :: ((((Zpos (XI (XO (XO (XI (XO (XO (XO (XO (XI (XI (XI
    (XI XH))))))))))))), (Zpos (XI (XO (XI (XO (XO (XO (XI (XO (XI
    XH))))))))))), (Zpos (XI (XO (XO (XI (XO (XO (XO (XI (XI (XI (XI (XI
    XH)))))))))))))) :: ((((Zpos (XO (XI (XO (XI (XO (XO (XO (XO (XI (XI (XI
    (XI XH))))))))))))), (Zpos (XI (XO (XI (XO (XO (XO (XI (XO (XI
    XH))))))))))), (Zpos (XO (XI (XO (XI (XO (XO (XO (XI (XI (XI (XI (XI
    XH)))))))))))))) :: ((((Zpos (XI (XI (XO (XI (XO (XO (XO (XO (XI (XI (XI
    (XI XH))))))))))))), (Zpos (XI (XO (XI (XO (XO (XO (XI (XO (XI
    XH))))))))))), (Zpos (XI (XI (XO (XI (XO (XO (XO (XI (XI (XI (XI (XI
    XH)))))))))))))) :: ((((Zpos (XO (XO (XI (XI (XO (XO (XO (XO (XI (XI (XI
    (XI XH))))))))))))), (Zpos (XI (XO (XI (XO (XO (XO (XI (XO (XI
    XH))))))))))), (Zpos (XO (XO (XI (XI (XO (XO (XO (XI (XI (XI (XI (XI
    XH)))))))))))))) :: ((((Zpos (XI (XO (XI (XI (XO (XO (XO (XO (XI (XI (XI
    (XI XH))))))))))))), (Zpos (XI (XO (XI (XO (XO (XO (XI (XO (XI
    XH))))))))))), (Zpos (XI (XO (XI (XI (XO (XO (XO (XI (XI (XI (XI (XI
    XH)))))))))))))) :: ((((Zpos (XO (XI (XI (XI (XO (XO (XO (XO (XI (XI (XI
    (XI XH))))))))))))), (Zpos (XI (XO (XI (XO (XO (XO (XI (XO (XI
    XH))))))))))), (Zpos (XO (XI (XI (XI (XO (XO (XO (XI (XI (XI (XI (XI
    XH)))))))))))))) :: ((((Zpos (XI (XI (XI (XI (XO (XO (XO (XO (XI (XI (XI
    (XI XH))))))))))))), (Zpos (XI (XO (XI (XO (XO (XO (XI (XO (XI
    XH))))))))))), (Zpos (XI (XI (XI (XI (XO (XO (XO (XI (XI (XI (XI (XI
    XH)))))))))))))) :: ((((Zpos (XO (XO (XO (XO (XI (XO (XO (XO (XI (XI (XI
    (XI XH))))))))))))), (Zpos (XO (XO (XO (XO (XO (XO (XO (XO (XI
    XH))))))))))), (Zpos (XO (XI (XO (XO (XI (XO (XO (XO (XI (XI (XI (XI
    XH)))))))))))))) :: ((((Zpos (XO (XO (XO (XO (XI (XO (XO (XO (XI (XI (XI
    (XI XH))))))))))))), (Zpos (XI (XO (XO (XO (XO (XO (XO (XO (XI
    XH))))))))))), (Zpos (XO (XO (XI (XO (XI (XO (XO (XO (XI (XI (XI (XI
    XH)))))))))))))) :: ((((Zpos (XI (XO (XO (XO (XI (XO (XO (XO (XI (XI (XI
    (XI XH))))))))))))), (Zpos (XO (XO (XO (XO (XO (XO (XO (XO (XI
    XH))))))))))), (Zpos (XI (XI (XO (XO (XI (XO (XO (XO (XI (XI (XI (XI
    XH)))))))))))))) :: ((((Zpos (XI (XO (XO (XO (XI (XO (XO (XO (XI (XI (XI
    (XI XH))))))))))))), (Zpos (XI (XO (XO (XO (XO (XO (XO (XO (XI
    XH))))))))))), (Zpos (XI (XO (XI (XO (XI (XO (XO (XO (XI (XI (XI (XI
    XH)))))))))))))) :: ((((Zpos (XO (XO (XO (XI (XI (XO (XO (XO (XI (XI (XI
    (XI XH))))))))))))), (Zpos (XO (XO (XO (XO (XO (XO (XO (XO (XI
    XH))))))))))), (Zpos (XO (XI (XO (XI (XI (XO (XO (XO (XI (XI (XI (XI
    XH)))))))))))))) :: ((((Zpos (XO (XO (XO (XI (XI (XO (XO (XO (XI (XI (XI
    (XI XH))))))))))))), (Zpos (XI (XO (XO (XO (XO (XO (XO (XO (XI
    XH))))))))))), (Zpos (XO (XO (XI (XI (XI (XO (XO (XO (XI (XI (XI (XI
    XH)))))))))))))) :: ((((Zpos (XI (XO (XO (XI (XI (XO (XO (XO (XI (XI (XI
    (XI XH))))))))))))), (Zpos (XO (XO (XO (XO (XO (XO (XO (XO (XI
    XH))))))))))), (Zpos (XI (XI (XO (XI (XI (XO (XO (XO (XI (XI (XI (XI
    XH)))))))))))))) :: ((((Zpos (XI (XO (XO (XI (XI (XO (XO (XO (XI (XI (XI
    (XI XH))))))))))))), (Zpos (XI (XO (XO (XO (XO (XO (XO (XO (XI
    XH))))))))))), (Zpos (XI (XO (XI (XI (XI (XO (XO (XO (XI (XI (XI (XI
    XH)))))))))))))) :: ((((Zpos (XO (XO (XO (XO (XO (XI (XO (XO (XI (XI (XI
    (XI XH))))))))))))), (Zpos (XO (XO (XO (XO (XO (XO (XO (XO (XI
    XH))))))))))), (Zpos (XO (XI (XO (XO (XO (XI (XO (XO (XI (XI (XI (XI
    XH)))))))))))))) :: ((((Zpos (XO (XO (XO (XO (XO (XI (XO (XO (XI (XI (XI
    (XI XH))))))))))))), (Zpos (XI (XO (XO (XO (XO (XO (XO (XO (XI
    XH))))))))))), (Zpos (XO (XO (XI (XO (XO (XI (XO (XO (XI (XI (XI (XI
    XH)))))))))))))) :: ((((Zpos (XO (XO (XO (XO (XO (XI (XO (XO (XI (XI (XI
    (XI XH))))))))))))), (Zpos (XO (XI (XO (XO (XO (XO (XI (XO (XI
    XH))))))))))), (Zpos (XO (XI (XI (XO (XO (XI (XO (XO (XI (XI (XI (XI
    XH)))))))))))))) :: ((((Zpos (XO (XO (XO (XO (XO (XI (XO (XO (XI (XI (XI
    (XI XH))))))))))))), (Zpos (XI (XO (XI (XO (XO (XO (XI (XO (XI
    XH))))))))))), (Zpos (XO (XO (XO (XO (XI (XO (XO (XI (XI (XI (XI (XI
    XH)))))))))))))) :: ((((Zpos (XI (XO (XO (XO (XO (XI (XO (XO (XI (XI (XI
    (XI XH))))))))))))), (Zpos (XO (XO (XO (XO (XO (XO (XO (XO (XI
    XH))))))))))), (Zpos (XI (XI (XO (XO (XO (XI (XO (XO (XI (XI (XI (XI
    XH)))))))))))))) :: ((((Zpos (XI (XO (XO (XO (XO (XI (XO (XO (XI (XI (XI
    (XI XH))))))))))))), (Zpos (XI (XO (XO (XO (XO (XO (XO (XO (XI
    XH))))))))))), (Zpos (XI (XO (XI (XO (XO (XI (XO (XO (XI (XI (XI (XI
    XH)))))))))))))) :: ((((Zpos (XI (XO (XO (XO (XO (XI (XO (XO (XI (XI (XI
    (XI XH))))))))))))), (Zpos (XO (XI (XO (XO (XO (XO (XI (XO (XI
    XH))))))))))), (Zpos (XI (XI (XI (XO (XO (XI (XO (XO (XI (XI (XI (XI
    XH)))))))))))))) :: ((((Zpos (XI (XO (XO (XO (XO (XI (XO (XO (XI (XI (XI
    (XI XH))))))))))))), (Zpos (XI (XO (XI (XO (XO (XO (XI (XO (XI
    XH))))))))))), (Zpos (XI (XO (XO (XO (XI (XO (XO (XI (XI (XI (XI (XI
    XH)))))))))))))) :: ((((Zpos (XO (XI (XO (XO (XO (XI (XO (XO (XI (XI (XI
    (XI XH))))))))))))), (Zpos (XI (XO (XI (XO (XO (XO (XI (XO (XI
    XH))))))))))), (Zpos (XO (XI (XO (XO (XI (XO (XO (XI (XI (XI (XI (XI
    XH)))))))))))))) :: ((((Zpos (XI (XI (XO (XO (XO (XI (XO (XO (XI (XI (XI
    (XI XH))))))))))))), (Zpos (XI (XO (XI (XO (XO (XO (XI (XO (XI
    XH))))))))))), (Zpos (XI (XI (XO (XO (XI (XO (XO (XI (XI (XI (XI (XI
    XH)))))))))))))) :: ((((Zpos (XO (XO (XI (XO (XO (XI (XO (XO (XI (XI (XI
    (XI XH))))))))))))), (Zpos (XI (XO (XI (XO (XO (XO (XI (XO (XI
    XH))))))))))), (Zpos (XO (XO (XI (XO (XI (XO (XO (XI (XI (XI (XI (XI
    XH)))))))))))))) :: ((((Zpos (XI (XO (XI (XO (XO (XI (XO (XO (XI (XI (XI
    (XI XH))))))))))))), (Zpos (XI (XO (XI (XO (XO (XO (XI (XO (XI
    XH))))))))))), (Zpos (XI (XO (XI (XO (XI (XO (XO (XI (XI (XI (XI (XI
    XH)))))))))))))) :: ((((Zpos (XO (XI (XI (XO (XO (XI (XO (XO (XI (XI (XI
    (XI XH))))))))))))), (Zpos (XI (XO (XI (XO (XO (XO (XI (XO (XI
    XH))))))))))), (Zpos (XO (XI (XI (XO (XI (XO (XO (XI (XI (XI (XI (XI
    XH)))))))))))))) :: ((((Zpos (XI (XI (XI (XO (XO (XI (XO (XO (XI (XI (XI
    (XI XH))))))))))))), (Zpos (XI (XO (XI (XO (XO (XO (XI (XO (XI
    XH))))))))))), (Zpos (XI (XI (XI (XO (XI (XO (XO (XI (XI (XI (XI (XI
    XH)))))))))))))) :: ((((Zpos (XO (XO (XO (XI (XO (XI (XO (XO (XI (XI (XI
    (XI XH))))))))))))), (Zpos (XO (XO (XO (XO (XO (XO (XO (XO (XI
    XH))))))))))), (Zpos (XO (XI (XO (XI (XO (XI (XO (XO (XI (XI (XI (XI
    XH)))))))))))))) :: ((((Zpos (XO (XO (XO (XI (XO (XI (XO (XO (XI (XI (XI
    (XI XH))))))))))))), (Zpos (XI (XO (XO (XO (XO (XO (XO (XO (XI
    XH))))))))))), (Zpos (XO (XO (XI (XI (XO (XI (XO (XO (XI (XI (XI (XI
    XH)))))))))))))) :: ((((Zpos (XO (XO (XO (XI (XO (XI (XO (XO (XI (XI (XI
    (XI XH))))))))))))), (Zpos (XO (XI (XO (XO (XO (XO (XI (XO (XI
    XH))))))))))), (Zpos (XO (XI (XI (XI (XO (XI (XO (XO (XI (XI (XI (XI
    XH)))))))))))))) :: ((((Zpos (XO (XO (XO (XI (XO (XI (XO (XO (XI (XI (XI
    (XI XH))))))))))))), (Zpos (XI (XO (XI (XO (XO (XO (XI (XO (XI
    XH))))))))))), (Zpos (XO (XO (XO (XI (XI (XO (XO (XI (XI (XI (XI (XI
    XH)))))))))))))) :: ((((Zpos (XI (XO (XO (XI (XO (XI (XO (XO (XI (XI (XI
    (XI XH))))))))))))), (Zpos (XO (XO (XO (XO (XO (XO (XO (XO (XI
    XH))))))))))), (Zpos (XI (XI (XO (XI (XO (XI (XO (XO (XI (XI (XI (XI
    XH)))))))))))))) :: ((((Zpos (XI (XO (XO (XI (XO (XI (XO (XO (XI (XI (XI
    (XI XH))))))))))))), (Zpos (XI (XO (XO (XO (XO (XO (XO (XO (XI
    XH))))))))))), (Zpos (XI (XO (XI (XI (XO (XI (XO (XO (XI (XI (XI (XI
    XH)))))))))))))) :: ((((Zpos (XI (XO (XO (XI (XO (XI (XO (XO (XI (XI (XI
    (XI XH))))))))))))), (Zpos (XO (XI (XO (XO (XO (XO (XI (XO (XI
    XH))))))))))), (Zpos (XI (XI (XI (XI (XO (XI (XO (XO (XI (XI (XI (XI
    XH)))))))))))))) :: ((((Zpos (XI (XO (XO (XI (XO (XI (XO (XO (XI (XI (XI
    (XI XH))))))))))))), (Zpos (XI (XO (XI (XO (XO (XO (XI (XO (XI
    XH))))))))))), (Zpos (XI (XO (XO (XI (XI (XO (XO (XI (XI (XI (XI (XI
    XH)))))))))))))) :: ((((Zpos (XO (XI (XO (XI (XO (XI (XO (XO (XI (XI (XI
    (XI XH))))))))))))), (Zpos (XI (XO (XI (XO (XO (XO (XI (XO (XI
    XH))))))))))), (Zpos (XO (XI (XO (XI (XI (XO (XO (XI (XI (XI (XI (XI
    XH)))))))))))))) :: ((((Zpos (XI (XI (XO (XI (XO (XI (XO (XO (XI (XI (XI
    (XI XH))))))))))))), (Zpos (XI (XO (XI (XO (XO (XO (XI (XO (XI
    XH))))))))))), (Zpos (XI (XI (XO (XI (XI (XO (XO (XI (XI (XI (XI (XI
    XH)))))))))))))) :: ((((Zpos (XO (XO (XI (XI (XO (XI (XO (XO (XI (XI (XI
    (XI XH))))))))))))), (Zpos (XI (XO (XI (XO (XO (XO (XI (XO (XI
    XH))))))))))), (Zpos (XO (XO (XI (XI (XI (XO (XO (XI (XI (XI (XI (XI
    XH)))))))))))))) :: ((((Zpos (XI (XO (XI (XI (XO (XI (XO (XO (XI (XI (XI
    (XI XH))))))))))))), (Zpos (XI (XO (XI (XO (XO (XO (XI (XO (XI
    XH))))))))))), (Zpos (XI (XO (XI (XI (XI (XO (XO (XI (XI (XI (XI (XI
    XH)))))))))))))) :: ((((Zpos (XO (XI (XI (XI (XO (XI (XO (XO (XI (XI (XI
    (XI XH))))))))))))), (Zpos (XI (XO (XI (XO (XO (XO (XI (XO (XI
    XH))))))))))), (Zpos (XO (XI (XI (XI (XI (XO (XO (XI (XI (XI (XI (XI
    XH)))))))))))))) :: ((((Zpos (XI (XI (XI (XI (XO (XI (XO (XO (XI (XI (XI
    (XI XH))))))))))))), (Zpos (XI (XO (XI (XO (XO (XO (XI (XO (XI
    XH))))))))))), (Zpos (XI (XI (XI (XI (XI (XO (XO (XI (XI (XI (XI (XI
    XH)))))))))))))) :: ((((Zpos (XO (XO (XO (XO (XI (XI (XO (XO (XI (XI (XI
    (XI XH))))))))))))), (Zpos (XO (XO (XO (XO (XO (XO (XO (XO (XI
    XH))))))))))), (Zpos (XO (XI (XO (XO (XI (XI (XO (XO (XI (XI (XI (XI
    XH)))))))))))))) :: ((((Zpos (XO (XO (XO (XO (XI (XI (XO (XO (XI (XI (XI
    (XI XH))))))))))))), (Zpos (XI (XO (XO (XO (XO (XO (XO (XO (XI
    XH))))))))))), (Zpos (XO (XO (XI (XO (XI (XI (XO (XO (XI (XI (XI (XI
    XH)))))))))))))) :: ((((Zpos (XO (XO (XO (XO (XI (XI (XO (XO (XI (XI (XI
    (XI XH))))))))))))), (Zpos (XO (XI (XO (XO (XO (XO (XI (XO (XI
    XH))))))))))), (Zpos (XO (XI (XI (XO (XI (XI (XO (XO (XI (XI (XI (XI
    XH)))))))))))))) :: ((((Zpos (XI (XO (XO (XO (XI (XI (XO (XO (XI (XI (XI
    (XI XH))))))))))))), (Zpos (XO (XO (XO (XO (XO (XO (XO (XO (XI
    XH))))))))))), (Zpos (XI (XI (XO (XO (XI (XI (XO (XO (XI (XI (XI (XI
    XH)))))))))))))) :: ((((Zpos (XI (XO (XO (XO (XI (XI (XO (XO (XI (XI (XI
    (XI XH))))))))))))), (Zpos (XI (XO (XO (XO (XO (XO (XO (XO (XI
    XH))))))))))), (Zpos (XI (XO (XI (XO (XI (XI (XO (XO (XI (XI (XI (XI
    XH)))))))))))))) :: ((((Zpos (XI (XO (XO (XO (XI (XI (XO (XO (XI (XI (XI
    (XI XH))))))))))))), (Zpos (XO (XI (XO (XO (XO (XO (XI (XO (XI
    XH))))))))))), (Zpos (XI (XI (XI (XO (XI (XI (XO (XO (XI (XI (XI (XI
    XH)))))))))))))) :: ((((Zpos (XO (XO (XO (XI (XI (XI (XO (XO (XI (XI (XI
    (XI XH))))))))))))), (Zpos (XO (XO (XO (XO (XO (XO (XO (XO (XI
    XH))))))))))), (Zpos (XO (XI (XO (XI (XI (XI (XO (XO (XI (XI (XI (XI
    XH)))))))))))))) :: ((((Zpos (XO (XO (XO (XI (XI (XI (XO (XO (XI (XI (XI
    (XI XH))))))))))))), (Zpos (XI (XO (XO (XO (XO (XO (XO (XO (XI
    XH))))))))))), (Zpos (XO (XO (XI (XI (XI (XI (XO (XO (XI (XI (XI (XI
    XH)))))))))))))) :: ((((Zpos (XO (XO (XO (XI (XI (XI (XO (XO (XI (XI (XI
    (XI XH))))))))))))), (Zpos (XO (XI (XO (XO (XO (XO (XI (XO (XI
    XH))))))))))), (Zpos (XO (XI (XI (XI (XI (XI (XO (XO (XI (XI (XI (XI
    XH)))))))))))))) :: ((((Zpos (XI (XO (XO (XI (XI (XI (XO (XO (XI (XI (XI
    (XI XH))))))))))))), (Zpos (XO (XO (XO (XO (XO (XO (XO (XO (XI
    XH))))))))))), (Zpos (XI (XI (XO (XI (XI (XI (XO (XO (XI (XI (XI (XI
    XH)))))))))))))) :: ((((Zpos (XI (XO (XO (XI (XI (XI (XO (XO (XI (XI (XI
    (XI XH))))))))))))), (Zpos (XI (XO (XO (XO (XO (XO (XO (XO (XI
    XH))))))))))), (Zpos (XI (XO (XI (XI (XI (XI (XO (XO (XI (XI (XI (XI
    XH)))))))))))))) :: ((((Zpos (XI (XO (XO (XI (XI (XI (XO (XO (XI (XI (XI
    (XI XH))))))))))))), (Zpos (XO (XI (XO (XO (XO (XO (XI (XO (XI
    XH))))))))))), (Zpos (XI (XI (XI (XI (XI (XI (XO (XO (XI (XI (XI (XI
    XH)))))))))))))) :: ((((Zpos (XO (XO (XO (XO (XO (XO (XI (XO (XI (XI (XI
    (XI XH))))))))))))), (Zpos (XO (XO (XO (XO (XO (XO (XO (XO (XI
    XH))))))))))), (Zpos (XO (XI (XO (XO (XO (XO (XI (XO (XI (XI (XI (XI
    XH)))))))))))))) :: ((((Zpos (XO (XO (XO (XO (XO (XO (XI (XO (XI (XI (XI
    (XI XH))))))))))))), (Zpos (XI (XO (XO (XO (XO (XO (XO (XO (XI
    XH))))))))))), (Zpos (XO (XO (XI (XO (XO (XO (XI (XO (XI (XI (XI (XI
    XH)))))))))))))) :: ((((Zpos (XI (XO (XO (XO (XO (XO (XI (XO (XI (XI (XI
    (XI XH))))))))))))), (Zpos (XO (XO (XO (XO (XO (XO (XO (XO (XI
    XH))))))))))), (Zpos (XI (XI (XO (XO (XO (XO (XI (XO (XI (XI (XI (XI
    XH)))))))))))))) :: ((((Zpos (XI (XO (XO (XO (XO (XO (XI (XO (XI (XI (XI
    (XI XH))))))))))))), (Zpos (XI (XO (XO (XO (XO (XO (XO (XO (XI
    XH))))))))))), (Zpos (XI (XO (XI (XO (XO (XO (XI (XO (XI (XI (XI (XI
    XH)))))))))))))) :: ((((Zpos (XO (XO (XO (XI (XO (XO (XI (XO (XI (XI (XI
    (XI XH))))))))))))), (Zpos (XO (XO (XO (XO (XO (XO (XO (XO (XI
    XH))))))))))), (Zpos (XO (XI (XO (XI (XO (XO (XI (XO (XI (XI (XI (XI
    XH)))))))))))))) :: ((((Zpos (XO (XO (XO (XI (XO (XO (XI (XO (XI (XI (XI
    (XI XH))))))))))))), (Zpos (XI (XO (XO (XO (XO (XO (XO (XO (XI
    XH))))))))))), (Zpos (XO (XO (XI (XI (XO (XO (XI (XO (XI (XI (XI (XI
    XH)))))))))))))) :: ((((Zpos (XI (XO (XO (XI (XO (XO (XI (XO (XI (XI (XI
    (XI XH))))))))))))), (Zpos (XO (XO (XO (XO (XO (XO (XO (XO (XI
    XH))))))))))), (Zpos (XI (XI (XO (XI (XO (XO (XI (XO (XI (XI (XI (XI
    XH)))))))))))))) :: ((((Zpos (XI (XO (XO (XI (XO (XO (XI (XO (XI (XI (XI
    (XI XH))))))))))))), (Zpos (XI (XO (XO (XO (XO (XO (XO (XO (XI
    XH))))))))))), (Zpos (XI (XO (XI (XI (XO (XO (XI (XO (XI (XI (XI (XI
    XH)))))))))))))) :: ((((Zpos (XO (XO (XO (XO (XI (XO (XI (XO (XI (XI (XI
    (XI XH))))))))))))), (Zpos (XO (XO (XO (XO (XO (XO (XO (XO (XI
    XH))))))))))), (Zpos (XO (XI (XO (XO (XI (XO (XI (XO (XI (XI (XI (XI
    XH)))))))))))))) :: ((((Zpos (XO (XO (XO (XO (XI (XO (XI (XO (XI (XI (XI
    (XI XH))))))))))))), (Zpos (XI (XO (XO (XO (XO (XO (XO (XO (XI
    XH))))))))))), (Zpos (XO (XO (XI (XO (XI (XO (XI (XO (XI (XI (XI (XI
    XH)))))))))))))) :: ((((Zpos (XO (XO (XO (XO (XI (XO (XI (XO (XI (XI (XI
    (XI XH))))))))))))), (Zpos (XO (XI (XO (XO (XO (XO (XI (XO (XI
    XH))))))))))), (Zpos (XO (XI (XI (XO (XI (XO (XI (XO (XI (XI (XI (XI
    XH)))))))))))))) :: ((((Zpos (XI (XO (XO (XO (XI (XO (XI (XO (XI (XI (XI
    (XI XH))))))))))))), (Zpos (XO (XO (XO (XO (XO (XO (XO (XO (XI
    XH))))))))))), (Zpos (XI (XI (XO (XO (XI (XO (XI (XO (XI (XI (XI (XI
    XH)))))))))))))) :: ((((Zpos (XI (XO (XO (XO (XI (XO (XI (XO (XI (XI (XI
    (XI XH))))))))))))), (Zpos (XI (XO (XO (XO (XO (XO (XO (XO (XI
    XH))))))))))), (Zpos (XI (XO (XI (XO (XI (XO (XI (XO (XI (XI (XI (XI
    XH)))))))))))))) :: ((((Zpos (XI (XO (XO (XO (XI (XO (XI (XO (XI (XI (XI
    (XI XH))))))))))))), (Zpos (XO (XI (XO (XO (XO (XO (XI (XO (XI
    XH))))))))))), (Zpos (XI (XI (XI (XO (XI (XO (XI (XO (XI (XI (XI (XI
    XH)))))))))))))) :: ((((Zpos (XI (XO (XO (XI (XI (XO (XI (XO (XI (XI (XI
    (XI XH))))))))))))), (Zpos (XO (XO (XO (XO (XO (XO (XO (XO (XI
    XH))))))))))), (Zpos (XI (XI (XO (XI (XI (XO (XI (XO (XI (XI (XI (XI
    XH)))))))))))))) :: ((((Zpos (XI (XO (XO (XI (XI (XO (XI (XO (XI (XI (XI
    (XI XH))))))))))))), (Zpos (XI (XO (XO (XO (XO (XO (XO (XO (XI
    XH))))))))))), (Zpos (XI (XO (XI (XI (XI (XO (XI (XO (XI (XI (XI (XI
    XH)))))))))))))) :: ((((Zpos (XI (XO (XO (XI (XI (XO (XI (XO (XI (XI (XI
    (XI XH))))))))))))), (Zpos (XO (XI (XO (XO (XO (XO (XI (XO (XI
    XH))))))))))), (Zpos (XI (XI (XI (XI (XI (XO (XI (XO (XI (XI (XI (XI
    XH)))))))))))))) :: ((((Zpos (XO (XO (XO (XO (XO (XI (XI (XO (XI (XI (XI
    (XI XH))))))))))))), (Zpos (XO (XO (XO (XO (XO (XO (XO (XO (XI
    XH))))))))))), (Zpos (XO (XI (XO (XO (XO (XI (XI (XO (XI (XI (XI (XI
    XH)))))))))))))) :: ((((Zpos (XO (XO (XO (XO (XO (XI (XI (XO (XI (XI (XI
    (XI XH))))))))))))), (Zpos (XI (XO (XO (XO (XO (XO (XO (XO (XI
    XH))))))))))), (Zpos (XO (XO (XI (XO (XO (XI (XI (XO (XI (XI (XI (XI
    XH)))))))))))))) :: ((((Zpos (XO (XO (XO (XO (XO (XI (XI (XO (XI (XI (XI
    (XI XH))))))))))))), (Zpos (XO (XI (XO (XO (XO (XO (XI (XO (XI
    XH))))))))))), (Zpos (XO (XI (XI (XO (XO (XI (XI (XO (XI (XI (XI (XI
    XH)))))))))))))) :: ((((Zpos (XO (XO (XO (XO (XO (XI (XI (XO (XI (XI (XI
    (XI XH))))))))))))), (Zpos (XI (XO (XI (XO (XO (XO (XI (XO (XI
    XH))))))))))), (Zpos (XO (XO (XO (XO (XO (XI (XO (XI (XI (XI (XI (XI
    XH)))))))))))))) :: ((((Zpos (XI (XO (XO (XO (XO (XI (XI (XO (XI (XI (XI
    (XI XH))))))))))))), (Zpos (XO (XO (XO (XO (XO (XO (XO (XO (XI
    XH))))))))))), (Zpos (XI (XI (XO (XO (XO (XI (XI (XO (XI (XI (XI (XI
    XH)))))))))))))) :: ((((Zpos (XI (XO (XO (XO (XO (XI (XI (XO (XI (XI (XI
    (XI XH))))))))))))), (Zpos (XI (XO (XO (XO (XO (XO (XO (XO (XI
    XH))))))))))), (Zpos (XI (XO (XI (XO (XO (XI (XI (XO (XI (XI (XI (XI
    XH)))))))))))))) :: ((((Zpos (XI (XO (XO (XO (XO (XI (XI (XO (XI (XI (XI
    (XI XH))))))))))))), (Zpos (XO (XI (XO (XO (XO (XO (XI (XO (XI
    XH))))))))))), (Zpos (XI (XI (XI (XO (XO (XI (XI (XO (XI (XI (XI (XI
    XH)))))))))))))) :: ((((Zpos (XI (XO (XO (XO (XO (XI (XI (XO (XI (XI (XI
    (XI XH))))))))))))), (Zpos (XI (XO (XI (XO (XO (XO (XI (XO (XI
    XH))))))))))), (Zpos (XI (XO (XO (XO (XO (XI (XO (XI (XI (XI (XI (XI
    XH)))))))))))))) :: ((((Zpos (XO (XI (XO (XO (XO (XI (XI (XO (XI (XI (XI
    (XI XH))))))))))))), (Zpos (XI (XO (XI (XO (XO (XO (XI (XO (XI
    XH))))))))))), (Zpos (XO (XI (XO (XO (XO (XI (XO (XI (XI (XI (XI (XI
    XH)))))))))))))) :: ((((Zpos (XI (XI (XO (XO (XO (XI (XI (XO (XI (XI (XI
    (XI XH))))))))))))), (Zpos (XI (XO (XI (XO (XO (XO (XI (XO (XI
    XH))))))))))), (Zpos (XI (XI (XO (XO (XO (XI (XO (XI (XI (XI (XI (XI
    XH)))))))))))))) :: ((((Zpos (XO (XO (XI (XO (XO (XI (XI (XO (XI (XI (XI
    (XI XH))))))))))))), (Zpos (XI (XO (XI (XO (XO (XO (XI (XO (XI
    XH))))))))))), (Zpos (XO (XO (XI (XO (XO (XI (XO (XI (XI (XI (XI (XI
    XH)))))))))))))) :: ((((Zpos (XI (XO (XI (XO (XO (XI (XI (XO (XI (XI (XI
    (XI XH))))))))))))), (Zpos (XI (XO (XI (XO (XO (XO (XI (XO (XI
    XH))))))))))), (Zpos (XI (XO (XI (XO (XO (XI (XO (XI (XI (XI (XI (XI
    XH)))))))))))))) :: ((((Zpos (XO (XI (XI (XO (XO (XI (XI (XO (XI (XI (XI
    (XI XH))))))))))))), (Zpos (XI (XO (XI (XO (XO (XO (XI (XO (XI
    XH))))))))))), (Zpos (XO (XI (XI (XO (XO (XI (XO (XI (XI (XI (XI (XI
    XH)))))))))))))) :: ((((Zpos (XI (XI (XI (XO (XO (XI (XI (XO (XI (XI (XI
    (XI XH))))))))))))), (Zpos (XI (XO (XI (XO (XO (XO (XI (XO (XI
    XH))))))))))), (Zpos (XI (XI (XI (XO (XO (XI (XO (XI (XI (XI (XI (XI
    XH)))))))))))))) :: ((((Zpos (XO (XO (XO (XI (XO (XI (XI (XO (XI (XI (XI
    (XI XH))))))))))))), (Zpos (XO (XO (XO (XO (XO (XO (XO (XO (XI
    XH))))))))))), (Zpos (XO (XI (XO (XI (XO (XI (XI (XO (XI (XI (XI (XI
    XH)))))))))))))) :: ((((Zpos (XO (XO (XO (XI (XO (XI (XI (XO (XI (XI (XI
    (XI XH))))))))))))), (Zpos (XI (XO (XO (XO (XO (XO (XO (XO (XI
    XH))))))))))), (Zpos (XO (XO (XI (XI (XO (XI (XI (XO (XI (XI (XI (XI
    XH)))))))))))))) :: ((((Zpos (XO (XO (XO (XI (XO (XI (XI (XO (XI (XI (XI
    (XI XH))))))))))))), (Zpos (XO (XI (XO (XO (XO (XO (XI (XO (XI
    XH))))))))))), (Zpos (XO (XI (XI (XI (XO (XI (XI (XO (XI (XI (XI (XI
    XH)))))))))))))) :: ((((Zpos (XO (XO (XO (XI (XO (XI (XI (XO (XI (XI (XI
    (XI XH))))))))))))), (Zpos (XI (XO (XI (XO (XO (XO (XI (XO (XI
    XH))))))))))), (Zpos (XO (XO (XO (XI (XO (XI (XO (XI (XI (XI (XI (XI
    XH)))))))))))))) :: ((((Zpos (XI (XO (XO (XI (XO (XI (XI (XO (XI (XI (XI
    (XI XH))))))))))))), (Zpos (XO (XO (XO (XO (XO (XO (XO (XO (XI
    XH))))))))))), (Zpos (XI (XI (XO (XI (XO (XI (XI (XO (XI (XI (XI (XI
    XH)))))))))))))) :: ((((Zpos (XI (XO (XO (XI (XO (XI (XI (XO (XI (XI (XI
    (XI XH))))))))))))), (Zpos (XI (XO (XO (XO (XO (XO (XO (XO (XI
    XH))))))))))), (Zpos (XI (XO (XI (XI (XO (XI (XI (XO (XI (XI (XI (XI
    XH)))))))))))))) :: ((((Zpos (XI (XO (XO (XI (XO (XI (XI (XO (XI (XI (XI
    (XI XH))))))))))))), (Zpos (XO (XI (XO (XO (XO (XO (XI (XO (XI
    XH))))))))))), (Zpos (XI (XI (XI (XI (XO (XI (XI (XO (XI (XI (XI (XI
    XH)))))))))))))) :: ((((Zpos (XI (XO (XO (XI (XO (XI (XI (XO (XI (XI (XI
    (XI XH))))))))))))), (Zpos (XI (XO (XI (XO (XO (XO (XI (XO (XI
    XH))))))))))), (Zpos (XI (XO (XO (XI (XO (XI (XO (XI (XI (XI (XI (XI
    XH)))))))))))))) :: ((((Zpos (XO (XI (XO (XI (XO (XI (XI (XO (XI (XI (XI
    (XI XH))))))))))))), (Zpos (XI (XO (XI (XO (XO (XO (XI (XO (XI
    XH))))))))))), (Zpos (XO (XI (XO (XI (XO (XI (XO (XI (XI (XI (XI (XI
    XH)))))))))))))) :: ((((Zpos (XI (XI (XO (XI (XO (XI (XI (XO (XI (XI (XI
    (XI XH))))))))))))), (Zpos (XI (XO (XI (XO (XO (XO (XI (XO (XI
    XH))))))))))), (Zpos (XI (XI (XO (XI (XO (XI (XO (XI (XI (XI (XI (XI
    XH)))))))))))))) :: ((((Zpos (XO (XO (XI (XI (XO (XI (XI (XO (XI (XI (XI
    (XI XH))))))))))))), (Zpos (XI (XO (XI (XO (XO (XO (XI (XO (XI
    XH))))))))))), (Zpos (XO (XO (XI (XI (XO (XI (XO (XI (XI (XI (XI (XI
    XH)))))))))))))) :: ((((Zpos (XI (XO (XI (XI (XO (XI (XI (XO (XI (XI (XI
    (XI XH))))))))))))), (Zpos (XI (XO (XI (XO (XO (XO (XI (XO (XI
    XH))))))))))), (Zpos (XI (XO (XI (XI (XO (XI (XO (XI (XI (XI (XI (XI
    XH)))))))))))))) :: ((((Zpos (XO (XI (XI (XI (XO (XI (XI (XO (XI (XI (XI
    (XI XH))))))))))))), (Zpos (XI (XO (XI (XO (XO (XO (XI (XO (XI
    XH))))))))))), (Zpos (XO (XI (XI (XI (XO (XI (XO (XI (XI (XI (XI (XI
    XH)))))))))))))) :: ((((Zpos (XI (XI (XI (XI (XO (XI (XI (XO (XI (XI (XI
    (XI XH))))))))))))), (Zpos (XI (XO (XI (XO (XO (XO (XI (XO (XI
    XH))))))))))), (Zpos (XI (XI (XI (XI (XO (XI (XO (XI (XI (XI (XI (XI
    XH)))))))))))))) :: ((((Zpos (XO (XO (XO (XO (XI (XI (XI (XO (XI (XI (XI
    (XI XH))))))))))))), (Zpos (XI (XO (XI (XO (XO (XO (XI (XO (XI
    XH))))))))))), (Zpos (XO (XI (XO (XO (XI (XI (XO (XI (XI (XI (XI (XI
    XH)))))))))))))) :: ((((Zpos (XO (XO (XI (XO (XI (XI (XI (XO (XI (XI (XI
    (XI XH))))))))))))), (Zpos (XI (XO (XI (XO (XO (XO (XI (XO (XI
    XH))))))))))), (Zpos (XO (XI (XO (XO (XO (XO (XI (XI (XI (XI (XI (XI
    XH)))))))))))))) :: ((((Zpos (XO (XO (XI (XI (XI (XI (XI (XO (XI (XI (XI
    (XI XH))))))))))))), (Zpos (XI (XO (XI (XO (XO (XO (XI (XO (XI
    XH))))))))))), (Zpos (XO (XI (XO (XO (XI (XI (XI (XI (XI (XI (XI (XI
    XH)))))))))))))) :: ((((Zpos (XO (XI (XI (XO (XI (XI (XO (XI (XI (XI (XI
    (XI XH))))))))))))), (Zpos (XI (XO (XI (XO (XO (XO (XI (XO (XI
    XH))))))))))), (Zpos (XI (XI (XI (XO (XI (XI (XO (XI (XI (XI (XI (XI
    XH)))))))))))))) :: ((((Zpos (XI (XI (XI (XI (XI (XI (XO (XI (XI (XI (XI
    (XI XH))))))))))))), (Zpos (XO (XO (XO (XO (XO (XO (XO (XO (XI
    XH))))))))))), (Zpos (XI (XO (XI (XI (XO (XO (XI (XI (XI (XI (XI (XI
    XH)))))))))))))) :: ((((Zpos (XI (XI (XI (XI (XI (XI (XO (XI (XI (XI (XI
    (XI XH))))))))))))), (Zpos (XI (XO (XO (XO (XO (XO (XO (XO (XI
    XH))))))))))), (Zpos (XO (XI (XI (XI (XO (XO (XI (XI (XI (XI (XI (XI
    XH)))))))))))))) :: ((((Zpos (XI (XI (XI (XI (XI (XI (XO (XI (XI (XI (XI
    (XI XH))))))))))))), (Zpos (XO (XI (XO (XO (XO (XO (XI (XO (XI
    XH))))))))))), (Zpos (XI (XI (XI (XI (XO (XO (XI (XI (XI (XI (XI (XI
    XH)))))))))))))) :: ((((Zpos (XO (XI (XI (XO (XO (XO (XI (XI (XI (XI (XI
    (XI XH))))))))))))), (Zpos (XI (XO (XI (XO (XO (XO (XI (XO (XI
    XH))))))))))), (Zpos (XI (XI (XI (XO (XO (XO (XI (XI (XI (XI (XI (XI
    XH)))))))))))))) :: ((((Zpos (XO (XI (XI (XO (XI (XI (XI (XI (XI (XI (XI
    (XI XH))))))))))))), (Zpos (XI (XO (XI (XO (XO (XO (XI (XO (XI
    XH))))))))))), (Zpos (XI (XI (XI (XO (XI (XI (XI (XI (XI (XI (XI (XI
    XH)))))))))))))) :: ((((Zpos (XO (XI (XI (XI (XI (XI (XI (XI (XI (XI (XI
    (XI XH))))))))))))), (Zpos (XO (XO (XO (XO (XO (XO (XO (XO (XI
    XH))))))))))), (Zpos (XI (XO (XI (XI (XI (XO (XI (XI (XI (XI (XI (XI
    XH)))))))))))))) :: ((((Zpos (XO (XI (XI (XI (XI (XI (XI (XI (XI (XI (XI
    (XI XH))))))))))))), (Zpos (XI (XO (XO (XO (XO (XO (XO (XO (XI
    XH))))))))))), (Zpos (XO (XI (XI (XI (XI (XO (XI (XI (XI (XI (XI (XI
    XH)))))))))))))) :: ((((Zpos (XO (XI (XI (XI (XI (XI (XI (XI (XI (XI (XI
    (XI XH))))))))))))), (Zpos (XO (XI (XO (XO (XO (XO (XI (XO (XI
    XH))))))))))), (Zpos (XI (XI (XI (XI (XI (XO (XI (XI (XI (XI (XI (XI
    XH)))))))))))))) :: ((((Zpos (XO (XO (XO (XO (XI (XO (XO (XI (XI (XO (XO
    (XO (XO XH)))))))))))))), (Zpos (XO (XO (XO (XI (XI (XI (XO (XO (XI
    XH))))))))))), (Zpos (XO (XI (XO (XI (XI (XO (XO (XI (XI (XO (XO (XO (XO
    XH))))))))))))))) :: ((((Zpos (XO (XI (XO (XO (XI (XO (XO (XI (XI (XO (XO
    (XO (XO XH)))))))))))))), (Zpos (XO (XO (XO (XI (XI (XI (XO (XO (XI
    XH))))))))))), (Zpos (XI (XI (XO (XI (XI (XO (XO (XI (XI (XO (XO (XO (XO
    XH))))))))))))))) :: ((((Zpos (XO (XO (XI (XO (XI (XO (XO (XI (XI (XO (XO
    (XO (XO XH)))))))))))))), (Zpos (XO (XO (XO (XI (XI (XI (XO (XO (XI
    XH))))))))))), (Zpos (XO (XI (XI (XI (XO (XI (XO (XI (XI (XO (XO (XO (XO
    XH))))))))))))))) :: ((((Zpos (XO (XO (XO (XO (XI (XO (XI (XI (XI (XO (XO
    (XO (XO XH)))))))))))))), (Zpos (XO (XO (XO (XI (XI (XI (XO (XO (XI
    XH))))))))))), (Zpos (XI (XO (XI (XI (XO (XO (XI (XI (XI (XO (XO (XO (XO
    XH))))))))))))))) :: ((((Zpos (XO (XI (XO (XO (XI (XO (XI (XI (XI (XO (XO
    (XO (XO XH)))))))))))))), (Zpos (XO (XO (XO (XI (XI (XI (XO (XO (XI
    XH))))))))))), (Zpos (XI (XI (XI (XI (XO (XO (XI (XI (XI (XO (XO (XO (XO
    XH))))))))))))))) :: ((((Zpos (XO (XO (XI (XO (XI (XO (XI (XI (XI (XO (XO
    (XO (XO XH)))))))))))))), (Zpos (XO (XO (XO (XI (XI (XI (XO (XO (XI
    XH))))))))))), (Zpos (XO (XI (XI (XI (XO (XO (XI (XI (XI (XO (XO (XO (XO
    XH))))))))))))))) :: ((((Zpos (XI (XI (XO (XO (XO (XO (XO (XO (XO (XI (XO
    (XO (XO XH)))))))))))))), (Zpos (XO (XO (XO (XI (XI (XI (XO (XO (XI
    XH))))))))))), (Zpos (XO (XO (XI (XO (XO (XO (XO (XO (XO (XI (XO (XO (XO
    XH))))))))))))))) :: ((((Zpos (XO (XO (XO (XI (XO (XO (XO (XO (XO (XI (XO
    (XO (XO XH)))))))))))))), (Zpos (XO (XO (XO (XI (XI (XI (XO (XO (XI
    XH))))))))))), (Zpos (XI (XO (XO (XI (XO (XO (XO (XO (XO (XI (XO (XO (XO
    XH))))))))))))))) :: ((((Zpos (XI (XI (XO (XI (XO (XO (XO (XO (XO (XI (XO
    (XO (XO XH)))))))))))))), (Zpos (XO (XO (XO (XI (XI (XI (XO (XO (XI
    XH))))))))))), (Zpos (XO (XO (XI (XI (XO (XO (XO (XO (XO (XI (XO (XO (XO
    XH))))))))))))))) :: ((((Zpos (XI (XI (XO (XO (XO (XI (XO (XO (XO (XI (XO
    (XO (XO XH)))))))))))))), (Zpos (XO (XO (XO (XI (XI (XI (XO (XO (XI
    XH))))))))))), (Zpos (XO (XO (XI (XO (XO (XI (XO (XO (XO (XI (XO (XO (XO
    XH))))))))))))))) :: ((((Zpos (XI (XO (XI (XO (XO (XI (XO (XO (XO (XI (XO
    (XO (XO XH)))))))))))))), (Zpos (XO (XO (XO (XI (XI (XI (XO (XO (XI
    XH))))))))))), (Zpos (XO (XI (XI (XO (XO (XI (XO (XO (XO (XI (XO (XO (XO
    XH))))))))))))))) :: ((((Zpos (XO (XO (XI (XI (XI (XI (XO (XO (XO (XI (XO
    (XO (XO XH)))))))))))))), (Zpos (XO (XO (XO (XI (XI (XI (XO (XO (XI
    XH))))))))))), (Zpos (XI (XO (XO (XO (XO (XO (XI (XO (XO (XI (XO (XO (XO
    XH))))))))))))))) :: ((((Zpos (XI (XI (XO (XO (XO (XO (XI (XO (XO (XI (XO
    (XO (XO XH)))))))))))))), (Zpos (XO (XO (XO (XI (XI (XI (XO (XO (XI
    XH))))))))))), (Zpos (XO (XO (XI (XO (XO (XO (XI (XO (XO (XI (XO (XO (XO
    XH))))))))))))))) :: ((((Zpos (XI (XO (XI (XO (XO (XO (XI (XO (XO (XI (XO
    (XO (XO XH)))))))))))))), (Zpos (XO (XO (XO (XI (XI (XI (XO (XO (XI
    XH))))))))))), (Zpos (XI (XI (XI (XO (XO (XO (XI (XO (XO (XI (XO (XO (XO
    XH))))))))))))))) :: ((((Zpos (XO (XO (XO (XI (XO (XO (XI (XO (XO (XI (XO
    (XO (XO XH)))))))))))))), (Zpos (XO (XO (XO (XI (XI (XI (XO (XO (XI
    XH))))))))))), (Zpos (XI (XO (XO (XI (XO (XO (XI (XO (XO (XI (XO (XO (XO
    XH))))))))))))))) :: ((((Zpos (XI (XO (XI (XI (XO (XO (XI (XO (XO (XI (XO
    (XO (XO XH)))))))))))))), (Zpos (XO (XO (XO (XI (XI (XI (XO (XO (XI
    XH))))))))))), (Zpos (XI (XO (XI (XI (XO (XI (XI (XO (XO (XI (XO (XO (XO
    XH))))))))))))))) :: ((((Zpos (XI (XO (XO (XO (XO (XI (XI (XO (XO (XI (XO
    (XO (XO XH)))))))))))))), (Zpos (XO (XO (XO (XI (XI (XI (XO (XO (XI
    XH))))))))))), (Zpos (XO (XI (XO (XO (XO (XI (XI (XO (XO (XI (XO (XO (XO
    XH))))))))))))))) :: ((((Zpos (XO (XO (XI (XO (XO (XI (XI (XO (XO (XI (XO
    (XO (XO XH)))))))))))))), (Zpos (XO (XO (XO (XI (XI (XI (XO (XO (XI
    XH))))))))))), (Zpos (XO (XO (XO (XO (XI (XI (XI (XO (XO (XI (XO (XO (XO
    XH))))))))))))))) :: ((((Zpos (XI (XO (XI (XO (XO (XI (XI (XO (XO (XI (XO
    (XO (XO XH)))))))))))))), (Zpos (XO (XO (XO (XI (XI (XI (XO (XO (XI
    XH))))))))))), (Zpos (XI (XO (XO (XO (XI (XI (XI (XO (XO (XI (XO (XO (XO
    XH))))))))))))))) :: ((((Zpos (XO (XI (XO (XO (XI (XI (XI (XO (XO (XI (XO
    (XO (XO XH)))))))))))))), (Zpos (XO (XO (XO (XI (XI (XI (XO (XO (XI
    XH))))))))))), (Zpos (XO (XO (XI (XO (XI (XI (XI (XO (XO (XI (XO (XO (XO
    XH))))))))))))))) :: ((((Zpos (XI (XI (XO (XO (XI (XI (XI (XO (XO (XI (XO
    (XO (XO XH)))))))))))))), (Zpos (XO (XO (XO (XI (XI (XI (XO (XO (XI
    XH))))))))))), (Zpos (XI (XO (XI (XO (XI (XI (XI (XO (XO (XI (XO (XO (XO
    XH))))))))))))))) :: ((((Zpos (XO (XI (XI (XO (XI (XI (XI (XO (XO (XI (XO
    (XO (XO XH)))))))))))))), (Zpos (XO (XO (XO (XI (XI (XI (XO (XO (XI
    XH))))))))))), (Zpos (XO (XO (XO (XI (XI (XI (XI (XO (XO (XI (XO (XO (XO
    XH))))))))))))))) :: ((((Zpos (XI (XI (XI (XO (XI (XI (XI (XO (XO (XI (XO
    (XO (XO XH)))))))))))))), (Zpos (XO (XO (XO (XI (XI (XI (XO (XO (XI
    XH))))))))))), (Zpos (XI (XO (XO (XI (XI (XI (XI (XO (XO (XI (XO (XO (XO
    XH))))))))))))))) :: ((((Zpos (XO (XI (XO (XI (XI (XI (XI (XO (XO (XI (XO
    (XO (XO XH)))))))))))))), (Zpos (XO (XO (XO (XI (XI (XI (XO (XO (XI
    XH))))))))))), (Zpos (XO (XO (XO (XO (XO (XO (XO (XI (XO (XI (XO (XO (XO
    XH))))))))))))))) :: ((((Zpos (XI (XI (XO (XI (XI (XI (XI (XO (XO (XI (XO
    (XO (XO XH)))))))))))))), (Zpos (XO (XO (XO (XI (XI (XI (XO (XO (XI
    XH))))))))))), (Zpos (XI (XO (XO (XO (XO (XO (XO (XI (XO (XI (XO (XO (XO
    XH))))))))))))))) :: ((((Zpos (XO (XO (XI (XI (XI (XI (XI (XO (XO (XI (XO
    (XO (XO XH)))))))))))))), (Zpos (XO (XO (XO (XI (XI (XI (XO (XO (XI
    XH))))))))))), (Zpos (XO (XO (XO (XO (XO (XI (XI (XI (XO (XI (XO (XO (XO
    XH))))))))))))))) :: ((((Zpos (XI (XO (XI (XI (XI (XI (XI (XO (XO (XI (XO
    (XO (XO XH)))))))))))))), (Zpos (XO (XO (XO (XI (XI (XI (XO (XO (XI
    XH))))))))))), (Zpos (XI (XO (XO (XO (XO (XI (XI (XI (XO (XI (XO (XO (XO
    XH))))))))))))))) :: ((((Zpos (XO (XI (XO (XO (XO (XO (XO (XI (XO (XI (XO
    (XO (XO XH)))))))))))))), (Zpos (XO (XO (XO (XI (XI (XI (XO (XO (XI
    XH))))))))))), (Zpos (XO (XO (XI (XO (XO (XO (XO (XI (XO (XI (XO (XO (XO
    XH))))))))))))))) :: ((((Zpos (XI (XI (XO (XO (XO (XO (XO (XI (XO (XI (XO
    (XO (XO XH)))))))))))))), (Zpos (XO (XO (XO (XI (XI (XI (XO (XO (XI
    XH))))))))))), (Zpos (XI (XO (XI (XO (XO (XO (XO (XI (XO (XI (XO (XO (XO
    XH))))))))))))))) :: ((((Zpos (XO (XI (XI (XO (XO (XO (XO (XI (XO (XI (XO
    (XO (XO XH)))))))))))))), (Zpos (XO (XO (XO (XI (XI (XI (XO (XO (XI
    XH))))))))))), (Zpos (XO (XO (XO (XI (XO (XO (XO (XI (XO (XI (XO (XO (XO
    XH))))))))))))))) :: ((((Zpos (XI (XI (XI (XO (XO (XO (XO (XI (XO (XI (XO
    (XO (XO XH)))))))))))))), (Zpos (XO (XO (XO (XI (XI (XI (XO (XO (XI
    XH))))))))))), (Zpos (XI (XO (XO (XI (XO (XO (XO (XI (XO (XI (XO (XO (XO
    XH))))))))))))))) :: ((((Zpos (XI (XO (XO (XO (XI (XO (XO (XI (XO (XI (XO
    (XO (XO XH)))))))))))))), (Zpos (XO (XO (XO (XI (XI (XI (XO (XO (XI
    XH))))))))))), (Zpos (XO (XI (XO (XO (XO (XI (XI (XI (XO (XI (XO (XO (XO
    XH))))))))))))))) :: ((((Zpos (XO (XI (XO (XO (XI (XO (XO (XI (XO (XI (XO
    (XO (XO XH)))))))))))))), (Zpos (XO (XO (XO (XI (XI (XI (XO (XO (XI
    XH))))))))))), (Zpos (XI (XI (XO (XO (XO (XI (XI (XI (XO (XI (XO (XO (XO
    XH))))))))))))))) :: ((((Zpos (XO (XI (XO (XO (XO (XI (XO (XI (XO (XI (XO
    (XO (XO XH)))))))))))))), (Zpos (XO (XO (XO (XI (XI (XI (XO (XO (XI
    XH))))))))))), (Zpos (XO (XO (XI (XI (XO (XI (XO (XI (XO (XI (XO (XO (XO
    XH))))))))))))))) :: ((((Zpos (XO (XO (XO (XI (XO (XI (XO (XI (XO (XI (XO
    (XO (XO XH)))))))))))))), (Zpos (XO (XO (XO (XI (XI (XI (XO (XO (XI
    XH))))))))))), (Zpos (XI (XO (XI (XI (XO (XI (XO (XI (XO (XI (XO (XO (XO
    XH))))))))))))))) :: ((((Zpos (XI (XO (XO (XI (XO (XI (XO (XI (XO (XI (XO
    (XO (XO XH)))))))))))))), (Zpos (XO (XO (XO (XI (XI (XI (XO (XO (XI
    XH))))))))))), (Zpos (XO (XI (XI (XI (XO (XI (XO (XI (XO (XI (XO (XO (XO
    XH))))))))))))))) :: ((((Zpos (XI (XI (XO (XI (XO (XI (XO (XI (XO (XI (XO
    (XO (XO XH)))))))))))))), (Zpos (XO (XO (XO (XI (XI (XI (XO (XO (XI
    XH))))))))))), (Zpos (XI (XI (XI (XI (XO (XI (XO (XI (XO (XI (XO (XO (XO
    XH))))))))))))))) :: ((((Zpos (XO (XI (XO (XO (XI (XI (XO (XI (XO (XI (XO
    (XO (XO XH)))))))))))))), (Zpos (XO (XO (XO (XI (XI (XI (XO (XO (XI
    XH))))))))))), (Zpos (XO (XI (XO (XI (XO (XI (XI (XI (XO (XI (XO (XO (XO
    XH))))))))))))))) :: ((((Zpos (XI (XI (XO (XO (XI (XI (XO (XI (XO (XI (XO
    (XO (XO XH)))))))))))))), (Zpos (XO (XO (XO (XI (XI (XI (XO (XO (XI
    XH))))))))))), (Zpos (XI (XI (XO (XI (XO (XI (XI (XI (XO (XI (XO (XO (XO
    XH))))))))))))))) :: ((((Zpos (XO (XO (XI (XO (XI (XI (XO (XI (XO (XI (XO
    (XO (XO XH)))))))))))))), (Zpos (XO (XO (XO (XI (XI (XI (XO (XO (XI
    XH))))))))))), (Zpos (XO (XO (XI (XI (XO (XI (XI (XI (XO (XI (XO (XO (XO
    XH))))))))))))))) :: ((((Zpos (XI (XO (XI (XO (XI (XI (XO (XI (XO (XI (XO
    (XO (XO XH)))))))))))))), (Zpos (XO (XO (XO (XI (XI (XI (XO (XO (XI
    XH))))))))))), (Zpos (XI (XO (XI (XI (XO (XI (XI (XI (XO (XI (XO (XO (XO
    XH))))))))))))))) :: ((((Zpos (XI (XO (XI (XI (XI (XO (XI (XI (XO (XI (XO
    (XI (XO XH)))))))))))))), (Zpos (XO (XO (XO (XI (XI (XI (XO (XO (XI
    XH))))))))))), (Zpos (XO (XO (XI (XI (XI (XO (XI (XI (XO (XI (XO (XI (XO
    XH))))))))))))))) :: ((((Zpos (XO (XI (XI (XO (XO (XO (XI (XO (XO (XO (XO
    (XO (XI XH)))))))))))))), (Zpos (XI (XO (XO (XI (XI (XO (XO (XI (XO (XO
    (XO (XO (XI XH))))))))))))))), (Zpos (XO (XO (XI (XO (XI (XO (XO (XI (XO
    (XO (XO (XO (XI XH))))))))))))))) :: ((((Zpos (XI (XI (XO (XI (XO (XO (XI
    (XO (XO (XO (XO (XO (XI XH)))))))))))))), (Zpos (XI (XO (XO (XI (XI (XO
    (XO (XI (XO (XO (XO (XO (XI XH))))))))))))))), (Zpos (XO (XO (XI (XI (XO
    (XO (XI (XO (XO (XO (XO (XO (XI XH))))))))))))))) :: ((((Zpos (XI (XO (XI
    (XI (XO (XO (XI (XO (XO (XO (XO (XO (XI XH)))))))))))))), (Zpos (XI (XO
    (XO (XI (XI (XO (XO (XI (XO (XO (XO (XO (XI XH))))))))))))))), (Zpos (XO
    (XI (XI (XI (XO (XO (XI (XO (XO (XO (XO (XO (XI
    XH))))))))))))))) :: ((((Zpos (XI (XI (XI (XI (XO (XO (XI (XO (XO (XO (XO
    (XO (XI XH)))))))))))))), (Zpos (XI (XO (XO (XI (XI (XO (XO (XI (XO (XO
    (XO (XO (XI XH))))))))))))))), (Zpos (XO (XO (XO (XO (XI (XO (XI (XO (XO
    (XO (XO (XO (XI XH))))))))))))))) :: ((((Zpos (XI (XO (XO (XO (XI (XO (XI
    (XO (XO (XO (XO (XO (XI XH)))))))))))))), (Zpos (XI (XO (XO (XI (XI (XO
    (XO (XI (XO (XO (XO (XO (XI XH))))))))))))))), (Zpos (XO (XI (XO (XO (XI
    (XO (XI (XO (XO (XO (XO (XO (XI XH))))))))))))))) :: ((((Zpos (XI (XI (XO
    (XO (XI (XO (XI (XO (XO (XO (XO (XO (XI XH)))))))))))))), (Zpos (XI (XO
    (XO (XI (XI (XO (XO (XI (XO (XO (XO (XO (XI XH))))))))))))))), (Zpos (XO
    (XO (XI (XO (XI (XO (XI (XO (XO (XO (XO (XO (XI
    XH))))))))))))))) :: ((((Zpos (XI (XO (XI (XO (XI (XO (XI (XO (XO (XO (XO
    (XO (XI XH)))))))))))))), (Zpos (XI (XO (XO (XI (XI (XO (XO (XI (XO (XO
    (XO (XO (XI XH))))))))))))))), (Zpos (XO (XI (XI (XO (XI (XO (XI (XO (XO
    (XO (XO (XO (XI XH))))))))))))))) :: ((((Zpos (XI (XI (XI (XO (XI (XO (XI
    (XO (XO (XO (XO (XO (XI XH)))))))))))))), (Zpos (XI (XO (XO (XI (XI (XO
    (XO (XI (XO (XO (XO (XO (XI XH))))))))))))))), (Zpos (XO (XO (XO (XI (XI
    (XO (XI (XO (XO (XO (XO (XO (XI XH))))))))))))))) :: ((((Zpos (XI (XO (XO
    (XI (XI (XO (XI (XO (XO (XO (XO (XO (XI XH)))))))))))))), (Zpos (XI (XO
    (XO (XI (XI (XO (XO (XI (XO (XO (XO (XO (XI XH))))))))))))))), (Zpos (XO
    (XI (XO (XI (XI (XO (XI (XO (XO (XO (XO (XO (XI
    XH))))))))))))))) :: ((((Zpos (XI (XI (XO (XI (XI (XO (XI (XO (XO (XO (XO
    (XO (XI XH)))))))))))))), (Zpos (XI (XO (XO (XI (XI (XO (XO (XI (XO (XO
    (XO (XO (XI XH))))))))))))))), (Zpos (XO (XO (XI (XI (XI (XO (XI (XO (XO
    (XO (XO (XO (XI XH))))))))))))))) :: ((((Zpos (XI (XO (XI (XI (XI (XO (XI
    (XO (XO (XO (XO (XO (XI XH)))))))))))))), (Zpos (XI (XO (XO (XI (XI (XO
    (XO (XI (XO (XO (XO (XO (XI XH))))))))))))))), (Zpos (XO (XI (XI (XI (XI
    (XO (XI (XO (XO (XO (XO (XO (XI XH))))))))))))))) :: ((((Zpos (XI (XI (XI
    (XI (XI (XO (XI (XO (XO (XO (XO (XO (XI XH)))))))))))))), (Zpos (XI (XO
    (XO (XI (XI (XO (XO (XI (XO (XO (XO (XO (XI XH))))))))))))))), (Zpos (XO
    (XO (XO (XO (XO (XI (XI (XO (XO (XO (XO (XO (XI
    XH))))))))))))))) :: ((((Zpos (XI (XO (XO (XO (XO (XI (XI (XO (XO (XO (XO
    (XO (XI XH)))))))))))))), (Zpos (XI (XO (XO (XI (XI (XO (XO (XI (XO (XO
    (XO (XO (XI XH))))))))))))))), (Zpos (XO (XI (XO (XO (XO (XI (XI (XO (XO
    (XO (XO (XO (XI XH))))))))))))))) :: ((((Zpos (XO (XO (XI (XO (XO (XI (XI
    (XO (XO (XO (XO (XO (XI XH)))))))))))))), (Zpos (XI (XO (XO (XI (XI (XO
    (XO (XI (XO (XO (XO (XO (XI XH))))))))))))))), (Zpos (XI (XO (XI (XO (XO
    (XI (XI (XO (XO (XO (XO (XO (XI XH))))))))))))))) :: ((((Zpos (XO (XI (XI
    (XO (XO (XI (XI (XO (XO (XO (XO (XO (XI XH)))))))))))))), (Zpos (XI (XO
    (XO (XI (XI (XO (XO (XI (XO (XO (XO (XO (XI XH))))))))))))))), (Zpos (XI
    (XI (XI (XO (XO (XI (XI (XO (XO (XO (XO (XO (XI
    XH))))))))))))))) :: ((((Zpos (XO (XO (XO (XI (XO (XI (XI (XO (XO (XO (XO
    (XO (XI XH)))))))))))))), (Zpos (XI (XO (XO (XI (XI (XO (XO (XI (XO (XO
    (XO (XO (XI XH))))))))))))))), (Zpos (XI (XO (XO (XI (XO (XI (XI (XO (XO
    (XO (XO (XO (XI XH))))))))))))))) :: ((((Zpos (XI (XI (XI (XI (XO (XI (XI
    (XO (XO (XO (XO (XO (XI XH)))))))))))))), (Zpos (XI (XO (XO (XI (XI (XO
    (XO (XI (XO (XO (XO (XO (XI XH))))))))))))))), (Zpos (XO (XO (XO (XO (XI
    (XI (XI (XO (XO (XO (XO (XO (XI XH))))))))))))))) :: ((((Zpos (XI (XI (XI
    (XI (XO (XI (XI (XO (XO (XO (XO (XO (XI XH)))))))))))))), (Zpos (XO (XI
    (XO (XI (XI (XO (XO (XI (XO (XO (XO (XO (XI XH))))))))))))))), (Zpos (XI
    (XO (XO (XO (XI (XI (XI (XO (XO (XO (XO (XO (XI
    XH))))))))))))))) :: ((((Zpos (XO (XI (XO (XO (XI (XI (XI (XO (XO (XO (XO
    (XO (XI XH)))))))))))))), (Zpos (XI (XO (XO (XI (XI (XO (XO (XI (XO (XO
    (XO (XO (XI XH))))))))))))))), (Zpos (XI (XI (XO (XO (XI (XI (XI (XO (XO
    (XO (XO (XO (XI XH))))))))))))))) :: ((((Zpos (XO (XI (XO (XO (XI (XI (XI
    (XO (XO (XO (XO (XO (XI XH)))))))))))))), (Zpos (XO (XI (XO (XI (XI (XO
    (XO (XI (XO (XO (XO (XO (XI XH))))))))))))))), (Zpos (XO (XO (XI (XO (XI
    (XI (XI (XO (XO (XO (XO (XO (XI XH))))))))))))))) :: ((((Zpos (XI (XO (XI
    (XO (XI (XI (XI (XO (XO (XO (XO (XO (XI XH)))))))))))))), (Zpos (XI (XO
    (XO (XI (XI (XO (XO (XI (XO (XO (XO (XO (XI XH))))))))))))))), (Zpos (XO
    (XI (XI (XO (XI (XI (XI (XO (XO (XO (XO (XO (XI
    XH))))))))))))))) :: ((((Zpos (XI (XO (XI (XO (XI (XI (XI (XO (XO (XO (XO
    (XO (XI XH)))))))))))))), (Zpos (XO (XI (XO (XI (XI (XO (XO (XI (XO (XO
    (XO (XO (XI XH))))))))))))))), (Zpos (XI (XI (XI (XO (XI (XI (XI (XO (XO
    (XO (XO (XO (XI XH))))))))))))))) :: ((((Zpos (XO (XO (XO (XI (XI (XI (XI
    (XO (XO (XO (XO (XO (XI XH)))))))))))))), (Zpos (XI (XO (XO (XI (XI (XO
    (XO (XI (XO (XO (XO (XO (XI XH))))))))))))))), (Zpos (XI (XO (XO (XI (XI
    (XI (XI (XO (XO (XO (XO (XO (XI XH))))))))))))))) :: ((((Zpos (XO (XO (XO
    (XI (XI (XI (XI (XO (XO (XO (XO (XO (XI XH)))))))))))))), (Zpos (XO (XI
    (XO (XI (XI (XO (XO (XI (XO (XO (XO (XO (XI XH))))))))))))))), (Zpos (XO
    (XI (XO (XI (XI (XI (XI (XO (XO (XO (XO (XO (XI
    XH))))))))))))))) :: ((((Zpos (XI (XI (XO (XI (XI (XI (XI (XO (XO (XO (XO
    (XO (XI XH)))))))))))))), (Zpos (XI (XO (XO (XI (XI (XO (XO (XI (XO (XO
    (XO (XO (XI XH))))))))))))))), (Zpos (XO (XO (XI (XI (XI (XI (XI (XO (XO
    (XO (XO (XO (XI XH))))))))))))))) :: ((((Zpos (XI (XI (XO (XI (XI (XI (XI
    (XO (XO (XO (XO (XO (XI XH)))))))))))))), (Zpos (XO (XI (XO (XI (XI (XO
    (XO (XI (XO (XO (XO (XO (XI XH))))))))))))))), (Zpos (XI (XO (XI (XI (XI
    (XI (XI (XO (XO (XO (XO (XO (XI XH))))))))))))))) :: ((((Zpos (XI (XO (XI
    (XI (XI (XO (XO (XI (XO (XO (XO (XO (XI XH)))))))))))))), (Zpos (XI (XO
    (XO (XI (XI (XO (XO (XI (XO (XO (XO (XO (XI XH))))))))))))))), (Zpos (XO
    (XI (XI (XI (XI (XO (XO (XI (XO (XO (XO (XO (XI
    XH))))))))))))))) :: ((((Zpos (XO (XI (XI (XO (XO (XI (XO (XI (XO (XO (XO
    (XO (XI XH)))))))))))))), (Zpos (XI (XO (XO (XI (XI (XO (XO (XI (XO (XO
    (XO (XO (XI XH))))))))))))))), (Zpos (XO (XO (XI (XO (XI (XI (XI (XI (XO
    (XO (XO (XO (XI XH))))))))))))))) :: ((((Zpos (XI (XI (XO (XI (XO (XI (XO
    (XI (XO (XO (XO (XO (XI XH)))))))))))))), (Zpos (XI (XO (XO (XI (XI (XO
    (XO (XI (XO (XO (XO (XO (XI XH))))))))))))))), (Zpos (XO (XO (XI (XI (XO
    (XI (XO (XI (XO (XO (XO (XO (XI XH))))))))))))))) :: ((((Zpos (XI (XO (XI
    (XI (XO (XI (XO (XI (XO (XO (XO (XO (XI XH)))))))))))))), (Zpos (XI (XO
    (XO (XI (XI (XO (XO (XI (XO (XO (XO (XO (XI XH))))))))))))))), (Zpos (XO
    (XI (XI (XI (XO (XI (XO (XI (XO (XO (XO (XO (XI
    XH))))))))))))))) :: ((((Zpos (XI (XI (XI (XI (XO (XI (XO (XI (XO (XO (XO
    (XO (XI XH)))))))))))))), (Zpos (XI (XO (XO (XI (XI (XO (XO (XI (XO (XO
    (XO (XO (XI XH))))))))))))))), (Zpos (XO (XO (XO (XO (XI (XI (XO (XI (XO
    (XO (XO (XO (XI XH))))))))))))))) :: ((((Zpos (XI (XO (XO (XO (XI (XI (XO
    (XI (XO (XO (XO (XO (XI XH)))))))))))))), (Zpos (XI (XO (XO (XI (XI (XO
    (XO (XI (XO (XO (XO (XO (XI XH))))))))))))))), (Zpos (XO (XI (XO (XO (XI
    (XI (XO (XI (XO (XO (XO (XO (XI XH))))))))))))))) :: ((((Zpos (XI (XI (XO
    (XO (XI (XI (XO (XI (XO (XO (XO (XO (XI XH)))))))))))))), (Zpos (XI (XO
    (XO (XI (XI (XO (XO (XI (XO (XO (XO (XO (XI XH))))))))))))))), (Zpos (XO
    (XO (XI (XO (XI (XI (XO (XI (XO (XO (XO (XO (XI
    XH))))))))))))))) :: ((((Zpos (XI (XO (XI (XO (XI (XI (XO (XI (XO (XO (XO
    (XO (XI XH)))))))))))))), (Zpos (XI (XO (XO (XI (XI (XO (XO (XI (XO (XO
    (XO (XO (XI XH))))))))))))))), (Zpos (XO (XI (XI (XO (XI (XI (XO (XI (XO
    (XO (XO (XO (XI XH))))))))))))))) :: ((((Zpos (XI (XI (XI (XO (XI (XI (XO
    (XI (XO (XO (XO (XO (XI XH)))))))))))))), (Zpos (XI (XO (XO (XI (XI (XO
    (XO (XI (XO (XO (XO (XO (XI XH))))))))))))))), (Zpos (XO (XO (XO (XI (XI
    (XI (XO (XI (XO (XO (XO (XO (XI XH))))))))))))))) :: ((((Zpos (XI (XO (XO
    (XI (XI (XI (XO (XI (XO (XO (XO (XO (XI XH)))))))))))))), (Zpos (XI (XO
    (XO (XI (XI (XO (XO (XI (XO (XO (XO (XO (XI XH))))))))))))))), (Zpos (XO
    (XI (XO (XI (XI (XI (XO (XI (XO (XO (XO (XO (XI
    XH))))))))))))))) :: ((((Zpos (XI (XI (XO (XI (XI (XI (XO (XI (XO (XO (XO
    (XO (XI XH)))))))))))))), (Zpos (XI (XO (XO (XI (XI (XO (XO (XI (XO (XO
    (XO (XO (XI XH))))))))))))))), (Zpos (XO (XO (XI (XI (XI (XI (XO (XI (XO
    (XO (XO (XO (XI XH))))))))))))))) :: ((((Zpos (XI (XO (XI (XI (XI (XI (XO
    (XI (XO (XO (XO (XO (XI XH)))))))))))))), (Zpos (XI (XO (XO (XI (XI (XO
    (XO (XI (XO (XO (XO (XO (XI XH))))))))))))))), (Zpos (XO (XI (XI (XI (XI
    (XI (XO (XI (XO (XO (XO (XO (XI XH))))))))))))))) :: ((((Zpos (XI (XI (XI
    (XI (XI (XI (XO (XI (XO (XO (XO (XO (XI XH)))))))))))))), (Zpos (XI (XO
    (XO (XI (XI (XO (XO (XI (XO (XO (XO (XO (XI XH))))))))))))))), (Zpos (XO
    (XO (XO (XO (XO (XO (XI (XI (XO (XO (XO (XO (XI
    XH))))))))))))))) :: ((((Zpos (XI (XO (XO (XO (XO (XO (XI (XI (XO (XO (XO
    (XO (XI XH)))))))))))))), (Zpos (XI (XO (XO (XI (XI (XO (XO (XI (XO (XO
    (XO (XO (XI XH))))))))))))))), (Zpos (XO (XI (XO (XO (XO (XO (XI (XI (XO
    (XO (XO (XO (XI XH))))))))))))))) :: ((((Zpos (XO (XO (XI (XO (XO (XO (XI
    (XI (XO (XO (XO (XO (XI XH)))))))))))))), (Zpos (XI (XO (XO (XI (XI (XO
    (XO (XI (XO (XO (XO (XO (XI XH))))))))))))))), (Zpos (XI (XO (XI (XO (XO
    (XO (XI (XI (XO (XO (XO (XO (XI XH))))))))))))))) :: ((((Zpos (XO (XI (XI
    (XO (XO (XO (XI (XI (XO (XO (XO (XO (XI XH)))))))))))))), (Zpos (XI (XO
    (XO (XI (XI (XO (XO (XI (XO (XO (XO (XO (XI XH))))))))))))))), (Zpos (XI
    (XI (XI (XO (XO (XO (XI (XI (XO (XO (XO (XO (XI
    XH))))))))))))))) :: ((((Zpos (XO (XO (XO (XI (XO (XO (XI (XI (XO (XO (XO
    (XO (XI XH)))))))))))))), (Zpos (XI (XO (XO (XI (XI (XO (XO (XI (XO (XO
    (XO (XO (XI XH))))))))))))))), (Zpos (XI (XO (XO (XI (XO (XO (XI (XI (XO
    (XO (XO (XO (XI XH))))))))))))))) :: ((((Zpos (XI (XI (XI (XI (XO (XO (XI
    (XI (XO (XO (XO (XO (XI XH)))))))))))))), (Zpos (XI (XO (XO (XI (XI (XO
    (XO (XI (XO (XO (XO (XO (XI XH))))))))))))))), (Zpos (XO (XO (XO (XO (XI
    (XO (XI (XI (XO (XO (XO (XO (XI XH))))))))))))))) :: ((((Zpos (XI (XI (XI
    (XI (XO (XO (XI (XI (XO (XO (XO (XO (XI XH)))))))))))))), (Zpos (XO (XI
    (XO (XI (XI (XO (XO (XI (XO (XO (XO (XO (XI XH))))))))))))))), (Zpos (XI
    (XO (XO (XO (XI (XO (XI (XI (XO (XO (XO (XO (XI
    XH))))))))))))))) :: ((((Zpos (XO (XI (XO (XO (XI (XO (XI (XI (XO (XO (XO
    (XO (XI XH)))))))))))))), (Zpos (XI (XO (XO (XI (XI (XO (XO (XI (XO (XO
    (XO (XO (XI XH))))))))))))))), (Zpos (XI (XI (XO (XO (XI (XO (XI (XI (XO
    (XO (XO (XO (XI XH))))))))))))))) :: ((((Zpos (XO (XI (XO (XO (XI (XO (XI
    (XI (XO (XO (XO (XO (XI XH)))))))))))))), (Zpos (XO (XI (XO (XI (XI (XO
    (XO (XI (XO (XO (XO (XO (XI XH))))))))))))))), (Zpos (XO (XO (XI (XO (XI
    (XO (XI (XI (XO (XO (XO (XO (XI XH))))))))))))))) :: ((((Zpos (XI (XO (XI
    (XO (XI (XO (XI (XI (XO (XO (XO (XO (XI XH)))))))))))))), (Zpos (XI (XO
    (XO (XI (XI (XO (XO (XI (XO (XO (XO (XO (XI XH))))))))))))))), (Zpos (XO
    (XI (XI (XO (XI (XO (XI (XI (XO (XO (XO (XO (XI
    XH))))))))))))))) :: ((((Zpos (XI (XO (XI (XO (XI (XO (XI (XI (XO (XO (XO
    (XO (XI XH)))))))))))))), (Zpos (XO (XI (XO (XI (XI (XO (XO (XI (XO (XO
    (XO (XO (XI XH))))))))))))))), (Zpos (XI (XI (XI (XO (XI (XO (XI (XI (XO
    (XO (XO (XO (XI XH))))))))))))))) :: ((((Zpos (XO (XO (XO (XI (XI (XO (XI
    (XI (XO (XO (XO (XO (XI XH)))))))))))))), (Zpos (XI (XO (XO (XI (XI (XO
    (XO (XI (XO (XO (XO (XO (XI XH))))))))))))))), (Zpos (XI (XO (XO (XI (XI
    (XO (XI (XI (XO (XO (XO (XO (XI XH))))))))))))))) :: ((((Zpos (XO (XO (XO
    (XI (XI (XO (XI (XI (XO (XO (XO (XO (XI XH)))))))))))))), (Zpos (XO (XI
    (XO (XI (XI (XO (XO (XI (XO (XO (XO (XO (XI XH))))))))))))))), (Zpos (XO
    (XI (XO (XI (XI (XO (XI (XI (XO (XO (XO (XO (XI
    XH))))))))))))))) :: ((((Zpos (XI (XI (XO (XI (XI (XO (XI (XI (XO (XO (XO
    (XO (XI XH)))))))))))))), (Zpos (XI (XO (XO (XI (XI (XO (XO (XI (XO (XO
    (XO (XO (XI XH))))))))))))))), (Zpos (XO (XO (XI (XI (XI (XO (XI (XI (XO
    (XO (XO (XO (XI XH))))))))))))))) :: ((((Zpos (XI (XI (XO (XI (XI (XO (XI
    (XI (XO (XO (XO (XO (XI XH)))))))))))))), (Zpos (XO (XI (XO (XI (XI (XO
    (XO (XI (XO (XO (XO (XO (XI XH))))))))))))))), (Zpos (XI (XO (XI (XI (XI
    (XO (XI (XI (XO (XO (XO (XO (XI XH))))))))))))))) :: ((((Zpos (XI (XI (XI
    (XI (XO (XI (XI (XI (XO (XO (XO (XO (XI XH)))))))))))))), (Zpos (XI (XO
    (XO (XI (XI (XO (XO (XI (XO (XO (XO (XO (XI XH))))))))))))))), (Zpos (XI
    (XI (XI (XO (XI (XI (XI (XI (XO (XO (XO (XO (XI
    XH))))))))))))))) :: ((((Zpos (XO (XO (XO (XO (XI (XI (XI (XI (XO (XO (XO
    (XO (XI XH)))))))))))))), (Zpos (XI (XO (XO (XI (XI (XO (XO (XI (XO (XO
    (XO (XO (XI XH))))))))))))))), (Zpos (XO (XO (XO (XI (XI (XI (XI (XI (XO
    (XO (XO (XO (XI XH))))))))))))))) :: ((((Zpos (XI (XO (XO (XO (XI (XI (XI
    (XI (XO (XO (XO (XO (XI XH)))))))))))))), (Zpos (XI (XO (XO (XI (XI (XO
    (XO (XI (XO (XO (XO (XO (XI XH))))))))))))))), (Zpos (XI (XO (XO (XI (XI
    (XI (XI (XI (XO (XO (XO (XO (XI XH))))))))))))))) :: ((((Zpos (XO (XI (XO
    (XO (XI (XI (XI (XI (XO (XO (XO (XO (XI XH)))))))))))))), (Zpos (XI (XO
    (XO (XI (XI (XO (XO (XI (XO (XO (XO (XO (XI XH))))))))))))))), (Zpos (XO
    (XI (XO (XI (XI (XI (XI (XI (XO (XO (XO (XO (XI
    XH))))))))))))))) :: ((((Zpos (XI (XO (XI (XI (XI (XI (XI (XI (XO (XO (XO
    (XO (XI XH)))))))))))))), (Zpos (XI (XO (XO (XI (XI (XO (XO (XI (XO (XO
    (XO (XO (XI XH))))))))))))))), (Zpos (XO (XI (XI (XI (XI (XI (XI (XI (XO
    (XO (XO (XO (XI XH))))))))))))))) :: ((((Zpos (XI (XO (XO (XI (XO (XO (XI
    (XO (XI (XI (XO (XI (XI (XI (XI XH)))))))))))))))), (Zpos (XI (XO (XO (XO
    (XO (XO (XI (XI (XI (XO XH)))))))))))), (Zpos (XO (XO (XI (XI (XO (XI (XO
    (XO (XI (XI (XO (XI (XI (XI (XI XH))))))))))))))))) :: ((((Zpos (XI (XO
    (XO (XI (XO (XO (XI (XO (XI (XI (XO (XI (XI (XI (XI XH)))))))))))))))),
    (Zpos (XO (XI (XO (XO (XO (XO (XI (XI (XI (XO XH)))))))))))), (Zpos (XI
    (XO (XI (XI (XO (XI (XO (XO (XI (XI (XO (XI (XI (XI (XI
    XH))))))))))))))))) :: ((((Zpos (XI (XO (XO (XI (XI (XO (XO (XI (XO (XO
    (XO (XO (XI (XO (XO (XO XH))))))))))))))))), (Zpos (XO (XI (XO (XI (XI
    (XI (XO (XI (XO (XO (XO (XO (XI (XO (XO (XO XH)))))))))))))))))), (Zpos
    (XO (XI (XO (XI (XI (XO (XO (XI (XO (XO (XO (XO (XI (XO (XO (XO
    XH)))))))))))))))))) :: ((((Zpos (XI (XI (XO (XI (XI (XO (XO (XI (XO (XO
    (XO (XO (XI (XO (XO (XO XH))))))))))))))))), (Zpos (XO (XI (XO (XI (XI
    (XI (XO (XI (XO (XO (XO (XO (XI (XO (XO (XO XH)))))))))))))))))), (Zpos
    (XO (XO (XI (XI (XI (XO (XO (XI (XO (XO (XO (XO (XI (XO (XO (XO
    XH)))))))))))))))))) :: ((((Zpos (XI (XO (XI (XO (XO (XI (XO (XI (XO (XO
    (XO (XO (XI (XO (XO (XO XH))))))))))))))))), (Zpos (XO (XI (XO (XI (XI
    (XI (XO (XI (XO (XO (XO (XO (XI (XO (XO (XO XH)))))))))))))))))), (Zpos
    (XI (XI (XO (XI (XO (XI (XO (XI (XO (XO (XO (XO (XI (XO (XO (XO
    XH)))))))))))))))))) :: ((((Zpos (XI (XO (XO (XO (XI (XI (XO (XO (XI (XO
    (XO (XO (XI (XO (XO (XO XH))))))))))))))))), (Zpos (XI (XI (XI (XO (XO
    (XI (XO (XO (XI (XO (XO (XO (XI (XO (XO (XO XH)))))))))))))))))), (Zpos
    (XO (XI (XI (XI (XO (XI (XO (XO (XI (XO (XO (XO (XI (XO (XO (XO
    XH)))))))))))))))))) :: ((((Zpos (XO (XI (XO (XO (XI (XI (XO (XO (XI (XO
    (XO (XO (XI (XO (XO (XO XH))))))))))))))))), (Zpos (XI (XI (XI (XO (XO
    (XI (XO (XO (XI (XO (XO (XO (XI (XO (XO (XO XH)))))))))))))))))), (Zpos
    (XI (XI (XI (XI (XO (XI (XO (XO (XI (XO (XO (XO (XI (XO (XO (XO
    XH)))))))))))))))))) :: ((((Zpos (XI (XI (XI (XO (XO (XO (XI (XO (XI (XI
    (XO (XO (XI (XO (XO (XO XH))))))))))))))))), (Zpos (XO (XI (XI (XI (XI
    (XI (XO (XO (XI (XI (XO (XO (XI (XO (XO (XO XH)))))))))))))))))), (Zpos
    (XI (XI (XO (XI (XO (XO (XI (XO (XI (XI (XO (XO (XI (XO (XO (XO
    XH)))))))))))))))))) :: ((((Zpos (XI (XI (XI (XO (XO (XO (XI (XO (XI (XI
    (XO (XO (XI (XO (XO (XO XH))))))))))))))))), (Zpos (XI (XI (XI (XO (XI
    (XO (XI (XO (XI (XI (XO (XO (XI (XO (XO (XO XH)))))))))))))))))), (Zpos
    (XO (XO (XI (XI (XO (XO (XI (XO (XI (XI (XO (XO (XI (XO (XO (XO
    XH)))))))))))))))))) :: ((((Zpos (XI (XO (XO (XI (XI (XI (XO (XI (XO (XO
    (XI (XO (XI (XO (XO (XO XH))))))))))))))))), (Zpos (XO (XO (XO (XO (XI
    (XI (XO (XI (XO (XO (XI (XO (XI (XO (XO (XO XH)))))))))))))))))), (Zpos
    (XO (XO (XI (XI (XI (XI (XO (XI (XO (XO (XI (XO (XI (XO (XO (XO
    XH)))))))))))))))))) :: ((((Zpos (XI (XO (XO (XI (XI (XI (XO (XI (XO (XO
    (XI (XO (XI (XO (XO (XO XH))))))))))))))))), (Zpos (XO (XI (XO (XI (XI
    (XI (XO (XI (XO (XO (XI (XO (XI (XO (XO (XO XH)))))))))))))))))), (Zpos
    (XI (XI (XO (XI (XI (XI (XO (XI (XO (XO (XI (XO (XI (XO (XO (XO
    XH)))))))))))))))))) :: ((((Zpos (XI (XO (XO (XI (XI (XI (XO (XI (XO (XO
    (XI (XO (XI (XO (XO (XO XH))))))))))))))))), (Zpos (XI (XO (XI (XI (XI
    (XI (XO (XI (XO (XO (XI (XO (XI (XO (XO (XO XH)))))))))))))))))), (Zpos
    (XO (XI (XI (XI (XI (XI (XO (XI (XO (XO (XI (XO (XI (XO (XO (XO
    XH)))))))))))))))))) :: ((((Zpos (XO (XO (XO (XI (XI (XI (XO (XI (XI (XO
    (XI (XO (XI (XO (XO (XO XH))))))))))))))))), (Zpos (XI (XI (XI (XI (XO
    (XI (XO (XI (XI (XO (XI (XO (XI (XO (XO (XO XH)))))))))))))))))), (Zpos
    (XO (XI (XO (XI (XI (XI (XO (XI (XI (XO (XI (XO (XI (XO (XO (XO
    XH)))))))))))))))))) :: ((((Zpos (XI (XO (XO (XI (XI (XI (XO (XI (XI (XO
    (XI (XO (XI (XO (XO (XO XH))))))))))))))))), (Zpos (XI (XI (XI (XI (XO
    (XI (XO (XI (XI (XO (XI (XO (XI (XO (XO (XO XH)))))))))))))))))), (Zpos
    (XI (XI (XO (XI (XI (XI (XO (XI (XI (XO (XI (XO (XI (XO (XO (XO
    XH)))))))))))))))))) :: ((((Zpos (XI (XO (XI (XO (XI (XI (XO (XO (XI (XO
    (XO (XI (XI (XO (XO (XO XH))))))))))))))))), (Zpos (XO (XO (XO (XO (XI
    (XI (XO (XO (XI (XO (XO (XI (XI (XO (XO (XO XH)))))))))))))))))), (Zpos
    (XO (XO (XO (XI (XI (XI (XO (XO (XI (XO (XO (XI (XI (XO (XO (XO
    XH)))))))))))))))))) :: ((((Zpos (XI (XI (XI (XO (XI (XO (XI (XO (XI (XO
    (XO (XO (XI (XO (XI (XI XH))))))))))))))))), (Zpos (XI (XO (XI (XO (XO
    (XI (XI (XO (XI (XO (XO (XO (XI (XO (XI (XI XH)))))))))))))))))), (Zpos
    (XO (XI (XI (XI (XI (XO (XI (XO (XI (XO (XO (XO (XI (XO (XI (XI
    XH)))))))))))))))))) :: ((((Zpos (XO (XO (XO (XI (XI (XO (XI (XO (XI (XO
    (XO (XO (XI (XO (XI (XI XH))))))))))))))))), (Zpos (XI (XO (XI (XO (XO
    (XI (XI (XO (XI (XO (XO (XO (XI (XO (XI (XI XH)))))))))))))))))), (Zpos
    (XI (XI (XI (XI (XI (XO (XI (XO (XI (XO (XO (XO (XI (XO (XI (XI
    XH)))))))))))))))))) :: ((((Zpos (XI (XI (XI (XI (XI (XO (XI (XO (XI (XO
    (XO (XO (XI (XO (XI (XI XH))))))))))))))))), (Zpos (XO (XI (XI (XI (XO
    (XI (XI (XO (XI (XO (XO (XO (XI (XO (XI (XI XH)))))))))))))))))), (Zpos
    (XO (XO (XO (XO (XO (XI (XI (XO (XI (XO (XO (XO (XI (XO (XI (XI
    XH)))))))))))))))))) :: ((((Zpos (XI (XI (XI (XI (XI (XO (XI (XO (XI (XO
    (XO (XO (XI (XO (XI (XI XH))))))))))))))))), (Zpos (XI (XI (XI (XI (XO
    (XI (XI (XO (XI (XO (XO (XO (XI (XO (XI (XI XH)))))))))))))))))), (Zpos
    (XI (XO (XO (XO (XO (XI (XI (XO (XI (XO (XO (XO (XI (XO (XI (XI
    XH)))))))))))))))))) :: ((((Zpos (XI (XI (XI (XI (XI (XO (XI (XO (XI (XO
    (XO (XO (XI (XO (XI (XI XH))))))))))))))))), (Zpos (XO (XO (XO (XO (XI
    (XI (XI (XO (XI (XO (XO (XO (XI (XO (XI (XI XH)))))))))))))))))), (Zpos
    (XO (XI (XO (XO (XO (XI (XI (XO (XI (XO (XO (XO (XI (XO (XI (XI
    XH)))))))))))))))))) :: ((((Zpos (XI (XI (XI (XI (XI (XO (XI (XO (XI (XO
    (XO (XO (XI (XO (XI (XI XH))))))))))))))))), (Zpos (XI (XO (XO (XO (XI
    (XI (XI (XO (XI (XO (XO (XO (XI (XO (XI (XI XH)))))))))))))))))), (Zpos
    (XI (XI (XO (XO (XO (XI (XI (XO (XI (XO (XO (XO (XI (XO (XI (XI
    XH)))))))))))))))))) :: ((((Zpos (XI (XI (XI (XI (XI (XO (XI (XO (XI (XO
    (XO (XO (XI (XO (XI (XI XH))))))))))))))))), (Zpos (XO (XI (XO (XO (XI
    (XI (XI (XO (XI (XO (XO (XO (XI (XO (XI (XI XH)))))))))))))))))), (Zpos
    (XO (XO (XI (XO (XO (XI (XI (XO (XI (XO (XO (XO (XI (XO (XI (XI
    XH)))))))))))))))))) :: ((((Zpos (XI (XO (XO (XI (XI (XI (XO (XI (XI (XO
    (XO (XO (XI (XO (XI (XI XH))))))))))))))))), (Zpos (XI (XO (XI (XO (XO
    (XI (XI (XO (XI (XO (XO (XO (XI (XO (XI (XI XH)))))))))))))))))), (Zpos
    (XI (XI (XO (XI (XI (XI (XO (XI (XI (XO (XO (XO (XI (XO (XI (XI
    XH)))))))))))))))))) :: ((((Zpos (XO (XI (XO (XI (XI (XI (XO (XI (XI (XO
    (XO (XO (XI (XO (XI (XI XH))))))))))))))))), (Zpos (XI (XO (XI (XO (XO
    (XI (XI (XO (XI (XO (XO (XO (XI (XO (XI (XI XH)))))))))))))))))), (Zpos
    (XO (XO (XI (XI (XI (XI (XO (XI (XI (XO (XO (XO (XI (XO (XI (XI
    XH)))))))))))))))))) :: ((((Zpos (XI (XI (XO (XI (XI (XI (XO (XI (XI (XO
    (XO (XO (XI (XO (XI (XI XH))))))))))))))))), (Zpos (XO (XI (XI (XI (XO
    (XI (XI (XO (XI (XO (XO (XO (XI (XO (XI (XI XH)))))))))))))))))), (Zpos
    (XI (XO (XI (XI (XI (XI (XO (XI (XI (XO (XO (XO (XI (XO (XI (XI
    XH)))))))))))))))))) :: ((((Zpos (XI (XI (XO (XI (XI (XI (XO (XI (XI (XO
    (XO (XO (XI (XO (XI (XI XH))))))))))))))))), (Zpos (XI (XI (XI (XI (XO
    (XI (XI (XO (XI (XO (XO (XO (XI (XO (XI (XI XH)))))))))))))))))), (Zpos
    (XI (XI (XI (XI (XI (XI (XO (XI (XI (XO (XO (XO (XI (XO (XI (XI
    XH)))))))))))))))))) :: ((((Zpos (XO (XO (XI (XI (XI (XI (XO (XI (XI (XO
    (XO (XO (XI (XO (XI (XI XH))))))))))))))))), (Zpos (XO (XI (XI (XI (XO
    (XI (XI (XO (XI (XO (XO (XO (XI (XO (XI (XI XH)))))))))))))))))), (Zpos
    (XO (XI (XI (XI (XI (XI (XO (XI (XI (XO (XO (XO (XI (XO (XI (XI
    XH)))))))))))))))))) :: ((((Zpos (XO (XO (XI (XI (XI (XI (XO (XI (XI (XO
    (XO (XO (XI (XO (XI (XI XH))))))))))))))))), (Zpos (XI (XI (XI (XI (XO
    (XI (XI (XO (XI (XO (XO (XO (XI (XO (XI (XI XH)))))))))))))))))), (Zpos
    (XO (XO (XO (XO (XO (XO (XI (XI (XI (XO (XO (XO (XI (XO (XI (XI
    XH)))))))))))))))))) :: [])))))))))))))))))))))))))))))))))))))))))))))))))))))))))))))))))))))))))))))))))))))))))))))))))))))))))))))))))))))))))))))))))))))))))))))))))))))))))))))))))))))))))))))))))))))))))))))))))))))))))))))))))))))))))))))))))))))))))))))))))))))))))))))))))))))))))))))))))))))))))))))))))))))))))))))))))))))))))))))))))))))))))))))))))))))))))))))))))))))))))))))))))))))))))))))))))))))))))))))))))))))))))))))))))))))))))))))))))))))))))))))))))))))))))))))))))))))))))))))))))))))))))))))))))))))))))))))))))))))))))))))))))))))))))))))))))))))))))))))))))))))))))))))))))))))))))))))))))))))))))))))))))))))))))))))))))))))))))))))))))))))))))))))))))))))))))))))))))))))))))))))))))))))))))))))))))))))))))))))))))))))))))))))))))))))))))))))))))))))))))))))))))))))))))))))))))))))))))))))))))))))))))))))))))))))))))))))))))))))))))))))))))))))))))))))))))))))))))))))))))))))))))))))))))))))))))))))))))))))))))))))))))))))))))))))))))))))))))))))))))))))))))))))))))))))))))))))))))))))))))))))))))))))))))))))

(** val impl_excl : z list **)

let impl_excl =
  (Zpos (XO (XO (XO (XI (XI (XO (XI (XO (XI (XO (XO XH)))))))))))) :: ((Zpos
    (XI (XO (XO (XI (XI (XO (XI (XO (XI (XO (XO XH)))))))))))) :: ((Zpos (XO
    (XI (XO (XI (XI (XO (XI (XO (XI (XO (XO XH)))))))))))) :: ((Zpos (XI (XI
    (XO (XI (XI (XO (XI (XO (XI (XO (XO XH)))))))))))) :: ((Zpos (XO (XO (XI
    (XI (XI (XO (XI (XO (XI (XO (XO XH)))))))))))) :: ((Zpos (XI (XO (XI (XI
    (XI (XO (XI (XO (XI (XO (XO XH)))))))))))) :: ((Zpos (XO (XI (XI (XI (XI
    (XO (XI (XO (XI (XO (XO XH)))))))))))) :: ((Zpos (XI (XI (XI (XI (XI (XO
    (XI (XO (XI (XO (XO XH)))))))))))) :: ((Zpos (XO (XO (XI (XI (XI (XO (XI
    (XI (XI (XO (XO XH)))))))))))) :: ((Zpos (XI (XO (XI (XI (XI (XO (XI (XI
    (XI (XO (XO XH)))))))))))) :: ((Zpos (XI (XI (XI (XI (XI (XO (XI (XI (XI
    (XO (XO XH)))))))))))) :: ((Zpos (XI (XI (XO (XO (XI (XI (XO (XO (XO (XI
    (XO XH)))))))))))) :: ((Zpos (XO (XI (XI (XO (XI (XI (XO (XO (XO (XI (XO
    XH)))))))))))) :: ((Zpos (XI (XO (XO (XI (XI (XO (XI (XO (XO (XI (XO
    XH)))))))))))) :: ((Zpos (XO (XI (XO (XI (XI (XO (XI (XO (XO (XI (XO
    XH)))))))))))) :: ((Zpos (XI (XI (XO (XI (XI (XO (XI (XO (XO (XI (XO
    XH)))))))))))) :: ((Zpos (XO (XI (XI (XI (XI (XO (XI (XO (XO (XI (XO
    XH)))))))))))) :: ((Zpos (XO (XO (XI (XI (XI (XO (XI (XO (XI (XI (XO
    XH)))))))))))) :: ((Zpos (XI (XO (XI (XI (XI (XO (XI (XO (XI (XI (XO
    XH)))))))))))) :: ((Zpos (XI (XI (XO (XO (XO (XO (XI (XO (XI (XI (XI
    XH)))))))))))) :: ((Zpos (XI (XO (XI (XI (XO (XO (XI (XO (XI (XI (XI
    XH)))))))))))) :: ((Zpos (XO (XI (XO (XO (XI (XO (XI (XO (XI (XI (XI
    XH)))))))))))) :: ((Zpos (XI (XI (XI (XO (XI (XO (XI (XO (XI (XI (XI
    XH)))))))))))) :: ((Zpos (XO (XO (XI (XI (XI (XO (XI (XO (XI (XI (XI
    XH)))))))))))) :: ((Zpos (XI (XO (XO (XI (XO (XI (XI (XO (XI (XI (XI
    XH)))))))))))) :: ((Zpos (XO (XI (XI (XO (XI (XI (XI (XO (XI (XI (XI
    XH)))))))))))) :: ((Zpos (XO (XO (XO (XI (XI (XI (XI (XO (XI (XI (XI
    XH)))))))))))) :: ((Zpos (XI (XI (XO (XO (XI (XO (XO (XI (XI (XI (XI
    XH)))))))))))) :: ((Zpos (XI (XO (XI (XI (XI (XO (XO (XI (XI (XI (XI
    XH)))))))))))) :: ((Zpos (XO (XI (XO (XO (XO (XI (XO (XI (XI (XI (XI
    XH)))))))))))) :: ((Zpos (XI (XI (XI (XO (XO (XI (XO (XI (XI (XI (XI
    XH)))))))))))) :: ((Zpos (XO (XO (XI (XI (XO (XI (XO (XI (XI (XI (XI
    XH)))))))))))) :: ((Zpos (XI (XO (XO (XI (XI (XI (XO (XI (XI (XI (XI
    XH)))))))))))) :: ((Zpos (XO (XO (XI (XI (XI (XO (XI (XI (XO (XI (XO (XI
    (XO XH)))))))))))))) :: ((Zpos (XI (XO (XI (XI (XI (XO (XO (XO (XI (XI
    (XO (XI (XI (XI (XI XH)))))))))))))))) :: ((Zpos (XI (XI (XI (XI (XI (XO
    (XO (XO (XI (XI (XO (XI (XI (XI (XI XH)))))))))))))))) :: ((Zpos (XO (XI
    (XO (XI (XO (XI (XO (XO (XI (XI (XO (XI (XI (XI (XI
    XH)))))))))))))))) :: ((Zpos (XI (XI (XO (XI (XO (XI (XO (XO (XI (XI (XO
    (XI (XI (XI (XI XH)))))))))))))))) :: ((Zpos (XO (XO (XI (XI (XO (XI (XO
    (XO (XI (XI (XO (XI (XI (XI (XI XH)))))))))))))))) :: ((Zpos (XI (XO (XI
    (XI (XO (XI (XO (XO (XI (XI (XO (XI (XI (XI (XI
    XH)))))))))))))))) :: ((Zpos (XO (XI (XI (XI (XO (XI (XO (XO (XI (XI (XO
    (XI (XI (XI (XI XH)))))))))))))))) :: ((Zpos (XI (XI (XI (XI (XO (XI (XO
    (XO (XI (XI (XO (XI (XI (XI (XI XH)))))))))))))))) :: ((Zpos (XO (XO (XO
    (XO (XI (XI (XO (XO (XI (XI (XO (XI (XI (XI (XI
    XH)))))))))))))))) :: ((Zpos (XI (XO (XO (XO (XI (XI (XO (XO (XI (XI (XO
    (XI (XI (XI (XI XH)))))))))))))))) :: ((Zpos (XO (XI (XO (XO (XI (XI (XO
    (XO (XI (XI (XO (XI (XI (XI (XI XH)))))))))))))))) :: ((Zpos (XI (XI (XO
    (XO (XI (XI (XO (XO (XI (XI (XO (XI (XI (XI (XI
    XH)))))))))))))))) :: ((Zpos (XO (XO (XI (XO (XI (XI (XO (XO (XI (XI (XO
    (XI (XI (XI (XI XH)))))))))))))))) :: ((Zpos (XI (XO (XI (XO (XI (XI (XO
    (XO (XI (XI (XO (XI (XI (XI (XI XH)))))))))))))))) :: ((Zpos (XO (XI (XI
    (XO (XI (XI (XO (XO (XI (XI (XO (XI (XI (XI (XI
    XH)))))))))))))))) :: ((Zpos (XO (XO (XO (XI (XI (XI (XO (XO (XI (XI (XO
    (XI (XI (XI (XI XH)))))))))))))))) :: ((Zpos (XI (XO (XO (XI (XI (XI (XO
    (XO (XI (XI (XO (XI (XI (XI (XI XH)))))))))))))))) :: ((Zpos (XO (XI (XO
    (XI (XI (XI (XO (XO (XI (XI (XO (XI (XI (XI (XI
    XH)))))))))))))))) :: ((Zpos (XI (XI (XO (XI (XI (XI (XO (XO (XI (XI (XO
    (XI (XI (XI (XI XH)))))))))))))))) :: ((Zpos (XO (XO (XI (XI (XI (XI (XO
    (XO (XI (XI (XO (XI (XI (XI (XI XH)))))))))))))))) :: ((Zpos (XO (XI (XI
    (XI (XI (XI (XO (XO (XI (XI (XO (XI (XI (XI (XI
    XH)))))))))))))))) :: ((Zpos (XO (XO (XO (XO (XO (XO (XI (XO (XI (XI (XO
    (XI (XI (XI (XI XH)))))))))))))))) :: ((Zpos (XI (XO (XO (XO (XO (XO (XI
    (XO (XI (XI (XO (XI (XI (XI (XI XH)))))))))))))))) :: ((Zpos (XI (XI (XO
    (XO (XO (XO (XI (XO (XI (XI (XO (XI (XI (XI (XI
    XH)))))))))))))))) :: ((Zpos (XO (XO (XI (XO (XO (XO (XI (XO (XI (XI (XO
    (XI (XI (XI (XI XH)))))))))))))))) :: ((Zpos (XO (XI (XI (XO (XO (XO (XI
    (XO (XI (XI (XO (XI (XI (XI (XI XH)))))))))))))))) :: ((Zpos (XI (XI (XI
    (XO (XO (XO (XI (XO (XI (XI (XO (XI (XI (XI (XI
    XH)))))))))))))))) :: ((Zpos (XO (XO (XO (XI (XO (XO (XI (XO (XI (XI (XO
    (XI (XI (XI (XI XH)))))))))))))))) :: ((Zpos (XI (XO (XO (XI (XO (XO (XI
    (XO (XI (XI (XO (XI (XI (XI (XI XH)))))))))))))))) :: ((Zpos (XO (XI (XO
    (XI (XO (XO (XI (XO (XI (XI (XO (XI (XI (XI (XI
    XH)))))))))))))))) :: ((Zpos (XI (XI (XO (XI (XO (XO (XI (XO (XI (XI (XO
    (XI (XI (XI (XI XH)))))))))))))))) :: ((Zpos (XO (XO (XI (XI (XO (XO (XI
    (XO (XI (XI (XO (XI (XI (XI (XI XH)))))))))))))))) :: ((Zpos (XI (XO (XI
    (XI (XO (XO (XI (XO (XI (XI (XO (XI (XI (XI (XI
    XH)))))))))))))))) :: ((Zpos (XO (XI (XI (XI (XO (XO (XI (XO (XI (XI (XO
    (XI (XI (XI (XI XH)))))))))))))))) :: ((Zpos (XO (XI (XI (XI (XI (XO (XI
    (XO (XI (XO (XO (XO (XI (XO (XI (XI XH))))))))))))))))) :: ((Zpos (XI (XI
    (XI (XI (XI (XO (XI (XO (XI (XO (XO (XO (XI (XO (XI (XI
    XH))))))))))))))))) :: ((Zpos (XO (XO (XO (XO (XO (XI (XI (XO (XI (XO (XO
    (XO (XI (XO (XI (XI XH))))))))))))))))) :: ((Zpos (XI (XO (XO (XO (XO (XI
    (XI (XO (XI (XO (XO (XO (XI (XO (XI (XI XH))))))))))))))))) :: ((Zpos (XO
    (XI (XO (XO (XO (XI (XI (XO (XI (XO (XO (XO (XI (XO (XI (XI
    XH))))))))))))))))) :: ((Zpos (XI (XI (XO (XO (XO (XI (XI (XO (XI (XO (XO
    (XO (XI (XO (XI (XI XH))))))))))))))))) :: ((Zpos (XO (XO (XI (XO (XO (XI
    (XI (XO (XI (XO (XO (XO (XI (XO (XI (XI XH))))))))))))))))) :: ((Zpos (XI
    (XI (XO (XI (XI (XI (XO (XI (XI (XO (XO (XO (XI (XO (XI (XI
    XH))))))))))))))))) :: ((Zpos (XO (XO (XI (XI (XI (XI (XO (XI (XI (XO (XO
    (XO (XI (XO (XI (XI XH))))))))))))))))) :: ((Zpos (XI (XO (XI (XI (XI (XI
    (XO (XI (XI (XO (XO (XO (XI (XO (XI (XI XH))))))))))))))))) :: ((Zpos (XO
    (XI (XI (XI (XI (XI (XO (XI (XI (XO (XO (XO (XI (XO (XI (XI
    XH))))))))))))))))) :: ((Zpos (XI (XI (XI (XI (XI (XI (XO (XI (XI (XO (XO
    (XO (XI (XO (XI (XI XH))))))))))))))))) :: ((Zpos (XO (XO (XO (XO (XO (XO
    (XI (XI (XI (XO (XO (XO (XI (XO (XI (XI
    XH))))))))))))))))) :: []))))))))))))))))))))))))))))))))))))))))))))))))))))))))))))))))))))))))))))))))

(** val tI : tables **)

let tI =
  build impl_decomp impl_ccc impl_compose impl_excl

(** val uni_nfd : z list -> z list **)

let uni_nfd =
  nfd tI

(** val uni_nfc : z list -> z list **)

let uni_nfc =
  nfc tI

(** val uni_nfc_ref : z list -> z list **)

let uni_nfc_ref s =
  ref_compose tI (nfd tI s)
