(* Properties_C16.v -- C16: bsearch_s finds, qsort_s sorts.  Only theorem statements, each closed by [exact].
   bsearch_s: full (every element count, every array sorted with respect to the key).
   qsort_s: the smoothsort of src/misc/qsort_s.c is transcribed in ModSort.v (tied to the code by comparing
   the exact sequence of comparator calls and the final arrangement with the implementation on every case).
   Proved for every element count, element type and comparator: the result is a permutation of the input,
   and no element index outside [0, nmemb) is ever dereferenced (comparator operands and rotation slots);
   the run depends on the elements only through the signs the comparator reports.
   Order of the result: proved for every array of at most 7 elements (finite computation over all key
   patterns, lifted to arbitrary elements/comparators by the parametricity theorem) -- the unbounded
   statement (Leonardo-heap invariants) is NOT proved: this half is partial. *)
From Coq Require Import List ZArith Lia Bool.
From Coq Require Import Permutation.
From SC Require Import Base Wp Cfg ModSearch ProofsSearch ModSort ProofsSort ProofsSort7.
Import ListNotations.
From SC.Gen Require Import Consts.
Local Open Scope Z_scope.

Theorem C16_bsearch_found_is_match : forall fuel cmp base nmemb r,
  bsearch_abs fuel cmp base nmemb = Some r -> cmp r = 0 /\ base <= r < base + nmemb.
Proof. exact bsearch_abs_sound. Qed.
Print Assumptions C16_bsearch_found_is_match.
Theorem C16_bsearch_finds_existing : forall fuel cmp base nmemb,
  (Z.to_nat nmemb <= fuel)%nat -> sorted_wrt cmp base (base + nmemb) ->
  (exists i, base <= i < base + nmemb /\ cmp i = 0) -> bsearch_abs fuel cmp base nmemb <> None.
Proof. exact bsearch_abs_complete. Qed.
Print Assumptions C16_bsearch_finds_existing.
Theorem C16_bsearch_probes_inside : forall fuel cmp base nmemb,
  Forall (fun j => base <= j < base + nmemb) (probes fuel cmp base nmemb).
Proof. exact probes_in_range. Qed.
Print Assumptions C16_bsearch_probes_inside.
(* the executable model run by the drivers is this abstract search over the bytewise comparator *)
Theorem C16_bsearch_program_is_abstract : forall fuel key b0 size base nmemb m,
  let cmp := fun j => memcmp_val (Z.to_nat (Z.min size 4)) m key (b0 + size * j) in
  wp (bsearch_loop fuel key (b0 + size * base) nmemb size) m (fun r m' =>
     m' = m /\ r = match bsearch_abs fuel cmp base nmemb with Some j => b0 + size * j | None => 0 end).
Proof. exact bsearch_loop_abs. Qed.
Print Assumptions C16_bsearch_program_is_abstract.

(* ---------------- qsort_s ---------------- *)
(* every completed run leaves a permutation of the input: nothing lost, duplicated or altered; any comparator *)
Theorem C16_qsort_permutation : forall (A : Type) (cmp : A -> A -> Z) (l l' : list A) (tr : list (Z * Z)),
  smoothsort A cmp l = Some (l', tr) -> Permutation l l' /\ length l' = length l.
Proof. exact smoothsort_perm. Qed.
Print Assumptions C16_qsort_permutation.
(* the model answers None exactly when an element index outside [0, nmemb) would be dereferenced, a bookkeeping
   index (lp[pshift-1]) would be negative, or a loop would not terminate within its bound: it never does,
   for every array, every element count and every comparator (consistent or not) *)
Theorem C16_qsort_stays_inside_array : forall (A : Type) (cmp : A -> A -> Z) (l : list A), smoothsort A cmp l <> None.
Proof. exact smoothsort_total. Qed.
Print Assumptions C16_qsort_stays_inside_array.
(* the comparator is only ever applied to two elements of the array, and the run (comparator calls included)
   depends on them only through the signs reported: mapping the elements and replacing the comparator by one
   that agrees in sign maps the whole run *)
Theorem C16_qsort_run_depends_on_signs_only : forall (A B : Type) (cmpA : A -> A -> Z) (cmpB : B -> B -> Z) (f : A -> B) (l : list A),
  (forall a a', In a l -> In a' l -> (cmpA a a' >=? 0) = (cmpB (f a) (f a') >=? 0) /\ (cmpA a a' <=? 0) = (cmpB (f a) (f a') <=? 0)) ->
  smoothsort B cmpB (map f l) = om (mf2 A B f) (smoothsort A cmpA l).
Proof. exact smoothsort_map. Qed.
Print Assumptions C16_qsort_run_depends_on_signs_only.
(* order, bounded: every array of at most 7 elements, any element type, any comparator that reports the order of a key *)
Theorem C16_qsort_sorted_partial : forall (A : Type) (cmp : A -> A -> Z) (key : A -> Z) (l : list A),
  (forall a b, In a l -> In b l -> (0 <= cmp a b <-> key b <= key a) /\ (cmp a b <= 0 <-> key a <= key b)) ->
  (length l <= 7)%nat ->
  exists l' tr, smoothsort A cmp l = Some (l', tr) /\ Permutation l l' /\ sortedb (map key l') = true.
Proof. exact smoothsort_sorted_small. Qed.
Print Assumptions C16_qsort_sorted_partial.
Example C16_qsort_example :
  option_map fst (smoothsort Z zcmp [5; 3; 8; 1; 9; 2; 7; 7; 0; 4; 6; 3]) = Some [0; 1; 2; 3; 3; 4; 5; 6; 7; 7; 8; 9]
  /\ (forall a b : Z, (0 <= zcmp a b <-> b <= a) /\ (zcmp a b <= 0 <-> a <= b)).
Proof. split; [vm_compute; reflexivity|]. intros a b. unfold zcmp. destruct (Z.compare_spec a b); split; split; intros; lia. Qed.
Example C16_example : bsearch_abs 5 (fun j => 3 - j) 0 5 = Some 3 /\ sorted_wrt (fun j => 3 - j) 0 5.
Proof. split; [reflexivity|]. intros i j Hi Hij Hj. split; intros; lia. Qed.
