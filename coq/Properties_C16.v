(* Properties_C16.v -- C16: bsearch_s finds, qsort_s sorts.  Only theorem statements, each closed by [exact].
   bsearch_s: full (every element count, every array sorted with respect to the key).
   qsort_s: not yet modelled in Coq; its part of the property is examined on the implementation only
   (permutation, order, comparator arguments, bounds) and is labelled partial in the evidence. *)
From Coq Require Import List ZArith Lia Bool.
From SC Require Import Base Wp Cfg ModSearch ProofsSearch.
From SC.Gen Require Import Consts.
Local Open Scope Z_scope.

Theorem C16_bsearch_found_is_match : forall fuel cmp base nmemb r,
  bsearch_abs fuel cmp base nmemb = Some r -> cmp r = 0 /\ base <= r < base + nmemb.
Proof. exact bsearch_abs_sound. Qed.
Print Assumptions C16_bsearch_found_is_match.
Theorem C16_bsearch_finds_existing : forall fuel cmp base nmemb,
  (Z.to_nat nmemb <= fuel)%nat -> sorted_wrt cmp base (base + nmemb) ->
  (exists i, base <= i < base + nmemb /\ cmp i = 0) -> bsearch_abs fuel cmp base nmemb <> None.
Proof. exact bsearch_abs_complete. Qed.
Print Assumptions C16_bsearch_finds_existing.
Theorem C16_bsearch_probes_inside : forall fuel cmp base nmemb,
  Forall (fun j => base <= j < base + nmemb) (probes fuel cmp base nmemb).
Proof. exact probes_in_range. Qed.
Print Assumptions C16_bsearch_probes_inside.
(* the executable model run by the drivers is this abstract search over the bytewise comparator *)
Theorem C16_bsearch_program_is_abstract : forall fuel key b0 size base nmemb m,
  let cmp := fun j => memcmp_val (Z.to_nat (Z.min size 4)) m key (b0 + size * j) in
  wp (bsearch_loop fuel key (b0 + size * base) nmemb size) m (fun r m' =>
     m' = m /\ r = match bsearch_abs fuel cmp base nmemb with Some j => b0 + size * j | None => 0 end).
Proof. exact bsearch_loop_abs. Qed.
Print Assumptions C16_bsearch_program_is_abstract.
Example C16_example : bsearch_abs 5 (fun j => 3 - j) 0 5 = Some 3 /\ sorted_wrt (fun j => 3 - j) 0 5.
Proof. split; [reflexivity|]. intros i j Hi Hij Hj. split; intros; lia. Qed.
