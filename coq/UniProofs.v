(* UniProofs.v -- C17: theorems about the normalisation model *)
From Coq Require Import List ZArith Bool Lia FMapPositive Permutation ZifyBool.
From SC Require Import UniNorm.
Import ListNotations.
Local Open Scope Z_scope.
Ltac Zify.zify_post_hook ::= Z.div_mod_to_equations.

(* ---------- Hangul: composition inverts decomposition, for every syllable, whatever the tables ---------- *)
Lemma hangul_roundtrip T s : is_S s = true ->
  match hangul_decomp s with
  | [l; v] => composite T l v = s
  | [l; v; t] => composite T (composite T l v) t = s
  | _ => False
  end.
Proof.
  unfold is_S, SBase, SCount, LCount, NCount, VCount, TCount. intros HS.
  unfold hangul_decomp, SBase, LBase, VBase, TBase, NCount, VCount, TCount.
  set (x := s - 44032) in *. assert (Hx : 0 <= x < 11172) by lia.
  set (l := x / (21 * 28)). set (v := x mod (21 * 28) / 28). set (t := x mod 28).
  assert (Hl : 0 <= l < 19) by (subst l; lia).
  assert (Hv : 0 <= v < 21) by (subst v; lia).
  assert (Ht : 0 <= t < 28) by (subst t; lia).
  assert (Hs : s = 44032 + (l * 21 + v) * 28 + t) by (subst l v t x; lia).
  assert (HLV : composite T (4352 + l) (4449 + v) = 44032 + (l * 21 + v) * 28).
  { unfold composite, is_L, is_V, LBase, VBase, LCount, VCount, SBase, TCount.
    replace ((4352 <=? 4352 + l) && (4352 + l <? 4352 + 19) && ((4449 <=? 4449 + v) && (4449 + v <? 4449 + 21))) with true by lia.
    lia. }
  destruct (4519 + t =? 4519) eqn:E.
  - rewrite HLV. lia.
  - rewrite HLV. unfold composite.
    cbv [is_L is_V is_LV is_S is_T LBase VBase LCount VCount SBase SCount NCount TCount TBase].
    match goal with |- (if ?c then _ else _) = _ => destruct c eqn:C1 end; [exfalso; lia|].
    match goal with |- (if ?c then _ else _) = _ => destruct c eqn:C2 end; [lia|exfalso; lia].
Qed.
Lemma hangul_decomp_range s : is_S s = true -> Forall (fun c => 0x1100 <= c < 0x1200) (hangul_decomp s).
Proof.
  unfold is_S, SBase, SCount, LCount, NCount, VCount, TCount. intros HS.
  unfold hangul_decomp, SBase, LBase, VBase, TBase, NCount, VCount, TCount.
  set (x := s - 44032) in *. assert (Hx : 0 <= x < 11172) by lia.
  destruct (_ =? _); repeat constructor; lia.
Qed.

(* ---------- canonical ordering ---------- *)
Section Order.
Variable T : tables.
Notation ccc := (ccc T). Notation ins := (ins T). Notation reorder := (reorder T).
Lemma ccc_nonneg c : 0 <= ccc c.
Proof. unfold UniNorm.ccc. destruct (c <? 0); [lia|]. destruct (PositiveMap.find _ _); lia. Qed.
(* adjacent pair in order: the second is a starter or does not have a smaller class *)
Definition okpair (a b : Z) : Prop := ccc b = 0 \/ ccc a <= ccc b.
Fixpoint ordered (l : list Z) : Prop :=
  match l with [] => True | a :: t => match t with [] => True | b :: _ => okpair a b end /\ ordered t end.
Lemma ins_ordered c l : ordered l -> ordered (ins c l).
Proof.
  induction l as [|d t IH]; intros H; [simpl; auto|].
  cbn [UniNorm.ins]. destruct ((0 <? ccc d) && (ccc d <? ccc c)) eqn:E.
  - destruct H as [H1 H2]. specialize (IH H2). split; [|exact IH].
    destruct t as [|b t']; cbn [UniNorm.ins].
    + unfold okpair. lia.
    + destruct ((0 <? ccc b) && (ccc b <? ccc c)) eqn:E2; unfold okpair in *; lia.
  - split; [|exact H]. unfold okpair. pose proof (ccc_nonneg d). lia.
Qed.
Lemma reorder_ordered s : ordered (reorder s).
Proof. induction s as [|c t IH]; [simpl; auto|]. apply ins_ordered, IH. Qed.
Lemma ins_fixed c l : ordered (c :: l) -> ins c l = c :: l.
Proof.
  destruct l as [|d t]; [reflexivity|]. intros [H _]. cbn [UniNorm.ins]. unfold okpair in H.
  destruct ((0 <? ccc d) && (ccc d <? ccc c)) eqn:E; [lia|reflexivity].
Qed.
Lemma reorder_fixed l : ordered l -> reorder l = l.
Proof.
  induction l as [|c t IH]; [reflexivity|]. intros H. unfold UniNorm.reorder in *. cbn [fold_right].
  rewrite IH by apply H. apply ins_fixed, H.
Qed.
Theorem reorder_idem s : reorder (reorder s) = reorder s.
Proof. apply reorder_fixed, reorder_ordered. Qed.
Lemma ins_perm c l : Permutation (c :: l) (ins c l).
Proof.
  induction l as [|d t IH]; [apply Permutation_refl|]. cbn [UniNorm.ins].
  destruct (_ && _); [|apply Permutation_refl].
  eapply perm_trans; [apply perm_swap|]. apply perm_skip, IH.
Qed.
Theorem reorder_perm s : Permutation s (reorder s).
Proof.
  induction s as [|c t IH]; [constructor|]. unfold UniNorm.reorder in *. cbn [fold_right].
  eapply perm_trans; [apply perm_skip, IH|]. apply ins_perm.
Qed.
(* starters keep their positions and nothing crosses one: the prefix up to the first starter is reordered on its own *)
Lemma ins_starter c l : ccc c = 0 -> ins c l = c :: l.
Proof. intros H. destruct l as [|d t]; [reflexivity|]. cbn [UniNorm.ins]. rewrite H. pose proof (ccc_nonneg d). destruct (_ && _) eqn:E; [lia|reflexivity]. Qed.
Lemma ins_stops c x l1 l2 : ccc x = 0 -> exists l1', ins c (l1 ++ x :: l2) = l1' ++ x :: l2 /\ Permutation (c :: l1) l1'.
Proof.
  intros Hx. induction l1 as [|d t IH]; cbn [app UniNorm.ins].
  - rewrite Hx. replace ((0 <? 0) && (0 <? ccc c)) with false by lia. exists [c]. split; [reflexivity|apply Permutation_refl].
  - destruct (_ && _).
    + destruct IH as [l1' [E P]]. exists (d :: l1'). rewrite E. split; [reflexivity|].
      eapply perm_trans; [apply perm_swap|]. apply perm_skip, P.
    + exists (c :: d :: t). split; [reflexivity|apply Permutation_refl].
Qed.
Theorem reorder_starter_fixed l1 x l2 : ccc x = 0 ->
  exists l1', reorder (l1 ++ x :: l2) = l1' ++ x :: reorder l2 /\ Permutation l1 l1'.
Proof.
  intros Hx. induction l1 as [|c t IH].
  - exists []. split; [|constructor]. unfold UniNorm.reorder. cbn [app fold_right]. apply ins_starter, Hx.
  - destruct IH as [l1' [E P]]. unfold UniNorm.reorder in *. cbn [app fold_right]. rewrite E.
    destruct (ins_stops c x l1' (fold_right ins [] l2) Hx) as [l1'' [E2 P2]]. exists l1''. split; [exact E2|].
    eapply perm_trans; [apply perm_skip, P|exact P2].
Qed.

(* ---------- NFD is idempotent when the decomposition graph is closed ---------- *)
Notation decomp := (decomp T).
Definition fixedb (c : Z) : bool := list_eqb (decomp c) [c].
Lemma list_eqb_eq a b : list_eqb a b = true -> a = b.
Proof. revert b; induction a as [|x a IH]; intros [|y b] H; simpl in H; try discriminate; [reflexivity|]. apply andb_true_iff in H. destruct H as [H1 H2]. f_equal; [lia|apply IH, H2]. Qed.
Lemma flat_fixed l : Forall (fun c => fixedb c = true) l -> flat_map decomp l = l.
Proof. induction 1 as [|c t H _ IH]; [reflexivity|]. cbn [flat_map]. rewrite (list_eqb_eq _ _ H), IH. reflexivity. Qed.
(* the closure condition, decided by computation on the actual tables *)
Definition closed (dl : list (Z * list Z)) : bool :=
  forallb (fun kv => forallb fixedb (snd kv)) dl && forallb fixedb (map (fun i => 0x1100 + Z.of_nat i) (seq 0 256)).
Hypothesis dl : list (Z * list Z).
Hypothesis Hdl : t_decomp T = mk_map dl.
Hypothesis Hclosed : closed dl = true.
Lemma find_mk_map {A} (l : list (Z * A)) k v : PositiveMap.find k (mk_map l) = Some v -> exists z, In (z, v) l /\ key z = k.
Proof.
  induction l as [|[z a] t IH]; cbn [mk_map fold_right fst snd]; intros H.
  - rewrite PositiveMap.gempty in H. discriminate.
  - destruct (Pos.eq_dec k (key z)) as [E|E].
    + subst k. rewrite PositiveMap.gss in H. inversion H; subst. exists z. split; [left; reflexivity|reflexivity].
    + rewrite PositiveMap.gso in H by exact E. destruct (IH H) as [z' [I K]]. exists z'. split; [right; exact I|exact K].
Qed.
Lemma decomp_fixed c : Forall (fun x => fixedb x = true) (decomp c).
Proof.
  unfold closed in Hclosed. apply andb_true_iff in Hclosed. destruct Hclosed as [H1 H2].
  rewrite forallb_forall in H1, H2.
  unfold UniNorm.decomp at 1. destruct (is_S c) eqn:ES.
  - pose proof (hangul_decomp_range c ES) as R. eapply Forall_impl; [|exact R]. intros a Ha. cbv beta in Ha. apply H2.
    apply in_map_iff. exists (Z.to_nat (a - 0x1100)). split; [lia|]. apply in_seq. lia.
  - destruct (c <? 0) eqn:EN.
    + constructor; [|constructor]. unfold fixedb, UniNorm.decomp. rewrite ES, EN. simpl. rewrite Z.eqb_refl. reflexivity.
    + destruct (PositiveMap.find (key c) (t_decomp T)) eqn:EF.
      * rewrite Hdl in EF. destruct (find_mk_map _ _ _ EF) as [z [I _]]. apply Forall_forall. intros x Hx.
        specialize (H1 _ I). cbn [snd] in H1. rewrite forallb_forall in H1. apply H1, Hx.
      * constructor; [|constructor]. unfold fixedb, UniNorm.decomp. rewrite ES, EN, EF. simpl. rewrite Z.eqb_refl. reflexivity.
Qed.
Lemma flat_all_fixed s : Forall (fun x => fixedb x = true) (flat_map decomp s).
Proof. induction s as [|c t IH]; [constructor|]. cbn [flat_map]. apply Forall_app. split; [apply decomp_fixed|exact IH]. Qed.
Theorem nfd_idem s : nfd T (nfd T s) = nfd T s.
Proof.
  unfold nfd. rewrite flat_fixed.
  - apply reorder_idem.
  - pose proof (flat_all_fixed s) as F. rewrite Forall_forall in *. intros x Hx. apply F.
    eapply Permutation_in; [apply Permutation_sym, reorder_perm|exact Hx].
Qed.
End Order.
