(* Properties_C10.v -- C10: read-only query functions answer as their standard counterparts do, and never modify
   their operands.  Models in ModQuery.v (tied to the C sources by the correspondence check on every run). *)
From Coq Require Import List ZArith Bool Lia.
From SC Require Import Base Wp Cfg Comb CombProofs ModQuery ProofsTs ProofsQuery.
Import ListNotations.
Local Open Scope Z_scope.

(* "they never modify their operands": after any call -- valid or not, whatever the arguments and the memory -- every
   byte outside the result cell is what it was *)
Definition unmodified {A} (p : prog A) (cell : Z -> Prop) : Prop := forall m x, ~ cell x -> snd (fst (exec p m)) x = m x.
Theorem C10_operands_never_modified : forall c dest dmax src slen ch r db sb,
  unmodified (strcmp_s c dest dmax src r db sb) (ext r 4) /\
  unmodified (strcasecmp_s c dest dmax src r db) (ext r 4) /\
  unmodified (memcmp_s c dest dmax src slen r db sb) (ext r 4) /\
  unmodified (strchr_s c dest dmax ch r db) (ext r 8) /\
  unmodified (strrchr_s c dest dmax ch r db) (ext r 8) /\
  unmodified (memchr_s c dest dmax ch r db) (ext r 8) /\
  unmodified (memrchr_s c dest dmax ch r db) (ext r 8) /\
  unmodified (strspn_s c dest dmax src slen r db sb) (ext r 8) /\
  unmodified (strcspn_s c dest dmax src slen r db sb) (ext r 8) /\
  (sb = BOS_UNKNOWN \/ slen <= sb -> unmodified (strpbrk_s c dest dmax src slen r db sb) (ext r 8)) /\
  unmodified (strprefix_s c dest dmax src db) nowhere /\
  unmodified (strfirstdiff_s c dest dmax src r db) (ext r 8) /\
  unmodified (strfirstsame_s c dest dmax src r db) (ext r 8) /\
  unmodified (wcsnlen_s c dest dmax db) nowhere.
Proof.
  intros. unfold unmodified.
  repeat match goal with |- _ /\ _ => split end.
  - intros m x Hx; exact (exec_frame _ _ m (strcmp_s_writes _ _ _ _ _ _ _) x Hx).
  - intros m x Hx; exact (exec_frame _ _ m (strcasecmp_s_writes _ _ _ _ _ _) x Hx).
  - intros m x Hx; exact (exec_frame _ _ m (memcmp_s_writes _ _ _ _ _ _ _ _) x Hx).
  - intros m x Hx; exact (exec_frame _ _ m (strchr_s_writes _ _ _ _ _ _) x Hx).
  - intros m x Hx; exact (exec_frame _ _ m (strrchr_s_writes _ _ _ _ _ _) x Hx).
  - intros m x Hx; exact (exec_frame _ _ m (memchr_s_writes _ _ _ _ _ _) x Hx).
  - intros m x Hx; exact (exec_frame _ _ m (memrchr_core_writes _ _ _ _ _ _) x Hx).
  - intros m x Hx; exact (exec_frame _ _ m (strspn_s_writes _ _ _ _ _ _ _ _) x Hx).
  - intros m x Hx; exact (exec_frame _ _ m (strcspn_s_writes _ _ _ _ _ _ _ _) x Hx).
  - intros Hsb m x Hx; exact (exec_frame _ _ m (strpbrk_s_writes _ _ _ _ _ _ _ _ Hsb) x Hx).
  - intros m x Hx; exact (exec_frame _ _ m (strprefix_s_writes _ _ _ _ _) x Hx).
  - intros m x Hx; exact (exec_frame _ _ m (strfirst_s_writes false _ _ _ _ _ _) x Hx).
  - intros m x Hx; exact (exec_frame _ _ m (strfirst_s_writes true _ _ _ _ _ _) x Hx).
  - intros m x Hx; exact (exec_frame _ _ m (wcsnlen_s_writes _ _ _ _) x Hx).
Qed.
Print Assumptions C10_operands_never_modified.
(* strpbrk_s with a known, too small object size of src reports through handle_str_bos_overflow(dest, destbos): dest IS cleared there *)
Theorem C10_strpbrk_s_clears_dest_refuted : exists c dest dmax src slen r db sb m x,
  ~ ext r 8 x /\ snd (fst (exec (strpbrk_s c dest dmax src slen r db sb) m)) x <> m x.
Proof.
  exists cfg_default, 1000, 4, 2000, 8, 3000, 4, 2, (fun a => if (1000 <=? a) && (a <? 1004) then 97 else 0), 1000.
  split; [unfold ext; lia|]. vm_compute. discriminate.
Qed.
(* memcmp_s on valid operands: EOK and the sign of the first differing byte pair compared as unsigned chars, i.e. memcmp over slen bytes *)
Theorem C10_memcmp_s_is_memcmp : forall c dest dmax src slen diff m, wf_mem m ->
  diff <> 0 -> dest <> 0 -> src <> 0 -> 0 < slen <= dmax -> dmax <= rmax_mem c ->
  (forall i, 0 <= i < slen -> ~ ext diff 4 (dest + i) /\ ~ ext diff 4 (src + i)) ->
  wp (memcmp_s c dest dmax src slen diff BOS_UNKNOWN BOS_UNKNOWN) m (fun r m' =>
     r = EOK /\ load m' 4 diff = i32 (first_diff_sign (Z.to_nat slen) m dest src)).
Proof. exact memcmp_s_spec. Qed.
Print Assumptions C10_memcmp_s_is_memcmp.
(* memchr_s on valid operands: the position memchr finds among the first dmax bytes, or ESNOTFND and NULL *)
Theorem C10_memchr_s_is_memchr : forall c dest dmax ch resultp m, wf_mem m ->
  resultp <> 0 -> dest <> 0 -> 0 < dmax <= rmax_mem c -> 0 <= ch <= 255 ->
  (forall i, 0 <= i < dmax -> ~ ext resultp 8 (dest + i)) -> 0 < dest -> dest + dmax <= 18446744073709551616 ->
  wp (memchr_s c dest dmax ch resultp BOS_UNKNOWN) m (fun r m' =>
     let f := first_byte (Z.to_nat dmax) m dest ch in
     load m' 8 resultp = f /\ r = (if f =? 0 then ESNOTFND else EOK)).
Proof. exact memchr_s_spec. Qed.
Print Assumptions C10_memchr_s_is_memchr.
(* non-vacuity: a concrete valid call *)
Example C10_memcmp_example :
  let m := fun a => if a =? 1000 then 97 else if a =? 1001 then 200 else if a =? 2000 then 97 else if a =? 2001 then 98 else 0 in
  let '(r, m', _) := exec (memcmp_s cfg_default 1000 2 2000 2 3000 BOS_UNKNOWN BOS_UNKNOWN) m in
  r = EOK /\ load m' 4 3000 = 1.
Proof. vm_compute. split; reflexivity. Qed.
