(* Properties_C10.v -- placeholder until the theorems are in *)
From SC Require Import ModQuery.
