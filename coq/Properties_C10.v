(* Properties_C10.v -- C10: read-only query functions answer as their standard counterparts do, and never modify
   their operands.  Models in ModQuery.v (tied to the C sources by the correspondence check on every run). *)
From Coq Require Import List ZArith Bool Lia.
From SC Require Import Base Wp Cfg Comb CombProofs ModQuery ProofsTs ProofsQuery ProofsQuery2.
Import ListNotations.
Local Open Scope Z_scope.

(* "they never modify their operands": after any call -- valid or not, whatever the arguments and the memory -- every
   byte outside the result cell is what it was *)
Definition unmodified {A} (p : prog A) (cell : Z -> Prop) : Prop := forall m x, ~ cell x -> snd (fst (exec p m)) x = m x.
Theorem C10_operands_never_modified : forall c dest dmax src slen ch r db sb,
  unmodified (strcmp_s c dest dmax src r db sb) (ext r 4) /\
  unmodified (strcasecmp_s c dest dmax src r db) (ext r 4) /\
  unmodified (memcmp_s c dest dmax src slen r db sb) (ext r 4) /\
  unmodified (strchr_s c dest dmax ch r db) (ext r 8) /\
  unmodified (strrchr_s c dest dmax ch r db) (ext r 8) /\
  unmodified (memchr_s c dest dmax ch r db) (ext r 8) /\
  unmodified (memrchr_s c dest dmax ch r db) (ext r 8) /\
  unmodified (strspn_s c dest dmax src slen r db sb) (ext r 8) /\
  unmodified (strcspn_s c dest dmax src slen r db sb) (ext r 8) /\
  (sb = BOS_UNKNOWN \/ slen <= sb -> unmodified (strpbrk_s c dest dmax src slen r db sb) (ext r 8)) /\
  unmodified (strprefix_s c dest dmax src db) nowhere /\
  unmodified (strfirstdiff_s c dest dmax src r db) (ext r 8) /\
  unmodified (strfirstsame_s c dest dmax src r db) (ext r 8) /\
  unmodified (wcsnlen_s c dest dmax db) nowhere.
Proof.
  intros. unfold unmodified.
  repeat match goal with |- _ /\ _ => split end.
  - intros m x Hx; exact (exec_frame _ _ m (strcmp_s_writes _ _ _ _ _ _ _) x Hx).
  - intros m x Hx; exact (exec_frame _ _ m (strcasecmp_s_writes _ _ _ _ _ _) x Hx).
  - intros m x Hx; exact (exec_frame _ _ m (memcmp_s_writes _ _ _ _ _ _ _ _) x Hx).
  - intros m x Hx; exact (exec_frame _ _ m (strchr_s_writes _ _ _ _ _ _) x Hx).
  - intros m x Hx; exact (exec_frame _ _ m (strrchr_s_writes _ _ _ _ _ _) x Hx).
  - intros m x Hx; exact (exec_frame _ _ m (memchr_s_writes _ _ _ _ _ _) x Hx).
  - intros m x Hx; exact (exec_frame _ _ m (memrchr_core_writes _ _ _ _ _ _) x Hx).
  - intros m x Hx; exact (exec_frame _ _ m (strspn_s_writes _ _ _ _ _ _ _ _) x Hx).
  - intros m x Hx; exact (exec_frame _ _ m (strcspn_s_writes _ _ _ _ _ _ _ _) x Hx).
  - intros Hsb m x Hx; exact (exec_frame _ _ m (strpbrk_s_writes _ _ _ _ _ _ _ _ Hsb) x Hx).
  - intros m x Hx; exact (exec_frame _ _ m (strprefix_s_writes _ _ _ _ _) x Hx).
  - intros m x Hx; exact (exec_frame _ _ m (strfirst_s_writes false _ _ _ _ _ _) x Hx).
  - intros m x Hx; exact (exec_frame _ _ m (strfirst_s_writes true _ _ _ _ _ _) x Hx).
  - intros m x Hx; exact (exec_frame _ _ m (wcsnlen_s_writes _ _ _ _) x Hx).
Qed.
Print Assumptions C10_operands_never_modified.
(* strpbrk_s with a known, too small object size of src reports through handle_str_bos_overflow(dest, destbos): dest IS cleared there *)
Theorem C10_strpbrk_s_clears_dest_refuted : exists c dest dmax src slen r db sb m x,
  ~ ext r 8 x /\ snd (fst (exec (strpbrk_s c dest dmax src slen r db sb) m)) x <> m x.
Proof.
  exists cfg_default, 1000, 4, 2000, 8, 3000, 4, 2, (fun a => if (1000 <=? a) && (a <? 1004) then 97 else 0), 1000.
  split; [unfold ext; lia|]. vm_compute. discriminate.
Qed.
(* memcmp_s on valid operands: EOK and the sign of the first differing byte pair compared as unsigned chars, i.e. memcmp over slen bytes *)
Theorem C10_memcmp_s_is_memcmp : forall c dest dmax src slen diff m, wf_mem m ->
  diff <> 0 -> dest <> 0 -> src <> 0 -> 0 < slen <= dmax -> dmax <= rmax_mem c ->
  (forall i, 0 <= i < slen -> ~ ext diff 4 (dest + i) /\ ~ ext diff 4 (src + i)) ->
  wp (memcmp_s c dest dmax src slen diff BOS_UNKNOWN BOS_UNKNOWN) m (fun r m' =>
     r = EOK /\ load m' 4 diff = i32 (first_diff_sign (Z.to_nat slen) m dest src)).
Proof. exact memcmp_s_spec. Qed.
Print Assumptions C10_memcmp_s_is_memcmp.
(* memchr_s on valid operands: the position memchr finds among the first dmax bytes, or ESNOTFND and NULL *)
Theorem C10_memchr_s_is_memchr : forall c dest dmax ch resultp m, wf_mem m ->
  resultp <> 0 -> dest <> 0 -> 0 < dmax <= rmax_mem c -> 0 <= ch <= 255 ->
  (forall i, 0 <= i < dmax -> ~ ext resultp 8 (dest + i)) -> 0 < dest -> dest + dmax <= 18446744073709551616 ->
  wp (memchr_s c dest dmax ch resultp BOS_UNKNOWN) m (fun r m' =>
     let f := first_byte (Z.to_nat dmax) m dest ch in
     load m' 8 resultp = f /\ r = (if f =? 0 then ESNOTFND else EOK)).
Proof. exact memchr_s_spec. Qed.
Print Assumptions C10_memchr_s_is_memchr.
(* non-vacuity: a concrete valid call *)
Example C10_memcmp_example :
  let m := fun a => if a =? 1000 then 97 else if a =? 1001 then 200 else if a =? 2000 then 97 else if a =? 2001 then 98 else 0 in
  let '(r, m', _) := exec (memcmp_s cfg_default 1000 2 2000 2 3000 BOS_UNKNOWN BOS_UNKNOWN) m in
  r = EOK /\ load m' 4 3000 = 1.
Proof. vm_compute. split; reflexivity. Qed.

(* ---- round 4: strprefix_s, strfirstdiff_s, strfirstsame_s, for every memory and every dmax ---- *)
(* strprefix_s: EOK iff src is not empty and every src character before its terminator, among the first dmax, equals the
   dest character at that index (is_prefix, characterised by is_prefix_spec); the operands are not modified *)
Theorem C10_strprefix_s : forall c dest dmax src m, dest <> 0 -> src <> 0 -> 0 < dmax <= rmax_str c ->
  wp (strprefix_s c dest dmax src BOS_UNKNOWN) m (fun r m' =>
     m' = m /\ r = (if m src =? 0 then ESNOTFND else if is_prefix (Z.to_nat dmax) m dest src then EOK else ESNOTFND)).
Proof. exact strprefix_s_spec. Qed.
Print Assumptions C10_strprefix_s.
Theorem C10_is_prefix_meaning : forall n m d s,
  is_prefix n m d s = true <->
  (forall j, 0 <= j < Z.of_nat n -> (forall i, 0 <= i <= j -> m (s + i) <> 0) -> m (d + j) = m (s + j)).
Proof. exact is_prefix_spec. Qed.
Print Assumptions C10_is_prefix_meaning.
(* strfirstdiff_s (same = false) / strfirstsame_s (same = true): EOK and *resultp = the first index below dmax, before either
   terminator, where the characters differ / agree (first_idx, characterised below); otherwise ESNODIFF / ESNOTFND and 0 *)
Theorem C10_strfirst_s : forall same c dest dmax src resultp m,
  resultp <> 0 -> dest <> 0 -> src <> 0 -> 0 < dmax <= rmax_str c -> dmax < 18446744073709551616 ->
  (forall j, 0 <= j <= dmax -> ~ ext resultp 8 (dest + j) /\ ~ ext resultp 8 (src + j)) ->
  wp (strfirst_s same c dest dmax src resultp BOS_UNKNOWN) m (fun r m' =>
     match first_idx same (Z.to_nat dmax) m dest src 0 with
     | Some k => r = EOK /\ load m' 8 resultp = k /\ 0 <= k < dmax
     | None => r = nf same /\ load m' 8 resultp = 0
     end /\ forall x, ~ ext resultp 8 x -> m' x = m x).
Proof. exact strfirst_s_spec. Qed.
Print Assumptions C10_strfirst_s.
Theorem C10_first_idx_found : forall same n m d s i k, first_idx same n m d s i = Some k ->
  i <= k < i + Z.of_nat n /\ m (d + (k - i)) <> 0 /\ m (s + (k - i)) <> 0 /\
  Bool.eqb (m (d + (k - i)) =? m (s + (k - i))) same = true /\
  forall j, 0 <= j < k - i -> m (d + j) <> 0 /\ m (s + j) <> 0 /\ Bool.eqb (m (d + j) =? m (s + j)) same = false.
Proof. exact first_idx_some. Qed.
Print Assumptions C10_first_idx_found.
Theorem C10_first_idx_not_found : forall same n m d s i, first_idx same n m d s i = None ->
  exists t, 0 <= t <= Z.of_nat n /\ (t = Z.of_nat n \/ m (d + t) = 0 \/ m (s + t) = 0) /\
  forall j, 0 <= j < t -> m (d + j) <> 0 /\ m (s + j) <> 0 /\ Bool.eqb (m (d + j) =? m (s + j)) same = false.
Proof. exact first_idx_none. Qed.
Print Assumptions C10_first_idx_not_found.
Example C10_strfirstdiff_example :
  let m := fun a => if a =? 1000 then 97 else if a =? 1001 then 98 else if a =? 1002 then 99 else
                    if a =? 2000 then 97 else if a =? 2001 then 98 else if a =? 2002 then 120 else 0 in
  first_idx false 8 m 1000 2000 0 = Some 2 /\ is_prefix 2 m 1000 2000 = true /\ is_prefix 8 m 1000 2000 = false.
Proof. vm_compute. repeat split; reflexivity. Qed.

