(* Properties_C06.v -- C06: success means the exact, complete result
   Only theorem statements, each closed by [exact <lemma>], with Print Assumptions beneath. *)
From Coq Require Import List ZArith Lia Bool.
From SC Require Import Base Wp Cfg Comb CombProofs CopySpec ModStr ModMem ModExt ProofsStr ProofsMem SpecStr SpecMem SpecExt SpecExt2 ModExt2 SpecExt3 PropStr FnProps PropDefs SpecExt4.
From SC.Gen Require Import Consts.
Import ListNotations.
Local Open Scope Z_scope.

(* link from the wp statements below to executions: for every allocation-failure oracle,
   the result and final memory of [run] satisfy the postcondition *)
Theorem C06_wp_sound : forall (A : Type) (fail : nat -> bool) (p : prog A) st Q,
  wp p (wm st) Q -> let '(a, st') := run fail p st in Q a (wm st').
Proof. exact (@wp_run). Qed.
Print Assumptions C06_wp_sound.

(* ---- copy / concatenate family (generated from the table in harness/gen_fnprops.py) ---- *)
Theorem C06_strcpy_s : forall (c : cfg) (d dmax s destbos : Z) (m : mem) (L : Z), pre_strcpy_s c d dmax s destbos m L ->
  wp (strcpy_s c d dmax s destbos) m (fun r m' => (r = EOK -> exact_result 1 m m' d dmax s 0 L) /\ (dmax <= L -> r <> EOK)).
Proof. exact strcpy_s_C06. Qed.
Print Assumptions C06_strcpy_s.
Theorem C06_wcscpy_s : forall (c : cfg) (d dmax s destbos : Z) (m : mem) (L g : Z), pre_wcscpy_s c d dmax s destbos m L g ->
  wp (wcscpy_s c d dmax s destbos) m (fun r m' => (r = EOK -> exact_result (wchar_w c) m m' d dmax s 0 L) /\ (dmax <= L -> r <> EOK)).
Proof. exact wcscpy_s_C06. Qed.
Print Assumptions C06_wcscpy_s.
Theorem C06_strncpy_s : forall (c : cfg) (d dmax s slen destbos srcbos : Z) (m : mem) (t : Z), pre_strncpy_s c d dmax s slen destbos srcbos m t ->
  wp (strncpy_s c d dmax s slen destbos srcbos) m (fun r m' => (r = EOK -> exact_result 1 m m' d dmax s 0 t) /\ (dmax <= t -> r <> EOK)).
Proof. exact strncpy_s_C06. Qed.
Print Assumptions C06_strncpy_s.
Theorem C06_strcat_s : forall (c : cfg) (d dmax s destbos : Z) (m : mem) (P L : Z), pre_strcat_s c d dmax s destbos m P L ->
  wp (strcat_s c d dmax s destbos) m (fun r m' => (r = EOK -> exact_result 1 m m' d dmax s P L) /\ (dmax - P <= L -> r <> EOK)).
Proof. exact strcat_s_C06. Qed.
Print Assumptions C06_strcat_s.
Theorem C06_strncat_s : forall (c : cfg) (d dmax s slen destbos srcbos : Z) (m : mem) (P t : Z), pre_strncat_s c d dmax s slen destbos srcbos m P t ->
  wp (strncat_s c d dmax s slen destbos srcbos) m (fun r m' => (r = EOK -> exact_result 1 m m' d dmax s P t) /\ (dmax - P <= t -> r <> EOK)).
Proof. exact strncat_s_C06. Qed.
Print Assumptions C06_strncat_s.

(* memory family: success = exactly the source bytes moved, nothing else changed (moved) *)
Theorem C06_memcpy_s : forall c d dmax s slen destbos srcbos m, d <> 0 -> s <> 0 -> 1 <= dmax -> 1 <= slen -> ((destbos = BOS_UNKNOWN /\ dmax <= rmax_mem c) \/ (destbos <> BOS_UNKNOWN /\ dmax <= destbos)) -> (srcbos = BOS_UNKNOWN \/ slen * 1 <= srcbos) -> wp (memcpy_s c d dmax s slen destbos srcbos) m (mem_copy_post c 1 true d (eff_dmax false dmax destbos) s slen m).
Proof. intros. exact (mem_copy_gen_spec c 1 (rmax_mem c) false true EOVERFLOW false d dmax s slen destbos srcbos m ltac:(lia) H H0 H1 H2 H3 H4). Qed.
Print Assumptions C06_memcpy_s.
Theorem C06_memmove_s : forall c d dmax s slen destbos srcbos m, d <> 0 -> s <> 0 -> 1 <= dmax -> 1 <= slen -> ((destbos = BOS_UNKNOWN /\ dmax <= rmax_mem c) \/ (destbos <> BOS_UNKNOWN /\ dmax <= destbos)) -> (srcbos = BOS_UNKNOWN \/ slen * 1 <= srcbos) -> wp (memmove_s c d dmax s slen destbos srcbos) m (mem_copy_post c 1 false d (eff_dmax false dmax destbos) s slen m).
Proof. intros. exact (mem_copy_gen_spec c 1 (rmax_mem c) false false EOVERFLOW false d dmax s slen destbos srcbos m ltac:(lia) H H0 H1 H2 H3 H4). Qed.
Print Assumptions C06_memmove_s.
Theorem C06_memcpy16_s : forall c d dmax s slen destbos srcbos m, d <> 0 -> s <> 0 -> 1 <= dmax -> 1 <= slen -> ((destbos = BOS_UNKNOWN /\ dmax <= rmax_mem c) \/ (destbos <> BOS_UNKNOWN /\ dmax <= destbos)) -> (srcbos = BOS_UNKNOWN \/ slen * 2 <= srcbos) -> wp (memcpy16_s c d dmax s slen destbos srcbos) m (mem_copy_post c 2 true d (eff_dmax true dmax destbos) s slen m).
Proof. intros. exact (mem_copy_gen_spec c 2 (rmax_mem c) true true ESLEMAX false d dmax s slen destbos srcbos m ltac:(lia) H H0 H1 H2 H3 H4). Qed.
Print Assumptions C06_memcpy16_s.
Theorem C06_memmove16_s : forall c d dmax s slen destbos srcbos m, d <> 0 -> s <> 0 -> 1 <= dmax -> 1 <= slen -> ((destbos = BOS_UNKNOWN /\ dmax <= rmax_mem c) \/ (destbos <> BOS_UNKNOWN /\ dmax <= destbos)) -> (srcbos = BOS_UNKNOWN \/ slen * 2 <= srcbos) -> wp (memmove16_s c d dmax s slen destbos srcbos) m (mem_copy_post c 2 false d (eff_dmax true dmax destbos) s slen m).
Proof. intros. exact (mem_copy_gen_spec c 2 (rmax_mem c) true false EOVERFLOW false d dmax s slen destbos srcbos m ltac:(lia) H H0 H1 H2 H3 H4). Qed.
Print Assumptions C06_memmove16_s.
Theorem C06_memcpy32_s : forall c d dmax s slen destbos srcbos m, d <> 0 -> s <> 0 -> 1 <= dmax -> 1 <= slen -> ((destbos = BOS_UNKNOWN /\ dmax <= rmax_mem c) \/ (destbos <> BOS_UNKNOWN /\ dmax <= destbos)) -> (srcbos = BOS_UNKNOWN \/ slen * 4 <= srcbos) -> wp (memcpy32_s c d dmax s slen destbos srcbos) m (mem_copy_post c 4 true d (eff_dmax true dmax destbos) s slen m).
Proof. intros. exact (mem_copy_gen_spec c 4 (rmax_mem c) true true ESLEMAX false d dmax s slen destbos srcbos m ltac:(lia) H H0 H1 H2 H3 H4). Qed.
Print Assumptions C06_memcpy32_s.
Theorem C06_memmove32_s : forall c d dmax s slen destbos srcbos m, d <> 0 -> s <> 0 -> 1 <= dmax -> 1 <= slen -> ((destbos = BOS_UNKNOWN /\ dmax <= rmax_mem c) \/ (destbos <> BOS_UNKNOWN /\ dmax <= destbos)) -> (srcbos = BOS_UNKNOWN \/ slen * 4 <= srcbos) -> wp (memmove32_s c d dmax s slen destbos srcbos) m (mem_copy_post c 4 false d (eff_dmax true dmax destbos) s slen m).
Proof. intros. exact (mem_copy_gen_spec c 4 (rmax_mem c) true false EOVERFLOW false d dmax s slen destbos srcbos m ltac:(lia) H H0 H1 H2 H3 H4). Qed.
Print Assumptions C06_memmove32_s.
Theorem C06_memset_s : forall c d dmax v n m, d <> 0 -> 1 <= n <= dmax -> dmax <= rmax_mem c -> 0 <= v <= 255 -> wp (memset_s c d dmax v n BOS_UNKNOWN) m (fun r m' => r = EOK /\ forall a, m' a = if in_range d n a then v else m a).
Proof. exact memset_s_spec. Qed.
Print Assumptions C06_memset_s.
Theorem C06_memzero_s : forall c d len destbos m, d <> 0 -> 1 <= len * 1 -> ((destbos = BOS_UNKNOWN /\ len * 1 <= rmax_mem c) \/ (destbos <> BOS_UNKNOWN /\ len * 1 <= destbos)) -> wp (memzero_s c d len destbos) m (fun r m' => r = EOK /\ forall a, m' a = if in_range d (len * 1) a then 0 else m a).
Proof. intros c d len destbos m. exact (memzerow_s_spec c 1 d len destbos m). Qed.
Print Assumptions C06_memzero_s.
Theorem C06_memzero16_s : forall c d len destbos m, d <> 0 -> 1 <= len * 2 -> ((destbos = BOS_UNKNOWN /\ len * 2 <= rmax_mem c) \/ (destbos <> BOS_UNKNOWN /\ len * 2 <= destbos)) -> wp (memzero16_s c d len destbos) m (fun r m' => r = EOK /\ forall a, m' a = if in_range d (len * 2) a then 0 else m a).
Proof. intros c d len destbos m. exact (memzerow_s_spec c 2 d len destbos m). Qed.
Print Assumptions C06_memzero16_s.
Theorem C06_memzero32_s : forall c d len destbos m, d <> 0 -> 1 <= len * 4 -> ((destbos = BOS_UNKNOWN /\ len * 4 <= rmax_mem c) \/ (destbos <> BOS_UNKNOWN /\ len * 4 <= destbos)) -> wp (memzero32_s c d len destbos) m (fun r m' => r = EOK /\ forall a, m' a = if in_range d (len * 4) a then 0 else m a).
Proof. intros c d len destbos m. exact (memzerow_s_spec c 4 d len destbos m). Qed.
Print Assumptions C06_memzero32_s.
(* round 3: pointer-returning copy and in-place case conversion *)
Theorem C06_stpcpy_s : forall c d dmax s errp m L, wf_mem m -> d <> 0 -> s <> 0 -> errp <> 0 -> 1 <= dmax <= rmax_str c -> 0 <= L < dmax -> (forall i, 0 <= i < L -> m (s + i) <> 0) -> m (s + L) = 0 -> (s + L < d \/ d + dmax <= s) -> (errp + 4 <= d \/ d + dmax <= errp) -> wp (stpcpy_s c d dmax s errp BOS_UNKNOWN BOS_UNKNOWN) m (fun r m' => r = d + L /\ load m' 4 errp = 0 /\ (forall i, 0 <= i <= L -> m' (d + i) = m (s + i)) /\ (null_slack c = true -> forall a, d + L < a < d + dmax -> m' a = 0) /\ (forall a, ~ (d <= a < d + dmax) -> ~ (errp <= a < errp + 4) -> m' a = m a)).
Proof. exact stpcpy_s_spec. Qed.
Print Assumptions C06_stpcpy_s.
Theorem C06_strtolowercase_s : forall c d dmax m, d <> 0 -> 1 <= dmax <= rmax_str c -> wp (strtolowercase_s c d dmax BOS_UNKNOWN) m (fun r m' => r = EOK /\ exists t, 0 <= t <= dmax /\ (forall i, 0 <= i < t -> m (d + i) <> 0) /\ (t < dmax -> m (d + t) = 0) /\ forall a, m' a = if (d <=? a) && (a <? d + t) then conv 65 90 32 (m a) else m a).
Proof. exact strtolowercase_s_spec. Qed.
Print Assumptions C06_strtolowercase_s.
Theorem C06_strtouppercase_s : forall c d dmax m, d <> 0 -> 1 <= dmax <= rmax_str c -> wp (strtouppercase_s c d dmax BOS_UNKNOWN) m (fun r m' => r = EOK /\ exists t, 0 <= t <= dmax /\ (forall i, 0 <= i < t -> m (d + i) <> 0) /\ (t < dmax -> m (d + t) = 0) /\ forall a, m' a = if (d <=? a) && (a <? d + t) then conv 97 122 (-32) (m a) else m a).
Proof. exact strtouppercase_s_spec. Qed.
Print Assumptions C06_strtouppercase_s.
Theorem C06_strset_s : forall c d dmax value m, d <> 0 -> 1 <= dmax <= rmax_str c -> 0 <= value <= 255 ->
  wp (strset_s c d dmax value BOS_UNKNOWN) m (set_post c d dmax dmax value m).
Proof. exact strset_s_spec. Qed.
Print Assumptions C06_strset_s.

(* wcsset_s (wide): the first t elements (t = length of the string inside the window) hold the fill value, with null-slack the
   rest of dest up to dmax elements is zero, every byte outside that is unchanged *)
Theorem C06_wcsset_s : forall c d dmax value m, wf_cfg c -> d <> 0 -> 1 <= dmax <= rmax_wstr c -> wc_signed value <= UNICODE_MAX ->
  wp (wcsset_s c d dmax value BOS_UNKNOWN) m (wset_post c (wchar_w c) d dmax (value mod 4294967296) m).
Proof. exact wcsset_s_spec. Qed.
Print Assumptions C06_wcsset_s.

Theorem C06_wcsnset_s : forall c d dmax value n m, wf_cfg c -> d <> 0 -> 1 <= dmax <= rmax_wstr c -> wc_signed value <= UNICODE_MAX -> 0 <= n <= dmax ->
  wp (wcsnset_s c d dmax value n BOS_UNKNOWN) m (wnset_post c (wchar_w c) d dmax n (value mod 4294967296) m).
Proof. exact wcsnset_s_spec. Qed.
Print Assumptions C06_wcsnset_s.
Theorem C06_strnset_s : forall c d dmax value n m, d <> 0 -> 1 <= dmax <= rmax_str c -> 0 <= value <= 255 -> 0 <= n <= dmax ->
  wp (strnset_s c d dmax value n BOS_UNKNOWN) m (set_post c d dmax n value m).
Proof. exact strnset_s_spec. Qed.
Print Assumptions C06_strnset_s.

(* strljustify_s / strremovews_s on a terminated string of L >= 1 characters with K leading (and T trailing) blanks: the exact
   result, and nothing outside dest[0 .. L) changes (the scans bounded only by the data never run out of fuel) *)
Theorem C06_strljustify_s : forall c d dmax m L K, wf_mem m -> d <> 0 -> 2 <= dmax <= rmax_str c ->
  (1 <= L)%nat -> Z.of_nat L <= dmax -> cstr m d L -> blanks m d K ->
  wp (strljustify_s c d dmax BOS_UNKNOWN) m (fun r m' =>
     r = EOK /\ (K = O -> m' = m) /\ ((1 <= K)%nat -> ljust_post m d L K m') /\
     (forall x, ~ (d <= x < d + Z.of_nat L) -> m' x = m x)).
Proof. exact strljustify_s_spec. Qed.
Print Assumptions C06_strljustify_s.
Theorem C06_strremovews_s : forall c d dmax m L K T, wf_mem m -> d <> 0 -> 2 <= dmax <= rmax_str c ->
  (1 <= L)%nat -> Z.of_nat L <= dmax -> cstr m d L -> blanks m d K ->
  ((K = L /\ T = O) \/ ((K + T < L)%nat /\ (forall j, 0 <= j < Z.of_nat T -> is_ws (m (d + Z.of_nat L - 1 - j)) = true) /\
                        is_ws (m (d + Z.of_nat L - 1 - Z.of_nat T)) = false)) ->
  wp (strremovews_s c d dmax BOS_UNKNOWN) m (fun r m' => r = EOK /\ removews_post m d L K T m').
Proof. exact strremovews_s_spec. Qed.
Print Assumptions C06_strremovews_s.
(* in particular the bytes in front of dest are never touched, even for a string of blanks only (the repaired defect) *)
Theorem C06_strremovews_s_frame : forall m d L K T m', removews_post m d L K T m' -> forall x, ~ (d <= x < d + Z.of_nat L) -> m' x = m x.
Proof. exact removews_post_frame. Qed.
Print Assumptions C06_strremovews_s_frame.
Example C06_strremovews_example :
  let m := fun a => if a =? 1000 then 32 else if a =? 1001 then 97 else if a =? 1002 then 32 else if a =? 1003 then 98 else if a =? 1004 then 9 else if a =? 999 then 32 else 0 in
  let '(r, m', _) := exec (strremovews_s cfg_default 1000 8 BOS_UNKNOWN) m in
  r = EOK /\ map m' [999; 1000; 1001; 1002; 1003; 1004; 1005] = [32; 97; 32; 98; 0; 0; 0].
Proof. vm_compute. split; reflexivity. Qed.
Theorem C06_cfg_repo_wf : wf_cfg cfg_repo.
Proof. exact wf_cfg_repo. Qed.
Print Assumptions C06_cfg_repo_wf.
