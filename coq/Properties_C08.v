(* Properties_C08.v -- C08: nothing stale behind the terminator
   Only theorem statements, each closed by [exact <lemma>], with Print Assumptions beneath. *)
From Coq Require Import List ZArith Lia Bool.
From SC Require Import Base Wp Cfg Comb CombProofs CopySpec ModStr ModMem ModExt ProofsStr ProofsMem SpecStr SpecMem SpecExt SpecExt2 PropStr FnProps PropDefs ModExt2 SpecExt4.
From SC.Gen Require Import Consts.
Import ListNotations.
Local Open Scope Z_scope.

(* link from the wp statements below to executions: for every allocation-failure oracle,
   the result and final memory of [run] satisfy the postcondition *)
Theorem C08_wp_sound : forall (A : Type) (fail : nat -> bool) (p : prog A) st Q,
  wp p (wm st) Q -> let '(a, st') := run fail p st in Q a (wm st').
Proof. exact (@wp_run). Qed.
Print Assumptions C08_wp_sound.

(* ---- copy / concatenate family (generated from the table in harness/gen_fnprops.py) ---- *)
Theorem C08_strcpy_s : forall (c : cfg) (d dmax s destbos : Z) (m : mem) (L : Z), pre_strcpy_s c d dmax s destbos m L ->
  wp (strcpy_s c d dmax s destbos) m (fun r m' => r = EOK -> slack_clean c 1 m m' d dmax L).
Proof. exact strcpy_s_C08. Qed.
Print Assumptions C08_strcpy_s.
Theorem C08_wcscpy_s : forall (c : cfg) (d dmax s destbos : Z) (m : mem) (L g : Z), pre_wcscpy_s c d dmax s destbos m L g ->
  wp (wcscpy_s c d dmax s destbos) m (fun r m' => r = EOK -> slack_clean c (wchar_w c) m m' d dmax L).
Proof. exact wcscpy_s_C08. Qed.
Print Assumptions C08_wcscpy_s.
Theorem C08_strncpy_s : forall (c : cfg) (d dmax s slen destbos srcbos : Z) (m : mem) (t : Z), pre_strncpy_s c d dmax s slen destbos srcbos m t ->
  wp (strncpy_s c d dmax s slen destbos srcbos) m (fun r m' => r = EOK -> slack_clean c 1 m m' d dmax t).
Proof. exact strncpy_s_C08. Qed.
Print Assumptions C08_strncpy_s.
Theorem C08_strcat_s : forall (c : cfg) (d dmax s destbos : Z) (m : mem) (P L : Z), pre_strcat_s c d dmax s destbos m P L ->
  wp (strcat_s c d dmax s destbos) m (fun r m' => r = EOK -> slack_clean c 1 m m' d dmax (P + L)).
Proof. exact strcat_s_C08. Qed.
Print Assumptions C08_strcat_s.
Theorem C08_strncat_s : forall (c : cfg) (d dmax s slen destbos srcbos : Z) (m : mem) (P t : Z), pre_strncat_s c d dmax s slen destbos srcbos m P t ->
  wp (strncat_s c d dmax s slen destbos srcbos) m (fun r m' => r = EOK -> slack_clean c 1 m m' d dmax (P + t)).
Proof. exact strncat_s_C08. Qed.
Print Assumptions C08_strncat_s.

Theorem C08_strset_s : forall c d dmax value m, d <> 0 -> 1 <= dmax <= rmax_str c -> 0 <= value <= 255 ->
  wp (strset_s c d dmax value BOS_UNKNOWN) m (set_post c d dmax dmax value m).
Proof. exact strset_s_spec. Qed.
Print Assumptions C08_strset_s.

(* wcsset_s (wide): the first t elements (t = length of the string inside the window) hold the fill value, with null-slack the
   rest of dest up to dmax elements is zero, every byte outside that is unchanged *)
Theorem C08_wcsset_s : forall c d dmax value m, wf_cfg c -> d <> 0 -> 1 <= dmax <= rmax_wstr c -> wc_signed value <= UNICODE_MAX ->
  wp (wcsset_s c d dmax value BOS_UNKNOWN) m (wset_post c (wchar_w c) d dmax (value mod 4294967296) m).
Proof. exact wcsset_s_spec. Qed.
Print Assumptions C08_wcsset_s.

Theorem C08_wcsnset_s : forall c d dmax value n m, wf_cfg c -> d <> 0 -> 1 <= dmax <= rmax_wstr c -> wc_signed value <= UNICODE_MAX -> 0 <= n <= dmax ->
  wp (wcsnset_s c d dmax value n BOS_UNKNOWN) m (wnset_post c (wchar_w c) d dmax n (value mod 4294967296) m).
Proof. exact wcsnset_s_spec. Qed.
Print Assumptions C08_wcsnset_s.
Theorem C08_strnset_s : forall c d dmax value n m, d <> 0 -> 1 <= dmax <= rmax_str c -> 0 <= value <= 255 -> 0 <= n <= dmax ->
  wp (strnset_s c d dmax value n BOS_UNKNOWN) m (set_post c d dmax n value m).
Proof. exact strnset_s_spec. Qed.
Print Assumptions C08_strnset_s.

Theorem C08_cfg_repo_wf : wf_cfg cfg_repo.
Proof. exact wf_cfg_repo. Qed.
Print Assumptions C08_cfg_repo_wf.
