(* ModWstr.v -- wide-character copy / concatenate family beyond wcscpy_s: wcscat_s, wcsncpy_s, wcsncat_s
   (src/wchar/*.c).  Same bumper loops as the narrow family (Comb.copy_loop / find_end at width wchar_w);
   the argument checks differ: the concatenating functions use the NON-clearing CHK_DESTW_OVR, the n-variants
   size their clearing by wcslen / wcsnlen_s of dest. *)
From Coq Require Import List ZArith Lia Bool.
From SC Require Import Base Cfg Comb.
Import ListNotations.
Local Open Scope Z_scope.
Local Open Scope prog_scope.

(* CHK_DEST_NULL; CHK_DMAX_ZERO; CHK_DMAX_MAX or the non-clearing CHK_DESTW_OVR *)
Definition chk_dest_wstr_nc (c : cfg) (d dmax destbos : Z) (k : unit -> prog Z) : prog Z :=
  let w := wchar_w c in
  if d =? 0 then fail_str ESNULLP
  else if dmax =? 0 then fail_str ESZEROL
  else if destbos =? BOS_UNKNOWN then (if rmax_wstr c <? dmax then fail_str ESLEMAX else k tt)
  else if destbos <? dmax * w then (if rmax_wstr c <? dmax then fail_str ESLEMAX else fail_str EOVERFLOW)
  else k tt.
(* wcsnlen_s(dest, dmax) as called from inside the library (object size unknown): guarded loop *)
Definition wnlen (c : cfg) (d dmax : Z) : prog Z :=
  if d =? 0 then Ret 0
  else if dmax =? 0 then Handler HStr ESZEROL (Ret 0)
  else if rmax_wstr c <? dmax then Handler HStr ESLEMAX (Ret 0)
  else nlen_loop true (wchar_w c) (Z.to_nat dmax) d 0 BOS_UNKNOWN.
(* _wcscat_s_chk(dest, dmax, src, destbos) *)
Definition wcscat_s (c : cfg) (d dmax s destbos : Z) : prog Z :=
  let w := wchar_w c in
  chk_dest_wstr_nc c d dmax destbos (fun _ =>
    if s =? 0 then handle_error c w d dmax ESNULLP ;;; Ret ESNULLP
    else if d <? s then
      find_end c w true d dmax s (Z.to_nat dmax) d (fun n d' => copy_loop c w true d dmax s false n d' s 0)
    else
      find_end c w false d dmax d (Z.to_nat dmax) d (fun n d' => copy_loop c w false d dmax d false n d' s 0)).

(* _wcsncpy_s_chk(dest, dmax, src, slen, destbos, srcbos) *)
Definition wcsncpy_s (c : cfg) (d dmax s slen destbos srcbos : Z) : prog Z :=
  let w := wchar_w c in
  if (slen =? 0) && negb (d =? 0) && negb (dmax =? 0) then Store w d 0 (Ret EOK)
  else chk_dest_wstr c d dmax destbos (fun _ =>
    if s =? 0 then handle_error c w d dmax ESNULLP ;;; Ret ESNULLP
    else if rmax_wstr c <? slen then (len <- wnlen c d dmax ;; handle_error c w d len ESLEMAX ;;; Ret ESLEMAX)
    else if negb (srcbos =? BOS_UNKNOWN) && (srcbos <? slen * w) then
      (len <- wnlen c d dmax ;; handle_error c w d len EOVERFLOW ;;; Ret EOVERFLOW)
    else if d <? s then copy_loop c w true d dmax s true (Z.to_nat dmax) d s slen
    else copy_loop c w false d dmax d true (Z.to_nat dmax) d s slen).

(* _wcsncat_s_chk(dest, dmax, src, slen, destbos, srcbos) *)
Definition wcsncat_s (c : cfg) (d dmax s slen destbos srcbos : Z) : prog Z :=
  let w := wchar_w c in
  if (slen =? 0) && (d =? 0) && (dmax =? 0) then Ret EOK
  else chk_dest_wstr_nc c d dmax destbos (fun _ =>
    if s =? 0 then handle_error c w d dmax ESNULLP ;;; Ret ESNULLP
    else if rmax_wstr c <? slen then (len <- wnlen c d dmax ;; handle_error c w d len ESLEMAX ;;; Ret ESLEMAX)
    else if negb (srcbos =? BOS_UNKNOWN) && (srcbos <? slen * w) then
      (len <- wnlen c d dmax ;; handle_error c w d len EOVERFLOW ;;; Ret EOVERFLOW)
    else if slen =? 0 then
      (len <- wnlen c d dmax ;;
       let err := if len <? dmax then EOK else ESZEROL in
       handle_error c w d dmax err ;;; Ret err)
    else if d <? s then
      find_end c w true d dmax s (Z.to_nat dmax) d (fun n d' => copy_loop c w true d dmax s true n d' s slen)
    else
      find_end c w false d dmax d (Z.to_nat dmax) d (fun n d' => copy_loop c w false d dmax d true n d' s slen)).
