(* Dispatch.v -- one entry point for the drivers: function id + integer arguments
   (pointers are addresses, NULL = 0, sizes are size_t values) -> program returning
   the list [return value; extra results...]. *)
From Coq Require Import List ZArith Bool.
From SC Require Import ModQuery ModWstr ModEnv ModExt ModExt2 Base Cfg Comb ModStr ModMem ModTok ModTs ModSearch ModConv.
Import ListNotations.
Local Open Scope Z_scope.
Local Open Scope prog_scope.

Inductive fn :=
| F_strcpy_s | F_strcat_s | F_strncpy_s | F_strncat_s | F_strnlen_s
| F_wcscpy_s
| F_memcpy_s | F_memmove_s | F_memset_s | F_memzero_s
| F_memcpy16_s | F_memmove16_s | F_memset16_s | F_memzero16_s
| F_memcpy32_s | F_memmove32_s | F_memset32_s | F_memzero32_s
| F_strtok_seq | F_wcstok_seq
| F_timingsafe_bcmp | F_timingsafe_memcmp
| F_bsearch_s | F_strzero_s
| F_mbstowcs_s_u8 | F_mbstowcs_s_c | F_wcstombs_s_u8 | F_wcstombs_s_c | F_wcrtomb_s_u8 | F_wcrtomb_s_c | F_wctomb_s_u8 | F_wctomb_s_c
| F_strcmp_s | F_strcasecmp_s | F_memcmp_s | F_strchr_s | F_strrchr_s | F_memchr_s | F_memrchr_s
| F_strspn_s | F_strcspn_s | F_strpbrk_s | F_strprefix_s | F_strfirstdiff_s | F_strfirstsame_s | F_wcsnlen_s
| F_wcscat_s | F_wcsncpy_s | F_wcsncat_s | F_getenv_s
| F_strtolowercase_s | F_strtouppercase_s | F_strset_s | F_strnset_s | F_strnterminate_s
| F_strcpyfld_s | F_strcpyfldin_s | F_strcpyfldout_s | F_memccpy_s | F_wmemcpy_s | F_wmemmove_s | F_stpcpy_s | F_stpncpy_s
| F_strljustify_s | F_strremovews_s | F_wcsset_s | F_wcsnset_s.

Definition arg (l : list Z) (i : nat) : Z := nth i l 0.
Definition ret1 (p : prog Z) : prog (list Z) := r <- p ;; Ret [r].

Definition run_fn (c : cfg) (f : fn) (a : list Z) : prog (list Z) :=
  match f with
  | F_strcpy_s => ret1 (strcpy_s c (arg a 0) (arg a 1) (arg a 2) (arg a 3))
  | F_strcat_s => ret1 (strcat_s c (arg a 0) (arg a 1) (arg a 2) (arg a 3))
  | F_strncpy_s => ret1 (strncpy_s c (arg a 0) (arg a 1) (arg a 2) (arg a 3) (arg a 4) (arg a 5))
  | F_strncat_s => ret1 (strncat_s c (arg a 0) (arg a 1) (arg a 2) (arg a 3) (arg a 4) (arg a 5))
  | F_strnlen_s => ret1 (strnlen_s c (arg a 0) (arg a 1) (arg a 2))
  | F_wcscpy_s => ret1 (wcscpy_s c (arg a 0) (arg a 1) (arg a 2) (arg a 3))
  | F_memcpy_s => ret1 (memcpy_s c (arg a 0) (arg a 1) (arg a 2) (arg a 3) (arg a 4) (arg a 5))
  | F_memmove_s => ret1 (memmove_s c (arg a 0) (arg a 1) (arg a 2) (arg a 3) (arg a 4) (arg a 5))
  | F_memset_s => ret1 (memset_s c (arg a 0) (arg a 1) (arg a 2) (arg a 3) (arg a 4))
  | F_memzero_s => ret1 (memzero_s c (arg a 0) (arg a 1) (arg a 2))
  | F_memcpy16_s => ret1 (memcpy16_s c (arg a 0) (arg a 1) (arg a 2) (arg a 3) (arg a 4) (arg a 5))
  | F_memmove16_s => ret1 (memmove16_s c (arg a 0) (arg a 1) (arg a 2) (arg a 3) (arg a 4) (arg a 5))
  | F_memset16_s => ret1 (memset16_s c (arg a 0) (arg a 1) (arg a 2) (arg a 3) (arg a 4))
  | F_memzero16_s => ret1 (memzero16_s c (arg a 0) (arg a 1) (arg a 2))
  | F_memcpy32_s => ret1 (memcpy32_s c (arg a 0) (arg a 1) (arg a 2) (arg a 3) (arg a 4) (arg a 5))
  | F_memmove32_s => ret1 (memmove32_s c (arg a 0) (arg a 1) (arg a 2) (arg a 3) (arg a 4) (arg a 5))
  | F_memset32_s => ret1 (memset32_s c (arg a 0) (arg a 1) (arg a 2) (arg a 3) (arg a 4))
  | F_memzero32_s => ret1 (memzero32_s c (arg a 0) (arg a 1) (arg a 2))
  | F_strtok_seq => strtok_seq c (arg a 0) (arg a 1) (arg a 2) (arg a 3) (arg a 4) (arg a 5)
  | F_timingsafe_bcmp => ret1 (timingsafe_bcmp c (arg a 0) (arg a 1) (arg a 2) (arg a 3) (arg a 4))
  | F_timingsafe_memcmp => ret1 (timingsafe_memcmp c (arg a 0) (arg a 1) (arg a 2) (arg a 3) (arg a 4))
  | F_bsearch_s => ret1 (bsearch_s c (arg a 0) (arg a 1) (arg a 2) (arg a 3) (arg a 4))
  | F_strzero_s => ret1 (strzero_s c (arg a 0) (arg a 1) (arg a 2))
  | F_mbstowcs_s_u8 => ret1 (mbstowcs_s c true (arg a 0) (arg a 1) (arg a 2) (arg a 3) (arg a 4) (arg a 5))
  | F_mbstowcs_s_c => ret1 (mbstowcs_s c false (arg a 0) (arg a 1) (arg a 2) (arg a 3) (arg a 4) (arg a 5))
  | F_wcstombs_s_u8 => ret1 (wcstombs_s c true (arg a 0) (arg a 1) (arg a 2) (arg a 3) (arg a 4) (arg a 5))
  | F_wcstombs_s_c => ret1 (wcstombs_s c false (arg a 0) (arg a 1) (arg a 2) (arg a 3) (arg a 4) (arg a 5))
  | F_wcrtomb_s_u8 => ret1 (wcrtomb_s c true (arg a 0) (arg a 1) (arg a 2) (arg a 3) (arg a 4) (arg a 5))
  | F_wcrtomb_s_c => ret1 (wcrtomb_s c false (arg a 0) (arg a 1) (arg a 2) (arg a 3) (arg a 4) (arg a 5))
  | F_wctomb_s_u8 => ret1 (wctomb_s c true (arg a 0) (arg a 1) (arg a 2) (arg a 3) (arg a 4))
  | F_wctomb_s_c => ret1 (wctomb_s c false (arg a 0) (arg a 1) (arg a 2) (arg a 3) (arg a 4))
  | F_wcstok_seq => wcstok_seq c (arg a 0) (arg a 1) (arg a 2) (arg a 3) (arg a 4) (arg a 5)
  | F_strcmp_s => ret1 (strcmp_s c (arg a 0) (arg a 1) (arg a 2) (arg a 3) (arg a 4) (arg a 5))
  | F_strcasecmp_s => ret1 (strcasecmp_s c (arg a 0) (arg a 1) (arg a 2) (arg a 3) (arg a 4))
  | F_memcmp_s => ret1 (memcmp_s c (arg a 0) (arg a 1) (arg a 2) (arg a 3) (arg a 4) (arg a 5) (arg a 6))
  | F_strchr_s => ret1 (strchr_s c (arg a 0) (arg a 1) (arg a 2) (arg a 3) (arg a 4))
  | F_strrchr_s => ret1 (strrchr_s c (arg a 0) (arg a 1) (arg a 2) (arg a 3) (arg a 4))
  | F_memchr_s => ret1 (memchr_s c (arg a 0) (arg a 1) (arg a 2) (arg a 3) (arg a 4))
  | F_memrchr_s => ret1 (memrchr_s c (arg a 0) (arg a 1) (arg a 2) (arg a 3) (arg a 4))
  | F_strspn_s => ret1 (strspn_s c (arg a 0) (arg a 1) (arg a 2) (arg a 3) (arg a 4) (arg a 5) (arg a 6))
  | F_strcspn_s => ret1 (strcspn_s c (arg a 0) (arg a 1) (arg a 2) (arg a 3) (arg a 4) (arg a 5) (arg a 6))
  | F_strpbrk_s => ret1 (strpbrk_s c (arg a 0) (arg a 1) (arg a 2) (arg a 3) (arg a 4) (arg a 5) (arg a 6))
  | F_strprefix_s => ret1 (strprefix_s c (arg a 0) (arg a 1) (arg a 2) (arg a 3))
  | F_strfirstdiff_s => ret1 (strfirstdiff_s c (arg a 0) (arg a 1) (arg a 2) (arg a 3) (arg a 4))
  | F_strfirstsame_s => ret1 (strfirstsame_s c (arg a 0) (arg a 1) (arg a 2) (arg a 3) (arg a 4))
  | F_wcsnlen_s => ret1 (wcsnlen_s c (arg a 0) (arg a 1) (arg a 2))
  | F_wcscat_s => ret1 (wcscat_s c (arg a 0) (arg a 1) (arg a 2) (arg a 3))
  | F_wcsncpy_s => ret1 (wcsncpy_s c (arg a 0) (arg a 1) (arg a 2) (arg a 3) (arg a 4) (arg a 5))
  | F_wcsncat_s => ret1 (wcsncat_s c (arg a 0) (arg a 1) (arg a 2) (arg a 3) (arg a 4) (arg a 5))
  | F_getenv_s => ret1 (getenv_s c (arg a 0) (arg a 1) (arg a 2) (arg a 3) (arg a 4) (arg a 5))
  | F_strtolowercase_s => ret1 (strtolowercase_s c (arg a 0) (arg a 1) (arg a 2))
  | F_strtouppercase_s => ret1 (strtouppercase_s c (arg a 0) (arg a 1) (arg a 2))
  | F_strset_s => ret1 (strset_s c (arg a 0) (arg a 1) (arg a 2) (arg a 3))
  | F_strnset_s => ret1 (strnset_s c (arg a 0) (arg a 1) (arg a 2) (arg a 3) (arg a 4))
  | F_strnterminate_s => ret1 (strnterminate_s c (arg a 0) (arg a 1) (arg a 2))
  | F_strcpyfld_s => ret1 (strcpyfld_s c (arg a 0) (arg a 1) (arg a 2) (arg a 3) (arg a 4))
  | F_strcpyfldin_s => ret1 (strcpyfldin_s c (arg a 0) (arg a 1) (arg a 2) (arg a 3) (arg a 4))
  | F_strcpyfldout_s => ret1 (strcpyfldout_s c (arg a 0) (arg a 1) (arg a 2) (arg a 3) (arg a 4))
  | F_memccpy_s => ret1 (memccpy_s c (arg a 0) (arg a 1) (arg a 2) (arg a 3) (arg a 4) (arg a 5) (arg a 6))
  | F_wmemcpy_s => ret1 (wmemcpy_s c (arg a 0) (arg a 1) (arg a 2) (arg a 3) (arg a 4) (arg a 5))
  | F_wmemmove_s => ret1 (wmemmove_s c (arg a 0) (arg a 1) (arg a 2) (arg a 3) (arg a 4) (arg a 5))
  | F_stpcpy_s => ret1 (stpcpy_s c (arg a 0) (arg a 1) (arg a 2) (arg a 3) (arg a 4) (arg a 5))
  | F_stpncpy_s => ret1 (stpncpy_s c (arg a 0) (arg a 1) (arg a 2) (arg a 3) (arg a 4) (arg a 5) (arg a 6))
  | F_strljustify_s => ret1 (strljustify_s c (arg a 0) (arg a 1) (arg a 2))
  | F_strremovews_s => ret1 (strremovews_s c (arg a 0) (arg a 1) (arg a 2))
  | F_wcsset_s => ret1 (wcsset_s c (arg a 0) (arg a 1) (arg a 2) (arg a 3))
  | F_wcsnset_s => ret1 (wcsnset_s c (arg a 0) (arg a 1) (arg a 2) (arg a 3) (arg a 4))
  end.

(* what the drivers call: configuration, allocation-failure oracle, function, arguments, memory *)
Definition run_call (c : cfg) (fail : nat -> bool) (f : fn) (a : list Z) (m : mem)
  : list Z * mem * list ev :=
  let '(r, w) := run fail (run_fn c f a) (w0 m) in (r, wm w, rev (wtr w)).
