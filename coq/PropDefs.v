(* PropDefs.v -- semantic statements of the properties over [run], and their derivation
   from the syntactic footprint predicates. *)
From Coq Require Import List ZArith Lia Bool.
From SC Require Import Base Cfg Comb CombProofs.
Import ListNotations.
Local Open Scope Z_scope.

(* C01: for every allocation-failure oracle and every initial memory, the final memory
   agrees with the initial one outside P and every write event lies inside P *)
Definition C01_holds {A} (P : Z -> Prop) (p : prog A) : Prop :=
  forall fail m, let st := snd (run fail p (w0 m)) in
    (forall a, ~ P a -> wm st a = m a) /\ Forall (ev_write_ok P) (rev (wtr st)).
Lemma C01_from_writes {A} (P : Z -> Prop) (p : prog A) : writes_in P p -> C01_holds P p.
Proof.
  intros H fail m. split.
  - intros a Ha. apply (run_frame fail P p H (w0 m) a Ha).
  - apply Forall_rev. apply (run_trace_writes fail P p H (w0 m)). constructor.
Qed.

(* C02 (syntactic extents): every read event lies inside R *)
Definition C02_holds {A} (R : Z -> Prop) (p : prog A) : Prop :=
  forall fail m, Forall (ev_read_ok R) (rev (wtr (snd (run fail p (w0 m))))).
Lemma C02_from_reads {A} (R : Z -> Prop) (p : prog A) : reads_in R p -> C02_holds R p.
Proof. intros H fail m. apply Forall_rev. apply (run_trace_reads fail R p H (w0 m)). constructor. Qed.

(* C05: handler invocations and return code *)
Definition C05_holds (k : hkind) (p : prog Z) : Prop :=
  forall fail m, let '(r, st) := run fail p (w0 m) in report_post k (handlers (rev (wtr st))) r.
Lemma C05_from_hspec k (p : prog Z) : hspec (report_post k) [] p -> C05_holds k p.
Proof. intros H fail m. apply (hspec_run fail (report_post k) p (w0 m) H). Qed.

(* C12(2): no static object is touched *)
Definition C12_holds {A} (p : prog A) : Prop :=
  forall fail m, existsb is_static (wtr (snd (run fail p (w0 m)))) = false.
Lemma C12_from_no_static {A} (p : prog A) : no_static p -> C12_holds p.
Proof. intros H fail m. apply (run_trace_no_static fail p H (w0 m)). reflexivity. Qed.
