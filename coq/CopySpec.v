(* CopySpec.v -- functional specification of the bumper copy loop, for every placement of
   source and destination, every width, both directions, with and without slen; and of the
   clearing helpers.  Serves C03, C04, C06, C07, C08. *)
From Coq Require Import List ZArith Lia Bool.
From SC Require Import Base Wp Cfg Comb CombProofs.
Import ListNotations.
Local Open Scope Z_scope.
Local Open Scope prog_scope.

(* dest[0..dmax) is cleared the way handle_error clears it *)
Definition cleared (c : cfg) (w : Z) (m' : mem) (od odmax : Z) : Prop :=
  if null_slack c then (forall a, od <= a < od + odmax * w -> m' a = 0) else load m' w od = 0.

Lemma store_zero_byte m w d a : d <= a < d + w -> store m w d 0 a = 0.
Proof. intros H. unfold store. replace (in_range d w a) with true by (symmetry; apply in_range_spec; lia).
  now rewrite Z.div_0_l, Z.mod_0_l by (try apply Z.pow_nonzero; lia). Qed.

Lemma zero_loop_wp w n : 0 < w -> forall d m (Q : unit -> mem -> Prop),
  (forall m', (forall a, m' a = if in_range d (Z.of_nat n * w) a then 0 else m a) -> Q tt m') ->
  wp (zero_loop w n d) m Q.
Proof.
  intros Hw. induction n as [|n IH]; intros d m Q HQ; cbn [zero_loop wp].
  - apply HQ. intros a. replace (in_range d (Z.of_nat 0 * w) a) with false; [reflexivity|].
    symmetry. apply in_range_false. cbn. lia.
  - apply IH. intros m' Hm'. apply HQ. intros a. rewrite Hm'.
    rewrite Nat2Z.inj_succ, Z.mul_succ_l.
    destruct (in_range (d + w) (Z.of_nat n * w) a) eqn:E1.
    + apply in_range_spec in E1. replace (in_range d (Z.of_nat n * w + w) a) with true; [reflexivity|].
      symmetry. apply in_range_spec. lia.
    + apply in_range_false in E1. destruct (in_range d (Z.of_nat n * w + w) a) eqn:E2.
      * apply in_range_spec in E2. apply store_zero_byte. lia.
      * apply in_range_false in E2. apply store_out. lia.
Qed.

Lemma zero_slack_wp c w n : 0 < w -> forall d m (Q : unit -> mem -> Prop),
  (forall m', (forall a, m' a = if null_slack c && in_range d (Z.of_nat n * w) a then 0 else m a) -> Q tt m') ->
  wp (zero_slack c w d n) m Q.
Proof.
  intros Hw d m Q HQ. unfold zero_slack. destruct (null_slack c); cbn [andb].
  - destruct (32 <? Z.of_nat n).
    + cbn [wp]. apply HQ. intros a. unfold fill. destruct (in_range d (Z.of_nat n * w) a); reflexivity.
    + apply zero_loop_wp; auto.
  - cbn [wp]. apply HQ. reflexivity.
Qed.

Lemma handle_error_wp c w od odmax code : 0 < w -> 1 <= odmax -> forall m (Q : unit -> mem -> Prop),
  (forall m', cleared c w m' od odmax -> (forall a, ~ (od <= a < od + odmax * w) -> m' a = m a) -> Q tt m') ->
  wp (handle_error c w od odmax code) m Q.
Proof.
  intros Hw Ho m Q HQ. unfold handle_error. apply wp_bind.
  pose proof (mul_ge_self w odmax Hw Ho) as Hge.
  destruct (null_slack c) eqn:E; cbn [wp bind].
  - apply HQ.
    + unfold cleared. rewrite E. intros a Ha. rewrite fill_in by lia. reflexivity.
    + intros a Ha. apply fill_out. lia.
  - apply HQ.
    + unfold cleared. rewrite E. rewrite load_store_same by lia. apply Z.mod_0_l. apply Z.pow_nonzero; lia.
    + intros a Ha. apply store_out. lia.
Qed.

Section CopySpec.
  Variables (c : cfg) (w : Z) (fwd : bool) (od odmax bumper : Z) (use_slen : bool).
  Hypothesis Hw : 0 < w.
  Hypothesis Hod : 1 <= odmax.
  Notation elem m a := (load m w a).
  Notation loop := (copy_loop c w fwd od odmax bumper use_slen).

  (* g more iterations until the bumper fires; the source still to be read and the
     destination still to be written are on opposite sides of the bumper *)
  Definition sep (d s g : Z) : Prop :=
    0 <= g /\ if fwd then d + g * w = bumper /\ bumper <= s else s + g * w = bumper /\ bumper <= d.

  Lemma sep_step d s g : sep d s g -> 1 <= g -> sep (d + w) (s + w) (g - 1).
  Proof. unfold sep. destruct fwd; intros (H0 & H1 & H2) Hg; repeat split; lia. Qed.
  Lemma sep_nobump d s g : sep d s g -> 1 <= g -> (if fwd then d =? bumper else s =? bumper) = false.
  Proof. unfold sep. destruct fwd; intros (H0 & H1 & H2) Hg; apply Z.eqb_neq; nia. Qed.
  Lemma sep_bump d s : sep d s 0 -> (if fwd then d =? bumper else s =? bumper) = true.
  Proof. unfold sep. destruct fwd; intros (H0 & H1 & H2); apply Z.eqb_eq; lia. Qed.
  (* the store at d does not disturb source element j+1 as long as it will be read *)
  Lemma sep_src d s g j m v : sep d s g -> 0 <= j -> j + 2 <= g \/ fwd = true -> 1 <= g ->
    elem (store m w d v) (s + w + j * w) = elem m (s + w + j * w).
  Proof.
    unfold sep. intros (H0 & HS) Hj Hjg Hg. apply load_store_other. destruct fwd.
    - right. nia.
    - left. destruct Hjg as [Hjg|]; [nia|discriminate].
  Qed.

  Definition copy_ok_post (n : nat) (d s t : Z) (m : mem) (r : Z) (m' : mem) : Prop :=
    r = EOK /\
    (forall j, 0 <= j < t -> elem m' (d + j * w) = elem m (s + j * w)) /\
    elem m' (d + t * w) = 0 /\
    (forall a, a < d -> m' a = m a) /\
    (if null_slack c then forall a, d + t * w <= a < d + Z.of_nat n * w -> m' a = 0
     else forall a, d + (t + 1) * w <= a -> m' a = m a).

  (* A: the copy terminates (terminator, or slen exhausted) before space or the bumper runs out *)
  Lemma copy_ok : forall n d s sl g t m,
    wf_mem m -> sep d s g -> 0 <= t -> t < Z.of_nat n -> t < g ->
    (forall j, 0 <= j < t -> elem m (s + j * w) <> 0) ->
    (use_slen = true -> t <= sl) ->
    (elem m (s + t * w) = 0 \/ (use_slen = true /\ sl = t)) ->
    wp (loop n d s sl) m (copy_ok_post n d s t m).
  Proof.
    induction n as [|n IH]; intros d s sl g t m Hm Hsep Ht Htn Htg Hnz Hsl Hterm; [cbn in Htn; lia|].
    cbn [copy_loop]. rewrite (sep_nobump d s g Hsep) by lia.
    destruct (use_slen && (sl =? 0)) eqn:Esl.
    { (* slen exhausted right here: t = 0 *)
      apply andb_prop in Esl. destruct Esl as [Eu Es]. apply Z.eqb_eq in Es. subst sl.
      assert (t = 0) by (specialize (Hsl Eu); lia). subst t.
      apply wp_bind. destruct (null_slack c) eqn:Ens.
      - apply zero_slack_wp; auto. intros m' Hm'. cbn [wp]. unfold copy_ok_post. rewrite Ens in *. cbn [andb] in Hm'.
        split; [reflexivity|]. split; [intros j Hj; lia|]. rewrite Z.mul_0_l, Z.add_0_r.
        split. { apply load_zero; [lia|]. intros x Hx. rewrite Hm'. rewrite Nat2Z.inj_succ, Z.mul_succ_l.
                 replace (in_range d (Z.of_nat n * w + w) x) with true; [reflexivity|symmetry; apply in_range_spec; nia]. }
        split. { intros a Ha. rewrite Hm'. replace (in_range d (Z.of_nat (S n) * w) a) with false; [reflexivity|symmetry; apply in_range_false; lia]. }
        intros a Ha. rewrite Hm'. replace (in_range d (Z.of_nat (S n) * w) a) with true; [reflexivity|symmetry; apply in_range_spec; lia].
      - cbn [wp]. unfold copy_ok_post. rewrite Ens.
        split; [reflexivity|]. split; [intros j Hj; lia|]. rewrite Z.mul_0_l, Z.add_0_r.
        split. { rewrite load_store_same by lia. apply Z.mod_0_l. apply Z.pow_nonzero; lia. }
        split; intros a Ha; apply store_out; lia. }
    cbn [wp]. set (ch := elem m s). set (m1 := store m w d ch).
    assert (Hch : 0 <= ch < 256 ^ w) by (apply load_range; auto; lia).
    assert (Hm1 : wf_mem m1) by (apply wf_store; auto).
    assert (Hd1 : elem m1 d = ch) by (unfold m1; rewrite load_store_same by lia; apply Z.mod_small; lia).
    destruct (ch =? 0) eqn:Ech.
    { (* terminator copied: t = 0 *)
      apply Z.eqb_eq in Ech.
      assert (t = 0). { destruct (Z.eq_dec t 0); auto. exfalso. apply (Hnz 0); [lia|]. rewrite Z.mul_0_l, Z.add_0_r. exact Ech. }
      subst t. apply wp_bind. apply zero_slack_wp; auto. intros m' Hm'. cbn [wp]. unfold copy_ok_post.
      split; [reflexivity|]. split; [intros j Hj; lia|]. rewrite Z.mul_0_l, Z.add_0_r.
      destruct (null_slack c) eqn:Ens; cbn [andb] in Hm'.
      - split. { apply load_zero; [lia|]. intros x Hx. rewrite Hm'. rewrite Nat2Z.inj_succ, Z.mul_succ_l.
                 replace (in_range d (Z.of_nat n * w + w) x) with true; [reflexivity|symmetry; apply in_range_spec; nia]. }
        split. { intros a Ha. rewrite Hm'. replace (in_range d (Z.of_nat (S n) * w) a) with false by (symmetry; apply in_range_false; lia).
                 unfold m1. apply store_out. lia. }
        intros a Ha. rewrite Hm'. replace (in_range d (Z.of_nat (S n) * w) a) with true; [reflexivity|symmetry; apply in_range_spec; lia].
      - split. { rewrite (load_ext m' m1) by (intros; apply Hm'). rewrite Hd1. exact Ech. }
        split; intros a Ha; rewrite Hm'; unfold m1; apply store_out; lia. }
    (* ordinary element: t >= 1, recurse *)
    apply Z.eqb_neq in Ech.
    assert (Ht1 : 1 <= t).
    { destruct (Z.eq_dec t 0) as [->|]; [|lia]. exfalso. rewrite Z.mul_0_l, Z.add_0_r in Hterm.
      destruct Hterm as [E|[Eu E]]; [fold ch in E; lia|]. subst sl. rewrite Eu in Esl. cbn in Esl. discriminate. }
    assert (Hsrc : forall j, 0 <= j -> j + 1 <= t -> elem m1 (s + w + j * w) = elem m (s + w + j * w)).
    { intros j Hj Hjt. unfold m1. apply (sep_src d s g j m ch Hsep Hj); [|lia]. destruct fwd; [right; reflexivity|left; lia]. }
    rewrite Nat2Z.inj_succ in Htn.
    eapply wp_weaken; [|apply (IH (d + w) (s + w) (sl - 1) (g - 1) (t - 1) m1 Hm1 (sep_step d s g Hsep ltac:(lia))); try lia].
    - (* post of the recursive call implies ours *)
      intros r m' (Hr & Hcp & Hz & Hlow & Hsl').
      unfold copy_ok_post. split; [exact Hr|]. split.
      { intros j Hj. destruct (Z.eq_dec j 0) as [->|Hj0].
        - rewrite !Z.mul_0_l, !Z.add_0_r. rewrite (load_ext m' m1) by (intros x Hx; apply Hlow; lia). exact Hd1.
        - specialize (Hcp (j - 1) ltac:(lia)). replace (d + w + (j - 1) * w) with (d + j * w) in Hcp by lia.
          rewrite Hcp. rewrite Hsrc by lia. f_equal. lia. }
      split. { replace (d + t * w) with (d + w + (t - 1) * w) by lia. exact Hz. }
      split. { intros a Ha. rewrite Hlow by lia. unfold m1. apply store_out. lia. }
      destruct (null_slack c).
      + intros a Ha. apply Hsl'. rewrite Nat2Z.inj_succ in Ha. lia.
      + intros a Ha. rewrite Hsl' by lia. unfold m1. apply store_out. nia.
    - intros j Hj. rewrite Hsrc by lia. replace (s + w + j * w) with (s + (j + 1) * w) by lia. apply Hnz. lia.
    - intros Eu. specialize (Hsl Eu). lia.
    - destruct Hterm as [E|[Eu E]].
      + left. rewrite Hsrc by lia. replace (s + w + (t - 1) * w) with (s + t * w) by lia. exact E.
      + right. split; [exact Eu|lia].
  Qed.

  Definition fail_post (code : Z) (m : mem) (r : Z) (m' : mem) : Prop :=
    r = code /\ cleared c w m' od odmax.

  (* B: the bumper is reached first *)
  Lemma copy_ovrlp : forall n d s sl g m,
    wf_mem m -> sep d s g -> g < Z.of_nat n ->
    (forall j, 0 <= j < g -> elem m (s + j * w) <> 0) ->
    (use_slen = true -> g <= sl) ->
    wp (loop n d s sl) m (fail_post ESOVRLP m).
  Proof.
    induction n as [|n IH]; intros d s sl g m Hm Hsep Hgn Hnz Hsl; [destruct Hsep; cbn in Hgn; lia|].
    cbn [copy_loop]. destruct (Z.eq_dec g 0) as [->|Hg0].
    { rewrite (sep_bump d s Hsep). apply wp_bind. apply handle_error_wp; auto. intros m' Hc _. cbn [wp]. split; auto. }
    assert (1 <= g) by (destruct Hsep; lia).
    rewrite (sep_nobump d s g Hsep) by lia.
    destruct (use_slen && (sl =? 0)) eqn:Esl.
    { apply andb_prop in Esl. destruct Esl as [Eu Es]. apply Z.eqb_eq in Es. specialize (Hsl Eu). lia. }
    cbn [wp]. set (ch := elem m s). set (m1 := store m w d ch).
    destruct (ch =? 0) eqn:Ech.
    { apply Z.eqb_eq in Ech. exfalso. apply (Hnz 0); [lia|]. rewrite Z.mul_0_l, Z.add_0_r. exact Ech. }
    rewrite Nat2Z.inj_succ in Hgn.
    apply (IH (d + w) (s + w) (sl - 1) (g - 1) m1); try lia.
    - apply wf_store; auto.
    - apply sep_step; auto.
    - intros j Hj. unfold m1. rewrite (sep_src d s g j m ch Hsep) by (first [lia | destruct fwd; [right; reflexivity|left; lia]]).
      replace (s + w + j * w) with (s + (j + 1) * w) by lia. apply Hnz. lia.
    - intros Eu. specialize (Hsl Eu). lia.
  Qed.

  (* C: space runs out first *)
  Lemma copy_nospc : forall n d s sl g m,
    wf_mem m -> sep d s g -> Z.of_nat n <= g ->
    (forall j, 0 <= j < Z.of_nat n -> elem m (s + j * w) <> 0) ->
    (use_slen = true -> Z.of_nat n <= sl) ->
    wp (loop n d s sl) m (fail_post ESNOSPC m).
  Proof.
    induction n as [|n IH]; intros d s sl g m Hm Hsep Hgn Hnz Hsl.
    { cbn [copy_loop]. apply wp_bind. apply handle_error_wp; auto. intros m' Hc _. cbn [wp]. split; auto. }
    rewrite Nat2Z.inj_succ in *. cbn [copy_loop].
    rewrite (sep_nobump d s g Hsep) by lia.
    destruct (use_slen && (sl =? 0)) eqn:Esl.
    { apply andb_prop in Esl. destruct Esl as [Eu Es]. apply Z.eqb_eq in Es. specialize (Hsl Eu). lia. }
    cbn [wp]. set (ch := elem m s). set (m1 := store m w d ch).
    destruct (ch =? 0) eqn:Ech.
    { apply Z.eqb_eq in Ech. exfalso. apply (Hnz 0); [lia|]. rewrite Z.mul_0_l, Z.add_0_r. exact Ech. }
    apply (IH (d + w) (s + w) (sl - 1) (g - 1) m1); try lia.
    - apply wf_store; auto.
    - apply sep_step; auto. lia.
    - intros j Hj. unfold m1. rewrite (sep_src d s g j m ch Hsep) by (first [lia | destruct fwd; [right; reflexivity|left; lia]]).
      replace (s + w + j * w) with (s + (j + 1) * w) by lia. apply Hnz. lia.
    - intros Eu. specialize (Hsl Eu). lia.
  Qed.
End CopySpec.

Section FindEnd.
  Variables (c : cfg) (w : Z) (fwd : bool) (od odmax bumper : Z).
  Hypothesis Hw : 0 < w.
  Hypothesis Hod : 1 <= odmax.
  Notation elem m a := (load m w a).
  Notation fe := (find_end c w fwd od odmax bumper).

  (* dest holds a string of P elements: the continuation runs at its terminator *)
  Lemma find_end_ok : forall n d P m (k : nat -> Z -> prog Z) Q,
    0 <= P -> P < Z.of_nat n ->
    (forall j, 0 <= j < P -> elem m (d + j * w) <> 0) -> elem m (d + P * w) = 0 ->
    (fwd = true -> forall j, 0 <= j < P -> d + j * w <> bumper) ->
    wp (k (n - Z.to_nat P)%nat (d + P * w)) m Q -> wp (fe n d k) m Q.
  Proof.
    induction n as [|n IH]; intros d P m k Q HP HPn Hnz Hz Hb Hk; [cbn in HPn; lia|].
    destruct (Z.eq_dec P 0) as [->|HP0].
    - rewrite Z.mul_0_l, Z.add_0_r in *. cbn [find_end wp]. rewrite Hz. cbn. replace (n - 0)%nat with n in Hk by lia. exact Hk.
    - cbn [find_end wp]. destruct (elem m d =? 0) eqn:E.
      { apply Z.eqb_eq in E. exfalso. apply (Hnz 0); [lia|]. rewrite Z.mul_0_l, Z.add_0_r. exact E. }
      replace (fwd && (d =? bumper)) with false.
      2:{ symmetry. destruct fwd; [|reflexivity]. cbn. apply Z.eqb_neq. specialize (Hb eq_refl 0 ltac:(lia)). lia. }
      rewrite Nat2Z.inj_succ in HPn. destruct n as [|n']; [cbn in HPn; lia|].
      apply (IH (d + w) (P - 1)); try lia.
      + intros j Hj. replace (d + w + j * w) with (d + (j + 1) * w) by lia. apply Hnz. lia.
      + replace (d + w + (P - 1) * w) with (d + P * w) by lia. exact Hz.
      + intros Hf j Hj. replace (d + w + j * w) with (d + (j + 1) * w) by lia. apply (Hb Hf). lia.
      + replace (S n' - Z.to_nat (P - 1))%nat with (S (S n') - Z.to_nat P)%nat by lia.
        replace (d + w + (P - 1) * w) with (d + P * w) by lia. exact Hk.
  Qed.

  (* dest has no terminator within its n elements *)
  Lemma find_end_unterm : forall n d m (k : nat -> Z -> prog Z),
    (1 <= n)%nat -> (forall j, 0 <= j < Z.of_nat n -> elem m (d + j * w) <> 0) ->
    (fwd = true -> forall j, 0 <= j < Z.of_nat n -> d + j * w <> bumper) ->
    wp (fe n d k) m (fun r m' => r = ESUNTERM /\ cleared c w m' od odmax).
  Proof.
    induction n as [|n IH]; intros d m k Hn Hnz Hb; [lia|].
    cbn [find_end wp]. destruct (elem m d =? 0) eqn:E.
    { apply Z.eqb_eq in E. exfalso. apply (Hnz 0); [lia|]. rewrite Z.mul_0_l, Z.add_0_r. exact E. }
    replace (fwd && (d =? bumper)) with false.
    2:{ symmetry. destruct fwd; [|reflexivity]. cbn. apply Z.eqb_neq. specialize (Hb eq_refl 0 ltac:(lia)). lia. }
    rewrite Nat2Z.inj_succ in *. destruct n as [|n'].
    - apply wp_bind. apply handle_error_wp; auto. intros m' Hc _. cbn [wp]. split; auto.
    - apply IH; try lia.
      + intros j Hj. replace (d + w + j * w) with (d + (j + 1) * w) by lia. apply Hnz. lia.
      + intros Hf j Hj. replace (d + w + j * w) with (d + (j + 1) * w) by lia. apply (Hb Hf). lia.
  Qed.

  (* forward direction: the scan of dest runs into the source *)
  Lemma find_end_ovrlp : forall n d g m (k : nat -> Z -> prog Z),
    fwd = true -> 0 <= g -> g < Z.of_nat n -> d + g * w = bumper ->
    (forall j, 0 <= j <= g -> elem m (d + j * w) <> 0) ->
    wp (fe n d k) m (fun r m' => r = ESOVRLP /\ cleared c w m' od odmax).
  Proof.
    induction n as [|n IH]; intros d g m k Hf Hg Hgn Hbump Hnz; [cbn in Hgn; lia|].
    cbn [find_end wp]. destruct (elem m d =? 0) eqn:E.
    { apply Z.eqb_eq in E. exfalso. apply (Hnz 0); [lia|]. rewrite Z.mul_0_l, Z.add_0_r. exact E. }
    destruct (Z.eq_dec g 0) as [->|Hg0].
    - replace (fwd && (d =? bumper)) with true by (rewrite Hf; symmetry; apply Z.eqb_eq; lia).
      apply wp_bind. apply handle_error_wp; auto. intros m' Hc _. cbn [wp]. split; auto.
    - replace (fwd && (d =? bumper)) with false by (rewrite Hf; symmetry; apply Z.eqb_neq; nia).
      rewrite Nat2Z.inj_succ in Hgn. destruct n as [|n']; [cbn in Hgn; lia|].
      apply (IH (d + w) (g - 1) m k Hf); try lia.
      intros j Hj. replace (d + w + j * w) with (d + (j + 1) * w) by lia. apply Hnz. lia.
  Qed.
End FindEnd.

Section CopyLoopSpec.
  Variables (c : cfg) (w : Z) (fwd : bool) (od odmax bumper : Z) (use_slen : bool).
  Hypothesis Hw : 0 < w.
  Hypothesis Hod : 1 <= odmax.
  Notation elem m a := (load m w a).

  (* the source as it is in memory before the call ends at index t: by a terminator or by slen *)
  Definition src_ends (m : mem) (s sl t : Z) : Prop :=
    0 <= t /\ (forall j, 0 <= j < t -> elem m (s + j * w) <> 0) /\
    (use_slen = true -> t <= sl) /\ (elem m (s + t * w) = 0 \/ (use_slen = true /\ sl = t)).

  Definition loop_post (n : nat) (d s g t : Z) (m : mem) (r : Z) (m' : mem) : Prop :=
    (t < Z.of_nat n /\ t < g -> copy_ok_post c w n d s t m r m') /\
    (g <= t /\ g < Z.of_nat n -> r = ESOVRLP /\ cleared c w m' od odmax) /\
    (Z.of_nat n <= t /\ Z.of_nat n <= g -> r = ESNOSPC /\ cleared c w m' od odmax).

  Theorem copy_loop_spec n d s sl g t m :
    wf_mem m -> sep w fwd bumper d s g -> src_ends m s sl t ->
    wp (copy_loop c w fwd od odmax bumper use_slen n d s sl) m (loop_post n d s g t m).
  Proof.
    intros Hm Hsep (Ht & Hnz & Hsl & Hterm).
    destruct (Z_lt_dec t (Z.of_nat n)) as [Htn|Htn]; [destruct (Z_lt_dec t g) as [Htg|Htg]|].
    - eapply wp_weaken; [|apply (copy_ok c w fwd od odmax bumper use_slen Hw n d s sl g t m); auto].
      intros r m' H. unfold loop_post. split; [intros _; exact H|split; intros; lia].
    - eapply wp_weaken; [|apply (copy_ovrlp c w fwd od odmax bumper use_slen Hw Hod n d s sl g m); auto; try lia].
      + intros r m' H. unfold loop_post. split; [intros; lia|split; [intros _; exact H|intros; lia]].
      + intros j Hj. apply Hnz. lia.
      + intros Eu. specialize (Hsl Eu). lia.
    - destruct (Z_lt_dec g (Z.of_nat n)) as [Hgn|Hgn].
      + eapply wp_weaken; [|apply (copy_ovrlp c w fwd od odmax bumper use_slen Hw Hod n d s sl g m); auto; try lia].
        * intros r m' H. unfold loop_post. split; [intros; lia|split; [intros _; exact H|intros; lia]].
        * intros j Hj. apply Hnz. lia.
        * intros Eu. specialize (Hsl Eu). lia.
      + eapply wp_weaken; [|apply (copy_nospc c w fwd od odmax bumper use_slen Hw Hod n d s sl g m); auto; try lia].
        * intros r m' H. unfold loop_post. split; [intros; lia|split; [intros; lia|intros _; exact H]].
        * intros j Hj. apply Hnz. lia.
        * intros Eu. specialize (Hsl Eu). lia.
  Qed.
End CopyLoopSpec.

(* ---------------- read footprints (C02) ---------------- *)
Lemma zero_loop_reads R w n : forall d m, reads_ok R (zero_loop w n d) m.
Proof. induction n; intros d m; cbn; auto. Qed.
Lemma zero_slack_reads R c w d n m : reads_ok R (zero_slack c w d n) m.
Proof. unfold zero_slack. destruct (null_slack c); [destruct (32 <? Z.of_nat n)|]; cbn; auto. apply zero_loop_reads. Qed.
Lemma handle_error_reads {A} R c w d dmax code (k : prog A) m :
  (forall m', reads_ok R k m') -> reads_ok R (handle_error c w d dmax code ;;; k) m.
Proof. intros Hk. unfold handle_error. destruct (null_slack c); cbn; auto. Qed.

Section CopyReads.
  Variables (c : cfg) (w : Z) (fwd : bool) (od odmax bumper : Z) (use_slen : bool).
  Hypothesis Hw : 0 < w.
  Notation elem m a := (load m w a).
  Notation loop := (copy_loop c w fwd od odmax bumper use_slen).

  (* number of source elements that may be read: up to and including the terminator,
     but not the element at index slen when slen ends the copy *)
  Definition rd_count (sl t : Z) : Z := if use_slen && (sl =? t) then t else t + 1.

  Lemma copy_reads : forall n d s sl g t m,
    wf_mem m -> sep w fwd bumper d s g -> 0 <= t ->
    (forall j, 0 <= j < t -> j < g -> elem m (s + j * w) <> 0) ->
    (use_slen = true -> t <= sl) ->
    (t < g -> elem m (s + t * w) = 0 \/ (use_slen = true /\ sl = t)) ->
    reads_ok (ext s (rd_count sl t * w)) (loop n d s sl) m.
  Proof.
    induction n as [|n IH]; intros d s sl g t m Hm Hsep Ht Hnz Hsl Hterm; cbn [copy_loop].
    - apply handle_error_reads. cbn. auto.
    - destruct (Z.eq_dec g 0) as [->|Hg0].
      { rewrite (sep_bump w fwd bumper d s Hsep). apply handle_error_reads. cbn. auto. }
      assert (Hg1 : 1 <= g) by (destruct Hsep; lia).
      rewrite (sep_nobump w fwd bumper Hw d s g Hsep) by lia.
      destruct (use_slen && (sl =? 0)) eqn:Esl.
      { apply reads_ok_bind; [destruct (null_slack c); [apply zero_slack_reads|cbn; auto]|].
        destruct (null_slack c); [apply zero_slack_wp; auto; intros; cbn; auto|cbn; auto]. }
      cbn [reads_ok]. set (ch := elem m s). set (m1 := store m w d ch).
      assert (Hrd1 : 1 <= rd_count sl t).
      { unfold rd_count. destruct (use_slen && (sl =? t)) eqn:E; [|lia].
        apply andb_prop in E. destruct E as [Eu Es]. apply Z.eqb_eq in Es. subst sl.
        rewrite Eu in Esl. cbn in Esl. apply Z.eqb_neq in Esl. lia. }
      split. { apply range_ext; nia. }
      destruct (ch =? 0) eqn:Ech.
      { apply reads_ok_bind; [apply zero_slack_reads|]. apply zero_slack_wp; auto. intros; cbn; auto. }
      apply Z.eqb_neq in Ech.
      assert (Ht1 : 1 <= t).
      { destruct (Z.eq_dec t 0) as [->|]; [|lia]. exfalso. destruct (Hterm ltac:(lia)) as [E|[Eu E]].
        - rewrite Z.mul_0_l, Z.add_0_r in E. fold ch in E. lia.
        - subst sl. rewrite Eu in Esl. cbn in Esl. discriminate. }
      eapply reads_ok_weaken; [|apply (IH (d + w) (s + w) (sl - 1) (g - 1) (t - 1) m1)]; try lia.
      + intros a. unfold ext, rd_count. replace (sl - 1 =? t - 1) with (sl =? t) by (destruct (Z.eqb_spec sl t), (Z.eqb_spec (sl - 1) (t - 1)); lia || reflexivity).
        destruct (use_slen && (sl =? t)); nia.
      + apply wf_store; auto.
      + apply (sep_step w fwd bumper Hw d s g Hsep); lia.
      + intros j Hj Hjg. unfold m1. rewrite (sep_src w fwd bumper Hw d s g j m ch Hsep) by (first [lia | destruct fwd; [right; reflexivity|left; lia]]).
        replace (s + w + j * w) with (s + (j + 1) * w) by lia. apply Hnz; lia.
      + intros Eu. specialize (Hsl Eu). lia.
      + intros Htg. destruct (Hterm ltac:(lia)) as [E|[Eu E]].
        * left. unfold m1. rewrite (sep_src w fwd bumper Hw d s g (t - 1) m ch Hsep) by (first [lia | destruct fwd; [right; reflexivity|left; lia]]).
          replace (s + w + (t - 1) * w) with (s + t * w) by lia. exact E.
        * right. split; [exact Eu|lia].
  Qed.

  (* find_end reads dest only, at most n (>= 1) elements *)
  Lemma find_end_reads (k : nat -> Z -> prog Z) (R : Z -> Prop) n : forall d m,
    (1 <= n)%nat -> (forall a, ext d (Z.of_nat n * w) a -> R a) ->
    (forall n' d', reads_ok R (k n' d') m) ->
    reads_ok R (find_end c w fwd od odmax bumper n d k) m.
  Proof.
    induction n as [|n IH]; intros d m Hn HR Hk; [lia|].
    rewrite Nat2Z.inj_succ, Z.mul_succ_l in HR.
    cbn [find_end reads_ok]. split; [intros x Hx; apply HR; unfold ext; nia|].
    destruct (load m w d =? 0); [apply Hk|].
    destruct (fwd && (d =? bumper)); [apply handle_error_reads; cbn; auto|].
    destruct n as [|n']; [apply handle_error_reads; cbn; auto|].
    apply IH; auto; [lia|]. intros a Ha. apply HR. unfold ext in *. nia.
  Qed.

  (* dest holds a string of P elements: P+1 elements of dest are read, then the continuation runs *)
  Lemma find_end_reads_ok (k : nat -> Z -> prog Z) (R : Z -> Prop) : forall n d P m,
    0 <= P -> P < Z.of_nat n ->
    (forall j, 0 <= j < P -> elem m (d + j * w) <> 0) -> elem m (d + P * w) = 0 ->
    (fwd = true -> forall j, 0 <= j < P -> d + j * w <> bumper) ->
    (forall a, ext d ((P + 1) * w) a -> R a) ->
    reads_ok R (k (n - Z.to_nat P)%nat (d + P * w)) m ->
    reads_ok R (find_end c w fwd od odmax bumper n d k) m.
  Proof.
    induction n as [|n IH]; intros d P m HP HPn Hnz Hz Hb HR Hk; [cbn in HPn; lia|].
    cbn [find_end reads_ok]. split; [intros x Hx; apply HR; unfold ext; nia|].
    destruct (Z.eq_dec P 0) as [->|HP0].
    - rewrite Z.mul_0_l, Z.add_0_r in *. rewrite Hz. cbn. replace (n - 0)%nat with n in Hk by lia. exact Hk.
    - destruct (elem m d =? 0) eqn:E.
      { apply Z.eqb_eq in E. exfalso. apply (Hnz 0); [lia|]. rewrite Z.mul_0_l, Z.add_0_r. exact E. }
      replace (fwd && (d =? bumper)) with false.
      2:{ symmetry. destruct fwd; [|reflexivity]. cbn. apply Z.eqb_neq. specialize (Hb eq_refl 0 ltac:(lia)). lia. }
      rewrite Nat2Z.inj_succ in HPn. destruct n as [|n']; [cbn in HPn; lia|].
      apply (IH (d + w) (P - 1)); try lia.
      + intros j Hj. replace (d + w + j * w) with (d + (j + 1) * w) by lia. apply Hnz. lia.
      + replace (d + w + (P - 1) * w) with (d + P * w) by lia. exact Hz.
      + intros Hf j Hj. replace (d + w + j * w) with (d + (j + 1) * w) by lia. apply (Hb Hf). lia.
      + intros a Ha. apply HR. unfold ext in *. nia.
      + replace (S n' - Z.to_nat (P - 1))%nat with (S (S n') - Z.to_nat P)%nat by lia.
        replace (d + w + (P - 1) * w) with (d + P * w) by lia. exact Hk.
  Qed.
End CopyReads.
