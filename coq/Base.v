(* Base.v -- memory, events, the free-monad program type [prog], its executable
   semantics [run], and the syntactic footprint predicates with their soundness
   lemmas (frame condition, trace condition).  Stdlib only. *)
From Coq Require Import List ZArith Lia Bool.
Import ListNotations.
Local Open Scope Z_scope.

Definition mem := Z -> Z.          (* one byte (0..255) per address; 0 is NULL *)
Inductive hkind := HStr | HMem.

(* observable events, byte granular *)
Inductive ev :=
| ERead (a n : Z)                  (* bytes [a, a+n) were read *)
| EWrite (a n : Z)                 (* bytes [a, a+n) were written *)
| EHandler (k : hkind) (code : Z)  (* invoke_safe_{str,mem}_constraint_handler *)
| EAlloc (n r : Z)                 (* malloc(n) returned r (0 = failed) *)
| EFree (p : Z)
| EStatic (id : Z).                (* a static (non caller-provided) object was used *)

Inductive prog (A : Type) : Type :=
| Ret (a : A)
| Load (w p : Z) (k : Z -> prog A)        (* little-endian load of w bytes *)
| Store (w p v : Z) (k : prog A)
| Fill (p n v : Z) (k : prog A)           (* memset(p, v, n) *)
| Move (d s n : Z) (k : prog A)           (* memmove(d, s, n) *)
| Handler (hk : hkind) (code : Z) (k : prog A)
| Alloc (n : Z) (k : Z -> prog A)
| Free (p : Z) (k : prog A)
| Static (id : Z) (k : prog A).
Arguments Ret {A}. Arguments Load {A}. Arguments Store {A}. Arguments Fill {A}.
Arguments Move {A}. Arguments Handler {A}. Arguments Alloc {A}. Arguments Free {A}.
Arguments Static {A}.

Fixpoint bind {A B} (p : prog A) (f : A -> prog B) : prog B :=
  match p with
  | Ret a => f a
  | Load w a k => Load w a (fun v => bind (k v) f)
  | Store w a v k => Store w a v (bind k f)
  | Fill a n v k => Fill a n v (bind k f)
  | Move d s n k => Move d s n (bind k f)
  | Handler hk c k => Handler hk c (bind k f)
  | Alloc n k => Alloc n (fun r => bind (k r) f)
  | Free a k => Free a (bind k f)
  | Static i k => Static i (bind k f)
  end.

Declare Scope prog_scope.
Delimit Scope prog_scope with prog.
Notation "x <- p ;; q" := (bind p (fun x => q))
  (at level 61, p at next level, right associativity) : prog_scope.
Notation "p ;;; q" := (bind p (fun _ => q))
  (at level 61, right associativity) : prog_scope.

(* ---------- memory operations ---------- *)
Definition in_range (a n x : Z) : bool := (a <=? x) && (x <? a + n).

Fixpoint load_n (m : mem) (n : nat) (p : Z) : Z :=
  match n with O => 0 | S n' => m p + 256 * load_n m n' (p + 1) end.
Definition load (m : mem) (w p : Z) : Z := load_n m (Z.to_nat w) p.

Definition store (m : mem) (w p v : Z) : mem :=
  fun x => if in_range p w x then (v / 2 ^ (8 * (x - p))) mod 256 else m x.
Definition fill (m : mem) (p n v : Z) : mem :=
  fun x => if in_range p n x then v mod 256 else m x.
Definition move (m : mem) (d s n : Z) : mem :=
  fun x => if in_range d n x then m (s + (x - d)) else m x.

(* ---------- execution ---------- *)
Record world := mkW { wm : mem; wtr : list ev; wn : nat; wbrk : Z }.
Definition heap_stride := 1099511627776.   (* 2^40: the k-th live block starts at heap base + k * stride (blocks are smaller) *)

Section Run.
  Variable fail : nat -> bool.       (* the k-th allocation request fails *)
  Fixpoint run {A} (p : prog A) (w : world) : A * world :=
    match p with
    | Ret a => (a, w)
    | Load sz a k => run (k (load (wm w) sz a)) (mkW (wm w) (ERead a sz :: wtr w) (wn w) (wbrk w))
    | Store sz a v k => run k (mkW (store (wm w) sz a v) (EWrite a sz :: wtr w) (wn w) (wbrk w))
    | Fill a n v k => run k (mkW (fill (wm w) a n v) (EWrite a n :: wtr w) (wn w) (wbrk w))
    | Move d s n k => run k (mkW (move (wm w) d s n) (EWrite d n :: ERead s n :: wtr w) (wn w) (wbrk w))
    | Handler hk c k => run k (mkW (wm w) (EHandler hk c :: wtr w) (wn w) (wbrk w))
    | Alloc n k =>
        if fail (wn w)
        then run (k 0) (mkW (wm w) (EAlloc n 0 :: wtr w) (S (wn w)) (wbrk w))
        else run (k (wbrk w)) (mkW (wm w) (EAlloc n (wbrk w) :: wtr w) (S (wn w))
                                   (wbrk w + heap_stride))
    | Free a k => run k (mkW (wm w) (EFree a :: wtr w) (wn w) (wbrk w))
    | Static i k => run k (mkW (wm w) (EStatic i :: wtr w) (wn w) (wbrk w))
    end.
End Run.

Definition nofail : nat -> bool := fun _ => false.
Definition w0 (m : mem) : world := mkW m [] O 4611686018427387904.  (* heap far away: 2^62 *)
(* plain run: no allocation failures; result, final memory, trace in program order *)
Definition exec {A} (p : prog A) (m : mem) : A * mem * list ev :=
  let '(a, w) := run nofail p (w0 m) in (a, wm w, rev (wtr w)).

(* ---------- syntactic footprints (quantify over every loaded value) ---------- *)
Definition range_in (P : Z -> Prop) (a n : Z) : Prop := forall x, a <= x < a + n -> P x.

Fixpoint writes_in {A} (P : Z -> Prop) (p : prog A) : Prop :=
  match p with
  | Ret _ => True
  | Load _ _ k => forall v, writes_in P (k v)
  | Store w a _ k => range_in P a w /\ writes_in P k
  | Fill a n _ k => range_in P a n /\ writes_in P k
  | Move d _ n k => range_in P d n /\ writes_in P k
  | Handler _ _ k => writes_in P k
  | Alloc _ k => forall r, writes_in P (k r)
  | Free _ k => writes_in P k
  | Static _ k => writes_in P k
  end.

Fixpoint reads_in {A} (R : Z -> Prop) (p : prog A) : Prop :=
  match p with
  | Ret _ => True
  | Load w a k => range_in R a w /\ forall v, reads_in R (k v)
  | Store _ _ _ k => reads_in R k
  | Fill _ _ _ k => reads_in R k
  | Move _ s n k => range_in R s n /\ reads_in R k
  | Handler _ _ k => reads_in R k
  | Alloc _ k => forall r, reads_in R (k r)
  | Free _ k => reads_in R k
  | Static _ k => reads_in R k
  end.

(* no event of a given class at all *)
Fixpoint no_handler {A} (p : prog A) : Prop :=
  match p with
  | Ret _ => True
  | Load _ _ k => forall v, no_handler (k v)
  | Store _ _ _ k | Fill _ _ _ k | Move _ _ _ k | Free _ k | Static _ k => no_handler k
  | Handler _ _ _ => False
  | Alloc _ k => forall r, no_handler (k r)
  end.
Fixpoint no_static {A} (p : prog A) : Prop :=
  match p with
  | Ret _ => True
  | Load _ _ k => forall v, no_static (k v)
  | Store _ _ _ k | Fill _ _ _ k | Move _ _ _ k | Free _ k | Handler _ _ k => no_static k
  | Static _ _ => False
  | Alloc _ k => forall r, no_static (k r)
  end.

Definition ev_write_ok (P : Z -> Prop) (e : ev) : Prop :=
  match e with EWrite a n => range_in P a n | _ => True end.
Definition ev_read_ok (R : Z -> Prop) (e : ev) : Prop :=
  match e with ERead a n => range_in R a n | _ => True end.
Definition is_handler (e : ev) : bool := match e with EHandler _ _ => true | _ => false end.
Definition is_static (e : ev) : bool := match e with EStatic _ => true | _ => false end.
Definition handlers (tr : list ev) : list (hkind * Z) :=
  flat_map (fun e => match e with EHandler k c => [(k, c)] | _ => [] end) tr.

(* ---------- basic lemmas ---------- *)
Lemma in_range_spec a n x : in_range a n x = true <-> a <= x < a + n.
Proof. unfold in_range. rewrite andb_true_iff, Z.leb_le, Z.ltb_lt. tauto. Qed.
Lemma in_range_false a n x : in_range a n x = false <-> ~ (a <= x < a + n).
Proof. rewrite <- in_range_spec. destruct (in_range a n x); split; congruence. Qed.

Lemma store_out m w p v x : ~ (p <= x < p + w) -> store m w p v x = m x.
Proof. intros H. unfold store. apply in_range_false in H. now rewrite H. Qed.
Lemma fill_out m p n v x : ~ (p <= x < p + n) -> fill m p n v x = m x.
Proof. intros H. unfold fill. apply in_range_false in H. now rewrite H. Qed.
Lemma fill_in m p n v x : p <= x < p + n -> fill m p n v x = v mod 256.
Proof. intros H. unfold fill. apply in_range_spec in H. now rewrite H. Qed.
Lemma move_out m d s n x : ~ (d <= x < d + n) -> move m d s n x = m x.
Proof. intros H. unfold move. apply in_range_false in H. now rewrite H. Qed.
Lemma move_in m d s n x : d <= x < d + n -> move m d s n x = m (s + (x - d)).
Proof. intros H. unfold move. apply in_range_spec in H. now rewrite H. Qed.
Lemma store1_in m p v : store m 1 p v p = v mod 256.
Proof. unfold store. replace (in_range p 1 p) with true.
  - now rewrite Z.sub_diag, Z.mul_0_r, Z.pow_0_r, Z.div_1_r.
  - symmetry. apply in_range_spec. lia. Qed.
Lemma load1 m p : load m 1 p = m p.
Proof. unfold load. change (Z.to_nat 1) with 1%nat. cbn [load_n]. lia. Qed.

Lemma writes_in_weaken {A} (P Q : Z -> Prop) (p : prog A) :
  (forall a, P a -> Q a) -> writes_in P p -> writes_in Q p.
Proof.
  intros HPQ. induction p; cbn; auto; try (intros [H1 H2]; split; [intros x Hx; apply HPQ, H1, Hx|auto]).
Qed.
Lemma reads_in_weaken {A} (P Q : Z -> Prop) (p : prog A) :
  (forall a, P a -> Q a) -> reads_in P p -> reads_in Q p.
Proof.
  intros HPQ. induction p; cbn; auto; try (intros [H1 H2]; split; [intros x Hx; apply HPQ, H1, Hx|auto]).
Qed.
Lemma writes_in_bind {A B} P (p : prog A) (f : A -> prog B) :
  writes_in P p -> (forall a, writes_in P (f a)) -> writes_in P (bind p f).
Proof. intros Hp Hf. induction p; cbn in *; auto; try (destruct Hp; split; auto). Qed.
Lemma reads_in_bind {A B} P (p : prog A) (f : A -> prog B) :
  reads_in P p -> (forall a, reads_in P (f a)) -> reads_in P (bind p f).
Proof. intros Hp Hf. induction p; cbn in *; auto; try (destruct Hp; split; auto). Qed.
Lemma no_static_bind {A B} (p : prog A) (f : A -> prog B) :
  no_static p -> (forall a, no_static (f a)) -> no_static (bind p f).
Proof. intros Hp Hf. induction p; cbn in *; auto; tauto. Qed.
Lemma no_handler_bind {A B} (p : prog A) (f : A -> prog B) :
  no_handler p -> (forall a, no_handler (f a)) -> no_handler (bind p f).
Proof. intros Hp Hf. induction p; cbn in *; auto; tauto. Qed.

Section RunLemmas.
  Variable fail : nat -> bool.

  Lemma run_bind {A B} (p : prog A) (f : A -> prog B) st :
    run fail (bind p f) st = let '(a, st') := run fail p st in run fail (f a) st'.
  Proof. revert st. induction p; cbn; intros st; auto. destruct (fail (wn st)); auto. Qed.

  (* frame: memory outside P is untouched *)
  Lemma run_frame {A} P (p : prog A) : writes_in P p ->
    forall st x, ~ P x -> wm (snd (run fail p st)) x = wm st x.
  Proof.
    induction p; cbn; intros Hs st x Hn; auto.
    - rewrite H by auto. reflexivity.
    - destruct Hs as [Hr Hs]. rewrite IHp by auto. cbn. apply store_out. intro Hx. apply Hn, Hr, Hx.
    - destruct Hs as [Hr Hs]. rewrite IHp by auto. cbn. apply fill_out. intro Hx. apply Hn, Hr, Hx.
    - destruct Hs as [Hr Hs]. rewrite IHp by auto. cbn. apply move_out. intro Hx. apply Hn, Hr, Hx.
    - rewrite IHp by auto. reflexivity.
    - destruct (fail (wn st)); rewrite H by auto; reflexivity.
    - rewrite IHp by auto. reflexivity.
    - rewrite IHp by auto. reflexivity.
  Qed.

  (* the trace only grows, and every new write/read event is inside the footprint *)
  Lemma run_trace_writes {A} P (p : prog A) : writes_in P p ->
    forall st, Forall (ev_write_ok P) (wtr st) -> Forall (ev_write_ok P) (wtr (snd (run fail p st))).
  Proof.
    induction p; cbn; intros Hs st Hw; auto.
    - apply H; auto. cbn. repeat (constructor; cbn; auto).
    - destruct Hs. apply IHp; auto. cbn. repeat (constructor; cbn; auto).
    - destruct Hs. apply IHp; auto. cbn. repeat (constructor; cbn; auto).
    - destruct Hs. apply IHp; auto. cbn. repeat (constructor; cbn; auto).
    - apply IHp; auto. cbn. repeat (constructor; cbn; auto).
    - destruct (fail (wn st)); apply H; auto; cbn; repeat (constructor; cbn; auto).
    - apply IHp; auto. cbn. repeat (constructor; cbn; auto).
    - apply IHp; auto. cbn. repeat (constructor; cbn; auto).
  Qed.
  Lemma run_trace_reads {A} R (p : prog A) : reads_in R p ->
    forall st, Forall (ev_read_ok R) (wtr st) -> Forall (ev_read_ok R) (wtr (snd (run fail p st))).
  Proof.
    induction p; cbn; intros Hs st Hw; auto.
    - destruct Hs. apply H; auto. cbn. repeat (constructor; cbn; auto).
    - apply IHp; auto. cbn. repeat (constructor; cbn; auto).
    - apply IHp; auto. cbn. repeat (constructor; cbn; auto).
    - destruct Hs. apply IHp; auto. cbn. repeat (constructor; cbn; auto).
    - apply IHp; auto. cbn. repeat (constructor; cbn; auto).
    - destruct (fail (wn st)); apply H; auto; cbn; repeat (constructor; cbn; auto).
    - apply IHp; auto. cbn. repeat (constructor; cbn; auto).
    - apply IHp; auto. cbn. repeat (constructor; cbn; auto).
  Qed.
  Lemma run_trace_no_static {A} (p : prog A) : no_static p ->
    forall st, existsb is_static (wtr st) = false -> existsb is_static (wtr (snd (run fail p st))) = false.
  Proof.
    induction p; cbn; intros Hs st Hw; auto; try contradiction.
    - destruct (fail (wn st)); apply H; auto.
  Qed.
End RunLemmas.

(* exec-level corollaries *)
Lemma exec_frame {A} P (p : prog A) m : writes_in P p ->
  forall x, ~ P x -> snd (fst (exec p m)) x = m x.
Proof.
  intros H x Hx. unfold exec. pose proof (run_frame nofail P p H (w0 m) x Hx) as F.
  destruct (run nofail p (w0 m)) as [a w]. cbn in *. exact F.
Qed.
Lemma exec_writes {A} P (p : prog A) m : writes_in P p -> Forall (ev_write_ok P) (snd (exec p m)).
Proof.
  intros H. unfold exec. pose proof (run_trace_writes nofail P p H (w0 m) (Forall_nil _)) as F.
  destruct (run nofail p (w0 m)) as [a w]. cbn in *. apply Forall_rev. exact F.
Qed.
Lemma exec_reads {A} R (p : prog A) m : reads_in R p -> Forall (ev_read_ok R) (snd (exec p m)).
Proof.
  intros H. unfold exec. pose proof (run_trace_reads nofail R p H (w0 m) (Forall_nil _)) as F.
  destruct (run nofail p (w0 m)) as [a w]. cbn in *. apply Forall_rev. exact F.
Qed.

(* ---------- return-value and handler-sequence specifications (syntactic) ---------- *)
Fixpoint rets {A} (Q : A -> Prop) (p : prog A) : Prop :=
  match p with
  | Ret a => Q a
  | Load _ _ k => forall v, rets Q (k v)
  | Store _ _ _ k | Fill _ _ _ k | Move _ _ _ k | Handler _ _ k | Free _ k | Static _ k => rets Q k
  | Alloc _ k => forall r, rets Q (k r)
  end.

(* hspec post acc p : on every path of p (for all loaded values), if hs are the handler
   invocations performed so far (acc) followed by those of p, and a the result, post hs a *)
Fixpoint hspec {A} (post : list (hkind * Z) -> A -> Prop) (acc : list (hkind * Z)) (p : prog A) : Prop :=
  match p with
  | Ret a => post acc a
  | Load _ _ k => forall v, hspec post acc (k v)
  | Store _ _ _ k | Fill _ _ _ k | Move _ _ _ k | Free _ k | Static _ k => hspec post acc k
  | Handler hk c k => hspec post (acc ++ [(hk, c)]) k
  | Alloc _ k => forall r, hspec post acc (k r)
  end.

Lemma rets_weaken {A} (Q Q' : A -> Prop) (p : prog A) : (forall a, Q a -> Q' a) -> rets Q p -> rets Q' p.
Proof. intros HQ. induction p; cbn; auto. Qed.
Lemma rets_bind {A B} (Q : A -> Prop) (Q' : B -> Prop) (p : prog A) (f : A -> prog B) :
  rets Q p -> (forall a, Q a -> rets Q' (f a)) -> rets Q' (bind p f).
Proof. intros Hp Hf. induction p; cbn in *; auto. Qed.
Lemma writes_in_bind_rets {A B} P (Q : A -> Prop) (p : prog A) (f : A -> prog B) :
  writes_in P p -> rets Q p -> (forall a, Q a -> writes_in P (f a)) -> writes_in P (bind p f).
Proof. intros Hp Hq Hf. induction p; cbn in *; auto; try (destruct Hp; split; auto). Qed.
Lemma reads_in_bind_rets {A B} P (Q : A -> Prop) (p : prog A) (f : A -> prog B) :
  reads_in P p -> rets Q p -> (forall a, Q a -> reads_in P (f a)) -> reads_in P (bind p f).
Proof. intros Hp Hq Hf. induction p; cbn in *; auto; try (destruct Hp as [? Hp]; split; auto). Qed.
Lemma hspec_weaken {A} (post post' : list (hkind * Z) -> A -> Prop) (p : prog A) :
  (forall hs a, post hs a -> post' hs a) -> forall acc, hspec post acc p -> hspec post' acc p.
Proof. intros H. induction p; cbn; auto. Qed.
Lemma hspec_bind {A B} (post : list (hkind * Z) -> B -> Prop) (p : prog A) (f : A -> prog B) :
  forall acc, hspec (fun acc' a => hspec post acc' (f a)) acc p -> hspec post acc (bind p f).
Proof. induction p; cbn; auto. Qed.

Lemma handlers_app t1 t2 : handlers (t1 ++ t2) = handlers t1 ++ handlers t2.
Proof. unfold handlers. apply flat_map_app. Qed.

Section HspecSound.
  Variable fail : nat -> bool.
  Lemma hspec_run {A} (post : list (hkind * Z) -> A -> Prop) (p : prog A) :
    forall st, hspec post (handlers (rev (wtr st))) p ->
    let '(a, st') := run fail p st in post (handlers (rev (wtr st'))) a.
  Proof.
    induction p; cbn; intros st Hs; auto.
    - apply H. cbn. rewrite handlers_app. cbn. rewrite app_nil_r. apply Hs.
    - apply IHp. cbn. rewrite handlers_app. cbn. rewrite app_nil_r. apply Hs.
    - apply IHp. cbn. rewrite handlers_app. cbn. rewrite app_nil_r. apply Hs.
    - apply IHp. cbn. rewrite !handlers_app. cbn. rewrite !app_nil_r. apply Hs.
    - apply IHp. cbn. rewrite handlers_app. cbn. apply Hs.
    - destruct (fail (wn st)); apply H; cbn; rewrite handlers_app; cbn; rewrite app_nil_r; apply Hs.
    - apply IHp. cbn. rewrite handlers_app. cbn. rewrite app_nil_r. apply Hs.
    - apply IHp. cbn. rewrite handlers_app. cbn. rewrite app_nil_r. apply Hs.
  Qed.
  Lemma rets_run {A} (Q : A -> Prop) (p : prog A) : rets Q p -> forall st, Q (fst (run fail p st)).
  Proof. induction p; cbn; intros Hr st; auto. destruct (fail (wn st)); auto. Qed.
End HspecSound.

Lemma exec_hspec {A} (post : list (hkind * Z) -> A -> Prop) (p : prog A) m :
  hspec post [] p -> let '(a, _, tr) := exec p m in post (handlers tr) a.
Proof.
  intros H. unfold exec. pose proof (hspec_run nofail post p (w0 m) H) as F.
  destruct (run nofail p (w0 m)) as [a st]. exact F.
Qed.
