(* SpecExt3.v -- strljustify_s: functional specification and frame (C01, C06) on a terminated string, for every memory.
   The scans of the C code are bounded by the data only; the model runs them on fuel (ModExt2.v) and the theorem shows the
   fuel is never exhausted and every store stays inside dest[0 .. strlen). *)
From Coq Require Import List ZArith Lia Bool.
From SC Require Import Base Wp Cfg Comb CombProofs ModExt ModExt2 SpecExt2.
Import ListNotations.
Local Open Scope Z_scope.
Local Open Scope prog_scope.

(* the string at p: L non-zero characters, then a terminator *)
Definition cstr (m : mem) (p : Z) (L : nat) : Prop :=
  (forall j, 0 <= j < Z.of_nat L -> m (p + j) <> 0) /\ m (p + Z.of_nat L) = 0.
Lemma cstr_S m p L : cstr m p (S L) -> m p <> 0 /\ cstr m (p + 1) L.
Proof.
  intros [H1 H2]. rewrite Nat2Z.inj_succ in *. split; [specialize (H1 0 ltac:(lia)); now rewrite Z.add_0_r in H1|]. split.
  - intros j Hj. replace (p + 1 + j) with (p + (j + 1)) by lia. apply H1. lia.
  - replace (p + 1 + Z.of_nat L) with (p + Z.succ (Z.of_nat L)) by lia. exact H2.
Qed.
Lemma cstr_ext m m' p L : (forall x, p <= x <= p + Z.of_nat L -> m' x = m x) -> cstr m p L -> cstr m' p L.
Proof. intros He [H1 H2]. split; [intros j Hj; rewrite He by lia; apply H1; exact Hj|rewrite He by lia; exact H2]. Qed.

(* term_scan on a string that is terminated inside the window: no store, the continuation gets the terminator's address *)
Lemma term_scan_wp od odmax (k : Z -> prog Z) (Q : Z -> mem -> Prop) : forall L n d m,
  cstr m d L -> (L <= n)%nat -> wp (k (d + Z.of_nat L)) m Q -> wp (term_scan od odmax n d k) m Q.
Proof.
  induction L as [|L IH]; intros n d m Hs Hn HQ.
  - destruct Hs as [_ Hz]. cbn in Hz. rewrite Z.add_0_r in Hz, HQ. destruct n; cbn [term_scan wp]; rewrite load1, Hz; exact HQ.
  - apply cstr_S in Hs. destruct Hs as [Hnz Hs]. destruct n as [|n]; [lia|]. cbn [term_scan wp]. rewrite load1.
    apply Z.eqb_neq in Hnz. rewrite Hnz. apply (IH n (d + 1) m Hs); [lia|].
    replace (d + 1 + Z.of_nat L) with (d + Z.of_nat (S L)) by (rewrite Nat2Z.inj_succ; lia). exact HQ.
Qed.

(* the leading blanks: K of them, then a character that is not a blank (possibly the terminator) *)
Definition blanks (m : mem) (p : Z) (K : nat) : Prop :=
  (forall j, 0 <= j < Z.of_nat K -> is_ws (m (p + j)) = true) /\ is_ws (m (p + Z.of_nat K)) = false.
Lemma skip_ws_wp (k : Z -> prog Z) (Q : Z -> mem -> Prop) : forall K fuel d m,
  blanks m d K -> (K < fuel)%nat -> wp (k (d + Z.of_nat K)) m Q -> wp (skip_ws fuel d k) m Q.
Proof.
  induction K as [|K IH]; intros fuel d m [Hb He] Hf HQ; (destruct fuel as [|fuel]; [lia|]); cbn [skip_ws wp]; rewrite load1.
  - cbn in He. rewrite Z.add_0_r in He, HQ. rewrite He. exact HQ.
  - rewrite Nat2Z.inj_succ in *. pose proof (Hb 0 ltac:(lia)) as H0. rewrite Z.add_0_r in H0. rewrite H0.
    apply (IH fuel (d + 1) m); [|lia|].
    + split; [intros j Hj; replace (d + 1 + j) with (d + (j + 1)) by lia; apply Hb; lia|].
      replace (d + 1 + Z.of_nat K) with (d + Z.succ (Z.of_nat K)) by lia. exact He.
    + replace (d + 1 + Z.of_nat K) with (d + Z.succ (Z.of_nat K)) by lia. exact HQ.
Qed.

(* the shift: the L characters at p move to o (o < p), the places they leave beyond o+L hold blanks *)
Definition shifted (m : mem) (o p : Z) (L : nat) (m' : mem) : Prop :=
  forall x, m' x = if inb o (o + Z.of_nat L) x then m (p + (x - o))
                   else if inb p (p + Z.of_nat L) x then 32 else m x.
Lemma shift_left_wp (k : Z -> Z -> prog Z) (Q : Z -> mem -> Prop) : forall L fuel o p m,
  wf_mem m -> cstr m p L -> o < p -> (L < fuel)%nat ->
  (forall m', shifted m o p L m' -> wp (k (o + Z.of_nat L) (p + Z.of_nat L)) m' Q) ->
  wp (shift_left fuel o p k) m Q.
Proof.
  induction L as [|L IH]; intros fuel o p m Hwf Hs Hop Hf HQ; (destruct fuel as [|fuel]; [lia|]); cbn [shift_left wp]; rewrite load1.
  - destruct Hs as [_ Hz]. cbn in Hz. rewrite Z.add_0_r in Hz. rewrite Hz. cbn [Z.eqb]. specialize (HQ m).
    cbn [Z.of_nat] in HQ. rewrite !Z.add_0_r in HQ. apply HQ. intros x. cbn [Z.of_nat].
    replace (inb o (o + 0) x) with false by (symmetry; apply inb_false; lia). replace (inb p (p + 0) x) with false by (symmetry; apply inb_false; lia). reflexivity.
  - apply cstr_S in Hs. destruct Hs as [Hnz Hs]. pose proof Hnz as Hnz'. apply Z.eqb_neq in Hnz'. rewrite Hnz'. cbn [wp].
    set (m1 := store (store m 1 o (m p)) 1 p 32).
    assert (Hm1 : forall x, m1 x = if x =? p then 32 else if x =? o then (m p) mod 256 else m x).
    { intros x. subst m1. destruct (Z.eqb_spec x p) as [->|Np]; [rewrite store1_in; reflexivity|]. rewrite store_out by lia.
      destruct (Z.eqb_spec x o) as [->|No]; [apply store1_in|apply store_out; lia]. }
    apply (IH fuel (o + 1) (p + 1) m1); [subst m1; apply wf_store, wf_store, Hwf| |lia|lia|].
    + apply (cstr_ext m); [|exact Hs]. intros x Hx. rewrite Hm1. destruct (Z.eqb_spec x p); [lia|]. destruct (Z.eqb_spec x o); [lia|reflexivity].
    + intros m' Hsh. replace (o + 1 + Z.of_nat L) with (o + Z.of_nat (S L)) by (rewrite Nat2Z.inj_succ; lia).
      replace (p + 1 + Z.of_nat L) with (p + Z.of_nat (S L)) by (rewrite Nat2Z.inj_succ; lia). apply HQ.
      intros x. rewrite Hsh. rewrite Nat2Z.inj_succ.
      destruct (inb (o + 1) (o + 1 + Z.of_nat L) x) eqn:E1.
      * apply inb_spec in E1. replace (inb o (o + Z.succ (Z.of_nat L)) x) with true by (symmetry; apply inb_spec; lia).
        rewrite Hm1. replace (p + 1 + (x - (o + 1))) with (p + (x - o)) by lia.
        destruct (Z.eqb_spec (p + (x - o)) p); [lia|]. destruct (Z.eqb_spec (p + (x - o)) o); [lia|reflexivity].
      * apply inb_false in E1. destruct (Z.eq_dec x o) as [->|No].
        -- replace (inb o (o + Z.succ (Z.of_nat L)) o) with true by (symmetry; apply inb_spec; lia).
           replace (inb (p + 1) (p + 1 + Z.of_nat L) o) with false by (symmetry; apply inb_false; lia).
           rewrite Hm1. destruct (Z.eqb_spec o p); [lia|]. rewrite Z.eqb_refl. rewrite Z.sub_diag, Z.add_0_r.
           apply Z.mod_small. apply Hwf.
        -- replace (inb o (o + Z.succ (Z.of_nat L)) x) with false by (symmetry; apply inb_false; lia).
           destruct (inb (p + 1) (p + 1 + Z.of_nat L) x) eqn:E2.
           ++ apply inb_spec in E2. replace (inb p (p + Z.succ (Z.of_nat L)) x) with true by (symmetry; apply inb_spec; lia). reflexivity.
           ++ apply inb_false in E2. rewrite Hm1. destruct (Z.eqb_spec x p) as [->|Np].
              ** replace (inb p (p + Z.succ (Z.of_nat L)) p) with true by (symmetry; apply inb_spec; lia). reflexivity.
              ** replace (inb p (p + Z.succ (Z.of_nat L)) x) with false by (symmetry; apply inb_false; lia).
                 destruct (Z.eqb_spec x o); [lia|reflexivity].
Qed.

Lemma is_ws_nonzero ch : is_ws ch = true -> ch <> 0.
Proof. unfold is_ws. intros H Hz. subst ch. discriminate H. Qed.
Lemma blanks_le m d K L : blanks m d K -> cstr m d L -> (K <= L)%nat.
Proof.
  intros [Hb _] [_ Hz]. destruct (Nat.le_gt_cases K L) as [H|H]; [exact H|]. exfalso.
  specialize (Hb (Z.of_nat L) ltac:(lia)). apply is_ws_nonzero in Hb. contradiction.
Qed.

(* what strljustify_s leaves of a string of L characters with K leading blanks (K >= 1) *)
Definition ljust_post (m : mem) (d : Z) (L K : nat) (m' : mem) : Prop :=
  forall x, m' x = if inb d (d + Z.of_nat (L - K)) x then m (x + Z.of_nat K)
                   else if x =? d + Z.of_nat (L - K) then 0
                   else if inb (d + Z.of_nat K) (d + Z.of_nat L) x then 32 else m x.

Theorem strljustify_s_spec c d dmax m L K : wf_mem m -> d <> 0 -> 2 <= dmax <= rmax_str c ->
  (1 <= L)%nat -> Z.of_nat L <= dmax -> cstr m d L -> blanks m d K ->
  wp (strljustify_s c d dmax BOS_UNKNOWN) m (fun r m' =>
     r = EOK /\ (K = O -> m' = m) /\ ((1 <= K)%nat -> ljust_post m d L K m') /\
     (* frame: nothing outside the string itself changes; in particular nothing at or behind dest[dmax] *)
     (forall x, ~ (d <= x < d + Z.of_nat L) -> m' x = m x)).
Proof.
  intros Hwf Hd Hm HL HLd Hs Hb. pose proof (blanks_le m d K L Hb Hs) as HKL.
  unfold strljustify_s, chk_dest_plain.
  replace (d =? 0) with false by lia. replace (dmax =? 0) with false by lia. rewrite Z.eqb_refl.
  replace (rmax_str c <? dmax) with false by lia. replace (dmax <=? 1) with false by lia.
  cbn [wp]. rewrite load1.
  assert (Hd0 : m d <> 0). { destruct Hs as [Hs _]. specialize (Hs 0 ltac:(lia)). now rewrite Z.add_0_r in Hs. }
  apply Z.eqb_neq in Hd0. rewrite Hd0.
  apply (term_scan_wp d dmax _ _ L); auto; [lia|].
  apply (skip_ws_wp _ _ K); auto; [lia|].
  destruct K as [|K].
  - cbn [Z.of_nat]. rewrite Z.add_0_r, Z.eqb_refl. cbn [wp]. split; [reflexivity|]. split; [reflexivity|]. split; [lia|]. reflexivity.
  - replace (d + Z.of_nat (S K) =? d) with false by (symmetry; apply Z.eqb_neq; lia).
    apply (shift_left_wp _ _ (L - S K)); auto; try lia.
    + destruct Hs as [Hs1 Hs2]. split.
      * intros j Hj. replace (d + Z.of_nat (S K) + j) with (d + (Z.of_nat (S K) + j)) by lia. apply Hs1. lia.
      * replace (d + Z.of_nat (S K) + Z.of_nat (L - S K)) with (d + Z.of_nat L) by lia. exact Hs2.
    + intros m1 Hsh. cbn [wp].
      assert (Hpost : ljust_post m d L (S K) (store m1 1 (d + Z.of_nat (L - S K)) 0)).
      { intros x. destruct (Z.eqb_spec x (d + Z.of_nat (L - S K))) as [->|Nx].
        - rewrite store1_in. replace (inb d (d + Z.of_nat (L - S K)) (d + Z.of_nat (L - S K))) with false by (symmetry; apply inb_false; lia). reflexivity.
        - rewrite store_out by lia. rewrite Hsh.
          destruct (inb d (d + Z.of_nat (L - S K)) x) eqn:E1; [f_equal; lia|].
          replace (d + Z.of_nat (S K) + Z.of_nat (L - S K)) with (d + Z.of_nat L) by lia. reflexivity. }
      split; [reflexivity|]. split; [discriminate|]. split; [intros _; exact Hpost|].
      intros x Hx. rewrite Hpost.
      replace (inb d (d + Z.of_nat (L - S K)) x) with false by (symmetry; apply inb_false; lia).
      destruct (Z.eqb_spec x (d + Z.of_nat (L - S K))); [lia|].
      replace (inb (d + Z.of_nat (S K)) (d + Z.of_nat L) x) with false by (symmetry; apply inb_false; lia). reflexivity.
Qed.

(* ================= strremovews_s ================= *)
(* the backward strip: R blanks going down from p (R <= n), then a non-blank or the start of the string *)
Lemma strip_back_wp (Q : Z -> mem -> Prop) : forall R n p m,
  (R <= n)%nat -> (forall j, 0 <= j < Z.of_nat R -> is_ws (m (p - j)) = true) ->
  (R = n \/ is_ws (m (p - Z.of_nat R)) = false) ->
  (forall m', (forall x, m' x = if inb (p - Z.of_nat R + 1) (p + 1) x then 0 else m x) -> Q EOK m') ->
  wp (strip_back n p) m Q.
Proof.
  induction R as [|R IH]; intros n p m Hn Hws Hend HQ.
  - destruct n as [|n]; cbn [strip_back wp].
    + apply HQ. intros x. replace (inb (p - Z.of_nat 0 + 1) (p + 1) x) with false by (symmetry; apply inb_false; cbn; lia). reflexivity.
    + rewrite load1. destruct Hend as [He|He]; [discriminate He|]. cbn in He. rewrite Z.sub_0_r in He. rewrite He. cbn [wp].
      apply HQ. intros x. replace (inb (p - Z.of_nat 0 + 1) (p + 1) x) with false by (symmetry; apply inb_false; cbn; lia). reflexivity.
  - destruct n as [|n]; [lia|]. cbn [strip_back wp]. rewrite load1. pose proof (Hws 0 ltac:(lia)) as H0. rewrite Z.sub_0_r in H0. rewrite H0. cbn [wp].
    apply (IH n (p - 1) (store m 1 p 0)); [lia| | |].
    + intros j Hj. rewrite store_out by lia. replace (p - 1 - j) with (p - (j + 1)) by lia. apply Hws. lia.
    + destruct Hend as [He|He]; [left; lia|right]. rewrite store_out by lia. replace (p - 1 - Z.of_nat R) with (p - Z.of_nat (S R)) by lia. exact He.
    + intros m' Hm'. apply HQ. intros x. rewrite Hm'. rewrite Nat2Z.inj_succ.
      destruct (Z.eq_dec x p) as [->|Nx].
      * replace (inb (p - 1 - Z.of_nat R + 1) (p - 1 + 1) p) with false by (symmetry; apply inb_false; lia).
        replace (inb (p - Z.succ (Z.of_nat R) + 1) (p + 1) p) with true by (symmetry; apply inb_spec; lia).
        rewrite store1_in. reflexivity.
      * rewrite store_out by lia.
        replace (inb (p - Z.succ (Z.of_nat R) + 1) (p + 1) x) with (inb (p - 1 - Z.of_nat R + 1) (p - 1 + 1) x); [reflexivity|].
        destruct (inb (p - 1 - Z.of_nat R + 1) (p - 1 + 1) x) eqn:E; symmetry; [apply inb_spec in E; apply inb_spec; lia|apply inb_false in E; apply inb_false; lia].
Qed.

(* the result: the characters between the K leading and the T trailing blanks moved to the front, zeros behind them up to
   the old terminator; for a string of blanks only (K = L) everything is zero.  Nothing outside dest[0 .. L) changes. *)
Definition removews_post (m : mem) (d : Z) (L K T : nat) (m' : mem) : Prop :=
  forall x, m' x = if inb d (d + Z.of_nat (L - K - T)) x then m (x + Z.of_nat K)
                   else if inb d (d + Z.of_nat L) x then 0 else m x.

Theorem strremovews_s_spec c d dmax m L K T : wf_mem m -> d <> 0 -> 2 <= dmax <= rmax_str c ->
  (1 <= L)%nat -> Z.of_nat L <= dmax -> cstr m d L -> blanks m d K ->
  (* T trailing blanks in front of the terminator, preceded by a non-blank (when the string is not blank throughout) *)
  ((K = L /\ T = O) \/ ((K + T < L)%nat /\ (forall j, 0 <= j < Z.of_nat T -> is_ws (m (d + Z.of_nat L - 1 - j)) = true) /\
                        is_ws (m (d + Z.of_nat L - 1 - Z.of_nat T)) = false)) ->
  wp (strremovews_s c d dmax BOS_UNKNOWN) m (fun r m' => r = EOK /\ removews_post m d L K T m').
Proof.
  intros Hwf Hd Hm HL HLd Hs Hb HT. pose proof (blanks_le m d K L Hb Hs) as HKL.
  unfold strremovews_s, chk_dest_plain.
  replace (d =? 0) with false by lia. replace (dmax =? 0) with false by lia. rewrite Z.eqb_refl.
  replace (rmax_str c <? dmax) with false by lia. cbn [wp]. rewrite load1.
  assert (Hd0 : m d <> 0). { destruct Hs as [Hs _]. specialize (Hs 0 ltac:(lia)). now rewrite Z.add_0_r in Hs. }
  apply Z.eqb_neq in Hd0. rewrite Hd0. replace (dmax <=? 1) with false by lia. cbn [orb].
  apply (term_scan_wp d dmax _ _ L); auto; [lia|].
  apply (skip_ws_wp _ _ K); auto; [lia|].
  replace (Z.to_nat (d + Z.of_nat L - d)) with L by lia.
  apply wp_bind.
  destruct HT as [[-> ->]|(HKT & Htr & Hnb)].
  - (* blanks only: no shift, the strip clears all L of them and stops at the start of dest *)
    destruct (d + Z.of_nat L =? d) eqn:E; [apply Z.eqb_eq in E; lia|]. cbn [wp]. rewrite load1.
    destruct Hs as [Hs1 Hs2]. rewrite Hs2. cbn [Z.eqb wp].
    apply (strip_back_wp _ L); [lia| |left; reflexivity|].
    + intros j Hj. destruct Hb as [Hb _]. replace (d + Z.of_nat L - 1 - j) with (d + (Z.of_nat L - 1 - j)) by lia. apply Hb. lia.
    + intros m' Hm'. split; [reflexivity|]. intros x. rewrite Hm'. replace (L - L - 0)%nat with O by lia. cbn [Z.of_nat]. rewrite Z.add_0_r.
      replace (inb d d x) with false by (symmetry; apply inb_false; lia).
      replace (inb (d + Z.of_nat L - 1 - Z.of_nat L + 1) (d + Z.of_nat L - 1 + 1) x) with (inb d (d + Z.of_nat L) x); [reflexivity|].
      f_equal; lia.
  - destruct K as [|K].
    + (* no leading blanks: only the trailing ones are cleared *)
      cbn [Z.of_nat]. rewrite Z.add_0_r, Z.eqb_refl. cbn [wp].
      apply (strip_back_wp _ T); [lia| | |].
      * intros j Hj. apply Htr. exact Hj.
      * right. exact Hnb.
      * intros m' Hm'. split; [reflexivity|]. intros x. rewrite Hm'. cbn [Z.of_nat]. rewrite Z.add_0_r. replace (L - 0 - T)%nat with (L - T)%nat by lia.
        destruct (inb d (d + Z.of_nat (L - T)) x) eqn:E1.
        -- apply inb_spec in E1. replace (inb (d + Z.of_nat L - 1 - Z.of_nat T + 1) (d + Z.of_nat L - 1 + 1) x) with false by (symmetry; apply inb_false; lia). reflexivity.
        -- apply inb_false in E1. destruct (inb d (d + Z.of_nat L) x) eqn:E2.
           ++ apply inb_spec in E2. replace (inb (d + Z.of_nat L - 1 - Z.of_nat T + 1) (d + Z.of_nat L - 1 + 1) x) with true by (symmetry; apply inb_spec; lia). reflexivity.
           ++ apply inb_false in E2. replace (inb (d + Z.of_nat L - 1 - Z.of_nat T + 1) (d + Z.of_nat L - 1 + 1) x) with false by (symmetry; apply inb_false; lia). reflexivity.
    + (* leading blanks: shift, then the strip clears the K vacated places and the T trailing blanks that moved *)
      replace (d + Z.of_nat (S K) =? d) with false by (symmetry; apply Z.eqb_neq; lia). cbn [wp]. rewrite load1.
      assert (Hpk : m (d + Z.of_nat (S K)) <> 0). { destruct Hs as [Hs1 _]. apply Hs1. lia. }
      apply Z.eqb_neq in Hpk. rewrite Hpk. apply wp_bind.
      apply (shift_left_wp _ _ (L - S K)); auto; try lia.
      * destruct Hs as [Hs1 Hs2]. split.
        -- intros j Hj. replace (d + Z.of_nat (S K) + j) with (d + (Z.of_nat (S K) + j)) by lia. apply Hs1. lia.
        -- replace (d + Z.of_nat (S K) + Z.of_nat (L - S K)) with (d + Z.of_nat L) by lia. exact Hs2.
      * intros m1 Hsh. cbn [wp].
        replace (d + Z.of_nat (S K) + Z.of_nat (L - S K)) with (d + Z.of_nat L) by lia.
        set (m2 := store m1 1 (d + Z.of_nat L) 0).
        assert (Hm2 : forall x, m2 x = if inb d (d + Z.of_nat (L - S K)) x then m (x + Z.of_nat (S K))
                                       else if inb (d + Z.of_nat (S K)) (d + Z.of_nat L) x then 32 else m x).
        { intros x. subst m2. destruct (Z.eq_dec x (d + Z.of_nat L)) as [->|Nx].
          - rewrite store1_in. replace (inb d (d + Z.of_nat (L - S K)) (d + Z.of_nat L)) with false by (symmetry; apply inb_false; lia).
            replace (inb (d + Z.of_nat (S K)) (d + Z.of_nat L) (d + Z.of_nat L)) with false by (symmetry; apply inb_false; lia).
            destruct Hs as [_ Hs2]. rewrite Hs2. reflexivity.
          - rewrite store_out by lia. rewrite Hsh. replace (d + Z.of_nat (S K) + Z.of_nat (L - S K)) with (d + Z.of_nat L) by lia.
            destruct (inb d (d + Z.of_nat (L - S K)) x); [f_equal; lia|reflexivity]. }
        (* every place from L-K-T to L-1 holds a blank in m2 *)
        assert (Hblank : forall j, 0 <= j < Z.of_nat (S K + T) -> is_ws (m2 (d + Z.of_nat L - 1 - j)) = true).
        { intros j Hj. rewrite Hm2. set (x := d + Z.of_nat L - 1 - j).
          destruct (inb d (d + Z.of_nat (L - S K)) x) eqn:E1.
          - apply inb_spec in E1. subst x. replace (d + Z.of_nat L - 1 - j + Z.of_nat (S K)) with (d + Z.of_nat L - 1 - (j - Z.of_nat (S K))) by lia. apply Htr. lia.
          - apply inb_false in E1. destruct (inb (d + Z.of_nat (S K)) (d + Z.of_nat L) x) eqn:E2; [reflexivity|].
            apply inb_false in E2. subst x. destruct Hb as [Hb _]. replace (d + Z.of_nat L - 1 - j) with (d + (Z.of_nat L - 1 - j)) by lia. apply Hb. lia. }
        apply (strip_back_wp _ (S K + T)); [lia|exact Hblank| |].
        -- right. rewrite Hm2. set (x := d + Z.of_nat L - 1 - Z.of_nat (S K + T)).
           replace (inb d (d + Z.of_nat (L - S K)) x) with true by (symmetry; apply inb_spec; subst x; lia).
           subst x. replace (d + Z.of_nat L - 1 - Z.of_nat (S K + T) + Z.of_nat (S K)) with (d + Z.of_nat L - 1 - Z.of_nat T) by lia. exact Hnb.
        -- intros m' Hm'. split; [reflexivity|]. intros x. rewrite Hm', Hm2.
           destruct (inb d (d + Z.of_nat (L - S K - T)) x) eqn:E1.
           ++ apply inb_spec in E1. replace (inb (d + Z.of_nat L - 1 - Z.of_nat (S K + T) + 1) (d + Z.of_nat L - 1 + 1) x) with false by (symmetry; apply inb_false; lia).
              replace (inb d (d + Z.of_nat (L - S K)) x) with true by (symmetry; apply inb_spec; lia). reflexivity.
           ++ apply inb_false in E1. destruct (inb d (d + Z.of_nat L) x) eqn:E2.
              ** apply inb_spec in E2. replace (inb (d + Z.of_nat L - 1 - Z.of_nat (S K + T) + 1) (d + Z.of_nat L - 1 + 1) x) with true by (symmetry; apply inb_spec; lia). reflexivity.
              ** apply inb_false in E2. replace (inb (d + Z.of_nat L - 1 - Z.of_nat (S K + T) + 1) (d + Z.of_nat L - 1 + 1) x) with false by (symmetry; apply inb_false; lia).
                 replace (inb d (d + Z.of_nat (L - S K)) x) with false by (symmetry; apply inb_false; lia).
                 replace (inb (d + Z.of_nat (S K)) (d + Z.of_nat L) x) with false by (symmetry; apply inb_false; lia). reflexivity.
Qed.

Lemma removews_post_frame m d L K T m' : removews_post m d L K T m' -> forall x, ~ (d <= x < d + Z.of_nat L) -> m' x = m x.
Proof.
  intros H x Hx. rewrite H. replace (inb d (d + Z.of_nat (L - K - T)) x) with false by (symmetry; apply inb_false; lia).
  replace (inb d (d + Z.of_nat L) x) with false by (symmetry; apply inb_false; lia). reflexivity.
Qed.
