(* UniCheck.v -- C17: the library's lookup graphs (Gen/UniTables.v) against the UCD reference graphs, decided by
   computation over the finite tables; instantiation of the model with the library's graphs. *)
From Coq Require Import List ZArith Bool Lia FMapPositive.
From SC Require Import UniNorm UniProofs.
From SC.Gen Require Import UniTables.
Import ListNotations.
Local Open Scope Z_scope.

Definition TI : tables := build impl_decomp impl_ccc impl_compose impl_excl.      (* what the code does *)
Definition TR : tables := build ref_decomp ref_ccc ref_compose [].                (* UCD 14.0.0 *)

(* code points whose table entry is a recorded finding (known_findings.jsonl: norm-037e-no-decomposition) *)
Definition known_decomp_gaps : list Z := [0x37E].
Definition exempt (c : Z) : bool := mem c newer_than_ref.

(* every entry of one graph is the other graph's lookup, both ways, outside the exempt code points *)
Definition decomp_agree (gaps : list Z) : bool :=
  forallb (fun kv => exempt (fst kv) || list_eqb (decomp TR (fst kv)) (snd kv)) impl_decomp &&
  forallb (fun kv => mem (fst kv) gaps || list_eqb (decomp TI (fst kv)) (snd kv)) ref_decomp.
Definition ccc_agree : bool :=
  forallb (fun kv => exempt (fst kv) || (ccc TR (fst kv) =? snd kv)) impl_ccc &&
  forallb (fun kv => ccc TI (fst kv) =? snd kv) ref_ccc.
Definition opt_eqb (a b : option Z) := match a, b with Some x, Some y => x =? y | None, None => true | _, _ => false end.
Definition compose_agree : bool :=
  forallb (fun e => let a := fst (fst e) in let b := snd (fst e) in
                    exempt a || exempt b || exempt (snd e) || opt_eqb (compose2 TR a b) (compose2 TI a b)) impl_compose &&
  forallb (fun e => opt_eqb (compose2 TI (fst (fst e)) (snd (fst e))) (Some (snd e))) ref_compose.
(* folding: towfc_s emits max(iswfc, 1) characters *)
Definition fold_agree : bool := forallb (fun e => snd e =? Z.max (snd (fst e)) 1) impl_fold.
(* Hangul through the whole model: NFD is the arithmetic decomposition, NFC of it is the syllable, NFC leaves the syllable alone *)
Definition hangul_all : bool :=
  forallb (fun i => let s := SBase + Z.of_nat i in
                    list_eqb (nfd TI [s]) (hangul_decomp s) && list_eqb (nfc TI (hangul_decomp s)) [s] && list_eqb (nfc TI [s]) [s])
          (seq 0 (Z.to_nat 11172)).
(* every table entry: NFC(NFD(c)) is what the reference gives, NFD twice = once, NFC twice = once *)
Definition singles_all : bool :=
  forallb (fun kv => let c := fst kv in
     exempt c || (list_eqb (nfd TI (nfd TI [c])) (nfd TI [c]) && list_eqb (nfc TI (nfc TI [c])) (nfc TI [c])
                  && (mem c known_decomp_gaps || (list_eqb (nfd TI [c]) (nfd TR [c]) && list_eqb (nfc TI [c]) (nfc TR [c])))))
    ref_decomp.
Definition closed_impl : bool := closed TI impl_decomp.
(* every composing pair of the reference: the model with the library's graphs composes it to the primary composite *)
Definition pairs_all : bool :=
  forallb (fun e => list_eqb (nfc TI [fst (fst e); snd (fst e)]) [snd e]) ref_compose.
