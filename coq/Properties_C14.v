(* Properties_C14.v -- C14: tokenising (placeholder theorems; the refinement proof is in progress). *)
From Coq Require Import List ZArith Lia Bool.
From SC Require Import Base Cfg Comb ModTok.
From SC.Gen Require Import Consts.
Local Open Scope Z_scope.
Theorem C14_cfg_repo_wf : wf_cfg cfg_repo.
Proof. exact wf_cfg_repo. Qed.
Print Assumptions C14_cfg_repo_wf.
