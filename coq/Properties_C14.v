(* Properties_C14.v -- C14: tokenising.  Only theorem statements, each closed by [exact].
   Proved so far: store footprint of every call (only *ptr, *dmaxp and the string, up to and including the
   element at index dmax -- the latter is the known finding tok-unterminated-writes-dest-dmax), and the
   handler discipline of every call.  The token-sequence refinement to the reference tokeniser is covered by
   the correspondence run (exhaustive small strings x delimiter schedules) and is the next proof target. *)
From Coq Require Import List ZArith Lia Bool.
From SC Require Import Base Wp Cfg Comb CombProofs ModTok ProofsTok PropDefs.
From SC.Gen Require Import Consts.
Import ListNotations.
Local Open Scope Z_scope.

Theorem C14_tokskip_stores : forall c w wide dmaxp ptr delim n d, 0 < w ->
  C01_holds (tokP w dmaxp ptr d n) (tokskip c w wide dmaxp ptr delim n d).
Proof. intros. apply C01_from_writes. exact (tokskip_writes c w wide dmaxp ptr delim H n d). Qed.
Print Assumptions C14_tokskip_stores.
Theorem C14_tokend_stores : forall c w dmaxp ptr delim n d tok, 0 < w ->
  C01_holds (tokP w dmaxp ptr d n) (tokend c w dmaxp ptr delim n d tok).
Proof. intros. apply C01_from_writes. exact (tokend_writes c w dmaxp ptr delim H n d tok). Qed.
Print Assumptions C14_tokend_stores.
Theorem C14_strtok_s_reports : forall c dest dmaxp delim ptr destbos, hspec tok_report [] (strtok_s c dest dmaxp delim ptr destbos).
Proof. exact strtok_s_report. Qed.
Print Assumptions C14_strtok_s_reports.
Theorem C14_wcstok_s_reports : forall c dest dmaxp delim ptr destbos, hspec tok_report [] (wcstok_s c dest dmaxp delim ptr destbos).
Proof. exact wcstok_s_report. Qed.
Print Assumptions C14_wcstok_s_reports.
Theorem C14_cfg_repo_wf : wf_cfg cfg_repo.
Proof. exact wf_cfg_repo. Qed.
(* non-vacuity / regression: "a,b" with delimiter "," yields a, b, then null pointers *)
Example C14_example :
  let m := fun a => if a =? 1000 then 97 else if a =? 1001 then 44 else if a =? 1002 then 98 else
                    if a =? 2000 then 44 else if a =? 2024 then 44 else if a =? 2048 then 44 else if a =? 2072 then 44 else 0 in
  fst (fst (exec (strtok_seq cfg_default 1000 4 4 2000 3000 BOS_UNKNOWN) m)) = [0; 2; 2; 2; 1; 3; -1; 1; 3; -1; 1; 3].
Proof. vm_compute. reflexivity. Qed.
