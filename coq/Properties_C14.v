(* Properties_C14.v -- C14: tokenising.  Only theorem statements, each closed by [exact].
   Proved so far: store footprint of every call (only *ptr, *dmaxp and the string, up to and including the
   element at index dmax -- the latter is the known finding tok-unterminated-writes-dest-dmax), and the
   handler discipline of every call; and (C14_strtok_s_sequence, C14_wcstok_s_sequence) the functional statement:
   a call sequence on a terminated string with dmax > strlen, one non-empty delimiter list (<= STRTOK_DELIM_MAX_LEN) per
   call, returns exactly the reference sequence SpecTok.ref_seq -- every returned token is a terminated string inside
   [str, str+dmax), after the tokens NULL is returned forever, and no byte changes outside *ptr, *dmaxp and the
   non-terminator elements of the string (only consumed delimiters are overwritten, see ProofsTokSeq.tok_post);
   C14_ref_seq_is_tokens identifies the per-call reference with the textbook "maximal delimiter-free substrings"
   when the delimiter set is constant.  Excluded by the hypotheses (known findings): empty delimiter list,
   unterminated string, dmax = strlen exactly (the call after the last token then reports ESZEROL). *)
From Coq Require Import List ZArith Lia Bool.
From SC Require Import Base Wp Cfg Comb CombProofs ModTok ProofsTok PropDefs SpecTok ProofsTokSeq ProofsTokReads.
From SC.Gen Require Import Consts.
Import ListNotations.
Local Open Scope Z_scope.

Theorem C14_tokskip_stores : forall c w wide dmaxp ptr delim n d, 0 < w ->
  C01_holds (tokP w dmaxp ptr d n) (tokskip c w wide dmaxp ptr delim n d).
Proof. intros. apply C01_from_writes. exact (tokskip_writes c w wide dmaxp ptr delim H n d). Qed.
Print Assumptions C14_tokskip_stores.
Theorem C14_tokend_stores : forall c w dmaxp ptr delim n d tok, 0 < w ->
  C01_holds (tokP w dmaxp ptr d n) (tokend c w dmaxp ptr delim n d tok).
Proof. intros. apply C01_from_writes. exact (tokend_writes c w dmaxp ptr delim H n d tok). Qed.
Print Assumptions C14_tokend_stores.
Theorem C14_strtok_s_reports : forall c dest dmaxp delim ptr destbos, hspec tok_report [] (strtok_s c dest dmaxp delim ptr destbos).
Proof. exact strtok_s_report. Qed.
Print Assumptions C14_strtok_s_reports.
Theorem C14_wcstok_s_reports : forall c dest dmaxp delim ptr destbos, hspec tok_report [] (wcstok_s c dest dmaxp delim ptr destbos).
Proof. exact wcstok_s_report. Qed.
Print Assumptions C14_wcstok_s_reports.
Theorem C14_cfg_repo_wf : wf_cfg cfg_repo.
Proof. exact wf_cfg_repo. Qed.
(* non-vacuity / regression: "a,b" with delimiter "," yields a, b, then null pointers *)
Example C14_example :
  let m := fun a => if a =? 1000 then 97 else if a =? 1001 then 44 else if a =? 1002 then 98 else
                    if a =? 2000 then 44 else if a =? 2024 then 44 else if a =? 2048 then 44 else if a =? 2072 then 44 else 0 in
  fst (fst (exec (strtok_seq cfg_default 1000 4 4 2000 3000 BOS_UNKNOWN) m)) = [0; 2; 2; 2; 1; 3; -1; 1; 3; -1; 1; 3].
Proof. vm_compute. reflexivity. Qed.

(* ---- functional statement: the call sequence is the reference sequence ---- *)
Theorem C14_strtok_s_sequence : forall c dmaxp ptr lo hi nmax bos,
  0 < lo -> hi < 256 ^ 8 -> (ptr + 8 <= lo \/ hi <= ptr) -> (dmaxp + 8 <= lo \/ hi <= dmaxp) ->
  (ptr + 8 <= dmaxp \/ dmaxp + 8 <= ptr) -> ptr <> 0 -> dmaxp <> 0 ->
  nmax <= rmax_str c -> (bos = BOS_UNKNOWN \/ nmax <= bos) ->
  forall dps m p n s,
  Forall (delim_ok 1 dmaxp ptr lo hi (tok_delim_max c) m) dps ->
  tok_state0 1 dmaxp lo hi nmax m p n s ->
  wp (strtok_calls c dmaxp ptr bos p (map fst dps)) m (fun rs m' =>
    (forall x, ~ cell ptr x -> ~ cell dmaxp x -> ~ (p <= x < p + zlen s * 1) -> m' x = m x) /\
    Forall2 (tok_res 1 hi m' p) rs (ref_seq (map snd dps) s)).
Proof. exact strtok_s_sequence. Qed.
Print Assumptions C14_strtok_s_sequence.
Theorem C14_wcstok_s_sequence : forall c dmaxp ptr lo hi nmax bos,
  0 < lo -> hi < 256 ^ 8 -> (ptr + 8 <= lo \/ hi <= ptr) -> (dmaxp + 8 <= lo \/ hi <= dmaxp) ->
  (ptr + 8 <= dmaxp \/ dmaxp + 8 <= ptr) -> ptr <> 0 -> dmaxp <> 0 ->
  0 < wchar_w c -> nmax <= rmax_wstr c -> (bos = BOS_UNKNOWN \/ nmax * wchar_w c <= bos) ->
  forall dps m p n s,
  Forall (delim_ok (wchar_w c) dmaxp ptr lo hi (tok_delim_max c) m) dps ->
  tok_state0 (wchar_w c) dmaxp lo hi nmax m p n s ->
  wp (wcstok_calls c dmaxp ptr bos p (map fst dps)) m (fun rs m' =>
    (forall x, ~ cell ptr x -> ~ cell dmaxp x -> ~ (p <= x < p + zlen s * wchar_w c) -> m' x = m x) /\
    Forall2 (tok_res (wchar_w c) hi m' p) rs (ref_seq (map snd dps) s)).
Proof. exact wcstok_s_sequence. Qed.
Print Assumptions C14_wcstok_s_sequence.
(* one call: result, terminated token inside the buffer, the caller state for the next call
   (p' + n' elements end exactly at the original end: the remaining length never reaches past dmax) *)
Theorem C14_tok_call : forall c w wide dmaxp ptr, 0 < w -> forall lo hi, 0 <= lo -> hi < 256 ^ 8 ->
  (ptr + 8 <= lo \/ hi <= ptr) -> (dmaxp + 8 <= lo \/ hi <= dmaxp) -> (ptr + 8 <= dmaxp \/ dmaxp + 8 <= ptr) ->
  forall nmax dl delim m p n s,
  chars_ok dl -> (length dl <= Z.to_nat (tok_delim_max c))%nat -> nonempty dl = true ->
  str_at w m delim dl -> tok_state0 w dmaxp lo hi nmax m p n s ->
  wp (tokskip c w wide dmaxp ptr delim n p) m (tok_post w dmaxp ptr lo hi nmax dl m p n s).
Proof. exact tok_call_spec. Qed.
Print Assumptions C14_tok_call.
Theorem C14_ref_seq_is_tokens : forall dl k s, (length (tokens dl s) <= k)%nat ->
  ref_seq (repeat dl k) s = map Some (tokens dl s) ++ repeat None (k - length (tokens dl s)).
Proof. exact ref_seq_const. Qed.
Print Assumptions C14_ref_seq_is_tokens.
Theorem C14_sequence_constant_delims : forall w hi m' p dl k s rs, (length (tokens dl s) <= k)%nat ->
  Forall2 (tok_res w hi m' p) rs (ref_seq (repeat dl k) s) ->
  exists toks nulls, rs = toks ++ nulls /\
    Forall2 (fun r tok => p <= r /\ r + (zlen tok + 1) * w <= hi /\ str_at w m' r tok) toks (tokens dl s) /\
    Forall (fun r => r = 0) nulls /\ length nulls = (k - length (tokens dl s))%nat.
Proof. exact Forall2_tok_res_const. Qed.
Print Assumptions C14_sequence_constant_delims.
(* C02 for the tokeniser: on a terminated string a continuation call loads only the two cells, the rest of the string with its
   terminator and the delimiter list with its terminator -- nothing at or beyond the original dest[dmax] *)
Theorem C14_strtok_s_reads : forall c dmaxp ptr delim dl bos m p n s,
  dmaxp <> 0 -> ptr <> 0 -> delim <> 0 -> p <> 0 -> chars_ok dl -> (length dl <= Z.to_nat (tok_delim_max c))%nat ->
  str_at 1 m delim dl -> str_at 1 m p s -> chars_ok s -> (length s < n)%nat ->
  load m 8 dmaxp = Z.of_nat n -> load m 8 ptr = p -> Z.of_nat n <= rmax_str c ->
  reads_ok (fun x => dmaxp <= x < dmaxp + 8 \/ ptr <= x < ptr + 8 \/ p <= x < p + (zlen s + 1) \/ delim <= x < delim + (zlen dl + 1))
           (strtok_s c 0 dmaxp delim ptr bos) m.
Proof. exact strtok_s_next_reads. Qed.
Print Assumptions C14_strtok_s_reads.
(* the hypotheses are satisfiable: "a,b" at 1000 with dmax 4, *dmaxp at 3000, *ptr at 3008, "," at 2000 *)
Example C14_sequence_hyps_satisfiable :
  let m := fun a => if a =? 1000 then 97 else if a =? 1001 then 44 else if a =? 1002 then 98 else
                    if a =? 2000 then 44 else if a =? 3000 then 4 else 0 in
  tok_state0 1 3000 1000 1004 4096 m 1000 4 [97; 44; 98] /\ delim_ok 1 3000 3008 1000 1004 16 m (2000, [44]) /\
  tokens [44] [97; 44; 98] = [[97]; [98]].
Proof.
  cbv zeta. split; [|split].
  - constructor; try (vm_compute; (reflexivity || discriminate || lia)).
    + split; [intros [|[|[|j]]] Hj; try reflexivity; cbn in Hj; lia|reflexivity].
    + repeat constructor; discriminate.
  - unfold delim_ok, zlen. cbn [fst snd length]. repeat split; try (vm_compute; (reflexivity || discriminate || lia)); try lia.
    + repeat constructor; discriminate.
    + intros [|j] Hj; [reflexivity|cbn in Hj; lia].
  - reflexivity.
Qed.
