(* ProofsConv.v -- write footprints of the conversion wrappers (C01 / C15): with the C library's converters modelled as
   storing as many elements as they are asked for (ModConv.v), every store of mbstowcs_s, wcstombs_s, wcrtomb_s and wctomb_s
   lies inside dest[0 .. dmax) or the result cell -- for every source, every len (in particular len > dmax), both locales
   and both configurations.  This is the statement the four "never let the C library store more than dmax" repairs establish. *)
From Coq Require Import List ZArith Lia Bool.
From SC Require Import Base Wp Cfg Comb CombProofs Utf8 ModConv.
Import ListNotations.
Local Open Scope Z_scope.
Local Open Scope prog_scope.

Definition convP (dest dsz retvalp rsz : Z) : Z -> Prop := fun a => ext dest dsz a \/ ext retvalp rsz a.

Lemma store_bytes_writes (P : Z -> Prop) l : forall p k, (forall a, ext p (Z.of_nat (length l)) a -> P a) ->
  writes_in P k -> writes_in P (store_bytes p l k).
Proof.
  induction l as [|b l IH]; intros p k HP Hk; cbn [store_bytes]; [exact Hk|]. cbn [writes_in]. cbn [length] in HP. rewrite Nat2Z.inj_succ in HP. split.
  - intros x Hx. apply HP. unfold ext. lia.
  - apply IH; [|exact Hk]. intros a Ha. apply HP. unfold ext in *. lia.
Qed.

Lemma mb_dec_writes (P : Z -> Prop) utf8 p k : (forall r, writes_in P (k r)) -> writes_in P (mb_dec utf8 p k).
Proof.
  intros Hk. unfold mb_dec. cbn [writes_in]. intros b0. destruct (negb utf8); [apply Hk|].
  destruct (b0 <? 128); [apply Hk|]. destruct (b0 <? 194); [apply Hk|]. cbn [writes_in]. intros b1.
  destruct (negb (is_cont b1)); [apply Hk|]. destruct (b0 <? 224); [apply Hk|]. cbn [writes_in]. intros b2.
  destruct (negb (is_cont b2)); [apply Hk|]. destruct (b0 <? 240); [apply Hk|]. destruct (negb (b0 <? 248)); [apply Hk|].
  cbn [writes_in]. intros b3. apply Hk.
Qed.

(* the C library's mbstowcs: stores elements cnt .. cnt+n-1 at most; returns a count in [cnt, cnt+n] or (size_t)-1 *)
Lemma mbstowcs_loop_writes (P : Z -> Prop) utf8 w n : 0 < w -> forall dest src cnt, 0 <= cnt ->
  (dest <> 0 -> forall a, ext dest ((cnt + Z.of_nat n) * w) a -> P a) ->
  writes_in P (mbstowcs_loop utf8 w n dest src cnt).
Proof.
  intros Hw. induction n as [|n IH]; intros dest src cnt Hc HP; cbn [mbstowcs_loop]; [exact I|].
  apply mb_dec_writes. intros [[cp l]|]; [|exact I]. rewrite Nat2Z.inj_succ in HP.
  destruct (dest =? 0) eqn:Ed.
  - destruct (cp =? 0); [exact I|]. apply IH; [lia|]. intros Hd. apply Z.eqb_eq in Ed. contradiction.
  - apply Z.eqb_neq in Ed. cbn [writes_in]. split.
    + intros x Hx. apply HP; auto. unfold ext. nia.
    + destruct (cp =? 0); [exact I|]. apply IH; [lia|]. intros _ a Ha. apply HP; auto. unfold ext in *. nia.
Qed.
Lemma mb_dec_rets (Q : Z -> Prop) utf8 p k : (forall r, rets Q (k r)) -> rets Q (mb_dec utf8 p k).
Proof.
  intros Hk. unfold mb_dec. cbn [rets]. intros b0. destruct (negb utf8); [apply Hk|].
  destruct (b0 <? 128); [apply Hk|]. destruct (b0 <? 194); [apply Hk|]. cbn [rets]. intros b1.
  destruct (negb (is_cont b1)); [apply Hk|]. destruct (b0 <? 224); [apply Hk|]. cbn [rets]. intros b2.
  destruct (negb (is_cont b2)); [apply Hk|]. destruct (b0 <? 240); [apply Hk|]. destruct (negb (b0 <? 248)); [apply Hk|].
  cbn [rets]. intros b3. apply Hk.
Qed.
Lemma mbstowcs_loop_rets utf8 w n : forall dest src cnt, 0 <= cnt ->
  rets (fun r => 0 <= r) (mbstowcs_loop utf8 w n dest src cnt).
Proof.
  induction n as [|n IH]; intros dest src cnt Hc; cbn [mbstowcs_loop]; [cbn; lia|].
  apply mb_dec_rets. intros [[cp l]|]; [|cbn; unfold SIZE_MAX; lia].
  destruct (dest =? 0); cbn [rets]; (destruct (cp =? 0); [cbn; lia|apply IH; lia]).
Qed.

Lemma he_conv c w dest dmax retvalp rsz code : 0 < w -> 1 <= dmax ->
  writes_in (convP dest (dmax * w) retvalp rsz) (handle_error c w dest dmax code).
Proof. intros Hw Hd. apply handle_error_writes; auto. intros a Ha. left. exact Ha. Qed.

(* the object size, when the library knows it: either it covers both dmax and len elements (the call proceeds), or it is at most
   the declared size (the failing exit clears the object, which then lies inside the declaration).  Excluded: dmax elements fit
   the object but len elements do not -- there the failing exit clears the whole object, beyond dest[dmax): refuted below *)
Definition conv_bos_ok (w dmax len destbos : Z) : Prop :=
  destbos = BOS_UNKNOWN \/ (dmax * w <= destbos /\ len * w <= destbos) \/ w <= destbos <= dmax * w.

Theorem mbstowcs_s_writes c utf8 retvalp dest dmax src len destbos : 0 < wchar_w c -> 0 <= dmax -> 0 <= len ->
  conv_bos_ok (wchar_w c) dmax len destbos ->
  writes_in (convP dest (dmax * wchar_w c) retvalp 8) (mbstowcs_s c utf8 retvalp dest dmax src len destbos).
Proof.
  intros Hw H0 Hl Hb. unfold mbstowcs_s. set (w := wchar_w c) in *.
  destruct (retvalp =? 0); [exact I|]. cbn [writes_in]. split; [intros x Hx; right; exact Hx|].
  assert (HR : range_in (convP dest (dmax * w) retvalp 8) retvalp 8) by (intros x Hx; right; exact Hx).
  destruct (dest =? 0) eqn:Ed.
  - (* size query: nothing but the result cell is stored *)
    apply Z.eqb_eq in Ed. subst dest.
    destruct (src =? 0); [exact I|].
    destruct (0 =? src); [exact I|]. cbn [negb andb].
    eapply writes_in_bind_rets with (Q := fun r => 0 <= r).
    + apply mbstowcs_loop_writes; auto; [lia|]. intros H; contradiction.
    + apply mbstowcs_loop_rets. lia.
    + intros r Hr. cbn [writes_in]. split; [exact HR|]. destruct (r <? dmax); [exact I|]. exact I.
  - pose proof Ed as Ed'. apply Z.eqb_neq in Ed.
    assert (Body : 1 <= dmax -> writes_in (convP dest (dmax * w) retvalp 8)
      (if dest =? src then Ret ESOVRLP
       else r <- mbstowcs_m utf8 w dest src (if negb (dest =? 0) && (dmax <? len) then dmax else len) (rmax_str c + 1) ;;
            Store 8 retvalp r (
              if r <? dmax then (if dest =? 0 then Ret EOK else (if null_slack c then Fill (dest + r * w) ((dmax - r) * w) 0 (Ret EOK) else Store w (dest + r * w) 0 (Ret EOK)))
              else if dest =? 0 then Ret (if r =? SIZE_MAX then EILSEQ else EOK)
              else if rmax_wstr c <? r then handle_error c w dest dmax EILSEQ ;;; Ret EILSEQ
              else handle_error c w dest dmax ESNOSPC ;;; Ret ESNOSPC))).
    { intros H1. destruct (dest =? src); [exact I|].
      replace (dest =? 0) with false by (symmetry; apply Z.eqb_neq; exact Ed). cbn [negb andb].
      eapply writes_in_bind_rets with (Q := fun r => 0 <= r).
      - unfold mbstowcs_m. replace (dest =? 0) with false by (symmetry; apply Z.eqb_neq; exact Ed).
        apply mbstowcs_loop_writes; auto; [lia|]. intros _ a Ha. left. revert Ha. apply ext_sub; [lia|].
        destruct (dmax <? len) eqn:E; [|apply Z.ltb_ge in E]; rewrite Z2Nat.id by lia; nia.
      - apply mbstowcs_loop_rets. lia.
      - intros r Hr. cbn [writes_in]. split; [exact HR|].
        destruct (r <? dmax) eqn:E.
        + apply Z.ltb_lt in E. destruct (null_slack c); cbn [writes_in]; (split; [|exact I]); intros x Hx; left; unfold ext; nia.
        + destruct (rmax_wstr c <? r); (apply writes_in_bind; [apply he_conv; auto|intros; exact I]). }
    destruct (src =? 0).
    { replace (dest =? 0) with false by (symmetry; apply Z.eqb_neq; exact Ed). cbn [orb].
      destruct (dmax =? 0) eqn:Em; [exact I|]. apply Z.eqb_neq in Em. apply writes_in_bind; [apply he_conv; auto; lia|intros; exact I]. }
    destruct (dmax =? 0) eqn:Em; [exact I|]. apply Z.eqb_neq in Em. assert (H1 : 1 <= dmax) by lia.
    destruct (destbos =? BOS_UNKNOWN) eqn:Eb.
    + destruct ((rmax_wstr c <? dmax) || (rmax_wstr c <? len)); [exact I|specialize (Body H1); rewrite Ed' in Body; exact Body].
    + apply Z.eqb_neq in Eb. destruct Hb as [Hb|Hb]; [contradiction|].
      destruct ((destbos <? dmax * w) || (destbos <? len * w)) eqn:Eo; [|specialize (Body H1); rewrite Ed' in Body; exact Body].
      assert (Hle : w <= destbos <= dmax * w).
      { destruct Hb as [[Hb1 Hb2]|Hb]; [|exact Hb]. apply orb_prop in Eo. destruct Eo as [Eo|Eo]; apply Z.ltb_lt in Eo; lia. }
      assert (Hq : 1 <= destbos / w) by (apply Z.div_le_lower_bound; lia).
      assert (Hq2 : destbos / w * w <= destbos) by (rewrite Z.mul_comm; apply Z.mul_div_le; lia).
      destruct ((rmax_wstr c <? dmax) || (rmax_wstr c <? len)); (apply writes_in_bind; [|intros; exact I]);
        apply handle_error_writes; try lia; intros a Ha; left; revert Ha; apply ext_sub; lia.
Qed.

(* the excluded region is a real overrun of the declaration: dmax = 2 elements declared, object of 40 bytes known, len = 20 *)
Lemma mbstowcs_s_bos_len_refuted :
  ~ writes_in (convP 1000 (2 * 4) 5000 8) (mbstowcs_s cfg_default true 5000 1000 2 3000 20 40).
Proof. cbn. intros [_ H]. destruct H as [H _]. specialize (H 1039 ltac:(lia)). unfold convP, ext in H. lia. Qed.

(* ---- wcstombs_s ---- *)
Lemma wcstombs_loop_writes (P : Z -> Prop) utf8 w n : forall dest src len cnt, 0 <= cnt ->
  (dest <> 0 -> forall a, ext dest len a -> P a) ->
  writes_in P (wcstombs_loop utf8 w n dest src len cnt).
Proof.
  induction n as [|n IH]; intros dest src len cnt Hc HP; cbn [wcstombs_loop]; [exact I|].
  cbn [writes_in]. intros wc. destruct (wc =? 0).
  - destruct (dest =? 0) eqn:Ed; cbn [orb]; [exact I|]. apply Z.eqb_neq in Ed.
    destruct (len <=? cnt) eqn:E; [exact I|]. apply Z.leb_gt in E. cbn [writes_in]. split; [|exact I].
    intros x Hx. apply HP; auto. unfold ext. lia.
  - destruct (wc_enc utf8 wc) as [bs|]; [|exact I].
    destruct (dest =? 0) eqn:Ed; cbn [negb andb].
    + apply IH; [lia|]. intros Hd. apply Z.eqb_eq in Ed. contradiction.
    + apply Z.eqb_neq in Ed. destruct (len <? cnt + Z.of_nat (length bs)) eqn:E; [exact I|]. apply Z.ltb_ge in E.
      apply store_bytes_writes.
      * intros a Ha. apply HP; auto. unfold ext in *. lia.
      * apply IH; [lia|exact HP].
Qed.
Lemma wcstombs_loop_rets utf8 w n : forall dest src len cnt, 0 <= cnt ->
  rets (fun r => 0 <= r) (wcstombs_loop utf8 w n dest src len cnt).
Proof.
  induction n as [|n IH]; intros dest src len cnt Hc; cbn [wcstombs_loop]; [cbn; lia|].
  cbn [rets]. intros wc. destruct (wc =? 0).
  - destruct ((dest =? 0) || (len <=? cnt)); cbn; lia.
  - destruct (wc_enc utf8 wc) as [bs|]; [|cbn; unfold SIZE_MAX; lia].
    destruct (negb (dest =? 0) && (len <? cnt + Z.of_nat (length bs))); [cbn; lia|].
    assert (R : rets (fun r => 0 <= r) (wcstombs_loop utf8 w n dest (src + w) len (cnt + Z.of_nat (length bs)))) by (apply IH; lia).
    destruct (dest =? 0); [exact R|]. revert R. generalize (wcstombs_loop utf8 w n dest (src + w) len (cnt + Z.of_nat (length bs))).
    generalize (dest + cnt). induction bs as [|b bs IHb]; intros p q R; cbn [store_bytes rets]; auto.
Qed.

Lemma wcstombs_loop2_writes (P : Z -> Prop) utf8 w n (k : Z -> option Z -> prog Z) : forall dest src len cnt, 0 <= cnt ->
  (forall a, ext dest len a -> P a) -> (forall c' nx, 0 <= c' -> writes_in P (k c' nx)) ->
  writes_in P (wcstombs_loop2 utf8 w n dest src len cnt k).
Proof.
  induction n as [|n IH]; intros dest src len cnt Hc HP Hk; cbn [wcstombs_loop2]; [apply Hk; exact Hc|].
  cbn [writes_in]. intros wc. destruct (wc =? 0).
  - destruct (len <=? cnt) eqn:E; [apply Hk; exact Hc|]. apply Z.leb_gt in E. cbn [writes_in]. split; [|apply Hk; exact Hc].
    intros x Hx. apply HP. unfold ext. lia.
  - destruct (wc_enc utf8 wc) as [bs|]; [|apply Hk; unfold SIZE_MAX; lia].
    destruct (len <? cnt + Z.of_nat (length bs)) eqn:E; [apply Hk; exact Hc|]. apply Z.ltb_ge in E.
    apply store_bytes_writes; [intros a Ha; apply HP; unfold ext in *; lia|]. apply IH; [lia|exact HP|exact Hk].
Qed.

Theorem wcstombs_s_writes c utf8 retvalp dest dmax src len destbos : 0 <= dmax -> 0 <= len ->
  conv_bos_ok 1 dmax len destbos ->
  writes_in (convP dest dmax retvalp 8) (wcstombs_s c utf8 retvalp dest dmax src len destbos).
Proof.
  intros H0 Hl Hb. unfold wcstombs_s. set (w := wchar_w c) in *.
  destruct (retvalp =? 0); [exact I|]. cbn [writes_in]. split; [intros x Hx; right; exact Hx|].
  assert (HR : range_in (convP dest dmax retvalp 8) retvalp 8) by (intros x Hx; right; exact Hx).
  set (finish := fun l : Z =>
          if (0 <? l) && (l <? dmax) then
            (if dest =? 0 then Ret EOK
             else if null_slack c then Fill (dest + l) (dmax - l) 0 (Ret EOK) else Store 1 (dest + l) 0 (Ret EOK))
          else
            let rc := if l <=? rmax_str c then ESNOSPC else EILSEQ in
            if dest =? 0 then Ret rc else handle_error c 1 dest dmax rc ;;; Ret rc).
  assert (Hfin : dest = 0 \/ 1 <= dmax -> forall l, writes_in (convP dest dmax retvalp 8) (finish l)).
  { intros Hd l. unfold finish. destruct ((0 <? l) && (l <? dmax)) eqn:E.
    - apply andb_prop in E. destruct E as [E1 E2]. apply Z.ltb_lt in E1. apply Z.ltb_lt in E2.
      destruct (dest =? 0); [exact I|]. destruct (null_slack c); cbn [writes_in]; (split; [|exact I]); intros x Hx; left; unfold ext; lia.
    - cbv zeta. destruct (dest =? 0) eqn:Ed; [exact I|]. apply Z.eqb_neq in Ed. destruct Hd as [Hd|Hd]; [contradiction|].
      apply writes_in_bind; [|intros; exact I]. apply handle_error_writes; try lia. intros a Ha. left. revert Ha. apply ext_sub; lia. }
  assert (Body : dest = 0 \/ 1 <= dmax -> writes_in (convP dest dmax retvalp 8)
    (if src =? 0 then
       (if dest =? 0 then Ret tt else (if null_slack c then Fill dest dmax 0 (Ret tt) else Store 1 dest 0 (Ret tt))) ;;; fail_str ESNULLP
     else if dest =? src then fail_str ESOVRLP
     else
       if negb (dest =? 0) && (dmax <? len) then
         wcstombs_loop2 utf8 w (Z.to_nat (rmax_str c + 1)) dest src dmax 0 (fun cnt nxt =>
           Store 8 retvalp cnt (finish (match nxt with
                                         | Some cl => if (cnt <? dmax) && (cnt + cl <=? len) then dmax else cnt
                                         | None => cnt
                                         end)))
       else
         l <- wcstombs_m utf8 w dest src len (rmax_str c + 1) ;; Store 8 retvalp l (finish l))).
  { intros Hd. destruct (src =? 0).
    { apply writes_in_bind; [|intros; exact I]. destruct (dest =? 0) eqn:Ed; [exact I|]. apply Z.eqb_neq in Ed. destruct Hd as [Hd|Hd]; [contradiction|].
      destruct (null_slack c); cbn [writes_in]; (split; [|exact I]); intros x Hx; left; unfold ext; lia. }
    destruct (dest =? src); [exact I|].
    destruct (negb (dest =? 0) && (dmax <? len)) eqn:Ec.
    - apply wcstombs_loop2_writes; [lia|intros a Ha; left; exact Ha|].
      intros c' nx Hc'. cbn [writes_in]. split; [exact HR|]. apply Hfin. exact Hd.
    - eapply writes_in_bind_rets with (Q := fun r => 0 <= r).
      + unfold wcstombs_m. apply wcstombs_loop_writes; [lia|]. intros Hne a Ha. left. revert Ha.
        apply ext_sub; [lia|]. replace (dest =? 0) with false in Ec by (symmetry; apply Z.eqb_neq; exact Hne). cbn [negb andb] in Ec. apply Z.ltb_ge in Ec. lia.
      + apply wcstombs_loop_rets. lia.
      + intros l Hl0. cbn [writes_in]. split; [exact HR|]. apply Hfin. exact Hd. }
  destruct (dest =? 0) eqn:Ed; [apply Body; left; apply Z.eqb_eq; exact Ed|].
  destruct (dmax =? 0) eqn:Em; [exact I|]. apply Z.eqb_neq in Em. assert (H1 : 1 <= dmax) by lia.
  destruct (destbos =? BOS_UNKNOWN) eqn:Eb.
  - destruct ((rmax_wstr c <? dmax) || (rmax_wstr c <? len)); [exact I|apply Body; right; exact H1].
  - apply Z.eqb_neq in Eb. destruct Hb as [Hb|Hb]; [contradiction|].
    destruct ((destbos <? dmax) || (destbos <? len)) eqn:Eo; [|apply Body; right; exact H1].
    assert (Hle : 1 <= destbos <= dmax).
    { destruct Hb as [[Hb1 Hb2]|Hb]; [|lia]. apply orb_prop in Eo. destruct Eo as [Eo|Eo]; apply Z.ltb_lt in Eo; lia. }
    destruct ((rmax_wstr c <? dmax) || (rmax_wstr c <? len)); (apply writes_in_bind; [|intros; exact I]);
      apply handle_error_writes; try lia; intros a Ha; left; revert Ha; apply ext_sub; lia.
Qed.

(* ---- wcrtomb_s / wctomb_s: the character is staged in a local buffer and copied only when it fits ---- *)
Lemma chk_c_dest_writes (P : Z -> Prop) c dest dmax destbos k :
  ((dest = 0 \/ 1 <= dmax) -> writes_in P (k tt)) -> 0 <= dmax -> writes_in P (chk_c_dest c dest dmax destbos k).
Proof.
  intros Hk H0. unfold chk_c_dest. destruct (dest =? 0) eqn:Ed.
  - destruct (dmax =? 0); [apply Hk; left; apply Z.eqb_eq; exact Ed|exact I].
  - destruct (dmax =? 0) eqn:Em; [exact I|]. apply Z.eqb_neq in Em.
    destruct (destbos =? BOS_UNKNOWN); [destruct (rmax_wstr c <? dmax); [exact I|apply Hk; right; lia]|].
    destruct (destbos <? dmax); [destruct (rmax_str c <? dmax); exact I|apply Hk; right; lia].
Qed.
Lemma wcx_len_bytes utf8 r dest wc : dest <> 0 -> 0 <= wcx_len utf8 r dest wc < SIZE_MAX ->
  Z.of_nat (length (wcx_bytes utf8 wc)) = wcx_len utf8 r dest wc.
Proof.
  intros Hd. unfold wcx_len, wcx_bytes. replace (dest =? 0) with false by (symmetry; apply Z.eqb_neq; exact Hd).
  destruct (wc_enc utf8 wc) as [bs|]; [reflexivity|]. destruct r; unfold SIZE_MAX; lia.
Qed.

Theorem wcrtomb_s_writes c utf8 retvalp dest dmax wc ps destbos : 0 <= dmax ->
  writes_in (convP dest dmax retvalp 8) (wcrtomb_s c utf8 retvalp dest dmax wc ps destbos).
Proof.
  intros H0. unfold wcrtomb_s. destruct (retvalp =? 0); [exact I|]. destruct (ps =? 0); [exact I|].
  apply chk_c_dest_writes; [|exact H0]. intros Hd. cbn [writes_in]. split; [intros x Hx; right; exact Hx|].
  destruct (wcx_len utf8 true dest wc <? dmax) eqn:E.
  - apply Z.ltb_lt in E. destruct (dest =? 0) eqn:Ed; [exact I|]. apply Z.eqb_neq in Ed. destruct Hd as [Hd|Hd]; [contradiction|].
    assert (Hlen0 : 0 <= wcx_len utf8 true dest wc).
    { unfold wcx_len. replace (dest =? 0) with false by (symmetry; apply Z.eqb_neq; exact Ed). destruct (wc_enc utf8 wc); unfold SIZE_MAX; lia. }
    assert (Hsm : dmax <= SIZE_MAX \/ SIZE_MAX < dmax) by lia.
    assert (Hbytes : Z.of_nat (length (wcx_bytes utf8 wc)) <= wcx_len utf8 true dest wc).
    { unfold wcx_len, wcx_bytes. replace (dest =? 0) with false by (symmetry; apply Z.eqb_neq; exact Ed). destruct (wc_enc utf8 wc); cbn [length]; unfold SIZE_MAX; lia. }
    apply store_bytes_writes; [intros a Ha; left; unfold ext in *; lia|].
    destruct (null_slack c); cbn [writes_in]; (split; [|exact I]); intros x Hx; left; unfold ext; lia.
  - cbv zeta. destruct (dest =? 0) eqn:Ed; [exact I|]. apply Z.eqb_neq in Ed. destruct Hd as [Hd|Hd]; [contradiction|].
    apply writes_in_bind; [|intros; exact I]. apply handle_error_writes; try lia. intros a Ha. left. revert Ha. apply ext_sub; lia.
Qed.

Theorem wctomb_s_writes c utf8 retvalp dest dmax wc destbos : 0 <= dmax ->
  writes_in (convP dest dmax retvalp 4) (wctomb_s c utf8 retvalp dest dmax wc destbos).
Proof.
  intros H0. unfold wctomb_s. destruct (retvalp =? 0); [exact I|].
  apply chk_c_dest_writes; [|exact H0]. intros Hd. cbn [writes_in]. split; [intros x Hx; right; exact Hx|].
  destruct ((0 <? wcx_len utf8 false dest wc) && (wcx_len utf8 false dest wc <? dmax)) eqn:E.
  - apply andb_prop in E. destruct E as [E1 E2]. apply Z.ltb_lt in E1. apply Z.ltb_lt in E2.
    destruct (dest =? 0) eqn:Ed; [exact I|]. apply Z.eqb_neq in Ed.
    assert (Hbytes : Z.of_nat (length (wcx_bytes utf8 wc)) <= wcx_len utf8 false dest wc).
    { unfold wcx_len, wcx_bytes in *. replace (dest =? 0) with false in * by (symmetry; apply Z.eqb_neq; exact Ed). destruct (wc_enc utf8 wc); cbn [length]; lia. }
    apply store_bytes_writes; [intros a Ha; left; unfold ext in *; lia|].
    destruct (null_slack c); cbn [writes_in]; [split; [|exact I]; intros x Hx; left; unfold ext; lia|exact I].
  - cbv zeta. destruct (dest =? 0) eqn:Ed; [exact I|]. apply Z.eqb_neq in Ed. destruct Hd as [Hd|Hd]; [contradiction|].
    apply writes_in_bind; [|intros; exact I]. apply handle_error_writes; try lia. intros a Ha. left. revert Ha. apply ext_sub; lia.
Qed.

(* ================= functional statement for the single-character converters ================= *)
Fixpoint put_bytes (m : mem) (p : Z) (l : list Z) : mem :=
  match l with [] => m | b :: t => put_bytes (store m 1 p b) (p + 1) t end.
Lemma store_bytes_wp l : forall p k m (Q : Z -> mem -> Prop), wp k (put_bytes m p l) Q -> wp (store_bytes p l k) m Q.
Proof. induction l as [|b l IH]; intros p k m Q H; cbn [store_bytes put_bytes wp] in *; [exact H|]. apply IH. exact H. Qed.
Lemma put_bytes_out l : forall m p x, ~ (p <= x < p + Z.of_nat (length l)) -> put_bytes m p l x = m x.
Proof.
  induction l as [|b l IH]; intros m p x Hx; cbn [put_bytes]; [reflexivity|]. cbn [length] in Hx. rewrite Nat2Z.inj_succ in Hx.
  rewrite IH by lia. apply store_out. lia.
Qed.
Lemma put_bytes_in l : forall m p i, (i < length l)%nat -> put_bytes m p l (p + Z.of_nat i) = (nth i l 0) mod 256.
Proof.
  induction l as [|b l IH]; intros m p i Hi; cbn [length] in Hi; [lia|]. cbn [put_bytes]. destruct i as [|i].
  - cbn [Z.of_nat nth]. rewrite Z.add_0_r. rewrite put_bytes_out by lia. apply store1_in.
  - replace (p + Z.of_nat (S i)) with (p + 1 + Z.of_nat i) by lia. cbn [nth]. apply IH. lia.
Qed.

(* wcrtomb_s with a dest: an encodable character whose encoding (n bytes) leaves room (n < dmax) is stored as exactly those
   bytes, *retvalp = n, EOK, and (null-slack) the rest of dest is zero; nothing else changes *)
Theorem wcrtomb_s_spec c utf8 retvalp dest dmax wc ps m bs :
  retvalp <> 0 -> ps <> 0 -> dest <> 0 -> 1 <= dmax <= rmax_wstr c -> dmax < 18446744073709551616 -> wc_enc utf8 wc = Some bs ->
  Z.of_nat (length bs) < dmax -> Forall (fun b => 0 <= b < 256) bs ->
  (retvalp + 8 <= dest \/ dest + dmax <= retvalp) ->
  wp (wcrtomb_s c utf8 retvalp dest dmax wc ps BOS_UNKNOWN) m (fun r m' =>
     r = EOK /\ load m' 8 retvalp = Z.of_nat (length bs) /\
     (forall i, (i < length bs)%nat -> m' (dest + Z.of_nat i) = nth i bs 0) /\
     (null_slack c = true -> forall x, dest + Z.of_nat (length bs) <= x < dest + dmax -> m' x = 0) /\
     (forall x, ~ (dest <= x < dest + dmax) -> ~ (retvalp <= x < retvalp + 8) -> m' x = m x)).
Proof.
  intros Hr Hp Hd Hm Hbig He Hfit Hb Hdisj. unfold wcrtomb_s, chk_c_dest.
  replace (retvalp =? 0) with false by lia. replace (ps =? 0) with false by lia. replace (dest =? 0) with false by lia.
  replace (dmax =? 0) with false by lia. rewrite Z.eqb_refl. replace (rmax_wstr c <? dmax) with false by lia.
  assert (Hlen : wcx_len utf8 true dest wc = Z.of_nat (length bs)). { unfold wcx_len. replace (dest =? 0) with false by lia. rewrite He. reflexivity. }
  assert (Hby : wcx_bytes utf8 wc = bs). { unfold wcx_bytes. rewrite He. reflexivity. }
  rewrite Hlen, Hby. cbn [wp]. replace (Z.of_nat (length bs) <? dmax) with true by lia. replace (dest =? 0) with false by lia.
  apply store_bytes_wp. set (m1 := store m 8 retvalp (Z.of_nat (length bs))). set (m2 := put_bytes m1 dest bs).
  assert (Hm2r : load m2 8 retvalp = Z.of_nat (length bs)).
  { rewrite (load_ext m2 m1). { subst m1. rewrite load_store_same by lia. apply Z.mod_small. change (256 ^ 8) with 18446744073709551616. lia. }
    intros x Hx. subst m2. apply put_bytes_out. lia. }
  assert (Hm2b : forall i, (i < length bs)%nat -> m2 (dest + Z.of_nat i) = nth i bs 0).
  { intros i Hi. subst m2. rewrite put_bytes_in by exact Hi. apply Z.mod_small. rewrite Forall_forall in Hb. apply Hb. apply nth_In. exact Hi. }
  assert (Hm2o : forall x, ~ (dest <= x < dest + dmax) -> ~ (retvalp <= x < retvalp + 8) -> m2 x = m x).
  { intros x H1 H2. subst m2. rewrite put_bytes_out by lia. subst m1. apply store_out. lia. }
  destruct (null_slack c) eqn:Ens; cbn [wp].
  - split; [reflexivity|]. split; [|split; [|split]].
    + rewrite (load_ext _ m2); [exact Hm2r|]. intros x Hx. apply fill_out. lia.
    + intros i Hi. rewrite fill_out by lia. apply Hm2b. exact Hi.
    + intros _ x Hx. apply fill_in. lia.
    + intros x H1 H2. rewrite fill_out by lia. apply Hm2o; assumption.
  - split; [reflexivity|]. split; [|split; [|split]].
    + rewrite (load_ext _ m2); [exact Hm2r|]. intros x Hx. apply store_out. lia.
    + intros i Hi. rewrite store_out by lia. apply Hm2b. exact Hi.
    + discriminate.
    + intros x H1 H2. rewrite store_out by lia. apply Hm2o; assumption.
Qed.

Theorem wctomb_s_spec c utf8 retvalp dest dmax wc m bs :
  retvalp <> 0 -> dest <> 0 -> 1 <= dmax <= rmax_wstr c -> wc_enc utf8 wc = Some bs -> (1 <= length bs)%nat ->
  Z.of_nat (length bs) < dmax -> Z.of_nat (length bs) < 4294967296 -> Forall (fun b => 0 <= b < 256) bs ->
  (retvalp + 4 <= dest \/ dest + dmax <= retvalp) ->
  wp (wctomb_s c utf8 retvalp dest dmax wc BOS_UNKNOWN) m (fun r m' =>
     r = EOK /\ load m' 4 retvalp = Z.of_nat (length bs) /\
     (forall i, (i < length bs)%nat -> m' (dest + Z.of_nat i) = nth i bs 0) /\
     (null_slack c = true -> forall x, dest + Z.of_nat (length bs) <= x < dest + dmax -> m' x = 0) /\
     (forall x, ~ (dest <= x < dest + dmax) -> ~ (retvalp <= x < retvalp + 4) -> m' x = m x)).
Proof.
  intros Hr Hd Hm He Hne Hfit Hbig Hb Hdisj. unfold wctomb_s, chk_c_dest.
  replace (retvalp =? 0) with false by lia. replace (dest =? 0) with false by lia.
  replace (dmax =? 0) with false by lia. rewrite Z.eqb_refl. replace (rmax_wstr c <? dmax) with false by lia.
  assert (Hlen : wcx_len utf8 false dest wc = Z.of_nat (length bs)). { unfold wcx_len. replace (dest =? 0) with false by lia. rewrite He. reflexivity. }
  assert (Hby : wcx_bytes utf8 wc = bs). { unfold wcx_bytes. rewrite He. reflexivity. }
  rewrite Hlen, Hby. cbn [wp]. replace (0 <? Z.of_nat (length bs)) with true by lia. replace (Z.of_nat (length bs) <? dmax) with true by lia.
  cbn [andb]. replace (dest =? 0) with false by lia.
  apply store_bytes_wp. set (m1 := store m 4 retvalp (Z.of_nat (length bs))). set (m2 := put_bytes m1 dest bs).
  assert (Hm2r : load m2 4 retvalp = Z.of_nat (length bs)).
  { rewrite (load_ext m2 m1). { subst m1. rewrite load_store_same by lia. apply Z.mod_small. change (256 ^ 4) with 4294967296. lia. }
    intros x Hx. subst m2. apply put_bytes_out. lia. }
  assert (Hm2b : forall i, (i < length bs)%nat -> m2 (dest + Z.of_nat i) = nth i bs 0).
  { intros i Hi. subst m2. rewrite put_bytes_in by exact Hi. apply Z.mod_small. rewrite Forall_forall in Hb. apply Hb. apply nth_In. exact Hi. }
  assert (Hm2o : forall x, ~ (dest <= x < dest + dmax) -> ~ (retvalp <= x < retvalp + 4) -> m2 x = m x).
  { intros x H1 H2. subst m2. rewrite put_bytes_out by lia. subst m1. apply store_out. lia. }
  destruct (null_slack c) eqn:Ens; cbn [wp].
  - split; [reflexivity|]. split; [|split; [|split]].
    + rewrite (load_ext _ m2); [exact Hm2r|]. intros x Hx. apply fill_out. lia.
    + intros i Hi. rewrite fill_out by lia. apply Hm2b. exact Hi.
    + intros _ x Hx. apply fill_in. lia.
    + intros x H1 H2. rewrite fill_out by lia. apply Hm2o; assumption.
  - split; [reflexivity|]. split; [exact Hm2r|]. split; [exact Hm2b|]. split; [discriminate|exact Hm2o].
Qed.
