(* SortCheck7_5.v -- C16: every key list over {0..6} of length 7 ending in 5 is sorted by the model (by computation). *)
From Coq Require Import List ZArith.
From SC Require Import ModSort ProofsSort.
Import ListNotations.
Local Open Scope Z_scope.
Lemma slice7_5 : all_ok (vals 7) 6 sorts_ok [5] = true.
Proof. vm_compute. reflexivity. Qed.
