(* ProofsSort7.v -- C16, qsort_s: order of the result for arrays of at most 7 elements, for every element
   type, every key function and every comparator that reports the order of the keys. *)
From Coq Require Import List ZArith Lia Bool Permutation.
From SC Require Import ModSort ProofsSort SortCheck7_0 SortCheck7_1 SortCheck7_2 SortCheck7_3 SortCheck7_4 SortCheck7_5 SortCheck7_6.
Import ListNotations.
Local Open Scope Z_scope.

(* both lemmas are stated for an abstract predicate so that checking them never evaluates the sort *)
Lemma all_ok_S (P : list Z -> bool) (vs : list Z) (n : nat) (suffix : list Z) :
  all_ok vs (S n) P suffix = forallb (fun v => all_ok vs n P (v :: suffix)) vs.
Proof. reflexivity. Qed.
Lemma forallb_vals7 (Q : Z -> bool) : forallb Q (vals 7) = Q 0 && (Q 1 && (Q 2 && (Q 3 && (Q 4 && (Q 5 && (Q 6 && true)))))).
Proof. reflexivity. Qed.
Lemma check_7 : check_n 7 = true.
Proof.
  unfold check_n. rewrite all_ok_S, forallb_vals7.
  rewrite slice7_0, slice7_1, slice7_2, slice7_3, slice7_4, slice7_5, slice7_6. reflexivity.
Qed.
Lemma check_le7 n : (n <= 7)%nat -> check_n n = true.
Proof.
  intros H. destruct (Nat.eq_dec n 7) as [->|Hn]; [exact check_7|].
  pose proof check_upto6 as C. rewrite forallb_forall in C. apply C. apply in_seq. lia.
Qed.

Lemma sortedb_transfer (A : Type) (g key : A -> Z) (l : list A) :
  (forall a b, In a l -> In b l -> g a <= g b -> key a <= key b) -> sortedb (map g l) = true -> sortedb (map key l) = true.
Proof.
  induction l as [|a l IH]; intros H S; [reflexivity|]. destruct l as [|b r]; [reflexivity|].
  cbn [map sortedb] in *. apply andb_true_iff in S. destruct S as [S1 S2]. apply andb_true_iff. split.
  - apply Z.leb_le. apply Z.leb_le in S1. apply H; [left; reflexivity|right; left; reflexivity|exact S1].
  - apply IH; [|exact S2]. intros x y Hx Hy. apply H; right; assumption.
Qed.

Theorem smoothsort_sorted_small (A : Type) (cmp : A -> A -> Z) (key : A -> Z) (l : list A) :
  (forall a b, In a l -> In b l -> (0 <= cmp a b <-> key b <= key a) /\ (cmp a b <= 0 <-> key a <= key b)) ->
  (length l <= 7)%nat ->
  exists l' tr, smoothsort A cmp l = Some (l', tr) /\ Permutation l l' /\ sortedb (map key l') = true.
Proof.
  intros Hcmp Hlen. set (ks := map key l). set (g := fun a => rank ks (key a)).
  destruct (smoothsort A cmp l) as [[l' tr]|] eqn:E; [|exfalso; revert E; apply smoothsort_total].
  exists l', tr. split; [reflexivity|]. destruct (smoothsort_perm A cmp l l' tr E) as [P L]. split; [exact P|].
  assert (Hin : forall a, In a l -> In (key a) ks) by (intros a Ha; unfold ks; apply in_map; exact Ha).
  assert (Hc : forall a a', In a l -> In a' l ->
     (cmp a a' >=? 0) = (zcmp (g a) (g a') >=? 0) /\ (cmp a a' <=? 0) = (zcmp (g a) (g a') <=? 0)).
  { intros a a' Ha Ha'. unfold g. rewrite zcmp_rank by (apply Hin; assumption).
    destruct (Hcmp a a' Ha Ha') as [H1 H2]. unfold zcmp. split.
    - destruct (Z.compare_spec (key a) (key a')) as [Q|Q|Q]; destruct (cmp a a' >=? 0) eqn:G; try reflexivity;
        try (apply Z.geb_le in G); try (rewrite Z.geb_leb in G; apply Z.leb_gt in G); exfalso; lia.
    - destruct (Z.compare_spec (key a) (key a')) as [Q|Q|Q]; destruct (cmp a a' <=? 0) eqn:G; try reflexivity;
        try (apply Z.leb_le in G); try (apply Z.leb_gt in G); exfalso; lia. }
  pose proof (smoothsort_map A Z cmp zcmp g l Hc) as M. rewrite E in M. cbn [om mf2 fst snd] in M.
  assert (Hok : sorts_ok (map g l) = true).
  { pose proof (check_le7 (length l) Hlen) as C. unfold check_n in C.
    pose proof (all_ok_spec (vals (length l)) sorts_ok (length l) [] C (rev (map g l))) as S.
    rewrite rev_involutive, app_nil_r in S. apply S.
    - rewrite rev_length, map_length. reflexivity.
    - intros x Hx. apply in_rev in Hx. apply in_map_iff in Hx. destruct Hx as (a & <- & Ha). unfold vals.
      destruct (rank_bound ks (key a)) as [[R0 _] R]. specialize (R (Hin a Ha)).
      assert (Hlk : length ks = length l) by apply map_length. rewrite Hlk in R. fold (g a) in R0, R.
      apply in_map_iff. exists (Z.to_nat (g a)). split; [lia|]. apply in_seq. lia. }
  unfold sorts_ok in Hok. rewrite M in Hok.
  apply sortedb_transfer with (g := g); [|exact Hok].
  intros a b Ha Hb Hg. assert (Ha' : In a l) by (eapply Permutation_in; [symmetry; exact P|exact Ha]).
  assert (Hb' : In b l) by (eapply Permutation_in; [symmetry; exact P|exact Hb]).
  destruct (Z_le_gt_dec (key a) (key b)) as [Q|Q]; [exact Q|]. exfalso.
  destruct (rank_mono ks (key b) (key a)) as [_ R]; [lia|]. specialize (R (Hin b Hb')). unfold g in Hg. lia.
Qed.
