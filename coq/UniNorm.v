(* UniNorm.v -- C17: executable model of wcsnorm_s (NFD, NFC) over the library's own lookup graphs
   (Gen/UniTables.v, regenerated on every run), Hangul arithmetic, canonical reordering and the composition
   pass of _wcsnorm_compose_s_chk transcribed as a state machine.  No proofs here. *)
From Coq Require Import List ZArith Bool FMapPositive.
Import ListNotations.
Local Open Scope Z_scope.

Definition key (z : Z) : positive := Z.to_pos (z + 1).
Definition mk_map {A} (l : list (Z * A)) : PositiveMap.t A :=
  fold_right (fun kv m => PositiveMap.add (key (fst kv)) (snd kv) m) (PositiveMap.empty A) l.
Definition pair_key (a b : Z) : Z := a * 2097152 + b.

Record tables := mkTables {
  t_decomp : PositiveMap.t (list Z);
  t_ccc : PositiveMap.t Z;
  t_comp : PositiveMap.t Z;
  t_excl : PositiveMap.t unit }.
Definition build (d : list (Z * list Z)) (c : list (Z * Z)) (p : list (Z * Z * Z)) (x : list Z) : tables :=
  mkTables (mk_map d) (mk_map c) (mk_map (map (fun e => (pair_key (fst (fst e)) (snd (fst e)), snd e)) p))
           (mk_map (map (fun z => (z, tt)) x)).

(* Hangul (src/extwchar/hangul.h) *)
Definition SBase := 0xAC00. Definition LBase := 0x1100. Definition VBase := 0x1161. Definition TBase := 0x11A7.
Definition LCount := 19. Definition VCount := 21. Definition TCount := 28.
Definition NCount := VCount * TCount. Definition SCount := LCount * NCount.
Definition is_S (c : Z) := (SBase <=? c) && (c <? SBase + SCount).
Definition is_L (c : Z) := (LBase <=? c) && (c <? LBase + LCount).
Definition is_V (c : Z) := (VBase <=? c) && (c <? VBase + VCount).
Definition is_T (c : Z) := (TBase + 1 <=? c) && (c <? TBase + TCount).
Definition is_LV (c : Z) := is_S c && ((c - SBase) mod TCount =? 0).
Definition hangul_decomp (c : Z) : list Z :=
  let s := c - SBase in
  let l := LBase + s / NCount in
  let v := VBase + (s mod NCount) / TCount in
  let t := TBase + s mod TCount in
  if t =? TBase then [l; v] else [l; v; t].

Section WithTables.
Variable T : tables.
Definition ccc (c : Z) : Z := if c <? 0 then 0 else match PositiveMap.find (key c) (t_ccc T) with Some v => Z.max 0 v | None => 0 end.
Definition decomp (c : Z) : list Z :=
  if is_S c then hangul_decomp c
  else if c <? 0 then [c]
  else match PositiveMap.find (key c) (t_decomp T) with Some v => v | None => [c] end.
Definition excluded (c : Z) : bool := match PositiveMap.find (key c) (t_excl T) with Some _ => true | None => false end.
(* _composite_cp followed by the exclusion test; 0 = none *)
Definition composite (a b : Z) : Z :=
  if is_L a && is_V b then SBase + ((a - LBase) * VCount + (b - VBase)) * TCount
  else if is_LV a && is_T b then a + (b - TBase)
  else if (a <? 0) || (b <? 0) then 0
  else match PositiveMap.find (key (pair_key a b)) (t_comp T) with Some v => v | None => 0 end.
Definition compose2 (a b : Z) : option Z :=
  let c := composite a b in if (c =? 0) || excluded c then None else Some c.

(* canonical ordering: stable insertion by combining class (starters do not move, nothing passes a starter) *)
Fixpoint ins (c : Z) (l : list Z) : list Z :=
  match l with
  | [] => [c]
  | d :: t => if (0 <? ccc d) && (ccc d <? ccc c) then d :: ins c t else c :: l
  end.
(* ins moves c to the RIGHT past smaller classes; to sort we insert from the right end, so an element only
   passes elements that followed it: stable *)
Definition reorder (s : list Z) : list Z := fold_right ins [] s.
Definition nfd (s : list Z) : list Z := reorder (flat_map decomp s).

(* the composition pass of _wcsnorm_compose_s_chk (iscontig = false) *)
Record cst := mkC { c_valid : bool; c_S : Z; c_pre : Z; c_seq : list Z; c_out : list Z }.
Definition cinit := mkC false 0 0 [] [].
Definition flush (st : cst) (cp : Z) : cst :=
  mkC (c_valid st) cp (c_pre st) [] (c_out st ++ [c_S st] ++ c_seq st).
Definition cstep (st : cst) (cp : Z) (last : bool) : cst :=
  let cur := ccc cp in
  if negb (c_valid st) then
    if cur =? 0 then
      let st' := mkC true cp (c_pre st) (c_seq st) (c_out st) in
      if last then flush st' cp else st'
    else mkC false (c_S st) (c_pre st) (c_seq st) (c_out st ++ [cp])
  else
    let blocked := (negb (cur =? 0) && (c_pre st =? cur)) || (cur <? c_pre st) in
    match (if blocked then None else compose2 (c_S st) cp) with
    | Some comp =>
        let st' := mkC true comp (c_pre st) (c_seq st) (c_out st) in
        if last then flush st' cp else st'
    | None =>
        let seq' := if negb (cur =? 0) || last then c_seq st ++ [cp] else c_seq st in
        let st' := mkC true (c_S st) cur seq' (c_out st) in
        if negb (cur =? 0) && negb last then st' else flush st' cp
    end.
Fixpoint crun (st : cst) (s : list Z) : cst :=
  match s with
  | [] => st
  | [c] => cstep st c true
  | c :: t => crun (cstep st c false) t
  end.
Definition compose (s : list Z) : list Z := c_out (crun cinit s).
Definition nfc (s : list Z) : list Z := compose (nfd s).

(* the reference composition of UAX #15 D117, written independently: for every character C after the last starter S,
   C combines with S iff it is not blocked (no B between S and C with ccc(B) = 0 or ccc(B) >= ccc(C)) and a primary
   composite exists.  [pend] holds the uncombined characters since S, in reverse. *)
Fixpoint ref_go (out : list Z) (S : option Z) (pend : list Z) (s : list Z) : list Z :=
  match s with
  | [] => out ++ (match S with Some x => [x] | None => [] end) ++ rev pend
  | c :: t =>
      match S with
      | None => if ccc c =? 0 then ref_go out (Some c) [] t else ref_go (out ++ [c]) None [] t
      | Some x =>
          let blocked := existsb (fun b => (ccc b =? 0) || (ccc c <=? ccc b)) pend in
          match (if blocked then None else compose2 x c) with
          | Some y => ref_go out (Some y) pend t
          | None => if ccc c =? 0 then ref_go (out ++ [x] ++ rev pend) (Some c) [] t
                    else ref_go out S (c :: pend) t
          end
      end
  end.
Definition ref_compose (s : list Z) : list Z := ref_go [] None [] s.
End WithTables.

(* comparison of lookup graphs outside a list of exempt keys *)
Fixpoint list_eqb (a b : list Z) : bool :=
  match a, b with [], [] => true | x :: a', y :: b' => (x =? y) && list_eqb a' b' | _, _ => false end.
Definition mem (z : Z) (l : list Z) := existsb (Z.eqb z) l.
