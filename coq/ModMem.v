(* ModMem.v -- models of the memory family (8/16/32-bit and wchar_t variants). *)
From Coq Require Import List ZArith Lia Bool.
From SC Require Import Base Cfg Comb.
Import ListNotations.
Local Open Scope Z_scope.
Local Open Scope prog_scope.

(* mem_prim_set16/32: n elements of width w with value v *)
Fixpoint set_loop (w : Z) (n : nat) (d v : Z) : prog unit :=
  match n with O => Ret tt | S n' => Store w d v (set_loop w n' (d + w) v) end.
Definition prim_set (w d n v : Z) : prog unit :=
  if w =? 1 then Fill d n v (Ret tt)
  else if v =? 0 then Fill d (n * w) 0 (Ret tt)
  else set_loop w (Z.to_nat n) d v.

(* CHK_DEST_MEM_NULL; CHK_DMAX_MEM_ZERO; RSIZE / object size check (no clearing) *)
Definition chk_dest_mem (rmax d dmax destbos : Z) (k : unit -> prog Z) : prog Z :=
  if d =? 0 then fail_mem ESNULLP
  else if dmax =? 0 then fail_mem ESZEROL
  else if destbos =? BOS_UNKNOWN then (if rmax <? dmax then fail_mem ESLEMAX else k tt)
  else if destbos <? dmax then (if rmax <? dmax then fail_mem ESLEMAX else fail_mem EOVERFLOW)
  else k tt.

(* generic copy/move of [slen] elements of width [w]; [dmax] in bytes.
   use_bos_as_dmax: the 16/32-bit variants replace dmax by a known destbos.
   ovl: memcpy family rejects overlap (CHK_OVRLP_BUTSAME), memmove family does not.
   src_ovf_code / src_ovf_clear: behaviour of the "slen exceeds src" exit. *)
Definition mem_copy_gen (c : cfg) (w : Z) (rmax_d : Z) (use_bos_as_dmax ovl : bool)
           (src_ovf_code : Z) (src_ovf_clear : bool)
           (d dmax s slen destbos srcbos : Z) : prog Z :=
  if slen =? 0 then Ret EOK
  else
    let smax := slen * w in
    chk_dest_mem rmax_d d dmax destbos (fun _ =>
      let dmax' := if use_bos_as_dmax && negb (destbos =? BOS_UNKNOWN) then destbos else dmax in
      if s =? 0 then handle_mem_error d dmax' ESNULLP ;;; Ret ESNULLP
      else if dmax' <? smax then
        let err := if rmax_mem c <? smax then ESLEMAX else ESNOSPC in
        handle_mem_error d dmax' err ;;; Ret err
      else if negb (srcbos =? BOS_UNKNOWN) && (srcbos <? smax) then
        (if src_ovf_clear then Fill d dmax' 0 (Ret tt) else Ret tt) ;;; fail_mem src_ovf_code
      else if ovl && chk_ovrlp_butsame d (dmax' / w * w) s smax then
        Fill d dmax' 0 (fail_mem ESOVRLP)
      else Move d s smax (Ret EOK)).

Definition memcpy_s (c : cfg) d dmax s slen destbos srcbos :=
  mem_copy_gen c 1 (rmax_mem c) false true EOVERFLOW false d dmax s slen destbos srcbos.
Definition memmove_s (c : cfg) d dmax s slen destbos srcbos :=
  mem_copy_gen c 1 (rmax_mem c) false false EOVERFLOW false d dmax s slen destbos srcbos.
Definition memcpy16_s (c : cfg) d dmax s slen destbos srcbos :=
  mem_copy_gen c 2 (rmax_mem c) true true ESLEMAX false d dmax s slen destbos srcbos.
Definition memmove16_s (c : cfg) d dmax s slen destbos srcbos :=
  mem_copy_gen c 2 (rmax_mem c) true false EOVERFLOW false d dmax s slen destbos srcbos.
Definition memcpy32_s (c : cfg) d dmax s slen destbos srcbos :=
  mem_copy_gen c 4 (rmax_mem c) true true ESLEMAX false d dmax s slen destbos srcbos.
Definition memmove32_s (c : cfg) d dmax s slen destbos srcbos :=
  mem_copy_gen c 4 (rmax_mem c) true false EOVERFLOW false d dmax s slen destbos srcbos.

(* _memset_s_chk(dest, dmax, value, n, destbos); value is a C int *)
Definition memset_s (c : cfg) (d dmax value n destbos : Z) : prog Z :=
  if d =? 0 then fail_mem ESNULLP
  else if n =? 0 then Ret EOK
  else
    let cont (dmax' : Z) : prog Z :=
      if 255 <? value then fail_mem ESLEMAX
      else if dmax' <? n then
        let err := if rmax_mem c <? n then ESLEMAX else ESNOSPC in
        Handler HMem err (Fill d dmax' value (Ret err))
      else Fill d n value (Ret EOK) in
    if destbos =? BOS_UNKNOWN then (if rmax_mem c <? dmax then fail_mem ESLEMAX else cont dmax)
    else if destbos <? dmax then (if rmax_mem c <? dmax then fail_mem ESLEMAX else fail_mem EOVERFLOW)
    else cont destbos.

(* _memset16_s_chk / _memset32_s_chk(dest, dmax(bytes), value, n(elements), destbos) *)
Definition memsetw_s (c : cfg) (w rmaxw : Z) (d dmax value n destbos : Z) : prog Z :=
  if d =? 0 then fail_mem ESNULLP
  else if n =? 0 then Ret EOK
  else
    let cont (dmax' : Z) : prog Z :=
      if dmax' / w <? n then
        let err := if rmaxw <? n then ESLEMAX else ESNOSPC in
        Handler HMem err (prim_set w d (dmax' / w) value ;;; Ret err)
      else prim_set w d n value ;;; Ret EOK in
    if destbos =? BOS_UNKNOWN then (if rmax_mem c <? dmax then fail_mem ESLEMAX else cont dmax)
    else if destbos <? dmax then (if rmax_mem c <? dmax then fail_mem ESLEMAX else fail_mem EOVERFLOW)
    else cont destbos.
Definition memset16_s (c : cfg) := memsetw_s c 2 (rmax_mem16 c).
Definition memset32_s (c : cfg) := memsetw_s c 4 (rmax_mem32 c).

(* _memzero_s_chk(dest, len, destbos), 16/32: len in elements *)
Definition memzerow_s (c : cfg) (w : Z) (d len destbos : Z) : prog Z :=
  chk_dest_mem (rmax_mem c) d (len * w) destbos (fun _ => Fill d (len * w) 0 (Ret EOK)).
Definition memzero_s (c : cfg) := memzerow_s c 1.
Definition memzero16_s (c : cfg) := memzerow_s c 2.
Definition memzero32_s (c : cfg) := memzerow_s c 4.
