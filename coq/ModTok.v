(* ModTok.v -- models of strtok_s / wcstok_s (C14), following the C control flow, and a runner
   for whole call sequences with changing delimiter sets. *)
From Coq Require Import List ZArith Lia Bool.
From SC Require Import Base Cfg Comb.
Import ListNotations.
Local Open Scope Z_scope.
Local Open Scope prog_scope.

Inductive dres := DFound | DNot (compared : bool) | DUnterm.

Section Tok.
  Variables (c : cfg) (w : Z) (wide : bool).
  Variables (dmaxp ptr delim : Z).

  (* is ch in the delimiter list?  n = remaining STRTOK_DELIM_MAX_LEN *)
  Fixpoint delim_scan (n : nat) (pt ch : Z) (any : bool) : prog dres :=
    Load w pt (fun d =>
      if d =? 0 then Ret (DNot any)
      else match n with
           | O => Ret DUnterm
           | S n' => if ch =? d then Ret DFound else delim_scan n' (pt + w) ch true
           end).

  (* "delim is unterminated" exit (both phases) and "dest is unterminated" exit of phase 2 *)
  Definition tok_abort (d : Z) : prog Z :=
    Store 8 ptr 0 (Store 8 dmaxp 0 (Store w d 0 (Handler HStr ESUNTERM (Ret 0)))).

  (* phase 2: find the end of the token that starts at tok; n = remaining length *)
  Fixpoint tokend (n : nat) (d tok : Z) : prog Z :=
    Load w d (fun ch =>
      if ch =? 0 then Store 8 ptr d (Store 8 dmaxp (Z.of_nat n) (Ret tok))
      else match n with
           | O => tok_abort d
           | S n' =>
               r <- delim_scan (Z.to_nat (tok_delim_max c)) delim ch false ;;
               match r with
               | DUnterm => tok_abort d
               | DFound => Store w d 0 (Store 8 ptr (d + w) (Store 8 dmaxp (Z.of_nat n') (Ret tok)))
               | DNot _ => tokend n' (d + w) tok
               end
           end).

  (* phase 1: skip leading delimiters *)
  Fixpoint tokskip (n : nat) (d : Z) : prog Z :=
    Load w d (fun ch =>
      if ch =? 0 then Store 8 ptr d (Store 8 dmaxp (Z.of_nat n) (Ret 0))
      else match n with
           | O => if wide then tok_abort d else Store 8 ptr 0 (Handler HStr ESUNTERM (Ret 0))
           | S n' =>
               r <- delim_scan (Z.to_nat (tok_delim_max c)) delim ch false ;;
               match r with
               | DUnterm => tok_abort d
               | DFound => tokskip n' (d + w)
               | DNot false => tokskip n' (d + w)       (* empty delimiter list: nothing is a token start *)
               | DNot true => tokend n' (d + w) d
               end
           end).
End Tok.

(* _strtok_s_chk(dest, dmaxp, delim, ptr, destbos) *)
Definition strtok_s (c : cfg) (dest dmaxp delim ptr destbos : Z) : prog Z :=
  if dmaxp =? 0 then Handler HStr ESNULLP (Ret 0)
  else Load 8 dmaxp (fun dm =>
    if dm =? 0 then Handler HStr ESZEROL (Ret 0)
    else if delim =? 0 then Handler HStr ESNULLP (Ret 0)
    else if ptr =? 0 then Handler HStr ESNULLP (Ret 0)
    else
      let go (d : Z) : prog Z :=
        if (destbos =? BOS_UNKNOWN) || (dest =? 0)
        then (if rmax_str c <? dm then Handler HStr ESLEMAX (Ret 0) else tokskip c 1 false dmaxp ptr delim (Z.to_nat dm) d)
        else (if destbos <? dm then Handler HStr EOVERFLOW (Ret 0) else tokskip c 1 false dmaxp ptr delim (Z.to_nat dm) d) in
      if dest =? 0 then Load 8 ptr (fun d => if d =? 0 then Handler HStr ESNULLP (Ret 0) else go d)
      else go dest).

(* _wcstok_s_chk *)
Definition wcstok_s (c : cfg) (dest dmaxp delim ptr destbos : Z) : prog Z :=
  let w := wchar_w c in
  if dmaxp =? 0 then Handler HStr ESNULLP (Ret 0)
  else Load 8 dmaxp (fun dm =>
    if dm =? 0 then Handler HStr ESZEROL (Ret 0)
    else if rmax_wstr c <? dm then Handler HStr ESLEMAX (Ret 0)
    else if delim =? 0 then Handler HStr ESNULLP (Ret 0)
    else if ptr =? 0 then Handler HStr ESNULLP (Ret 0)
    else
      let go (d : Z) : prog Z :=
        if (destbos =? BOS_UNKNOWN) || (dest =? 0) then tokskip c w true dmaxp ptr delim (Z.to_nat dm) d
        else (if destbos <? dm * w then Handler HStr EOVERFLOW (Ret 0) else tokskip c w true dmaxp ptr delim (Z.to_nat dm) d) in
      if dest =? 0 then Load 8 ptr (fun d => if d =? 0 then Handler HStr ESNULLP (Ret 0) else go d)
      else go dest).

(* a whole sequence: call i uses the delimiter list at delims + i*slot; results per call:
   token offset (or -1), *dmaxp, *ptr offset (or -1), all relative to str in elements *)
Definition tok_slot := 24.
Definition rel (w str x : Z) : Z := if x =? 0 then -1 else (x - str) / w.
Fixpoint tok_seq (f : Z -> Z -> Z -> Z -> Z -> prog Z) (w : Z) (n : nat) (i : Z) (str delims state destbos : Z) : prog (list Z) :=
  match n with
  | O => Ret []
  | S n' =>
      r <- f (if i =? 0 then str else 0) state (delims + i * tok_slot * w) (state + 8) destbos ;;
      Load 8 state (fun dm => Load 8 (state + 8) (fun p =>
        rest <- tok_seq f w n' (i + 1) str delims state destbos ;;
        Ret (rel w str r :: dm :: rel w str p :: rest)))
  end.
Definition strtok_seq (c : cfg) (str dmax ncalls delims state destbos : Z) : prog (list Z) :=
  Store 8 state dmax (Store 8 (state + 8) 0 (tok_seq (strtok_s c) 1 (Z.to_nat ncalls) 0 str delims state destbos)).
Definition wcstok_seq (c : cfg) (str dmax ncalls delims state destbos : Z) : prog (list Z) :=
  Store 8 state dmax (Store 8 (state + 8) 0 (tok_seq (wcstok_s c) (wchar_w c) (Z.to_nat ncalls) 0 str delims state destbos)).
