(* EraseShape.v -- C18(b): the shape of the erase functions (which stores are volatile, where the barriers
   are) and what an optimiser is allowed to remove. *)
From Coq Require Import List Bool Arith.
Import ListNotations.

Inductive act :=
| AStoreV            (* store(s) through a volatile-qualified lvalue *)
| AStoreP            (* plain store(s), or a libc memset *)
| ABarrier           (* MEMORY_BARRIER / compiler memory clobber *)
| ACall (prim : nat) (* call of mem_prim_set / set16 / set32 (index into the primitive shapes) *)
| AExplicit.         (* explicit_bzero: not removable by contract *)

Definition is_barrier (a : act) : bool := match a with ABarrier => true | _ => false end.
Definition is_plain (a : act) : bool := match a with AStoreP => true | _ => false end.
Definition flatten (prims : list (list act)) (l : list act) : list act :=
  flat_map (fun a => match a with ACall i => nth i prims [AStoreP] | x => [x] end) l.

(* every plain store is followed, in program order, by a barrier *)
Fixpoint protected (l : list act) : bool :=
  match l with
  | [] => true
  | a :: t => (if is_plain a then existsb is_barrier t else true) && protected t
  end.

(* abstract optimiser: it may delete the actions selected by [drop], but only plain stores that no
   barrier follows (a store to a dying object that nothing can observe afterwards) *)
Fixpoint opt (drop : list bool) (l : list act) : list act :=
  match l, drop with
  | a :: t, d :: ds => if d && is_plain a && negb (existsb is_barrier t) then opt ds t else a :: opt ds t
  | l, [] => l
  | [], _ => []
  end.
Theorem protected_survives : forall l, protected l = true -> forall drop, opt drop l = l.
Proof.
  induction l as [|a t IH]; intros Hp drop; destruct drop as [|d ds]; cbn; auto.
  cbn in Hp. apply andb_prop in Hp. destruct Hp as [Ha Ht].
  destruct (is_plain a) eqn:E.
  - rewrite Ha. rewrite andb_false_r. f_equal. apply IH; auto.
  - rewrite andb_false_r. cbn. f_equal. apply IH; auto.
Qed.
(* and an unprotected shape can lose a store *)
Lemma unprotected_example : opt [true] [AStoreP] = [].
Proof. reflexivity. Qed.
