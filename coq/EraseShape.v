(* EraseShape.v -- C18(b): the shape of the erase functions (which stores are volatile, where the barriers
   are) and what an optimiser is allowed to remove. *)
From Coq Require Import List Bool Arith.
Import ListNotations.

Inductive act :=
| AStoreV            (* store(s) through a volatile-qualified lvalue *)
| AStoreP            (* plain store(s), or a libc memset *)
| ABarrier           (* MEMORY_BARRIER / compiler memory clobber *)
| ACall (prim : nat) (* call of mem_prim_set / set16 / set32 (index into the primitive shapes) *)
| AExplicit.         (* explicit_bzero: not removable by contract *)

Definition is_barrier (a : act) : bool := match a with ABarrier => true | _ => false end.
Definition is_plain (a : act) : bool := match a with AStoreP => true | _ => false end.
Definition flatten (prims : list (list act)) (l : list act) : list act :=
  flat_map (fun a => match a with ACall i => nth i prims [AStoreP] | x => [x] end) l.

(* every store is through a volatile lvalue (or is explicit_bzero).
   Round 4: the first version of this predicate also accepted a plain store followed by a barrier.  That is not what gcc does
   for an object that does not escape: built with -O2 -flto, the plain 64-bit word stores of mem_prim_set in front of
   _mm_mfence() were removed when the caller freed the buffer right after memset_s (harness/erase_client.c shows it; repaired
   by making the word stores volatile).  A barrier orders and keeps accesses to memory other code may see; it does not keep
   stores to a dying private object. *)
Fixpoint protected (l : list act) : bool :=
  match l with
  | [] => true
  | a :: t => negb (is_plain a) && protected t
  end.

(* abstract optimiser: it may delete the actions selected by [drop], but only plain stores *)
Fixpoint opt (drop : list bool) (l : list act) : list act :=
  match l, drop with
  | a :: t, d :: ds => if d && is_plain a then opt ds t else a :: opt ds t
  | l, [] => l
  | [], _ => []
  end.
Theorem protected_survives : forall l, protected l = true -> forall drop, opt drop l = l.
Proof.
  induction l as [|a t IH]; intros Hp drop; destruct drop as [|d ds]; cbn; auto.
  cbn in Hp. apply andb_prop in Hp. destruct Hp as [Ha Ht]. apply negb_true_iff in Ha. rewrite Ha, andb_false_r.
  f_equal. apply IH; auto.
Qed.
(* an unprotected shape can lose a store, barrier or not *)
Lemma unprotected_example : opt [true] [AStoreP] = [] /\ opt [true; false] [AStoreP; ABarrier] = [ABarrier].
Proof. split; reflexivity. Qed.
