(* ModExt2.v -- models of the remaining in-place entry points (round 4): strljustify_s, strremovews_s,
   wcsset_s, wcsnset_s.  Each follows the control flow of its C file.  The scans that the C code bounds
   only by the data (a terminator known to exist) run on fuel here; exhausted fuel answers -1, which no
   C outcome equals. *)
From Coq Require Import List ZArith Lia Bool.
From SC Require Import Base Cfg Comb ModExt.
Import ListNotations.
Local Open Scope Z_scope.
Local Open Scope prog_scope.

Definition is_ws (ch : Z) : bool := (ch =? 32) || (ch =? 9).
Definition OUT_OF_FUEL := -1.

(* "scan the string to be sure it is properly terminated":
   while ( *dest) { if (dmax == 0) { clear orig_dmax bytes; handler; return ESUNTERM; } dmax--; dest++; }
   reads dest[dmax] before it notices (known finding inplace-derefs-element-dmax) *)
Fixpoint term_scan (od odmax : Z) (n : nat) (d : Z) (k : Z -> prog Z) : prog Z :=
  Load 1 d (fun ch =>
    if ch =? 0 then k d
    else match n with
         | O => zero_loop 1 (Z.to_nat odmax) od ;;; Handler HStr ESUNTERM (Ret ESUNTERM)
         | S n' => term_scan od odmax n' (d + 1) k
         end).

(* while (( *dest == ' ') || ( *dest == '\t')) dest++; *)
Fixpoint skip_ws (fuel : nat) (d : Z) (k : Z -> prog Z) : prog Z :=
  match fuel with
  | O => Ret OUT_OF_FUEL
  | S f => Load 1 d (fun ch => if is_ws ch then skip_ws f (d + 1) k else k d)
  end.

(* while ( *dest) { *orig_dest++ = *dest; *dest++ = ' '; }   -- o < d throughout *)
Fixpoint shift_left (fuel : nat) (o d : Z) (k : Z -> Z -> prog Z) : prog Z :=
  match fuel with
  | O => Ret OUT_OF_FUEL
  | S f => Load 1 d (fun ch =>
      if ch =? 0 then k o d
      else Store 1 o ch (Store 1 d 32 (shift_left f (o + 1) (d + 1) k)))
  end.

Definition strljustify_s (c : cfg) (d dmax destbos : Z) : prog Z :=
  chk_dest_plain c d dmax destbos (fun _ =>
    if dmax <=? 1 then Store 1 d 0 (Ret EOK)
    else Load 1 d (fun ch0 =>
      if ch0 =? 0 then Ret EOK
      else term_scan d dmax (Z.to_nat dmax) d (fun _ =>
        let fuel := S (S (Z.to_nat dmax)) in
        skip_ws fuel d (fun p =>
          if p =? d then Ret EOK
          else shift_left fuel d p (fun o _ => Store 1 o 0 (Ret EOK)))))).

(* "strip trailing whitespace":  dest = orig_end; while (dest >= orig_dest && ws( *dest)) { *dest = 0; dest--; }
   n = number of characters between orig_dest and orig_end inclusive *)
Fixpoint strip_back (n : nat) (d : Z) : prog Z :=
  match n with
  | O => Ret EOK
  | S n' => Load 1 d (fun ch => if is_ws ch then Store 1 d 0 (strip_back n' (d - 1)) else Ret EOK)
  end.

Definition strremovews_s (c : cfg) (d dmax destbos : Z) : prog Z :=
  chk_dest_plain c d dmax destbos (fun _ =>
    Load 1 d (fun ch0 =>
      if (ch0 =? 0) || (dmax <=? 1) then Store 1 d 0 (Ret EOK)
      else term_scan d dmax (Z.to_nat dmax) d (fun e =>
        let fuel := S (S (Z.to_nat dmax)) in
        skip_ws fuel d (fun p =>
          (if p =? d then Ret tt
           else Load 1 p (fun chp =>
             if chp =? 0 then Ret tt
             else r <- shift_left fuel d p (fun _ p' => Store 1 p' 0 (Ret EOK)) ;; Ret tt)) ;;;
          strip_back (Z.to_nat (e - d)) (e - 1))))).

(* ---- wcsset_s / wcsnset_s ---- *)
Definition UNICODE_MAX := 1114111.
(* value arrives as the 32-bit pattern; the C comparison is on the signed wchar_t *)
Definition wc_signed (v : Z) : Z := let u := v mod 4294967296 in if u <? 2147483648 then u else u - 4294967296.

Definition chk_dest_wset (c : cfg) (d dmax value destbos : Z) (k : unit -> prog Z) : prog Z :=
  let w := wchar_w c in
  if d =? 0 then fail_str ESNULLP
  else if dmax =? 0 then fail_str ESZEROL
  else if UNICODE_MAX <? wc_signed value then fail_str ESLEMAX
  else if destbos =? BOS_UNKNOWN then (if rmax_wstr c <? dmax then fail_str ESLEMAX else k tt)
  else if destbos <? dmax * w then
    (if rmax_wstr c <? dmax then handle_error c w d (destbos / w) ESLEMAX ;;; Ret ESLEMAX
     else handle_error c w d (destbos / w) EOVERFLOW ;;; Ret EOVERFLOW)
  else k tt.

(* while (n && *dest) { *dest = value; n--; dest++; }  -- the count is tested first *)
Fixpoint wset_loop (w v : Z) (n : nat) (d : Z) (k : nat -> Z -> prog Z) : prog Z :=
  match n with
  | O => k O d
  | S n' => Load w d (fun ch => if ch =? 0 then k n d else Store w d v (wset_loop w v n' (d + w) k))
  end.
(* if (rem && !*dest) memset(dest, 0, rem * w)   -- after the fix: the count is tested before the re-read *)
Definition wslack_if_nul (c : cfg) (w rem d : Z) : prog Z :=
  if null_slack c then
    (if 0 <? rem then Load w d (fun ch => if ch =? 0 then Fill d (rem * w) 0 (Ret EOK) else Ret EOK) else Ret EOK)
  else Ret EOK.
Definition wcsset_s (c : cfg) (d dmax value destbos : Z) : prog Z :=
  let w := wchar_w c in
  chk_dest_wset c d dmax value destbos (fun _ =>
    wset_loop w (value mod 4294967296) (Z.to_nat dmax) d (fun rem d' => wslack_if_nul c w (Z.of_nat rem) d')).
Definition wcsnset_s (c : cfg) (d dmax value n destbos : Z) : prog Z :=
  let w := wchar_w c in
  chk_dest_wset c d dmax value destbos (fun _ =>
    if dmax <? n then handle_error c w d dmax ESNOSPC ;;; Ret ESNOSPC
    else wset_loop w (value mod 4294967296) (Z.to_nat n) d (fun _ d' => wslack_if_nul c w (dmax - (d' - d) / w) d')).
