(* Properties_C01.v -- C01: no write outside the declared destination.
   Only theorem statements, closed by [exact]; Print Assumptions under each. *)
From Coq Require Import List ZArith Lia Bool.
From SC Require Import Base Cfg Comb CombProofs ModStr ModMem ModExt ModExt2 ProofsStr ProofsMem ProofsExt ProofsExt2 PropDefs.
From SC.Gen Require Import Consts.
Import ListNotations.
Local Open Scope Z_scope.

Definition bos_ok (bytes destbos : Z) : Prop := destbos = BOS_UNKNOWN \/ bytes <= destbos.

Theorem C01_strcpy_s : forall c d dmax s destbos, 0 <= dmax -> bos_ok dmax destbos ->
  C01_holds (ext d dmax) (strcpy_s c d dmax s destbos).
Proof. intros. apply C01_from_writes. exact (strcpy_s_writes c d dmax s destbos H H0). Qed.
Print Assumptions C01_strcpy_s.

Theorem C01_strcat_s : forall c d dmax s destbos, 0 <= dmax -> bos_ok dmax destbos ->
  C01_holds (ext d dmax) (strcat_s c d dmax s destbos).
Proof. intros. apply C01_from_writes. exact (strcat_s_writes c d dmax s destbos H H0). Qed.
Print Assumptions C01_strcat_s.

Theorem C01_strncpy_s : forall c d dmax s slen destbos srcbos, 0 <= dmax -> bos_ok dmax destbos -> bos_ok slen srcbos ->
  C01_holds (ext d dmax) (strncpy_s c d dmax s slen destbos srcbos).
Proof. intros. apply C01_from_writes. exact (strncpy_s_writes c d dmax s slen destbos srcbos H H0 H1). Qed.
Print Assumptions C01_strncpy_s.

Theorem C01_strncat_s : forall c d dmax s slen destbos srcbos, 0 <= dmax -> bos_ok dmax destbos -> bos_ok slen srcbos ->
  C01_holds (ext d dmax) (strncat_s c d dmax s slen destbos srcbos).
Proof. intros. apply C01_from_writes. exact (strncat_s_writes c d dmax s slen destbos srcbos H H0 H1). Qed.
Print Assumptions C01_strncat_s.

Theorem C01_wcscpy_s : forall c d dmax s destbos, wf_cfg c -> 0 <= dmax -> bos_ok (dmax * wchar_w c) destbos ->
  C01_holds (ext d (dmax * wchar_w c)) (wcscpy_s c d dmax s destbos).
Proof. intros. apply C01_from_writes. exact (wcscpy_s_writes c d dmax s destbos H H0 H1). Qed.
Print Assumptions C01_wcscpy_s.

Theorem C01_strnlen_s : forall c str smax bos, C01_holds nowhere (strnlen_s c str smax bos).
Proof. intros. apply C01_from_writes. exact (strnlen_s_writes c str smax bos). Qed.
Print Assumptions C01_strnlen_s.

(* memory family. memcpy_s / memmove_s never replace dmax *)
Theorem C01_memcpy_s : forall c d dmax s slen destbos srcbos, 0 <= dmax -> 0 <= slen -> bos_ok dmax destbos ->
  C01_holds (ext d dmax) (memcpy_s c d dmax s slen destbos srcbos).
Proof. intros. apply C01_from_writes.
  exact (mem_copy_gen_writes c 1 (rmax_mem c) false true EOVERFLOW false d dmax s slen destbos srcbos Z.lt_0_1 H H0 H1). Qed.
Print Assumptions C01_memcpy_s.
Theorem C01_memmove_s : forall c d dmax s slen destbos srcbos, 0 <= dmax -> 0 <= slen -> bos_ok dmax destbos ->
  C01_holds (ext d dmax) (memmove_s c d dmax s slen destbos srcbos).
Proof. intros. apply C01_from_writes.
  exact (mem_copy_gen_writes c 1 (rmax_mem c) false false EOVERFLOW false d dmax s slen destbos srcbos Z.lt_0_1 H H0 H1). Qed.
Print Assumptions C01_memmove_s.

(* functions that bound the operation by a known object size ("dmax = destbos"):
   full statement about the extent really used, the property for destbos unknown or equal to dmax,
   and the refutation for destbos > dmax (known finding bos-replaces-dmax) *)
Theorem C01_memcpy16_s_extent : forall c d dmax s slen destbos srcbos, 0 <= dmax -> 0 <= slen -> bos_ok dmax destbos ->
  C01_holds (ext d (eff_dmax true dmax destbos)) (memcpy16_s c d dmax s slen destbos srcbos).
Proof. intros. apply C01_from_writes.
  exact (mem_copy_gen_writes c 2 (rmax_mem c) true true ESLEMAX false d dmax s slen destbos srcbos ltac:(lia) H H0 H1). Qed.
Print Assumptions C01_memcpy16_s_extent.
Theorem C01_memmove16_s_extent : forall c d dmax s slen destbos srcbos, 0 <= dmax -> 0 <= slen -> bos_ok dmax destbos ->
  C01_holds (ext d (eff_dmax true dmax destbos)) (memmove16_s c d dmax s slen destbos srcbos).
Proof. intros. apply C01_from_writes.
  exact (mem_copy_gen_writes c 2 (rmax_mem c) true false EOVERFLOW false d dmax s slen destbos srcbos ltac:(lia) H H0 H1). Qed.
Print Assumptions C01_memmove16_s_extent.
Theorem C01_memcpy32_s_extent : forall c d dmax s slen destbos srcbos, 0 <= dmax -> 0 <= slen -> bos_ok dmax destbos ->
  C01_holds (ext d (eff_dmax true dmax destbos)) (memcpy32_s c d dmax s slen destbos srcbos).
Proof. intros. apply C01_from_writes.
  exact (mem_copy_gen_writes c 4 (rmax_mem c) true true ESLEMAX false d dmax s slen destbos srcbos ltac:(lia) H H0 H1). Qed.
Print Assumptions C01_memcpy32_s_extent.
Theorem C01_memmove32_s_extent : forall c d dmax s slen destbos srcbos, 0 <= dmax -> 0 <= slen -> bos_ok dmax destbos ->
  C01_holds (ext d (eff_dmax true dmax destbos)) (memmove32_s c d dmax s slen destbos srcbos).
Proof. intros. apply C01_from_writes.
  exact (mem_copy_gen_writes c 4 (rmax_mem c) true false EOVERFLOW false d dmax s slen destbos srcbos ltac:(lia) H H0 H1). Qed.
Print Assumptions C01_memmove32_s_extent.
Theorem C01_memset_s_extent : forall c d dmax v n destbos, 0 <= dmax -> 0 <= n -> bos_ok dmax destbos ->
  C01_holds (ext d (eff_dmax true dmax destbos)) (memset_s c d dmax v n destbos).
Proof. intros. apply C01_from_writes. exact (memset_s_writes c d dmax v n destbos H H0 H1). Qed.
Print Assumptions C01_memset_s_extent.
Theorem C01_memset16_s_extent : forall c d dmax v n destbos, 0 <= dmax -> 0 <= n -> bos_ok dmax destbos ->
  C01_holds (ext d (eff_dmax true dmax destbos)) (memset16_s c d dmax v n destbos).
Proof. intros. apply C01_from_writes. exact (memsetw_s_writes c 2 (rmax_mem16 c) d dmax v n destbos ltac:(lia) H H0 H1). Qed.
Print Assumptions C01_memset16_s_extent.
Theorem C01_memset32_s_extent : forall c d dmax v n destbos, 0 <= dmax -> 0 <= n -> bos_ok dmax destbos ->
  C01_holds (ext d (eff_dmax true dmax destbos)) (memset32_s c d dmax v n destbos).
Proof. intros. apply C01_from_writes. exact (memsetw_s_writes c 4 (rmax_mem32 c) d dmax v n destbos ltac:(lia) H H0 H1). Qed.
Print Assumptions C01_memset32_s_extent.

(* outside the known-finding region (object size unknown, or equal to dmax) the extent is dest[0..dmax) *)
Theorem C01_bos_replaces_dmax_except : forall dmax destbos,
  (destbos = BOS_UNKNOWN \/ destbos = dmax) -> eff_dmax true dmax destbos = dmax.
Proof. intros dmax destbos [->| ->]; unfold eff_dmax; cbn; [reflexivity|]. destruct (dmax =? BOS_UNKNOWN); reflexivity. Qed.
Print Assumptions C01_bos_replaces_dmax_except.
(* inside it the declared extent is exceeded: memset_s(d, 4, 'A', 8, destbos = 8) writes d+4..d+7 *)
Theorem C01_memset_s_refuted : exists c d dmax v n destbos, 0 <= dmax /\ bos_ok dmax destbos /\
  ~ C01_holds (ext d dmax) (memset_s c d dmax v n destbos).
Proof.
  exists cfg_default, 1000, 4, 65, 8, 8. split; [lia|]. split; [right; lia|].
  intros H. destruct (H nofail (fun _ => 0)) as [F _]. specialize (F 1005).
  assert (~ ext 1000 4 1005) as N by (unfold ext; lia). specialize (F N). vm_compute in F. discriminate.
Qed.
Print Assumptions C01_memset_s_refuted.

Theorem C01_memzero_s : forall c d len destbos, 0 <= len -> bos_ok (len * 1) destbos ->
  C01_holds (ext d (len * 1)) (memzero_s c d len destbos).
Proof. intros. apply C01_from_writes. exact (memzerow_s_writes c 1 d len destbos Z.lt_0_1 H H0). Qed.
Print Assumptions C01_memzero_s.
Theorem C01_memzero16_s : forall c d len destbos, 0 <= len -> bos_ok (len * 2) destbos ->
  C01_holds (ext d (len * 2)) (memzero16_s c d len destbos).
Proof. intros. apply C01_from_writes. exact (memzerow_s_writes c 2 d len destbos ltac:(lia) H H0). Qed.
Print Assumptions C01_memzero16_s.
Theorem C01_memzero32_s : forall c d len destbos, 0 <= len -> bos_ok (len * 4) destbos ->
  C01_holds (ext d (len * 4)) (memzero32_s c d len destbos).
Proof. intros. apply C01_from_writes. exact (memzerow_s_writes c 4 d len destbos ltac:(lia) H H0). Qed.
Print Assumptions C01_memzero32_s.

(* ---- round 3: in-place string functions, field copies, memccpy_s, wide memory copies, pointer-returning copies ----
   any object size the library is told (destbos) only needs to be positive: on the "dmax exceeds the object" exits
   the clear is bounded by destbos < dmax *)
Definition bos_pos (destbos : Z) : Prop := destbos = BOS_UNKNOWN \/ 1 <= destbos.
Theorem C01_strtolowercase_s : forall c d dmax destbos, 0 <= dmax -> C01_holds (ext d dmax) (strtolowercase_s c d dmax destbos).
Proof. intros. apply C01_from_writes. exact (strtolowercase_s_writes c d dmax destbos H). Qed.
Print Assumptions C01_strtolowercase_s.
Theorem C01_strtouppercase_s : forall c d dmax destbos, 0 <= dmax -> C01_holds (ext d dmax) (strtouppercase_s c d dmax destbos).
Proof. intros. apply C01_from_writes. exact (strtouppercase_s_writes c d dmax destbos H). Qed.
Print Assumptions C01_strtouppercase_s.
Theorem C01_strset_s : forall c d dmax value destbos, 0 <= dmax -> C01_holds (ext d dmax) (strset_s c d dmax value destbos).
Proof. intros. apply C01_from_writes. exact (strset_s_writes c d dmax value destbos H). Qed.
Print Assumptions C01_strset_s.
Theorem C01_strnset_s : forall c d dmax value n destbos, 0 <= dmax -> 0 <= n -> C01_holds (ext d dmax) (strnset_s c d dmax value n destbos).
Proof. intros. apply C01_from_writes. exact (strnset_s_writes c d dmax value n destbos H H0). Qed.
Print Assumptions C01_strnset_s.
Theorem C01_wcsset_s : forall c d dmax value destbos, 0 < wchar_w c -> 0 <= dmax ->
  (destbos = BOS_UNKNOWN \/ dmax * wchar_w c <= destbos) -> C01_holds (ext d (dmax * wchar_w c)) (wcsset_s c d dmax value destbos).
Proof. intros. apply C01_from_writes. exact (wcsset_s_writes c d dmax value destbos H H0 H1). Qed.
Print Assumptions C01_wcsset_s.
Theorem C01_wcsnset_s : forall c d dmax value n destbos, 0 < wchar_w c -> 0 <= dmax -> 0 <= n ->
  (destbos = BOS_UNKNOWN \/ dmax * wchar_w c <= destbos) -> C01_holds (ext d (dmax * wchar_w c)) (wcsnset_s c d dmax value n destbos).
Proof. intros. apply C01_from_writes. exact (wcsnset_s_writes c d dmax value n destbos H H0 H1 H2). Qed.
Print Assumptions C01_wcsnset_s.
Theorem C01_strnterminate_s : forall c d dmax destbos, 0 <= dmax -> C01_holds (ext d dmax) (strnterminate_s c d dmax destbos).
Proof. intros. apply C01_from_writes. exact (strnterminate_s_writes c d dmax destbos H). Qed.
Print Assumptions C01_strnterminate_s.
Theorem C01_strcpyfld_s : forall c d dmax s slen destbos, 0 <= dmax -> 0 <= slen -> bos_pos destbos ->
  C01_holds (ext d dmax) (strcpyfld_s c d dmax s slen destbos).
Proof. intros. apply C01_from_writes. exact (strcpyfld_s_writes c d dmax s slen destbos H H0 H1). Qed.
Print Assumptions C01_strcpyfld_s.
Theorem C01_strcpyfldin_s : forall c d dmax s slen destbos, 0 <= dmax -> bos_pos destbos ->
  C01_holds (ext d dmax) (strcpyfldin_s c d dmax s slen destbos).
Proof. intros. apply C01_from_writes. exact (strcpyfldin_s_writes c d dmax s slen destbos H H0). Qed.
Print Assumptions C01_strcpyfldin_s.
Theorem C01_strcpyfldout_s : forall c d dmax s slen destbos, 0 <= dmax -> bos_pos destbos ->
  C01_holds (ext d dmax) (strcpyfldout_s c d dmax s slen destbos).
Proof. intros. apply C01_from_writes. exact (strcpyfldout_s_writes c d dmax s slen destbos H H0). Qed.
Print Assumptions C01_strcpyfldout_s.
Theorem C01_memccpy_s : forall c d dmax s ch n destbos srcbos, 0 <= dmax -> C01_holds (ext d dmax) (memccpy_s c d dmax s ch n destbos srcbos).
Proof. intros. apply C01_from_writes. exact (memccpy_s_writes c d dmax s ch n destbos srcbos H). Qed.
Print Assumptions C01_memccpy_s.
Theorem C01_wmemcpy_s : forall c d dlen s count destbos srcbos, wf_cfg c -> 0 <= dlen -> 0 <= count ->
  C01_holds (ext d (dlen * wchar_w c)) (wmemcpy_s c d dlen s count destbos srcbos).
Proof. intros. apply C01_from_writes. exact (wmem_copy_writes c true (rmax_mem c) d dlen s count destbos srcbos H H0 H1). Qed.
Print Assumptions C01_wmemcpy_s.
Theorem C01_wmemmove_s : forall c d dlen s count destbos srcbos, wf_cfg c -> 0 <= dlen -> 0 <= count ->
  C01_holds (ext d (dlen * wchar_w c)) (wmemmove_s c d dlen s count destbos srcbos).
Proof. intros. apply C01_from_writes. exact (wmem_copy_writes c false (rmax_mem c / wchar_w c) d dlen s count destbos srcbos H H0 H1). Qed.
Print Assumptions C01_wmemmove_s.
(* the pointer-returning copies store into dest[0..dmax) and the 4 bytes of *errp, nothing else *)
Theorem C01_stpcpy_s : forall c d dmax s errp destbos srcbos, 0 <= dmax -> bos_pos destbos ->
  C01_holds (stpP d dmax errp) (stpcpy_s c d dmax s errp destbos srcbos).
Proof. intros. apply C01_from_writes. exact (stpcpy_s_writes c d dmax s errp destbos srcbos H H0). Qed.
Print Assumptions C01_stpcpy_s.
Theorem C01_stpncpy_s : forall c d dmax s slen errp destbos srcbos, 0 <= dmax -> bos_pos destbos -> bos_ok slen srcbos ->
  C01_holds (stpP d dmax errp) (stpncpy_s c d dmax s slen errp destbos srcbos).
Proof. intros. apply C01_from_writes. exact (stpncpy_s_writes c d dmax s slen errp destbos srcbos H H0 H1). Qed.
Print Assumptions C01_stpncpy_s.

(* the configuration of the working tree satisfies the side conditions (regenerated every run) *)
Theorem C01_cfg_repo_wf : wf_cfg cfg_repo.
Proof. exact wf_cfg_repo. Qed.
Print Assumptions C01_cfg_repo_wf.

(* non-vacuity: a concrete non-trivial call meets the hypotheses and runs *)
Example C01_example : let m := fun a => if a =? 2003 then 0 else 97 in
  fst (fst (exec (strcpy_s cfg_default 1000 8 2000 BOS_UNKNOWN) m)) = EOK.
Proof. vm_compute. reflexivity. Qed.
